(* C06 -- linear, affine and quaternion transforms obey their algebra and agree.
   Every statement is about the definitions REGENERATED from /repo's headers (gen/GenLin.v, cxx2coq, Tie A),
   read in the ideal interpretation IR over the real numbers (Sem.v).  Proofs are in Proofs*.v. *)
From Coq Require Import Reals List Bool ZArith.
From Common Require Import CxxSem.
From C06 Require Import GenLin Sem ProofsLin ProofsRot ProofsQuat ProofsBranch ProofsSlerp ProofsFrame Ortho ProofsOrtho ProofsNonvac.
Local Open Scope R_scope.

Theorem inverse2_mul :
  forall (M : M2),
  det2 M <> 0 -> mul2 M (inv2 M) = one2 /\ mul2 (inv2 M) M = one2.
Proof. exact ProofsLin.inverse2_mul. Qed.
Print Assumptions inverse2_mul.

Theorem inverse3_mul :
  forall (M : M3),
  det3 M <> 0 -> mul3 M (inv3 M) = one3 /\ mul3 (inv3 M) M = one3.
Proof. exact ProofsLin.inverse3_mul. Qed.
Print Assumptions inverse3_mul.

Theorem affine_rcp_mul :
  forall (A : A3),
  det3 (AffineSpaceT_LinearSpace3_vec3_l A) <> 0 ->
  mulA3 (rcp__AffineSpaceT_LinearSpace3_v3f IR A) A = oneA3 /\ mulA3 A (rcp__AffineSpaceT_LinearSpace3_v3f IR A) = oneA3.
Proof. exact ProofsLin.affine_rcp_mul. Qed.
Print Assumptions affine_rcp_mul.

Theorem affine2_rcp_mul :
  forall (A : A2),
  det2 (AffineSpaceT_LinearSpace2_vec2_l A) <> 0 ->
  mulA2 (rcp__AffineSpaceT_LinearSpace2_v2f IR A) A = oneA2 /\ mulA2 A (rcp__AffineSpaceT_LinearSpace2_v2f IR A) = oneA2.
Proof. exact ProofsLin.affine2_rcp_mul. Qed.
Print Assumptions affine2_rcp_mul.

Theorem compose_apply :
  forall (A B : A3) (p : V3),
  xfmPointA (mulA3 A B) p = xfmPointA A (xfmPointA B p).
Proof. exact ProofsLin.compose_apply. Qed.
Print Assumptions compose_apply.

Theorem det2_mul :
  forall (M N : M2),
  det2 (mul2 M N) = det2 M * det2 N.
Proof. exact ProofsLin.det2_mul. Qed.
Print Assumptions det2_mul.

Theorem det3_mul :
  forall (M N : M3),
  det3 (mul3 M N) = det3 M * det3 N.
Proof. exact ProofsLin.det3_mul. Qed.
Print Assumptions det3_mul.

Theorem transposed3_def :
  forall a b c d e f g h i,
  transposed3 (rows3 a b c d e f g h i) = rows3 a d g b e h c f i.
Proof. exact ProofsLin.transposed3_def. Qed.
Print Assumptions transposed3_def.

Theorem adjoint3_def :
  forall a b c d e f g h i,
  adjoint3 (rows3 a b c d e f g h i) =
  rows3 (e * i - f * h) (- (b * i - c * h)) (b * f - c * e)
        (- (d * i - f * g)) (a * i - c * g) (- (a * f - c * d))
        (d * h - e * g) (- (a * h - b * g)) (a * e - b * d).
Proof. exact ProofsLin.adjoint3_def. Qed.
Print Assumptions adjoint3_def.

Theorem rows3_def :
  forall a b c d e f g h i,
  LinearSpace3_row0__ IR (rows3 a b c d e f g h i) = v3 a b c /\
  LinearSpace3_row1__ IR (rows3 a b c d e f g h i) = v3 d e f /\
  LinearSpace3_row2__ IR (rows3 a b c d e f g h i) = v3 g h i.
Proof. exact ProofsLin.rows3_def. Qed.
Print Assumptions rows3_def.

Theorem xfmPoint_def :
  forall (A : A3) (p : V3),
  xfmPointA A p = add3 (apply3 (AffineSpaceT_LinearSpace3_vec3_l A) p) (AffineSpaceT_LinearSpace3_vec3_p A).
Proof. exact ProofsLin.xfmPoint_def. Qed.
Print Assumptions xfmPoint_def.

Theorem xfmVector_def :
  forall (A : A3) (v : V3),
  xfmVectorA A v = apply3 (AffineSpaceT_LinearSpace3_vec3_l A) v /\
  xfmVectorL (AffineSpaceT_LinearSpace3_vec3_l A) v = apply3 (AffineSpaceT_LinearSpace3_vec3_l A) v /\
  xfmPointL (AffineSpaceT_LinearSpace3_vec3_l A) v = apply3 (AffineSpaceT_LinearSpace3_vec3_l A) v.
Proof. exact ProofsLin.xfmVector_def. Qed.
Print Assumptions xfmVector_def.

Theorem xfmNormal_def :
  forall (A : A3) (n : V3),
  xfmNormalA A n = apply3 (transposed3 (inv3 (AffineSpaceT_LinearSpace3_vec3_l A))) n /\
  xfmNormalL (AffineSpaceT_LinearSpace3_vec3_l A) n = apply3 (transposed3 (inv3 (AffineSpaceT_LinearSpace3_vec3_l A))) n.
Proof. exact ProofsLin.xfmNormal_def. Qed.
Print Assumptions xfmNormal_def.

Theorem xfmNormal_preserves_orthogonality :
  forall (M : M3) (n v : V3),
  det3 M <> 0 -> dot3 (xfmNormalL M n) (apply3 M v) = dot3 n v.
Proof. exact ProofsLin.xfmNormal_preserves_orthogonality. Qed.
Print Assumptions xfmNormal_preserves_orthogonality.

Theorem scale_def :
  forall x y z,
  LinearSpace3_scale__v3f IR (v3 x y z) = rows3 x 0 0 0 y 0 0 0 z /\
  LinearSpace2_scale__v2f IR (v2 x y) = rows2 x 0 0 y /\
  AffineSpaceT_LinearSpace3_v3f_scale__v3f IR (v3 x y z) = mk_AffineSpaceT_LinearSpace3_vec3 IR (rows3 x 0 0 0 y 0 0 0 z) (v3 0 0 0).
Proof. exact ProofsLin.scale_def. Qed.
Print Assumptions scale_def.

Theorem translate_def :
  forall (t p : V3),
  AffineSpaceT_LinearSpace3_v3f_translate__v3f IR t = mk_AffineSpaceT_LinearSpace3_vec3 IR one3 t /\
  xfmPointA (AffineSpaceT_LinearSpace3_v3f_translate__v3f IR t) p = add3 p t.
Proof. exact ProofsLin.translate_def. Qed.
Print Assumptions translate_def.

Theorem rotate3_rodrigues_general :
  forall (u v : V3) (r : R),
  apply3 (rotate3 u r) v = rodrigues (normalize3 u) v r.
Proof. exact ProofsRot.rotate3_rodrigues_general. Qed.
Print Assumptions rotate3_rodrigues_general.

Theorem rotate3_rodrigues :
  forall (u v : V3) (r : R),
  dot3 u u = 1 -> apply3 (rotate3 u r) v = rodrigues u v r.
Proof. exact ProofsRot.rotate3_rodrigues. Qed.
Print Assumptions rotate3_rodrigues.

Theorem rotate3_orthogonal :
  forall (u : V3) (r : R),
  dot3 u u = 1 -> mul3 (transposed3 (rotate3 u r)) (rotate3 u r) = one3 /\ mul3 (rotate3 u r) (transposed3 (rotate3 u r)) = one3.
Proof. exact ProofsRot.rotate3_orthogonal. Qed.
Print Assumptions rotate3_orthogonal.

Theorem rotate3_det_one :
  forall (u : V3) (r : R),
  dot3 u u = 1 -> det3 (rotate3 u r) = 1.
Proof. exact ProofsRot.rotate3_det_one. Qed.
Print Assumptions rotate3_det_one.

Theorem rotate3_fixes_axis :
  forall (u : V3) (r : R),
  dot3 u u = 1 -> apply3 (rotate3 u r) u = u.
Proof. exact ProofsRot.rotate3_fixes_axis. Qed.
Print Assumptions rotate3_fixes_axis.

Theorem rotate3_angle :
  forall (u v : V3) (r : R),
  dot3 u u = 1 -> dot3 u v = 0 ->
  dot3 (apply3 (rotate3 u r) v) v = cos r * dot3 v v /\
  dot3 (apply3 (rotate3 u r) v) (apply3 (rotate3 u r) v) = dot3 v v /\
  dot3 (cross3 v (apply3 (rotate3 u r) v)) u = sin r * dot3 v v.
Proof. exact ProofsRot.rotate3_angle. Qed.
Print Assumptions rotate3_angle.

Theorem rotate2_def :
  forall (r : R),
  rotate2 r = rows2 (cos r) (- sin r) (sin r) (cos r).
Proof. exact ProofsRot.rotate2_def. Qed.
Print Assumptions rotate2_def.

Theorem rotate2_orthogonal_det :
  forall (r : R),
  mul2 (transposed2 (rotate2 r)) (rotate2 r) = one2 /\ det2 (rotate2 r) = 1.
Proof. exact ProofsRot.rotate2_orthogonal_det. Qed.
Print Assumptions rotate2_orthogonal_det.

Theorem rotate_about_point_fixes_p :
  forall (p u : V3) (r : R),
  xfmPointA (AffineSpaceT_LinearSpace3_v3f_rotate__v3f_v3f_f IR p u r) p = p.
Proof. exact ProofsRot.rotate_about_point_fixes_p. Qed.
Print Assumptions rotate_about_point_fixes_p.

Theorem rotate2_about_point_fixes_p :
  forall (p : V2) (r : R),
  let A := AffineSpaceT_LinearSpace2_v2f_rotate__v2f_f IR p r in
  op_add__v2f_v2f IR (apply2 (AffineSpaceT_LinearSpace2_vec2_l A) p) (AffineSpaceT_LinearSpace2_vec2_p A) = p /\
  AffineSpaceT_LinearSpace2_vec2_l A = rotate2 r.
Proof. exact ProofsRot.rotate2_about_point_fixes_p. Qed.
Print Assumptions rotate2_about_point_fixes_p.

Theorem quat_mul_def :
  forall r1 i1 j1 k1 r2 i2 j2 k2,
  qmul (quat r1 i1 j1 k1) (quat r2 i2 j2 k2) =
  quat (r1 * r2 - i1 * i2 - j1 * j2 - k1 * k2)
       (r1 * i2 + i1 * r2 + j1 * k2 - k1 * j2)
       (r1 * j2 - i1 * k2 + j1 * r2 + k1 * i2)
       (r1 * k2 + i1 * j2 - j1 * i2 + k1 * r2).
Proof. exact ProofsQuat.quat_mul_def. Qed.
Print Assumptions quat_mul_def.

Theorem quat_mul_compose :
  forall (p q : Qt) (v : V3),
  qrot (qmul p q) v = qrot p (qrot q v).
Proof. exact ProofsQuat.quat_mul_compose. Qed.
Print Assumptions quat_mul_compose.

Theorem quat_to_matrix_apply :
  forall (q : Qt) (v : V3),
  apply3 (mat_of_quat q) v = qrot q v.
Proof. exact ProofsQuat.quat_to_matrix_apply. Qed.
Print Assumptions quat_to_matrix_apply.

Theorem quat_matrix_is_rotation :
  forall (q : Qt),
  qdot q q = 1 ->
  mul3 (transposed3 (mat_of_quat q)) (mat_of_quat q) = one3 /\ det3 (mat_of_quat q) = 1.
Proof. exact ProofsQuat.quat_matrix_is_rotation. Qed.
Print Assumptions quat_matrix_is_rotation.

Theorem quat_conj_rcp_normalize :
  forall (q : Qt),
  qconj q = quat (QuaternionT_s_r q) (- QuaternionT_s_i q) (- QuaternionT_s_j q) (- QuaternionT_s_k q) /\
  (qdot q q <> 0 -> qmul q (qrcp q) = qone /\ qmul (qrcp q) q = qone) /\
  (0 < qdot q q -> qdot (qnormalize q) (qnormalize q) = 1).
Proof. exact ProofsQuat.quat_conj_rcp_normalize. Qed.
Print Assumptions quat_conj_rcp_normalize.

Theorem quat_rotate_matches_matrix :
  forall (u : V3) (r : R),
  dot3 u u = 1 -> mat_of_quat (qrotate u r) = rotate3 u r.
Proof. exact ProofsQuat.quat_rotate_matches_matrix. Qed.
Print Assumptions quat_rotate_matches_matrix.

Theorem quat_ypr :
  forall (yaw pitch roll : R),
  quat_ypr_ctor yaw pitch roll = qmul (qmul (qrotY yaw) (qrotX pitch)) (qrotZ roll).
Proof. exact ProofsQuat.quat_ypr. Qed.
Print Assumptions quat_ypr.

Theorem double_quaternion_same_formulas :
  op_mul__QuaternionT_d_QuaternionT_d IR = qmul /\ op_mul__QuaternionT_d_v3d IR = qrot /\
  QuaternionT_d_mk__d_d_d IR = quat_ypr_ctor /\ QuaternionT_d_rotate__v3d_d IR = qrotate /\
  QuaternionT_d_mk__v3d_v3d_v3d IR = QuaternionT_f_mk__v3f_v3f_v3f IR /\
  slerp__f_QuaternionT_d_QuaternionT_d IR = slerp__f_QuaternionT_f_QuaternionT_f IR.
Proof. exact ProofsQuat.double_quaternion_same_formulas. Qed.
Print Assumptions double_quaternion_same_formulas.

Theorem quat_from_matrix_branch1 :
  forall (q : Qt),
  qdot q q = 1 -> guard1 q -> from_own_matrix q = q \/ from_own_matrix q = qneg q.
Proof. exact ProofsBranch.quat_from_matrix_branch1. Qed.
Print Assumptions quat_from_matrix_branch1.

Theorem quat_from_matrix_branch2 :
  forall (q : Qt),
  qdot q q = 1 -> ~ guard1 q -> guard2 q -> from_own_matrix q = q \/ from_own_matrix q = qneg q.
Proof. exact ProofsBranch.quat_from_matrix_branch2. Qed.
Print Assumptions quat_from_matrix_branch2.

Theorem quat_from_matrix_branch3 :
  forall (q : Qt),
  qdot q q = 1 -> ~ guard1 q -> ~ guard2 q -> guard3 q -> from_own_matrix q = q \/ from_own_matrix q = qneg q.
Proof. exact ProofsBranch.quat_from_matrix_branch3. Qed.
Print Assumptions quat_from_matrix_branch3.

Theorem quat_from_matrix_branch4 :
  forall (q : Qt),
  qdot q q = 1 -> ~ guard1 q -> ~ guard2 q -> ~ guard3 q -> from_own_matrix q = q \/ from_own_matrix q = qneg q.
Proof. exact ProofsBranch.quat_from_matrix_branch4. Qed.
Print Assumptions quat_from_matrix_branch4.

Theorem quat_from_matrix_guards_exhaustive :
  forall (q : Qt),
  guard1 q \/ (~ guard1 q /\ guard2 q) \/ (~ guard1 q /\ ~ guard2 q /\ guard3 q) \/
  (~ guard1 q /\ ~ guard2 q /\ ~ guard3 q).
Proof. exact ProofsBranch.quat_from_matrix_guards_exhaustive. Qed.
Print Assumptions quat_from_matrix_guards_exhaustive.

Theorem quat_from_matrix_roundtrip :
  forall (q : Qt),
  qdot q q = 1 -> from_own_matrix q = q \/ from_own_matrix q = qneg q.
Proof. exact ProofsBranch.quat_from_matrix_roundtrip. Qed.
Print Assumptions quat_from_matrix_roundtrip.

Theorem slerp_formula :
  forall (t : R) (a b : Qt),
  0 <= qdot a b -> qdot a b <= thr -> slerp t a b = slerp_spec t a b (qdot a b).
Proof. exact ProofsSlerp.slerp_formula. Qed.
Print Assumptions slerp_formula.

Theorem slerp_short_way :
  forall (t : R) (a b : Qt),
  qdot a b < 0 -> - qdot a b <= thr -> slerp t a b = slerp_spec t (qneg a) b (- qdot a b).
Proof. exact ProofsSlerp.slerp_short_way. Qed.
Print Assumptions slerp_short_way.

Theorem slerp_lerp_branch :
  forall (t : R) (a b : Qt),
  (thr < qdot a b -> slerp t a b = qnormalize (qlerp t a b)) /\
  (thr < - qdot a b -> slerp t a b = qnormalize (qlerp t (qneg a) b)).
Proof. exact ProofsSlerp.slerp_lerp_branch. Qed.
Print Assumptions slerp_lerp_branch.

Theorem slerp_endpoints :
  forall (a b : Qt) (d : R),
  -1 < d -> d < 1 ->
  slerp_spec 0 a b d = a /\ slerp_spec 1 a b d = b.
Proof. exact ProofsSlerp.slerp_endpoints. Qed.
Print Assumptions slerp_endpoints.

Theorem lookat_axes :
  forall (eye point up : V3),
  let Z := normalize3 (sub3 point eye) in
  let U := normalize3 (cross3 Z up) in
  let V := cross3 U Z in
  lookat eye point up = mk_AffineSpaceT_LinearSpace3_vec3 IR (mk_LinearSpace3 IR U V Z) eye /\
  (0 < dot3 (sub3 point eye) (sub3 point eye) -> 0 < dot3 (cross3 Z up) (cross3 Z up) ->
   dot3 Z Z = 1 /\ dot3 U U = 1 /\ dot3 U Z = 0 /\ dot3 V V = 1 /\ dot3 V U = 0 /\ dot3 V Z = 0 /\
   det3 (mk_LinearSpace3 IR U V Z) = -1).
Proof. exact ProofsFrame.lookat_axes. Qed.
Print Assumptions lookat_axes.

Theorem frame_orthonormal :
  forall (N : V3),
  dot3 N N = 1 ->
  let F := frame1 N in
  let X := LinearSpace3_vx F in let Y := LinearSpace3_vy F in
  LinearSpace3_vz F = N /\ dot3 X X = 1 /\ dot3 Y Y = 1 /\ dot3 X Y = 0 /\ dot3 X N = 0 /\ dot3 Y N = 0 /\ det3 F = 1 /\
  Y = cross3 N X.
Proof. exact ProofsFrame.frame_orthonormal. Qed.
Print Assumptions frame_orthonormal.

Theorem ortho_step_def :
  forall a b c d,
  ostep (rows2 a b c d) =
  rows2 (1 / 2 * (a + d / (a * d - b * c))) (1 / 2 * (b + - c / (a * d - b * c)))
        (1 / 2 * (c + - b / (a * d - b * c))) (1 / 2 * (d + a / (a * d - b * c))).
Proof. exact ProofsOrtho.ortho_step_def. Qed.
Print Assumptions ortho_step_def.

Theorem orthogonal_fixpoint :
  forall (m : M2),
  det2 m <> 0 -> ostep m = m -> mul2 (transposed2 m) m = one2 /\ mul2 m (transposed2 m) = one2.
Proof. exact ProofsOrtho.orthogonal_fixpoint. Qed.
Print Assumptions orthogonal_fixpoint.

Theorem ortho_step_det_pos :
  forall (m : M2),
  0 < det2 m -> 0 < det2 (ostep m).
Proof. exact ProofsOrtho.ortho_step_det_pos. Qed.
Print Assumptions ortho_step_det_pos.

Theorem ortho_step_polar :
  forall (c s p q r : R),
  c * c + s * s = 1 -> p * r - q * q <> 0 ->
  ostep (mul2 (rows2 c (- s) s c) (rows2 p q q r)) = mul2 (rows2 c (- s) s c) (ostep (rows2 p q q r)).
Proof. exact ProofsOrtho.ortho_step_polar. Qed.
Print Assumptions ortho_step_polar.

Theorem ortho_step_spd :
  forall (p q r : R),
  0 < p -> 0 < p * r - q * q ->
  exists p' q' r', ostep (rows2 p q q r) = rows2 p' q' q' r' /\ 0 < p' /\ 0 < p' * r' - q' * q'.
Proof. exact ProofsOrtho.ortho_step_spd. Qed.
Print Assumptions ortho_step_spd.

Theorem ortho_iter_invariant :
  forall (P : M2 -> Prop),
  (forall m, P m -> P (ostep m)) -> forall n m, P m -> P (ortho_iter IR n m).
Proof. exact ProofsOrtho.ortho_iter_invariant. Qed.
Print Assumptions ortho_iter_invariant.

Theorem ortho_iter_polar :
  forall (c s : R) (n : nat) (p q r : R),
  c * c + s * s = 1 -> 0 < p -> 0 < p * r - q * q ->
  exists p' q' r', ortho_iter IR n (mul2 (rows2 c (- s) s c) (rows2 p q q r)) = mul2 (rows2 c (- s) s c) (rows2 p' q' q' r')
                   /\ 0 < p' /\ 0 < p' * r' - q' * q'.
Proof. exact ProofsOrtho.ortho_iter_polar. Qed.
Print Assumptions ortho_iter_polar.

Theorem orthogonal_mirror :
  forall (n : nat) (m : M2),
  det2 m < 0 -> orthogonal_n IR n m = negx (orthogonal_n IR n (negx m)).
Proof. exact ProofsOrtho.orthogonal_mirror. Qed.
Print Assumptions orthogonal_mirror.

Theorem orthogonal_no_mirror :
  forall (n : nat) (m : M2),
  0 <= det2 m -> orthogonal_n IR n m = ortho_iter IR n m.
Proof. exact ProofsOrtho.orthogonal_no_mirror. Qed.
Print Assumptions orthogonal_no_mirror.

Theorem orthogonal_mirror_Q_ok :
  m2_eqbQ (orthogonal_n IQ 99 m_test) (neg_vx IQ (orthogonal_n IQ 99 (neg_vx IQ m_test))) = true /\
  polar_trace_pos (orthogonal_n IQ 99 m_test) m_test = true.
Proof. exact ProofsOrtho.orthogonal_mirror_Q_ok. Qed.
Print Assumptions orthogonal_mirror_Q_ok.

Theorem orthogonal_mirror_old_refuted :
  exists m, ortho_mirrored IQ m = true /\
            m2_eqbQ (orthogonal_n_old IQ 99 m) (neg_vx IQ (orthogonal_n IQ 99 (neg_vx IQ m))) = false /\
            polar_trace_pos (orthogonal_n_old IQ 99 m) m = false.
Proof. exact ProofsOrtho.orthogonal_mirror_old_refuted. Qed.
Print Assumptions orthogonal_mirror_old_refuted.

Example nonvac_inverse :
  det3 (rows3 2 1 0 0 1 3 0 0 1) <> 0 /\ det2 (rows2 2 1 0 1) <> 0.
Proof. exact ProofsNonvac.nonvac_inverse. Qed.
Print Assumptions nonvac_inverse.

Example nonvac_rotate_handedness :
  apply3 (rotate3 (v3 0 0 1) (PI / 2)) (v3 1 0 0) = v3 0 1 0.
Proof. exact ProofsNonvac.nonvac_rotate_handedness. Qed.
Print Assumptions nonvac_rotate_handedness.

Example nonvac_branch1 :
  qdot (quat 1 0 0 0) (quat 1 0 0 0) = 1 /\ guard1 (quat 1 0 0 0).
Proof. exact ProofsNonvac.nonvac_branch1. Qed.
Print Assumptions nonvac_branch1.

Example nonvac_branch2 :
  qdot (quat 0 1 0 0) (quat 0 1 0 0) = 1 /\ ~ guard1 (quat 0 1 0 0) /\ guard2 (quat 0 1 0 0).
Proof. exact ProofsNonvac.nonvac_branch2. Qed.
Print Assumptions nonvac_branch2.

Example nonvac_branch3 :
  qdot (quat 0 0 1 0) (quat 0 0 1 0) = 1 /\ ~ guard1 (quat 0 0 1 0) /\ ~ guard2 (quat 0 0 1 0) /\ guard3 (quat 0 0 1 0).
Proof. exact ProofsNonvac.nonvac_branch3. Qed.
Print Assumptions nonvac_branch3.

Example nonvac_branch4 :
  qdot (quat 0 0 0 1) (quat 0 0 0 1) = 1 /\ ~ guard1 (quat 0 0 0 1) /\ ~ guard2 (quat 0 0 0 1) /\ ~ guard3 (quat 0 0 0 1).
Proof. exact ProofsNonvac.nonvac_branch4. Qed.
Print Assumptions nonvac_branch4.

Example nonvac_slerp :
  (0 <= qdot (quat 1 0 0 0) (quat 0 1 0 0) <= thr) /\ (qdot (quat 1 0 0 0) (quat (-1) 0 0 0) < 0) /\
  thr < qdot (quat 1 0 0 0) (quat 1 0 0 0).
Proof. exact ProofsNonvac.nonvac_slerp. Qed.
Print Assumptions nonvac_slerp.
