(* C06 proofs, part 7: LinearSpace2::orthogonal() -- the hand model of Ortho.v read over R (callees = regenerated code). *)
From Coq Require Import Reals Lra Psatz List Bool ZArith QArith Nsatz.
From Common Require Import CxxSem.
From C06 Require Import GenLin Sem Ortho ProofsLin.
Import ListNotations.
Local Open Scope R_scope.

Definition ostep := ortho_step IR.
Definition negx := neg_vx IR.

(* one Newton step in closed form: m -> (m + m^-T)/2 *)
Lemma ortho_step_def a b c d :
  ostep (rows2 a b c d) =
  rows2 (1 / 2 * (a + d / (a * d - b * c))) (1 / 2 * (b + - c / (a * d - b * c)))
        (1 / 2 * (c + - b / (a * d - b * c))) (1 / 2 * (d + a / (a * d - b * c))).
Proof. reflexivity. Qed.

(* a fixed point of the step is an orthogonal matrix *)
Lemma orthogonal_fixpoint (m : M2) :
  det2 m <> 0 -> ostep m = m -> mul2 (transposed2 m) m = one2 /\ mul2 m (transposed2 m) = one2.
Proof.
  destruct m as [[a c] [b d]]. cbv [S IR] in *. intros H E. gen_in H.
  change (ostep (rows2 a b c d) = rows2 a b c d) in E. rewrite ortho_step_def in E.
  assert (HD : a * d - b * c <> 0) by (intro Z; apply H; lra).
  unfold rows2, v2 in E. injection E as E1 E2 E3 E4. unfold Rdiv in *.
  set (k := / (a * d - b * c)) in *.
  assert (Hk : (a * d - b * c) * k = 1) by (unfold k; field; exact HD).
  clearbody k.
  assert (F1 : d * k = a) by lra. assert (F2 : - c * k = b) by lra.
  assert (F3 : - b * k = c) by lra. assert (F4 : a * k = d) by lra.
  clear E1 E2 E3 E4 H HD.
  split; gen; comps; nsatz.
Qed.

(* the step keeps a positive determinant positive (so the iteration never leaves the rotation component) *)
Lemma ortho_step_det_pos (m : M2) : 0 < det2 m -> 0 < det2 (ostep m).
Proof.
  destruct m as [[a c] [b d]]. cbv [S IR] in *. intro H. gen_in H.
  change (ostep _) with (ostep (rows2 a b c d)). rewrite ortho_step_def.
  assert (HD : 0 < a * d - b * c) by lra.
  assert (E : det2 (rows2 (1 / 2 * (a + d / (a * d - b * c))) (1 / 2 * (b + - c / (a * d - b * c)))
                          (1 / 2 * (c + - b / (a * d - b * c))) (1 / 2 * (d + a / (a * d - b * c))))
              = ((a * d - b * c) * (a * d - b * c) + (a * a + b * b + c * c + d * d) + 1) / (4 * (a * d - b * c))).
  { gen. field. lra. }
  rewrite E. apply Rdiv_lt_0_compat; nra.
Qed.

(* polar form is preserved with the SAME rotation: step (Q*S) = Q * step S  for a rotation Q and symmetric invertible S *)
Lemma ortho_step_polar (c s p q r : R) :
  c * c + s * s = 1 -> p * r - q * q <> 0 ->
  ostep (mul2 (rows2 c (- s) s c) (rows2 p q q r)) = mul2 (rows2 c (- s) s c) (ostep (rows2 p q q r)).
Proof.
  intros Hcs HS.
  assert (ED : (c * p + - s * q) * (s * q + c * r) - (c * q + - s * r) * (s * p + c * q) = p * r - q * q) by nsatz.
  replace (mul2 (rows2 c (- s) s c) (rows2 p q q r))
    with (rows2 (c * p + - s * q) (c * q + - s * r) (s * p + c * q) (s * q + c * r))
    by (gen; unfold rows2, v2; comps; ring).
  rewrite !ortho_step_def. rewrite ED. gen. unfold rows2, v2.
  comps; field; exact HS.
Qed.

(* ... and the symmetric factor stays symmetric positive definite *)
Lemma ortho_step_spd (p q r : R) :
  0 < p -> 0 < p * r - q * q ->
  exists p' q' r', ostep (rows2 p q q r) = rows2 p' q' q' r' /\ 0 < p' /\ 0 < p' * r' - q' * q'.
Proof.
  intros Hp HD.
  assert (Hr : 0 < r) by nra.
  rewrite ortho_step_def.
  exists (1 / 2 * (p + r / (p * r - q * q))), (1 / 2 * (q + - q / (p * r - q * q))), (1 / 2 * (r + p / (p * r - q * q))).
  split; [reflexivity|]. split.
  - assert (0 < r / (p * r - q * q)) by (apply Rdiv_lt_0_compat; lra). lra.
  - pose proof (ortho_step_det_pos (rows2 p q q r)) as H. rewrite ortho_step_def in H.
    assert (H0 : 0 < det2 (rows2 p q q r)) by (gen; lra). specialize (H H0). gen_in H. lra.
Qed.

(* every property kept by one step is kept by the whole loop, for every iteration bound and whenever it exits *)
Lemma ortho_iter_invariant (P : M2 -> Prop) :
  (forall m, P m -> P (ostep m)) -> forall n m, P m -> P (ortho_iter IR n m).
Proof.
  intros Hs n. induction n as [|n IH]; intros m Hm; cbn [ortho_iter]; [exact Hm|].
  destruct (ortho_small IR _); [apply Hs; exact Hm | apply IH, Hs; exact Hm].
Qed.

(* hence: started on Q*S (Q a rotation, S symmetric positive definite) the loop can only ever hold Q*S' with the
   same Q -- its limit, if it stops close to a fixed point, is the polar factor Q *)
Lemma ortho_iter_polar (c s : R) (n : nat) (p q r : R) :
  c * c + s * s = 1 -> 0 < p -> 0 < p * r - q * q ->
  exists p' q' r', ortho_iter IR n (mul2 (rows2 c (- s) s c) (rows2 p q q r)) = mul2 (rows2 c (- s) s c) (rows2 p' q' q' r')
                   /\ 0 < p' /\ 0 < p' * r' - q' * q'.
Proof.
  intros Hcs Hp HD.
  apply (ortho_iter_invariant (fun m => exists p' q' r', m = mul2 (rows2 c (- s) s c) (rows2 p' q' q' r') /\ 0 < p' /\ 0 < p' * r' - q' * q')).
  - intros m (p1 & q1 & r1 & E & H1 & H2). subst m.
    destruct (ortho_step_spd p1 q1 r1 H1 H2) as (p2 & q2 & r2 & E2 & H3 & H4).
    exists p2, q2, r2. split; [|split; assumption].
    change (ortho_step IR) with ostep. rewrite ortho_step_polar by (auto; lra). rewrite E2. reflexivity.
  - exists p, q, r. auto.
Qed.

(* the mirror wrapper: for det < 0 the result is the mirror image (first column negated) of the result for the
   mirrored input, whose determinant is positive; for det >= 0 it is the plain iteration.  The variant that undoes the
   flip on vy does not satisfy this (see orthogonal_mirror_old_refuted). *)
Lemma ortho_mirrored_neg (m : M2) : det2 m < 0 -> ortho_mirrored IR m = true /\ ortho_mirrored IR (negx m) = false.
Proof.
  destruct m as [[a c] [b d]]. cbv [S IR] in *. intro H. gen_in H. unfold ortho_mirrored.
  split; gen; match goal with |- context [Rlt_dec ?x ?y] => destruct (Rlt_dec x y) end; auto; exfalso; lra.
Qed.

Lemma orthogonal_mirror (n : nat) (m : M2) :
  det2 m < 0 -> orthogonal_n IR n m = negx (orthogonal_n IR n (negx m)).
Proof.
  intro H. destruct (ortho_mirrored_neg m H) as [E1 E2].
  unfold orthogonal_n, ortho_loop, ortho_mirror. rewrite E1, E2. fold negx.
  destruct (ortho_iter IR n (negx m)) as [[x y] [z w]]. gen. comps; ring.
Qed.

Lemma orthogonal_no_mirror (n : nat) (m : M2) : 0 <= det2 m -> orthogonal_n IR n m = ortho_iter IR n m.
Proof.
  intro H.
  assert (E : ortho_mirrored IR m = false).
  { destruct m as [[a c] [b d]]. cbv [S IR] in *. gen_in H. unfold ortho_mirrored. gen.
    match goal with |- context [Rlt_dec ?x ?y] => destruct (Rlt_dec x y) end; auto; exfalso; lra. }
  unfold orthogonal_n, ortho_loop, ortho_mirror. rewrite E.
  destruct (ortho_iter IR n m) as [[x y] [z w]]. gen. comps; ring.
Qed.

(* ---- executable reading over Q: the repaired and the slipped wrapper on M = (vx,vy) = ((-3,1),(1,2)), det = -7 *)
Local Open Scope Q_scope.
Definition qm2 (a c b d : Q) : LinearSpace2 IQ := mk_LinearSpace2 IQ (mk_vec2 IQ a c) (mk_vec2 IQ b d).
Definition m2_eqbQ (x y : LinearSpace2 IQ) : bool :=
  Qeq_bool (vec2_x (LinearSpace2_vx x)) (vec2_x (LinearSpace2_vx y)) && Qeq_bool (vec2_y (LinearSpace2_vx x)) (vec2_y (LinearSpace2_vx y)) &&
  Qeq_bool (vec2_x (LinearSpace2_vy x)) (vec2_x (LinearSpace2_vy y)) && Qeq_bool (vec2_y (LinearSpace2_vy x)) (vec2_y (LinearSpace2_vy y)).
(* trace (Q^T M) > 0 is necessary for Q^T M to be positive definite, i.e. for Q to be the polar factor and not -Q *)
Definition polar_trace_pos (qm m : LinearSpace2 IQ) : bool :=
  negb (Qle_bool (dot__v2f_v2f IQ (LinearSpace2_vx qm) (LinearSpace2_vx m) + dot__v2f_v2f IQ (LinearSpace2_vy qm) (LinearSpace2_vy m)) 0).
Definition m_test : LinearSpace2 IQ := qm2 (-3) 1 1 2.

Lemma orthogonal_mirror_Q_ok :
  m2_eqbQ (orthogonal_n IQ 99 m_test) (neg_vx IQ (orthogonal_n IQ 99 (neg_vx IQ m_test))) = true /\
  polar_trace_pos (orthogonal_n IQ 99 m_test) m_test = true.
Proof. split; vm_compute; reflexivity. Qed.

Lemma orthogonal_mirror_old_refuted :
  exists m, ortho_mirrored IQ m = true /\
            m2_eqbQ (orthogonal_n_old IQ 99 m) (neg_vx IQ (orthogonal_n IQ 99 (neg_vx IQ m))) = false /\
            polar_trace_pos (orthogonal_n_old IQ 99 m) m = false.
Proof. exists m_test. repeat split; vm_compute; reflexivity. Qed.
