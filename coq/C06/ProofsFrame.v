(* C06 proofs, part 6: frame() and lookat() produce right-handed orthonormal axes. *)
From Coq Require Import Reals Lra Psatz List Bool ZArith Nsatz.
From Common Require Import CxxSem.
From C06 Require Import GenLin Sem ProofsLin ProofsRot.
Import ListNotations.
Local Open Scope R_scope.

Definition frame1 := frame__v3f IR.
Definition lookat := AffineSpaceT_LinearSpace3_v3f_lookat__v3f_v3f_v3f IR.

Lemma normalize_dot (a b : V3) : dot3 (normalize3 a) b = (1 / sqrt (dot3 a a)) * dot3 a b.
Proof. recs. gen. unfold Rdiv. ring. Qed.

Lemma cross_orthogonal (a b : V3) : dot3 (cross3 a b) a = 0 /\ dot3 (cross3 a b) b = 0.
Proof. recs. split; gen; ring. Qed.

(* U, Z unit and orthogonal: (U, U x Z, Z) is an orthonormal triad of determinant -1 (U = Z x up is the viewer's right
   hand side in a right-handed world; the camera triad right/up/forward itself is mirrored) *)
Lemma triad_UZ (U Z : V3) :
  dot3 U U = 1 -> dot3 Z Z = 1 -> dot3 U Z = 0 ->
  let V := cross3 U Z in
  dot3 V V = 1 /\ dot3 V U = 0 /\ dot3 V Z = 0 /\ det3 (mk_LinearSpace3 IR U V Z) = -1.
Proof.
  recs. intros H1 H2 H3. gen_in H1. gen_in H2. gen_in H3. repeat split; gen; nsatz.
Qed.

(* X, N unit and orthogonal: (X, N x X, N) is a right-handed orthonormal triad *)
Lemma triad_XN (X N : V3) :
  dot3 X X = 1 -> dot3 N N = 1 -> dot3 X N = 0 ->
  let Y := cross3 N X in
  dot3 Y Y = 1 /\ dot3 Y X = 0 /\ dot3 Y N = 0 /\ det3 (mk_LinearSpace3 IR X Y N) = 1.
Proof.
  recs. intros H1 H2 H3. gen_in H1. gen_in H2. gen_in H3. repeat split; gen; nsatz.
Qed.

Lemma lookat_axes (eye point up : V3) :
  let Z := normalize3 (sub3 point eye) in
  let U := normalize3 (cross3 Z up) in
  let V := cross3 U Z in
  lookat eye point up = mk_AffineSpaceT_LinearSpace3_vec3 IR (mk_LinearSpace3 IR U V Z) eye /\
  (0 < dot3 (sub3 point eye) (sub3 point eye) -> 0 < dot3 (cross3 Z up) (cross3 Z up) ->
   dot3 Z Z = 1 /\ dot3 U U = 1 /\ dot3 U Z = 0 /\ dot3 V V = 1 /\ dot3 V U = 0 /\ dot3 V Z = 0 /\
   det3 (mk_LinearSpace3 IR U V Z) = -1).
Proof.
  intros Z U V. split; [reflexivity|]. intros H1 H2.
  assert (HZ : dot3 Z Z = 1) by (apply normalize_is_unit; exact H1).
  assert (HU : dot3 U U = 1) by (apply normalize_is_unit; exact H2).
  assert (HUZ : dot3 U Z = 0).
  { unfold U. rewrite normalize_dot. destruct (cross_orthogonal Z up) as [E _]. rewrite E. apply Rmult_0_r. }
  destruct (triad_UZ U Z HU HZ HUZ) as [A [B [C D]]]. repeat split; assumption.
Qed.

(* frame(N): the helper direction that is actually chosen *)
Definition frame_d (N : V3) : V3 :=
  let dx0 := cross3 (v3 1 0 0) N in let dx1 := cross3 (v3 0 1 0) N in
  if Rltb (dot3 dx1 dx1) (dot3 dx0 dx0) then dx0 else dx1.

Lemma frame_unfold (N : V3) :
  frame1 N = mk_LinearSpace3 IR (normalize3 (frame_d N)) (normalize3 (cross3 N (normalize3 (frame_d N)))) N.
Proof. reflexivity. Qed.

Lemma frame_d_props (N : V3) : dot3 N N = 1 -> 0 < dot3 (frame_d N) (frame_d N) /\ dot3 (frame_d N) N = 0.
Proof.
  destruct N as [x y z]. cbv [S IR] in *. intro H. gen_in H. unfold frame_d, Rltb.
  match goal with |- context [Rlt_dec ?a ?b] => destruct (Rlt_dec a b) as [L | L]; gen_in L end;
    split; gen; nra.
Qed.

Lemma frame_orthonormal (N : V3) :
  dot3 N N = 1 ->
  let F := frame1 N in
  let X := LinearSpace3_vx F in let Y := LinearSpace3_vy F in
  LinearSpace3_vz F = N /\ dot3 X X = 1 /\ dot3 Y Y = 1 /\ dot3 X Y = 0 /\ dot3 X N = 0 /\ dot3 Y N = 0 /\ det3 F = 1 /\
  Y = cross3 N X.
Proof.
  intros HN F X Y. subst X Y F. rewrite frame_unfold. cbn [LinearSpace3_vx LinearSpace3_vy LinearSpace3_vz].
  destruct (frame_d_props N HN) as [Hpos Hperp].
  set (Xv := normalize3 (frame_d N)).
  assert (HX : dot3 Xv Xv = 1) by (apply normalize_is_unit; exact Hpos).
  assert (HXN : dot3 Xv N = 0) by (unfold Xv; rewrite normalize_dot, Hperp; apply Rmult_0_r).
  destruct (triad_XN Xv N HX HN HXN) as [A [B [C D]]].
  rewrite (normalize_of_unit _ A).
  assert (Hsym : dot3 Xv (cross3 N Xv) = 0).
  { destruct (cross_orthogonal N Xv) as [_ E]. revert E. generalize (cross3 N Xv). intros c E. destruct Xv, c. gen_in E. gen. lra. }
  repeat split; auto.
Qed.

(* ------------------------------------------------------------------ frame(N, up): both branches *)
Definition frame2 := frame__v3f_v3f IR.
(* the literal 0.99f of the source, as the decimal expansion of the binary32 value clang reports *)
Definition c99 : R := IZR 990000009 / IZR 1000000000.

Lemma lagrange (a b : V3) : dot3 (cross3 a b) (cross3 a b) = dot3 a a * dot3 b b - dot3 a b * dot3 a b.
Proof. recs. gen. ring. Qed.

(* the guard is two-sided: the fallback frame(N) is taken when up is nearly parallel OR nearly anti-parallel to N *)
Lemma frame_up_unfold (N up : V3) :
  frame2 N up =
  if Rltb c99 (Rabs (dot3 up N)) then frame1 N
  else mk_LinearSpace3 IR (normalize3 (cross3 up N)) (normalize3 (cross3 N (normalize3 (cross3 up N)))) N.
Proof. reflexivity. Qed.

Lemma frame_up_orthonormal (N up : V3) :
  dot3 N N = 1 -> dot3 up up = 1 ->
  let F := frame2 N up in
  let X := LinearSpace3_vx F in let Y := LinearSpace3_vy F in
  LinearSpace3_vz F = N /\ dot3 X X = 1 /\ dot3 Y Y = 1 /\ dot3 X Y = 0 /\ dot3 X N = 0 /\ dot3 Y N = 0 /\ det3 F = 1 /\
  Y = cross3 N X.
Proof.
  intros HN HU F X Y. subst X Y F. rewrite frame_up_unfold. unfold Rltb.
  destruct (Rlt_dec c99 (Rabs (dot3 up N))) as [G | G].
  - exact (frame_orthonormal N HN).
  - cbn [LinearSpace3_vx LinearSpace3_vy LinearSpace3_vz].
    assert (Hc : c99 * c99 < 1) by (unfold c99; lra).
    assert (Hd : dot3 up N * dot3 up N <= c99 * c99).
    { set (d := dot3 up N) in *. unfold Rabs in G. destruct (Rcase_abs d); nra. }
    assert (Hpos : 0 < dot3 (cross3 up N) (cross3 up N)) by (rewrite lagrange, HN, HU; lra).
    assert (Hperp : dot3 (cross3 up N) N = 0) by (destruct (cross_orthogonal up N) as [_ E]; exact E).
    set (Xv := normalize3 (cross3 up N)).
    assert (HX : dot3 Xv Xv = 1) by (apply normalize_is_unit; exact Hpos).
    assert (HXN : dot3 Xv N = 0) by (unfold Xv; rewrite normalize_dot, Hperp; apply Rmult_0_r).
    destruct (triad_XN Xv N HX HN HXN) as [A [B [C D]]].
    rewrite (normalize_of_unit _ A).
    assert (Hsym : dot3 Xv (cross3 N Xv) = 0).
    { destruct (cross_orthogonal N Xv) as [_ E]. revert E. generalize (cross3 N Xv). intros c E. destruct Xv, c. gen_in E. gen. lra. }
    repeat split; auto.
Qed.

(* the slip "guard without abs()": kept only to be refuted.  For up = -N the non-degenerate branch is taken although
   up x N = 0, and the first axis is not a unit vector. *)
Definition frame_up_one_sided (N up : V3) : M3 :=
  if Rltb c99 (dot3 up N) then frame1 N
  else mk_LinearSpace3 IR (normalize3 (cross3 up N)) (normalize3 (cross3 N (normalize3 (cross3 up N)))) N.

Lemma frame_up_one_sided_refuted :
  exists N up, dot3 N N = 1 /\ dot3 up up = 1 /\
    dot3 (LinearSpace3_vx (frame_up_one_sided N up)) (LinearSpace3_vx (frame_up_one_sided N up)) <> 1 /\
    dot3 (LinearSpace3_vx (frame2 N up)) (LinearSpace3_vx (frame2 N up)) = 1.
Proof.
  exists (v3 0 0 1), (v3 0 0 (-1)).
  assert (HN : dot3 (v3 0 0 1) (v3 0 0 1) = 1) by (gen; ring).
  assert (HU : dot3 (v3 0 0 (-1)) (v3 0 0 (-1)) = 1) by (gen; ring).
  repeat split; auto.
  - unfold frame_up_one_sided, Rltb.
    destruct (Rlt_dec c99 (dot3 (v3 0 0 (-1)) (v3 0 0 1))) as [G | G].
    + exfalso. revert G. unfold c99. gen. lra.
    + cbn [LinearSpace3_vx]. intro E.
      assert (Z : dot3 (normalize3 (cross3 (v3 0 0 (-1)) (v3 0 0 1))) (normalize3 (cross3 (v3 0 0 (-1)) (v3 0 0 1))) = 0)
        by (gen; unfold Rdiv; ring).
      rewrite Z in E. lra.
  - destruct (frame_up_orthonormal _ _ HN HU) as [_ [E _]]. exact E.
Qed.
