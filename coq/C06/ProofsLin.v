(* C06 proofs, part 1: LinearSpace2/3 and AffineSpaceT algebra, read over R from the regenerated code. *)
From Coq Require Import Reals Lra Psatz List Bool ZArith.
From Common Require Import CxxSem.
From C06 Require Import GenLin Sem.
Import ListNotations.
Local Open Scope R_scope.

(* full evaluation of the generated text down to real-number expressions *)
Lemma Rdiv_one (x : R) : x / 1 = x.
Proof. field. Qed.
Ltac gen := cbv -[Rplus Rmult Rminus Ropp Rinv Rdiv sqrt sin cos acos IZR Rabs Rlt_dec Rle_dec Req_EM_T Rle Rge Rgt Rlt]; rewrite ?Rdiv_one.
Ltac gen_in H := cbv -[Rplus Rmult Rminus Ropp Rinv Rdiv sqrt sin cos acos IZR Rabs Rlt_dec Rle_dec Req_EM_T Rle Rge Rgt Rlt] in H; rewrite ?Rdiv_one in H.
Ltac comps := repeat match goal with
  | |- @eq (vec2 _) _ _ => f_equal
  | |- @eq (vec3 _) _ _ => f_equal
  | |- @eq (LinearSpace2 _) _ _ => f_equal
  | |- @eq (LinearSpace3 _) _ _ => f_equal
  | |- @eq (AffineSpaceT_LinearSpace2_vec2 _) _ _ => f_equal
  | |- @eq (AffineSpaceT_LinearSpace3_vec3 _) _ _ => f_equal
  | |- @eq (QuaternionT_s _) _ _ => f_equal
  end; cbv [S IR].
Ltac recs := repeat match goal with
  | v : vec2 IR |- _ => destruct v as [? ?]
  | v : vec3 IR |- _ => destruct v as [? ? ?]
  | m : LinearSpace2 IR |- _ => destruct m as [? ?]
  | m : LinearSpace3 IR |- _ => destruct m as [? ? ?]
  | a : AffineSpaceT_LinearSpace2_vec2 IR |- _ => destruct a as [? ?]
  | a : AffineSpaceT_LinearSpace3_vec3 IR |- _ => destruct a as [? ?]
  | q : QuaternionT_s IR |- _ => destruct q as [? ? ? ?]
  end.

Notation V2 := (vec2 IR).
Notation V3 := (vec3 IR).
Notation M2 := (LinearSpace2 IR).
Notation M3 := (LinearSpace3 IR).
Notation A2 := (AffineSpaceT_LinearSpace2_vec2 IR).
Notation A3 := (AffineSpaceT_LinearSpace3_vec3 IR).
Notation Qt := (QuaternionT_s IR).

Definition v2 (x y : R) : V2 := mk_vec2 IR x y.
Definition v3 (x y z : R) : V3 := mk_vec3 IR x y z.
Definition det2 := LinearSpace2_det__ IR.
Definition det3 := LinearSpace3_det__ IR.
Definition mul2 := op_mul__LinearSpace2_LinearSpace2 IR.
Definition mul3 := op_mul__LinearSpace3_LinearSpace3 IR.
Definition inv2 := LinearSpace2_inverse__ IR.
Definition inv3 := LinearSpace3_inverse__ IR.
Definition one2 : M2 := LinearSpace2_mk__OneTy IR tt.
Definition one3 : M3 := LinearSpace3_mk__OneTy IR tt.
Definition mulA3 := op_mul__AffineSpaceT_LinearSpace3_v3f_AffineSpaceT_LinearSpace3_v3f IR.
Definition mulA2 := op_mul__AffineSpaceT_LinearSpace2_v2f_AffineSpaceT_LinearSpace2_v2f IR.
Definition oneA3 : A3 := mk_AffineSpaceT_LinearSpace3_vec3 IR one3 (v3 0 0 0).
Definition oneA2 : A2 := mk_AffineSpaceT_LinearSpace2_vec2 IR one2 (v2 0 0).
Definition apply3 := op_mul__LinearSpace3_v3f IR.      (* M * v *)
Definition apply2 := op_mul__LinearSpace2_v2f IR.
Definition dot3 := dot__v3f_v3f IR.
Definition cross3 := cross__v3f_v3f IR.
Definition add3 := op_add__v3f_v3f IR.
Definition smul3 := op_mul__f_v3f IR.                  (* s * v *)
Definition xfmPointA := xfmPoint__AffineSpaceT_LinearSpace3_v3f_v3f IR.
Definition xfmVectorA := xfmVector__AffineSpaceT_LinearSpace3_v3f_v3f IR.
Definition xfmNormalA := xfmNormal__AffineSpaceT_LinearSpace3_v3f_v3f IR.
Definition xfmPointL := xfmPoint__LinearSpace3_v3f IR.
Definition xfmVectorL := xfmVector__LinearSpace3_v3f IR.
Definition xfmNormalL := xfmNormal__LinearSpace3_v3f IR.
Definition transposed3 := LinearSpace3_transposed__ IR.
Definition transposed2 := LinearSpace2_transposed__ IR.
Definition adjoint3 := LinearSpace3_adjoint__ IR.
Definition adjoint2 := LinearSpace2_adjoint__ IR.

(* the matrix with rows (a b c) (d e f) (g h i)  -- columns are the stored vectors *)
Definition rows3 (a b c d e f g h i : R) : M3 := mk_LinearSpace3 IR (v3 a d g) (v3 b e h) (v3 c f i).
Definition rows2 (a b c d : R) : M2 := mk_LinearSpace2 IR (v2 a c) (v2 b d).

(* ------------------------------------------------------------------ inverse *)
Lemma inverse2_mul (M : M2) : det2 M <> 0 -> mul2 M (inv2 M) = one2 /\ mul2 (inv2 M) M = one2.
Proof.
  recs. intro H. gen_in H. split; gen; comps; field; exact H.
Qed.

Lemma inverse3_mul (M : M3) : det3 M <> 0 -> mul3 M (inv3 M) = one3 /\ mul3 (inv3 M) M = one3.
Proof.
  recs. intro H. gen_in H. split; gen; comps; field; exact H.
Qed.

Lemma rcp_is_inverse (M : M3) (N : M2) : rcp__LinearSpace3 IR M = inv3 M /\ rcp__LinearSpace2 IR N = inv2 N.
Proof. split; reflexivity. Qed.

Lemma affine_rcp_mul (A : A3) :
  det3 (AffineSpaceT_LinearSpace3_vec3_l A) <> 0 ->
  mulA3 (rcp__AffineSpaceT_LinearSpace3_v3f IR A) A = oneA3 /\ mulA3 A (rcp__AffineSpaceT_LinearSpace3_v3f IR A) = oneA3.
Proof.
  recs. intro H. gen_in H. split; gen; comps; field; exact H.
Qed.

Lemma affine2_rcp_mul (A : A2) :
  det2 (AffineSpaceT_LinearSpace2_vec2_l A) <> 0 ->
  mulA2 (rcp__AffineSpaceT_LinearSpace2_v2f IR A) A = oneA2 /\ mulA2 A (rcp__AffineSpaceT_LinearSpace2_v2f IR A) = oneA2.
Proof.
  recs. intro H. gen_in H. split; gen; comps; field; exact H.
Qed.

(* ------------------------------------------------------------------ composition *)
Lemma compose_apply (A B : A3) (p : V3) : xfmPointA (mulA3 A B) p = xfmPointA A (xfmPointA B p).
Proof. recs. gen. comps; ring. Qed.

Lemma compose_def (A B : A3) :
  mulA3 A B = mk_AffineSpaceT_LinearSpace3_vec3 IR
                (mul3 (AffineSpaceT_LinearSpace3_vec3_l A) (AffineSpaceT_LinearSpace3_vec3_l B))
                (add3 (apply3 (AffineSpaceT_LinearSpace3_vec3_l A) (AffineSpaceT_LinearSpace3_vec3_p B)) (AffineSpaceT_LinearSpace3_vec3_p A)).
Proof. recs. reflexivity. Qed.

Lemma linear_compose_apply (M N : M3) (v : V3) : apply3 (mul3 M N) v = apply3 M (apply3 N v).
Proof. recs. gen. comps; ring. Qed.

Lemma linear2_compose_apply (M N : M2) (v : V2) : apply2 (mul2 M N) v = apply2 M (apply2 N v).
Proof. recs. gen. comps; ring. Qed.

(* ------------------------------------------------------------------ det *)
Lemma det2_mul (M N : M2) : det2 (mul2 M N) = det2 M * det2 N.
Proof. recs. gen. ring. Qed.

Lemma det3_mul (M N : M3) : det3 (mul3 M N) = det3 M * det3 N.
Proof. recs. gen. ring. Qed.

Lemma det3_def a b c d e f g h i :
  det3 (rows3 a b c d e f g h i) = a * (e * i - f * h) - b * (d * i - f * g) + c * (d * h - e * g).
Proof. gen. ring. Qed.

Lemma det2_def a b c d : det2 (rows2 a b c d) = a * d - b * c.
Proof. gen. ring. Qed.

(* ------------------------------------------------------------------ transposed / adjoint / rows *)
Lemma transposed3_def a b c d e f g h i : transposed3 (rows3 a b c d e f g h i) = rows3 a d g b e h c f i.
Proof. reflexivity. Qed.

Lemma transposed2_def a b c d : transposed2 (rows2 a b c d) = rows2 a c b d.
Proof. reflexivity. Qed.

(* adjoint = transposed cofactor matrix *)
Lemma adjoint3_def a b c d e f g h i :
  adjoint3 (rows3 a b c d e f g h i) =
  rows3 (e * i - f * h) (- (b * i - c * h)) (b * f - c * e)
        (- (d * i - f * g)) (a * i - c * g) (- (a * f - c * d))
        (d * h - e * g) (- (a * h - b * g)) (a * e - b * d).
Proof. gen. unfold rows3, v3. comps; ring. Qed.

Lemma adjoint2_def a b c d : adjoint2 (rows2 a b c d) = rows2 d (- b) (- c) a.
Proof. reflexivity. Qed.

Lemma adjoint3_mul (M : M3) : mul3 M (adjoint3 M) = op_mul__f_LinearSpace3 IR (det3 M) one3.
Proof. recs. gen. comps; ring. Qed.

Lemma rows3_def a b c d e f g h i :
  LinearSpace3_row0__ IR (rows3 a b c d e f g h i) = v3 a b c /\
  LinearSpace3_row1__ IR (rows3 a b c d e f g h i) = v3 d e f /\
  LinearSpace3_row2__ IR (rows3 a b c d e f g h i) = v3 g h i.
Proof. repeat split. Qed.

Lemma rows2_def a b c d :
  LinearSpace2_row0__ IR (rows2 a b c d) = v2 a b /\ LinearSpace2_row1__ IR (rows2 a b c d) = v2 c d.
Proof. repeat split. Qed.

Lemma rowmajor_ctor_def a b c d e f g h i :
  LinearSpace3_mk__f_f_f_f_f_f_f_f_f IR a b c d e f g h i = rows3 a b c d e f g h i /\
  LinearSpace2_mk__f_f_f_f IR a b c d = rows2 a b c d.
Proof. split; reflexivity. Qed.

(* ------------------------------------------------------------------ xfm* *)
Lemma xfmPoint_def (A : A3) (p : V3) :
  xfmPointA A p = add3 (apply3 (AffineSpaceT_LinearSpace3_vec3_l A) p) (AffineSpaceT_LinearSpace3_vec3_p A).
Proof. recs. gen. comps; ring. Qed.

Lemma xfmVector_def (A : A3) (v : V3) :
  xfmVectorA A v = apply3 (AffineSpaceT_LinearSpace3_vec3_l A) v /\
  xfmVectorL (AffineSpaceT_LinearSpace3_vec3_l A) v = apply3 (AffineSpaceT_LinearSpace3_vec3_l A) v /\
  xfmPointL (AffineSpaceT_LinearSpace3_vec3_l A) v = apply3 (AffineSpaceT_LinearSpace3_vec3_l A) v.
Proof. recs. repeat split; gen; comps; ring. Qed.

Lemma xfmNormal_def (A : A3) (n : V3) :
  xfmNormalA A n = apply3 (transposed3 (inv3 (AffineSpaceT_LinearSpace3_vec3_l A))) n /\
  xfmNormalL (AffineSpaceT_LinearSpace3_vec3_l A) n = apply3 (transposed3 (inv3 (AffineSpaceT_LinearSpace3_vec3_l A))) n.
Proof. recs. split; gen; comps; ring. Qed.

(* normals stay normal: (M^-T n) . (M v) = n . v *)
Lemma xfmNormal_preserves_orthogonality (M : M3) (n v : V3) :
  det3 M <> 0 -> dot3 (xfmNormalL M n) (apply3 M v) = dot3 n v.
Proof. recs. intro H. gen_in H. gen. field. exact H. Qed.

(* ------------------------------------------------------------------ scale / translate *)
Lemma scale_def x y z :
  LinearSpace3_scale__v3f IR (v3 x y z) = rows3 x 0 0 0 y 0 0 0 z /\
  LinearSpace2_scale__v2f IR (v2 x y) = rows2 x 0 0 y /\
  AffineSpaceT_LinearSpace3_v3f_scale__v3f IR (v3 x y z) = mk_AffineSpaceT_LinearSpace3_vec3 IR (rows3 x 0 0 0 y 0 0 0 z) (v3 0 0 0).
Proof. repeat split. Qed.

Lemma translate_def (t p : V3) :
  AffineSpaceT_LinearSpace3_v3f_translate__v3f IR t = mk_AffineSpaceT_LinearSpace3_vec3 IR one3 t /\
  xfmPointA (AffineSpaceT_LinearSpace3_v3f_translate__v3f IR t) p = add3 p t.
Proof. recs. split; [reflexivity|]. gen. comps; ring. Qed.
