#!/bin/bash
# regenerate gen/GenLin.v from the current repo sources (Tie A; used by bin/setup); props/C06/check.py does the same on every run.
cd "$(dirname "$0")"
mkdir -p gen ../../build/include/rkcommon ../../build/C06
python3 ../../lib/mkversion.py >/dev/null 2>&1
python3 ../../tools/cxx2coq/cxx2coq.py ../../tools/cxx2coq/inst/lin.cpp gen/GenLin.v.new --repo "${VERIF_REPO:-/repo}" -D RKCOMMON_NO_SIMD \
  && { cmp -s gen/GenLin.v.new gen/GenLin.v || mv gen/GenLin.v.new gen/GenLin.v; rm -f gen/GenLin.v.new; }
[ -f ../../props/C06/mkprops.py ] && [ ! -f Properties.v ] && python3 ../../props/C06/mkprops.py >/dev/null 2>&1
true
