(* C06 proofs, part 9: the converting constructors between element types (regenerated from tools/cxx2coq/inst/linconv.cpp
   into gen/GenConv.v; that TU holds two specialisations of each class template, so its generated names carry the
   element type and it is kept apart from GenLin).  Over R every conversion is the entry-wise identity. *)
From Coq Require Import Reals List Bool ZArith.
From Common Require Import CxxSem.
From C06 Require Import GenConv Sem.
Local Open Scope R_scope.

Lemma convert_padded_to_plain (a b c d e f g h i : R) :
  LinearSpace3_v3f_mk__LinearSpace3_v3af IR
    (mk_LinearSpace3_vec3a IR (mk_vec3a IR a b c) (mk_vec3a IR d e f) (mk_vec3a IR g h i)) =
  mk_LinearSpace3_vec3 IR (mk_vec3 IR a b c) (mk_vec3 IR d e f) (mk_vec3 IR g h i).
Proof. reflexivity. Qed.

Lemma convert_plain_to_padded (a b c d e f g h i : R) :
  LinearSpace3_v3af_mk__LinearSpace3_v3f IR
    (mk_LinearSpace3_vec3 IR (mk_vec3 IR a b c) (mk_vec3 IR d e f) (mk_vec3 IR g h i)) =
  mk_LinearSpace3_vec3a IR (mk_vec3a IR a b c) (mk_vec3a IR d e f) (mk_vec3a IR g h i).
Proof. reflexivity. Qed.

Lemma convert_roundtrip (m : LinearSpace3_vec3 IR) :
  LinearSpace3_v3f_mk__LinearSpace3_v3af IR (LinearSpace3_v3af_mk__LinearSpace3_v3f IR m) = m.
Proof. destruct m as [[? ? ?] [? ? ?] [? ? ?]]. reflexivity. Qed.

Lemma convert_double_to_float_2x2 (a b c d : R) :
  LinearSpace2_v2f_mk__LinearSpace2_v2d IR (mk_LinearSpace2_vec2 IR (mk_vec2 IR a b) (mk_vec2 IR c d)) =
  mk_LinearSpace2_vec2 IR (mk_vec2 IR a b) (mk_vec2 IR c d).
Proof. reflexivity. Qed.

Lemma convert_affine_padded_to_plain (a b c d e f g h i x y z : R) :
  AffineSpaceT_LinearSpace3_v3f_v3f_mk__AffineSpaceT_LinearSpace3_v3af_v3af IR
    (mk_AffineSpaceT_LinearSpace3_vec3a_vec3a IR
       (mk_LinearSpace3_vec3a IR (mk_vec3a IR a b c) (mk_vec3a IR d e f) (mk_vec3a IR g h i)) (mk_vec3a IR x y z)) =
  mk_AffineSpaceT_LinearSpace3_vec3_vec3 IR
    (mk_LinearSpace3_vec3 IR (mk_vec3 IR a b c) (mk_vec3 IR d e f) (mk_vec3 IR g h i)) (mk_vec3 IR x y z).
Proof. reflexivity. Qed.
