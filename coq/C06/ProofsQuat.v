(* C06 proofs, part 3: quaternions -- product, rotation of vectors, matrix form, rotate, yaw/pitch/roll. *)
From Coq Require Import Reals Lra Psatz List Bool ZArith Nsatz.
From Common Require Import CxxSem.
From C06 Require Import GenLin Sem ProofsLin ProofsRot.
Import ListNotations.
Local Open Scope R_scope.

(* note the field order of the C++ struct: i, j, k, r *)
Definition quat (r i j k : R) : Qt := mk_QuaternionT_s IR i j k r.
Definition qmul := op_mul__QuaternionT_f_QuaternionT_f IR.
Definition qrot := op_mul__QuaternionT_f_v3f IR.            (* q * v = (q * Quat(v) * conj q).v() *)
Definition qconj := conj__QuaternionT_f IR.
Definition qrcp := rcp__QuaternionT_f IR.
Definition qnormalize := normalize__QuaternionT_f IR.
Definition qdot := dot__QuaternionT_f_QuaternionT_f IR.
Definition qneg := op_sub__QuaternionT_f IR.
Definition qadd := op_add__QuaternionT_f_QuaternionT_f IR.
Definition qscale := op_mul__f_QuaternionT_f IR.            (* s * q *)
Definition mat_of_quat := LinearSpace3_mk__QuaternionT_f IR.
Definition qrotate := QuaternionT_f_rotate__v3f_f IR.
Definition quat_ypr_ctor := QuaternionT_f_mk__f_f_f IR.
Definition qone : Qt := quat 1 0 0 0.

Lemma quat_mul_def r1 i1 j1 k1 r2 i2 j2 k2 :
  qmul (quat r1 i1 j1 k1) (quat r2 i2 j2 k2) =
  quat (r1 * r2 - i1 * i2 - j1 * j2 - k1 * k2)
       (r1 * i2 + i1 * r2 + j1 * k2 - k1 * j2)
       (r1 * j2 - i1 * k2 + j1 * r2 + k1 * i2)
       (r1 * k2 + i1 * j2 - j1 * i2 + k1 * r2).
Proof. reflexivity. Qed.

Lemma quat_mul_assoc (p q s : Qt) : qmul (qmul p q) s = qmul p (qmul q s).
Proof. recs. gen. comps; ring. Qed.

Lemma quat_mul_compose (p q : Qt) (v : V3) : qrot (qmul p q) v = qrot p (qrot q v).
Proof. recs. gen. comps; ring. Qed.

Lemma quat_to_matrix_apply (q : Qt) (v : V3) : apply3 (mat_of_quat q) v = qrot q v.
Proof. recs. gen. comps; ring. Qed.

Lemma quat_matrix_is_rotation (q : Qt) :
  qdot q q = 1 ->
  mul3 (transposed3 (mat_of_quat q)) (mat_of_quat q) = one3 /\ det3 (mat_of_quat q) = 1.
Proof.
  recs. intro H. gen_in H. split; gen; comps; nsatz.
Qed.

Lemma quat_rotation_preserves_length (q : Qt) (v : V3) :
  qdot q q = 1 -> dot3 (qrot q v) (qrot q v) = dot3 v v.
Proof. recs. intro H. gen_in H. gen. nsatz. Qed.

Lemma quat_conj_rcp_normalize (q : Qt) :
  qconj q = quat (QuaternionT_s_r q) (- QuaternionT_s_i q) (- QuaternionT_s_j q) (- QuaternionT_s_k q) /\
  (qdot q q <> 0 -> qmul q (qrcp q) = qone /\ qmul (qrcp q) q = qone) /\
  (0 < qdot q q -> qdot (qnormalize q) (qnormalize q) = 1).
Proof.
  recs. split; [reflexivity|]. split.
  - intro H. gen_in H. split; gen; comps; field; exact H.
  - intro H. gen_in H. gen.
    set (n := QuaternionT_s_r * QuaternionT_s_r + QuaternionT_s_i * QuaternionT_s_i + QuaternionT_s_j * QuaternionT_s_j + QuaternionT_s_k * QuaternionT_s_k) in *.
    assert (Hs : sqrt n * sqrt n = n) by (apply sqrt_sqrt; lra).
    assert (Hn : sqrt n <> 0) by (intro E; rewrite E in Hs; lra).
    transitivity (n / (sqrt n * sqrt n)); [unfold n; field; exact Hn | rewrite Hs; field; lra].
Qed.

(* Quaternion.rotate(u, r) and LinearSpace3::rotate(u, r) are the same rotation *)
Lemma quat_rotate_def (u : V3) (r : R) :
  dot3 u u = 1 ->
  qrotate u r = quat (cos (r / 2)) (sin (r / 2) * vec3_x u) (sin (r / 2) * vec3_y u) (sin (r / 2) * vec3_z u).
Proof.
  intro H. unfold qrotate, QuaternionT_f_rotate__v3f_f. fold normalize3. rewrite (normalize_of_unit u H).
  recs. gen. replace (1 / 2 * r) with (r / 2) by field. reflexivity.
Qed.

Lemma quat_rotate_matches_matrix (u : V3) (r : R) :
  dot3 u u = 1 -> mat_of_quat (qrotate u r) = rotate3 u r.
Proof.
  intro H. rewrite (quat_rotate_def u r H), (rotate3_unit_matrix u r H). recs. gen_in H. cbv zeta.
  replace (sin r) with (sin (2 * (r / 2))) by (f_equal; field).
  replace (cos r) with (cos (2 * (r / 2))) by (f_equal; field).
  rewrite sin_2a, cos_2a.
  pose proof (sin2_cos2 (r / 2)) as Hsc. unfold Rsqr in Hsc.
  set (s := sin (r / 2)) in *. set (c := cos (r / 2)) in *.
  gen. comps; nsatz.
Qed.

Lemma quat_rotate_is_rodrigues (u v : V3) (r : R) :
  dot3 u u = 1 -> qrot (qrotate u r) v = rodrigues u v r.
Proof.
  intro H. rewrite <- quat_to_matrix_apply, quat_rotate_matches_matrix, rotate3_rodrigues; auto.
Qed.

(* yaw/pitch/roll constructor = rot_Y(yaw) * rot_X(pitch) * rot_Z(roll) *)
Definition qrotX (a : R) : Qt := quat (cos (a / 2)) (sin (a / 2)) 0 0.
Definition qrotY (a : R) : Qt := quat (cos (a / 2)) 0 (sin (a / 2)) 0.
Definition qrotZ (a : R) : Qt := quat (cos (a / 2)) 0 0 (sin (a / 2)).

Lemma quat_axis_rotations (a : R) :
  qrotate (v3 1 0 0) a = qrotX a /\ qrotate (v3 0 1 0) a = qrotY a /\ qrotate (v3 0 0 1) a = qrotZ a.
Proof.
  repeat split; rewrite quat_rotate_def by (gen; ring); gen; comps; ring.
Qed.

Lemma quat_ypr (yaw pitch roll : R) :
  quat_ypr_ctor yaw pitch roll = qmul (qmul (qrotY yaw) (qrotX pitch)) (qrotZ roll).
Proof.
  gen.
  replace (yaw * (1 / 2)) with (yaw / 2) by field.
  replace (pitch * (1 / 2)) with (pitch / 2) by field.
  replace (roll * (1 / 2)) with (roll / 2) by field.
  comps; ring.
Qed.

Lemma double_quaternion_same_formulas :
  op_mul__QuaternionT_d_QuaternionT_d IR = qmul /\ op_mul__QuaternionT_d_v3d IR = qrot /\
  QuaternionT_d_mk__d_d_d IR = quat_ypr_ctor /\ QuaternionT_d_rotate__v3d_d IR = qrotate /\
  QuaternionT_d_mk__v3d_v3d_v3d IR = QuaternionT_f_mk__v3f_v3f_v3f IR /\
  slerp__f_QuaternionT_d_QuaternionT_d IR = slerp__f_QuaternionT_f_QuaternionT_f IR.
Proof. repeat split; reflexivity. Qed.
