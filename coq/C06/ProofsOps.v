(* C06 proofs, part 8: every remaining operator / constructor of LinearSpace.h, AffineSpace.h, Quaternion.h
   (regenerated code, read over R): compound assignment = binary operator + assignment, division = product with rcp,
   unary +/-, scalar forms, comparisons, constants, aliases. *)
From Coq Require Import Reals Lra Psatz List Bool ZArith.
From Common Require Import CxxSem.
From C06 Require Import GenLin Sem ProofsLin ProofsRot ProofsQuat.
Import ListNotations.
Local Open Scope R_scope.

(* ------------------------------------------------------------------ compound assignment: a op= b stores and returns a op b *)
Lemma compound_assign_linear (a b : M2) (c d : M3) :
  op_mul_assign__LinearSpace2_LinearSpace2 IR a b = mul2 a b /\
  op_div_assign__LinearSpace2_LinearSpace2 IR a b = op_div__LinearSpace2_LinearSpace2 IR a b /\
  op_mul_assign__LinearSpace3_LinearSpace3 IR c d = mul3 c d /\
  op_div_assign__LinearSpace3_LinearSpace3 IR c d = op_div__LinearSpace3_LinearSpace3 IR c d.
Proof. recs. repeat split; reflexivity. Qed.

Lemma compound_assign_affine (a b : A3) (c d : A2) :
  op_mul_assign__AffineSpaceT_LinearSpace3_v3f_AffineSpaceT_LinearSpace3_v3f IR a b = mulA3 a b /\
  op_div_assign__AffineSpaceT_LinearSpace3_v3f_AffineSpaceT_LinearSpace3_v3f IR a b =
    op_div__AffineSpaceT_LinearSpace3_v3f_AffineSpaceT_LinearSpace3_v3f IR a b /\
  op_mul_assign__AffineSpaceT_LinearSpace2_v2f_AffineSpaceT_LinearSpace2_v2f IR c d = mulA2 c d.
Proof. recs. repeat split; reflexivity. Qed.

(* in particular (a *= b) applied to a point is a applied after b *)
Lemma compound_assign_affine_apply (a b : A3) (p : V3) :
  xfmPointA (op_mul_assign__AffineSpaceT_LinearSpace3_v3f_AffineSpaceT_LinearSpace3_v3f IR a b) p = xfmPointA a (xfmPointA b p).
Proof. destruct (compound_assign_affine a b oneA2 oneA2) as [E _]. rewrite E. apply compose_apply. Qed.

Lemma compound_assign_quat (a b : Qt) (s : R) :
  op_add_assign__QuaternionT_f_f IR a s = op_add__QuaternionT_f_f IR a s /\
  op_add_assign__QuaternionT_f_QuaternionT_f IR a b = qadd a b /\
  op_sub_assign__QuaternionT_f_f IR a s = op_sub__QuaternionT_f_f IR a s /\
  op_sub_assign__QuaternionT_f_QuaternionT_f IR a b = op_sub__QuaternionT_f_QuaternionT_f IR a b /\
  op_mul_assign__QuaternionT_f_f IR a s = op_mul__QuaternionT_f_f IR a s /\
  op_mul_assign__QuaternionT_f_QuaternionT_f IR a b = qmul a b /\
  op_div_assign__QuaternionT_f_f IR a s = op_div__QuaternionT_f_f IR a s /\
  op_div_assign__QuaternionT_f_QuaternionT_f IR a b = op_div__QuaternionT_f_QuaternionT_f IR a b.
Proof. recs. repeat split; reflexivity. Qed.

Lemma assign_operators (a b : M2) (c d : M3) (e f : A3) (g h : A2) (p q : Qt) :
  LinearSpace2_op_assign__LinearSpace2 IR a b = b /\ LinearSpace3_op_assign__LinearSpace3 IR c d = d /\
  AffineSpaceT_LinearSpace3_v3f_op_assign__AffineSpaceT_LinearSpace3_v3f IR e f = f /\
  AffineSpaceT_LinearSpace2_v2f_op_assign__AffineSpaceT_LinearSpace2_v2f IR g h = h /\
  QuaternionT_f_op_assign__QuaternionT_f IR p q = q.
Proof. recs. repeat split; reflexivity. Qed.

(* ------------------------------------------------------------------ division = product with the reciprocal; it undoes the product *)
Lemma division_def (a b : M2) (c d : M3) (e f : A3) (p q : Qt) (s : R) :
  op_div__LinearSpace2_LinearSpace2 IR a b = mul2 a (inv2 b) /\
  op_div__LinearSpace3_LinearSpace3 IR c d = mul3 c (inv3 d) /\
  op_div__AffineSpaceT_LinearSpace3_v3f_AffineSpaceT_LinearSpace3_v3f IR e f = mulA3 e (rcp__AffineSpaceT_LinearSpace3_v3f IR f) /\
  op_div__QuaternionT_f_QuaternionT_f IR p q = qmul p (qrcp q) /\
  op_div__QuaternionT_f_f IR p s = op_mul__QuaternionT_f_f IR p (rcp__f IR s) /\
  op_div__f_QuaternionT_f IR s q = qscale s (qrcp q) /\
  rcp__f IR s = 1 / s.
Proof. repeat split; try reflexivity. gen. reflexivity. Qed.

Lemma division_undoes_product (a b : M2) (c d : M3) (e f : A3) (p q : Qt) :
  (det2 b <> 0 -> mul2 (op_div__LinearSpace2_LinearSpace2 IR a b) b = a) /\
  (det3 d <> 0 -> mul3 (op_div__LinearSpace3_LinearSpace3 IR c d) d = c) /\
  (det3 (AffineSpaceT_LinearSpace3_vec3_l f) <> 0 ->
     mulA3 (op_div__AffineSpaceT_LinearSpace3_v3f_AffineSpaceT_LinearSpace3_v3f IR e f) f = e) /\
  (qdot q q <> 0 -> qmul (op_div__QuaternionT_f_QuaternionT_f IR p q) q = p).
Proof.
  recs. repeat split; intro H; gen_in H; gen; comps; field; exact H.
Qed.

(* ------------------------------------------------------------------ unary and scalar forms, sums and differences *)
Lemma unary_operators (a : M2) (c : M3) (e : A3) (p : Qt) :
  op_add__LinearSpace2 IR a = a /\ op_add__LinearSpace3 IR c = c /\ op_add__AffineSpaceT_LinearSpace3_v3f IR e = e /\
  op_add__QuaternionT_f IR p = p /\
  op_sub__AffineSpaceT_LinearSpace3_v3f IR e =
    mk_AffineSpaceT_LinearSpace3_vec3 IR (op_sub__LinearSpace3 IR (AffineSpaceT_LinearSpace3_vec3_l e)) (op_sub__v3f IR (AffineSpaceT_LinearSpace3_vec3_p e)) /\
  mul3 (op_sub__LinearSpace3 IR c) (op_sub__LinearSpace3 IR c) = mul3 c c /\
  op_add__LinearSpace3_LinearSpace3 IR c (op_sub__LinearSpace3 IR c) = LinearSpace3_mk__ZeroTy IR tt /\
  op_add__LinearSpace2_LinearSpace2 IR a (op_sub__LinearSpace2 IR a) = LinearSpace2_mk__ZeroTy IR tt /\
  qadd p (qneg p) = QuaternionT_f_mk__ZeroTy IR tt.
Proof.
  recs. repeat split; try reflexivity; gen; comps; ring.
Qed.

Lemma affine_sum_difference_scalar (e f : A3) (s : R) (p : V3) :
  op_add__AffineSpaceT_LinearSpace3_v3f_AffineSpaceT_LinearSpace3_v3f IR e f =
    mk_AffineSpaceT_LinearSpace3_vec3 IR (op_add__LinearSpace3_LinearSpace3 IR (AffineSpaceT_LinearSpace3_vec3_l e) (AffineSpaceT_LinearSpace3_vec3_l f))
                                         (add3 (AffineSpaceT_LinearSpace3_vec3_p e) (AffineSpaceT_LinearSpace3_vec3_p f)) /\
  op_sub__AffineSpaceT_LinearSpace3_v3f_AffineSpaceT_LinearSpace3_v3f IR e f =
    mk_AffineSpaceT_LinearSpace3_vec3 IR (op_sub__LinearSpace3_LinearSpace3 IR (AffineSpaceT_LinearSpace3_vec3_l e) (AffineSpaceT_LinearSpace3_vec3_l f))
                                         (sub3 (AffineSpaceT_LinearSpace3_vec3_p e) (AffineSpaceT_LinearSpace3_vec3_p f)) /\
  op_mul__f_AffineSpaceT_LinearSpace3_v3f IR s e =
    mk_AffineSpaceT_LinearSpace3_vec3 IR (op_mul__f_LinearSpace3 IR s (AffineSpaceT_LinearSpace3_vec3_l e)) (smul3 s (AffineSpaceT_LinearSpace3_vec3_p e)) /\
  xfmPointA (op_mul__f_AffineSpaceT_LinearSpace3_v3f IR s e) p = smul3 s (xfmPointA e p).
Proof.
  recs. repeat split; try reflexivity. gen. comps; ring.
Qed.

Lemma quat_scalar_operators (p : Qt) (s : R) :
  let r := QuaternionT_s_r p in let i := QuaternionT_s_i p in let j := QuaternionT_s_j p in let k := QuaternionT_s_k p in
  op_add__f_QuaternionT_f IR s p = quat (s + r) i j k /\ op_add__QuaternionT_f_f IR p s = quat (r + s) i j k /\
  op_sub__f_QuaternionT_f IR s p = quat (s - r) (- i) (- j) (- k) /\ op_sub__QuaternionT_f_f IR p s = quat (r - s) i j k /\
  qscale s p = quat (s * r) (s * i) (s * j) (s * k) /\ op_mul__QuaternionT_f_f IR p s = quat (r * s) (i * s) (j * s) (k * s) /\
  op_sub__QuaternionT_f_QuaternionT_f IR p p = QuaternionT_f_mk__ZeroTy IR tt /\
  QuaternionT_f_mk__f IR s = quat s 0 0 0 /\ QuaternionT_f_mk__OneTy IR tt = quat 1 0 0 0 /\ QuaternionT_f_mk__ZeroTy IR tt = quat 0 0 0 0.
Proof.
  destruct p. cbv zeta. repeat split; try reflexivity. gen. comps; ring.
Qed.

(* ------------------------------------------------------------------ constants and the column constructor *)
Lemma constants_def (c1 c2 c3 c4 : V3) (x : V3) :
  LinearSpace2_mk__ZeroTy IR tt = rows2 0 0 0 0 /\ LinearSpace3_mk__ZeroTy IR tt = rows3 0 0 0 0 0 0 0 0 0 /\
  LinearSpace2_mk__OneTy IR tt = rows2 1 0 0 1 /\ LinearSpace3_mk__OneTy IR tt = rows3 1 0 0 0 1 0 0 0 1 /\
  AffineSpaceT_LinearSpace3_v3f_mk__ZeroTy IR tt = mk_AffineSpaceT_LinearSpace3_vec3 IR (rows3 0 0 0 0 0 0 0 0 0) (v3 0 0 0) /\
  AffineSpaceT_LinearSpace3_v3f_mk__OneTy IR tt = oneA3 /\
  AffineSpaceT_LinearSpace3_v3f_mk__v3f_v3f_v3f_v3f IR c1 c2 c3 c4 = mk_AffineSpaceT_LinearSpace3_vec3 IR (mk_LinearSpace3 IR c1 c2 c3) c4 /\
  xfmPointA (AffineSpaceT_LinearSpace3_v3f_mk__OneTy IR tt) x = x.
Proof.
  recs. repeat split; try reflexivity. gen. comps; ring.
Qed.

(* ------------------------------------------------------------------ comparisons decide equality *)
Lemma Reqb_true (x y : R) : Reqb x y = true <-> x = y.
Proof. unfold Reqb. destruct (Req_EM_T x y); split; intro; congruence. Qed.

Ltac eqdec := gen; repeat match goal with |- context [Req_EM_T ?x ?y] => destruct (Req_EM_T x y) end; cbn;
              split; (let E := fresh "E" in intro E; try discriminate; try reflexivity;
                      try (injection E; intros; subst; congruence); try congruence).

Lemma comparison_linear2 (a b : M2) :
  (op_eq__LinearSpace2_LinearSpace2 IR a b = true <-> a = b) /\
  op_ne__LinearSpace2_LinearSpace2 IR a b = negb (op_eq__LinearSpace2_LinearSpace2 IR a b).
Proof.
  destruct a as [[a1 a2] [a3 a4]], b as [[b1 b2] [b3 b4]]. cbv [S IR] in *. split.
  - eqdec.
  - gen. repeat match goal with |- context [Req_EM_T ?x ?y] => destruct (Req_EM_T x y) end; reflexivity.
Qed.

Lemma comparison_quat (a b : Qt) :
  (op_eq__QuaternionT_f_QuaternionT_f IR a b = true <-> a = b) /\
  op_ne__QuaternionT_f_QuaternionT_f IR a b = negb (op_eq__QuaternionT_f_QuaternionT_f IR a b).
Proof.
  destruct a as [a1 a2 a3 a4], b as [b1 b2 b3 b4]. cbv [S IR] in *. split.
  - eqdec.
  - gen. repeat match goal with |- context [Req_EM_T ?x ?y] => destruct (Req_EM_T x y) end; reflexivity.
Qed.

Lemma comparison_vec3 (a b : V3) :
  (op_eq__v3f_v3f IR a b = true <-> a = b) /\ op_ne__v3f_v3f IR a b = negb (op_eq__v3f_v3f IR a b).
Proof.
  destruct a as [a1 a2 a3], b as [b1 b2 b3]. cbv [S IR] in *. split.
  - eqdec.
  - gen. repeat match goal with |- context [Req_EM_T ?x ?y] => destruct (Req_EM_T x y) end; reflexivity.
Qed.

Lemma comparison_linear3 (a b : M3) :
  (op_eq__LinearSpace3_LinearSpace3 IR a b = true <-> a = b) /\
  op_ne__LinearSpace3_LinearSpace3 IR a b = negb (op_eq__LinearSpace3_LinearSpace3 IR a b).
Proof.
  destruct a as [ax ay az], b as [bx by_ bz].
  unfold op_eq__LinearSpace3_LinearSpace3, op_ne__LinearSpace3_LinearSpace3. cbn [LinearSpace3_vx LinearSpace3_vy LinearSpace3_vz].
  destruct (comparison_vec3 ax bx) as [Ex Nx], (comparison_vec3 ay by_) as [Ey Ny], (comparison_vec3 az bz) as [Ez Nz].
  rewrite Nx, Ny, Nz. split.
  - rewrite !andb_true_iff, Ex, Ey, Ez. split; [intros [[? ?] ?]; subst; reflexivity | intro E; injection E; auto].
  - destruct (op_eq__v3f_v3f IR ax bx), (op_eq__v3f_v3f IR ay by_), (op_eq__v3f_v3f IR az bz); reflexivity.
Qed.

Lemma comparison_affine (a b : A3) :
  (op_eq__AffineSpaceT_LinearSpace3_v3f_AffineSpaceT_LinearSpace3_v3f IR a b = true <-> a = b) /\
  op_ne__AffineSpaceT_LinearSpace3_v3f_AffineSpaceT_LinearSpace3_v3f IR a b =
    negb (op_eq__AffineSpaceT_LinearSpace3_v3f_AffineSpaceT_LinearSpace3_v3f IR a b).
Proof.
  destruct a as [al ap], b as [bl bp].
  unfold op_eq__AffineSpaceT_LinearSpace3_v3f_AffineSpaceT_LinearSpace3_v3f, op_ne__AffineSpaceT_LinearSpace3_v3f_AffineSpaceT_LinearSpace3_v3f.
  cbn [AffineSpaceT_LinearSpace3_vec3_l AffineSpaceT_LinearSpace3_vec3_p].
  destruct (comparison_linear3 al bl) as [El Nl], (comparison_vec3 ap bp) as [Ep Np]. rewrite Nl, Np. split.
  - rewrite andb_true_iff, El, Ep. split; [intros [? ?]; subst; reflexivity | intro E; injection E; auto].
  - destruct (op_eq__LinearSpace3_LinearSpace3 IR al bl), (op_eq__v3f_v3f IR ap bp); reflexivity.
Qed.

(* ------------------------------------------------------------------ aliases and clamp *)
Lemma quat_xfm_aliases (a b : Qt) (v : V3) :
  xfmQuaternion__QuaternionT_f_QuaternionT_f IR a b = qmul a b /\ xfmNormal__QuaternionT_f_v3f IR a v = qrot a v /\
  xfmPoint__QuaternionT_f_v3f IR a v = qrot a v.
Proof. repeat split; reflexivity. Qed.

Lemma quat_abs_and_rotate_wrapper (q : Qt) :
  abs__QuaternionT_f IR q = sqrt (qdot q q) /\ abs__QuaternionT_d IR q = sqrt (qdot q q) /\
  AffineSpaceT_LinearSpace3_v3f_rotate__QuaternionT_f IR q = mk_AffineSpaceT_LinearSpace3_vec3 IR (mat_of_quat q) (v3 0 0 0).
Proof. destruct q. repeat split; reflexivity. Qed.

Lemma affine2_factories_def (x y r : R) :
  AffineSpaceT_LinearSpace2_v2f_scale__v2f IR (v2 x y) = mk_AffineSpaceT_LinearSpace2_vec2 IR (rows2 x 0 0 y) (v2 0 0) /\
  AffineSpaceT_LinearSpace2_v2f_translate__v2f IR (v2 x y) = mk_AffineSpaceT_LinearSpace2_vec2 IR one2 (v2 x y) /\
  AffineSpaceT_LinearSpace2_v2f_rotate__f IR r = mk_AffineSpaceT_LinearSpace2_vec2 IR (rotate2 r) (v2 0 0) /\
  LinearSpace2_scale__v2f IR (v2 x y) = rows2 x 0 0 y.
Proof. repeat split; reflexivity. Qed.

Lemma clamp_scalar (x : R) :
  -1 <= clamp__f_f_f IR x (-1) 1 <= 1 /\ (-1 <= x <= 1 -> clamp__f_f_f IR x (-1) 1 = x).
Proof.
  unfold clamp__f_f_f. cbn. unfold Rltb.
  destruct (Rlt_dec 1 x); destruct (Rlt_dec _ (-1)); split; try lra; intro; lra.
Qed.

Lemma clamp_linear3_def (m : M3) :
  let c x := clamp__f_f_f IR x (-1) 1 in
  let cv (v : V3) := v3 (c (vec3_x v)) (c (vec3_y v)) (c (vec3_z v)) in
  clamp__LinearSpace3 IR m = mk_LinearSpace3 IR (cv (LinearSpace3_vx m)) (cv (LinearSpace3_vy m)) (cv (LinearSpace3_vz m)).
Proof.
  recs. cbv zeta. unfold clamp__LinearSpace3, clamp__v3f_v3f_v3f, max__v3f_v3f, min__v3f_v3f. cbn.
  unfold clamp__f_f_f. cbn. unfold v3. repeat f_equal; try (replace (- (1 / 1)) with (-1) by field); try (replace (1 / 1) with 1 by field); reflexivity.
Qed.

Lemma double_quaternion_operators_same :
  op_add_assign__QuaternionT_d_d IR = op_add_assign__QuaternionT_f_f IR /\
  op_add_assign__QuaternionT_d_QuaternionT_d IR = op_add_assign__QuaternionT_f_QuaternionT_f IR /\
  op_sub_assign__QuaternionT_d_d IR = op_sub_assign__QuaternionT_f_f IR /\
  op_sub_assign__QuaternionT_d_QuaternionT_d IR = op_sub_assign__QuaternionT_f_QuaternionT_f IR /\
  op_mul_assign__QuaternionT_d_d IR = op_mul_assign__QuaternionT_f_f IR /\
  op_mul_assign__QuaternionT_d_QuaternionT_d IR = op_mul_assign__QuaternionT_f_QuaternionT_f IR /\
  op_div_assign__QuaternionT_d_d IR = op_div_assign__QuaternionT_f_f IR /\
  op_div_assign__QuaternionT_d_QuaternionT_d IR = op_div_assign__QuaternionT_f_QuaternionT_f IR /\
  op_add__d_QuaternionT_d IR = op_add__f_QuaternionT_f IR /\ op_add__QuaternionT_d_d IR = op_add__QuaternionT_f_f IR /\
  op_sub__d_QuaternionT_d IR = op_sub__f_QuaternionT_f IR /\ op_sub__QuaternionT_d_d IR = op_sub__QuaternionT_f_f IR /\
  op_div__d_QuaternionT_d IR = op_div__f_QuaternionT_f IR /\ op_div__QuaternionT_d_d IR = op_div__QuaternionT_f_f IR /\
  op_div__QuaternionT_d_QuaternionT_d IR = op_div__QuaternionT_f_QuaternionT_f IR /\
  op_add__QuaternionT_d IR = op_add__QuaternionT_f IR /\ op_eq__QuaternionT_d_QuaternionT_d IR = op_eq__QuaternionT_f_QuaternionT_f IR /\
  op_ne__QuaternionT_d_QuaternionT_d IR = op_ne__QuaternionT_f_QuaternionT_f IR /\
  op_mul__QuaternionT_d_f IR = op_mul__QuaternionT_f_f IR /\ op_mul__f_QuaternionT_d IR = op_mul__f_QuaternionT_f IR /\
  xfmQuaternion__QuaternionT_d_QuaternionT_d IR = xfmQuaternion__QuaternionT_f_QuaternionT_f IR /\
  xfmNormal__QuaternionT_d_v3d IR = xfmNormal__QuaternionT_f_v3f IR /\ QuaternionT_d_mk__d IR = QuaternionT_f_mk__f IR.
Proof. repeat split; reflexivity. Qed.
