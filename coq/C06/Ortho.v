(* C06: LinearSpace2::orthogonal() (LinearSpace.h:112-136).  The function contains a for-loop, which is outside the
   subset cxx2coq translates, so THIS FILE IS A HAND MODEL (Tie B) -- written in the same shallow embedding over
   Common.CxxSem.interp as the generated code, and calling the REGENERATED definitions of gen/GenLin.v for every
   callee (det, transposed, inverse, operator+/-/*, dot, unary minus).  Only the control flow is mirrored by hand:

     LinearSpace2 m = *this;
     Scalar mirror(one);
     if (m.det() < Scalar(zero)) { m.vx = -m.vx; mirror = -mirror; }
     for (int i = 0; i < 99; i++) {
       const LinearSpace2 m_next = 0.5 * (m + m.transposed().inverse());
       const LinearSpace2 d      = m_next - m;
       m                         = m_next;
       if (max(dot(d.vx, d.vx), dot(d.vy, d.vy)) < 1e-8) break;
     }
     return LinearSpace2(mirror * m.vx, m.vy);

   Definitions only (no proofs): the model still runs when a proof breaks. *)
From Coq Require Import ZArith List Bool.
From Common Require Import CxxSem.
From C06 Require Import GenLin.
Import ListNotations.

Section Ortho.
  Variable I : interp.

  (* 0.5 * (m + m.transposed().inverse());  the double literal 0.5 is converted to Scalar (float) by the call *)
  Definition ortho_step (m : LinearSpace2 I) : LinearSpace2 I :=
    op_mul__f_LinearSpace2 I (cast I F64 F32 (flit I F64 1 2))
      (op_add__LinearSpace2_LinearSpace2 I m (LinearSpace2_inverse__ I (LinearSpace2_transposed__ I m))).

  (* max(dot(d.vx, d.vx), dot(d.vy, d.vy)) < 1e-8   (float promoted to double for the comparison) *)
  Definition ortho_small (d : LinearSpace2 I) : bool :=
    cmp I Lt F64
      (cast I F32 F64 (lib I LMax F32 [dot__v2f_v2f I (LinearSpace2_vx d) (LinearSpace2_vx d);
                                       dot__v2f_v2f I (LinearSpace2_vy d) (LinearSpace2_vy d)]))
      (flit I F64 1 100000000).

  (* the loop: at most n more iterations; leaving it by the bound is what the C++ does too (no error state) *)
  Fixpoint ortho_iter (n : nat) (m : LinearSpace2 I) : LinearSpace2 I :=
    match n with
    | O => m
    | Datatypes.S k =>
        let m_next := ortho_step m in
        let d := op_sub__LinearSpace2_LinearSpace2 I m_next m in
        if ortho_small d then m_next else ortho_iter k m_next
    end.

  Definition neg_vx (m : LinearSpace2 I) : LinearSpace2 I :=
    mk_LinearSpace2 I (op_sub__v2f I (LinearSpace2_vx m)) (LinearSpace2_vy m).

  Definition ortho_mirrored (m : LinearSpace2 I) : bool :=
    cmp I Lt F32 (LinearSpace2_det__ I m) (ZeroTy_conv_f__ I tt).

  Definition ortho_loop (n : nat) (m : LinearSpace2 I) : LinearSpace2 I :=
    ortho_iter n (if ortho_mirrored m then neg_vx m else m).

  Definition ortho_mirror (m : LinearSpace2 I) : S I :=
    if ortho_mirrored m then uop I Neg F32 (OneTy_conv_f__ I tt) else OneTy_conv_f__ I tt.

  (* return LinearSpace2(mirror * m.vx, m.vy) *)
  Definition orthogonal_n (n : nat) (m : LinearSpace2 I) : LinearSpace2 I :=
    let r := ortho_loop n m in
    LinearSpace2_mk__v2f_v2f I (op_mul__f_v2f I (ortho_mirror m) (LinearSpace2_vx r)) (LinearSpace2_vy r).

  Definition orthogonal (m : LinearSpace2 I) : LinearSpace2 I := orthogonal_n 99 m.

  (* the slip "undo the mirror on the other column": kept only to be refuted *)
  Definition orthogonal_n_old (n : nat) (m : LinearSpace2 I) : LinearSpace2 I :=
    let r := ortho_loop n m in
    LinearSpace2_mk__v2f_v2f I (LinearSpace2_vx r) (op_mul__f_v2f I (ortho_mirror m) (LinearSpace2_vy r)).
End Ortho.
