(* C06 proofs, part 2: rotate(axis, angle) is the Rodrigues rotation; rotation about a point. *)
From Coq Require Import Reals Lra Psatz List Bool ZArith Nsatz.
From Common Require Import CxxSem.
From C06 Require Import GenLin Sem ProofsLin.
Import ListNotations.
Local Open Scope R_scope.

Definition rotate3 := LinearSpace3_rotate__v3f_f IR.
Definition rotate2 := LinearSpace2_rotate__f IR.
Definition normalize3 := normalize__v3f IR.
Definition sub3 := op_sub__v3f_v3f IR.

(* v cos r + (u x v) sin r + u (u.v)(1 - cos r) *)
Definition rodrigues (u v : V3) (r : R) : V3 :=
  add3 (add3 (smul3 (cos r) v) (smul3 (sin r) (cross3 u v))) (smul3 (dot3 u v * (1 - cos r)) u).

Lemma normalize_of_unit (u : V3) : dot3 u u = 1 -> normalize3 u = u.
Proof.
  recs. intro H. gen_in H. gen. rewrite H, sqrt_1. comps; field.
Qed.

Lemma normalize_is_unit (u : V3) : 0 < dot3 u u -> dot3 (normalize3 u) (normalize3 u) = 1.
Proof.
  recs. intro H. gen_in H. gen.
  set (k := vec3_x * vec3_x + vec3_y * vec3_y + vec3_z * vec3_z) in *.
  assert (Hs : sqrt k * sqrt k = k) by (apply sqrt_sqrt; lra).
  assert (Hn : sqrt k <> 0) by (intro E; rewrite E in Hs; lra).
  transitivity (k / (sqrt k * sqrt k)); [unfold k; field; exact Hn | rewrite Hs; field; lra].
Qed.

(* for every axis (also non-normalised): the matrix is Rodrigues' formula about the normalised axis *)
Lemma rotate3_rodrigues_general (u v : V3) (r : R) :
  apply3 (rotate3 u r) v = rodrigues (normalize3 u) v r.
Proof.
  unfold rotate3, LinearSpace3_rotate__v3f_f. fold normalize3.
  destruct (normalize3 u) as [nx ny nz]. recs. gen. comps; ring.
Qed.

Lemma rotate3_rodrigues (u v : V3) (r : R) :
  dot3 u u = 1 -> apply3 (rotate3 u r) v = rodrigues u v r.
Proof.
  intro H. rewrite rotate3_rodrigues_general, normalize_of_unit; auto.
Qed.

Lemma rotate3_unit_matrix (u : V3) (r : R) :
  dot3 u u = 1 ->
  rotate3 u r =
  let x := vec3_x u in let y := vec3_y u in let z := vec3_z u in let s := sin r in let c := cos r in
  rows3 (x * x + (1 - x * x) * c) (x * y * (1 - c) - z * s) (x * z * (1 - c) + y * s)
        (x * y * (1 - c) + z * s) (y * y + (1 - y * y) * c) (y * z * (1 - c) - x * s)
        (x * z * (1 - c) - y * s) (y * z * (1 - c) + x * s) (z * z + (1 - z * z) * c).
Proof.
  intro H. unfold rotate3, LinearSpace3_rotate__v3f_f. fold normalize3. rewrite (normalize_of_unit u H).
  recs. reflexivity.
Qed.

Lemma rotate3_orthogonal (u : V3) (r : R) :
  dot3 u u = 1 -> mul3 (transposed3 (rotate3 u r)) (rotate3 u r) = one3 /\ mul3 (rotate3 u r) (transposed3 (rotate3 u r)) = one3.
Proof.
  intro H. rewrite (rotate3_unit_matrix u r H). recs. gen_in H. cbv zeta.
  pose proof (sin2_cos2 r) as Hsc. unfold Rsqr in Hsc.
  set (s := sin r) in *. set (c := cos r) in *.
  split; gen; comps; nsatz.
Qed.

Lemma rotate3_det_one (u : V3) (r : R) : dot3 u u = 1 -> det3 (rotate3 u r) = 1.
Proof.
  intro H. rewrite (rotate3_unit_matrix u r H). recs. gen_in H. cbv zeta.
  pose proof (sin2_cos2 r) as Hsc. unfold Rsqr in Hsc.
  set (s := sin r) in *. set (c := cos r) in *.
  gen. nsatz.
Qed.

Lemma rotate3_fixes_axis (u : V3) (r : R) : dot3 u u = 1 -> apply3 (rotate3 u r) u = u.
Proof.
  intro H. rewrite (rotate3_unit_matrix u r H). recs. gen_in H. cbv zeta.
  set (s := sin r) in *. set (c := cos r) in *.
  gen. comps; nsatz.
Qed.

(* rotation by the given angle: a vector orthogonal to the axis keeps its length and makes angle r with its image *)
Lemma rotate3_angle (u v : V3) (r : R) :
  dot3 u u = 1 -> dot3 u v = 0 ->
  dot3 (apply3 (rotate3 u r) v) v = cos r * dot3 v v /\
  dot3 (apply3 (rotate3 u r) v) (apply3 (rotate3 u r) v) = dot3 v v /\
  dot3 (cross3 v (apply3 (rotate3 u r) v)) u = sin r * dot3 v v.
Proof.
  intros H H0. rewrite (rotate3_unit_matrix u r H). recs. gen_in H. gen_in H0. cbv zeta.
  pose proof (sin2_cos2 r) as Hsc. unfold Rsqr in Hsc.
  set (s := sin r) in *. set (c := cos r) in *.
  repeat split; gen; nsatz.
Qed.

Lemma rotate2_def (r : R) : rotate2 r = rows2 (cos r) (- sin r) (sin r) (cos r).
Proof. reflexivity. Qed.

Lemma rotate2_orthogonal_det (r : R) : mul2 (transposed2 (rotate2 r)) (rotate2 r) = one2 /\ det2 (rotate2 r) = 1.
Proof.
  pose proof (sin2_cos2 r) as Hsc. unfold Rsqr in Hsc.
  split; gen; comps; nsatz.
Qed.

(* rotation about a point keeps the point (3D: axis through p; 2D: centre p), for every axis and angle *)
Lemma rotate_about_point_fixes_p (p u : V3) (r : R) :
  xfmPointA (AffineSpaceT_LinearSpace3_v3f_rotate__v3f_v3f_f IR p u r) p = p.
Proof.
  unfold AffineSpaceT_LinearSpace3_v3f_rotate__v3f_v3f_f, AffineSpaceT_LinearSpace3_v3f_rotate__v3f_f.
  destruct (LinearSpace3_rotate__v3f_f IR u r) as [[a b c] [d e f] [g h i]]. recs.
  gen. comps; ring.
Qed.

Lemma rotate_about_point_linear_part (p u : V3) (r : R) :
  AffineSpaceT_LinearSpace3_vec3_l (AffineSpaceT_LinearSpace3_v3f_rotate__v3f_v3f_f IR p u r) = rotate3 u r.
Proof.
  unfold AffineSpaceT_LinearSpace3_v3f_rotate__v3f_v3f_f, AffineSpaceT_LinearSpace3_v3f_rotate__v3f_f, rotate3.
  destruct (LinearSpace3_rotate__v3f_f IR u r) as [[a b c] [d e f] [g h i]]. recs.
  gen. comps; ring.
Qed.

Lemma rotate2_about_point_fixes_p (p : V2) (r : R) :
  let A := AffineSpaceT_LinearSpace2_v2f_rotate__v2f_f IR p r in
  op_add__v2f_v2f IR (apply2 (AffineSpaceT_LinearSpace2_vec2_l A) p) (AffineSpaceT_LinearSpace2_vec2_p A) = p /\
  AffineSpaceT_LinearSpace2_vec2_l A = rotate2 r.
Proof.
  recs. split; gen; comps; ring.
Qed.
