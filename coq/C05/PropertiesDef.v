(* C05 - ranges and boxes behave as closed axis-aligned sets: size, scaling, translation, comparison, area, volume match their definitions
   Every theorem is about the GENERATED definitions of gen/GenBox.v (regenerated from /repo on every run), reached through the
   instantiation dictionaries of Ops.v: range_insts = range_t<int|float>, box_t<int|float,2|3|3A|4>; box_insts = the box_t ones;
   touch_insts = N in {2,3}.  Order clauses hold for ANY decidable total order [o] with [ord_laws o]; NaN is outside the hypothesis.
   The property is split over Properties{Ord,Id,Box,Def,Center,Refuted,R}.v so that a change of one generated definition breaks
   only the obligations that depend on it. *)
From Coq Require Import ZArith QArith Reals List Bool.
From Common Require Import CxxSem.
From C05.gen Require Import GenBox.
From C05 Require Import Interp Ops Spec ProofsDef.
Import ListNotations.
Local Open Scope Z_scope.
(* size, center, area, volume, scaling, translation, comparison: definitional equalities for EVERY numeric interpretation *)
Theorem size_def : forall I r, In r (range_insts I) -> forall b, comps r (r_size r b) = sizes I r b.
Proof. exact ProofsDef.size_def. Qed.
Print Assumptions size_def.

Theorem scale_def : forall I r, In r (arith_insts I) -> forall b s,
  let e := a_scale_r r b s in
  comps r (lower r e) = map2 (bop I Mul (ety r)) (comps r (lower r b)) (comps r s) /\
  comps r (upper r e) = map2 (bop I Mul (ety r)) (comps r (upper r b)) (comps r s) /\
  a_scale_l r s b = e.
Proof. exact ProofsDef.scale_def. Qed.
Print Assumptions scale_def.

Theorem translate_def : forall I r, In r (arith_insts I) -> forall b t,
  let e := a_trans_r r b t in
  comps r (lower r e) = map2 (bop I Add (ety r)) (comps r (lower r b)) (comps r t) /\
  comps r (upper r e) = map2 (bop I Add (ety r)) (comps r (upper r b)) (comps r t) /\
  a_trans_l r t b = e.
Proof. exact ProofsDef.translate_def. Qed.
Print Assumptions translate_def.

Theorem eq_def : forall I r, In r (arith_insts I) -> forall a b,
  a_eq r a b = (forallb (fun b => b) (map2 (cmp I Eq (ety r)) (comps r (lower r a)) (comps r (lower r b))) &&
                forallb (fun b => b) (map2 (cmp I Eq (ety r)) (comps r (upper r a)) (comps r (upper r b)))) /\
  a_ne r a b = negb (a_eq r a b).
Proof. exact ProofsDef.eq_def. Qed.
Print Assumptions eq_def.

Theorem area2_def : forall I lx ly ux uy,
  area__range_t_v2i I (mk_range_t_vec2 I (mk_vec2 I lx ly) (mk_vec2 I ux uy)) = mul I I32 (sub I I32 ux lx) (sub I I32 uy ly) /\
  area__range_t_v2f I (mk_range_t_vec2 I (mk_vec2 I lx ly) (mk_vec2 I ux uy)) = mul I F32 (sub I F32 ux lx) (sub I F32 uy ly).
Proof. exact ProofsDef.area2_def. Qed.
Print Assumptions area2_def.

Theorem area3_def : forall I lx ly lz ux uy uz,
  area__range_t_v3i I (mk_range_t_vec3 I (mk_vec3 I lx ly lz) (mk_vec3 I ux uy uz)) = area3_spec I I32 lx ly lz ux uy uz /\
  area__range_t_v3f I (mk_range_t_vec3 I (mk_vec3 I lx ly lz) (mk_vec3 I ux uy uz)) = area3_spec I F32 lx ly lz ux uy uz /\
  area__range_t_v3af I (mk_range_t_vec3a I (mk_vec3a I lx ly lz) (mk_vec3a I ux uy uz)) = area3_spec I F32 lx ly lz ux uy uz.
Proof. exact ProofsDef.area3_def. Qed.
Print Assumptions area3_def.

Theorem volume_def : forall I lx ly lz ux uy uz,
  volume__range_t_v3i I (mk_range_t_vec3 I (mk_vec3 I lx ly lz) (mk_vec3 I ux uy uz)) = volume_spec I I32 lx ly lz ux uy uz /\
  volume__range_t_v3f I (mk_range_t_vec3 I (mk_vec3 I lx ly lz) (mk_vec3 I ux uy uz)) = volume_spec I F32 lx ly lz ux uy uz /\
  volume__range_t_v3af I (mk_range_t_vec3a I (mk_vec3a I lx ly lz) (mk_vec3a I ux uy uz)) = volume_spec I F32 lx ly lz ux uy uz.
Proof. exact ProofsDef.volume_def. Qed.
Print Assumptions volume_def.
