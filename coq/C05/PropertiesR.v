(* C05 - ranges and boxes behave as closed axis-aligned sets: ideal reading over R: xfmBounds, intersectRayBox
   Every theorem is about the GENERATED definitions of gen/GenBox.v (regenerated from /repo on every run), reached through the
   instantiation dictionaries of Ops.v: range_insts = range_t<int|float>, box_t<int|float,2|3|3A|4>; box_insts = the box_t ones;
   touch_insts = N in {2,3}.  Order clauses hold for ANY decidable total order [o] with [ord_laws o]; NaN is outside the hypothesis.
   The property is split over Properties{Ord,Id,Box,Def,Center,Refuted,R}.v so that a change of one generated definition breaks
   only the obligations that depend on it. *)
From Coq Require Import ZArith QArith Reals List Bool.
From Common Require Import CxxSem.
From C05.gen Require Import GenBox.
From C05 Require Import Interp Ops Spec InterpR ProofsR.
Import ListNotations.
Local Open Scope R_scope.
(* xfmBounds of a box contains the image of every point of the box - whatever value M stands for infinity *)
Theorem xfmBounds_contains : forall M eps m b p,
  let I := IO (OR M eps) in
  range_t_v3f_contains__v3f I b p = true ->
  range_t_v3f_contains__v3f I (xfmBounds__AffineSpaceT_LinearSpace3_v3f_v3f_range_t_v3f I m b)
                              (xfmPoint__AffineSpaceT_LinearSpace3_v3f_v3f_v3f I m p) = true.
Proof. exact ProofsR.xfmBounds_contains. Qed.
Print Assumptions xfmBounds_contains.

(* intersectRayBox covers exactly the ray parameters whose points lie inside the box: non-empty box, every |dir_i| >= FLT_MIN
   (then rcp_safe is the exact reciprocal).  Empty boxes: known finding C05-intersectRayBox-empty-box; dir_i = 0: compared
   numerically by the harness (rcp_safe reads it as +-FLT_MIN). *)
Theorem slab_exact_3 : forall M eps org dir box tr t,
  let I := IO (OR M eps) in
  0 < eps -> Forall (fun d => eps <= Rabs d) (comps (ops_3f I) dir) -> nonempty (OR M eps) (ops_3f I) box ->
  let r := intersectRayBox__v3f_v3f_range_t_v3f_range_t_f I org dir box tr in
  (range_t_s_lower r <= t /\ t <= range_t_s_upper r) <->
  ((range_t_s_lower tr <= t /\ t <= range_t_s_upper tr) /\ range_t_v3f_contains__v3f I box (ray_point3 M eps org dir t) = true).
Proof. exact ProofsR.slab_exact_3. Qed.
Print Assumptions slab_exact_3.

Theorem slab_exact_2 : forall M eps org dir box tr t,
  let I := IO (OR M eps) in
  0 < eps -> Forall (fun d => eps <= Rabs d) (comps (ops_2f I) dir) -> nonempty (OR M eps) (ops_2f I) box ->
  let r := intersectRayBox__v2f_v2f_range_t_v2f_range_t_f I org dir box tr in
  (range_t_s_lower r <= t /\ t <= range_t_s_upper r) <->
  ((range_t_s_lower tr <= t /\ t <= range_t_s_upper tr) /\ range_t_v2f_contains__v2f I box (ray_point2 M eps org dir t) = true).
Proof. exact ProofsR.slab_exact_2. Qed.
Print Assumptions slab_exact_2.

(* the reals are an instance of the order laws, so every order theorem above also reads over R *)
Theorem or_laws : forall M eps, ord_laws (OR M eps) /\ neg_top (OR M eps).
Proof. exact InterpR.or_laws_full. Qed.
