(* C05 - ranges and boxes behave as closed axis-aligned sets: center() matches its definition (the repaired expression
   .5f*lower + .5f*upper of /repo 2d2c457), in every reading; midpoint over R; exact on the former overflow witnesses. *)
From Coq Require Import ZArith QArith Reals List Bool.
From Common Require Import CxxSem.
From C05.gen Require Import GenBox.
From C05 Require Import Interp Ops Spec InterpR Model ProofsCenter.
Import ListNotations.

(* every numeric interpretation: center_i = .5f*lower_i + .5f*upper_i  (int elements: int(.5f*float(lower_i) + .5f*float(upper_i))) *)
Theorem center_def : forall I r, In r (range_insts I) -> forall b,
  comps r (r_center r b) = map2 (midpoint I (ety r)) (comps r (lower r b)) (comps r (upper r b)).
Proof. exact ProofsCenter.center_def. Qed.
Print Assumptions center_def.

Theorem box_center_def : forall I r, In r (box_insts I) -> forall b, b_center r b = r_center r b.
Proof. exact ProofsCenter.box_center_def. Qed.
Print Assumptions box_center_def.

(* ideal reading: the midpoint *)
Theorem center_midpoint_R : forall M eps r, In r (float_insts (IO (OR M eps))) -> forall b,
  comps r (r_center r b) = map2 (fun l u : R => ((l + u) / 2)%R) (comps r (lower r b)) (comps r (upper r b)).
Proof. exact ProofsCenter.center_midpoint_R. Qed.
Print Assumptions center_midpoint_R.

(* executable binary32 / int32 reading (Model.IX: every binary32 result and every int -> float conversion rounded to nearest-even):
   exact midpoint on the former overflow witnesses and on ordinary boxes (truncation toward zero for int elements).
   What the repaired code guarantees for int elements, whose midpoint is formed in binary32:
     - the exact truncated midpoint whenever |lower_i|, |upper_i| <= 2^23 (every step of the float route is then exact);
     - otherwise the midpoint within float rounding, |error| < 1 + 2^-22 max(|lower_i|,|upper_i|), PROVIDED the rounded float sum is below
       2^31, i.e. unless upper_i >= INT_MAX-63 and lower_i >= INT_MAX-190: there the float -> int conversion is out of range
       (undefined behaviour; x86: INT_MIN) - open finding C05-center-int-bounds-above-INT_MAX-127, witness center_int_top_refuted.
   The rounding bound itself is checked numerically by the harness (exact batch + fuzzc), not proved in Coq. *)
Theorem center_repaired_witnesses :
  r_center (ops_1f IX) (mk_range_t_s IX (W 12) (W 13)) = XF ((25 * 2 ^ 123)%Z # 1) /\
  r_center (ops_1f IX) (mk_range_t_s IX (XF (Qopp FLT_MAX)) (XF FLT_MAX)) = XF 0 /\
  r_center (ops_1i IX) (mk_range_t_s IX (Zx 2000000000) (Zx 2100000000)) = Zx 2050000000 /\
  r_center (ops_1i IX) (mk_range_t_s IX (Zx (-2000000000)) (Zx 2000000000)) = Zx 0 /\
  r_center (ops_1i IX) (mk_range_t_s IX (Zx 3) (Zx 8)) = Zx 5 /\
  r_center (ops_1i IX) (mk_range_t_s IX (Zx (-3)) (Zx (-8))) = Zx (-5).
Proof. exact ProofsCenter.center_repaired_witnesses. Qed.
Print Assumptions center_repaired_witnesses.

(* the pre-repair expression .5f*(lower+upper) overflowed there (fixed: /repo 2d2c457) *)
Theorem center_sum_overflow_old_refuted :
  midpoint_old IX F32 (W 12) (W 13) = XP /\ x_lt (XF ((25 * 2 ^ 123)%Z # 1)) (XF FLT_MAX) = true /\
  midpoint_old IX I32 (Zx 2000000000) (Zx 2100000000) = Zx (-97483648).
Proof. exact ProofsCenter.center_sum_overflow_old_refuted. Qed.
Print Assumptions center_sum_overflow_old_refuted.

(* open finding C05-center-int-bounds-above-INT_MAX-127 (not repaired: a repair needs a separate integer midpoint path) *)
Theorem center_int_top_refuted :
  r_center (ops_1i IX) (mk_range_t_s IX (Zx 2147483647) (Zx 2147483647)) = Zx (-2147483648) /\
  r_center (ops_1i IX) (mk_range_t_s IX (Zx (2147483647 - 190)) (Zx (2147483647 - 63))) = Zx (-2147483648) /\
  r_center (ops_1i IX) (mk_range_t_s IX (Zx (2147483647 - 191)) (Zx 2147483647)) = Zx (2147483647 - 127) /\
  r_center (ops_1i IX) (mk_range_t_s IX (Zx (2147483647 - 100)) (Zx (2147483647 - 100))) = Zx (2147483647 - 127) /\
  r_center (ops_1i IX) (mk_range_t_s IX (Zx (-2147483648)) (Zx (-2147483648))) = Zx (-2147483648) /\
  r_center (ops_1i IX) (mk_range_t_s IX (Zx (-2147483648)) (Zx (-2147483648 + 200))) = Zx (-2147483648 + 128).
Proof. exact ProofsCenter.center_int_top_refuted. Qed.
Print Assumptions center_int_top_refuted.
