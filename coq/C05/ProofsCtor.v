(* C05 - constructors of range_t / box_t: definitional equalities in every numeric reading (zero, one, single value, two bounds,
   converting constructor), and the member order [lower; upper] that operator T*() relies on. *)
From Coq Require Import ZArith List Bool.
From Common Require Import CxxSem.
From C05.gen Require Import GenBox.
From C05 Require Import Interp Ops Spec.
Import ListNotations.

Ltac dv := repeat match goal with
  | v : vec2 _ |- _ => destruct v
  | v : vec3 _ |- _ => destruct v
  | v : vec3a _ |- _ => destruct v
  | v : vec4 _ |- _ => destruct v
  | v : range_t_s _ |- _ => destruct v
  | v : range_t_vec2 _ |- _ => destruct v
  | v : range_t_vec3 _ |- _ => destruct v
  | v : range_t_vec3a _ |- _ => destruct v
  | v : range_t_vec4 _ |- _ => destruct v
  end.
Ltac insts H := cbn in H; repeat (destruct H as [<- | H]); [.. | contradiction].

Section Ctor.
Variable I : interp.

(* the value ZeroTy / OneTy convert to in the element type: the int literal, converted to float for float elements *)
Definition lit01 (t : ctype) (z : Z) : S I := if isfloat t then cast I I32 F32 (ilit I I32 z) else ilit I I32 z.

Theorem ctor_defs : forall r, In r (range_insts I) ->
  (forall a b, comps r (lower r (mkbox r a b)) = comps r a /\ comps r (upper r (mkbox r a b)) = comps r b) /\
  (forall p, comps r (lower r (r_single r p)) = comps r p /\ comps r (upper r (r_single r p)) = comps r p) /\
  comps r (lower r (r_zero r)) = repeat (lit01 (ety r) 0) (dim r) /\ comps r (upper r (r_zero r)) = repeat (lit01 (ety r) 0) (dim r) /\
  comps r (lower r (r_one r)) = repeat (lit01 (ety r) 0) (dim r) /\ comps r (upper r (r_one r)) = repeat (lit01 (ety r) 1) (dim r) /\
  r_emptyty r = r_default r /\ length (comps r (lower r (r_default r))) = dim r.
Proof.
  intros r H. insts H; (split; [intros a b; cbn in a, b; dv; split; reflexivity |]);
    (split; [intros p; cbn in p; dv; split; reflexivity |]); repeat split; reflexivity.
Qed.

(* explicit range_t(const range_t<other_t> &): every bound converted component-wise to the target element type *)
Definition cvt (from to : ctype) (l : list (S I)) : list (S I) := map (cast I from to) l.
Theorem convert_defs :
  (forall b, let c := range_t_f_mk__range_t_i I b in
     range_t_s_lower c = cast I I32 F32 (range_t_s_lower b) /\ range_t_s_upper c = cast I I32 F32 (range_t_s_upper b)) /\
  (forall b, let c := range_t_i_mk__range_t_f I b in
     range_t_s_lower c = cast I F32 I32 (range_t_s_lower b) /\ range_t_s_upper c = cast I F32 I32 (range_t_s_upper b)) /\
  (forall b, let c := range_t_v2f_mk__range_t_v2i I b in
     lows_ (ops_2f I) c = cvt I32 F32 (lows_ (ops_2i I) b) /\ highs_ (ops_2f I) c = cvt I32 F32 (highs_ (ops_2i I) b)) /\
  (forall b, let c := range_t_v2i_mk__range_t_v2f I b in
     lows_ (ops_2i I) c = cvt F32 I32 (lows_ (ops_2f I) b) /\ highs_ (ops_2i I) c = cvt F32 I32 (highs_ (ops_2f I) b)) /\
  (forall b, let c := range_t_v3f_mk__range_t_v3i I b in
     lows_ (ops_3f I) c = cvt I32 F32 (lows_ (ops_3i I) b) /\ highs_ (ops_3f I) c = cvt I32 F32 (highs_ (ops_3i I) b)) /\
  (forall b, let c := range_t_v3i_mk__range_t_v3f I b in
     lows_ (ops_3i I) c = cvt F32 I32 (lows_ (ops_3f I) b) /\ highs_ (ops_3i I) c = cvt F32 I32 (highs_ (ops_3f I) b)) /\
  (forall b, let c := range_t_v3af_mk__range_t_v3f I b in
     lows_ (ops_3af I) c = lows_ (ops_3f I) b /\ highs_ (ops_3af I) c = highs_ (ops_3f I) b) /\
  (forall b, let c := range_t_v4f_mk__range_t_v4i I b in
     lows_ (ops_4f I) c = cvt I32 F32 (lows_ (ops_4i I) b) /\ highs_ (ops_4f I) c = cvt I32 F32 (highs_ (ops_4i I) b)) /\
  (forall b, let c := range_t_v4i_mk__range_t_v4f I b in
     lows_ (ops_4i I) c = cvt F32 I32 (lows_ (ops_4f I) b) /\ highs_ (ops_4i I) c = cvt F32 I32 (highs_ (ops_4f I) b)).
Proof. repeat split; dv; reflexivity. Qed.

(* members in declaration order: lower first, then upper (operator T*() returns &lower and callers index [0], [1]) *)
Theorem field_order : forall (a b : S I) (va vb : vec3 I),
  range_t_s_lower (mk_range_t_s I a b) = a /\ range_t_s_upper (mk_range_t_s I a b) = b /\
  range_t_vec3_lower (mk_range_t_vec3 I va vb) = va /\ range_t_vec3_upper (mk_range_t_vec3 I va vb) = vb.
Proof. intros; repeat split; reflexivity. Qed.
End Ctor.
