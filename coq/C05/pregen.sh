#!/bin/bash
# regenerate gen/GenBox.v from the current repo sources (Tie A); props/C05/check.py does the same on every run.
# RKCOMMON_NO_SIMD selects the portable definition rcp(x) = 1.f/x (the SSE branch is an estimate + one Newton step of the same value).
cd "$(dirname "$0")"
mkdir -p gen ../../build/include/rkcommon
python3 ../../lib/mkversion.py >/dev/null 2>&1
python3 ../../tools/cxx2coq/cxx2coq.py ../../tools/cxx2coq/inst/box.cpp gen/GenBox.v.new -D RKCOMMON_NO_SIMD --filter2 std::less \
  --only '^(range_t_|area__|volume__|touchingOrOverlapping__|intersectionOf__|disjoint__|center__|op_(add|mul|eq|ne)__.*range_t|xfmBounds__|xfmPoint__AffineSpaceT_LinearSpace3|intersectRayBox__|anyLessThan__)' \
  && { cmp -s gen/GenBox.v.new gen/GenBox.v || mv gen/GenBox.v.new gen/GenBox.v; rm -f gen/GenBox.v.new; }
