(* C05 - ranges and boxes behave as closed axis-aligned sets: disjoint / touchingOrOverlapping / clamp
   Every theorem is about the GENERATED definitions of gen/GenBox.v (regenerated from /repo on every run), reached through the
   instantiation dictionaries of Ops.v: range_insts = range_t<int|float>, box_t<int|float,2|3|3A|4>; box_insts = the box_t ones;
   touch_insts = N in {2,3}.  Order clauses hold for ANY decidable total order [o] with [ord_laws o]; NaN is outside the hypothesis.
   The property is split over Properties{Ord,Id,Box,Def,Center,Refuted,R}.v so that a change of one generated definition breaks
   only the obligations that depend on it. *)
From Coq Require Import ZArith QArith Reals List Bool.
From Common Require Import CxxSem.
From C05.gen Require Import GenBox.
From C05 Require Import Interp Ops Spec ProofsOrdBox ProofsRefuted.
Import ListNotations.
Local Open Scope Z_scope.
Theorem disjoint_iff_not_touching : forall o r, In r (touch_insts (IO o)) -> forall a b,
  t_touching r a b = negb (b_disjoint r a b).
Proof. exact ProofsOrdBox.disjoint_iff_not_touching. Qed.
Print Assumptions disjoint_iff_not_touching.

(* the intersection is empty exactly when disjoint() holds: non-empty operands ... *)
Theorem intersection_empty_iff_disjoint : forall o, ord_laws o -> forall r, In r (box_insts (IO o)) -> forall a b,
  nonempty o r a -> nonempty o r b ->
  (r_isempty r (b_inter r a b) = true <-> b_disjoint r a b = true).
Proof. exact ProofsOrdBox.intersection_empty_iff_disjoint. Qed.
Print Assumptions intersection_empty_iff_disjoint.

(* ... or the canonical empty box against any box that has a finite face *)
Theorem canonical_empty_disjoint : forall o, ord_laws o -> ltb o (bot o) (top o) = true -> forall r, In r (box_insts (IO o)) -> forall a b,
  canonical_empty o r a -> box_in_range o r b ->
  r_isempty r (b_inter r a b) = true /\
  (b_disjoint r a b = true <-> Exists (fun x => ltb o (bot o) x = true) (lows o r b) \/ Exists (fun x => ltb o x (top o) = true) (highs o r b)).
Proof. exact ProofsOrdBox.canonical_empty_disjoint. Qed.
Print Assumptions canonical_empty_disjoint.

(* clamp returns the nearest contained point *)
Theorem clamp_in : forall o, ord_laws o -> forall r, In r (range_insts (IO o)) -> forall b p,
  nonempty o r b -> pt_in o r b (r_clamp r b p).
Proof. exact ProofsOrdBox.clamp_in. Qed.
Print Assumptions clamp_in.

Theorem clamp_id : forall o, ord_laws o -> forall r, In r (range_insts (IO o)) -> forall b p,
  pt_in o r b p -> r_clamp r b p = p.
Proof. exact ProofsOrdBox.clamp_id. Qed.
Print Assumptions clamp_id.

(* nearest, order form: in every component clamp(p) lies between p and q, for every q of the box
   (hence |clamp p - p|_i <= |q - p|_i in every ordered group) *)
Theorem clamp_nearest : forall o, ord_laws o -> forall r, In r (range_insts (IO o)) -> forall b p q,
  nonempty o r b -> pt_in o r b q ->
  Forall3 (between o) (comps r p) (comps r (r_clamp r b p)) (comps r q).
Proof. exact ProofsOrdBox.clamp_between. Qed.
Print Assumptions clamp_nearest.

Example ex_intersection_touching : b_inter (bops_2i (IO OZ32)) (b2 0 0 2 2) (b2 2 1 3 3) = b2 2 1 2 2 /\
  b_disjoint (bops_2i (IO OZ32)) (b2 0 0 2 2) (b2 2 1 3 3) = false /\ b_disjoint (bops_2i (IO OZ32)) (b2 0 0 2 2) (b2 3 1 4 3) = true.
Proof. repeat split; reflexivity. Qed.

Example ex_clamp : r_clamp (ops_2i (IO OZ32)) (b2 0 1 4 5) (mk_vec2 (IO OZ32) 7 (-2)) = mk_vec2 (IO OZ32) 4 1.
Proof. reflexivity. Qed.
