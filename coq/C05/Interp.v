(* C05 - numeric readings of the generated box code (gen/GenBox.v is a shallow embedding over
   Common.CxxSem.interp).  Definitions only.

   [IO o]  : "any decidable total order" reading.  The carrier, the strict comparison, the values that
             pos_inf / neg_inf convert to and all arithmetic are fields of [o : ordsig]; the order
             theorems assume [ord_laws o] only (arithmetic stays uninterpreted).  Both the int and the
             float (NaN-free, +0 = -0) instantiations of the templates are read through it.
   [OZ32]  : the int32 instance (Z, Z.ltb, INT_MAX, INT_MIN) used for the non-vacuity examples. *)
From Coq Require Import ZArith List Bool.
From Common Require Import CxxSem.
Import ListNotations.

Record ordsig := {
  T : Type;
  ltb : T -> T -> bool;
  top : T;                         (* what pos_inf converts to: +inf / INT_MAX *)
  bot : T;                         (* what neg_inf converts to: -inf / INT_MIN *)
  arith : binop -> T -> T -> T;
  una : unop -> T -> T;
  lit : Z -> Z -> T;               (* the literal n/d *)
  absf : T -> T;
  tiny : T;                        (* numeric_limits<float>::min() *)
}.

Definition le (o : ordsig) (a b : T o) : Prop := ltb o b a = false.
Definition lt (o : ordsig) (a b : T o) : Prop := ltb o a b = true.

Record ord_laws (o : ordsig) : Prop := {
  lt_irrefl : forall a, ltb o a a = false;
  lt_trans : forall a b c, ltb o a b = true -> ltb o b c = true -> ltb o a c = true;
  lt_total : forall a b, ltb o a b = false -> ltb o b a = false -> a = b;
}.

(* std::min(a,b) = (b < a) ? b : a      std::max(a,b) = (a < b) ? b : a *)
Definition omin (o : ordsig) (a b : T o) : T o := if ltb o b a then b else a.
Definition omax (o : ordsig) (a b : T o) : T o := if ltb o a b then b else a.

Definition o_cmp (o : ordsig) (c : cmpop) (a b : T o) : bool :=
  match c with
  | Lt => ltb o a b
  | Gt => ltb o b a
  | Le => negb (ltb o b a)
  | Ge => negb (ltb o a b)
  | Eq => negb (ltb o a b) && negb (ltb o b a)
  | Ne => ltb o a b || ltb o b a
  end.

Definition o_lib (o : ordsig) (f : libfn) (t : ctype) (l : list (T o)) : T o :=
  match f, l with
  | LMin, [a; b] => omin o a b
  | LMax, [a; b] => omax o a b
  | LAbs, [a] => absf o a
  | LOther 0, [] => top o                                   (* numeric_limits<T>::infinity() *)
  | LOther 1, [] => top o                                   (* numeric_limits<T>::max() *)
  | LOther 2, [] => if isfloat t then tiny o else bot o     (* numeric_limits<T>::min() *)
  | LOther 3, [] => bot o                                   (* numeric_limits<T>::lowest() *)
  | _, _ => tiny o
  end.

Definition IO (o : ordsig) : interp := {|
  S := T o;
  bop := fun b _ => arith o b;
  uop := fun u _ => una o u;
  cmp := fun c _ => o_cmp o c;
  cast := fun _ _ x => x;
  ilit := fun _ z => lit o z 1;
  flit := fun _ n d => lit o n d;
  lib := o_lib o;
  ofbool := fun _ b => if b then lit o 1 1 else lit o 0 1;
  tobool := fun _ x => o_cmp o Ne x (lit o 0 1);
|}.

(* -(+inf) = -inf : needed only where the float templates build neg_inf as  -infinity() *)
Definition neg_top (o : ordsig) : Prop := una o Neg (top o) = bot o.

(* ------------------------------------------------------------------ int32 instance *)
Local Open Scope Z_scope.
Definition OZ32 : ordsig := {|
  T := Z; ltb := Z.ltb; top := 2147483647; bot := -2147483648;
  arith := z_bop; una := z_uop; lit := fun n d => Z.quot n d; absf := Z.abs; tiny := 0;
|}.

(* a symmetric bounded instance (for the float-shaped templates: -top = bot) *)
Definition OZsym : ordsig := {|
  T := Z; ltb := Z.ltb; top := 1000; bot := -1000;
  arith := z_bop; una := z_uop; lit := fun n d => Z.quot n d; absf := Z.abs; tiny := 0;
|}.
