(* C05 - order clauses, part 3: disjoint / touchingOrOverlapping / clamp. *)
From Coq Require Import ZArith List Bool Lia Setoid Morphisms.
From Common Require Import CxxSem.
From C05.gen Require Import GenBox.
From C05 Require Import Interp Ops Spec OrdBase.
Import ListNotations.


Section Ord.
Variable o : ordsig.
Hypothesis L : ord_laws o.
Local Notation le_refl := (OrdBase.le_refl o L).
Local Notation lt_asym := (OrdBase.lt_asym o L).
Local Notation le_trans := (OrdBase.le_trans o L).
Local Notation le_antisym := (OrdBase.le_antisym o L).
Local Notation le_total := (OrdBase.le_total o L).
Local Notation lt_le := (OrdBase.lt_le o L).
Local Notation nlt_le := (OrdBase.nlt_le o).
Local Notation lt_nle := (OrdBase.lt_nle o).
Local Notation omin_cases := (OrdBase.omin_cases o L).
Local Notation omax_cases := (OrdBase.omax_cases o L).
Local Notation le_omin := (OrdBase.le_omin o L).
Local Notation omax_le := (OrdBase.omax_le o L).
Local Notation omin_le_l := (OrdBase.omin_le_l o L).
Local Notation omin_le_r := (OrdBase.omin_le_r o L).
Local Notation le_omax_l := (OrdBase.le_omax_l o L).
Local Notation le_omax_r := (OrdBase.le_omax_r o L).
Local Notation omin_top := (OrdBase.omin_top o L).
Local Notation omax_bot := (OrdBase.omax_bot o L).

(* ------------------------------------------------------------------ tactics *)
Ltac dv := repeat match goal with
  | v : vec2 _ |- _ => destruct v
  | v : vec3 _ |- _ => destruct v
  | v : vec3a _ |- _ => destruct v
  | v : vec4 _ |- _ => destruct v
  | v : range_t_s _ |- _ => destruct v
  | v : range_t_vec2 _ |- _ => destruct v
  | v : range_t_vec3 _ |- _ => destruct v
  | v : range_t_vec3a _ |- _ => destruct v
  | v : range_t_vec4 _ |- _ => destruct v
  end.
Ltac insts H := cbn in H; repeat (destruct H as [<- | H]); [.. | contradiction].
Ltac red_all := cbv -[omin omax ltb le top bot una between Forall3 in_range andb orb negb]; cbn [Forall3].
Ltac red_in H := cbv -[omin omax ltb le top bot una between Forall3 in_range andb orb negb] in H; cbn [Forall3] in H.
Ltac f2 := rewrite ?Forall2_cons_iff, ?Forall2_nil_iff, ?Forall_cons_iff', ?Forall_nil_iff'.
Ltac f2_in H := rewrite ?Forall2_cons_iff, ?Forall2_nil_iff, ?Forall_cons_iff', ?Forall_nil_iff' in H.
Ltac b2p := rewrite ?andb_true_iff, ?orb_true_iff, ?negb_true_iff, ?orb_false_iff, ?andb_false_iff, ?negb_false_iff.

Ltac dbox c := let cl := fresh "cl" in let cu := fresh "cu" in destruct c as [cl cu]; try destruct cl; try destruct cu; cbn.
Ltac hyps := repeat match goal with H : _ /\ _ |- _ => destruct H end.
Ltac fin := f2; rewrite ?le_omin, ?omax_le; repeat split; intros; hyps;
  auto using omin_le_l, omin_le_r, le_omax_l, le_omax_r, le_refl.
Ltac trans_fin := f2; repeat split; intros; hyps; f2; repeat split;
  solve [assumption | apply le_refl | eapply le_trans; eassumption].

Theorem disjoint_iff_not_touching : forall r, In r (touch_insts (IO o)) -> forall a b,
  t_touching r a b = negb (b_disjoint r a b).
Proof.
  intros r H. insts H; intros a b; cbn in a, b; dv; red_all;
    repeat match goal with |- context [ltb o ?a ?b] => destruct (ltb o a b) end; reflexivity.
Qed.

(* per component: for non-empty ranges, the intersection is inverted iff one range lies strictly before the other *)
Lemma inter1_empty_iff al au bl bu : le o al au -> le o bl bu ->
  (ltb o (omin o au bu) (omax o al bl) = true <-> ltb o au bl = true \/ ltb o bu al = true).
Proof.
  intros Ha Hb. rewrite !lt_nle. rewrite omax_le, !le_omin.
  unfold le in *.
  destruct (ltb o au bl) eqn:E1, (ltb o bu al) eqn:E2, (ltb o au al) eqn:E3, (ltb o bu bl) eqn:E4; try discriminate; intuition congruence.
Qed.

Theorem intersection_empty_iff_disjoint : forall r, In r (box_insts (IO o)) -> forall a b,
  nonempty o r a -> nonempty o r b ->
  (r_isempty r (b_inter r a b) = true <-> b_disjoint r a b = true).
Proof.
  intros r H. insts H; intros a b; cbn in a, b; dv; red_all; f2; intros Ha Hb; b2p;
    rewrite !inter1_empty_iff by tauto; tauto.
Qed.

(* the canonical empty box: disjoint from every box that has at least one finite face, and its intersections are empty *)
Theorem canonical_empty_disjoint : ltb o (bot o) (top o) = true -> forall r, In r (box_insts (IO o)) -> forall a b,
  canonical_empty o r a -> box_in_range o r b ->
  r_isempty r (b_inter r a b) = true /\
  (b_disjoint r a b = true <-> Exists (fun x => ltb o (bot o) x = true) (lows o r b) \/ Exists (fun x => ltb o x (top o) = true) (highs o r b)).
Proof.
  intros BT r H. insts H; intros a b; cbn in a, b; dv; red_all; intros [E1 E2]; inversion E1; inversion E2; subst; clear E1 E2;
    intros [H1 H2]; revert H1 H2; unfold in_range; f2; intros H1 H2;
    rewrite ?Exists_cons, ?Exists_nil; b2p;
    repeat match goal with |- context [omax o (top o) ?x] => replace (omax o (top o) x) with (top o) by
       (destruct (omax_cases (top o) x) as [[-> _] | [-> ?]]; [reflexivity | apply le_antisym; tauto]) end;
    repeat match goal with |- context [omin o (bot o) ?x] => replace (omin o (bot o) x) with (bot o) by
       (destruct (omin_cases (bot o) x) as [[-> _] | [-> ?]]; [reflexivity | apply le_antisym; tauto]) end;
    rewrite ?BT; tauto.
Qed.

(* clamp *)
Theorem clamp_in : forall r, In r (range_insts (IO o)) -> forall b p, nonempty o r b -> pt_in o r b (r_clamp r b p).
Proof.
  intros r H. insts H; intros b p; cbn in b, p; dv; red_all; f2; intros Hne; rewrite ?le_omin;
    intuition (eauto using le_omax_l, le_refl);
    match goal with |- le o (omax o ?l (omin o ?p ?u)) ?u => apply omax_le; split; [assumption | apply omin_le_r] end.
Qed.

Lemma clamp1_id l u p : le o l p -> le o p u -> omax o l (omin o p u) = p.
Proof.
  intros H1 H2.
  assert (E : omin o p u = p) by (destruct (omin_cases p u) as [[-> _] | [-> ?]]; auto using le_antisym).
  rewrite E. destruct (omax_cases l p) as [[-> ?] | [-> _]]; auto using le_antisym.
Qed.

Theorem clamp_id : forall r, In r (range_insts (IO o)) -> forall b p, pt_in o r b p -> r_clamp r b p = p.
Proof.
  intros r H. insts H; intros b p; cbn in b, p; dv; red_all; f2; intros; rewrite !clamp1_id by tauto; reflexivity.
Qed.

Lemma clamp1_between l u p q : le o l u -> le o l q -> le o q u -> between o p (omax o l (omin o p u)) q.
Proof.
  intros Hlu Hlq Hqu. unfold between.
  destruct (omin_cases p u) as [[-> Hpu] | [-> Hup]].
  - destruct (omax_cases l p) as [[-> Hpl] | [-> Hlp]].
    + left; split; auto.
    + destruct (le_total p q); [left | right]; split; auto using le_refl.
  - right. destruct (omax_cases l u) as [[-> Hul] | [-> _]].
    + split; [apply (le_trans q u l) | apply (le_trans l u p)]; assumption.
    + split; auto.
Qed.

(* nearest point, order form: clamp(p)_i lies between p_i and q_i for every q of the box *)
Theorem clamp_between : forall r, In r (range_insts (IO o)) -> forall b p q, nonempty o r b -> pt_in o r b q ->
  Forall3 (between o) (comps r p) (comps r (r_clamp r b p)) (comps r q).
Proof.
  intros r H. insts H; intros b p q; cbn in b, p, q; dv; red_all; f2; intros; repeat split; try apply clamp1_between; tauto.
Qed.
End Ord.
