(* C05 - ideal reading over R (Coq Reals axioms): xfmBounds contains the image of every point of the box;
   intersectRayBox is the exact parameter interval (rcp_safe read as the exact reciprocal, |dir_i| >= FLT_MIN). *)
From Coq Require Import Reals Lra Psatz ZArith List Bool.
From Common Require Import CxxSem.
From C05.gen Require Import GenBox.
From C05 Require Import Interp Ops Spec OrdBase ProofsOrd InterpR.
Import ListNotations.
Local Open Scope R_scope.

Section RR.
Variables M eps : R.
Notation o := (OR M eps).
Notation I := (IO (OR M eps)).
Local Notation or_laws := (InterpR.or_laws M eps).
Local Notation le_R := (InterpR.le_R M eps).
Local Notation omin_lb := (InterpR.omin_lb M eps).
Local Notation omax_ub := (InterpR.omax_ub M eps).

Ltac abs_one oo a b lem :=
  let H := fresh "Hm" in pose proof (lem a b) as H; destruct H; generalize dependent (oo a b); intros.
Ltac abstract_minmax :=
  repeat match goal with
  | |- context [omin ?oo ?a ?b] => abs_one (omin oo) a b (InterpR.omin_lb M eps)
  | |- context [omax ?oo ?a ?b] => abs_one (omax oo) a b (InterpR.omax_ub M eps)
  | H : context [omin ?oo ?a ?b] |- _ => abs_one (omin oo) a b (InterpR.omin_lb M eps)
  | H : context [omax ?oo ?a ?b] |- _ => abs_one (omax oo) a b (InterpR.omax_ub M eps)
  end.
Ltac sign_facts a l u x :=
  destruct (Rle_dec 0 a);
  [assert (l * a <= x * a) by nra; assert (x * a <= u * a) by nra
  | assert (u * a <= x * a) by nra; assert (x * a <= l * a) by nra].

Lemma in3f : In (ops_3f I) (range_insts I).
Proof. cbn; repeat first [left; reflexivity | right]. Qed.

Theorem xfmBounds_contains : forall m b p,
  range_t_v3f_contains__v3f I b p = true ->
  range_t_v3f_contains__v3f I (xfmBounds__AffineSpaceT_LinearSpace3_v3f_v3f_range_t_v3f I m b)
                              (xfmPoint__AffineSpaceT_LinearSpace3_v3f_v3f_v3f I m p) = true.
Proof.
  intros m b p.
  rewrite (contains_iff o (ops_3f I) in3f b p).
  rewrite (contains_iff o (ops_3f I) in3f
             (xfmBounds__AffineSpaceT_LinearSpace3_v3f_v3f_range_t_v3f I m b) (xfmPoint__AffineSpaceT_LinearSpace3_v3f_v3f_v3f I m p)).
  destruct m as [[[vxx vxy vxz] [vyx vyy vyz] [vzx vzy vzz]] [tx ty tz]], b as [[lx ly lz] [ux uy uz]], p as [x y z].
  cbv -[Rplus Rminus Rmult Ropp Rdiv Rinv IZR Rabs rltb r_bop omin omax le Rle Rlt Rge Rgt iff not].
  rewrite ?Forall2_cons_iff, ?Forall2_nil_iff.
  fold (OR M eps). cbv [r_bop].
  rewrite !le_R.
  intros [(Hx1 & Hy1 & Hz1 & _) (Hx2 & Hy2 & Hz2 & _)].
  repeat split.
  - sign_facts vxx lx ux x; sign_facts vyx ly uy y; sign_facts vzx lz uz z; abstract_minmax; lra.
  - sign_facts vxy lx ux x; sign_facts vyy ly uy y; sign_facts vzy lz uz z; abstract_minmax; lra.
  - sign_facts vxz lx ux x; sign_facts vyz ly uy y; sign_facts vzz lz uz z; abstract_minmax; lra.
  - sign_facts vxx lx ux x; sign_facts vyx ly uy y; sign_facts vzx lz uz z; abstract_minmax; lra.
  - sign_facts vxy lx ux x; sign_facts vyy ly uy y; sign_facts vzy lz uz z; abstract_minmax; lra.
  - sign_facts vxz lx ux x; sign_facts vyz ly uy y; sign_facts vzz lz uz z; abstract_minmax; lra.
Qed.

(* ------------------------------------------------------------------ intersectRayBox: the slab test is exact *)
Lemma omin_le_iff a b t : omin o a b <= t <-> a <= t \/ b <= t.
Proof. unfold omin; cbn; unfold rltb. destruct (Rlt_dec b a); split; intros; lra. Qed.
Lemma le_omax_iff a b t : t <= omax o a b <-> t <= a \/ t <= b.
Proof. unfold omax; cbn; unfold rltb. destruct (Rlt_dec a b); split; intros; lra. Qed.
Lemma omax_le_iff a b t : omax o a b <= t <-> a <= t /\ b <= t.
Proof. rewrite <- !le_R. apply omax_le. apply or_laws. Qed.
Lemma le_omin_iff a b t : t <= omin o a b <-> t <= a /\ t <= b.
Proof. rewrite <- !le_R. apply le_omin. apply or_laws. Qed.

Lemma slab1 lo hi og d t : lo <= hi -> d <> 0 ->
  ((omin o ((lo - og) * (1 / d)) ((hi - og) * (1 / d)) <= t) /\ (t <= omax o ((lo - og) * (1 / d)) ((hi - og) * (1 / d))))
  <-> (lo <= og + t * d /\ og + t * d <= hi).
Proof.
  intros Hlh Hd. rewrite omin_le_iff, le_omax_iff.
  set (A := (lo - og) * (1 / d)). set (B := (hi - og) * (1 / d)).
  assert (EA : A * d = lo - og) by (unfold A; field; auto).
  assert (EB : B * d = hi - og) by (unfold B; field; auto).
  destruct (Rlt_dec 0 d) as [Hp | Hn].
  - assert (A <= B) by nra. split.
    + intros [H1 H2]. assert (A <= t) by lra. assert (t <= B) by lra. split; nra.
    + intros [H1 H2]. split; [left | right]; nra.
  - assert (d < 0) by lra. assert (B <= A) by nra. split.
    + intros [H1 H2]. assert (B <= t) by lra. assert (t <= A) by lra. split; nra.
    + intros [H1 H2]. split; [right | left]; nra.
Qed.

(* rcp_safe(d) = 1/d as soon as |d| >= numeric_limits<float>::min() (every non-zero normal float) *)
Lemma rcp_safe_exact d : eps <= Rabs d -> rcp_safe__f I d = 1 / d.
Proof.
  intro H. cbv -[Rplus Rminus Rmult Ropp Rdiv Rinv IZR Rabs rltb].
  unfold rltb. destruct (Rlt_dec (Rabs d) eps); [lra |]. lra.
Qed.

Definition ray_point3 (org dir : vec3 I) (t : R) : vec3 I := op_add__v3f_v3f I org (op_mul__f_v3f I t dir).
Definition ray_point2 (org dir : vec2 I) (t : R) : vec2 I := op_add__v2f_v2f I org (op_mul__f_v2f I t dir).

Lemma in2f : In (ops_2f I) (range_insts I).
Proof. cbn; repeat first [left; reflexivity | right]. Qed.

Theorem slab_exact_3 : forall org dir box tr t,
  0 < eps -> Forall (fun d => eps <= Rabs d) (comps (ops_3f I) dir) -> nonempty o (ops_3f I) box ->
  let r := intersectRayBox__v3f_v3f_range_t_v3f_range_t_f I org dir box tr in
  (range_t_s_lower r <= t /\ t <= range_t_s_upper r) <->
  ((range_t_s_lower tr <= t /\ t <= range_t_s_upper tr) /\ range_t_v3f_contains__v3f I box (ray_point3 org dir t) = true).
Proof.
  intros org dir box tr t He Hd Hne r. subst r.
  rewrite (contains_iff o (ops_3f I) in3f box (ray_point3 org dir t)).
  destruct org as [ox oy oz], dir as [dx dy dz], box as [[lx ly lz] [ux uy uz]], tr as [tl tu].
  revert Hd Hne. unfold nonempty, lows, highs, pt_in, inbox. cbn [comps ops_3f lower upper range_t_vec3_lower range_t_vec3_upper vec3_x vec3_y vec3_z].
  rewrite ?Forall2_cons_iff, ?Forall2_nil_iff, ?Forall_cons_iff', ?Forall_nil_iff', !le_R.
  intros (Hdx & Hdy & Hdz & _) (Hx & Hy & Hz & _).
  unfold intersectRayBox__v3f_v3f_range_t_v3f_range_t_f, rcp_safe__v3f.
  rewrite !rcp_safe_exact by assumption.
  assert (dx <> 0) by (intro E0; unfold Rabs in Hdx; destruct (Rcase_abs dx); lra).
  assert (dy <> 0) by (intro E0; unfold Rabs in Hdy; destruct (Rcase_abs dy); lra).
  assert (dz <> 0) by (intro E0; unfold Rabs in Hdz; destruct (Rcase_abs dz); lra).
  pose proof (slab1 lx ux ox dx t Hx H) as Sx. pose proof (slab1 ly uy oy dy t Hy H0) as Sy. pose proof (slab1 lz uz oz dz t Hz H1) as Sz.
  cbv -[Rplus Rminus Rmult Ropp Rdiv Rinv IZR Rabs rltb r_bop omin omax le Rle Rlt Rge Rgt iff not]. fold (OR M eps). cbv [r_bop].
  rewrite ?Forall2_cons_iff, ?Forall2_nil_iff, !le_R.
  rewrite !omax_le_iff, !le_omin_iff.
  replace (ox + t * dx) with (ox + t * dx) in * by reflexivity.
  tauto.
Qed.

Theorem slab_exact_2 : forall org dir box tr t,
  0 < eps -> Forall (fun d => eps <= Rabs d) (comps (ops_2f I) dir) -> nonempty o (ops_2f I) box ->
  let r := intersectRayBox__v2f_v2f_range_t_v2f_range_t_f I org dir box tr in
  (range_t_s_lower r <= t /\ t <= range_t_s_upper r) <->
  ((range_t_s_lower tr <= t /\ t <= range_t_s_upper tr) /\ range_t_v2f_contains__v2f I box (ray_point2 org dir t) = true).
Proof.
  intros org dir box tr t He Hd Hne r. subst r.
  rewrite (contains_iff o (ops_2f I) in2f box (ray_point2 org dir t)).
  destruct org as [ox oy], dir as [dx dy], box as [[lx ly] [ux uy]], tr as [tl tu].
  revert Hd Hne. unfold nonempty, lows, highs, pt_in, inbox. cbn [comps ops_2f lower upper range_t_vec2_lower range_t_vec2_upper vec2_x vec2_y].
  rewrite ?Forall2_cons_iff, ?Forall2_nil_iff, ?Forall_cons_iff', ?Forall_nil_iff', !le_R.
  intros (Hdx & Hdy & _) (Hx & Hy & _).
  unfold intersectRayBox__v2f_v2f_range_t_v2f_range_t_f, rcp_safe__v2f.
  rewrite !rcp_safe_exact by assumption.
  assert (dx <> 0) by (intro E0; unfold Rabs in Hdx; destruct (Rcase_abs dx); lra).
  assert (dy <> 0) by (intro E0; unfold Rabs in Hdy; destruct (Rcase_abs dy); lra).
  pose proof (slab1 lx ux ox dx t Hx H) as Sx. pose proof (slab1 ly uy oy dy t Hy H0) as Sy.
  cbv -[Rplus Rminus Rmult Ropp Rdiv Rinv IZR Rabs rltb r_bop omin omax le Rle Rlt Rge Rgt iff not]. fold (OR M eps). cbv [r_bop].
  rewrite ?Forall2_cons_iff, ?Forall2_nil_iff, !le_R.
  rewrite !omax_le_iff, !le_omin_iff.
  tauto.
Qed.
End RR.

