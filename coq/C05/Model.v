(* C05 - executable reading of the generated box code, extracted to OCaml and run side by side with the
   real templates (translation validation of gen/GenBox.v on every run).  Definitions only.

   Carrier [xq]: exact rationals extended by -inf, +inf and NaN.
     int types   : integers, every operation wrapped to the width of its C type (as Common.CxxSem.MZ);
     float types : rational arithmetic with IEEE rules for the infinities, every binary32 result rounded to nearest-even
                   (fround32: 24-bit significand, denormal grid 2^-149) and overflow to +-inf beyond FLT_MAX; int -> float
                   conversions round the same way, an out-of-range float -> int conversion returns the x86 indefinite integer.
                   (division and libm leaves are not used on inexact operands by the case generators.) *)
From Coq Require Import ZArith QArith Qabs List Bool.
From Common Require Import CxxSem.
From C05.gen Require Import GenBox.
From C05 Require Import Ops.
Import ListNotations.
Local Open Scope Z_scope.

Inductive xq := XN | XF (q : Q) | XP | XNaN.

Definition mkq (n d : Z) : Q := Qred (n # Z.to_pos d).
Definition q_num (q : Q) : Z := Qnum q.
Definition q_den (q : Q) : Z := Zpos (Qden q).

Definition FLT_MAX : Q := (2 ^ 128 - 2 ^ 104) # 1.
Definition FLT_MIN : Q := 1 # (2 ^ 126).
Definition qlt (a b : Q) : bool := negb (Qle_bool b a).

(* round to nearest, ties to even, to the binary32 format: 24-bit significand for |q| >= 2^-126, multiples of 2^-149 below.
   The identity on every representable value. *)
Definition pow2q (k : Z) : Q := if 0 <=? k then (2 ^ k) # 1 else 1 # (Z.to_pos (2 ^ (- k))).
Definition fround32 (q : Q) : Q :=
  let n := Z.abs (Qnum q) in
  let d := Zpos (Qden q) in
  if n =? 0 then 0%Q
  else
    let e0 := Z.log2 n - Z.log2 d in
    let e := if (if 0 <=? e0 then n <? d * 2 ^ e0 else n * 2 ^ (- e0) <? d) then e0 - 1 else e0 in   (* 2^e <= |q| < 2^(e+1) *)
    let k := if e <? -126 then -149 else e - 23 in                                                  (* unit in the last place = 2^k *)
    let num := if 0 <=? k then n else n * 2 ^ (- k) in
    let den := if 0 <=? k then d * 2 ^ k else d in
    let f := num / den in
    let r := num mod den in
    let m := if 2 * r <? den then f else if den <? 2 * r then f + 1 else if Z.even f then f else f + 1 in
    Qred (Qmult ((Z.sgn (Qnum q) * m) # 1) (pow2q k)).

Definition fnorm (t : ctype) (x : xq) : xq :=
  match x with
  | XF q => match t with
            | F32 => let q := fround32 q in
                     if qlt FLT_MAX q then XP else if qlt q (Qopp FLT_MAX) then XN else XF q
            | _ => XF (Qred q)
            end
  | _ => x
  end.

Definition xsgn (x : xq) : Z :=
  match x with XN => -1 | XP => 1 | XNaN => 0 | XF q => Z.sgn (Qnum q) end.
Definition ofsgn (s : Z) : xq := if s =? 0 then XNaN else if 0 <? s then XP else XN.

Definition x_neg (a : xq) : xq :=
  match a with XN => XP | XP => XN | XNaN => XNaN | XF q => XF (Qopp q) end.
Definition x_add (a b : xq) : xq :=
  match a, b with
  | XNaN, _ | _, XNaN => XNaN
  | XP, XN | XN, XP => XNaN
  | XP, _ | _, XP => XP
  | XN, _ | _, XN => XN
  | XF p, XF q => XF (Qplus p q)
  end.
Definition x_mul (a b : xq) : xq :=
  match a, b with
  | XF p, XF q => XF (Qmult p q)
  | _, _ => ofsgn (xsgn a * xsgn b)
  end.
Definition x_div (a b : xq) : xq :=
  match a, b with
  | XNaN, _ | _, XNaN => XNaN
  | XF p, XF q => if Qeq_bool q 0 then ofsgn (Z.sgn (Qnum p)) else XF (Qdiv p q)
  | XF _, _ => XF 0
  | _, XF q => ofsgn (xsgn a * (if Z.sgn (Qnum q) =? 0 then 1 else Z.sgn (Qnum q)))
  | _, _ => XNaN
  end.

Definition x_int (a : xq) : option Z :=
  match a with XF q => Some (Z.quot (Qnum q) (Zpos (Qden q))) | _ => None end.
Definition ofz (z : Z) : xq := XF (z # 1).

Definition x_bop (o : binop) (t : ctype) (a b : xq) : xq :=
  if isfloat t then
    fnorm t match o with
            | Add => x_add a b | Sub => x_add a (x_neg b) | Mul => x_mul a b | Div => x_div a b
            | _ => XNaN
            end
  else match x_int a, x_int b with
       | Some x, Some y =>
           match o with
           | Div | Rem => if y =? 0 then XNaN else ofz (wrap t (z_bop o x y))
           | _ => ofz (wrap t (z_bop o x y))
           end
       | _, _ => XNaN
       end.

Definition x_uop (o : unop) (t : ctype) (a : xq) : xq :=
  if isfloat t then match o with Neg => x_neg a | Pos => a | BNot => XNaN end
  else match x_int a with Some x => ofz (wrap t (z_uop o x)) | None => XNaN end.

Definition x_lt (a b : xq) : bool :=
  match a, b with
  | XNaN, _ | _, XNaN => false
  | XN, XN => false
  | XN, _ => true
  | _, XN => false
  | XP, _ => false
  | _, XP => true
  | XF p, XF q => qlt p q
  end.
Definition x_eq (a b : xq) : bool :=
  match a, b with
  | XF p, XF q => Qeq_bool p q
  | XN, XN | XP, XP => true
  | _, _ => false
  end.
Definition x_cmp (c : cmpop) (t : ctype) (a b : xq) : bool :=
  match c with
  | Lt => x_lt a b | Gt => x_lt b a
  | Le => x_lt a b || x_eq a b | Ge => x_lt b a || x_eq a b
  | Eq => x_eq a b | Ne => negb (x_eq a b)
  end.

(* float -> signed integer conversion of a value outside the target range is undefined in C++; x86 (cvttss2si) returns the
   "integer indefinite" value = the minimum of the type, and that is what this reading returns (it is what the compiled templates do;
   the C++ standard promises nothing).  Every other conversion: truncation toward zero, then the width of the target. *)
Definition x_cast (from to : ctype) (a : xq) : xq :=
  if isfloat to then fnorm to a
  else match x_int a with
       | Some z => if isfloat from && signed to && ((z <? tmin to) || (tmax to <? z)) then ofz (tmin to) else ofz (wrap to z)
       | None => XNaN
       end.

Definition x_lib (f : libfn) (t : ctype) (l : list xq) : xq :=
  match f, l with
  | LMin, [a; b] => if x_lt b a then b else a
  | LMax, [a; b] => if x_lt a b then b else a
  | LAbs, [a] => match a with XN => XP | XF q => XF (Qabs q) | _ => a end
  | LOther 0, [] => XP
  | LOther 1, [] => if isfloat t then XF FLT_MAX else ofz (tmax t)
  | LOther 2, [] => if isfloat t then XF FLT_MIN else ofz (tmin t)
  | LOther 3, [] => if isfloat t then XF (Qopp FLT_MAX) else ofz (tmin t)
  | _, _ => XNaN
  end.

Definition IX : interp := {|
  S := xq;
  bop := x_bop;
  uop := x_uop;
  cmp := x_cmp;
  cast := x_cast;
  ilit := fun _ z => ofz z;
  flit := fun t n d => fnorm t (XF (mkq n d));
  lib := x_lib;
  ofbool := fun _ b => if b then ofz 1 else ofz 0;
  tobool := fun _ x => negb (x_eq x (ofz 0));
|}.

(* ------------------------------------------------------------------ the driver entry point *)
Definition xb (b : bool) : list xq := [if b then ofz 1 else ofz 0].
Definition part (d k : nat) (l : list xq) : list xq := firstn d (skipn (k * d) l).
Definition bad : list xq := [XNaN; XNaN; XNaN].

Definition find_r (code : nat) := find (fun r : rangeops IX => Nat.eqb (rname r) code) (range_insts IX).
Definition find_a (code : nat) := find (fun r : arithops IX => Nat.eqb (rname r) code) (arith_insts IX).
Definition find_b (code : nat) := find (fun r : boxops IX => Nat.eqb (rname r) code) (box_insts IX).
Definition find_t (code : nat) := find (fun r : touchops IX => Nat.eqb (rname r) code) (touch_insts IX).

Definition box_of (r : rangeops IX) (k : nat) (a : list xq) : boxT r :=
  mkbox r (ofcomps r (part (dim r) k a)) (ofcomps r (part (dim r) (k + 1) a)).
Definition vec_of (r : rangeops IX) (k : nat) (a : list xq) : vecT r := ofcomps r (part (dim r) k a).
Definition out_box (r : rangeops IX) (b : boxT r) : list xq := comps r (lower r b) ++ comps r (upper r b).

Definition run_r (op : nat) (r : rangeops IX) (a : list xq) : list xq :=
  match op with
  | 0 => xb (r_contains r (box_of r 0 a) (vec_of r 2 a))
  | 1 => xb (r_isempty r (box_of r 0 a))
  | 2 => out_box r (r_extendp r (box_of r 0 a) (vec_of r 2 a))
  | 3 => out_box r (r_extendb r (box_of r 0 a) (box_of r 2 a))
  | 4 => comps r (r_clamp r (box_of r 0 a) (vec_of r 2 a))
  | 5 => comps r (r_size r (box_of r 0 a))
  | 6 => comps r (r_center r (box_of r 0 a))
  | 7 => out_box r (r_default r)
  | 8 => out_box r (r_emptyty r)
  | 9 => out_box r (r_extendb r (r_default r) (box_of r 0 a))
  | 17 => out_box r (r_zero r)
  | 18 => out_box r (r_one r)
  | 19 => out_box r (r_single r (vec_of r 0 a))
  | _ => bad
  end%nat.

Definition run_a (op : nat) (r : arithops IX) (a : list xq) : list xq :=
  match op with
  | 10 => out_box r (a_scale_r r (box_of r 0 a) (vec_of r 2 a))
  | 11 => out_box r (a_scale_l r (vec_of r 2 a) (box_of r 0 a))
  | 12 => out_box r (a_trans_r r (box_of r 0 a) (vec_of r 2 a))
  | 13 => out_box r (a_trans_l r (vec_of r 2 a) (box_of r 0 a))
  | 14 => xb (a_eq r (box_of r 0 a) (box_of r 2 a))
  | 15 => xb (a_ne r (box_of r 0 a) (box_of r 2 a))
  | _ => bad
  end%nat.

Definition run_b (op : nat) (r : boxops IX) (a : list xq) : list xq :=
  match op with
  | 20 => out_box r (b_inter r (box_of r 0 a) (box_of r 2 a))
  | 21 => xb (b_disjoint r (box_of r 0 a) (box_of r 2 a))
  | 22 => comps r (b_center r (box_of r 0 a))
  | 24 => xb (r_isempty r (b_inter r (box_of r 0 a) (box_of r 2 a)))
  | _ => bad
  end%nat.

Definition v3 (k : nat) (a : list xq) : vec3 IX := ofcomps (ops_3f IX) (part 3 k a).
Definition v3a (k : nat) (a : list xq) : vec3a IX := ofcomps (ops_3af IX) (part 3 k a).
Definition v2 (k : nat) (a : list xq) : vec2 IX := ofcomps (ops_2f IX) (part 2 k a).
Definition nthx (k : nat) (a : list xq) : xq := nth k a XNaN.

Definition run_misc (op code : nat) (a : list xq) : list xq :=
  match op, code with
  | 30, 20 => [area__range_t_v2i IX (box_of (ops_2i IX) 0 a)]
  | 30, 21 => [area__range_t_v2f IX (box_of (ops_2f IX) 0 a)]
  | 30, 30 => [area__range_t_v3i IX (box_of (ops_3i IX) 0 a)]
  | 30, 31 => [area__range_t_v3f IX (box_of (ops_3f IX) 0 a)]
  | 30, 32 => [area__range_t_v3af IX (box_of (ops_3af IX) 0 a)]
  | 31, 30 => [volume__range_t_v3i IX (box_of (ops_3i IX) 0 a)]
  | 31, 31 => [volume__range_t_v3f IX (box_of (ops_3f IX) 0 a)]
  | 31, 32 => [volume__range_t_v3af IX (box_of (ops_3af IX) 0 a)]
  (* xfmBounds: a = vx vy vz p lower upper *)
  | 40, 31 => out_box (ops_3f IX)
                (xfmBounds__AffineSpaceT_LinearSpace3_v3f_v3f_range_t_v3f IX
                   (mk_AffineSpaceT_LinearSpace3_vec3_vec3 IX (mk_LinearSpace3_vec3 IX (v3 0 a) (v3 1 a) (v3 2 a)) (v3 3 a))
                   (mkbox (ops_3f IX) (v3 4 a) (v3 5 a)))
  | 40, 32 => out_box (ops_3af IX)
                (xfmBounds__AffineSpaceT_LinearSpace3_v3af_v3af_range_t_v3af IX
                   (mk_AffineSpaceT_LinearSpace3_vec3a_vec3a IX (mk_LinearSpace3_vec3a IX (v3a 0 a) (v3a 1 a) (v3a 2 a)) (v3a 3 a))
                   (mkbox (ops_3af IX) (v3a 4 a) (v3a 5 a)))
  (* xfmPoint: a = vx vy vz p point *)
  | 41, 31 => comps (ops_3f IX)
                (xfmPoint__AffineSpaceT_LinearSpace3_v3f_v3f_v3f IX
                   (mk_AffineSpaceT_LinearSpace3_vec3_vec3 IX (mk_LinearSpace3_vec3 IX (v3 0 a) (v3 1 a) (v3 2 a)) (v3 3 a)) (v3 4 a))
  | 41, 32 => comps (ops_3af IX)
                (xfmPoint__AffineSpaceT_LinearSpace3_v3af_v3af_v3af IX
                   (mk_AffineSpaceT_LinearSpace3_vec3a_vec3a IX (mk_LinearSpace3_vec3a IX (v3a 0 a) (v3a 1 a) (v3a 2 a)) (v3a 3 a)) (v3a 4 a))
  (* explicit range_t(const range_t<other_t> &): the box of the sibling element type of the same dimension *)
  | 27, 11 => out_box (ops_1f IX) (range_t_f_mk__range_t_i IX (box_of (ops_1i IX) 0 a))
  | 27, 10 => out_box (ops_1i IX) (range_t_i_mk__range_t_f IX (box_of (ops_1f IX) 0 a))
  | 27, 21 => out_box (ops_2f IX) (range_t_v2f_mk__range_t_v2i IX (box_of (ops_2i IX) 0 a))
  | 27, 20 => out_box (ops_2i IX) (range_t_v2i_mk__range_t_v2f IX (box_of (ops_2f IX) 0 a))
  | 27, 31 => out_box (ops_3f IX) (range_t_v3f_mk__range_t_v3i IX (box_of (ops_3i IX) 0 a))
  | 27, 30 => out_box (ops_3i IX) (range_t_v3i_mk__range_t_v3f IX (box_of (ops_3f IX) 0 a))
  | 27, 32 => out_box (ops_3af IX) (range_t_v3af_mk__range_t_v3f IX (box_of (ops_3f IX) 0 a))
  | 27, 41 => out_box (ops_4f IX) (range_t_v4f_mk__range_t_v4i IX (box_of (ops_4i IX) 0 a))
  | 27, 40 => out_box (ops_4i IX) (range_t_v4i_mk__range_t_v4f IX (box_of (ops_4f IX) 0 a))
  (* intersectRayBox with the default tRange = range_t<T>(0, inf): a = org dir lower upper *)
  | 51, 21 => let r := intersectRayBox__v2f_v2f_range_t_v2f_range_t_f IX (v2 0 a) (v2 1 a)
                         (mkbox (ops_2f IX) (v2 2 a) (v2 3 a)) (mk_range_t_s IX (ofz 0) XP) in
              [range_t_s_lower r; range_t_s_upper r]
  | 51, 31 => let r := intersectRayBox__v3f_v3f_range_t_v3f_range_t_f IX (v3 0 a) (v3 1 a)
                         (mkbox (ops_3f IX) (v3 2 a) (v3 3 a)) (mk_range_t_s IX (ofz 0) XP) in
              [range_t_s_lower r; range_t_s_upper r]
  (* intersectRayBox: a = org dir lower upper tlo thi *)
  | 50, 21 => let r := intersectRayBox__v2f_v2f_range_t_v2f_range_t_f IX (v2 0 a) (v2 1 a)
                         (mkbox (ops_2f IX) (v2 2 a) (v2 3 a)) (mk_range_t_s IX (nthx 8 a) (nthx 9 a)) in
              [range_t_s_lower r; range_t_s_upper r]
  | 50, 31 => let r := intersectRayBox__v3f_v3f_range_t_v3f_range_t_f IX (v3 0 a) (v3 1 a)
                         (mkbox (ops_3f IX) (v3 2 a) (v3 3 a)) (mk_range_t_s IX (nthx 12 a) (nthx 13 a)) in
              [range_t_s_lower r; range_t_s_upper r]
  | _, _ => bad
  end%nat.

Definition run (op code : nat) (a : list xq) : list xq :=
  if Nat.ltb op 10 || (Nat.leb 17 op && Nat.leb op 19) then match find_r code with Some r => run_r op r a | None => bad end
  else if Nat.ltb op 20 then match find_a code with Some r => run_a op r a | None => bad end
  else if Nat.ltb op 23 then match find_b code with Some r => run_b op r a | None => bad end
  else if Nat.eqb op 23 then match find_t code with Some r => xb (t_touching r (box_of r 0 a) (box_of r 2 a)) | None => bad end
  else if Nat.eqb op 24 then match find_b code with Some r => run_b op r a | None => bad end
  else run_misc op code a.
