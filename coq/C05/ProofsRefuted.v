(* C05 - the int32 instance of the order laws; refutations outside the hypotheses of the order theorems. *)
From Coq Require Import ZArith List Bool Lia.
From Common Require Import CxxSem.
From C05.gen Require Import GenBox.
From C05 Require Import Interp Ops Spec.
Import ListNotations.

Ltac dv := repeat match goal with
  | v : vec2 _ |- _ => destruct v
  | v : vec3 _ |- _ => destruct v
  | v : vec3a _ |- _ => destruct v
  | v : vec4 _ |- _ => destruct v
  | v : range_t_s _ |- _ => destruct v
  | v : range_t_vec2 _ |- _ => destruct v
  | v : range_t_vec3 _ |- _ => destruct v
  | v : range_t_vec3a _ |- _ => destruct v
  | v : range_t_vec4 _ |- _ => destruct v
  end.
Ltac insts H := cbn in H; repeat (destruct H as [<- | H]); [.. | contradiction].


(* ------------------------------------------------------------------ the int32 instance *)
Local Open Scope Z_scope.
Lemma oz32_laws : ord_laws OZ32.
Proof. split; cbn; intros; lia. Qed.
Lemma ozsym_laws : ord_laws OZsym /\ neg_top OZsym.
Proof. split; [split; cbn; intros; lia | reflexivity]. Qed.

Definition b2 (lx ly ux uy : Z) : range_t_vec2 (IO OZ32) := mk_range_t_vec2 (IO OZ32) (mk_vec2 (IO OZ32) lx ly) (mk_vec2 (IO OZ32) ux uy).

(* an inverted (empty, non-canonical) operand: the intersection is empty, yet disjoint() says false and
   touchingOrOverlapping() says true; such operands are excluded by the hypotheses of intersection_empty_iff_disjoint *)
Theorem disjoint_inverted_refuted :
  let a := b2 5 5 3 3 in let b := b2 0 0 10 10 in
  r_isempty (bops_2i (IO OZ32)) (b_inter (bops_2i (IO OZ32)) a b) = true /\
  (forall p, r_contains (bops_2i (IO OZ32)) a p = false) /\
  b_disjoint (bops_2i (IO OZ32)) a b = false /\ t_touching (tops_2i (IO OZ32)) a b = true.
Proof.
  cbn zeta. repeat split; try reflexivity.
  intros [px py]. cbv -[Z.ltb]. destruct (px <? 5) eqn:E1; auto. destruct (py <? 5) eqn:E2; auto.
  destruct (3 <? px) eqn:E3; auto. lia.
Qed.

(* ... and it is what intersectionOf itself returns for two separated boxes *)
Theorem disjoint_of_intersection_refuted :
  let i := b_inter (bops_2i (IO OZ32)) (b2 0 0 1 1) (b2 2 2 3 3) in
  r_isempty (bops_2i (IO OZ32)) i = true /\ b_disjoint (bops_2i (IO OZ32)) i (b2 0 0 10 10) = false.
Proof. split; reflexivity. Qed.

(* extend by an inverted old box is not the smallest box as a set: [5,3] has no point, yet extend([5,3], 0) = [0,3] *)
Theorem extend_inverted_refuted :
  r_extendp (ops_1i (IO OZ32)) (mk_range_t_s (IO OZ32) 5 3) 0 = mk_range_t_s (IO OZ32) 0 3.
Proof. reflexivity. Qed.

