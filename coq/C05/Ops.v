(* C05 - one dictionary per template instantiation, built from the GENERATED functions of gen/GenBox.v.
   Definitions only.  The theorems of Properties.v quantify over these dictionaries, so each is a statement
   about the regenerated code of range_t<int|float>, box_t<int|float, 2|3|3A|4>. *)
From Coq Require Import ZArith List Bool.
From Common Require Import CxxSem.
From C05.gen Require Import GenBox.
Import ListNotations.

Record rangeops (I : interp) := {
  rname : nat;                      (* 10*dim + (0 int | 1 float | 2 float aligned) *)
  ety : ctype;
  vecT : Type; boxT : Type; dim : nat;
  comps : vecT -> list (S I);
  ofcomps : list (S I) -> vecT;
  lower : boxT -> vecT; upper : boxT -> vecT;
  mkbox : vecT -> vecT -> boxT;
  r_default : boxT;                 (* range_t()            *)
  r_emptyty : boxT;                 (* range_t(EmptyTy)     *)
  r_zero : boxT;                    (* range_t(ZeroTy)      *)
  r_one : boxT;                     (* range_t(OneTy)       *)
  r_single : vecT -> boxT;          (* range_t(const T &)   *)
  r_contains : boxT -> vecT -> bool;
  r_isempty : boxT -> bool;
  r_extendp : boxT -> vecT -> boxT;
  r_extendb : boxT -> boxT -> boxT;
  r_clamp : boxT -> vecT -> vecT;
  r_size : boxT -> vecT;
  r_center : boxT -> vecT;
}.
Arguments rname {I}. Arguments ety {I}. Arguments vecT {I}. Arguments boxT {I}. Arguments dim {I}.
Arguments comps {I}. Arguments ofcomps {I}. Arguments lower {I}. Arguments upper {I}. Arguments mkbox {I}.
Arguments r_default {I}. Arguments r_emptyty {I}. Arguments r_zero {I}. Arguments r_one {I}. Arguments r_single {I}. Arguments r_contains {I}. Arguments r_isempty {I}.
Arguments r_extendp {I}. Arguments r_extendb {I}. Arguments r_clamp {I}. Arguments r_size {I}. Arguments r_center {I}.

(* scaling / translation / comparison operators *)
Record arithops (I : interp) := {
  a_r :> rangeops I;
  a_scale_r : boxT a_r -> vecT a_r -> boxT a_r;      (* range * scale *)
  a_scale_l : vecT a_r -> boxT a_r -> boxT a_r;      (* scale * range *)
  a_trans_r : boxT a_r -> vecT a_r -> boxT a_r;      (* range + t *)
  a_trans_l : vecT a_r -> boxT a_r -> boxT a_r;      (* t + range *)
  a_eq : boxT a_r -> boxT a_r -> bool;
  a_ne : boxT a_r -> boxT a_r -> bool;
}.
Arguments a_r {I}. Arguments a_scale_r {I}. Arguments a_scale_l {I}. Arguments a_trans_r {I}. Arguments a_trans_l {I}.
Arguments a_eq {I}. Arguments a_ne {I}.

(* box free functions (box_t<T,N,A>, N = 2,3,4) *)
Record boxops (I : interp) := {
  b_r :> rangeops I;
  b_inter : boxT b_r -> boxT b_r -> boxT b_r;
  b_disjoint : boxT b_r -> boxT b_r -> bool;
  b_center : boxT b_r -> vecT b_r;
}.
Arguments b_r {I}. Arguments b_inter {I}. Arguments b_disjoint {I}. Arguments b_center {I}.

(* touchingOrOverlapping exists for N = 2, 3 *)
Record touchops (I : interp) := {
  t_b :> boxops I;
  t_touching : boxT t_b -> boxT t_b -> bool;
}.
Arguments t_b {I}. Arguments t_touching {I}.

Section Inst.
Variable I : interp.
Let d0 : S I := ilit I I32 0.

Definition ops_1i : rangeops I := {|
  rname := 10; ety := I32; vecT := S I; boxT := range_t_s I; dim := 1;
  comps := fun x => [x];
  ofcomps := fun l => nth 0 l d0;
  lower := range_t_s_lower; upper := range_t_s_upper;
  mkbox := range_t_i_mk__i_i I;
  r_default := range_t_i_mk__ I; r_emptyty := range_t_i_mk__EmptyTy I tt;
  r_zero := range_t_i_mk__ZeroTy I tt; r_one := range_t_i_mk__OneTy I tt; r_single := range_t_i_mk__i I;
  r_contains := range_t_i_contains__i I; r_isempty := range_t_i_empty__ I;
  r_extendp := range_t_i_extend__i I; r_extendb := range_t_i_extend__range_t_i I;
  r_clamp := range_t_i_clamp__i I; r_size := range_t_i_size__ I; r_center := range_t_i_center__ I;
|}.

Definition ops_1f : rangeops I := {|
  rname := 11; ety := F32; vecT := S I; boxT := range_t_s I; dim := 1;
  comps := fun x => [x];
  ofcomps := fun l => nth 0 l d0;
  lower := range_t_s_lower; upper := range_t_s_upper;
  mkbox := range_t_f_mk__f_f I;
  r_default := range_t_f_mk__ I; r_emptyty := range_t_f_mk__EmptyTy I tt;
  r_zero := range_t_f_mk__ZeroTy I tt; r_one := range_t_f_mk__OneTy I tt; r_single := range_t_f_mk__f I;
  r_contains := range_t_f_contains__f I; r_isempty := range_t_f_empty__ I;
  r_extendp := range_t_f_extend__f I; r_extendb := range_t_f_extend__range_t_f I;
  r_clamp := range_t_f_clamp__f I; r_size := range_t_f_size__ I; r_center := range_t_f_center__ I;
|}.

Definition ops_2i : rangeops I := {|
  rname := 20; ety := I32; vecT := vec2 I; boxT := range_t_vec2 I; dim := 2;
  comps := fun v => [vec2_x v; vec2_y v];
  ofcomps := fun l => mk_vec2 I (nth 0 l d0) (nth 1 l d0);
  lower := range_t_vec2_lower; upper := range_t_vec2_upper;
  mkbox := range_t_v2i_mk__v2i_v2i I;
  r_default := range_t_v2i_mk__ I; r_emptyty := range_t_v2i_mk__EmptyTy I tt;
  r_zero := range_t_v2i_mk__ZeroTy I tt; r_one := range_t_v2i_mk__OneTy I tt; r_single := range_t_v2i_mk__v2i I;
  r_contains := range_t_v2i_contains__v2i I; r_isempty := range_t_v2i_empty__ I;
  r_extendp := range_t_v2i_extend__v2i I; r_extendb := range_t_v2i_extend__range_t_v2i I;
  r_clamp := range_t_v2i_clamp__v2i I; r_size := range_t_v2i_size__ I; r_center := range_t_v2i_center__ I;
|}.

Definition ops_2f : rangeops I := {|
  rname := 21; ety := F32; vecT := vec2 I; boxT := range_t_vec2 I; dim := 2;
  comps := fun v => [vec2_x v; vec2_y v];
  ofcomps := fun l => mk_vec2 I (nth 0 l d0) (nth 1 l d0);
  lower := range_t_vec2_lower; upper := range_t_vec2_upper;
  mkbox := range_t_v2f_mk__v2f_v2f I;
  r_default := range_t_v2f_mk__ I; r_emptyty := range_t_v2f_mk__EmptyTy I tt;
  r_zero := range_t_v2f_mk__ZeroTy I tt; r_one := range_t_v2f_mk__OneTy I tt; r_single := range_t_v2f_mk__v2f I;
  r_contains := range_t_v2f_contains__v2f I; r_isempty := range_t_v2f_empty__ I;
  r_extendp := range_t_v2f_extend__v2f I; r_extendb := range_t_v2f_extend__range_t_v2f I;
  r_clamp := range_t_v2f_clamp__v2f I; r_size := range_t_v2f_size__ I; r_center := range_t_v2f_center__ I;
|}.

Definition ops_3i : rangeops I := {|
  rname := 30; ety := I32; vecT := vec3 I; boxT := range_t_vec3 I; dim := 3;
  comps := fun v => [vec3_x v; vec3_y v; vec3_z v];
  ofcomps := fun l => mk_vec3 I (nth 0 l d0) (nth 1 l d0) (nth 2 l d0);
  lower := range_t_vec3_lower; upper := range_t_vec3_upper;
  mkbox := range_t_v3i_mk__v3i_v3i I;
  r_default := range_t_v3i_mk__ I; r_emptyty := range_t_v3i_mk__EmptyTy I tt;
  r_zero := range_t_v3i_mk__ZeroTy I tt; r_one := range_t_v3i_mk__OneTy I tt; r_single := range_t_v3i_mk__v3i I;
  r_contains := range_t_v3i_contains__v3i I; r_isempty := range_t_v3i_empty__ I;
  r_extendp := range_t_v3i_extend__v3i I; r_extendb := range_t_v3i_extend__range_t_v3i I;
  r_clamp := range_t_v3i_clamp__v3i I; r_size := range_t_v3i_size__ I; r_center := range_t_v3i_center__ I;
|}.

Definition ops_3f : rangeops I := {|
  rname := 31; ety := F32; vecT := vec3 I; boxT := range_t_vec3 I; dim := 3;
  comps := fun v => [vec3_x v; vec3_y v; vec3_z v];
  ofcomps := fun l => mk_vec3 I (nth 0 l d0) (nth 1 l d0) (nth 2 l d0);
  lower := range_t_vec3_lower; upper := range_t_vec3_upper;
  mkbox := range_t_v3f_mk__v3f_v3f I;
  r_default := range_t_v3f_mk__ I; r_emptyty := range_t_v3f_mk__EmptyTy I tt;
  r_zero := range_t_v3f_mk__ZeroTy I tt; r_one := range_t_v3f_mk__OneTy I tt; r_single := range_t_v3f_mk__v3f I;
  r_contains := range_t_v3f_contains__v3f I; r_isempty := range_t_v3f_empty__ I;
  r_extendp := range_t_v3f_extend__v3f I; r_extendb := range_t_v3f_extend__range_t_v3f I;
  r_clamp := range_t_v3f_clamp__v3f I; r_size := range_t_v3f_size__ I; r_center := range_t_v3f_center__ I;
|}.

Definition ops_3af : rangeops I := {|
  rname := 32; ety := F32; vecT := vec3a I; boxT := range_t_vec3a I; dim := 3;
  comps := fun v => [vec3a_x v; vec3a_y v; vec3a_z v];
  ofcomps := fun l => mk_vec3a I (nth 0 l d0) (nth 1 l d0) (nth 2 l d0);
  lower := range_t_vec3a_lower; upper := range_t_vec3a_upper;
  mkbox := range_t_v3af_mk__v3af_v3af I;
  r_default := range_t_v3af_mk__ I; r_emptyty := range_t_v3af_mk__EmptyTy I tt;
  r_zero := range_t_v3af_mk__ZeroTy I tt; r_one := range_t_v3af_mk__OneTy I tt; r_single := range_t_v3af_mk__v3af I;
  r_contains := range_t_v3af_contains__v3af I; r_isempty := range_t_v3af_empty__ I;
  r_extendp := range_t_v3af_extend__v3af I; r_extendb := range_t_v3af_extend__range_t_v3af I;
  r_clamp := range_t_v3af_clamp__v3af I; r_size := range_t_v3af_size__ I; r_center := range_t_v3af_center__ I;
|}.

Definition ops_4i : rangeops I := {|
  rname := 40; ety := I32; vecT := vec4 I; boxT := range_t_vec4 I; dim := 4;
  comps := fun v => [vec4_x v; vec4_y v; vec4_z v; vec4_w v];
  ofcomps := fun l => mk_vec4 I (nth 0 l d0) (nth 1 l d0) (nth 2 l d0) (nth 3 l d0);
  lower := range_t_vec4_lower; upper := range_t_vec4_upper;
  mkbox := range_t_v4i_mk__v4i_v4i I;
  r_default := range_t_v4i_mk__ I; r_emptyty := range_t_v4i_mk__EmptyTy I tt;
  r_zero := range_t_v4i_mk__ZeroTy I tt; r_one := range_t_v4i_mk__OneTy I tt; r_single := range_t_v4i_mk__v4i I;
  r_contains := range_t_v4i_contains__v4i I; r_isempty := range_t_v4i_empty__ I;
  r_extendp := range_t_v4i_extend__v4i I; r_extendb := range_t_v4i_extend__range_t_v4i I;
  r_clamp := range_t_v4i_clamp__v4i I; r_size := range_t_v4i_size__ I; r_center := range_t_v4i_center__ I;
|}.

Definition ops_4f : rangeops I := {|
  rname := 41; ety := F32; vecT := vec4 I; boxT := range_t_vec4 I; dim := 4;
  comps := fun v => [vec4_x v; vec4_y v; vec4_z v; vec4_w v];
  ofcomps := fun l => mk_vec4 I (nth 0 l d0) (nth 1 l d0) (nth 2 l d0) (nth 3 l d0);
  lower := range_t_vec4_lower; upper := range_t_vec4_upper;
  mkbox := range_t_v4f_mk__v4f_v4f I;
  r_default := range_t_v4f_mk__ I; r_emptyty := range_t_v4f_mk__EmptyTy I tt;
  r_zero := range_t_v4f_mk__ZeroTy I tt; r_one := range_t_v4f_mk__OneTy I tt; r_single := range_t_v4f_mk__v4f I;
  r_contains := range_t_v4f_contains__v4f I; r_isempty := range_t_v4f_empty__ I;
  r_extendp := range_t_v4f_extend__v4f I; r_extendb := range_t_v4f_extend__range_t_v4f I;
  r_clamp := range_t_v4f_clamp__v4f I; r_size := range_t_v4f_size__ I; r_center := range_t_v4f_center__ I;
|}.

Definition aops_1i : arithops I := {| a_r := ops_1i;
  a_scale_r := op_mul__range_t_i_i I; a_scale_l := op_mul__i_range_t_i I;
  a_trans_r := op_add__range_t_i_i I; a_trans_l := op_add__i_range_t_i I;
  a_eq := op_eq__range_t_i_range_t_i I; a_ne := op_ne__range_t_i_range_t_i I |}.

Definition aops_1f : arithops I := {| a_r := ops_1f;
  a_scale_r := op_mul__range_t_f_f I; a_scale_l := op_mul__f_range_t_f I;
  a_trans_r := op_add__range_t_f_f I; a_trans_l := op_add__f_range_t_f I;
  a_eq := op_eq__range_t_f_range_t_f I; a_ne := op_ne__range_t_f_range_t_f I |}.

Definition aops_2i : arithops I := {| a_r := ops_2i;
  a_scale_r := op_mul__range_t_v2i_v2i I; a_scale_l := op_mul__v2i_range_t_v2i I;
  a_trans_r := op_add__range_t_v2i_v2i I; a_trans_l := op_add__v2i_range_t_v2i I;
  a_eq := op_eq__range_t_v2i_range_t_v2i I; a_ne := op_ne__range_t_v2i_range_t_v2i I |}.

Definition aops_2f : arithops I := {| a_r := ops_2f;
  a_scale_r := op_mul__range_t_v2f_v2f I; a_scale_l := op_mul__v2f_range_t_v2f I;
  a_trans_r := op_add__range_t_v2f_v2f I; a_trans_l := op_add__v2f_range_t_v2f I;
  a_eq := op_eq__range_t_v2f_range_t_v2f I; a_ne := op_ne__range_t_v2f_range_t_v2f I |}.

Definition aops_3i : arithops I := {| a_r := ops_3i;
  a_scale_r := op_mul__range_t_v3i_v3i I; a_scale_l := op_mul__v3i_range_t_v3i I;
  a_trans_r := op_add__range_t_v3i_v3i I; a_trans_l := op_add__v3i_range_t_v3i I;
  a_eq := op_eq__range_t_v3i_range_t_v3i I; a_ne := op_ne__range_t_v3i_range_t_v3i I |}.

Definition aops_3f : arithops I := {| a_r := ops_3f;
  a_scale_r := op_mul__range_t_v3f_v3f I; a_scale_l := op_mul__v3f_range_t_v3f I;
  a_trans_r := op_add__range_t_v3f_v3f I; a_trans_l := op_add__v3f_range_t_v3f I;
  a_eq := op_eq__range_t_v3f_range_t_v3f I; a_ne := op_ne__range_t_v3f_range_t_v3f I |}.

Definition aops_4i : arithops I := {| a_r := ops_4i;
  a_scale_r := op_mul__range_t_v4i_v4i I; a_scale_l := op_mul__v4i_range_t_v4i I;
  a_trans_r := op_add__range_t_v4i_v4i I; a_trans_l := op_add__v4i_range_t_v4i I;
  a_eq := op_eq__range_t_v4i_range_t_v4i I; a_ne := op_ne__range_t_v4i_range_t_v4i I |}.

Definition aops_4f : arithops I := {| a_r := ops_4f;
  a_scale_r := op_mul__range_t_v4f_v4f I; a_scale_l := op_mul__v4f_range_t_v4f I;
  a_trans_r := op_add__range_t_v4f_v4f I; a_trans_l := op_add__v4f_range_t_v4f I;
  a_eq := op_eq__range_t_v4f_range_t_v4f I; a_ne := op_ne__range_t_v4f_range_t_v4f I |}.

Definition aops_3af : arithops I := {| a_r := ops_3af;
  a_scale_r := op_mul__range_t_v3af_v3af I; a_scale_l := op_mul__v3af_range_t_v3af I;
  a_trans_r := op_add__range_t_v3af_v3af I; a_trans_l := op_add__v3af_range_t_v3af I;
  a_eq := op_eq__range_t_v3af_range_t_v3af I; a_ne := op_ne__range_t_v3af_range_t_v3af I |}.

Definition bops_2i : boxops I := {| b_r := ops_2i;
  b_inter := intersectionOf__range_t_v2i_range_t_v2i I; b_disjoint := disjoint__range_t_v2i_range_t_v2i I;
  b_center := center__range_t_v2i I |}.

Definition bops_2f : boxops I := {| b_r := ops_2f;
  b_inter := intersectionOf__range_t_v2f_range_t_v2f I; b_disjoint := disjoint__range_t_v2f_range_t_v2f I;
  b_center := center__range_t_v2f I |}.

Definition bops_3i : boxops I := {| b_r := ops_3i;
  b_inter := intersectionOf__range_t_v3i_range_t_v3i I; b_disjoint := disjoint__range_t_v3i_range_t_v3i I;
  b_center := center__range_t_v3i I |}.

Definition bops_3f : boxops I := {| b_r := ops_3f;
  b_inter := intersectionOf__range_t_v3f_range_t_v3f I; b_disjoint := disjoint__range_t_v3f_range_t_v3f I;
  b_center := center__range_t_v3f I |}.

Definition bops_3af : boxops I := {| b_r := ops_3af;
  b_inter := intersectionOf__range_t_v3af_range_t_v3af I; b_disjoint := disjoint__range_t_v3af_range_t_v3af I;
  b_center := center__range_t_v3af I |}.

Definition bops_4i : boxops I := {| b_r := ops_4i;
  b_inter := intersectionOf__range_t_v4i_range_t_v4i I; b_disjoint := disjoint__range_t_v4i_range_t_v4i I;
  b_center := center__range_t_v4i I |}.

Definition bops_4f : boxops I := {| b_r := ops_4f;
  b_inter := intersectionOf__range_t_v4f_range_t_v4f I; b_disjoint := disjoint__range_t_v4f_range_t_v4f I;
  b_center := center__range_t_v4f I |}.

Definition tops_2i : touchops I := {| t_b := bops_2i; t_touching := touchingOrOverlapping__range_t_v2i_range_t_v2i I |}.

Definition tops_2f : touchops I := {| t_b := bops_2f; t_touching := touchingOrOverlapping__range_t_v2f_range_t_v2f I |}.

Definition tops_3i : touchops I := {| t_b := bops_3i; t_touching := touchingOrOverlapping__range_t_v3i_range_t_v3i I |}.

Definition tops_3f : touchops I := {| t_b := bops_3f; t_touching := touchingOrOverlapping__range_t_v3f_range_t_v3f I |}.

Definition tops_3af : touchops I := {| t_b := bops_3af; t_touching := touchingOrOverlapping__range_t_v3af_range_t_v3af I |}.

Definition range_insts : list (rangeops I) := [ops_1i; ops_1f; ops_2i; ops_2f; ops_3i; ops_3f; ops_3af; ops_4i; ops_4f].
Definition int_insts : list (rangeops I) := [ops_1i; ops_2i; ops_3i; ops_4i].
Definition float_insts : list (rangeops I) := [ops_1f; ops_2f; ops_3f; ops_3af; ops_4f].
Definition arith_insts : list (arithops I) := [aops_1i; aops_1f; aops_2i; aops_2f; aops_3i; aops_3f; aops_3af; aops_4i; aops_4f].
Definition box_insts : list (boxops I) := [bops_2i; bops_2f; bops_3i; bops_3f; bops_3af; bops_4i; bops_4f].
Definition touch_insts : list (touchops I) := [tops_2i; tops_2f; tops_3i; tops_3f; tops_3af].
End Inst.
