(* C05 - total-order lemmas (min/max of a decidable total order) shared by the ProofsOrd* files. *)
From Coq Require Import ZArith List Bool Lia Setoid Morphisms.
From Common Require Import CxxSem.
From C05.gen Require Import GenBox.
From C05 Require Import Interp Ops Spec.
Import ListNotations.

Lemma Forall2_cons_iff {A B} (R : A -> B -> Prop) x y l l' :
  Forall2 R (x :: l) (y :: l') <-> R x y /\ Forall2 R l l'.
Proof. split; intro H. - inversion H; subst; auto. - destruct H; constructor; auto. Qed.
Lemma Forall2_nil_iff {A B} (R : A -> B -> Prop) : Forall2 R [] [] <-> True.
Proof. split; auto. Qed.
Lemma Forall_cons_iff' {A} (P : A -> Prop) x l : Forall P (x :: l) <-> P x /\ Forall P l.
Proof. split; intro H. - inversion H; subst; auto. - destruct H; constructor; auto. Qed.
Lemma Forall_nil_iff' {A} (P : A -> Prop) : Forall P [] <-> True.
Proof. split; auto. Qed.

Section Ord.
Variable o : ordsig.
Hypothesis L : ord_laws o.
Notation lt' := (ltb o).

Lemma le_refl a : le o a a.
Proof. apply (lt_irrefl o L). Qed.
Lemma lt_asym a b : lt' a b = true -> lt' b a = false.
Proof.
  intro H. destruct (lt' b a) eqn:E; auto.
  pose proof (lt_trans o L _ _ _ H E) as F. rewrite (lt_irrefl o L) in F. discriminate.
Qed.
Lemma le_trans a b c : le o a b -> le o b c -> le o a c.
Proof.
  unfold le. intros H1 H2. destruct (lt' c a) eqn:E; auto.
  destruct (lt' a b) eqn:F.
  - pose proof (lt_trans o L _ _ _ E F) as G. congruence.
  - assert (a = b) by (apply (lt_total o L); auto). subst. congruence.
Qed.
Lemma le_antisym a b : le o a b -> le o b a -> a = b.
Proof. unfold le. intros. apply (lt_total o L); auto. Qed.
Lemma le_total a b : le o a b \/ le o b a.
Proof. unfold le. destruct (lt' b a) eqn:E; auto. right. apply lt_asym; auto. Qed.
Lemma lt_le a b : lt' a b = true -> le o a b.
Proof. apply lt_asym. Qed.
Lemma nlt_le a b : lt' a b = false <-> le o b a.
Proof. reflexivity. Qed.
Lemma lt_nle a b : lt' a b = true <-> ~ le o b a.
Proof.
  unfold le. destruct (lt' a b); split; intro H.
  - discriminate.
  - reflexivity.
  - discriminate.
  - exfalso; apply H; reflexivity.
Qed.

Lemma omin_cases a b : (omin o a b = a /\ le o a b) \/ (omin o a b = b /\ le o b a).
Proof. unfold omin. destruct (lt' b a) eqn:E; [right | left]; split; auto. apply lt_le; auto. Qed.
Lemma omax_cases a b : (omax o a b = a /\ le o b a) \/ (omax o a b = b /\ le o a b).
Proof. unfold omax. destruct (lt' a b) eqn:E; [right | left]; split; auto. apply lt_le; auto. Qed.

Lemma le_omin p a b : le o p (omin o a b) <-> le o p a /\ le o p b.
Proof.
  destruct (omin_cases a b) as [[-> H] | [-> H]]; split; intros; try tauto.
  - split; auto. eapply le_trans; eauto.
  - split; auto. eapply le_trans; eauto.
Qed.
Lemma omax_le a b p : le o (omax o a b) p <-> le o a p /\ le o b p.
Proof.
  destruct (omax_cases a b) as [[-> H] | [-> H]]; split; intros; try tauto.
  - split; auto. eapply le_trans; eauto.
  - split; auto. eapply le_trans; eauto.
Qed.
Lemma omin_le_l a b : le o (omin o a b) a.
Proof. destruct (omin_cases a b) as [[-> H] | [-> H]]; auto using le_refl. Qed.
Lemma omin_le_r a b : le o (omin o a b) b.
Proof. destruct (omin_cases a b) as [[-> H] | [-> H]]; auto using le_refl. Qed.
Lemma le_omax_l a b : le o a (omax o a b).
Proof. destruct (omax_cases a b) as [[-> H] | [-> H]]; auto using le_refl. Qed.
Lemma le_omax_r a b : le o b (omax o a b).
Proof. destruct (omax_cases a b) as [[-> H] | [-> H]]; auto using le_refl. Qed.
Lemma omin_top x : le o x (top o) -> omin o (top o) x = x.
Proof. intro H. destruct (omin_cases (top o) x) as [[E H'] | [E _]]; rewrite E; auto. apply le_antisym; auto. Qed.
Lemma omax_bot x : le o (bot o) x -> omax o (bot o) x = x.
Proof. intro H. destruct (omax_cases (bot o) x) as [[E H'] | [E _]]; rewrite E; auto. apply le_antisym; auto. Qed.

End Ord.
