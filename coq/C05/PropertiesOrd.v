(* C05 - ranges and boxes behave as closed axis-aligned sets: contains / empty / extend / intersectionOf
   Every theorem is about the GENERATED definitions of gen/GenBox.v (regenerated from /repo on every run), reached through the
   instantiation dictionaries of Ops.v: range_insts = range_t<int|float>, box_t<int|float,2|3|3A|4>; box_insts = the box_t ones;
   touch_insts = N in {2,3}.  Order clauses hold for ANY decidable total order [o] with [ord_laws o]; NaN is outside the hypothesis.
   The property is split over Properties{Ord,Id,Box,Def,Center,Refuted,R}.v so that a change of one generated definition breaks
   only the obligations that depend on it. *)
From Coq Require Import ZArith QArith Reals List Bool.
From Common Require Import CxxSem.
From C05.gen Require Import GenBox.
From C05 Require Import Interp Ops Spec ProofsOrd ProofsRefuted.
Import ListNotations.
Local Open Scope Z_scope.
(* contains(p) is true exactly when lower <= p <= upper in every component *)
Theorem contains_iff : forall o r, In r (range_insts (IO o)) -> forall b p,
  r_contains r b p = true <-> pt_in o r b p.
Proof. exact ProofsOrd.contains_iff. Qed.
Print Assumptions contains_iff.

Theorem isempty_iff : forall o r, In r (range_insts (IO o)) -> forall b,
  r_isempty r b = true <-> ~ nonempty o r b.
Proof. exact ProofsOrd.isempty_iff. Qed.
Print Assumptions isempty_iff.

(* extend: least upper bound in the order of bounds - for ALL boxes *)
Theorem extend_point_least : forall o, ord_laws o -> forall r, In r (range_insts (IO o)) -> forall b p,
  let e := r_extendp r b p in
  encloses o r e b /\ pt_in o r e p /\ forall c, encloses o r c b -> pt_in o r c p -> encloses o r c e.
Proof. exact ProofsOrd.extend_point_least. Qed.
Print Assumptions extend_point_least.

Theorem extend_box_least : forall o, ord_laws o -> forall r, In r (range_insts (IO o)) -> forall a b,
  let e := r_extendb r a b in
  encloses o r e a /\ encloses o r e b /\ forall c, encloses o r c a -> encloses o r c b -> encloses o r c e.
Proof. exact ProofsOrd.extend_box_least. Qed.
Print Assumptions extend_box_least.

(* ... which is the smallest box as a SET of points when the operands are non-empty (an inverted old box is refuted below) *)
Theorem extend_point_smallest : forall o, ord_laws o -> forall r, In r (range_insts (IO o)) -> forall b p, nonempty o r b ->
  let e := r_extendp r b p in
  subset o r b e /\ pt_in o r e p /\ forall c, subset o r b c -> pt_in o r c p -> subset o r e c.
Proof. exact ProofsOrd.extend_point_smallest. Qed.
Print Assumptions extend_point_smallest.

Theorem extend_box_smallest : forall o, ord_laws o -> forall r, In r (range_insts (IO o)) -> forall a b,
  nonempty o r a -> nonempty o r b ->
  let e := r_extendb r a b in
  subset o r a e /\ subset o r b e /\ forall c, subset o r a c -> subset o r b c -> subset o r e c.
Proof. exact ProofsOrd.extend_box_smallest. Qed.
Print Assumptions extend_box_smallest.

(* intersectionOf contains exactly the common points: ALL boxes, empty and inverted included *)
Theorem intersection_spec : forall o, ord_laws o -> forall r, In r (box_insts (IO o)) -> forall a b p,
  r_contains r (b_inter r a b) p = true <-> r_contains r a p = true /\ r_contains r b p = true.
Proof. exact ProofsOrd.intersection_spec. Qed.
Print Assumptions intersection_spec.

Example ex_contains_face : r_contains (ops_2i (IO OZ32)) (b2 0 1 4 5) (mk_vec2 (IO OZ32) 4 1) = true.
Proof. reflexivity. Qed.

Example ex_contains_outside : r_contains (ops_2i (IO OZ32)) (b2 0 1 4 5) (mk_vec2 (IO OZ32) 5 1) = false.
Proof. reflexivity. Qed.
