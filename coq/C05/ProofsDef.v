(* C05 - definitional equalities of size / scale / translate / == / area / volume (any numeric interpretation). *)
From Coq Require Import ZArith List Bool Lia.
From Common Require Import CxxSem.
From C05.gen Require Import GenBox.
From C05 Require Import Interp Ops Spec.
Import ListNotations.

Ltac dv := repeat match goal with
  | v : vec2 _ |- _ => destruct v
  | v : vec3 _ |- _ => destruct v
  | v : vec3a _ |- _ => destruct v
  | v : vec4 _ |- _ => destruct v
  | v : range_t_s _ |- _ => destruct v
  | v : range_t_vec2 _ |- _ => destruct v
  | v : range_t_vec3 _ |- _ => destruct v
  | v : range_t_vec3a _ |- _ => destruct v
  | v : range_t_vec4 _ |- _ => destruct v
  end.
Ltac insts H := cbn in H; repeat (destruct H as [<- | H]); [.. | contradiction].

Section Defs.
Variable I : interp.

Theorem size_def : forall r, In r (range_insts I) -> forall b, comps r (r_size r b) = sizes I r b.
Proof. intros r H. insts H; intros b; cbn in b; dv; reflexivity. Qed.



Theorem scale_def : forall r, In r (arith_insts I) -> forall b s,
  let e := a_scale_r r b s in
  comps r (lower r e) = map2 (bop I Mul (ety r)) (comps r (lower r b)) (comps r s) /\
  comps r (upper r e) = map2 (bop I Mul (ety r)) (comps r (upper r b)) (comps r s) /\
  a_scale_l r s b = e.
Proof. intros r H. insts H; intros b s; cbn in b, s; dv; repeat split; reflexivity. Qed.

Theorem translate_def : forall r, In r (arith_insts I) -> forall b t,
  let e := a_trans_r r b t in
  comps r (lower r e) = map2 (bop I Add (ety r)) (comps r (lower r b)) (comps r t) /\
  comps r (upper r e) = map2 (bop I Add (ety r)) (comps r (upper r b)) (comps r t) /\
  a_trans_l r t b = e.
Proof. intros r H. insts H; intros b s; cbn in b, s; dv; repeat split; reflexivity. Qed.

Theorem eq_def : forall r, In r (arith_insts I) -> forall a b,
  a_eq r a b = (forallb (fun b => b) (map2 (cmp I Eq (ety r)) (comps r (lower r a)) (comps r (lower r b))) &&
                forallb (fun b => b) (map2 (cmp I Eq (ety r)) (comps r (upper r a)) (comps r (upper r b)))) /\
  a_ne r a b = negb (a_eq r a b).
Proof.
  intros r H. insts H; intros a b; cbn in a, b; dv; split; try reflexivity; cbv -[cmp];
    repeat match goal with |- context [cmp I Eq ?t ?x ?y] => destruct (cmp I Eq t x y) end; reflexivity.
Qed.

Definition sub (t : ctype) := bop I Sub t.
Definition mul (t : ctype) := bop I Mul t.
Definition add (t : ctype) := bop I Add t.

Theorem area2_def : forall lx ly ux uy,
  area__range_t_v2i I (mk_range_t_vec2 I (mk_vec2 I lx ly) (mk_vec2 I ux uy)) = mul I32 (sub I32 ux lx) (sub I32 uy ly) /\
  area__range_t_v2f I (mk_range_t_vec2 I (mk_vec2 I lx ly) (mk_vec2 I ux uy)) = mul F32 (sub F32 ux lx) (sub F32 uy ly).
Proof. intros; split; reflexivity. Qed.

Definition area3_spec (t : ctype) (lx ly lz ux uy uz : S I) : S I :=
  let sx := sub t ux lx in let sy := sub t uy ly in let sz := sub t uz lz in
  twice I t (add t (add t (mul t sx sy) (mul t sx sz)) (mul t sy sz)).

Theorem area3_def : forall lx ly lz ux uy uz,
  area__range_t_v3i I (mk_range_t_vec3 I (mk_vec3 I lx ly lz) (mk_vec3 I ux uy uz)) = area3_spec I32 lx ly lz ux uy uz /\
  area__range_t_v3f I (mk_range_t_vec3 I (mk_vec3 I lx ly lz) (mk_vec3 I ux uy uz)) = area3_spec F32 lx ly lz ux uy uz /\
  area__range_t_v3af I (mk_range_t_vec3a I (mk_vec3a I lx ly lz) (mk_vec3a I ux uy uz)) = area3_spec F32 lx ly lz ux uy uz.
Proof. intros; repeat split; reflexivity. Qed.

Definition volume_spec (t : ctype) (lx ly lz ux uy uz : S I) : S I :=
  mul t (mul t (sub t ux lx) (sub t uy ly)) (sub t uz lz).

Theorem volume_def : forall lx ly lz ux uy uz,
  volume__range_t_v3i I (mk_range_t_vec3 I (mk_vec3 I lx ly lz) (mk_vec3 I ux uy uz)) = volume_spec I32 lx ly lz ux uy uz /\
  volume__range_t_v3f I (mk_range_t_vec3 I (mk_vec3 I lx ly lz) (mk_vec3 I ux uy uz)) = volume_spec F32 lx ly lz ux uy uz /\
  volume__range_t_v3af I (mk_range_t_vec3a I (mk_vec3a I lx ly lz) (mk_vec3a I ux uy uz)) = volume_spec F32 lx ly lz ux uy uz.
Proof. intros; repeat split; reflexivity. Qed.
End Defs.
