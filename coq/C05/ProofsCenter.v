(* C05 - center(): definitional equality in every reading, the midpoint over R, the repaired expression on the former
   overflow witnesses (executable binary32 / int32 reading), refutation of the pre-repair expression. *)
From Coq Require Import ZArith QArith Reals List Bool Lia.
From Common Require Import CxxSem.
From C05.gen Require Import GenBox.
From C05 Require Import Interp Ops Spec InterpR Model.
Import ListNotations.

Ltac dv := repeat match goal with
  | v : vec2 _ |- _ => destruct v
  | v : vec3 _ |- _ => destruct v
  | v : vec3a _ |- _ => destruct v
  | v : vec4 _ |- _ => destruct v
  | v : range_t_s _ |- _ => destruct v
  | v : range_t_vec2 _ |- _ => destruct v
  | v : range_t_vec3 _ |- _ => destruct v
  | v : range_t_vec3a _ |- _ => destruct v
  | v : range_t_vec4 _ |- _ => destruct v
  end.
Ltac insts H := cbn in H; repeat (destruct H as [<- | H]); [.. | contradiction].

Section Defs.
Variable I : interp.

Theorem center_def : forall r, In r (range_insts I) -> forall b,
  comps r (r_center r b) = map2 (midpoint I (ety r)) (comps r (lower r b)) (comps r (upper r b)).
Proof. intros r H. insts H; intros b; cbn in b; dv; reflexivity. Qed.

Theorem box_center_def : forall r, In r (box_insts I) -> forall b, b_center r b = r_center r b.
Proof. intros r H. insts H; intros b; reflexivity. Qed.

End Defs.

Local Open Scope R_scope.
(* center() is the midpoint in the ideal reading (no overflow over R); the machine reading overflows in lower+upper:
   known finding C05-center-sum-overflow, see center_sum_overflow_old_refuted below *)
Theorem center_midpoint_R : forall M eps r, In r (float_insts (IO (OR M eps))) -> forall b,
  comps r (r_center r b) = map2 (fun l u : R => (l + u) / 2) (comps r (lower r b)) (comps r (upper r b)).
Proof.
  intros M eps r H. cbn in H. repeat (destruct H as [<- | H]); [.. | contradiction]; intros b; cbn in b;
    repeat match goal with
    | v : vec2 _ |- _ => destruct v | v : vec3 _ |- _ => destruct v | v : vec3a _ |- _ => destruct v | v : vec4 _ |- _ => destruct v
    | v : range_t_s _ |- _ => destruct v | v : range_t_vec2 _ |- _ => destruct v | v : range_t_vec3 _ |- _ => destruct v
    | v : range_t_vec3a _ |- _ => destruct v | v : range_t_vec4 _ |- _ => destruct v end;
    cbv -[Rplus Rminus Rmult Ropp Rdiv Rinv IZR Rabs rltb];
    repeat (f_equal; try field).
Qed.


Local Close Scope R_scope.

(* ------------------------------------------------------------------ executable reading (Model.IX: exact rationals, overflow beyond FLT_MAX,
   int32 wrap; equals binary32 / int arithmetic whenever every intermediate value is representable, as it is in these witnesses) *)
Definition W (k : Z) : xq := XF ((k * 2 ^ 124)%Z # 1).
Definition Zx (z : Z) : xq := XF (z # 1).

(* the repaired expression returns the exact midpoint on the former overflow witnesses ... *)
Theorem center_repaired_witnesses :
  r_center (ops_1f IX) (mk_range_t_s IX (W 12) (W 13)) = XF ((25 * 2 ^ 123)%Z # 1) /\
  r_center (ops_1f IX) (mk_range_t_s IX (XF (Qopp FLT_MAX)) (XF FLT_MAX)) = XF 0 /\
  r_center (ops_1i IX) (mk_range_t_s IX (Zx 2000000000) (Zx 2100000000)) = Zx 2050000000 /\
  r_center (ops_1i IX) (mk_range_t_s IX (Zx (-2000000000)) (Zx 2000000000)) = Zx 0 /\
  r_center (ops_1i IX) (mk_range_t_s IX (Zx 3) (Zx 8)) = Zx 5 /\
  r_center (ops_1i IX) (mk_range_t_s IX (Zx (-3)) (Zx (-8))) = Zx (-5).
Proof. repeat split; vm_compute; reflexivity. Qed.

(* ... where the pre-repair expression .5f * (lower + upper) overflowed (binary32: +inf; int32: wraps to a negative value),
   although the midpoints 12.5 * 2^124 and 2050000000 are representable: fixed in /repo by 2d2c457 *)
Theorem center_sum_overflow_old_refuted :
  midpoint_old IX F32 (W 12) (W 13) = XP /\ x_lt (XF ((25 * 2 ^ 123)%Z # 1)) (XF FLT_MAX) = true /\
  midpoint_old IX I32 (Zx 2000000000) (Zx 2100000000) = Zx (-97483648).
Proof. repeat split; vm_compute; reflexivity. Qed.

(* known finding C05-center-int-bounds-above-INT_MAX-127: for int elements the midpoint is formed in binary32.  float(INT_MAX) rounds up
   to 2^31, .5f*2^31 + .5f*2^31 = 2^31, and converting 2^31 back to int is undefined in C++ (read here as the x86 indefinite integer
   INT_MIN, see Model.x_cast): the result leaves [lower, upper].  The same happens whenever the rounded sum is 2^31, i.e. exactly when
   upper >= INT_MAX-63 and lower >= INT_MAX-190; one step below ([INT_MAX-191, INT_MAX]) and on the INT_MIN side (float(INT_MIN) = -2^31
   is exact, the conversion is defined) the result is the midpoint within float rounding. *)
Theorem center_int_top_refuted :
  r_center (ops_1i IX) (mk_range_t_s IX (Zx 2147483647) (Zx 2147483647)) = Zx (-2147483648) /\
  r_center (ops_1i IX) (mk_range_t_s IX (Zx (2147483647 - 190)) (Zx (2147483647 - 63))) = Zx (-2147483648) /\
  r_center (ops_1i IX) (mk_range_t_s IX (Zx (2147483647 - 191)) (Zx 2147483647)) = Zx (2147483647 - 127) /\
  r_center (ops_1i IX) (mk_range_t_s IX (Zx (2147483647 - 100)) (Zx (2147483647 - 100))) = Zx (2147483647 - 127) /\
  r_center (ops_1i IX) (mk_range_t_s IX (Zx (-2147483648)) (Zx (-2147483648))) = Zx (-2147483648) /\
  r_center (ops_1i IX) (mk_range_t_s IX (Zx (-2147483648)) (Zx (-2147483648 + 200))) = Zx (-2147483648 + 128).
Proof. repeat split; vm_compute; reflexivity. Qed.
