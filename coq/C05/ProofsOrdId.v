(* C05 - order clauses, part 2: the default-constructed empty box is the identity of extend. *)
From Coq Require Import ZArith List Bool Lia Setoid Morphisms.
From Common Require Import CxxSem.
From C05.gen Require Import GenBox.
From C05 Require Import Interp Ops Spec OrdBase.
Import ListNotations.


Section Ord.
Variable o : ordsig.
Hypothesis L : ord_laws o.
Local Notation le_refl := (OrdBase.le_refl o L).
Local Notation lt_asym := (OrdBase.lt_asym o L).
Local Notation le_trans := (OrdBase.le_trans o L).
Local Notation le_antisym := (OrdBase.le_antisym o L).
Local Notation le_total := (OrdBase.le_total o L).
Local Notation lt_le := (OrdBase.lt_le o L).
Local Notation nlt_le := (OrdBase.nlt_le o).
Local Notation lt_nle := (OrdBase.lt_nle o).
Local Notation omin_cases := (OrdBase.omin_cases o L).
Local Notation omax_cases := (OrdBase.omax_cases o L).
Local Notation le_omin := (OrdBase.le_omin o L).
Local Notation omax_le := (OrdBase.omax_le o L).
Local Notation omin_le_l := (OrdBase.omin_le_l o L).
Local Notation omin_le_r := (OrdBase.omin_le_r o L).
Local Notation le_omax_l := (OrdBase.le_omax_l o L).
Local Notation le_omax_r := (OrdBase.le_omax_r o L).
Local Notation omin_top := (OrdBase.omin_top o L).
Local Notation omax_bot := (OrdBase.omax_bot o L).

(* ------------------------------------------------------------------ tactics *)
Ltac dv := repeat match goal with
  | v : vec2 _ |- _ => destruct v
  | v : vec3 _ |- _ => destruct v
  | v : vec3a _ |- _ => destruct v
  | v : vec4 _ |- _ => destruct v
  | v : range_t_s _ |- _ => destruct v
  | v : range_t_vec2 _ |- _ => destruct v
  | v : range_t_vec3 _ |- _ => destruct v
  | v : range_t_vec3a _ |- _ => destruct v
  | v : range_t_vec4 _ |- _ => destruct v
  end.
Ltac insts H := cbn in H; repeat (destruct H as [<- | H]); [.. | contradiction].
Ltac red_all := cbv -[omin omax ltb le top bot una between Forall3 in_range andb orb negb]; cbn [Forall3].
Ltac red_in H := cbv -[omin omax ltb le top bot una between Forall3 in_range andb orb negb] in H; cbn [Forall3] in H.
Ltac f2 := rewrite ?Forall2_cons_iff, ?Forall2_nil_iff, ?Forall_cons_iff', ?Forall_nil_iff'.
Ltac f2_in H := rewrite ?Forall2_cons_iff, ?Forall2_nil_iff, ?Forall_cons_iff', ?Forall_nil_iff' in H.
Ltac b2p := rewrite ?andb_true_iff, ?orb_true_iff, ?negb_true_iff, ?orb_false_iff, ?andb_false_iff, ?negb_false_iff.

Ltac dbox c := let cl := fresh "cl" in let cu := fresh "cu" in destruct c as [cl cu]; try destruct cl; try destruct cu; cbn.
Ltac hyps := repeat match goal with H : _ /\ _ |- _ => destruct H end.
Ltac fin := f2; rewrite ?le_omin, ?omax_le; repeat split; intros; hyps;
  auto using omin_le_l, omin_le_r, le_omax_l, le_omax_r, le_refl.
Ltac trans_fin := f2; repeat split; intros; hyps; f2; repeat split;
  solve [assumption | apply le_refl | eapply le_trans; eassumption].

(* the default-constructed empty box is the identity of extend (coordinates within [neg_inf, pos_inf]) *)
Ltac idfin := f2; intros; repeat (rewrite omin_top by tauto); repeat (rewrite omax_bot by tauto); reflexivity.

Theorem extend_empty_id_int : forall r, In r (int_insts (IO o)) -> forall b, box_in_range o r b ->
  r_extendb r (r_default r) b = b /\ r_extendb r (r_emptyty r) b = b /\ canonical_empty o r (r_default r).
Proof.
  intros r H. insts H; intros b; cbn in b; dv; red_all; intros [H1 H2]; revert H1 H2; unfold in_range; f2; intros; hyps;
    repeat (rewrite omin_top by assumption); repeat (rewrite omax_bot by assumption); auto.
Qed.

Theorem extend_empty_id_float : neg_top o -> forall r, In r (float_insts (IO o)) -> forall b, box_in_range o r b ->
  r_extendb r (r_default r) b = b /\ r_extendb r (r_emptyty r) b = b /\ canonical_empty o r (r_default r).
Proof.
  intros N r H. unfold neg_top in N.
  insts H; intros b; cbn in b; dv; red_all; rewrite ?N; intros [H1 H2]; revert H1 H2; unfold in_range; f2; intros; hyps;
    repeat (rewrite omin_top by assumption); repeat (rewrite omax_bot by assumption); auto.
Qed.

Theorem extend_empty_point_int : forall r, In r (int_insts (IO o)) -> forall p, Forall (in_range o) (comps r p) ->
  r_extendp r (r_default r) p = mkbox r p p.
Proof.
  intros r H. insts H; intros p; cbn in p; dv; red_all; unfold in_range; f2; intros; hyps;
    repeat (rewrite omin_top by assumption); repeat (rewrite omax_bot by assumption); auto.
Qed.

Theorem extend_empty_point_float : neg_top o -> forall r, In r (float_insts (IO o)) -> forall p, Forall (in_range o) (comps r p) ->
  r_extendp r (r_default r) p = mkbox r p p.
Proof.
  intros N r H. unfold neg_top in N.
  insts H; intros p; cbn in p; dv; red_all; rewrite ?N; unfold in_range; f2; intros; hyps;
    repeat (rewrite omin_top by assumption); repeat (rewrite omax_bot by assumption); auto.
Qed.

End Ord.
