(* C05 - ranges and boxes behave as closed axis-aligned sets.
   Every theorem is about the GENERATED definitions of gen/GenBox.v (regenerated from /repo on every run), reached through
   the instantiation dictionaries of Ops.v:  range_insts = range_t<int|float>, box_t<int|float,2|3|3A|4>;
   box_insts = the box_t ones (free functions), touch_insts = N in {2,3}.
   Order clauses: for ANY decidable total order [o] with [ord_laws o] (carrier, <, the values pos_inf/neg_inf convert to
   are arbitrary); instantiated by Z/int32 in the examples.  NaN is outside the hypothesis. *)
From Coq Require Import ZArith List Bool.
From Common Require Import CxxSem.
From C05.gen Require Import GenBox.
From Coq Require Import Reals.
From C05 Require Import Interp Ops Spec ProofsOrd ProofsOrdId ProofsOrdBox ProofsDef ProofsR.
Import ListNotations.

(* contains(p) is true exactly when lower <= p <= upper in every component *)
Theorem contains_iff : forall o r, In r (range_insts (IO o)) -> forall b p,
  r_contains r b p = true <-> pt_in o r b p.
Proof. exact ProofsOrd.contains_iff. Qed.
Print Assumptions contains_iff.

Theorem isempty_iff : forall o r, In r (range_insts (IO o)) -> forall b,
  r_isempty r b = true <-> ~ nonempty o r b.
Proof. exact ProofsOrd.isempty_iff. Qed.
Print Assumptions isempty_iff.

(* extend: least upper bound in the order of bounds - for ALL boxes *)
Theorem extend_point_least : forall o, ord_laws o -> forall r, In r (range_insts (IO o)) -> forall b p,
  let e := r_extendp r b p in
  encloses o r e b /\ pt_in o r e p /\ forall c, encloses o r c b -> pt_in o r c p -> encloses o r c e.
Proof. exact ProofsOrd.extend_point_least. Qed.
Print Assumptions extend_point_least.

Theorem extend_box_least : forall o, ord_laws o -> forall r, In r (range_insts (IO o)) -> forall a b,
  let e := r_extendb r a b in
  encloses o r e a /\ encloses o r e b /\ forall c, encloses o r c a -> encloses o r c b -> encloses o r c e.
Proof. exact ProofsOrd.extend_box_least. Qed.
Print Assumptions extend_box_least.

(* ... which is the smallest box as a SET of points when the operands are non-empty (an inverted old box is refuted below) *)
Theorem extend_point_smallest : forall o, ord_laws o -> forall r, In r (range_insts (IO o)) -> forall b p, nonempty o r b ->
  let e := r_extendp r b p in
  subset o r b e /\ pt_in o r e p /\ forall c, subset o r b c -> pt_in o r c p -> subset o r e c.
Proof. exact ProofsOrd.extend_point_smallest. Qed.
Print Assumptions extend_point_smallest.

Theorem extend_box_smallest : forall o, ord_laws o -> forall r, In r (range_insts (IO o)) -> forall a b,
  nonempty o r a -> nonempty o r b ->
  let e := r_extendb r a b in
  subset o r a e /\ subset o r b e /\ forall c, subset o r a c -> subset o r b c -> subset o r e c.
Proof. exact ProofsOrd.extend_box_smallest. Qed.
Print Assumptions extend_box_smallest.

(* the default-constructed empty box [pos_inf, neg_inf] is the identity of extend *)
Theorem extend_empty_id_int : forall o, ord_laws o -> forall r, In r (int_insts (IO o)) -> forall b, box_in_range o r b ->
  r_extendb r (r_default r) b = b /\ r_extendb r (r_emptyty r) b = b /\ canonical_empty o r (r_default r).
Proof. exact ProofsOrdId.extend_empty_id_int. Qed.
Print Assumptions extend_empty_id_int.

Theorem extend_empty_id_float : forall o, ord_laws o -> neg_top o -> forall r, In r (float_insts (IO o)) -> forall b, box_in_range o r b ->
  r_extendb r (r_default r) b = b /\ r_extendb r (r_emptyty r) b = b /\ canonical_empty o r (r_default r).
Proof. exact ProofsOrdId.extend_empty_id_float. Qed.
Print Assumptions extend_empty_id_float.

Theorem extend_empty_point_int : forall o, ord_laws o -> forall r, In r (int_insts (IO o)) -> forall p,
  Forall (in_range o) (comps r p) -> r_extendp r (r_default r) p = mkbox r p p.
Proof. exact ProofsOrdId.extend_empty_point_int. Qed.
Print Assumptions extend_empty_point_int.

Theorem extend_empty_point_float : forall o, ord_laws o -> neg_top o -> forall r, In r (float_insts (IO o)) -> forall p,
  Forall (in_range o) (comps r p) -> r_extendp r (r_default r) p = mkbox r p p.
Proof. exact ProofsOrdId.extend_empty_point_float. Qed.
Print Assumptions extend_empty_point_float.

(* intersectionOf contains exactly the common points: ALL boxes, empty and inverted included *)
Theorem intersection_spec : forall o, ord_laws o -> forall r, In r (box_insts (IO o)) -> forall a b p,
  r_contains r (b_inter r a b) p = true <-> r_contains r a p = true /\ r_contains r b p = true.
Proof. exact ProofsOrd.intersection_spec. Qed.
Print Assumptions intersection_spec.

Theorem disjoint_iff_not_touching : forall o r, In r (touch_insts (IO o)) -> forall a b,
  t_touching r a b = negb (b_disjoint r a b).
Proof. exact ProofsOrdBox.disjoint_iff_not_touching. Qed.
Print Assumptions disjoint_iff_not_touching.

(* the intersection is empty exactly when disjoint() holds: non-empty operands ... *)
Theorem intersection_empty_iff_disjoint : forall o, ord_laws o -> forall r, In r (box_insts (IO o)) -> forall a b,
  nonempty o r a -> nonempty o r b ->
  (r_isempty r (b_inter r a b) = true <-> b_disjoint r a b = true).
Proof. exact ProofsOrdBox.intersection_empty_iff_disjoint. Qed.
Print Assumptions intersection_empty_iff_disjoint.

(* ... or the canonical empty box against any box that has a finite face *)
Theorem canonical_empty_disjoint : forall o, ord_laws o -> ltb o (bot o) (top o) = true -> forall r, In r (box_insts (IO o)) -> forall a b,
  canonical_empty o r a -> box_in_range o r b ->
  r_isempty r (b_inter r a b) = true /\
  (b_disjoint r a b = true <-> Exists (fun x => ltb o (bot o) x = true) (lows o r b) \/ Exists (fun x => ltb o x (top o) = true) (highs o r b)).
Proof. exact ProofsOrdBox.canonical_empty_disjoint. Qed.
Print Assumptions canonical_empty_disjoint.

Local Open Scope Z_scope.
(* known finding C05-disjoint-inverted-empty-operand: outside those hypotheses the clause fails *)
Theorem disjoint_inverted_refuted :
  let a := b2 5 5 3 3 in let b := b2 0 0 10 10 in
  r_isempty (bops_2i (IO OZ32)) (b_inter (bops_2i (IO OZ32)) a b) = true /\
  (forall p, r_contains (bops_2i (IO OZ32)) a p = false) /\
  b_disjoint (bops_2i (IO OZ32)) a b = false /\ t_touching (tops_2i (IO OZ32)) a b = true.
Proof. exact ProofsDef.disjoint_inverted_refuted. Qed.
Print Assumptions disjoint_inverted_refuted.

Theorem disjoint_of_intersection_refuted :
  let i := b_inter (bops_2i (IO OZ32)) (b2 0 0 1 1) (b2 2 2 3 3) in
  r_isempty (bops_2i (IO OZ32)) i = true /\ b_disjoint (bops_2i (IO OZ32)) i (b2 0 0 10 10) = false.
Proof. exact ProofsDef.disjoint_of_intersection_refuted. Qed.
Print Assumptions disjoint_of_intersection_refuted.

Theorem extend_inverted_refuted :
  r_extendp (ops_1i (IO OZ32)) (mk_range_t_s (IO OZ32) 5 3) 0 = mk_range_t_s (IO OZ32) 0 3.
Proof. exact ProofsDef.extend_inverted_refuted. Qed.
Print Assumptions extend_inverted_refuted.

(* clamp returns the nearest contained point *)
Theorem clamp_in : forall o, ord_laws o -> forall r, In r (range_insts (IO o)) -> forall b p,
  nonempty o r b -> pt_in o r b (r_clamp r b p).
Proof. exact ProofsOrdBox.clamp_in. Qed.
Print Assumptions clamp_in.

Theorem clamp_id : forall o, ord_laws o -> forall r, In r (range_insts (IO o)) -> forall b p,
  pt_in o r b p -> r_clamp r b p = p.
Proof. exact ProofsOrdBox.clamp_id. Qed.
Print Assumptions clamp_id.

(* nearest, order form: in every component clamp(p) lies between p and q, for every q of the box
   (hence |clamp p - p|_i <= |q - p|_i in every ordered group) *)
Theorem clamp_nearest : forall o, ord_laws o -> forall r, In r (range_insts (IO o)) -> forall b p q,
  nonempty o r b -> pt_in o r b q ->
  Forall3 (between o) (comps r p) (comps r (r_clamp r b p)) (comps r q).
Proof. exact ProofsOrdBox.clamp_between. Qed.
Print Assumptions clamp_nearest.

(* size, center, area, volume, scaling, translation, comparison: definitional equalities for EVERY numeric interpretation *)
Theorem size_def : forall I r, In r (range_insts I) -> forall b, comps r (r_size r b) = sizes I r b.
Proof. exact ProofsDef.size_def. Qed.
Print Assumptions size_def.

Theorem center_def : forall I r, In r (range_insts I) -> forall b,
  comps r (r_center r b) = map (half I (ety r)) (map2 (bop I Add (ety r)) (comps r (lower r b)) (comps r (upper r b))).
Proof. exact ProofsDef.center_def. Qed.
Print Assumptions center_def.

Theorem box_center_def : forall I r, In r (box_insts I) -> forall b, b_center r b = r_center r b.
Proof. exact ProofsDef.box_center_def. Qed.
Print Assumptions box_center_def.

Theorem scale_def : forall I r, In r (arith_insts I) -> forall b s,
  let e := a_scale_r r b s in
  comps r (lower r e) = map2 (bop I Mul (ety r)) (comps r (lower r b)) (comps r s) /\
  comps r (upper r e) = map2 (bop I Mul (ety r)) (comps r (upper r b)) (comps r s) /\
  a_scale_l r s b = e.
Proof. exact ProofsDef.scale_def. Qed.
Print Assumptions scale_def.

Theorem translate_def : forall I r, In r (arith_insts I) -> forall b t,
  let e := a_trans_r r b t in
  comps r (lower r e) = map2 (bop I Add (ety r)) (comps r (lower r b)) (comps r t) /\
  comps r (upper r e) = map2 (bop I Add (ety r)) (comps r (upper r b)) (comps r t) /\
  a_trans_l r t b = e.
Proof. exact ProofsDef.translate_def. Qed.
Print Assumptions translate_def.

Theorem eq_def : forall I r, In r (arith_insts I) -> forall a b,
  a_eq r a b = (forallb (fun b => b) (map2 (cmp I Eq (ety r)) (comps r (lower r a)) (comps r (lower r b))) &&
                forallb (fun b => b) (map2 (cmp I Eq (ety r)) (comps r (upper r a)) (comps r (upper r b)))) /\
  a_ne r a b = negb (a_eq r a b).
Proof. exact ProofsDef.eq_def. Qed.
Print Assumptions eq_def.

Theorem area2_def : forall I lx ly ux uy,
  area__range_t_v2i I (mk_range_t_vec2 I (mk_vec2 I lx ly) (mk_vec2 I ux uy)) = mul I I32 (sub I I32 ux lx) (sub I I32 uy ly) /\
  area__range_t_v2f I (mk_range_t_vec2 I (mk_vec2 I lx ly) (mk_vec2 I ux uy)) = mul I F32 (sub I F32 ux lx) (sub I F32 uy ly).
Proof. exact ProofsDef.area2_def. Qed.
Print Assumptions area2_def.

Theorem area3_def : forall I lx ly lz ux uy uz,
  area__range_t_v3i I (mk_range_t_vec3 I (mk_vec3 I lx ly lz) (mk_vec3 I ux uy uz)) = area3_spec I I32 lx ly lz ux uy uz /\
  area__range_t_v3f I (mk_range_t_vec3 I (mk_vec3 I lx ly lz) (mk_vec3 I ux uy uz)) = area3_spec I F32 lx ly lz ux uy uz /\
  area__range_t_v3af I (mk_range_t_vec3a I (mk_vec3a I lx ly lz) (mk_vec3a I ux uy uz)) = area3_spec I F32 lx ly lz ux uy uz.
Proof. exact ProofsDef.area3_def. Qed.
Print Assumptions area3_def.

Theorem volume_def : forall I lx ly lz ux uy uz,
  volume__range_t_v3i I (mk_range_t_vec3 I (mk_vec3 I lx ly lz) (mk_vec3 I ux uy uz)) = volume_spec I I32 lx ly lz ux uy uz /\
  volume__range_t_v3f I (mk_range_t_vec3 I (mk_vec3 I lx ly lz) (mk_vec3 I ux uy uz)) = volume_spec I F32 lx ly lz ux uy uz /\
  volume__range_t_v3af I (mk_range_t_vec3a I (mk_vec3a I lx ly lz) (mk_vec3a I ux uy uz)) = volume_spec I F32 lx ly lz ux uy uz.
Proof. exact ProofsDef.volume_def. Qed.
Print Assumptions volume_def.

(* ------------------------------------------------------------------ non-vacuity: the int32 order satisfies the laws *)
Theorem oz32_laws : ord_laws OZ32.
Proof. exact ProofsDef.oz32_laws. Qed.
Theorem ozsym_laws : ord_laws OZsym /\ neg_top OZsym.
Proof. exact ProofsDef.ozsym_laws. Qed.

Local Open Scope Z_scope.
Example ex_contains_face : r_contains (ops_2i (IO OZ32)) (b2 0 1 4 5) (mk_vec2 (IO OZ32) 4 1) = true.
Proof. reflexivity. Qed.
Example ex_contains_outside : r_contains (ops_2i (IO OZ32)) (b2 0 1 4 5) (mk_vec2 (IO OZ32) 5 1) = false.
Proof. reflexivity. Qed.
Example ex_empty_id : r_extendb (ops_2i (IO OZ32)) (r_default (ops_2i (IO OZ32))) (b2 0 1 4 5) = b2 0 1 4 5.
Proof. reflexivity. Qed.
Example ex_default_is_int_limits : r_default (ops_2i (IO OZ32)) = b2 2147483647 2147483647 (-2147483648) (-2147483648).
Proof. reflexivity. Qed.
Example ex_intersection_touching : b_inter (bops_2i (IO OZ32)) (b2 0 0 2 2) (b2 2 1 3 3) = b2 2 1 2 2 /\
  b_disjoint (bops_2i (IO OZ32)) (b2 0 0 2 2) (b2 2 1 3 3) = false /\ b_disjoint (bops_2i (IO OZ32)) (b2 0 0 2 2) (b2 3 1 4 3) = true.
Proof. repeat split; reflexivity. Qed.
Example ex_clamp : r_clamp (ops_2i (IO OZ32)) (b2 0 1 4 5) (mk_vec2 (IO OZ32) 7 (-2)) = mk_vec2 (IO OZ32) 4 1.
Proof. reflexivity. Qed.

(* ------------------------------------------------------------------ ideal reading over R (Coq Reals axioms) *)
Local Close Scope Z_scope.
Local Open Scope R_scope.

(* xfmBounds of a box contains the image of every point of the box - whatever value M stands for infinity *)
Theorem xfmBounds_contains : forall M eps m b p,
  let I := IO (OR M eps) in
  range_t_v3f_contains__v3f I b p = true ->
  range_t_v3f_contains__v3f I (xfmBounds__AffineSpaceT_LinearSpace3_v3f_v3f_range_t_v3f I m b)
                              (xfmPoint__AffineSpaceT_LinearSpace3_v3f_v3f_v3f I m p) = true.
Proof. exact ProofsR.xfmBounds_contains. Qed.
Print Assumptions xfmBounds_contains.

(* intersectRayBox covers exactly the ray parameters whose points lie inside the box: non-empty box, every |dir_i| >= FLT_MIN
   (then rcp_safe is the exact reciprocal).  Empty boxes: known finding C05-intersectRayBox-empty-box; dir_i = 0: compared
   numerically by the harness (rcp_safe reads it as +-FLT_MIN). *)
Theorem slab_exact_3 : forall M eps org dir box tr t,
  let I := IO (OR M eps) in
  0 < eps -> Forall (fun d => eps <= Rabs d) (comps (ops_3f I) dir) -> nonempty (OR M eps) (ops_3f I) box ->
  let r := intersectRayBox__v3f_v3f_range_t_v3f_range_t_f I org dir box tr in
  (range_t_s_lower r <= t /\ t <= range_t_s_upper r) <->
  ((range_t_s_lower tr <= t /\ t <= range_t_s_upper tr) /\ range_t_v3f_contains__v3f I box (ray_point3 M eps org dir t) = true).
Proof. exact ProofsR.slab_exact_3. Qed.
Print Assumptions slab_exact_3.

Theorem slab_exact_2 : forall M eps org dir box tr t,
  let I := IO (OR M eps) in
  0 < eps -> Forall (fun d => eps <= Rabs d) (comps (ops_2f I) dir) -> nonempty (OR M eps) (ops_2f I) box ->
  let r := intersectRayBox__v2f_v2f_range_t_v2f_range_t_f I org dir box tr in
  (range_t_s_lower r <= t /\ t <= range_t_s_upper r) <->
  ((range_t_s_lower tr <= t /\ t <= range_t_s_upper tr) /\ range_t_v2f_contains__v2f I box (ray_point2 M eps org dir t) = true).
Proof. exact ProofsR.slab_exact_2. Qed.
Print Assumptions slab_exact_2.

(* the reals are an instance of the order laws, so every order theorem above also reads over R *)
Theorem or_laws : forall M eps, ord_laws (OR M eps) /\ neg_top (OR M eps).
Proof. exact ProofsR.or_laws_full. Qed.
