(* C05 - ranges and boxes behave as closed axis-aligned sets: constructors (two bounds, single value, ZeroTy, OneTy, EmptyTy =
   default, converting constructor) match their definitions in every numeric reading; member order lower, upper. *)
From Coq Require Import ZArith List Bool.
From Common Require Import CxxSem.
From C05.gen Require Import GenBox.
From C05 Require Import Interp Ops Spec ProofsCtor.
Import ListNotations.

Theorem ctor_defs : forall I, forall r, In r (range_insts I) ->
  (forall a b, comps r (lower r (mkbox r a b)) = comps r a /\ comps r (upper r (mkbox r a b)) = comps r b) /\
  (forall p, comps r (lower r (r_single r p)) = comps r p /\ comps r (upper r (r_single r p)) = comps r p) /\
  comps r (lower r (r_zero r)) = repeat (lit01 I (ety r) 0) (dim r) /\ comps r (upper r (r_zero r)) = repeat (lit01 I (ety r) 0) (dim r) /\
  comps r (lower r (r_one r)) = repeat (lit01 I (ety r) 0) (dim r) /\ comps r (upper r (r_one r)) = repeat (lit01 I (ety r) 1) (dim r) /\
  r_emptyty r = r_default r /\ length (comps r (lower r (r_default r))) = dim r.
Proof. exact ProofsCtor.ctor_defs. Qed.
Print Assumptions ctor_defs.

Theorem convert_defs : forall I,
  (forall b, let c := range_t_f_mk__range_t_i I b in
     range_t_s_lower c = cast I I32 F32 (range_t_s_lower b) /\ range_t_s_upper c = cast I I32 F32 (range_t_s_upper b)) /\
  (forall b, let c := range_t_i_mk__range_t_f I b in
     range_t_s_lower c = cast I F32 I32 (range_t_s_lower b) /\ range_t_s_upper c = cast I F32 I32 (range_t_s_upper b)) /\
  (forall b, let c := range_t_v2f_mk__range_t_v2i I b in
     lows_ (ops_2f I) c = cvt I I32 F32 (lows_ (ops_2i I) b) /\ highs_ (ops_2f I) c = cvt I I32 F32 (highs_ (ops_2i I) b)) /\
  (forall b, let c := range_t_v2i_mk__range_t_v2f I b in
     lows_ (ops_2i I) c = cvt I F32 I32 (lows_ (ops_2f I) b) /\ highs_ (ops_2i I) c = cvt I F32 I32 (highs_ (ops_2f I) b)) /\
  (forall b, let c := range_t_v3f_mk__range_t_v3i I b in
     lows_ (ops_3f I) c = cvt I I32 F32 (lows_ (ops_3i I) b) /\ highs_ (ops_3f I) c = cvt I I32 F32 (highs_ (ops_3i I) b)) /\
  (forall b, let c := range_t_v3i_mk__range_t_v3f I b in
     lows_ (ops_3i I) c = cvt I F32 I32 (lows_ (ops_3f I) b) /\ highs_ (ops_3i I) c = cvt I F32 I32 (highs_ (ops_3f I) b)) /\
  (forall b, let c := range_t_v3af_mk__range_t_v3f I b in
     lows_ (ops_3af I) c = lows_ (ops_3f I) b /\ highs_ (ops_3af I) c = highs_ (ops_3f I) b) /\
  (forall b, let c := range_t_v4f_mk__range_t_v4i I b in
     lows_ (ops_4f I) c = cvt I I32 F32 (lows_ (ops_4i I) b) /\ highs_ (ops_4f I) c = cvt I I32 F32 (highs_ (ops_4i I) b)) /\
  (forall b, let c := range_t_v4i_mk__range_t_v4f I b in
     lows_ (ops_4i I) c = cvt I F32 I32 (lows_ (ops_4f I) b) /\ highs_ (ops_4i I) c = cvt I F32 I32 (highs_ (ops_4f I) b)).
Proof. exact ProofsCtor.convert_defs. Qed.
Print Assumptions convert_defs.

Theorem field_order : forall I, forall (a b : S I) (va vb : vec3 I),
  range_t_s_lower (mk_range_t_s I a b) = a /\ range_t_s_upper (mk_range_t_s I a b) = b /\
  range_t_vec3_lower (mk_range_t_vec3 I va vb) = va /\ range_t_vec3_upper (mk_range_t_vec3 I va vb) = vb.
Proof. exact ProofsCtor.field_order. Qed.
Print Assumptions field_order.

