(* C05 - specification vocabulary used by the theorem statements (definitions only). *)
From Coq Require Import ZArith List Bool.
From Common Require Import CxxSem.
From C05.gen Require Import GenBox.
From C05 Require Import Interp Ops.
Import ListNotations.

Section Spec.
Variable o : ordsig.
Notation I := (IO o).

Definition lows (r : rangeops I) (b : boxT r) : list (T o) := comps r (lower r b).
Definition highs (r : rangeops I) (b : boxT r) : list (T o) := comps r (upper r b).

(* lower_i <= p_i <= upper_i for every component i (all lists have length dim r) *)
Definition inbox (lo hi p : list (T o)) : Prop := Forall2 (le o) lo p /\ Forall2 (le o) p hi.
Definition pt_in (r : rangeops I) (b : boxT r) (p : vecT r) : Prop := inbox (lows r b) (highs r b) (comps r p).

(* boxes as sets of points *)
Definition subset (r : rangeops I) (a c : boxT r) : Prop := forall p, pt_in r a p -> pt_in r c p.
(* boxes ordered by their bounds: c.lower <= a.lower and a.upper <= c.upper in every component *)
Definition encloses (r : rangeops I) (c a : boxT r) : Prop :=
  Forall2 (le o) (lows r c) (lows r a) /\ Forall2 (le o) (highs r a) (highs r c).

Definition nonempty (r : rangeops I) (b : boxT r) : Prop := Forall2 (le o) (lows r b) (highs r b).
Definition canonical_empty (r : rangeops I) (b : boxT r) : Prop :=
  lows r b = repeat (top o) (dim r) /\ highs r b = repeat (bot o) (dim r).
Definition in_range (x : T o) : Prop := le o (bot o) x /\ le o x (top o).
Definition box_in_range (r : rangeops I) (b : boxT r) : Prop := Forall in_range (lows r b) /\ Forall in_range (highs r b).

(* c lies between p and q (in either direction) *)
Definition between (p c q : T o) : Prop := (le o p c /\ le o c q) \/ (le o q c /\ le o c p).
Fixpoint Forall3 {A} (R : A -> A -> A -> Prop) (a b c : list A) : Prop :=
  match a, b, c with
  | [], [], [] => True
  | x :: a', y :: b', z :: c' => R x y z /\ Forall3 R a' b' c'
  | _, _, _ => False
  end.
End Spec.
Arguments Forall3 {A} R a b c.

(* component-wise lifting, for the definitional equalities (any interpretation) *)
Fixpoint map2 {A B C} (f : A -> B -> C) (a : list A) (b : list B) : list C :=
  match a, b with x :: a', y :: b' => f x y :: map2 f a' b' | _, _ => [] end.

Section Defs.
Variable I : interp.
(* .5f * l + .5f * u   for float elements;   int(.5f * float(l) + .5f * float(u))   for int elements
   (the repaired center(): halves before adding, so lower + upper is never formed) *)
Definition midpoint (t : ctype) (l u : S I) : S I :=
  let h := flit I F32 1 2 in
  if isfloat t then bop I Add F32 (bop I Mul F32 h l) (bop I Mul F32 h u)
  else cast I F32 t (bop I Add F32 (bop I Mul F32 h (cast I t F32 l)) (bop I Mul F32 h (cast I t F32 u))).
(* the pre-repair expression .5f * (l + u), kept for the refutation *)
Definition midpoint_old (t : ctype) (l u : S I) : S I :=
  let h := flit I F32 1 2 in
  if isfloat t then bop I Mul F32 h (bop I Add F32 l u)
  else cast I F32 t (bop I Mul F32 h (cast I t F32 (bop I Add t l u))).
(* 2.f * x *)
Definition twice (t : ctype) (x : S I) : S I :=
  if isfloat t then bop I Mul F32 (flit I F32 2 1) x
  else cast I F32 t (bop I Mul F32 (flit I F32 2 1) (cast I t F32 x)).
Definition lows_ (r : rangeops I) (b : boxT r) : list (S I) := comps r (lower r b).
Definition highs_ (r : rangeops I) (b : boxT r) : list (S I) := comps r (upper r b).
Definition sizes (r : rangeops I) (b : boxT r) : list (S I) :=
  map2 (bop I Sub (ety r)) (comps r (upper r b)) (comps r (lower r b)).
End Defs.
Arguments lows_ {I}.
Arguments highs_ {I}.
