(* C05 - the reals as an instance of the order signature (Coq Reals axioms), with the basic facts used by ProofsR / ProofsCenter. *)
From Coq Require Import Reals Lra Psatz ZArith List Bool.
From Common Require Import CxxSem.
From C05 Require Import Interp OrdBase.
Import ListNotations.
Local Open Scope R_scope.

Definition rltb (a b : R) : bool := if Rlt_dec a b then true else false.
Definition r_bop (o : binop) (a b : R) : R :=
  match o with Add => a + b | Sub => a - b | Mul => a * b | Div => a / b | _ => 0 end.
(* M = the value given to numeric_limits<float>::infinity(), eps = numeric_limits<float>::min(): both arbitrary *)
Definition OR (M eps : R) : ordsig := {|
  T := R; ltb := rltb; top := M; bot := - M; arith := r_bop;
  una := fun u a => match u with Neg => - a | _ => a end;
  lit := fun n d => IZR n / IZR d; absf := Rabs; tiny := eps |}.

Section RR.
Variables M eps : R.
Notation o := (OR M eps).
Notation I := (IO (OR M eps)).

Lemma or_laws : ord_laws o.
Proof.
  split; cbn; unfold rltb.
  - intros a. destruct (Rlt_dec a a); auto. lra.
  - intros a b c. destruct (Rlt_dec a b), (Rlt_dec b c), (Rlt_dec a c); auto; try discriminate. lra.
  - intros a b. destruct (Rlt_dec a b), (Rlt_dec b a); try discriminate. intros. lra.
Qed.

Lemma le_R a b : le o a b <-> a <= b.
Proof. unfold le; cbn; unfold rltb. destruct (Rlt_dec b a); split; intros; auto; try discriminate; lra. Qed.

Lemma omin_lb a b : omin o a b <= a /\ omin o a b <= b.
Proof. split; apply le_R; [apply omin_le_l | apply omin_le_r]; apply or_laws. Qed.
Lemma omax_ub a b : a <= omax o a b /\ b <= omax o a b.
Proof. split; apply le_R; [apply le_omax_l | apply le_omax_r]; apply or_laws. Qed.

End RR.

Lemma or_laws_full M eps : ord_laws (OR M eps) /\ neg_top (OR M eps).
Proof. split; [apply or_laws | reflexivity]. Qed.
