(* C05 - proofs of the order-theoretic clauses for every instantiation dictionary of Ops.v (generated code read through IO o). *)
From Coq Require Import ZArith List Bool Lia Setoid Morphisms.
From Common Require Import CxxSem.
From C05.gen Require Import GenBox.
From C05 Require Import Interp Ops Spec.
Import ListNotations.

Lemma Forall2_cons_iff {A B} (R : A -> B -> Prop) x y l l' :
  Forall2 R (x :: l) (y :: l') <-> R x y /\ Forall2 R l l'.
Proof. split; intro H. - inversion H; subst; auto. - destruct H; constructor; auto. Qed.
Lemma Forall2_nil_iff {A B} (R : A -> B -> Prop) : Forall2 R [] [] <-> True.
Proof. split; auto. Qed.
Lemma Forall_cons_iff' {A} (P : A -> Prop) x l : Forall P (x :: l) <-> P x /\ Forall P l.
Proof. split; intro H. - inversion H; subst; auto. - destruct H; constructor; auto. Qed.
Lemma Forall_nil_iff' {A} (P : A -> Prop) : Forall P [] <-> True.
Proof. split; auto. Qed.

Section Ord.
Variable o : ordsig.
Hypothesis L : ord_laws o.
Notation lt' := (ltb o).

Lemma le_refl a : le o a a.
Proof. apply (lt_irrefl o L). Qed.
Lemma lt_asym a b : lt' a b = true -> lt' b a = false.
Proof.
  intro H. destruct (lt' b a) eqn:E; auto.
  pose proof (lt_trans o L _ _ _ H E) as F. rewrite (lt_irrefl o L) in F. discriminate.
Qed.
Lemma le_trans a b c : le o a b -> le o b c -> le o a c.
Proof.
  unfold le. intros H1 H2. destruct (lt' c a) eqn:E; auto.
  destruct (lt' a b) eqn:F.
  - pose proof (lt_trans o L _ _ _ E F) as G. congruence.
  - assert (a = b) by (apply (lt_total o L); auto). subst. congruence.
Qed.
Lemma le_antisym a b : le o a b -> le o b a -> a = b.
Proof. unfold le. intros. apply (lt_total o L); auto. Qed.
Lemma le_total a b : le o a b \/ le o b a.
Proof. unfold le. destruct (lt' b a) eqn:E; auto. right. apply lt_asym; auto. Qed.
Lemma lt_le a b : lt' a b = true -> le o a b.
Proof. apply lt_asym. Qed.
Lemma nlt_le a b : lt' a b = false <-> le o b a.
Proof. reflexivity. Qed.
Lemma lt_nle a b : lt' a b = true <-> ~ le o b a.
Proof.
  unfold le. destruct (lt' a b); split; intro H.
  - discriminate.
  - reflexivity.
  - discriminate.
  - exfalso; apply H; reflexivity.
Qed.

Lemma omin_cases a b : (omin o a b = a /\ le o a b) \/ (omin o a b = b /\ le o b a).
Proof. unfold omin. destruct (lt' b a) eqn:E; [right | left]; split; auto. apply lt_le; auto. Qed.
Lemma omax_cases a b : (omax o a b = a /\ le o b a) \/ (omax o a b = b /\ le o a b).
Proof. unfold omax. destruct (lt' a b) eqn:E; [right | left]; split; auto. apply lt_le; auto. Qed.

Lemma le_omin p a b : le o p (omin o a b) <-> le o p a /\ le o p b.
Proof.
  destruct (omin_cases a b) as [[-> H] | [-> H]]; split; intros; try tauto.
  - split; auto. eapply le_trans; eauto.
  - split; auto. eapply le_trans; eauto.
Qed.
Lemma omax_le a b p : le o (omax o a b) p <-> le o a p /\ le o b p.
Proof.
  destruct (omax_cases a b) as [[-> H] | [-> H]]; split; intros; try tauto.
  - split; auto. eapply le_trans; eauto.
  - split; auto. eapply le_trans; eauto.
Qed.
Lemma omin_le_l a b : le o (omin o a b) a.
Proof. destruct (omin_cases a b) as [[-> H] | [-> H]]; auto using le_refl. Qed.
Lemma omin_le_r a b : le o (omin o a b) b.
Proof. destruct (omin_cases a b) as [[-> H] | [-> H]]; auto using le_refl. Qed.
Lemma le_omax_l a b : le o a (omax o a b).
Proof. destruct (omax_cases a b) as [[-> H] | [-> H]]; auto using le_refl. Qed.
Lemma le_omax_r a b : le o b (omax o a b).
Proof. destruct (omax_cases a b) as [[-> H] | [-> H]]; auto using le_refl. Qed.
Lemma omin_top x : le o x (top o) -> omin o (top o) x = x.
Proof. intro H. destruct (omin_cases (top o) x) as [[E H'] | [E _]]; rewrite E; auto. apply le_antisym; auto. Qed.
Lemma omax_bot x : le o (bot o) x -> omax o (bot o) x = x.
Proof. intro H. destruct (omax_cases (bot o) x) as [[E H'] | [E _]]; rewrite E; auto. apply le_antisym; auto. Qed.

(* ------------------------------------------------------------------ tactics *)
Ltac dv := repeat match goal with
  | v : vec2 _ |- _ => destruct v
  | v : vec3 _ |- _ => destruct v
  | v : vec3a _ |- _ => destruct v
  | v : vec4 _ |- _ => destruct v
  | v : range_t_s _ |- _ => destruct v
  | v : range_t_vec2 _ |- _ => destruct v
  | v : range_t_vec3 _ |- _ => destruct v
  | v : range_t_vec3a _ |- _ => destruct v
  | v : range_t_vec4 _ |- _ => destruct v
  end.
Ltac insts H := cbn in H; repeat (destruct H as [<- | H]); [.. | contradiction].
Ltac red_all := cbv -[omin omax ltb le top bot una between Forall3 in_range andb orb negb]; cbn [Forall3].
Ltac red_in H := cbv -[omin omax ltb le top bot una between Forall3 in_range andb orb negb] in H; cbn [Forall3] in H.
Ltac f2 := rewrite ?Forall2_cons_iff, ?Forall2_nil_iff, ?Forall_cons_iff', ?Forall_nil_iff'.
Ltac f2_in H := rewrite ?Forall2_cons_iff, ?Forall2_nil_iff, ?Forall_cons_iff', ?Forall_nil_iff' in H.
Ltac b2p := rewrite ?andb_true_iff, ?orb_true_iff, ?negb_true_iff, ?orb_false_iff, ?andb_false_iff, ?negb_false_iff.

Theorem contains_iff : forall r, In r (range_insts (IO o)) -> forall b p,
  r_contains r b p = true <-> pt_in o r b p.
Proof.
  intros r H. insts H; intros b p; cbn in b, p; dv; red_all; f2; b2p; unfold le; tauto.
Qed.

Theorem isempty_iff : forall r, In r (range_insts (IO o)) -> forall b,
  r_isempty r b = true <-> ~ nonempty o r b.
Proof.
  intros r H. insts H; intros b; cbn in b; dv; red_all; f2; b2p; unfold le;
    repeat match goal with |- context [ltb o ?a ?b] => destruct (ltb o a b) end; intuition congruence.
Qed.

Ltac dbox c := let cl := fresh "cl" in let cu := fresh "cu" in destruct c as [cl cu]; try destruct cl; try destruct cu; cbn.
Ltac hyps := repeat match goal with H : _ /\ _ |- _ => destruct H end.
Ltac fin := f2; rewrite ?le_omin, ?omax_le; repeat split; intros; hyps;
  auto using omin_le_l, omin_le_r, le_omax_l, le_omax_r, le_refl.
Ltac trans_fin := f2; repeat split; intros; hyps; f2; repeat split;
  solve [assumption | apply le_refl | eapply le_trans; eassumption].

(* extend(point): bounds form (all boxes) *)
Theorem extend_point_least : forall r, In r (range_insts (IO o)) -> forall b p,
  let e := r_extendp r b p in
  encloses o r e b /\ pt_in o r e p /\
  forall c, encloses o r c b -> pt_in o r c p -> encloses o r c e.
Proof.
  intros r H. insts H; intros b p; cbn in b, p; dv; (split; [| split; [| intros c Hc Hp; revert Hc Hp; cbn in c; dv]]);
    red_all; fin.
Qed.

Theorem extend_box_least : forall r, In r (range_insts (IO o)) -> forall a b,
  let e := r_extendb r a b in
  encloses o r e a /\ encloses o r e b /\
  forall c, encloses o r c a -> encloses o r c b -> encloses o r c e.
Proof.
  intros r H. insts H; intros a b; cbn in a, b; dv; (split; [| split; [| intros c Hc Hp; revert Hc Hp; cbn in c; dv]]);
    red_all; fin.
Qed.

(* the bounds order is the inclusion order of the point sets (for a non-empty inner box) *)
Theorem encloses_subset : forall r, In r (range_insts (IO o)) -> forall a c,
  encloses o r c a -> subset o r a c.
Proof.
  intros r H. insts H; intros a c He p; revert He; cbn in a, c, p; dv; red_all; f2; intros; hyps; repeat split;
    solve [eapply le_trans; eassumption].
Qed.

Theorem subset_encloses : forall r, In r (range_insts (IO o)) -> forall a c,
  nonempty o r a -> subset o r a c -> encloses o r c a.
Proof.
  intros r H. insts H; intros a c Hne Hs; pose proof (Hs (lower _ a)) as H1; pose proof (Hs (upper _ a)) as H2;
    clear Hs; revert Hne H1 H2; cbn in a, c; dv; red_all; f2; intros Hne H1 H2; hyps;
    (lapply H1; [clear H1; intro H1 | repeat split; auto using le_refl]);
    (lapply H2; [clear H2; intro H2 | repeat split; auto using le_refl]); hyps; repeat split; assumption.
Qed.

(* extend as sets: the smallest box containing the old (non-empty) box and the argument *)
Theorem extend_point_smallest : forall r, In r (range_insts (IO o)) -> forall b p, nonempty o r b ->
  let e := r_extendp r b p in
  subset o r b e /\ pt_in o r e p /\ forall c, subset o r b c -> pt_in o r c p -> subset o r e c.
Proof.
  intros r H b p Hne e. destruct (extend_point_least r H b p) as (E1 & E2 & E3). fold e in E1, E2, E3.
  split; [apply encloses_subset; auto | split; [auto |]].
  intros c Hs Hp. apply encloses_subset; auto. apply E3; auto. apply subset_encloses; auto.
Qed.

Theorem extend_box_smallest : forall r, In r (range_insts (IO o)) -> forall a b, nonempty o r a -> nonempty o r b ->
  let e := r_extendb r a b in
  subset o r a e /\ subset o r b e /\ forall c, subset o r a c -> subset o r b c -> subset o r e c.
Proof.
  intros r H a b Ha Hb e. destruct (extend_box_least r H a b) as (E1 & E2 & E3). fold e in E1, E2, E3.
  split; [apply encloses_subset; auto | split; [apply encloses_subset; auto |]].
  intros c Hs1 Hs2. apply encloses_subset; auto. apply E3; apply subset_encloses; auto.
Qed.

(* the default-constructed empty box is the identity of extend (coordinates within [neg_inf, pos_inf]) *)
Ltac idfin := f2; intros; repeat (rewrite omin_top by tauto); repeat (rewrite omax_bot by tauto); reflexivity.

Theorem extend_empty_id_int : forall r, In r (int_insts (IO o)) -> forall b, box_in_range o r b ->
  r_extendb r (r_default r) b = b /\ r_extendb r (r_emptyty r) b = b /\ canonical_empty o r (r_default r).
Proof.
  intros r H. insts H; intros b; cbn in b; dv; red_all; intros [H1 H2]; revert H1 H2; unfold in_range; f2; intros; hyps;
    repeat (rewrite omin_top by assumption); repeat (rewrite omax_bot by assumption); auto.
Qed.

Theorem extend_empty_id_float : neg_top o -> forall r, In r (float_insts (IO o)) -> forall b, box_in_range o r b ->
  r_extendb r (r_default r) b = b /\ r_extendb r (r_emptyty r) b = b /\ canonical_empty o r (r_default r).
Proof.
  intros N r H. unfold neg_top in N.
  insts H; intros b; cbn in b; dv; red_all; rewrite ?N; intros [H1 H2]; revert H1 H2; unfold in_range; f2; intros; hyps;
    repeat (rewrite omin_top by assumption); repeat (rewrite omax_bot by assumption); auto.
Qed.

Theorem extend_empty_point_int : forall r, In r (int_insts (IO o)) -> forall p, Forall (in_range o) (comps r p) ->
  r_extendp r (r_default r) p = mkbox r p p.
Proof.
  intros r H. insts H; intros p; cbn in p; dv; red_all; unfold in_range; f2; intros; hyps;
    repeat (rewrite omin_top by assumption); repeat (rewrite omax_bot by assumption); auto.
Qed.

Theorem extend_empty_point_float : neg_top o -> forall r, In r (float_insts (IO o)) -> forall p, Forall (in_range o) (comps r p) ->
  r_extendp r (r_default r) p = mkbox r p p.
Proof.
  intros N r H. unfold neg_top in N.
  insts H; intros p; cbn in p; dv; red_all; rewrite ?N; unfold in_range; f2; intros; hyps;
    repeat (rewrite omin_top by assumption); repeat (rewrite omax_bot by assumption); auto.
Qed.

(* intersectionOf contains exactly the common points - all boxes, empty and inverted ones included *)
Lemma box_range r : In r (box_insts (IO o)) -> In (b_r r) (range_insts (IO o)).
Proof. intro H. insts H; cbn; repeat first [left; reflexivity | right]. Qed.

Theorem intersection_spec : forall r, In r (box_insts (IO o)) -> forall a b p,
  r_contains r (b_inter r a b) p = true <-> r_contains r a p = true /\ r_contains r b p = true.
Proof.
  intros r H a b p. rewrite !contains_iff by (apply box_range; exact H). revert a b p.
  insts H; intros a b p; cbn in a, b, p; dv; red_all; fin.
Qed.

Theorem disjoint_iff_not_touching : forall r, In r (touch_insts (IO o)) -> forall a b,
  t_touching r a b = negb (b_disjoint r a b).
Proof.
  intros r H. insts H; intros a b; cbn in a, b; dv; red_all;
    repeat match goal with |- context [ltb o ?a ?b] => destruct (ltb o a b) end; reflexivity.
Qed.

(* per component: for non-empty ranges, the intersection is inverted iff one range lies strictly before the other *)
Lemma inter1_empty_iff al au bl bu : le o al au -> le o bl bu ->
  (ltb o (omin o au bu) (omax o al bl) = true <-> ltb o au bl = true \/ ltb o bu al = true).
Proof.
  intros Ha Hb. rewrite !lt_nle. rewrite omax_le, !le_omin.
  unfold le in *.
  destruct (ltb o au bl) eqn:E1, (ltb o bu al) eqn:E2, (ltb o au al) eqn:E3, (ltb o bu bl) eqn:E4; try discriminate; intuition congruence.
Qed.

Theorem intersection_empty_iff_disjoint : forall r, In r (box_insts (IO o)) -> forall a b,
  nonempty o r a -> nonempty o r b ->
  (r_isempty r (b_inter r a b) = true <-> b_disjoint r a b = true).
Proof.
  intros r H. insts H; intros a b; cbn in a, b; dv; red_all; f2; intros Ha Hb; b2p;
    rewrite !inter1_empty_iff by tauto; tauto.
Qed.

(* the canonical empty box: disjoint from every box that has at least one finite face, and its intersections are empty *)
Theorem canonical_empty_disjoint : ltb o (bot o) (top o) = true -> forall r, In r (box_insts (IO o)) -> forall a b,
  canonical_empty o r a -> box_in_range o r b ->
  r_isempty r (b_inter r a b) = true /\
  (b_disjoint r a b = true <-> Exists (fun x => ltb o (bot o) x = true) (lows o r b) \/ Exists (fun x => ltb o x (top o) = true) (highs o r b)).
Proof.
  intros BT r H. insts H; intros a b; cbn in a, b; dv; red_all; intros [E1 E2]; inversion E1; inversion E2; subst; clear E1 E2;
    intros [H1 H2]; revert H1 H2; unfold in_range; f2; intros H1 H2;
    rewrite ?Exists_cons, ?Exists_nil; b2p;
    repeat match goal with |- context [omax o (top o) ?x] => replace (omax o (top o) x) with (top o) by
       (destruct (omax_cases (top o) x) as [[-> _] | [-> ?]]; [reflexivity | apply le_antisym; tauto]) end;
    repeat match goal with |- context [omin o (bot o) ?x] => replace (omin o (bot o) x) with (bot o) by
       (destruct (omin_cases (bot o) x) as [[-> _] | [-> ?]]; [reflexivity | apply le_antisym; tauto]) end;
    rewrite ?BT; tauto.
Qed.

(* clamp *)
Theorem clamp_in : forall r, In r (range_insts (IO o)) -> forall b p, nonempty o r b -> pt_in o r b (r_clamp r b p).
Proof.
  intros r H. insts H; intros b p; cbn in b, p; dv; red_all; f2; intros Hne; rewrite ?le_omin;
    intuition (eauto using le_omax_l, le_refl);
    match goal with |- le o (omax o ?l (omin o ?p ?u)) ?u => apply omax_le; split; [assumption | apply omin_le_r] end.
Qed.

Lemma clamp1_id l u p : le o l p -> le o p u -> omax o l (omin o p u) = p.
Proof.
  intros H1 H2.
  assert (E : omin o p u = p) by (destruct (omin_cases p u) as [[-> _] | [-> ?]]; auto using le_antisym).
  rewrite E. destruct (omax_cases l p) as [[-> ?] | [-> _]]; auto using le_antisym.
Qed.

Theorem clamp_id : forall r, In r (range_insts (IO o)) -> forall b p, pt_in o r b p -> r_clamp r b p = p.
Proof.
  intros r H. insts H; intros b p; cbn in b, p; dv; red_all; f2; intros; rewrite !clamp1_id by tauto; reflexivity.
Qed.

Lemma clamp1_between l u p q : le o l u -> le o l q -> le o q u -> between o p (omax o l (omin o p u)) q.
Proof.
  intros Hlu Hlq Hqu. unfold between.
  destruct (omin_cases p u) as [[-> Hpu] | [-> Hup]].
  - destruct (omax_cases l p) as [[-> Hpl] | [-> Hlp]].
    + left; split; auto.
    + destruct (le_total p q); [left | right]; split; auto using le_refl.
  - right. destruct (omax_cases l u) as [[-> Hul] | [-> _]].
    + split; [apply (le_trans q u l) | apply (le_trans l u p)]; assumption.
    + split; auto.
Qed.

(* nearest point, order form: clamp(p)_i lies between p_i and q_i for every q of the box *)
Theorem clamp_between : forall r, In r (range_insts (IO o)) -> forall b p q, nonempty o r b -> pt_in o r b q ->
  Forall3 (between o) (comps r p) (comps r (r_clamp r b p)) (comps r q).
Proof.
  intros r H. insts H; intros b p q; cbn in b, p, q; dv; red_all; f2; intros; repeat split; try apply clamp1_between; tauto.
Qed.
End Ord.
