(* C05 - order clauses, part 1: contains / empty / extend / intersection_spec (generated code read through IO o). *)
From Coq Require Import ZArith List Bool Lia Setoid Morphisms.
From Common Require Import CxxSem.
From C05.gen Require Import GenBox.
From C05 Require Import Interp Ops Spec OrdBase.
Import ListNotations.


Section Ord.
Variable o : ordsig.
Hypothesis L : ord_laws o.
Local Notation le_refl := (OrdBase.le_refl o L).
Local Notation lt_asym := (OrdBase.lt_asym o L).
Local Notation le_trans := (OrdBase.le_trans o L).
Local Notation le_antisym := (OrdBase.le_antisym o L).
Local Notation le_total := (OrdBase.le_total o L).
Local Notation lt_le := (OrdBase.lt_le o L).
Local Notation nlt_le := (OrdBase.nlt_le o).
Local Notation lt_nle := (OrdBase.lt_nle o).
Local Notation omin_cases := (OrdBase.omin_cases o L).
Local Notation omax_cases := (OrdBase.omax_cases o L).
Local Notation le_omin := (OrdBase.le_omin o L).
Local Notation omax_le := (OrdBase.omax_le o L).
Local Notation omin_le_l := (OrdBase.omin_le_l o L).
Local Notation omin_le_r := (OrdBase.omin_le_r o L).
Local Notation le_omax_l := (OrdBase.le_omax_l o L).
Local Notation le_omax_r := (OrdBase.le_omax_r o L).
Local Notation omin_top := (OrdBase.omin_top o L).
Local Notation omax_bot := (OrdBase.omax_bot o L).

(* ------------------------------------------------------------------ tactics *)
Ltac dv := repeat match goal with
  | v : vec2 _ |- _ => destruct v
  | v : vec3 _ |- _ => destruct v
  | v : vec3a _ |- _ => destruct v
  | v : vec4 _ |- _ => destruct v
  | v : range_t_s _ |- _ => destruct v
  | v : range_t_vec2 _ |- _ => destruct v
  | v : range_t_vec3 _ |- _ => destruct v
  | v : range_t_vec3a _ |- _ => destruct v
  | v : range_t_vec4 _ |- _ => destruct v
  end.
Ltac insts H := cbn in H; repeat (destruct H as [<- | H]); [.. | contradiction].
Ltac red_all := cbv -[omin omax ltb le top bot una between Forall3 in_range andb orb negb]; cbn [Forall3].
Ltac red_in H := cbv -[omin omax ltb le top bot una between Forall3 in_range andb orb negb] in H; cbn [Forall3] in H.
Ltac f2 := rewrite ?Forall2_cons_iff, ?Forall2_nil_iff, ?Forall_cons_iff', ?Forall_nil_iff'.
Ltac f2_in H := rewrite ?Forall2_cons_iff, ?Forall2_nil_iff, ?Forall_cons_iff', ?Forall_nil_iff' in H.
Ltac b2p := rewrite ?andb_true_iff, ?orb_true_iff, ?negb_true_iff, ?orb_false_iff, ?andb_false_iff, ?negb_false_iff.

Ltac dbox c := let cl := fresh "cl" in let cu := fresh "cu" in destruct c as [cl cu]; try destruct cl; try destruct cu; cbn.
Ltac hyps := repeat match goal with H : _ /\ _ |- _ => destruct H end.
Ltac fin := f2; rewrite ?le_omin, ?omax_le; repeat split; intros; hyps;
  auto using omin_le_l, omin_le_r, le_omax_l, le_omax_r, le_refl.
Ltac trans_fin := f2; repeat split; intros; hyps; f2; repeat split;
  solve [assumption | apply le_refl | eapply le_trans; eassumption].

Theorem contains_iff : forall r, In r (range_insts (IO o)) -> forall b p,
  r_contains r b p = true <-> pt_in o r b p.
Proof.
  intros r H. insts H; intros b p; cbn in b, p; dv; red_all; f2; b2p; unfold le; tauto.
Qed.

Theorem isempty_iff : forall r, In r (range_insts (IO o)) -> forall b,
  r_isempty r b = true <-> ~ nonempty o r b.
Proof.
  intros r H. insts H; intros b; cbn in b; dv; red_all; f2; b2p; unfold le;
    repeat match goal with |- context [ltb o ?a ?b] => destruct (ltb o a b) end; intuition congruence.
Qed.

(* extend(point): bounds form (all boxes) *)
Theorem extend_point_least : forall r, In r (range_insts (IO o)) -> forall b p,
  let e := r_extendp r b p in
  encloses o r e b /\ pt_in o r e p /\
  forall c, encloses o r c b -> pt_in o r c p -> encloses o r c e.
Proof.
  intros r H. insts H; intros b p; cbn in b, p; dv; (split; [| split; [| intros c Hc Hp; revert Hc Hp; cbn in c; dv]]);
    red_all; fin.
Qed.

Theorem extend_box_least : forall r, In r (range_insts (IO o)) -> forall a b,
  let e := r_extendb r a b in
  encloses o r e a /\ encloses o r e b /\
  forall c, encloses o r c a -> encloses o r c b -> encloses o r c e.
Proof.
  intros r H. insts H; intros a b; cbn in a, b; dv; (split; [| split; [| intros c Hc Hp; revert Hc Hp; cbn in c; dv]]);
    red_all; fin.
Qed.

(* the bounds order is the inclusion order of the point sets (for a non-empty inner box) *)
Theorem encloses_subset : forall r, In r (range_insts (IO o)) -> forall a c,
  encloses o r c a -> subset o r a c.
Proof.
  intros r H. insts H; intros a c He p; revert He; cbn in a, c, p; dv; red_all; f2; intros; hyps; repeat split;
    solve [eapply le_trans; eassumption].
Qed.

Theorem subset_encloses : forall r, In r (range_insts (IO o)) -> forall a c,
  nonempty o r a -> subset o r a c -> encloses o r c a.
Proof.
  intros r H. insts H; intros a c Hne Hs; pose proof (Hs (lower _ a)) as H1; pose proof (Hs (upper _ a)) as H2;
    clear Hs; revert Hne H1 H2; cbn in a, c; dv; red_all; f2; intros Hne H1 H2; hyps;
    (lapply H1; [clear H1; intro H1 | repeat split; auto using le_refl]);
    (lapply H2; [clear H2; intro H2 | repeat split; auto using le_refl]); hyps; repeat split; assumption.
Qed.

(* extend as sets: the smallest box containing the old (non-empty) box and the argument *)
Theorem extend_point_smallest : forall r, In r (range_insts (IO o)) -> forall b p, nonempty o r b ->
  let e := r_extendp r b p in
  subset o r b e /\ pt_in o r e p /\ forall c, subset o r b c -> pt_in o r c p -> subset o r e c.
Proof.
  intros r H b p Hne e. destruct (extend_point_least r H b p) as (E1 & E2 & E3). fold e in E1, E2, E3.
  split; [apply encloses_subset; auto | split; [auto |]].
  intros c Hs Hp. apply encloses_subset; auto. apply E3; auto. apply subset_encloses; auto.
Qed.

Theorem extend_box_smallest : forall r, In r (range_insts (IO o)) -> forall a b, nonempty o r a -> nonempty o r b ->
  let e := r_extendb r a b in
  subset o r a e /\ subset o r b e /\ forall c, subset o r a c -> subset o r b c -> subset o r e c.
Proof.
  intros r H a b Ha Hb e. destruct (extend_box_least r H a b) as (E1 & E2 & E3). fold e in E1, E2, E3.
  split; [apply encloses_subset; auto | split; [apply encloses_subset; auto |]].
  intros c Hs1 Hs2. apply encloses_subset; auto. apply E3; apply subset_encloses; auto.
Qed.

(* intersectionOf contains exactly the common points - all boxes, empty and inverted ones included *)
Lemma box_range r : In r (box_insts (IO o)) -> In (b_r r) (range_insts (IO o)).
Proof. intro H. insts H; cbn; repeat first [left; reflexivity | right]. Qed.

Theorem intersection_spec : forall r, In r (box_insts (IO o)) -> forall a b p,
  r_contains r (b_inter r a b) p = true <-> r_contains r a p = true /\ r_contains r b p = true.
Proof.
  intros r H a b p. rewrite !contains_iff by (apply box_range; exact H). revert a b p.
  insts H; intros a b p; cbn in a, b, p; dv; red_all; fin.
Qed.

End Ord.
