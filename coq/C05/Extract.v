From Coq Require Import Extraction ExtrOcamlBasic ZArith.
From C05 Require Import Model.
Extraction "Model.ml" run mkq q_num q_den Z.div Z.modulo Z.add Z.mul Z.opp.
