(* C05 - ranges and boxes behave as closed axis-aligned sets: the int32 instance of the order laws; refutations outside the hypotheses (known findings)
   Every theorem is about the GENERATED definitions of gen/GenBox.v (regenerated from /repo on every run), reached through the
   instantiation dictionaries of Ops.v: range_insts = range_t<int|float>, box_t<int|float,2|3|3A|4>; box_insts = the box_t ones;
   touch_insts = N in {2,3}.  Order clauses hold for ANY decidable total order [o] with [ord_laws o]; NaN is outside the hypothesis.
   The property is split over Properties{Ord,Id,Box,Def,Center,Refuted,R}.v so that a change of one generated definition breaks
   only the obligations that depend on it. *)
From Coq Require Import ZArith QArith Reals List Bool.
From Common Require Import CxxSem.
From C05.gen Require Import GenBox.
From C05 Require Import Interp Ops Spec ProofsRefuted.
Import ListNotations.
Local Open Scope Z_scope.
(* ------------------------------------------------------------------ non-vacuity: the int32 order satisfies the laws *)
Theorem oz32_laws : ord_laws OZ32.
Proof. exact ProofsRefuted.oz32_laws. Qed.

Theorem ozsym_laws : ord_laws OZsym /\ neg_top OZsym.
Proof. exact ProofsRefuted.ozsym_laws. Qed.

(* known finding C05-disjoint-inverted-empty-operand: outside those hypotheses the clause fails *)
Theorem disjoint_inverted_refuted :
  let a := b2 5 5 3 3 in let b := b2 0 0 10 10 in
  r_isempty (bops_2i (IO OZ32)) (b_inter (bops_2i (IO OZ32)) a b) = true /\
  (forall p, r_contains (bops_2i (IO OZ32)) a p = false) /\
  b_disjoint (bops_2i (IO OZ32)) a b = false /\ t_touching (tops_2i (IO OZ32)) a b = true.
Proof. exact ProofsRefuted.disjoint_inverted_refuted. Qed.
Print Assumptions disjoint_inverted_refuted.

Theorem disjoint_of_intersection_refuted :
  let i := b_inter (bops_2i (IO OZ32)) (b2 0 0 1 1) (b2 2 2 3 3) in
  r_isempty (bops_2i (IO OZ32)) i = true /\ b_disjoint (bops_2i (IO OZ32)) i (b2 0 0 10 10) = false.
Proof. exact ProofsRefuted.disjoint_of_intersection_refuted. Qed.
Print Assumptions disjoint_of_intersection_refuted.

Theorem extend_inverted_refuted :
  r_extendp (ops_1i (IO OZ32)) (mk_range_t_s (IO OZ32) 5 3) 0 = mk_range_t_s (IO OZ32) 0 3.
Proof. exact ProofsRefuted.extend_inverted_refuted. Qed.
Print Assumptions extend_inverted_refuted.
