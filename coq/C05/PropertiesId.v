(* C05 - ranges and boxes behave as closed axis-aligned sets: the default-constructed empty box is the identity of extend
   Every theorem is about the GENERATED definitions of gen/GenBox.v (regenerated from /repo on every run), reached through the
   instantiation dictionaries of Ops.v: range_insts = range_t<int|float>, box_t<int|float,2|3|3A|4>; box_insts = the box_t ones;
   touch_insts = N in {2,3}.  Order clauses hold for ANY decidable total order [o] with [ord_laws o]; NaN is outside the hypothesis.
   The property is split over Properties{Ord,Id,Box,Def,Center,Refuted,R}.v so that a change of one generated definition breaks
   only the obligations that depend on it. *)
From Coq Require Import ZArith QArith Reals List Bool.
From Common Require Import CxxSem.
From C05.gen Require Import GenBox.
From C05 Require Import Interp Ops Spec ProofsOrdId ProofsRefuted.
Import ListNotations.
Local Open Scope Z_scope.
(* the default-constructed empty box [pos_inf, neg_inf] is the identity of extend *)
Theorem extend_empty_id_int : forall o, ord_laws o -> forall r, In r (int_insts (IO o)) -> forall b, box_in_range o r b ->
  r_extendb r (r_default r) b = b /\ r_extendb r (r_emptyty r) b = b /\ canonical_empty o r (r_default r).
Proof. exact ProofsOrdId.extend_empty_id_int. Qed.
Print Assumptions extend_empty_id_int.

Theorem extend_empty_id_float : forall o, ord_laws o -> neg_top o -> forall r, In r (float_insts (IO o)) -> forall b, box_in_range o r b ->
  r_extendb r (r_default r) b = b /\ r_extendb r (r_emptyty r) b = b /\ canonical_empty o r (r_default r).
Proof. exact ProofsOrdId.extend_empty_id_float. Qed.
Print Assumptions extend_empty_id_float.

Theorem extend_empty_point_int : forall o, ord_laws o -> forall r, In r (int_insts (IO o)) -> forall p,
  Forall (in_range o) (comps r p) -> r_extendp r (r_default r) p = mkbox r p p.
Proof. exact ProofsOrdId.extend_empty_point_int. Qed.
Print Assumptions extend_empty_point_int.

Theorem extend_empty_point_float : forall o, ord_laws o -> neg_top o -> forall r, In r (float_insts (IO o)) -> forall p,
  Forall (in_range o) (comps r p) -> r_extendp r (r_default r) p = mkbox r p p.
Proof. exact ProofsOrdId.extend_empty_point_float. Qed.
Print Assumptions extend_empty_point_float.

Example ex_empty_id : r_extendb (ops_2i (IO OZ32)) (r_default (ops_2i (IO OZ32))) (b2 0 1 4 5) = b2 0 1 4 5.
Proof. reflexivity. Qed.

Example ex_default_is_int_limits : r_default (ops_2i (IO OZ32)) = b2 2147483647 2147483647 (-2147483648) (-2147483648).
Proof. reflexivity. Qed.
