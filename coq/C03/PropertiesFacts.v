(* C03 -- source-derived obligations (Tie C).  gen/Facts.v is regenerated from the working tree on every run
   (props/C03/factgen.py over the clang AST of rkcommon/tasking/AsyncLoop.h, RKCOMMON_VERIF defined): for each
   member the ORDERED micro-operations the source spells out.  These theorems say that the extracted program of
   each member, compiled and executed from scheduling point to scheduling point on the model's state record
   (FactsDefs.exec), takes exactly the transitions of Model.step_loop / Model.step_ctl -- for every program
   counter and every valuation of the shared variables -- so the transition system the theorems of Properties.v
   are about is the one the source spells out.  Kept apart from Properties.v so that a change of the source
   breaks these and leaves the theorems about the model standing. *)
From Coq Require Import List Bool String ZArith.
From C03 Require Import Model FactsDefs FactsCheck.
From C03.gen Require Import Facts.
Import ListNotations.

(* the loop functor (mainLoop lambda): every transition of the loop thread, incl. the wait(lock, pred) protocol
   (evaluate the predicate under the mutex; atomically unlock+sleep; re-lock on wake-up) and spurious wake-ups *)
Theorem facts_loop : loop_matches (compile gen_loop) = true.
Proof. exact FactsCheck.loop_lemma. Qed.
Print Assumptions facts_loop.

(* start(), stop(), ~AsyncLoop(): every transition of the controller inside the member, the call (with what the
   first segment does) and the return, for both launch methods (join iff the loop owns its thread) *)
Theorem facts_start : member_matches progs MStart = true.
Proof. exact FactsCheck.start_lemma. Qed.
Print Assumptions facts_start.
Theorem facts_stop : member_matches progs MStop = true.
Proof. exact FactsCheck.stop_lemma. Qed.
Print Assumptions facts_stop.
Theorem facts_dtor : member_matches progs MDtor = true.
Proof. exact FactsCheck.dtor_lemma. Qed.
Print Assumptions facts_dtor.

(* the order of shared operations the proofs lean on, stated directly:
   loop: insideLoopBody := true BEFORE the test of shouldBeRunning, cleared on both paths, wait under the mutex *)
Theorem facts_loop_order : shapes_eqb (shape_of (compile gen_loop)) loop_shape = true.
Proof. exact FactsCheck.loop_shape_lemma. Qed.
Print Assumptions facts_loop_order.
(* start(): the flag is written under the mutex and the notify comes after the unlock (no lost wake-up) *)
Theorem facts_start_order : shapes_eqb (shape_of (compile gen_start)) start_shape = true.
Proof. exact FactsCheck.start_shape_lemma. Qed.
Print Assumptions facts_start_order.
(* stop(): clears the flag, THEN spins on insideLoopBody; takes no mutex, touches no condition variable *)
Theorem facts_stop_order_and_lock_free :
  shapes_eqb (shape_of (compile gen_stop)) stop_shape = true /\ lock_free (compile gen_stop) = true.
Proof. exact FactsCheck.stop_shape_lemma. Qed.
Print Assumptions facts_stop_order_and_lock_free.
(* destructor: under the mutex threadShouldBeAlive := false then shouldBeRunning := false; unlock; notify; join *)
Theorem facts_dtor_order : shapes_eqb (shape_of (compile gen_dtor)) dtor_shape = true.
Proof. exact FactsCheck.dtor_shape_lemma. Qed.
Print Assumptions facts_dtor_order.
(* the wait predicate is  shouldBeRunning || !threadShouldBeAlive  (these polarities, short-circuit) *)
Theorem facts_wait_predicate : match wait_preds_b gen_loop with [e] => pexp_eqb e wait_pred | _ => false end = true.
Proof. exact FactsCheck.wait_pred_lemma. Qed.
Print Assumptions facts_wait_predicate.

(* declarations, as closed lists: the three flags are std::atomic<bool> initialised as Model.init says; one mutex,
   one condition variable; the object holds the shared state by shared_ptr and one std::thread *)
Theorem facts_members :
  decls_eqb gen_data_members expected_data_members = true /\ decls_eqb gen_class_members expected_class_members = true.
Proof. exact FactsCheck.members_lemma. Qed.
Print Assumptions facts_members.
(* the shared state comes from make_shared, is stored in [loop], and the loop functor captures a CO-OWNING copy *)
Theorem facts_state_ownership : ctor_ownership gen_ctor = true.
Proof. exact FactsCheck.ownership_lemma. Qed.
Print Assumptions facts_state_ownership.
(* the constructor's launch-method resolution is Model.resolve, for every method and every thread count *)
Theorem facts_ctor : forall m n, ctor_launch gen_ctor m n = resolve m n.
Proof. exact FactsCheck.ctor_lemma. Qed.
Print Assumptions facts_ctor.
