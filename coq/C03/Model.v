(* C03 -- AsyncLoop start/stop/destroy protocol: interleaving semantics of the closed system
      loop thread  ||  controller thread
   (rkcommon/tasking/AsyncLoop.h).  Definitions only; proofs are in Proofs.v.

   One transition = what a thread does between two consecutive scheduling points
   (RKCOMMON_VERIF_POINT in AsyncLoop.h); every such segment contains at most one access to
   shared state (one seq_cst atomic load/store, one mutex operation, one condition-variable
   operation, or join).  A program counter names the point at which the thread is parked.

   Semantics given to the primitives (trusted, DESIGN 3.3 item 6):
     - std::atomic<bool> load/store (seq_cst): one atomic step of a sequentially consistent
       interleaving;
     - std::mutex: lock is enabled only when free;
     - condition_variable::wait(lock, pred) = while (!pred()) { atomically unlock+sleep;
       on notify or spuriously: relock };  notify_one wakes the (single) sleeper, and is lost
       when nobody sleeps;  waking and re-locking is one step of the sleeper (there is a single
       waiter, so "woken but not yet relocked" behaves like "notified and asleep");
     - thread::join is enabled once the joined thread's function has returned.

   Two code variants: [Repaired] (insideLoopBody published BEFORE shouldBeRunning is tested,
   cleared on the idle path) and [Original] (the code as found, kept to document the defect).
   Two launch methods: THREAD (destructor joins) and TASK (no join). *)
From Coq Require Import List Bool PArith ZArith FSets.FSetPositive.
Import ListNotations.

Inductive launch := THREAD | TASK.
Inductive variant := Repaired | Original.

(* The constructor's launch-method resolution (AsyncLoop.h, end of the constructor):
     if (m == AUTO) m = tasking::numTaskingThreads() > 4 ? TASK : THREAD;
     if (m == THREAD) backgroundThread = std::thread(mainLoop); else tasking::schedule(mainLoop);
   [method] is the constructor argument, [n] the value of numTaskingThreads() (an int; 0 while the
   tasking system is not initialised).  THREAD = the object owns a joinable thread. *)
Inductive method := MAuto | MThread | MTask.
Definition resolve (m : method) (n : Z) : launch :=
  match m with
  | MThread => THREAD
  | MTask => TASK
  | MAuto => if (4 <? n)%Z then TASK else THREAD
  end.
Definition system := (launch * variant)%type.

(* loop thread: the point at which it is parked *)
Inductive lpc :=
| LTop        (* loop.top                  : next = while-condition read of threadShouldBeAlive *)
| LChk        (* loop.after_alive_check    : next = second read of threadShouldBeAlive *)
| LPub        (* loop.before_set_inside    : next = insideLoopBody := true       (Repaired only) *)
| LTest       (* loop.before_running_check : next = read shouldBeRunning *)
| LRunOld     (* loop.after_running_check  : next = insideLoopBody := true       (Original only) *)
| LEnter      (* loop.body_enter           : next = call the body *)
| LBody       (* body.inside               : the body is executing; next = body returns *)
| LBodyX      (* loop.body_exit            : next = insideLoopBody := false *)
| LClr        (* loop.after_clear_inside   : next = while-condition read *)
| LIdle       (* loop.idle                 : next = insideLoopBody := false      (Repaired only) *)
| LBeforeLock (* loop.before_lock          : next = lock runningMutex *)
| LPred       (* loop.pred_enter           : next = predicate reads shouldBeRunning *)
| LPredMid    (* loop.pred_mid             : next = predicate reads threadShouldBeAlive *)
| LPredT      (* loop.pred_evaluated(true) : next = wait returns, lock released *)
| LPredF      (* loop.pred_evaluated(false): next = atomically unlock and sleep *)
| LSleep      (* asleep inside condition_variable::wait *)
| LUnl        (* loop.unlocked             : next = while-condition read *)
| LExit       (* loop.exit                 : next = thread function returns *)
| LDone.      (* thread function has returned *)

(* controller thread *)
Inductive cpc :=
| CIdle       (* between two calls *)
| SChk        (* start.after_check : read shouldBeRunning = false; next = lock *)
| SLocked     (* start.locked      : next = shouldBeRunning := true *)
| SSet        (* start.after_set   : next = unlock *)
| SUnl        (* start.unlocked    : next = notify_one *)
| SNot        (* start.after_notify: next = leave the if *)
| SRet        (* start.return      : next = return to the caller *)
| PChk        (* stop.after_check  : read shouldBeRunning = true; next = shouldBeRunning := false *)
| PClr        (* stop.after_clear  : next = read insideLoopBody *)
| PSpin       (* stop.spin         : read insideLoopBody = true; next = yield, read again *)
| PRet        (* stop.return *)
| DBL         (* dtor.before_lock *)
| DLocked     (* dtor.locked            : next = threadShouldBeAlive := false *)
| DClrA       (* dtor.after_clear_alive : next = shouldBeRunning := false *)
| DClr        (* dtor.after_clear       : next = unlock *)
| DUnl        (* dtor.unlocked          : next = notify_one *)
| DNot        (* dtor.after_notify      : next = join (THREAD) / nothing (TASK) *)
| DRet        (* dtor.after_join        : next = destructor returns *)
| CDead.      (* the AsyncLoop object is gone; no further calls *)

Inductive mowner := MFree | ML | MC.
Inductive cvst := CvNone | CvAsleep | CvNotified.

Record state := mk {
  lp : lpc; cp : cpc; mtx : mowner; cv : cvst;
  alive : bool;      (* threadShouldBeAlive *)
  run : bool;        (* shouldBeRunning *)
  inside : bool;     (* insideLoopBody *)
  (* ghost state: the events the property speaks about *)
  active : bool;     (* body_active: a body invocation is executing *)
  stop_ret : bool;   (* stop() has returned and start() has not been called since *)
  start_ret : bool;  (* start() has returned and neither stop() nor the destructor has been called since *)
  dtor_ret : bool    (* the destructor has returned *)
}.

Definition init : state :=
  mk LTop CIdle MFree CvNone true false false false false false false.

Inductive label :=
| StepL        (* the loop thread runs to its next point (a sleeper only if notified) *)
| WakeL        (* spurious wake-up of the sleeping loop thread *)
| CallStart | CallStop | CallDestroy   (* the idle controller begins a call *)
| StepC.       (* the controller runs to its next point *)

Definition all_labels := [StepL; WakeL; CallStart; CallStop; CallDestroy; StepC].

Definition set_lp s x := mk x (cp s) (mtx s) (cv s) (alive s) (run s) (inside s) (active s) (stop_ret s) (start_ret s) (dtor_ret s).
Definition set_cp s x := mk (lp s) x (mtx s) (cv s) (alive s) (run s) (inside s) (active s) (stop_ret s) (start_ret s) (dtor_ret s).
Definition set_mtx s x := mk (lp s) (cp s) x (cv s) (alive s) (run s) (inside s) (active s) (stop_ret s) (start_ret s) (dtor_ret s).
Definition set_cv s x := mk (lp s) (cp s) (mtx s) x (alive s) (run s) (inside s) (active s) (stop_ret s) (start_ret s) (dtor_ret s).
Definition set_alive s x := mk (lp s) (cp s) (mtx s) (cv s) x (run s) (inside s) (active s) (stop_ret s) (start_ret s) (dtor_ret s).
Definition set_run s x := mk (lp s) (cp s) (mtx s) (cv s) (alive s) x (inside s) (active s) (stop_ret s) (start_ret s) (dtor_ret s).
Definition set_inside s x := mk (lp s) (cp s) (mtx s) (cv s) (alive s) (run s) x (active s) (stop_ret s) (start_ret s) (dtor_ret s).
Definition set_active s x := mk (lp s) (cp s) (mtx s) (cv s) (alive s) (run s) (inside s) x (stop_ret s) (start_ret s) (dtor_ret s).
Definition set_stop_ret s x := mk (lp s) (cp s) (mtx s) (cv s) (alive s) (run s) (inside s) (active s) x (start_ret s) (dtor_ret s).
Definition set_start_ret s x := mk (lp s) (cp s) (mtx s) (cv s) (alive s) (run s) (inside s) (active s) (stop_ret s) x (dtor_ret s).
Definition set_dtor_ret s x := mk (lp s) (cp s) (mtx s) (cv s) (alive s) (run s) (inside s) (active s) (stop_ret s) (start_ret s) x.

Definition mfree s := match mtx s with MFree => true | _ => false end.
Definition notify s := match cv s with CvAsleep => set_cv s CvNotified | _ => s end.

(* while (l->threadShouldBeAlive) *)
Definition while_cond s := Some (set_lp s (if alive s then LChk else LExit)).
(* relock inside wait() *)
Definition relock s := if mfree s then Some (set_lp (set_cv (set_mtx s ML) CvNone) LPred) else None.

Definition step_loop (v : variant) (s : state) : option state :=
  match lp s with
  | LTop | LClr | LUnl => while_cond s
  | LChk => Some (set_lp s (if alive s then match v with Repaired => LPub | Original => LTest end else LExit))
  | LPub => Some (set_lp (set_inside s true) LTest)
  | LTest => Some (set_lp s (if run s
                             then match v with Repaired => LEnter | Original => LRunOld end
                             else match v with Repaired => LIdle | Original => LBeforeLock end))
  | LRunOld => Some (set_lp (set_inside s true) LEnter)
  | LEnter => Some (set_lp (set_active s true) LBody)
  | LBody => Some (set_lp (set_active s false) LBodyX)
  | LBodyX => Some (set_lp (set_inside s false) LClr)
  | LIdle => Some (set_lp (set_inside s false) LBeforeLock)
  | LBeforeLock => if mfree s then Some (set_lp (set_mtx s ML) LPred) else None
  | LPred => Some (set_lp s (if run s then LPredT else LPredMid))
  | LPredMid => Some (set_lp s (if alive s then LPredF else LPredT))
  | LPredT => Some (set_lp (set_mtx s MFree) LUnl)
  | LPredF => Some (set_lp (set_cv (set_mtx s MFree) CvAsleep) LSleep)
  | LSleep => match cv s with CvNotified => relock s | _ => None end
  | LExit => Some (set_lp s LDone)
  | LDone => None
  end.

Definition wake_loop (s : state) : option state :=
  match lp s, cv s with LSleep, CvAsleep => relock s | _, _ => None end.

Definition is_done s := match lp s with LDone => true | _ => false end.

Definition step_ctl (l : launch) (s : state) : option state :=
  match cp s with
  | CIdle | CDead => None
  | SChk => if mfree s then Some (set_cp (set_mtx s MC) SLocked) else None
  | SLocked => Some (set_cp (set_run s true) SSet)
  | SSet => Some (set_cp (set_mtx s MFree) SUnl)
  | SUnl => Some (set_cp (notify s) SNot)
  | SNot => Some (set_cp s SRet)
  | SRet => Some (set_cp (set_start_ret s true) CIdle)
  | PChk => Some (set_cp (set_run s false) PClr)
  | PClr | PSpin => Some (set_cp s (if inside s then PSpin else PRet))
  | PRet => Some (set_cp (set_stop_ret s true) CIdle)
  | DBL => if mfree s then Some (set_cp (set_mtx s MC) DLocked) else None
  | DLocked => Some (set_cp (set_alive s false) DClrA)
  | DClrA => Some (set_cp (set_run s false) DClr)
  | DClr => Some (set_cp (set_mtx s MFree) DUnl)
  | DUnl => Some (set_cp (notify s) DNot)
  | DNot => match l with
            | THREAD => if is_done s then Some (set_cp s DRet) else None
            | TASK => Some (set_cp s DRet)
            end
  | DRet => Some (set_cp (set_dtor_ret s true) CDead)
  end.

Definition is_idle s := match cp s with CIdle => true | _ => false end.

Definition step (sys : system) (s : state) (lab : label) : option state :=
  match lab with
  | StepL => step_loop (snd sys) s
  | WakeL => wake_loop s
  | CallStart => if is_idle s then Some (set_cp (set_stop_ret s false) (if run s then SRet else SChk)) else None
  | CallStop => if is_idle s then Some (set_cp (set_start_ret s false) (if run s then PChk else PRet)) else None
  | CallDestroy => if is_idle s then Some (set_cp (set_start_ret s false) DBL) else None
  | StepC => step_ctl (fst sys) s
  end.

Fixpoint filter_some {A} (l : list (option A)) : list A :=
  match l with [] => [] | Some a :: r => a :: filter_some r | None :: r => filter_some r end.

Definition succs (sys : system) (s : state) : list state :=
  filter_some (map (step sys s) all_labels).

Fixpoint run_labels (sys : system) (s : state) (ls : list label) : option state :=
  match ls with
  | [] => Some s
  | l :: r => match step sys s l with Some s' => run_labels sys s' r | None => None end
  end.

(* ---------------------------------------------------------------- encoding into positive *)
Fixpoint pre (n : nat) (p : positive) : positive :=
  match n with O => xO p | S n => xI (pre n p) end.
Definition bit (b : bool) (p : positive) : positive := if b then xI p else xO p.

Definition lpc_idx (x : lpc) : nat :=
  match x with
  | LTop => 0 | LChk => 1 | LPub => 2 | LTest => 3 | LRunOld => 4 | LEnter => 5 | LBody => 6
  | LBodyX => 7 | LClr => 8 | LIdle => 9 | LBeforeLock => 10 | LPred => 11 | LPredMid => 12
  | LPredT => 13 | LPredF => 14 | LSleep => 15 | LUnl => 16 | LExit => 17 | LDone => 18
  end.
Definition cpc_idx (x : cpc) : nat :=
  match x with
  | CIdle => 0 | SChk => 1 | SLocked => 2 | SSet => 3 | SUnl => 4 | SRet => 5 | PChk => 6
  | PClr => 7 | PSpin => 8 | PRet => 9 | DBL => 10 | DLocked => 11 | DClrA => 12 | DClr => 13
  | DUnl => 14 | DNot => 15 | DRet => 16 | CDead => 17 | SNot => 18
  end.
Definition mtx_idx (x : mowner) : nat := match x with MFree => 0 | ML => 1 | MC => 2 end.
Definition cv_idx (x : cvst) : nat := match x with CvNone => 0 | CvAsleep => 1 | CvNotified => 2 end.

Definition enc (s : state) : positive :=
  pre (lpc_idx (lp s)) (pre (cpc_idx (cp s)) (pre (mtx_idx (mtx s)) (pre (cv_idx (cv s))
    (bit (alive s) (bit (run s) (bit (inside s) (bit (active s)
      (bit (stop_ret s) (bit (start_ret s) (bit (dtor_ret s) xH)))))))))).

(* ---------------------------------------------------------------- reachable-set computation *)
Definition code_set (l : list state) : PositiveSet.t :=
  fold_left (fun S s => PositiveSet.add (enc s) S) l PositiveSet.empty.

(* certificate check: l contains init and is closed under every transition *)
Definition closed_check (sys : system) (l : list state) : bool :=
  let S := code_set l in
  PositiveSet.mem (enc init) S &&
  forallb (fun s => forallb (fun s' => PositiveSet.mem (enc s') S) (succs sys s)) l.

Fixpoint add_new (cands : list state) (seen : PositiveSet.t) (new : list state)
  : PositiveSet.t * list state :=
  match cands with
  | [] => (seen, new)
  | s :: r => let c := enc s in
              if PositiveSet.mem c seen then add_new r seen new
              else add_new r (PositiveSet.add c seen) (s :: new)
  end.

(* fuelled breadth-first search; None = out of fuel (excluded by the theorems) *)
Fixpoint bfs (sys : system) (fuel : nat) (frontier : list state) (seen : PositiveSet.t)
             (acc : list state) : option (list state) :=
  match frontier with
  | [] => Some acc
  | _ => match fuel with
         | O => None
         | S f => let '(seen', new) := add_new (flat_map (succs sys) frontier) seen [] in
                  bfs sys f new seen' (new ++ acc)
         end
  end.

Definition explore (sys : system) (fuel : nat) : option (list state) :=
  match bfs sys fuel [init] (PositiveSet.add (enc init) PositiveSet.empty) [init] with
  | Some l => if closed_check sys l then Some l else None
  | None => None
  end.

Definition fuel := 200%nat.

(* [safe] holds on the whole computed reachable set *)
Definition check (sys : system) (safe : state -> bool) : bool :=
  match explore sys fuel with Some l => forallb safe l | None => false end.
Definition count (sys : system) : nat :=
  match explore sys fuel with Some l => length l | None => O end.
Definition find_bad (sys : system) (safe : state -> bool) : option state :=
  match explore sys fuel with Some l => find (fun s => negb (safe s)) l | None => None end.

(* ---------------------------------------------------------------- property predicates *)
(* after stop() returned (and until start() is called) no body invocation is executing *)
Definition stop_safe_b (s : state) : bool := implb (stop_ret s) (negb (active s)).

Definition asleep_unnotified s :=
  match lp s, cv s with LSleep, CvAsleep => true | _, _ => false end.
(* a sleeper nobody has notified is entitled to sleep: not running, not being destroyed *)
(* the controller has written a flag under the mutex and has not yet executed its notify_one *)
Definition notify_pending s :=
  match cp s with SSet | SUnl | DClrA | DClr | DUnl => true | _ => false end.
Definition no_lost_wakeup_b (s : state) : bool :=
  implb (asleep_unnotified s) ((negb (run s) && alive s) || notify_pending s).

Definition body_running s := match lp s with LBody => true | _ => false end.

(* run the loop thread alone (no spurious wake-ups, body returns): does it reach [goal]
   within k of its own steps? *)
Fixpoint loop_alone (v : variant) (goal : state -> bool) (k : nat) (s : state) : bool :=
  if goal s then true else
  match k with
  | O => false
  | S k => match step_loop v s with Some s' => loop_alone v goal k s' | None => false end
  end.

Definition K_start := 9%nat.
Definition start_progress_b (v : variant) (s : state) : bool :=
  implb (start_ret s) (loop_alone v body_running K_start s).

Definition in_dtor s :=
  match cp s with DBL | DLocked | DClrA | DClr | DUnl | DNot | DRet => true | _ => false end.
Definition ctl_enabled (l : launch) s := match step_ctl l s with Some _ => true | None => false end.
Definition K_dtor := 9%nat.
(* inside the destructor the controller is never blocked for more than K_dtor loop steps
   (lock acquisition and, for THREAD, the join) *)
Definition dtor_progress_b (sys : system) (s : state) : bool :=
  implb (in_dtor s) (loop_alone (snd sys) (ctl_enabled (fst sys)) K_dtor s).
Definition after_notify s := match cp s with DNot => true | _ => false end.
Definition dtor_join_b (v : variant) (s : state) : bool :=
  implb (after_notify s) (loop_alone v is_done K_dtor s).

(* THREAD launch: once the destructor has returned the thread function has returned *)
Definition dtor_safe_b (s : state) : bool := implb (dtor_ret s) (negb (active s) && is_done s).

(* stop() cannot spin forever: the loop alone reaches a point where insideLoopBody is false
   and stop()'s next read sees it *)
Definition in_stop_wait s := match cp s with PClr | PSpin => true | _ => false end.
Definition K_stop := 3%nat.
Definition stop_progress_b (v : variant) (s : state) : bool :=
  implb (in_stop_wait s) (loop_alone v (fun s => negb (inside s)) K_stop s).

(* no state without successor except the final ones (controller finished and loop thread
   finished or asleep for ever in a system nobody can call any more -- excluded below) *)
Definition has_succ (sys : system) (s : state) : bool :=
  match succs sys s with [] => false | _ => true end.
Definition final s := match cp s, lp s with CDead, LDone => true | _, _ => false end.
Definition deadlock_free_b (sys : system) (s : state) : bool := has_succ sys s || final s.

(* the schedule that refutes stop-safety on the Original code *)
Definition refuting_schedule : list label :=
  [CallStart; StepC; StepC; StepC; StepC; StepC; StepC;   (* start() runs to completion *)
   StepL; StepL; StepL;                                (* loop: alive, alive, reads shouldBeRunning = true *)
   CallStop; StepC; StepC; StepC;                      (* stop(): clears the flag, reads inside = false, returns *)
   StepL; StepL].                                      (* loop: inside := true; body entered *)
