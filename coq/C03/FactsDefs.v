(* C03 -- Tie C: the micro-operation language in which props/C03/factgen.py writes down what
   rkcommon/tasking/AsyncLoop.h spells out (coq/C03/gen/Facts.v, regenerated from the clang AST of the
   working tree on every run), its compilation to flat code, and an interpreter that executes a member
   from one scheduling point to the next ON THE MODEL'S STATE RECORD.  PropertiesFacts.v then proves, by
   computation over every pc and every valuation of the shared variables, that the extracted program of
   each member takes exactly the transitions of Model.step_loop / Model.step_ctl -- i.e. the transition
   system the theorems of Properties.v are about is the one the source spells out.
   Definitions only. *)
From Coq Require Import List Bool String ZArith PArith.
From C03 Require Import Model.
Import ListNotations.
Local Open Scope string_scope.
Local Open Scope list_scope.

Inductive flag := FAlive | FRun | FInside.

(* a branch / loop condition: ONE seq_cst load of a flag, with its polarity *)
Inductive cexp := CLoad (f : flag) | CNot (f : flag) | CUnknown.

(* the wait predicate *)
Inductive pexp :=
| PLoad (f : flag) | PNotLoad (f : flag)
| POr (a b : pexp)                      (* a || b, short-circuit *)
| PThen (p : string) (e : pexp)          (* scheduling point, then e *)
| PUnknown.

Inductive stmt :=
| SPoint (p : string)                    (* RKCOMMON_VERIF_POINT *)
| SScope (p : string)                    (* RKCOMMON_VERIF_SCOPE: fires when the enclosing block is left *)
| SStore (f : flag) (v : bool)           (* seq_cst store of a constant:  x = v  /  x.store(v) *)
| SIf (c : cexp) (t e : block)
| SWhile (c : cexp) (b : block)
| SBlock (b : block)
| SLock                                  (* unique_lock / lock_guard on runningMutex, held to the end of the enclosing block *)
| SWait (enter valp : string) (pred : pexp)   (* runningCond.wait(lock, [&]{ POINT(enter) return VALUE(valp, pred); }) *)
| SNotify                                (* runningCond.notify_one() / notify_all(): there is a single waiter *)
| SJoinIfJoinable                        (* if (backgroundThread.joinable()) backgroundThread.join(); *)
| SBody                                  (* fcn() *)
| SYield                                 (* std::this_thread::yield() *)
| SReturn
| SUnknown (what : string)               (* anything the extractor does not recognise: fails closed *)
with block := BNil | BCons (s : stmt) (b : block).

(* ------------------------------------------------------------------ flat code *)
Inductive instr :=
| IPoint (p : string) (v : option bool)  (* the thread is parked here (v: the value reported by a VALUE point) *)
| IStore (f : flag) (v : bool)
| IBrF (c : cexp) (tgt : nat)            (* evaluate c; when FALSE jump to tgt *)
| IJmp (tgt : nat)
| ILock | IUnlock
| ISleep (head : nat)                    (* atomically unlock and sleep; on wake-up: re-lock, continue at head *)
| INotify
| IJoin
| IActive (b : bool)                     (* ghost: a body invocation begins / ends *)
| IYield
| IEnd                                   (* the member returns *)
| IBad.

Fixpoint pred_len (e : pexp) : nat :=
  match e with
  | PLoad _ | PNotLoad _ => 2
  | POr a b => pred_len a + pred_len b
  | PThen _ e => S (pred_len e)
  | PUnknown => 1
  end.

(* code that evaluates e and continues at T when it is true, at F when it is false *)
Fixpoint comp_pred (e : pexp) (base T F : nat) : list instr :=
  match e with
  | PLoad f => [IBrF (CLoad f) F; IJmp T]
  | PNotLoad f => [IBrF (CNot f) F; IJmp T]
  | POr a b => comp_pred a base T (base + pred_len a) ++ comp_pred b (base + pred_len a) T F
  | PThen p e => IPoint p None :: comp_pred e (S base) T F
  | PUnknown => [IBad]
  end.

(* [cur]: what leaving the current block has to run (destructors of its scope objects, most recent first);
   [outer]: the same for the enclosing blocks -- a return runs both *)
Fixpoint comp_stmt (s : stmt) (base : nat) (cur outer : list instr) : list instr * list instr :=
  match s with
  | SPoint p => ([IPoint p None], cur)
  | SScope p => ([], IPoint p None :: cur)
  | SStore f v => ([IStore f v], cur)
  | SLock => ([ILock], IUnlock :: cur)
  | SNotify => ([INotify], cur)
  | SJoinIfJoinable => ([IJoin], cur)
  | SBody => ([IActive true; IPoint "body.inside" None; IActive false], cur)
  | SYield => ([IYield], cur)
  | SReturn => (cur ++ outer ++ [IEnd], cur)
  | SUnknown _ => ([IBad], cur)
  | SBlock b => (comp_block b base [] (cur ++ outer), cur)
  | SIf c t e =>
      let ct := comp_block t (S base) [] (cur ++ outer) in
      let eb := S base + List.length ct + 1 in
      let ce := comp_block e eb [] (cur ++ outer) in
      (IBrF c eb :: ct ++ IJmp (eb + List.length ce) :: ce, cur)
  | SWhile c b =>
      let cb := comp_block b (S base) [] (cur ++ outer) in
      (IBrF c (S base + List.length cb + 1) :: cb ++ [IJmp base], cur)
  | SWait enter valp e =>
      let n := pred_len e in
      let T := S base + n in
      (IPoint enter None :: comp_pred e (S base) T (T + 2)
         ++ [IPoint valp (Some true); IJmp (T + 4); IPoint valp (Some false); ISleep base], cur)
  end
with comp_block (b : block) (base : nat) (cur outer : list instr) : list instr :=
  match b with
  | BNil => cur
  | BCons s r => let cc := comp_stmt s base cur outer in
                 fst cc ++ comp_block r (base + List.length (fst cc)) (snd cc) outer
  end.

Definition compile (b : block) : list instr := comp_block b 0 [] [] ++ [IEnd].

(* ------------------------------------------------------------------ execution on the model's state *)
Definition get_flag (f : flag) (s : state) : bool :=
  match f with FAlive => alive s | FRun => run s | FInside => inside s end.
Definition set_flag (f : flag) (v : bool) (s : state) : state :=
  match f with FAlive => set_alive s v | FRun => set_run s v | FInside => set_inside s v end.
Definition eval_c (c : cexp) (s : state) : option bool :=
  match c with CLoad f => Some (get_flag f s) | CNot f => Some (negb (get_flag f s)) | CUnknown => None end.

Inductive arrival := APoint (p : string) (v : option bool) | ASleep | ADone.

(* run thread [who] (ML = loop thread, MC = controller) from instruction i to its next arrival *)
Fixpoint exec (l : launch) (who : mowner) (prog : list instr) (fuel : nat) (i : nat) (s : state)
  : option (arrival * state) :=
  match fuel with
  | O => None
  | S fuel =>
    match nth_error prog i with
    | None => None
    | Some ins =>
      match ins with
      | IPoint p v => Some (APoint p v, s)
      | IStore f v => exec l who prog fuel (S i) (set_flag f v s)
      | IBrF c t => match eval_c c s with
                    | Some true => exec l who prog fuel (S i) s
                    | Some false => exec l who prog fuel t s
                    | None => None
                    end
      | IJmp t => exec l who prog fuel t s
      | ILock => if mfree s then exec l who prog fuel (S i) (set_mtx s who) else None
      | IUnlock => exec l who prog fuel (S i) (set_mtx s MFree)
      | ISleep _ => Some (ASleep, set_cv (set_mtx s MFree) CvAsleep)
      | INotify => exec l who prog fuel (S i) (notify s)
      | IJoin => match l with
                 | THREAD => if is_done s then exec l who prog fuel (S i) s else None
                 | TASK => exec l who prog fuel (S i) s
                 end
      | IActive b => exec l who prog fuel (S i) (set_active s b)
      | IYield => exec l who prog fuel (S i) s
      | IEnd => Some (ADone, s)
      | IBad => None
      end
    end
  end.

Definition xfuel := 64%nat.

Definition obool_eqb (a b : option bool) : bool :=
  match a, b with
  | None, None => true
  | Some x, Some y => Bool.eqb x y
  | _, _ => false
  end.

Fixpoint find_point (prog : list instr) (p : string) (v : option bool) (i : nat) : option nat :=
  match prog with
  | [] => None
  | IPoint q w :: r => if (String.eqb p q && obool_eqb v w)%bool then Some i else find_point r p v (S i)
  | _ :: r => find_point r p v (S i)
  end.
Fixpoint find_sleep (prog : list instr) : option nat :=
  match prog with
  | [] => None
  | ISleep h :: _ => Some h
  | _ :: r => find_sleep r
  end.

(* ---- the pcs of Model.v and the point names of AsyncLoop.h *)
Definition lpc_point (x : lpc) : option (string * option bool) :=
  match x with
  | LTop => Some ("loop.top", None) | LChk => Some ("loop.after_alive_check", None)
  | LPub => Some ("loop.before_set_inside", None) | LTest => Some ("loop.before_running_check", None)
  | LRunOld => Some ("loop.after_running_check", None)
  | LEnter => Some ("loop.body_enter", None) | LBody => Some ("body.inside", None)
  | LBodyX => Some ("loop.body_exit", None) | LClr => Some ("loop.after_clear_inside", None)
  | LIdle => Some ("loop.idle", None) | LBeforeLock => Some ("loop.before_lock", None)
  | LPred => Some ("loop.pred_enter", None) | LPredMid => Some ("loop.pred_mid", None)
  | LPredT => Some ("loop.pred_evaluated", Some true) | LPredF => Some ("loop.pred_evaluated", Some false)
  | LUnl => Some ("loop.unlocked", None) | LExit => Some ("loop.exit", None)
  | LSleep | LDone => None
  end.
Definition all_lpc := [LTop; LChk; LPub; LTest; LRunOld; LEnter; LBody; LBodyX; LClr; LIdle; LBeforeLock; LPred;
                       LPredMid; LPredT; LPredF; LSleep; LUnl; LExit; LDone].
Definition point_lpc (p : string) (v : option bool) : option lpc :=
  find (fun x => match lpc_point x with
                 | Some (q, w) => (String.eqb p q && obool_eqb v w)%bool
                 | None => false
                 end) all_lpc.

Definition cpc_point (x : cpc) : option string :=
  match x with
  | SChk => Some "start.after_check" | SLocked => Some "start.locked" | SSet => Some "start.after_set"
  | SUnl => Some "start.unlocked" | SNot => Some "start.after_notify" | SRet => Some "start.return"
  | PChk => Some "stop.after_check" | PClr => Some "stop.after_clear" | PSpin => Some "stop.spin"
  | PRet => Some "stop.return"
  | DBL => Some "dtor.before_lock" | DLocked => Some "dtor.locked" | DClrA => Some "dtor.after_clear_alive"
  | DClr => Some "dtor.after_clear" | DUnl => Some "dtor.unlocked" | DNot => Some "dtor.after_notify"
  | DRet => Some "dtor.after_join"
  | CIdle | CDead => None
  end.
Inductive member := MStart | MStop | MDtor.
Definition cpcs_of (m : member) : list cpc :=
  match m with
  | MStart => [SChk; SLocked; SSet; SUnl; SNot; SRet]
  | MStop => [PChk; PClr; PSpin; PRet]
  | MDtor => [DBL; DLocked; DClrA; DClr; DUnl; DNot; DRet]
  end.
Definition point_cpc (m : member) (p : string) : option cpc :=
  find (fun x => match cpc_point x with Some q => String.eqb p q | None => false end) (cpcs_of m).

(* ---- one transition of the loop thread, read off the extracted program *)
Definition loop_arrive (r : option (arrival * state)) : option state :=
  match r with
  | Some (APoint p v, s') => match point_lpc p v with Some x => Some (set_lp s' x) | None => None end
  | Some (ASleep, s') => Some (set_lp s' LSleep)
  | Some (ADone, s') => Some (set_lp s' LDone)
  | None => None
  end.
Definition relock_from (prog : list instr) (s : state) : option state :=
  if mfree s then
    match find_sleep prog with
    | Some h => loop_arrive (exec THREAD ML prog xfuel h (set_cv (set_mtx s ML) CvNone))
    | None => None
    end
  else None.
Definition f_step_loop (prog : list instr) (s : state) : option state :=
  match lp s with
  | LDone => None
  | LSleep => match cv s with CvNotified => relock_from prog s | _ => None end
  | x => match lpc_point x with
         | Some (p, v) => match find_point prog p v 0 with
                          | Some i => loop_arrive (exec THREAD ML prog xfuel (S i) s)
                          | None => None
                          end
         | None => None
         end
  end.
Definition f_wake_loop (prog : list instr) (s : state) : option state :=
  match lp s, cv s with LSleep, CvAsleep => relock_from prog s | _, _ => None end.

(* ---- the controller: a call of start() / stop() / the destructor *)
Definition returned (m : member) (s : state) : state :=
  match m with
  | MStart => set_cp (set_start_ret s true) CIdle
  | MStop => set_cp (set_stop_ret s true) CIdle
  | MDtor => set_cp (set_dtor_ret s true) CDead
  end.
Definition ctl_arrive (m : member) (r : option (arrival * state)) : option state :=
  match r with
  | Some (APoint p None, s') => match point_cpc m p with Some x => Some (set_cp s' x) | None => None end
  | Some (ADone, s') => Some (returned m s')
  | _ => None
  end.
Definition member_of (x : cpc) : option member :=
  if existsb (fun y => Nat.eqb (cpc_idx x) (cpc_idx y)) (cpcs_of MStart) then Some MStart
  else if existsb (fun y => Nat.eqb (cpc_idx x) (cpc_idx y)) (cpcs_of MStop) then Some MStop
  else if existsb (fun y => Nat.eqb (cpc_idx x) (cpc_idx y)) (cpcs_of MDtor) then Some MDtor
  else None.
Definition f_step_ctl (l : launch) (progs : member -> list instr) (s : state) : option state :=
  match member_of (cp s), cpc_point (cp s) with
  | Some m, Some p => match find_point (progs m) p None 0 with
                      | Some i => ctl_arrive m (exec l MC (progs m) xfuel (S i) s)
                      | None => None
                      end
  | _, _ => None
  end.
Definition call_ghost (m : member) (s : state) : state :=
  match m with MStart => set_stop_ret s false | MStop | MDtor => set_start_ret s false end.
Definition f_call (l : launch) (progs : member -> list instr) (m : member) (s : state) : option state :=
  if is_idle s then ctl_arrive m (exec l MC (progs m) xfuel 0 (call_ghost m s)) else None.
Definition call_label (m : member) : label :=
  match m with MStart => CallStart | MStop => CallStop | MDtor => CallDestroy end.

(* ------------------------------------------------------------------ comparison with Model.v, by enumeration *)
Definition ostate_eqb (a b : option state) : bool :=
  match a, b with
  | None, None => true
  | Some x, Some y => Pos.eqb (enc x) (enc y)       (* enc is injective: Proofs.enc_inj *)
  | _, _ => false
  end.
Definition bools := [true; false].
Definition all_mtx := [MFree; ML; MC].
Definition all_cv := [CvNone; CvAsleep; CvNotified].
Definition all_cpc := [CIdle; SChk; SLocked; SSet; SUnl; SNot; SRet; PChk; PClr; PSpin; PRet; DBL; DLocked; DClrA;
                       DClr; DUnl; DNot; DRet; CDead].
(* every combination of the components a transition can read or write; the ghost "returned" flags are
   enumerated too (calls and returns write them) *)
Definition all_states (lps : list lpc) (cps : list cpc) : list state :=
  flat_map (fun l => flat_map (fun c => flat_map (fun m => flat_map (fun v =>
  flat_map (fun a => flat_map (fun r => flat_map (fun i => flat_map (fun x =>
  flat_map (fun g1 => flat_map (fun g2 => map (fun g3 => mk l c m v a r i x g1 g2 g3) bools) bools) bools)
  bools) bools) bools) bools) all_cv) all_mtx) cps) lps.

(* the loop thread of the REPAIRED code never stands at loop.after_running_check (a point of the Original only) *)
Definition lpcs_repaired := filter (fun x => match x with LRunOld => false | _ => true end) all_lpc.

Definition loop_matches (prog : list instr) : bool :=
  forallb (fun s => ostate_eqb (f_step_loop prog s) (step_loop Repaired s) &&
                    ostate_eqb (f_wake_loop prog s) (wake_loop s))
          (all_states lpcs_repaired [CIdle; DNot]).
(* first state on which they differ (diagnosis) *)
Definition loop_mismatch (prog : list instr) : option state :=
  find (fun s => negb (ostate_eqb (f_step_loop prog s) (step_loop Repaired s) &&
                       ostate_eqb (f_wake_loop prog s) (wake_loop s)))
       (all_states lpcs_repaired [CIdle]).

Definition member_matches (progs : member -> list instr) (m : member) : bool :=
  forallb (fun l =>
    forallb (fun s => ostate_eqb (f_step_ctl l progs s) (step_ctl l s))
            (all_states [LTop; LBody; LSleep; LDone] (cpcs_of m)) &&
    forallb (fun s => ostate_eqb (f_call l progs m s) (step (l, Repaired) s (call_label m)))
            (all_states [LTop; LBody; LSleep; LDone] [CIdle; CDead; SChk]))
  [THREAD; TASK].

(* ------------------------------------------------------------------ shape facts the proofs lean on *)
Inductive shape := HLock | HUnlock | HStore (f : flag) (v : bool) | HBr (c : cexp) | HSleep | HNotify | HJoin | HBody
                 | HYield | HEnd | HBad.
Fixpoint shape_of (prog : list instr) : list shape :=
  match prog with
  | [] => []
  | ins :: r =>
    match ins with
    | ILock => HLock :: shape_of r | IUnlock => HUnlock :: shape_of r
    | IStore f v => HStore f v :: shape_of r | IBrF c _ => HBr c :: shape_of r
    | ISleep _ => HSleep :: shape_of r | INotify => HNotify :: shape_of r | IJoin => HJoin :: shape_of r
    | IActive true => HBody :: shape_of r | IYield => HYield :: shape_of r
    | IEnd => HEnd :: shape_of r | IBad => HBad :: shape_of r
    | IPoint _ _ | IJmp _ | IActive false => shape_of r
    end
  end.
Definition flag_eqb (a b : flag) : bool :=
  match a, b with FAlive, FAlive | FRun, FRun | FInside, FInside => true | _, _ => false end.
Definition cexp_eqb (a b : cexp) : bool :=
  match a, b with
  | CLoad f, CLoad g | CNot f, CNot g => flag_eqb f g
  | _, _ => false
  end.
Definition shape_eqb (a b : shape) : bool :=
  match a, b with
  | HLock, HLock | HUnlock, HUnlock | HSleep, HSleep | HNotify, HNotify | HJoin, HJoin | HBody, HBody
  | HYield, HYield | HEnd, HEnd => true
  | HStore f v, HStore g w => flag_eqb f g && Bool.eqb v w
  | HBr c, HBr d => cexp_eqb c d
  | _, _ => false
  end.
Fixpoint shapes_eqb (a b : list shape) : bool :=
  match a, b with
  | [], [] => true
  | x :: r, y :: q => shape_eqb x y && shapes_eqb r q
  | _, _ => false
  end.

(* the destructor: under the mutex clear threadShouldBeAlive, then shouldBeRunning; unlock; THEN notify; then join *)
Definition dtor_shape := [HLock; HStore FAlive false; HStore FRun false; HUnlock; HNotify; HJoin; HEnd].
(* start(): test !shouldBeRunning; under the mutex set it; unlock; THEN notify *)
Definition start_shape := [HBr (CNot FRun); HLock; HStore FRun true; HUnlock; HNotify; HEnd].
(* stop(): test; clear shouldBeRunning; spin (yield) while insideLoopBody -- and never touches the mutex or the condvar *)
Definition stop_shape := [HBr (CLoad FRun); HStore FRun false; HBr (CLoad FInside); HYield; HEnd].
Definition lock_free (prog : list instr) : bool :=
  forallb (fun h => match h with HLock | HUnlock | HSleep | HNotify => false | _ => true end) (shape_of prog).
(* the loop: publish insideLoopBody BEFORE testing shouldBeRunning; clear it on both paths; wait under the mutex *)
Definition loop_shape :=
  [HBr (CLoad FAlive); HBr (CNot FAlive); HEnd; HStore FInside true; HBr (CLoad FRun);
   HBody; HStore FInside false;
   HStore FInside false; HLock; HBr (CLoad FRun); HBr (CNot FAlive); HSleep; HUnlock; HEnd].
Definition wait_pred := POr (PLoad FRun) (PThen "loop.pred_mid" (PNotLoad FAlive)).

Fixpoint pexp_eqb (a b : pexp) : bool :=
  match a, b with
  | PLoad f, PLoad g | PNotLoad f, PNotLoad g => flag_eqb f g
  | POr a1 a2, POr b1 b2 => pexp_eqb a1 b1 && pexp_eqb a2 b2
  | PThen p e, PThen q d => String.eqb p q && pexp_eqb e d
  | _, _ => false
  end.
Fixpoint wait_preds_s (s : stmt) : list pexp :=
  match s with
  | SWait _ _ e => [e]
  | SIf _ t e => wait_preds_b t ++ wait_preds_b e
  | SWhile _ b | SBlock b => wait_preds_b b
  | _ => []
  end
with wait_preds_b (b : block) : list pexp :=
  match b with BNil => [] | BCons s r => wait_preds_s s ++ wait_preds_b r end.

(* ------------------------------------------------------------------ declarations and the constructor *)
Inductive mtype := TAtomicBool (init : bool) | TMutex | TCondVar | TThread | TSharedData | TOther (what : string).
Definition mtype_eqb (a b : mtype) : bool :=
  match a, b with
  | TAtomicBool x, TAtomicBool y => Bool.eqb x y
  | TMutex, TMutex | TCondVar, TCondVar | TThread, TThread | TSharedData, TSharedData => true
  | _, _ => false
  end.
Fixpoint decls_eqb (a b : list (string * mtype)) : bool :=
  match a, b with
  | [], [] => true
  | (n, t) :: r, (m, u) :: q => String.eqb n m && mtype_eqb t u && decls_eqb r q
  | _, _ => false
  end.
(* the closed member lists: the three flags are std::atomic<bool> with the initial values of Model.init *)
Definition expected_data_members :=
  [("threadShouldBeAlive", TAtomicBool true); ("shouldBeRunning", TAtomicBool false); ("insideLoopBody", TAtomicBool false);
   ("runningCond", TCondVar); ("runningMutex", TMutex)].
Definition expected_class_members := [("loop", TSharedData); ("backgroundThread", TThread)].

(* the constructor: shared state made by make_shared and stored in [loop]; the loop functor captures a CO-OWNING copy
   of the shared_ptr (a task that outlives the object keeps the state alive) and the body by value; then
     if (m == AUTO) m = numTaskingThreads() > threshold ? a_then : a_else;
     if (m == d_test) <d_then> else <d_else>       with <..> = own thread (std::thread) / tasking::schedule *)
Record ctor_facts := {
  state_make_shared : bool; state_stored_in_loop : bool; capture_coowns_state : bool; capture_body_by_value : bool;
  auto_guard : bool; auto_threshold : Z; auto_then : method; auto_else : method;
  d_test : method; d_then : launch; d_else : launch }.
Definition method_eqb (a b : method) : bool :=
  match a, b with MAuto, MAuto | MThread, MThread | MTask, MTask => true | _, _ => false end.
Definition ctor_launch (c : ctor_facts) (m : method) (n : Z) : launch :=
  let m' := if auto_guard c && method_eqb m MAuto then (if (auto_threshold c <? n)%Z then auto_then c else auto_else c) else m in
  if method_eqb m' (d_test c) then d_then c else d_else c.
Definition ctor_ownership (c : ctor_facts) : bool :=
  state_make_shared c && state_stored_in_loop c && capture_coowns_state c && capture_body_by_value c.
