(* C03 -- Tie C: the obligations about gen/Facts.v, closed by computation (lemmas for PropertiesFacts.v). *)
From Coq Require Import List Bool String ZArith.
From C03 Require Import Model FactsDefs.
From C03.gen Require Import Facts.
Import ListNotations.

Definition progs (m : member) : list instr :=
  match m with MStart => compile gen_start | MStop => compile gen_stop | MDtor => compile gen_dtor end.

Lemma loop_lemma : loop_matches (compile gen_loop) = true.
Proof. vm_compute. reflexivity. Qed.
Lemma start_lemma : member_matches progs MStart = true.
Proof. vm_compute. reflexivity. Qed.
Lemma stop_lemma : member_matches progs MStop = true.
Proof. vm_compute. reflexivity. Qed.
Lemma dtor_lemma : member_matches progs MDtor = true.
Proof. vm_compute. reflexivity. Qed.

Lemma loop_shape_lemma : shapes_eqb (shape_of (compile gen_loop)) loop_shape = true.
Proof. vm_compute. reflexivity. Qed.
Lemma start_shape_lemma : shapes_eqb (shape_of (compile gen_start)) start_shape = true.
Proof. vm_compute. reflexivity. Qed.
Lemma stop_shape_lemma : shapes_eqb (shape_of (compile gen_stop)) stop_shape = true /\ lock_free (compile gen_stop) = true.
Proof. vm_compute. auto. Qed.
Lemma dtor_shape_lemma : shapes_eqb (shape_of (compile gen_dtor)) dtor_shape = true.
Proof. vm_compute. reflexivity. Qed.
Lemma wait_pred_lemma : match wait_preds_b gen_loop with [e] => pexp_eqb e wait_pred | _ => false end = true.
Proof. vm_compute. reflexivity. Qed.
Lemma members_lemma :
  decls_eqb gen_data_members expected_data_members = true /\ decls_eqb gen_class_members expected_class_members = true.
Proof. vm_compute. auto. Qed.
Lemma ownership_lemma : ctor_ownership gen_ctor = true.
Proof. vm_compute. reflexivity. Qed.
Lemma ctor_lemma : forall m n, ctor_launch gen_ctor m n = resolve m n.
Proof.
  intros m n. unfold ctor_launch, resolve. cbn.
  destruct m; cbn; try reflexivity; destruct (4 <? n)%Z; reflexivity.
Qed.
