(* C03 -- proofs.  The central result is [check_sound]: the certificate check performed by
   [explore] makes the computed list an inductive invariant, so a predicate that holds on the
   list holds in every state reachable by an execution of ANY length. *)
From Coq Require Import List Bool PArith ZArith FSets.FSetPositive Lia.
From C03 Require Import Model.
Import ListNotations.

(* ------------------------------------------------------------------ executions *)
Inductive reachable (sys : system) : state -> Prop :=
| r_init : reachable sys init
| r_step : forall s lab s', reachable sys s -> step sys s lab = Some s' -> reachable sys s'.

(* the loop thread, scheduled alone, reaches [goal] within k of its steps *)
Inductive loop_reaches (v : variant) (goal : state -> bool) : nat -> state -> Prop :=
| lr_here : forall k s, goal s = true -> loop_reaches v goal k s
| lr_step : forall k s s', step_loop v s = Some s' -> loop_reaches v goal k s' ->
                           loop_reaches v goal (S k) s.

Lemma loop_alone_sound : forall v goal k s,
  loop_alone v goal k s = true -> loop_reaches v goal k s.
Proof.
  intros v goal k. induction k as [|k IH]; intros s H; cbn [loop_alone] in H.
  - destruct (goal s) eqn:G; [apply lr_here; exact G | discriminate].
  - destruct (goal s) eqn:G; [apply lr_here; exact G|].
    destruct (step_loop v s) as [s'|] eqn:E; [|discriminate].
    eapply lr_step; [exact E | apply IH; exact H].
Qed.

Lemma run_labels_reachable : forall sys ls s s',
  reachable sys s -> run_labels sys s ls = Some s' -> reachable sys s'.
Proof.
  intros sys ls. induction ls as [|l r IH]; intros s s' R H; cbn [run_labels] in H.
  - inversion H; subst; exact R.
  - destruct (step sys s l) as [s1|] eqn:E; [|discriminate].
    eapply IH; [eapply r_step; [exact R | exact E] | exact H].
Qed.

(* ------------------------------------------------------------------ the encoding is injective *)
Lemma pre_inj : forall n m p q, pre n p = pre m q -> n = m /\ p = q.
Proof.
  induction n as [|n IH]; intros [|m] p q H; cbn [pre] in H; try discriminate.
  - inversion H; auto.
  - inversion H as [H1]. destruct (IH _ _ _ H1) as [-> ->]. auto.
Qed.

Lemma bit_inj : forall a b p q, bit a p = bit b q -> a = b /\ p = q.
Proof. intros [|] [|] p q H; cbn in H; try discriminate; inversion H; auto. Qed.

Lemma lpc_idx_inj : forall a b, lpc_idx a = lpc_idx b -> a = b.
Proof. intros a b; destruct a; destruct b; cbn; intro H; try reflexivity; discriminate H. Qed.
Lemma cpc_idx_inj : forall a b, cpc_idx a = cpc_idx b -> a = b.
Proof. intros a b; destruct a; destruct b; cbn; intro H; try reflexivity; discriminate H. Qed.
Lemma mtx_idx_inj : forall a b, mtx_idx a = mtx_idx b -> a = b.
Proof. intros a b; destruct a; destruct b; cbn; intro H; try reflexivity; discriminate H. Qed.
Lemma cv_idx_inj : forall a b, cv_idx a = cv_idx b -> a = b.
Proof. intros a b; destruct a; destruct b; cbn; intro H; try reflexivity; discriminate H. Qed.

Lemma enc_inj : forall a b, enc a = enc b -> a = b.
Proof.
  intros [l1 c1 m1 v1 a1 r1 i1 x1 p1 t1 d1] [l2 c2 m2 v2 a2 r2 i2 x2 p2 t2 d2] H.
  unfold enc in H; cbn [lp cp mtx cv alive run inside active stop_ret start_ret dtor_ret] in H.
  apply pre_inj in H; destruct H as [Hl H]. apply lpc_idx_inj in Hl.
  apply pre_inj in H; destruct H as [Hc H]. apply cpc_idx_inj in Hc.
  apply pre_inj in H; destruct H as [Hm H]. apply mtx_idx_inj in Hm.
  apply pre_inj in H; destruct H as [Hv H]. apply cv_idx_inj in Hv.
  apply bit_inj in H; destruct H as [Ha H].
  apply bit_inj in H; destruct H as [Hr H].
  apply bit_inj in H; destruct H as [Hi H].
  apply bit_inj in H; destruct H as [Hx H].
  apply bit_inj in H; destruct H as [Hp H].
  apply bit_inj in H; destruct H as [Ht H].
  apply bit_inj in H; destruct H as [Hd _].
  subst. reflexivity.
Qed.

(* ------------------------------------------------------------------ the code set *)
Lemma fold_add_mem : forall (l : list state) (S : PositiveSet.t) c,
  PositiveSet.mem c (fold_left (fun S s => PositiveSet.add (enc s) S) l S) = true <->
  (PositiveSet.mem c S = true \/ exists s, In s l /\ enc s = c).
Proof.
  induction l as [|a l IH]; intros S c; cbn [fold_left].
  - split; [auto | intros [H | [s [[] _]]]; exact H].
  - rewrite IH. split.
    + intros [H | [s [Hin He]]].
      * change (PositiveSet.In c (PositiveSet.add (enc a) S)) in H.
        apply PositiveSet.add_spec in H. destruct H as [E | H].
        -- right. exists a. split; [left; reflexivity | first [exact E | symmetry; exact E]].
        -- left. exact H.
      * right. exists s. split; [right; exact Hin | exact He].
    + intros [H | [s [[<- | Hin] He]]].
      * left. change (PositiveSet.In c (PositiveSet.add (enc a) S)).
        apply PositiveSet.add_spec. right. exact H.
      * left. change (PositiveSet.In c (PositiveSet.add (enc a) S)).
        apply PositiveSet.add_spec. left. first [exact He | symmetry; exact He].
      * right. exists s. split; [exact Hin | exact He].
Qed.

Lemma code_set_mem : forall l s, PositiveSet.mem (enc s) (code_set l) = true -> In s l.
Proof.
  intros l s H. unfold code_set in H. apply fold_add_mem in H.
  destruct H as [H | [s0 [Hin He]]].
  - exfalso. destruct (enc s); cbn in H; discriminate H.
  - apply enc_inj in He. subst. exact Hin.
Qed.

Lemma filter_some_in : forall A (l : list (option A)) a, In (Some a) l -> In a (filter_some l).
Proof.
  intros A l a. induction l as [|[x|] l IH]; cbn [filter_some]; intros H.
  - destruct H.
  - destruct H as [H | H]; [inversion H; left; reflexivity | right; apply IH; exact H].
  - destruct H as [H | H]; [discriminate | apply IH; exact H].
Qed.

Lemma all_labels_complete : forall lab, In lab all_labels.
Proof. intros []; cbn; auto 10. Qed.

Lemma step_in_succs : forall sys s lab s', step sys s lab = Some s' -> In s' (succs sys s).
Proof.
  intros sys s lab s' H. unfold succs. apply filter_some_in. rewrite <- H.
  apply in_map. apply all_labels_complete.
Qed.

(* a list that passes the certificate check contains every reachable state *)
Lemma closed_check_sound : forall sys l,
  closed_check sys l = true -> forall s, reachable sys s -> In s l.
Proof.
  intros sys l H. unfold closed_check in H. apply andb_true_iff in H. destruct H as [Hi Hc].
  rewrite forallb_forall in Hc.
  intros s R. induction R as [|s lab s' R IH E].
  - apply code_set_mem. exact Hi.
  - specialize (Hc s IH). rewrite forallb_forall in Hc.
    apply code_set_mem. apply Hc. eapply step_in_succs. exact E.
Qed.

Lemma explore_closed : forall sys f l, explore sys f = Some l -> closed_check sys l = true.
Proof.
  intros sys f l H. unfold explore in H.
  destruct (bfs sys f [init] _ [init]) as [l0|]; [|discriminate].
  destruct (closed_check sys l0) eqn:C; [|discriminate].
  inversion H; subst. exact C.
Qed.

Theorem explore_sound : forall sys f l (safe : state -> bool),
  explore sys f = Some l -> forallb safe l = true ->
  forall s, reachable sys s -> safe s = true.
Proof.
  intros sys f l safe E A s R.
  rewrite forallb_forall in A. apply A.
  eapply closed_check_sound; [eapply explore_closed; exact E | exact R].
Qed.

Theorem check_sound : forall sys (safe : state -> bool),
  check sys safe = true -> forall s, reachable sys s -> safe s = true.
Proof.
  intros sys safe H. unfold check in H.
  destruct (explore sys fuel) as [l|] eqn:E; [|discriminate].
  eapply explore_sound; [exact E | exact H].
Qed.

(* the computed list is exactly the reachable set when it is duplicate-free and every member
   is reachable; the second half is not needed for safety and is not proved here -- the
   refutation below exhibits a concrete execution instead. *)

(* ------------------------------------------------------------------ small helpers *)
Lemma implb_elim : forall a b, implb a b = true -> a = true -> b = true.
Proof. intros [|] [|]; cbn; auto; discriminate. Qed.

(* ------------------------------------------------------------------ the property lemmas *)
Section PerSystem.
  Variable l : launch.

  Lemma stop_safe_repaired :
    check (l, Repaired) stop_safe_b = true ->
    forall s, reachable (l, Repaired) s -> stop_ret s = true -> active s = false.
  Proof.
    intros C s R H. pose proof (check_sound _ _ C s R) as S. unfold stop_safe_b in S.
    apply (implb_elim _ _ S) in H. apply negb_true_iff in H. exact H.
  Qed.

  Lemma no_lost_wakeup_repaired :
    check (l, Repaired) no_lost_wakeup_b = true ->
    forall s, reachable (l, Repaired) s -> lp s = LSleep -> cv s = CvAsleep ->
      (run s = false /\ alive s = true) \/ notify_pending s = true.
  Proof.
    intros C s R H1 H2. pose proof (check_sound _ _ C s R) as S. unfold no_lost_wakeup_b in S.
    assert (A : asleep_unnotified s = true) by (unfold asleep_unnotified; rewrite H1, H2; reflexivity).
    apply (implb_elim _ _ S) in A. apply orb_true_iff in A. destruct A as [A | A]; [left | right; exact A].
    apply andb_true_iff in A. destruct A as [A1 A2]. apply negb_true_iff in A1. auto.
  Qed.

  Lemma start_progress_repaired :
    check (l, Repaired) (start_progress_b Repaired) = true ->
    forall s, reachable (l, Repaired) s -> start_ret s = true ->
      loop_reaches Repaired body_running K_start s.
  Proof.
    intros C s R H. pose proof (check_sound _ _ C s R) as S. unfold start_progress_b in S.
    apply loop_alone_sound. exact (implb_elim _ _ S H).
  Qed.

  Lemma dtor_progress_repaired :
    check (l, Repaired) (dtor_progress_b (l, Repaired)) = true ->
    forall s, reachable (l, Repaired) s -> in_dtor s = true ->
      loop_reaches Repaired (ctl_enabled l) K_dtor s.
  Proof.
    intros C s R H. pose proof (check_sound _ _ C s R) as S. unfold dtor_progress_b in S.
    apply loop_alone_sound. exact (implb_elim _ _ S H).
  Qed.

  Lemma stop_progress_repaired :
    check (l, Repaired) (stop_progress_b Repaired) = true ->
    forall s, reachable (l, Repaired) s -> in_stop_wait s = true ->
      loop_reaches Repaired (fun s => negb (inside s)) K_stop s.
  Proof.
    intros C s R H. pose proof (check_sound _ _ C s R) as S. unfold stop_progress_b in S.
    apply loop_alone_sound. exact (implb_elim _ _ S H).
  Qed.

  Lemma deadlock_free_repaired :
    check (l, Repaired) (deadlock_free_b (l, Repaired)) = true ->
    forall s, reachable (l, Repaired) s ->
      (exists lab s', step (l, Repaired) s lab = Some s') \/ (cp s = CDead /\ lp s = LDone).
  Proof.
    intros C s R. pose proof (check_sound _ _ C s R) as S. unfold deadlock_free_b in S.
    apply orb_true_iff in S. destruct S as [S | S].
    - left. unfold has_succ, succs in S.
      assert (G : forall ls, filter_some (map (step (l, Repaired) s) ls) <> [] ->
                  exists lab s', step (l, Repaired) s lab = Some s').
      { clear C S. induction ls as [|a ls IH]; cbn [map filter_some]; intro N; [exfalso; apply N; reflexivity|].
        destruct (step (l, Repaired) s a) as [s'|] eqn:E; [exists a, s'; exact E | apply IH; exact N]. }
      clear C. apply (G all_labels). destruct (filter_some (map (step (l, Repaired) s) all_labels)); [discriminate S | intro N; discriminate N].
    - right. clear C. unfold final in S. destruct (cp s); try discriminate S. destruct (lp s); try discriminate S. auto.
  Qed.
End PerSystem.

Lemma dtor_join_thread :
  check (THREAD, Repaired) (dtor_join_b Repaired) = true ->
  forall s, reachable (THREAD, Repaired) s -> cp s = DNot ->
    loop_reaches Repaired is_done K_dtor s.
Proof.
  intros C s R H. pose proof (check_sound _ _ C s R) as S. unfold dtor_join_b in S.
  apply loop_alone_sound. apply (implb_elim _ _ S). unfold after_notify. rewrite H. reflexivity.
Qed.

Lemma dtor_safe_thread :
  check (THREAD, Repaired) dtor_safe_b = true ->
  forall s, reachable (THREAD, Repaired) s -> dtor_ret s = true -> active s = false /\ lp s = LDone.
Proof.
  intros C s R H. pose proof (check_sound _ _ C s R) as S. unfold dtor_safe_b in S.
  apply (implb_elim _ _ S) in H. apply andb_true_iff in H. destruct H as [H1 H2].
  apply negb_true_iff in H1. split; [exact H1|]. clear C S. unfold is_done in H2. destruct (lp s); try discriminate H2. reflexivity.
Qed.

(* the reflective obligations, each closed by vm_compute *)
Lemma c_stop_safe_thread : check (THREAD, Repaired) stop_safe_b = true. Proof. vm_compute. reflexivity. Qed.
Lemma c_stop_safe_task : check (TASK, Repaired) stop_safe_b = true. Proof. vm_compute. reflexivity. Qed.
Lemma c_nlw_thread : check (THREAD, Repaired) no_lost_wakeup_b = true. Proof. vm_compute. reflexivity. Qed.
Lemma c_nlw_task : check (TASK, Repaired) no_lost_wakeup_b = true. Proof. vm_compute. reflexivity. Qed.
Lemma c_sp_thread : check (THREAD, Repaired) (start_progress_b Repaired) = true. Proof. vm_compute. reflexivity. Qed.
Lemma c_sp_task : check (TASK, Repaired) (start_progress_b Repaired) = true. Proof. vm_compute. reflexivity. Qed.
Lemma c_dp_thread : check (THREAD, Repaired) (dtor_progress_b (THREAD, Repaired)) = true. Proof. vm_compute. reflexivity. Qed.
Lemma c_dp_task : check (TASK, Repaired) (dtor_progress_b (TASK, Repaired)) = true. Proof. vm_compute. reflexivity. Qed.
Lemma c_pp_thread : check (THREAD, Repaired) (stop_progress_b Repaired) = true. Proof. vm_compute. reflexivity. Qed.
Lemma c_pp_task : check (TASK, Repaired) (stop_progress_b Repaired) = true. Proof. vm_compute. reflexivity. Qed.
Lemma c_df_thread : check (THREAD, Repaired) (deadlock_free_b (THREAD, Repaired)) = true. Proof. vm_compute. reflexivity. Qed.
Lemma c_df_task : check (TASK, Repaired) (deadlock_free_b (TASK, Repaired)) = true. Proof. vm_compute. reflexivity. Qed.
Lemma c_dj_thread : check (THREAD, Repaired) (dtor_join_b Repaired) = true. Proof. vm_compute. reflexivity. Qed.
Lemma c_ds_thread : check (THREAD, Repaired) dtor_safe_b = true. Proof. vm_compute. reflexivity. Qed.

Lemma all_launches : forall (P : launch -> Prop), P THREAD -> P TASK -> forall l, P l.
Proof. intros P H1 H2 []; assumption. Qed.

Lemma stop_safe_all : forall l s, reachable (l, Repaired) s -> stop_ret s = true -> active s = false.
Proof. apply (all_launches (fun l => forall s, reachable (l, Repaired) s -> stop_ret s = true -> active s = false));
  [apply stop_safe_repaired, c_stop_safe_thread | apply stop_safe_repaired, c_stop_safe_task]. Qed.

Lemma no_lost_wakeup_all : forall l s, reachable (l, Repaired) s -> lp s = LSleep -> cv s = CvAsleep ->
  (run s = false /\ alive s = true) \/ notify_pending s = true.
Proof. intros []; [apply no_lost_wakeup_repaired, c_nlw_thread | apply no_lost_wakeup_repaired, c_nlw_task]. Qed.

(* corollary: once start() has returned, a sleeping loop thread has been notified *)
Lemma started_not_forgotten : forall l s, reachable (l, Repaired) s ->
  start_ret s = true -> lp s = LSleep -> cv s = CvNotified.
Proof.
  intros l s R H1 H2.
  assert (C : check (l, Repaired) (fun s => implb (start_ret s && match lp s with LSleep => true | _ => false end)
                                             (match cv s with CvNotified => true | _ => false end)) = true)
    by (destruct l; vm_compute; reflexivity).
  pose proof (check_sound _ _ C s R) as S. clear C. cbv beta in S. rewrite H1, H2 in S. cbn [andb implb] in S.
  destruct (cv s); try discriminate S; reflexivity.
Qed.

Lemma start_progress_all : forall l s, reachable (l, Repaired) s -> start_ret s = true ->
  loop_reaches Repaired body_running K_start s.
Proof. intros []; [apply start_progress_repaired, c_sp_thread | apply start_progress_repaired, c_sp_task]. Qed.

Lemma dtor_progress_all : forall l s, reachable (l, Repaired) s -> in_dtor s = true ->
  loop_reaches Repaired (ctl_enabled l) K_dtor s.
Proof. intros []; [apply dtor_progress_repaired, c_dp_thread | apply dtor_progress_repaired, c_dp_task]. Qed.

Lemma stop_progress_all : forall l s, reachable (l, Repaired) s -> in_stop_wait s = true ->
  loop_reaches Repaired (fun s => negb (inside s)) K_stop s.
Proof. intros []; [apply stop_progress_repaired, c_pp_thread | apply stop_progress_repaired, c_pp_task]. Qed.

Lemma deadlock_free_all : forall l s, reachable (l, Repaired) s ->
  (exists lab s', step (l, Repaired) s lab = Some s') \/ (cp s = CDead /\ lp s = LDone).
Proof. intros []; [apply deadlock_free_repaired, c_df_thread | apply deadlock_free_repaired, c_df_task]. Qed.

Lemma dtor_join_all : forall s, reachable (THREAD, Repaired) s -> cp s = DNot ->
  loop_reaches Repaired is_done K_dtor s.
Proof. apply dtor_join_thread, c_dj_thread. Qed.

Lemma dtor_safe_all : forall s, reachable (THREAD, Repaired) s -> dtor_ret s = true ->
  active s = false /\ lp s = LDone.
Proof. apply dtor_safe_thread, c_ds_thread. Qed.

(* ------------------------------------------------------------------ launch-method resolution *)
Lemma resolve_thread : forall n, resolve MThread n = THREAD.
Proof. reflexivity. Qed.
Lemma resolve_task : forall n, resolve MTask n = TASK.
Proof. reflexivity. Qed.
Lemma resolve_auto : forall n, resolve MAuto n = if (4 <? n)%Z then TASK else THREAD.
Proof. reflexivity. Qed.
Lemma resolve_auto_thread_iff : forall n, resolve MAuto n = THREAD <-> (n <= 4)%Z.
Proof.
  intro n. unfold resolve. destruct (4 <? n)%Z eqn:E.
  - apply Z.ltb_lt in E. split; [discriminate | lia].
  - apply Z.ltb_ge in E. split; [intros _; exact E | reflexivity].
Qed.
Lemma resolve_owns_thread_iff : forall m n,
  resolve m n = THREAD <-> (m = MThread \/ (m = MAuto /\ (n <= 4)%Z)).
Proof.
  intros m n. destruct m.
  - rewrite resolve_auto_thread_iff. split; [intro H; right; auto | intros [H | [_ H]]; [discriminate | exact H]].
  - split; [intros _; left; reflexivity | reflexivity].
  - cbn. split; [discriminate | intros [H | [H _]]; discriminate].
Qed.

(* dtor-safety for the object as constructed: whenever the resolution gives a thread-owning loop *)
Lemma dtor_safe_resolved : forall m n s,
  resolve m n = THREAD -> reachable (resolve m n, Repaired) s -> dtor_ret s = true ->
  active s = false /\ lp s = LDone.
Proof. intros m n s E. rewrite E. apply dtor_safe_all. Qed.
Lemma dtor_join_resolved : forall m n s,
  resolve m n = THREAD -> reachable (resolve m n, Repaired) s -> cp s = DNot ->
  loop_reaches Repaired is_done K_dtor s.
Proof. intros m n s E. rewrite E. apply dtor_join_all. Qed.
Lemma dtor_safe_explicit_thread : forall n s,
  reachable (resolve MThread n, Repaired) s -> dtor_ret s = true -> active s = false /\ lp s = LDone.
Proof. intros n s. apply dtor_safe_resolved. reflexivity. Qed.

(* the code as found: stop-safety is false, for both launch methods *)
Lemma stop_unsafe_original : forall l, exists s,
  reachable (l, Original) s /\ stop_ret s = true /\ active s = true.
Proof.
  intros l.
  destruct (run_labels (l, Original) init refuting_schedule) as [s|] eqn:E;
    [| destruct l; vm_compute in E; discriminate].
  exists s. split; [eapply run_labels_reachable; [apply r_init | exact E]|].
  destruct l; vm_compute in E; inversion E; subst; cbn; auto.
Qed.

(* ... and the same schedule is harmless on the repaired code (it is not even executable
   step for step: the repaired loop tests the flag after publishing) *)
Lemma original_checker_says_unsafe : check (THREAD, Original) stop_safe_b = false.
Proof. vm_compute. reflexivity. Qed.

(* the other clauses do hold for the code as found (the defect is confined to stop()) *)
Lemma original_other_clauses :
  check (THREAD, Original) no_lost_wakeup_b = true /\
  check (THREAD, Original) (start_progress_b Original) = true /\
  check (THREAD, Original) (dtor_progress_b (THREAD, Original)) = true /\
  check (THREAD, Original) dtor_safe_b = true.
Proof. vm_compute. auto. Qed.

(* non-vacuity witnesses *)
Lemma counts : count (THREAD, Repaired) = 401%nat /\ count (TASK, Repaired) = 459%nat /\
               count (THREAD, Original) = 399%nat /\ count (TASK, Original) = 459%nat.
Proof. vm_compute. auto. Qed.

Definition sched_stop_returned : list label :=
  [CallStart; StepC; StepC; StepC; StepC; StepC; StepC; StepL; StepL; StepL; StepL; StepL; (* body running *)
   CallStop; StepC; StepC; StepC; (* spins *) StepL; StepL; (* body left, inside cleared *) StepC; StepC].
Lemma nonvac_stop_returned : exists s, reachable (THREAD, Repaired) s /\ stop_ret s = true.
Proof.
  destruct (run_labels (THREAD, Repaired) init sched_stop_returned) as [s|] eqn:E; [|vm_compute in E; discriminate].
  exists s. split; [eapply run_labels_reachable; [apply r_init | exact E]|].
  vm_compute in E. inversion E; reflexivity.
Qed.

Definition sched_sleep : list label := [StepL; StepL; StepL; StepL; StepL; StepL; StepL; StepL; StepL].
Lemma nonvac_asleep : exists s, reachable (THREAD, Repaired) s /\ lp s = LSleep /\ cv s = CvAsleep.
Proof.
  destruct (run_labels (THREAD, Repaired) init sched_sleep) as [s|] eqn:E; [|vm_compute in E; discriminate].
  exists s. split; [eapply run_labels_reachable; [apply r_init | exact E]|].
  vm_compute in E. inversion E; auto.
Qed.

Definition sched_started_asleep : list label :=
  sched_sleep ++ [CallStart; StepC; StepC; StepC; StepC; StepC; StepC].
Lemma nonvac_start_returned_asleep : exists s, reachable (THREAD, Repaired) s /\ start_ret s = true /\ lp s = LSleep.
Proof.
  destruct (run_labels (THREAD, Repaired) init sched_started_asleep) as [s|] eqn:E; [|vm_compute in E; discriminate].
  exists s. split; [eapply run_labels_reachable; [apply r_init | exact E]|].
  vm_compute in E. inversion E; auto.
Qed.

Definition sched_dtor : list label :=
  sched_sleep ++ [CallDestroy; StepC; StepC; StepC; StepC; StepC; StepL; StepL; StepL; StepL; StepL; StepL; StepC; StepC].
Lemma nonvac_dtor_returned : exists s, reachable (THREAD, Repaired) s /\ dtor_ret s = true.
Proof.
  destruct (run_labels (THREAD, Repaired) init sched_dtor) as [s|] eqn:E; [|vm_compute in E; discriminate].
  exists s. split; [eapply run_labels_reachable; [apply r_init | exact E]|].
  vm_compute in E. inversion E; reflexivity.
Qed.

(* the progress bounds are tight: one step less is not enough *)
Lemma K_start_tight :
  check (THREAD, Repaired) (fun s => implb (start_ret s) (loop_alone Repaired body_running (pred K_start) s)) = false.
Proof. vm_compute. reflexivity. Qed.
Lemma K_dtor_tight :
  check (THREAD, Repaired) (fun s => implb (after_notify s) (loop_alone Repaired is_done (pred K_dtor) s)) = false.
Proof. vm_compute. reflexivity. Qed.
