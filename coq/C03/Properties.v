(* C03 -- AsyncLoop honours its start/stop/destroy protocol on every interleaving.
   Property theorems only; each is closed by [exact] of a lemma of Proofs.v.
   [reachable sys s]: s is reached from [init] by ANY finite sequence of transitions of the
   closed system  loop thread || controller  (controller = arbitrary sequence of start()/stop()
   calls, optionally ended by the destructor; every interleaving; spurious wake-ups included).
   The statements are about the model of the REPAIRED AsyncLoop.h (Model.v, variant Repaired);
   the code as found is variant Original and carries the refutation. *)
From Coq Require Import List Bool ZArith.
From C03 Require Import Model Proofs ModelRMW ProofsRMW.

(* the engine: a computed state list that passes the closure check is an inductive invariant *)
Theorem explore_is_inductive_invariant : forall sys f l (safe : state -> bool),
  explore sys f = Some l -> forallb safe l = true ->
  forall s, reachable sys s -> safe s = true.
Proof. exact explore_sound. Qed.
Print Assumptions explore_is_inductive_invariant.

(* "After stop() returns, the loop body is not executing and does not begin executing again
   until start() is next called" -- both launch methods *)
Theorem stop_safe : forall l s,
  reachable (l, Repaired) s -> stop_ret s = true -> active s = false.
Proof. exact stop_safe_all. Qed.
Print Assumptions stop_safe.

(* no lost wake-up, state form: a sleeper nobody has notified is entitled to sleep
   (not running, not being destroyed) unless the controller is between its flag write and
   its notify_one *)
Theorem no_lost_wakeup : forall l s,
  reachable (l, Repaired) s -> lp s = LSleep -> cv s = CvAsleep ->
  (run s = false /\ alive s = true) \/ notify_pending s = true.
Proof. exact no_lost_wakeup_all. Qed.
Print Assumptions no_lost_wakeup.

(* ... hence once start() has returned a sleeping loop thread has been notified *)
Theorem started_loop_is_notified : forall l s,
  reachable (l, Repaired) s -> start_ret s = true -> lp s = LSleep -> cv s = CvNotified.
Proof. exact started_not_forgotten. Qed.
Print Assumptions started_loop_is_notified.

(* "After start() returns the body is executed again within bounded time": from every reachable
   state in which start() has returned (and neither stop() nor the destructor has been called
   since) the loop thread, scheduled alone, is inside the body within K_start = 9 of its steps *)
Theorem start_progress : forall l s,
  reachable (l, Repaired) s -> start_ret s = true ->
  loop_reaches Repaired body_running K_start s.
Proof. exact start_progress_all. Qed.
Print Assumptions start_progress.

(* "Destroying the AsyncLoop always terminates": at no point inside the destructor is the
   controller blocked (mutex, join) for more than K_dtor = 9 steps of the loop thread; the
   destructor itself is straight-line code *)
Theorem dtor_terminates : forall l s,
  reachable (l, Repaired) s -> in_dtor s = true ->
  loop_reaches Repaired (ctl_enabled l) K_dtor s.
Proof. exact dtor_progress_all. Qed.
Print Assumptions dtor_terminates.

(* The constructor's launch-method resolution, for every value n of numTaskingThreads():
   an explicit THREAD request always owns its thread, an explicit TASK request never does,
   AUTO owns a thread exactly when the tasking system has at most 4 threads. *)
Theorem resolve_thread_is_thread : forall n, resolve MThread n = THREAD.
Proof. exact resolve_thread. Qed.
Print Assumptions resolve_thread_is_thread.
Theorem resolve_task_is_task : forall n, resolve MTask n = TASK.
Proof. exact resolve_task. Qed.
Print Assumptions resolve_task_is_task.
Theorem resolve_auto_def : forall n, resolve MAuto n = if (4 <? n)%Z then TASK else THREAD.
Proof. exact resolve_auto. Qed.
Print Assumptions resolve_auto_def.
Theorem resolve_owns_thread_iff : forall m n,
  resolve m n = THREAD <-> (m = MThread \/ (m = MAuto /\ (n <= 4)%Z)).
Proof. exact Proofs.resolve_owns_thread_iff. Qed.
Print Assumptions resolve_owns_thread_iff.

(* "when the loop owns its thread" = the constructor resolved (method m, n tasking threads) to THREAD:
   after the destructor's notify the thread function returns within K_dtor steps (so join returns) ... *)
Theorem dtor_join_returns : forall m n s,
  resolve m n = THREAD -> reachable (resolve m n, Repaired) s -> cp s = DNot ->
  loop_reaches Repaired is_done K_dtor s.
Proof. exact dtor_join_resolved. Qed.
Print Assumptions dtor_join_returns.

(* ... and once the destructor has returned no body invocation is running or can begin *)
Theorem dtor_safe : forall m n s,
  resolve m n = THREAD -> reachable (resolve m n, Repaired) s -> dtor_ret s = true ->
  active s = false /\ lp s = LDone.
Proof. exact dtor_safe_resolved. Qed.
Print Assumptions dtor_safe.

(* in particular for an explicit THREAD request, whatever the size of the tasking system *)
Theorem dtor_safe_explicit_thread : forall n s,
  reachable (resolve MThread n, Repaired) s -> dtor_ret s = true -> active s = false /\ lp s = LDone.
Proof. exact Proofs.dtor_safe_explicit_thread. Qed.
Print Assumptions dtor_safe_explicit_thread.

(* stop() does not spin for ever (body assumed to return): within K_stop = 3 loop steps
   insideLoopBody is false *)
Theorem stop_terminates : forall l s,
  reachable (l, Repaired) s -> in_stop_wait s = true ->
  loop_reaches Repaired (fun s => negb (inside s)) K_stop s.
Proof. exact stop_progress_all. Qed.
Print Assumptions stop_terminates.

(* no deadlock: every reachable state has a successor, except the final one *)
Theorem deadlock_free : forall l s,
  reachable (l, Repaired) s ->
  (exists lab s', step (l, Repaired) s lab = Some s') \/ (cp s = CDead /\ lp s = LDone).
Proof. exact deadlock_free_all. Qed.
Print Assumptions deadlock_free.

(* the code as found (variant Original): stop-safety is FALSE -- a reachable state in which
   stop() has returned and the body is executing (schedule = Model.refuting_schedule) *)
Theorem stop_safe_old_refuted : forall l, exists s,
  reachable (l, Original) s /\ stop_ret s = true /\ active s = true.
Proof. exact stop_unsafe_original. Qed.
Print Assumptions stop_safe_old_refuted.

(* a variant of the REPAIRED code that keeps shouldBeRunning and insideLoopBody in one atomic word and updates a field
   by load / modify / store (not an atomic read-modify-write) is unsafe again: stop()'s clear is overwritten by the loop
   thread's stale write-back and the body runs after stop() returned (schedule ModelRMW.rmw_schedule).  This is why
   PropertiesFacts.v demands three independent std::atomic<bool> written by plain stores of constants. *)
Theorem merged_word_rmw_refuted : forall l, exists r,
  rreachable l r /\ stop_ret (base r) = true /\ active (base r) = true /\ run (base r) = true.
Proof. exact merged_rmw_unsafe. Qed.
Print Assumptions merged_word_rmw_refuted.

(* a stop() that waits for the body only for a bounded time is unsafe: reachable state with stop() returned while the body
   invocation that was in flight is still executing (schedule ModelRMW.bounded_wait_schedule).  stop_safe needs the
   UNBOUNDED wait `while (insideLoopBody) ...`; facts_stop pins that loop shape in the source. *)
Theorem stop_bounded_wait_refuted : forall l, exists s,
  breachable l s /\ stop_ret s = true /\ active s = true /\ inside s = true.
Proof. exact bounded_wait_unsafe. Qed.
Print Assumptions stop_bounded_wait_refuted.

(* a start() that notifies BEFORE it publishes shouldBeRunning loses the wake-up: reachable state with start() returned,
   the flag set, the loop thread asleep and un-notified, unable to move (schedule ModelRMW.early_notify_schedule) --
   the negation of started_loop_is_notified / start_progress.  facts_start_order pins write-under-lock-then-notify. *)
Theorem start_notify_before_publish_refuted : forall l, exists s,
  nreachable l s /\ start_ret s = true /\ run s = true /\ lp s = LSleep /\ cv s = CvAsleep /\
  step_loop Repaired s = None.
Proof. exact early_notify_loses_wakeup. Qed.
Print Assumptions start_notify_before_publish_refuted.

Theorem old_checker_verdict : check (THREAD, Original) stop_safe_b = false.
Proof. exact original_checker_says_unsafe. Qed.
Print Assumptions old_checker_verdict.

(* the defect is confined to stop(): the other clauses hold for the code as found *)
Theorem old_other_clauses_hold :
  check (THREAD, Original) no_lost_wakeup_b = true /\
  check (THREAD, Original) (start_progress_b Original) = true /\
  check (THREAD, Original) (dtor_progress_b (THREAD, Original)) = true /\
  check (THREAD, Original) dtor_safe_b = true.
Proof. exact original_other_clauses. Qed.
Print Assumptions old_other_clauses_hold.

(* sizes of the computed invariants *)
Example reachable_state_counts :
  count (THREAD, Repaired) = 401%nat /\ count (TASK, Repaired) = 459%nat /\
  count (THREAD, Original) = 399%nat /\ count (TASK, Original) = 459%nat.
Proof. exact counts. Qed.

(* non-vacuity of the hypotheses *)
Example nonvacuous_stop_returned : exists s, reachable (THREAD, Repaired) s /\ stop_ret s = true.
Proof. exact nonvac_stop_returned. Qed.
Example nonvacuous_asleep : exists s, reachable (THREAD, Repaired) s /\ lp s = LSleep /\ cv s = CvAsleep.
Proof. exact nonvac_asleep. Qed.
Example nonvacuous_started_asleep : exists s, reachable (THREAD, Repaired) s /\ start_ret s = true /\ lp s = LSleep.
Proof. exact nonvac_start_returned_asleep. Qed.
Example nonvacuous_dtor_returned : exists s, reachable (THREAD, Repaired) s /\ dtor_ret s = true.
Proof. exact nonvac_dtor_returned. Qed.
Example resolve_examples :
  resolve MAuto 0 = THREAD /\ resolve MAuto 4 = THREAD /\ resolve MAuto 5 = TASK /\ resolve MAuto 8 = TASK /\
  resolve MThread 8 = THREAD /\ resolve MTask 0 = TASK.
Proof. repeat split. Qed.
(* the progress bounds are tight *)
Example K_start_is_tight :
  check (THREAD, Repaired) (fun s => implb (start_ret s) (loop_alone Repaired body_running (pred K_start) s)) = false.
Proof. exact K_start_tight. Qed.
Example K_dtor_is_tight :
  check (THREAD, Repaired) (fun s => implb (after_notify s) (loop_alone Repaired is_done (pred K_dtor) s)) = false.
Proof. exact K_dtor_tight. Qed.
