From Coq Require Import Extraction ExtrOcamlBasic List.
From C03 Require Import Model.
Extraction "Model.ml" step init all_labels succs explore fuel enc refuting_schedule run_labels
  stop_safe_b no_lost_wakeup_b asleep_unnotified resolve.
