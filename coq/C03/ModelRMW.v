(* C03 -- why the facts insist on INDEPENDENT std::atomic<bool> flags written by plain stores.
   Variant of the repaired system in which shouldBeRunning and insideLoopBody live in ONE atomic word and a
   field is updated by   w = word.load(); w.field = v; word.store(w);   -- two atomic accesses, not an atomic
   read-modify-write.  The writer's copy of the OTHER field can be stale when it is stored back.
   Everything else is Model.step_loop / Model.step_ctl of the Repaired variant.  Definitions only. *)
From Coq Require Import List Bool.
From C03 Require Import Model.
Import ListNotations.

Record rstate := mkr {
  base : state;
  lcopy : option bool;     (* loop thread, inside setInsideLoopBody: the shouldBeRunning field of the word it loaded *)
  ccopy : option bool      (* controller, inside setShouldBeRunning: the insideLoopBody field of the word it loaded *)
}.
Definition rinit : rstate := mkr init None None.

(* the loop thread's setInsideLoopBody(v), standing at pc [here], continuing at [next] *)
Definition loop_rmw (r : rstate) (v : bool) (next : lpc) : rstate :=
  match lcopy r with
  | None => mkr (base r) (Some (run (base r))) (ccopy r)                                   (* load the word *)
  | Some stale => mkr (set_lp (set_run (set_inside (base r) v) stale) next) None (ccopy r)  (* store it back *)
  end.
(* the controller's setShouldBeRunning(v) *)
Definition ctl_rmw (r : rstate) (v : bool) (next : cpc) : rstate :=
  match ccopy r with
  | None => mkr (base r) (lcopy r) (Some (inside (base r)))
  | Some stale => mkr (set_cp (set_inside (set_run (base r) v) stale) next) (lcopy r) None
  end.

Definition rstep (l : launch) (r : rstate) (lab : label) : option rstate :=
  match lab with
  | StepL =>
    match lp (base r) with
    | LPub => Some (loop_rmw r true LTest)
    | LBodyX => Some (loop_rmw r false LClr)
    | LIdle => Some (loop_rmw r false LBeforeLock)
    | _ => match step_loop Repaired (base r) with Some s => Some (mkr s (lcopy r) (ccopy r)) | None => None end
    end
  | StepC =>
    match cp (base r) with
    | SLocked => Some (ctl_rmw r true SSet)
    | PChk => Some (ctl_rmw r false PClr)
    | DClrA => Some (ctl_rmw r false DClr)
    | _ => match step_ctl l (base r) with Some s => Some (mkr s (lcopy r) (ccopy r)) | None => None end
    end
  | lab => match step (l, Repaired) (base r) lab with Some s => Some (mkr s (lcopy r) (ccopy r)) | None => None end
  end.

Fixpoint rrun (l : launch) (r : rstate) (ls : list label) : option rstate :=
  match ls with
  | [] => Some r
  | x :: q => match rstep l r x with Some r' => rrun l r' q | None => None end
  end.

(* start() runs to completion (its setShouldBeRunning takes two steps); the loop thread wakes nobody yet: it comes
   from the top, loads the word inside setInsideLoopBody(true) while shouldBeRunning is still true; stop() then does
   its whole read-modify-write (shouldBeRunning := false) ...; the loop thread stores its stale copy back
   (shouldBeRunning = true again), runs the body, clears insideLoopBody -- stop() sees it and returns -- and the loop
   thread, finding shouldBeRunning true, enters the body again: after stop() returned. *)
Definition rmw_schedule : list label :=
  [CallStart; StepC; StepC; StepC; StepC; StepC; StepC; StepC;      (* start(): check, lock, load, store, unlock, notify, ..., return *)
   StepL; StepL; StepL;                                              (* loop: alive, alive, LOAD word (run = true) *)
   CallStop; StepC; StepC;                                           (* stop(): check; load word; store run := false *)
   StepL;                                                            (* loop: STORE inside := true, run := true (stale) *)
   StepL; StepL; StepL;                                              (* loop: test run = true; body entered; body left *)
   StepL; StepL;                                                     (* loop: setInsideLoopBody(false): load, store *)
   StepC; StepC;                                                     (* stop(): reads insideLoopBody = false; returns *)
   StepL; StepL; StepL; StepL; StepL; StepL].                        (* loop: alive, alive, load, store, test run = true, body *)

(* ------------------------------------------------------------------------------------------------------------
   Second variant: stop() waits for insideLoopBody only for a BOUNDED time (one timed wait whose result is ignored,
   a retry counter, ...): modelled as "having found the body inside once, the next look gives up and returns".
   Everything else is the Repaired system. *)
Definition bstep (l : launch) (s : state) (lab : label) : option state :=
  match lab, cp s with
  | StepC, PSpin => Some (set_cp s PRet)            (* the bound has elapsed: return whatever insideLoopBody says *)
  | _, _ => step (l, Repaired) s lab
  end.
Fixpoint brun (l : launch) (s : state) (ls : list label) : option state :=
  match ls with
  | [] => Some s
  | x :: q => match bstep l s x with Some s' => brun l s' q | None => None end
  end.
(* start(); the loop thread enters the body; stop(): clears the flag, finds the body inside, gives up, returns *)
Definition bounded_wait_schedule : list label :=
  [CallStart; StepC; StepC; StepC; StepC; StepC; StepC;
   StepL; StepL; StepL; StepL; StepL;                       (* alive, alive, publish inside, test run = true, body entered *)
   CallStop; StepC; StepC; StepC; StepC].                   (* run := false; inside = true -> spin; bound elapsed; return *)

(* ------------------------------------------------------------------------------------------------------------
   Third variant: start() signals the condition variable BEFORE it publishes the flag:
     if (!shouldBeRunning) { notify_one(); { lock; shouldBeRunning = true; } }
   A sleeper woken by that early notify re-evaluates the predicate (still false) and goes back to sleep; the flag is then
   written and nobody notifies again.  Everything else is the Repaired system. *)
Definition nstep (l : launch) (s : state) (lab : label) : option state :=
  match lab, cp s with
  | StepC, SChk => Some (set_cp (notify s) SNot)                                       (* notify first *)
  | StepC, SNot => if mfree s then Some (set_cp (set_mtx s MC) SLocked) else None      (* then lock ... *)
  | StepC, SUnl => Some (set_cp s SRet)                                                (* ... write, unlock, and no notify *)
  | _, _ => step (l, Repaired) s lab
  end.
Fixpoint nrun (l : launch) (s : state) (ls : list label) : option state :=
  match ls with
  | [] => Some s
  | x :: q => match nstep l s x with Some s' => nrun l s' q | None => None end
  end.
Definition early_notify_schedule : list label :=
  [StepL; StepL; StepL; StepL; StepL; StepL; StepL; StepL; StepL;    (* the loop thread goes to sleep *)
   CallStart; StepC;                                                 (* start(): test, NOTIFY *)
   StepL; StepL; StepL; StepL;                                       (* woken: re-lock, predicate false (flag not yet written), sleep again *)
   StepC; StepC; StepC; StepC; StepC].                               (* lock, shouldBeRunning := true, unlock, (no notify), return *)
