From Coq Require Import List Bool.
From C03 Require Import Model ModelRMW.
Import ListNotations.

Inductive rreachable (l : launch) : rstate -> Prop :=
| rr_init : rreachable l rinit
| rr_step : forall r lab r', rreachable l r -> rstep l r lab = Some r' -> rreachable l r'.

Lemma rrun_reachable : forall l ls r r', rreachable l r -> rrun l r ls = Some r' -> rreachable l r'.
Proof.
  intros l ls. induction ls as [|x q IH]; intros r r' R H; cbn [rrun] in H.
  - inversion H; subst; exact R.
  - destruct (rstep l r x) as [r1|] eqn:E; [|discriminate H].
    eapply IH; [eapply rr_step; [exact R | exact E] | exact H].
Qed.

Lemma merged_rmw_unsafe : forall l, exists r,
  rreachable l r /\ stop_ret (base r) = true /\ active (base r) = true /\ run (base r) = true.
Proof.
  intro l. destruct (rrun l rinit rmw_schedule) as [r|] eqn:E; [| destruct l; vm_compute in E; discriminate E].
  exists r. split; [eapply rrun_reachable; [apply rr_init | exact E]|].
  destruct l; vm_compute in E; inversion E; subst; cbn; auto.
Qed.

Inductive breachable (l : launch) : state -> Prop :=
| br_init : breachable l init
| br_step : forall s lab s', breachable l s -> bstep l s lab = Some s' -> breachable l s'.

Lemma brun_reachable : forall l ls s s', breachable l s -> brun l s ls = Some s' -> breachable l s'.
Proof.
  intros l ls. induction ls as [|x q IH]; intros s s' R H; cbn [brun] in H.
  - inversion H; subst; exact R.
  - destruct (bstep l s x) as [s1|] eqn:E; [|discriminate H].
    eapply IH; [eapply br_step; [exact R | exact E] | exact H].
Qed.

Lemma bounded_wait_unsafe : forall l, exists s,
  breachable l s /\ stop_ret s = true /\ active s = true /\ inside s = true.
Proof.
  intro l. destruct (brun l init bounded_wait_schedule) as [s|] eqn:E; [| destruct l; vm_compute in E; discriminate E].
  exists s. split; [eapply brun_reachable; [apply br_init | exact E]|].
  destruct l; vm_compute in E; inversion E; subst; cbn; auto.
Qed.

Inductive nreachable (l : launch) : state -> Prop :=
| nr_init : nreachable l init
| nr_step : forall s lab s', nreachable l s -> nstep l s lab = Some s' -> nreachable l s'.

Lemma nrun_reachable : forall l ls s s', nreachable l s -> nrun l s ls = Some s' -> nreachable l s'.
Proof.
  intros l ls. induction ls as [|x q IH]; intros s s' R H; cbn [nrun] in H.
  - inversion H; subst; exact R.
  - destruct (nstep l s x) as [s1|] eqn:E; [|discriminate H].
    eapply IH; [eapply nr_step; [exact R | exact E] | exact H].
Qed.

(* start() has returned, shouldBeRunning is set, and the loop thread sleeps un-notified: it cannot move *)
Lemma early_notify_loses_wakeup : forall l, exists s,
  nreachable l s /\ start_ret s = true /\ run s = true /\ lp s = LSleep /\ cv s = CvAsleep /\
  step_loop Repaired s = None.
Proof.
  intro l. destruct (nrun l init early_notify_schedule) as [s|] eqn:E; [| destruct l; vm_compute in E; discriminate E].
  exists s. split; [eapply nrun_reachable; [apply nr_init | exact E]|].
  destruct l; vm_compute in E; inversion E; subst; cbn; auto 10.
Qed.
