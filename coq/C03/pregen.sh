#!/bin/bash
# Regenerates gen/Facts.v (micro-operation programs of AsyncLoop's members, declarations, constructor facts) from
# the repository working tree so that the Coq project builds from clean (bin/setup); the check does the same on every run.
cd "$(dirname "$0")"
mkdir -p gen
exec python3 ../../props/C03/factgen.py --repo "${VERIF_REPO:-/repo}" --out gen/Facts.v --work ../../build/C03/ast 2>/dev/null
