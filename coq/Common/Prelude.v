(* Shared prelude for the hand-written models: imports and the lia set-up
   recommended for div/mod and boolean comparisons. *)
From Coq Require Export List Arith ZArith NArith Lia Bool.
From Coq Require Export ZifyBool ZifyNat ZifyN.
Export ListNotations.
Ltac Zify.zify_post_hook ::= Z.div_mod_to_equations.

(* Strings are lists of character codes (N) so that extraction needs
   ExtrOcamlBasic only. *)
Definition str := list N.

Fixpoint str_eqb (a b : str) : bool :=
  match a, b with
  | [], [] => true
  | x :: a', y :: b' => N.eqb x y && str_eqb a' b'
  | _, _ => false
  end.

Lemma str_eqb_eq a b : str_eqb a b = true <-> a = b.
Proof.
  revert b; induction a as [|x a IH]; intros [|y b]; simpl; split; intro H;
    try reflexivity; try discriminate.
  - apply andb_true_iff in H as [H1 H2]. apply N.eqb_eq in H1. apply IH in H2. congruence.
  - inversion H; subst. rewrite N.eqb_refl. simpl. apply IH. reflexivity.
Qed.

Lemma str_eqb_refl a : str_eqb a a = true.
Proof. apply str_eqb_eq. reflexivity. Qed.

Lemma str_eqb_neq a b : str_eqb a b = false <-> a <> b.
Proof.
  split; intro H.
  - intro E. apply str_eqb_eq in E. congruence.
  - destruct (str_eqb a b) eqn:E; [apply str_eqb_eq in E; contradiction | reflexivity].
Qed.
