(* C01/C02 — the tie of the three instruction tables of Pipe.v (prog_write, prog_reader, prog_front) to the
   C++ source rkcommon/tasking/detail/enkiTS/LockLessMultiReadPipe.h (+ Atomics.h).  Definitions only.

   props/C01/pipe_factgen.py reads the clang JSON AST of the INSTANTIATED members of
   enki::LockLessMultiReadPipe<3, uint32_t> in the working tree and TRANSLITERATES each method body, one
   source statement -> one [sstmt], in source order, into the small structured language below (python does no
   control-flow flattening and no reordering; what it does not recognise becomes SUnknown / XUnknown /
   LUnknown).  The result is gen/PipeFacts.v (src_write, src_reader, src_front + constants, member types,
   the Atomics.h wrappers, IsPipeEmpty, Clear, the constructor).

   [compile] (Gallina, below) flattens a statement list into Pipe.instr with absolute jump targets; it
   returns None on anything it does not support.  PropertiesPipeFacts.v proves by computation that
   compile src_X = Some prog_X, i.e. the tables the machine of Pipe.v runs are the source, statement by
   statement, in the source's order.

   Flattening scheme (the tables in Pipe.v were written with it):
     T x;                      no instruction
     T x = g / x = g           ILoad r g                 (g one of m_WriteIndex m_ReadCount m_ReadIndex)
     T x = e / x = e           ISet r e'                 (e over locals and constants)
     ++x / --x                 ISet r (EAdd1/ESub1 (EReg r))
     --m_X / ++m_X             ILoad Rtmp g; IStore g (ESub1/EAdd1 (EReg Rtmp))
     m_X = e                   [ILoad Rtmp ..;] IStore g e'
     AtomicAdd(&m_X, n)        IAdd g n
     x = AtomicCompareAndSwap(&m_Flags[a], s, c)     ICas r ra s c
     x = m_Flags[a]            ILoadFlag r ra
     *pOut = m_Buffer[a]       ILoadBuf Rout ra
     m_Buffer[a] = in          IStoreBuf ra Rin
     m_Flags[a] = K            IStoreFlag ra K
     barrier                   IBarrier
     return b                  IRet b
     break                     IJmp (first instruction after the enclosing while)
     if (c) S                  [load]; IfNot c' Lend; S; Lend:
     if (c) S1 else S2         [load]; IfNot c' Lelse; S1; IJmp Lend; Lelse: S2; Lend:
     while (true) B            Lhead: B; IJmp Lhead; Lbreak:
   A condition / stored expression may contain at most ONE volatile read (m_X or m_Flags[a]); it is loaded
   into Rtmp first.  The right operand of || must not contain one (it would be evaluated conditionally). *)
From Coq Require String.
From Common Require Import Prelude.
From C01 Require Import Pipe.
Import String.StringSyntax.
Local Open Scope string_scope.
Local Open Scope list_scope.
Local Open Scope N_scope.

Notation string := String.string.

(* ------------------------------------------------------------------ the source-level language *)
Inductive sexp :=
| XVar (x : string)                    (* a local variable of the method *)
| XIn                                  (* the argument `in` of WriterTryWriteFront *)
| XMem (g : gvar)                      (* read of the volatile member m_WriteIndex / m_ReadCount / m_ReadIndex *)
| XFlags (i : sexp)                    (* read of m_Flags[i] *)
| XBuf (i : sexp)                      (* read of m_Buffer[i] *)
| XConst (name : string) (v : N)       (* static const member: its name and the value of its initializer *)
| XTParam (name : string) (v : N)      (* non-type template argument (cSizeLog2) and its instantiated value *)
| XLit (n : N)
| XAdd (a b : sexp)
| XSub (a b : sexp)
| XAnd (a b : sexp)
| XShl (a b : sexp)
| XEq (a b : sexp)
| XNe (a b : sexp)
| XGe (a b : sexp)                     (* unsigned >= *)
| XGt (a b : sexp)                     (* unsigned > *)
| XOr (a b : sexp)                     (* || *)
| XCas (idx swapTo compareWith : sexp) (* AtomicCompareAndSwap( &m_Flags[idx], swapTo, compareWith ), the uint32_t overload *)
| XUnknown (what : string).

Inductive lhs :=
| LVar (x : string)
| LMem (g : gvar)
| LFlags (i : sexp)
| LBuf (i : sexp)
| LOut                                 (* *pOut *)
| LUnknown (what : string).

Inductive sstmt :=
| SDecl (ty : string) (x : string) (init : option sexp)
| SAssign (l : lhs) (e : sexp)
| SPreInc (l : lhs)
| SPreDec (l : lhs)
| SAtomicAdd (g : gvar) (n : sexp)     (* AtomicAdd( (volatile int32_t* )&g, n ) *)
| SIf (c : sexp) (t : list sstmt) (e : option (list sstmt))
| SWhileTrue (b : list sstmt)
| SBreak
| SReturn (b : bool)
| SReturnE (e : sexp)                  (* return <non-literal> (IsPipeEmpty) *)
| SBarrier                             (* __asm__ __volatile__("": : :"memory") *)
| SMemsetFlags (v : N)                 (* memset( (void* )m_Flags, v, sizeof( m_Flags ) ) *)
| SAssert (what : string)
| SUnknown (what : string).

(* the body of an Atomics.h wrapper *)
Inductive wstmt :=
| WReturnCall (builtin : string) (args : list string)   (* return builtin(args), args are names of the wrapper's arguments *)
| WUnknown (what : string).

(* ------------------------------------------------------------------ compile *)
Definition k_inst : N := 3.            (* the instantiation pipe_factgen.py dumps: LockLessMultiReadPipe<3, uint32_t> *)

Definition seqb (a b : string) : bool := String.eqb a b.

Definition reg_of (x : string) : option reg :=
  if seqb x "writeIndex" then Some Rwi
  else if seqb x "readCount" then Some Rrc
  else if seqb x "readIndexToUse" then Some Ridx
  else if seqb x "frontReadIndex" then Some Ridx
  else if seqb x "actualReadIndex" then Some Ract
  else if seqb x "actualWriteIndex" then Some Ract
  else if seqb x "previous" then Some Rprev
  else if seqb x "numInPipe" then Some Rnum
  else None.

Definition reg_eqb (a b : reg) : bool :=
  match a, b with
  | Rwi, Rwi | Rrc, Rrc | Ridx, Ridx | Ract, Ract | Rprev, Rprev | Rnum, Rnum | Rtmp, Rtmp | Rin, Rin | Rout, Rout => true
  | _, _ => false
  end.
Definition gvar_eqb (a b : gvar) : bool :=
  match a, b with GW, GW | GRC, GRC | GRI, GRI => true | _, _ => false end.

(* the locals are uint32_t *)
Definition ty_ok (ty : string) : bool := seqb ty "uint32_t".

(* a compile-time constant operand *)
Definition kval (e : sexp) : option N :=
  match e with XConst _ v => Some v | XLit n => Some n | _ => None end.

(* an index expression: a local *)
Definition idx_reg (e : sexp) : option reg :=
  match e with XVar a => reg_of a | _ => None end.

(* expressions; every volatile read is first loaded into Rtmp (the callers accept at most one) *)
Fixpoint cexp (e : sexp) : option (list instr * exp) :=
  match e with
  | XVar x => match reg_of x with Some r => Some ([], EReg r) | None => None end
  | XIn => Some ([], EReg Rin)
  | XConst _ v => Some ([], EConst v)
  | XLit n => Some ([], EConst n)
  | XMem g => Some ([ILoad Rtmp g], EReg Rtmp)
  | XFlags (XVar a) => match reg_of a with Some ra => Some ([ILoadFlag Rtmp ra], EReg Rtmp) | None => None end
  | XSub a b =>
      match cexp a, cexp b with
      | Some (la, a'), Some (lb, b') => Some (la ++ lb, ESub a' b')
      | _, _ => None
      end
  | XAdd a (XLit n) =>
      if n =? 1 then match cexp a with Some (la, a') => Some (la, EAdd1 a') | None => None end else None
  | XAnd a (XConst nm v) =>
      if seqb nm "ms_cIndexMask" && (v =? N.ones k_inst)
      then match cexp a with Some (la, a') => Some (la, EMask a') | None => None end
      else None
  | _ => None
  end.

Definition max1 (l : list instr) : bool := Nat.leb (length l) 1.
Definition is_nil (l : list instr) : bool := match l with [] => true | _ => false end.

Definition cbin (f : exp -> exp -> cond) (a b : sexp) : option (list instr * cond) :=
  match cexp a, cexp b with
  | Some (la, a'), Some (lb, b') => Some (la ++ lb, f a' b')
  | _, _ => None
  end.

Fixpoint ccond (c : sexp) : option (list instr * cond) :=
  match c with
  | XEq a b => cbin CEq a b
  | XNe a b => cbin CNe a b
  | XGe a b => cbin CGe a b
  | XGt a (XLit n) =>                           (* a > n  written  a >= n+1  (Pipe.cond has no CGt) *)
      match cexp a with Some (la, a') => Some (la, CGe a' (EConst (n + 1))) | None => None end
  | XOr a b =>
      match ccond a, ccond b with
      | Some (la, a'), Some (lb, b') => if is_nil lb then Some (la, COr a' b') else None
      | _, _ => None
      end
  | _ => None
  end.

Definition ccond1 (c : sexp) : option (list instr * cond) :=
  match ccond c with
  | Some (ld, c') => if max1 ld then Some (ld, c') else None
  | None => None
  end.

Definition cassign_var (x : string) (e : sexp) : option (list instr) :=
  match reg_of x with
  | None => None
  | Some r =>
      match e with
      | XMem g => Some [ILoad r g]
      | XFlags i => match idx_reg i with Some ra => Some [ILoadFlag r ra] | None => None end
      | XBuf i => match idx_reg i with Some ra => Some [ILoadBuf r ra] | None => None end
      | XCas i s c =>
          match idx_reg i, kval s, kval c with
          | Some ra, Some sv, Some cv => Some [ICas r ra sv cv]
          | _, _, _ => None
          end
      | _ => match cexp e with
             | Some (ld, e') => if max1 ld then Some (ld ++ [ISet r e']) else None
             | None => None
             end
      end
  end.

Definition cassign (l : lhs) (e : sexp) : option (list instr) :=
  match l with
  | LVar x => cassign_var x e
  | LMem g => match cexp e with
              | Some (ld, e') => if max1 ld then Some (ld ++ [IStore g e']) else None
              | None => None
              end
  | LFlags i => match idx_reg i, kval e with
                | Some ra, Some v => Some [IStoreFlag ra v]
                | _, _ => None
                end
  | LBuf i => match idx_reg i, e with
              | Some ra, XIn => Some [IStoreBuf ra Rin]
              | Some ra, XVar x => match reg_of x with Some rx => Some [IStoreBuf ra rx] | None => None end
              | _, _ => None
              end
  | LOut => match e with
            | XBuf i => match idx_reg i with Some ra => Some [ILoadBuf Rout ra] | None => None end
            | _ => None
            end
  | LUnknown _ => None
  end.

Definition cincdec (f : exp -> exp) (l : lhs) : option (list instr) :=
  match l with
  | LVar x => match reg_of x with Some r => Some [ISet r (f (EReg r))] | None => None end
  | LMem g => Some [ILoad Rtmp g; IStore g (f (EReg Rtmp))]
  | _ => None
  end.

(* brk: the target of `break` (None outside a loop); pos: the absolute position of the first instruction *)
Fixpoint cstmt (brk : option nat) (pos : nat) (s : sstmt) {struct s} : option (list instr) :=
  let cblock :=
    fix cblock (brk : option nat) (pos : nat) (l : list sstmt) {struct l} : option (list instr) :=
      match l with
      | [] => Some []
      | s :: r =>
          match cstmt brk pos s with
          | None => None
          | Some a => match cblock brk (pos + length a)%nat r with
                      | None => None
                      | Some b => Some (a ++ b)
                      end
          end
      end in
  match s with
  | SDecl ty x None => if ty_ok ty then match reg_of x with Some _ => Some [] | None => None end else None
  | SDecl ty x (Some e) => if ty_ok ty then cassign_var x e else None
  | SAssign l e => cassign l e
  | SPreInc l => cincdec EAdd1 l
  | SPreDec l => cincdec ESub1 l
  | SAtomicAdd g (XLit n) => Some [IAdd g n]
  | SAtomicAdd _ _ => None
  | SIf c t e =>
      match ccond1 c with
      | None => None
      | Some (ld, c') =>
          let p1 := (pos + length ld + 1)%nat in
          match cblock brk p1 t with
          | None => None
          | Some ct =>
              match e with
              | None => Some (ld ++ [IfNot c' (p1 + length ct)%nat] ++ ct)
              | Some el =>
                  let lelse := (p1 + length ct + 1)%nat in
                  match cblock brk lelse el with
                  | None => None
                  | Some ce => Some (ld ++ [IfNot c' lelse] ++ ct ++ [IJmp (lelse + length ce)%nat] ++ ce)
                  end
              end
          end
      end
  | SWhileTrue b =>
      (* the body is compiled twice: once to learn its length (the code does not depend on the break target) *)
      match cblock (Some O) pos b with
      | None => None
      | Some tmp =>
          match cblock (Some (pos + length tmp + 1)%nat) pos b with
          | None => None
          | Some body => Some (body ++ [IJmp pos])
          end
      end
  | SBreak => match brk with Some t => Some [IJmp t] | None => None end
  | SReturn b => Some [IRet b]
  | SBarrier => Some [IBarrier]
  | SReturnE _ | SMemsetFlags _ | SAssert _ | SUnknown _ => None
  end.

Fixpoint cblock (brk : option nat) (pos : nat) (l : list sstmt) {struct l} : option (list instr) :=
  match l with
  | [] => Some []
  | s :: r =>
      match cstmt brk pos s with
      | None => None
      | Some a => match cblock brk (pos + length a)%nat r with
                  | None => None
                  | Some b => Some (a ++ b)
                  end
      end
  end.

(* the names declared in a body (all scopes) *)
Fixpoint decls_stmt (s : sstmt) {struct s} : list string :=
  let decls_block :=
    fix decls_block (l : list sstmt) {struct l} : list string :=
      match l with [] => [] | s :: r => decls_stmt s ++ decls_block r end in
  match s with
  | SDecl _ x _ => [x]
  | SIf _ t e => decls_block t ++ match e with Some el => decls_block el | None => [] end
  | SWhileTrue b => decls_block b
  | _ => []
  end.
Definition decls (l : list sstmt) : list string := flat_map decls_stmt l.

Fixpoint nodupb {A} (eqb : A -> A -> bool) (l : list A) : bool :=
  match l with
  | [] => true
  | a :: r => negb (existsb (eqb a) r) && nodupb eqb r
  end.

Definition opt_reg_eqb (a b : option reg) : bool :=
  match a, b with Some x, Some y => reg_eqb x y | None, None => true | _, _ => false end.

(* no name declared twice (no shadowing) and no two declared names in the same register *)
Definition decls_ok (l : list sstmt) : bool :=
  nodupb seqb (decls l) && nodupb opt_reg_eqb (map reg_of (decls l)).

Definition compile (l : list sstmt) : option (list instr) :=
  if decls_ok l then cblock None 0 l else None.

(* ------------------------------------------------------------------ order of the accesses in a table *)
Fixpoint index_of (f : instr -> bool) (p : list instr) : option nat :=
  match p with
  | [] => None
  | i :: r => if f i then Some O else option_map S (index_of f r)
  end.

(* every predicate occurs, and the first occurrences are in strictly increasing position *)
Fixpoint chain_from (lo : option nat) (fs : list (instr -> bool)) (p : list instr) : bool :=
  match fs with
  | [] => true
  | f :: r =>
      match index_of f p with
      | None => false
      | Some n => match lo with Some m => Nat.ltb m n | None => true end && chain_from (Some n) r p
      end
  end.
Definition before (fs : list (instr -> bool)) (p : list instr) : bool := chain_from None fs p.
Definition before_in (fs : list (instr -> bool)) (src : list sstmt) : bool :=
  match compile src with Some p => before fs p | None => false end.

Definition is_storebuf (i : instr) : bool := match i with IStoreBuf _ _ => true | _ => false end.
Definition is_loadbuf (i : instr) : bool := match i with ILoadBuf _ _ => true | _ => false end.
Definition is_storeflag (v : N) (i : instr) : bool := match i with IStoreFlag _ v' => v' =? v | _ => false end.
Definition is_barrier (i : instr) : bool := match i with IBarrier => true | _ => false end.
Definition is_store (g : gvar) (i : instr) : bool := match i with IStore g' _ => gvar_eqb g' g | _ => false end.
Definition is_add (g : gvar) (i : instr) : bool := match i with IAdd g' _ => gvar_eqb g' g | _ => false end.
Definition is_cas (i : instr) : bool := match i with ICas _ _ _ _ => true | _ => false end.
Definition is_loadflag (i : instr) : bool := match i with ILoadFlag _ _ => true | _ => false end.
Definition count_if (f : instr -> bool) (p : list instr) : nat := length (filter f p).

(* ------------------------------------------------------------------ constants, types, wrappers *)
Definition M32 : N := 2 ^ 32.

(* constant expressions (the initializers of the static const members), uint32_t arithmetic *)
Fixpoint keval (e : sexp) : option N :=
  match e with
  | XLit n => Some (n mod M32)
  | XConst _ v => Some (v mod M32)
  | XTParam _ v => Some v
  | XAdd a b => match keval a, keval b with Some x, Some y => Some ((x + y) mod M32) | _, _ => None end
  | XSub a b => match keval a, keval b with Some x, Some y => Some ((x + (M32 - y mod M32)) mod M32) | _, _ => None end
  | XAnd a b => match keval a, keval b with Some x, Some y => Some (N.land x y) | _, _ => None end
  | XShl a b => match keval a, keval b with Some x, Some y => Some ((x * 2 ^ y) mod M32) | _, _ => None end
  | _ => None
  end.

Definition flags_ok (can_write can_read invalid : N) : bool :=
  (can_write =? FLAG_CAN_WRITE) && (can_read =? FLAG_CAN_READ) && (invalid =? FLAG_INVALID).

Fixpoint sexp_eqb (a b : sexp) {struct a} : bool :=
  match a, b with
  | XVar x, XVar y => seqb x y
  | XIn, XIn => true
  | XMem g, XMem h => gvar_eqb g h
  | XFlags i, XFlags j | XBuf i, XBuf j => sexp_eqb i j
  | XConst n v, XConst m w | XTParam n v, XTParam m w => seqb n m && (v =? w)
  | XLit n, XLit m => n =? m
  | XAdd a1 a2, XAdd b1 b2 | XSub a1 a2, XSub b1 b2 | XAnd a1 a2, XAnd b1 b2 | XShl a1 a2, XShl b1 b2
  | XEq a1 a2, XEq b1 b2 | XNe a1 a2, XNe b1 b2 | XGe a1 a2, XGe b1 b2 | XGt a1 a2, XGt b1 b2
  | XOr a1 a2, XOr b1 b2 => sexp_eqb a1 b1 && sexp_eqb a2 b2
  | XCas a1 a2 a3, XCas b1 b2 b3 => sexp_eqb a1 b1 && sexp_eqb a2 b2 && sexp_eqb a3 b3
  | _, _ => false
  end.

(* ms_cSize = ( 1 << cSizeLog2 ), ms_cIndexMask = ms_cSize - 1, for the instantiated cSizeLog2 = k *)
Definition size_mask_ok (k : N) (size_init : sexp) (size_v : N) (mask_init : sexp) (mask_v : N) : bool :=
  sexp_eqb size_init (XShl (XLit 1) (XTParam "cSizeLog2" k))
  && sexp_eqb mask_init (XSub (XConst "ms_cSize" size_v) (XLit 1))
  && (size_v =? 2 ^ k) && (mask_v =? N.ones k)
  && match keval size_init with Some v => v =? size_v | None => false end
  && match keval mask_init with Some v => v =? mask_v | None => false end.

(* a member type: (as written, desugared) *)
Definition is_volatile_u32 (t : string * string) : bool :=
  seqb (fst t) "volatile uint32_t" && seqb (snd t) "volatile unsigned int".
Definition is_const_u32 (t : string * string) : bool :=
  seqb (fst t) "const uint32_t" && seqb (snd t) "const unsigned int".

Fixpoint list_eqb {A} (eqb : A -> A -> bool) (a b : list A) : bool :=
  match a, b with
  | [], [] => true
  | x :: r, y :: s => eqb x y && list_eqb eqb r s
  | _, _ => false
  end.
Definition pair_eqb (a b : string * string) : bool := seqb (fst a) (fst b) && seqb (snd a) (snd b).

Definition wstmt_eqb (a b : wstmt) : bool :=
  match a, b with
  | WReturnCall f xs, WReturnCall g ys => seqb f g && list_eqb seqb xs ys
  | _, _ => false
  end.

(* uint32_t AtomicCompareAndSwap( volatile uint32_t* pDest, uint32_t swapTo, uint32_t compareWith )
     { return __sync_val_compare_and_swap( pDest, compareWith, swapTo ); }
   stated positionally: the builtin receives (1st argument, 3rd argument, 2nd argument) — old value 3rd, new value 2nd *)
Definition cas_wrapper_ok (ret : string) (params : list (string * string)) (body : list wstmt) : bool :=
  seqb ret "uint32_t"
  && list_eqb seqb (map snd params) ["volatile uint32_t *"; "uint32_t"; "uint32_t"]
  && nodupb seqb (map fst params)
  && match map fst params with
     | [p0; p1; p2] => list_eqb wstmt_eqb body [WReturnCall "__sync_val_compare_and_swap_4" [p0; p2; p1]]
     | _ => false
     end.

(* int32_t AtomicAdd( volatile int32_t* pDest, int32_t value ) { return __sync_fetch_and_add( pDest, value ); } *)
Definition add_wrapper_ok (ret : string) (params : list (string * string)) (body : list wstmt) : bool :=
  seqb ret "int32_t"
  && list_eqb seqb (map snd params) ["volatile int32_t *"; "int32_t"]
  && nodupb seqb (map fst params)
  && match map fst params with
     | [p0; p1] => list_eqb wstmt_eqb body [WReturnCall "__sync_fetch_and_add_4" [p0; p1]]
     | _ => false
     end.

(* bool IsPipeEmpty() const { return 0 == m_WriteIndex - m_ReadCount; }   (Pipe.is_pipe_empty) *)
Definition is_pipe_empty_ok (body : list sstmt) : bool :=
  match body with
  | [SReturnE e] => sexp_eqb e (XEq (XLit 0) (XSub (XMem GW) (XMem GRC)))
  | _ => false
  end.

Definition sets_zero (g : gvar) (s : sstmt) : bool :=
  match s with SAssign (LMem g') (XLit n) => gvar_eqb g' g && (n =? 0) | _ => false end.
Definition is_memset0 (s : sstmt) : bool :=
  match s with SMemsetFlags v => v =? 0 | _ => false end.
Definition is_assert (s : sstmt) : bool := match s with SAssert _ => true | _ => false end.

(* Clear(): nothing but the three indices set to 0 and memset( m_Flags, 0, sizeof m_Flags )   (Pipe.clear) *)
Definition clear_ok (body : list sstmt) : bool :=
  forallb (fun s => sets_zero GW s || sets_zero GRC s || sets_zero GRI s || is_memset0 s) body
  && existsb (sets_zero GW) body && existsb (sets_zero GRC) body && existsb (sets_zero GRI) body
  && existsb is_memset0 body.

(* the constructor: the three indices initialised with 0; body: assert + memset( m_Flags, 0, sizeof m_Flags )
   (Pipe.init: indices 0, every flag FLAG_CAN_WRITE = 0) *)
Definition init_zero (name : string) (inits : list (string * sexp)) : bool :=
  existsb (fun p => seqb (fst p) name && sexp_eqb (snd p) (XLit 0)) inits.
Definition ctor_ok (inits : list (string * sexp)) (body : list sstmt) : bool :=
  Nat.eqb (length inits) 3
  && init_zero "m_WriteIndex" inits && init_zero "m_ReadCount" inits && init_zero "m_ReadIndex" inits
  && forallb (fun s => is_assert s || is_memset0 s) body
  && existsb is_memset0 body
  && (FLAG_CAN_WRITE =? 0).

(* the methods' signatures: (type of the method, [(argument name, type)]) *)
Definition sig_ok (want_ty want_arg want_argty : string) (s : string * list (string * string)) : bool :=
  seqb (fst s) want_ty && list_eqb pair_eqb (snd s) [(want_arg, want_argty)].

(* ------------------------------------------------------------------ equality of tables (for the extracted explorer) *)
Fixpoint exp_eqb (a b : exp) {struct a} : bool :=
  match a, b with
  | EReg r, EReg s => reg_eqb r s
  | EConst n, EConst m => n =? m
  | EAdd1 x, EAdd1 y | ESub1 x, ESub1 y | EMask x, EMask y => exp_eqb x y
  | ESub x1 x2, ESub y1 y2 => exp_eqb x1 y1 && exp_eqb x2 y2
  | _, _ => false
  end.
Fixpoint cond_eqb (a b : cond) {struct a} : bool :=
  match a, b with
  | CEq x1 x2, CEq y1 y2 | CNe x1 x2, CNe y1 y2 | CGe x1 x2, CGe y1 y2 => exp_eqb x1 y1 && exp_eqb x2 y2
  | COr c1 c2, COr d1 d2 => cond_eqb c1 d1 && cond_eqb c2 d2
  | _, _ => false
  end.
Definition instr_eqb (a b : instr) : bool :=
  match a, b with
  | ILoad r g, ILoad s h => reg_eqb r s && gvar_eqb g h
  | IStore g e, IStore h f => gvar_eqb g h && exp_eqb e f
  | IAdd g n, IAdd h m => gvar_eqb g h && (n =? m)
  | ILoadFlag r i, ILoadFlag s j | ILoadBuf r i, ILoadBuf s j | IStoreBuf r i, IStoreBuf s j => reg_eqb r s && reg_eqb i j
  | IStoreFlag i v, IStoreFlag j w => reg_eqb i j && (v =? w)
  | ICas r i n c, ICas s j m d => reg_eqb r s && reg_eqb i j && (n =? m) && (c =? d)
  | ISet r e, ISet s f => reg_eqb r s && exp_eqb e f
  | IfNot c t, IfNot d u => cond_eqb c d && Nat.eqb t u
  | IJmp t, IJmp u => Nat.eqb t u
  | IRet x, IRet y => Bool.eqb x y
  | IBarrier, IBarrier => true
  | _, _ => false
  end.
Definition prog_eqb (p q : list instr) : bool := list_eqb instr_eqb p q.
