(* C01 — no uint32_t wrap: every range the machine ever holds lies inside [0, n]; for n < 2^32 the regenerated
   source's uint32_t SplitTask and pipe-full statement therefore compute exactly the model's step in every
   reachable state. *)
From Coq Require Import ZArith List String Bool Lia Permutation.
From Common Require Import Prelude CxxSem.
From C01 Require Import Model ProofsArith ProofsEnki SrcLang ProofsSrc.
From C01.gen Require Import Src.
Import ListNotations.
Local Open Scope Z_scope.

Definition pin (n : Z) (q : part) : Prop := 0 <= fst q /\ fst q <= snd q /\ snd q <= n.
Definition entry_pin (n : Z) (e : entry) : Prop :=
  pin n (e_run e) /\ match e_rest e with Some r => pin n r | None => True end.
Record bounded (p : params) (s : st) : Prop := {
  b_pipes : Forall (fun op : nat * part => pin (P_n p) (snd op)) (pipes s);
  b_entries : Forall (entry_pin (P_n p)) (entries s);
  b_adder : match adder s with Some (_, r) => pin (P_n p) r | None => True end }.

Lemma split_pin n sub r pc sub' : pin n sub -> 0 <= r -> split_task sub r = (pc, sub') -> pin n pc /\ pin n sub'.
Proof.
  intros (H1 & H2 & H3) Hr H. unfold split_task in H.
  destruct (snd sub - fst sub <? r) eqn:E; inversion H; subst; unfold pin; cbn [fst snd]; lia.
Qed.

Lemma adjust_pin n rtr pc sub' pc2 sub2 : pin n pc -> pin n sub' -> snd pc <= fst sub' -> 0 <= rtr ->
  full_adjust rtr (pc, sub') = (pc2, sub2) -> pin n pc2 /\ pin n sub2.
Proof.
  intros (H1 & H2 & H3) (H4 & H5 & H6) H7 Hr H. unfold full_adjust in H.
  destruct (rtr <? plen pc) eqn:E; inversion H; subst; unfold pin, plen in *; cbn [fst snd]; lia.
Qed.

Lemma split_contig sub r pc sub' : split_task sub r = (pc, sub') -> snd pc = fst sub'.
Proof. unfold split_task. intro H. inversion H; subst. reflexivity. Qed.

Lemma full_iter_pin n rtr r sub pc sub' : pin n sub -> 0 <= r -> 0 <= rtr ->
  full_adjust rtr (split_task sub r) = (pc, sub') -> pin n pc /\ pin n sub'.
Proof.
  intros Hs Hr Hrtr H. destruct (split_task sub r) as [pc0 sub0] eqn:Es.
  destruct (split_pin n sub r pc0 sub0 Hs Hr Es) as [A B].
  apply (adjust_pin n rtr pc0 sub0 pc sub' A B); [rewrite (split_contig _ _ _ _ Es); lia | exact Hrtr | exact H].
Qed.

Lemma bounded_init p t0 : 0 <= P_n p -> bounded p (init p t0).
Proof. intro H. constructor; cbn; try constructor; unfold pin; cbn; lia. Qed.

Lemma pF {A} (P : A -> Prop) l x r : Permutation l (x :: r) -> Forall P l -> P x /\ Forall P r.
Proof. intros H F. apply (Permutation_Forall H) in F. inversion F; auto. Qed.

Lemma bounded_step p s l s' : wf_params p -> bounded p s -> step p s l = Some s' -> bounded p s'.
Proof.
  intros (Wr & Ws & Wn) [Bp Be Ba] H. assert (R0 : 0 <= P_rts p) by lia. assert (R1 : 0 <= P_rtr p) by lia.
  unfold step, step_gen in H. destruct l.
  - destruct (adder s) as [[t sub]|] eqn:Ea; [|discriminate]. destruct (fst sub =? snd sub); [discriminate|].
    destruct (split_task sub (P_rts p)) as [pc sub'] eqn:Es. inversion H; subst s'; clear H.
    destruct (split_pin _ _ _ _ _ Ba R0 Es) as [A B].
    constructor; cbn [pipes adder entries]; [constructor; assumption|assumption|assumption].
  - destruct (adder s) as [[t sub]|] eqn:Ea; [|discriminate]. destruct (fst sub =? snd sub); [discriminate|].
    destruct (full_adjust (P_rtr p) (split_task sub (P_rts p))) as [pc sub'] eqn:Es. inversion H; subst s'; clear H.
    destruct (full_iter_pin _ _ _ _ _ _ Ba R0 R1 Es) as [A B].
    constructor; cbn [exec_piece pipes adder entries]; assumption.
  - destruct (adder s) as [[t sub]|] eqn:Ea; [|discriminate]. destruct (fst sub =? snd sub); [|discriminate].
    inversion H; subst s'; clear H. constructor; cbn [pipes adder entries]; (assumption || exact I).
  - destruct (negb (t <? P_T p)%nat); [discriminate|].
    destruct (pop_first t (pipes s)) as [[q rest]|] eqn:Ep; [|discriminate]. inversion H; subst s'; clear H.
    apply pop_first_perm in Ep. destruct (pF _ _ _ _ Ep Bp) as [Hq Hr].
    constructor; cbn [pipes adder entries]; [assumption| |assumption].
    constructor; [split; [exact Hq|exact I]|assumption].
  - destruct (negb (t <? P_T p)%nat || (t =? u)%nat); [discriminate|].
    destruct (pop_last u (pipes s)) as [[q rest]|] eqn:Ep; [|discriminate]. inversion H; subst s'; clear H.
    apply pop_last_perm in Ep. destruct (pF _ _ _ _ Ep Bp) as [Hq Hr].
    constructor; cbn [pipes adder entries]; [assumption| |assumption].
    constructor; [split; [exact Hq|exact I]|assumption].
  - destruct (take_nth i (entries s)) as [[e others]|] eqn:Ee; [|discriminate].
    destruct (e_rest e) eqn:Er; [discriminate|]. destruct (P_rtr p <? plen (e_run e)); [|discriminate].
    destruct (split_task (e_run e) (P_rtr p)) as [run rest] eqn:Es. inversion H; subst s'; clear H.
    apply take_nth_perm in Ee. destruct (pF _ _ _ _ Ee Be) as [[He _] Ho].
    destruct (split_pin _ _ _ _ _ He R1 Es) as [A B].
    constructor; cbn [pipes adder entries]; [assumption| |assumption].
    constructor; [split; assumption|assumption].
  - destruct (take_nth i (entries s)) as [[e others]|] eqn:Ee; [|discriminate].
    destruct (e_rest e) as [sub|] eqn:Er; [|discriminate]. destruct (fst sub =? snd sub); [discriminate|].
    destruct (split_task sub (P_rtr p)) as [pc sub'] eqn:Es. inversion H; subst s'; clear H.
    apply take_nth_perm in Ee. destruct (pF _ _ _ _ Ee Be) as [[He Hrest] Ho]. rewrite Er in Hrest.
    destruct (split_pin _ _ _ _ _ Hrest R1 Es) as [A B].
    constructor; cbn [pipes adder entries]; [constructor; assumption| |assumption].
    constructor; [split; assumption|assumption].
  - destruct (take_nth i (entries s)) as [[e others]|] eqn:Ee; [|discriminate].
    destruct (e_rest e) as [sub|] eqn:Er; [|discriminate]. destruct (fst sub =? snd sub); [discriminate|].
    destruct (full_adjust (P_rtr p) (split_task sub (P_rtr p))) as [pc sub'] eqn:Es. inversion H; subst s'; clear H.
    apply take_nth_perm in Ee. destruct (pF _ _ _ _ Ee Be) as [[He Hrest] Ho]. rewrite Er in Hrest.
    destruct (full_iter_pin _ _ _ _ _ _ Hrest R1 R1 Es) as [A B].
    constructor; cbn [exec_piece pipes adder entries]; [assumption| |assumption].
    constructor; [split; assumption|assumption].
  - destruct (take_nth i (entries s)) as [[e others]|] eqn:Ee; [|discriminate].
    destruct (e_rest e) as [sub|] eqn:Er; [|discriminate]. destruct (fst sub =? snd sub); [|discriminate].
    inversion H; subst s'; clear H.
    apply take_nth_perm in Ee. destruct (pF _ _ _ _ Ee Be) as [[He Hrest] Ho].
    constructor; cbn [pipes adder entries]; [assumption| |assumption].
    constructor; [split; [assumption|exact I]|assumption].
  - destruct (take_nth i (entries s)) as [[e others]|] eqn:Ee; [|discriminate].
    destruct (e_rest e) as [sub|] eqn:Er; [discriminate|]. destruct (P_rtr p <? plen (e_run e)); [discriminate|].
    inversion H; subst s'; clear H. apply take_nth_perm in Ee. destruct (pF _ _ _ _ Ee Be) as [_ Ho].
    constructor; cbn [exec_piece pipes adder entries]; assumption.
  - destruct (take_nth j (owed s)) as [[o others]|]; [|discriminate]. inversion H; subst s'; clear H.
    constructor; cbn [pipes adder entries]; assumption.
Qed.

Lemma bounded_reachable p t0 s : wf_params p -> reachable p t0 s -> bounded p s.
Proof.
  intros W R. induction R as [|s l s' R IH Hs]; [apply bounded_init; destruct W as (_ & _ & ?); assumption|].
  eapply bounded_step; eassumption.
Qed.

Lemma pin_u32 n q : n < 4294967296 -> pin n q -> u32 (fst q) /\ u32 (snd q) /\ fst q <= snd q.
Proof. intros Hn (H1 & H2 & H3). unfold u32. lia. Qed.

(* one SplitAndAddTask iteration of the SOURCE (uint32_t SplitTask, then the pipe-full statement when the
   write failed) on a range held by a reachable state = the model's iteration *)
Definition iter_src (rtr r : Z) (sub : part) (full : bool) : option (part * part) :=
  match split_src (fst sub) (snd sub) r with
  | Some ps => if full then adjust_src rtr ps else Some ps
  | None => None
  end.
Definition iter_model (rtr r : Z) (sub : part) (full : bool) : part * part :=
  if full then full_adjust rtr (split_task sub r) else split_task sub r.

Lemma iter_src_exact n rtr r sub full : n < 4294967296 -> u32 rtr -> u32 r -> pin n sub ->
  iter_src rtr r sub full = Some (iter_model rtr r sub full).
Proof.
  intros Hn Hrtr Hr Hs. destruct (pin_u32 n sub Hn Hs) as (A & B & C).
  unfold iter_src, iter_model. destruct sub as [lo hi]. cbn [fst snd] in *.
  rewrite (split_src_sem lo hi r A B C Hr). destruct full; [|reflexivity].
  destruct (split_task (lo, hi) r) as [pc sub'] eqn:Es.
  destruct (split_pin n (lo, hi) r pc sub' Hs ltac:(unfold u32 in Hr; lia) Es) as [P1 P2].
  destruct (pin_u32 n pc Hn P1) as (A1 & B1 & C1). destruct (pin_u32 n sub' Hn P2) as (A2 & B2 & C2).
  destruct pc as [a b]. destruct sub' as [c d]. cbn [fst snd] in *.
  apply adjust_src_sem; assumption.
Qed.

Theorem no_wrap_reachable p t0 s : wf_params p -> P_n p < 4294967296 -> u32 (P_rtr p) -> u32 (P_rts p) ->
  reachable p t0 s ->
  bounded p s /\
  (forall t sub full, adder s = Some (t, sub) ->
     iter_src (P_rtr p) (P_rts p) sub full = Some (iter_model (P_rtr p) (P_rts p) sub full)) /\
  (forall e, In e (entries s) ->
     iter_src (P_rtr p) (P_rtr p) (e_run e) false = Some (split_task (e_run e) (P_rtr p)) /\
     forall sub full, e_rest e = Some sub ->
       iter_src (P_rtr p) (P_rtr p) sub full = Some (iter_model (P_rtr p) (P_rtr p) sub full)).
Proof.
  intros W Hn Hrtr Hrts R. pose proof (bounded_reachable p t0 s W R) as B. split; [exact B|]. split.
  - intros t sub full Ea. pose proof (b_adder _ _ B) as Ha. rewrite Ea in Ha.
    apply (iter_src_exact (P_n p)); assumption.
  - intros e He. pose proof (b_entries _ _ B) as F. rewrite Forall_forall in F. destruct (F e He) as [Hrun Hrest].
    split; [apply (iter_src_exact (P_n p) _ _ _ false); assumption|].
    intros sub full Er. rewrite Er in Hrest. apply (iter_src_exact (P_n p)); assumption.
Qed.

(* the parameters AddTaskSetToPipe computes are themselves uint32_t values *)
Lemma mk_params_u32 n T : u32 n -> 1 <= Z.of_nat T <= 65536 ->
  u32 (P_rtr (mk_params n T)) /\ u32 (P_rts (mk_params n T)).
Proof.
  intros Hn HT. unfold mk_params, range_to_run, range_to_split. cbn [P_rtr P_rts].
  set (Tz := Z.of_nat T). assert (HTz : 1 <= Tz <= 65536) by (subst Tz; exact HT).
  assert (Hnp : 0 < num_partitions Tz) by (unfold num_partitions; destruct (Tz =? 1) eqn:E; nia).
  assert (Hni : 0 < num_initial_partitions Tz)
    by (unfold num_initial_partitions; destruct (Tz =? 1) eqn:E0; [lia|]; destruct (8 <? Tz - 1) eqn:E; lia).
  destruct (quot_small n _ Hn Hnp) as [Q1 Q2]. destruct (quot_small n _ Hn Hni) as [Q3 Q4].
  rewrite <- Q2, <- Q4.
  destruct (Z.quot n (num_partitions Tz) <? 1); destruct (Z.quot n (num_initial_partitions Tz) <? 1);
    split; (assumption || (unfold u32; lia)).
Qed.
