(* C01 — proofs about the index conversions, the block arithmetic and the foreach index map. *)
From Common Require Import Prelude CxxSem.
From C01 Require Import Model.
From Coq Require Import Permutation.
Local Open Scope Z_scope.

(* ------------------------------------------------------------------ zrange *)
Lemma zrange_length lo hi : length (zrange lo hi) = Z.to_nat (hi - lo).
Proof. unfold zrange. rewrite map_length, seq_length. reflexivity. Qed.

Lemma zrange_nil lo hi : hi <= lo -> zrange lo hi = [].
Proof. intro H. unfold zrange. replace (Z.to_nat (hi - lo)) with O by lia. reflexivity. Qed.

Lemma In_zrange x lo hi : In x (zrange lo hi) <-> lo <= x < hi.
Proof.
  unfold zrange. rewrite in_map_iff. split.
  - intros [i [E Hi]]. apply in_seq in Hi. lia.
  - intro H. exists (Z.to_nat (x - lo)). split; [lia|]. apply in_seq. lia.
Qed.

Lemma zrange_cons lo hi : lo < hi -> zrange lo hi = lo :: zrange (lo + 1) hi.
Proof.
  intro H. unfold zrange.
  replace (Z.to_nat (hi - lo)) with (Datatypes.S (Z.to_nat (hi - (lo + 1)))) by lia.
  cbn [seq map]. f_equal; [lia|].
  rewrite <- seq_shift, map_map. apply map_ext. intro i. lia.
Qed.

Lemma zrange_split lo m hi : lo <= m <= hi -> zrange lo hi = zrange lo m ++ zrange m hi.
Proof.
  intro H. unfold zrange.
  replace (Z.to_nat (hi - lo)) with (Z.to_nat (m - lo) + Z.to_nat (hi - m))%nat by lia.
  rewrite seq_app, map_app. f_equal. cbn [Nat.add].
  remember (Z.to_nat (m - lo)) as a eqn:Ea.
  remember (Z.to_nat (hi - m)) as k eqn:Ek. clear Ek.
  assert (Hm : m = lo + Z.of_nat a) by lia. clear Ea H.
  revert a m Hm. induction k as [|k IH]; intros a m Hm; [reflexivity|].
  cbn [seq map]. f_equal; [lia|].
  rewrite (IH (Datatypes.S a) (m + 1)) by lia.
  rewrite <- seq_shift, map_map. apply map_ext. intro i. lia.
Qed.

Lemma NoDup_zrange lo hi : NoDup (zrange lo hi).
Proof.
  unfold zrange. apply FinFun.Injective_map_NoDup; [|apply seq_NoDup].
  intros a b E. lia.
Qed.

(* a chain of well-formed pieces enumerates exactly lo .. hi-1, in order *)
Lemma chain_flat l : forall lo hi,
  chain lo hi l -> Forall (fun q => fst q <= snd q) l -> flat_map idx l = zrange lo hi /\ lo <= hi.
Proof.
  induction l as [|[a b] r IH]; intros lo hi Hc Hf; cbn [chain flat_map] in *.
  - subst. split; [symmetry; apply zrange_nil; lia | lia].
  - destruct Hc as [-> Hc]. inversion Hf as [|? ? Hab Hr]; subst. cbn in Hab.
    destruct (IH _ _ Hc Hr) as [E Hle]. rewrite E. unfold idx. cbn [fst snd].
    split; [symmetry; apply zrange_split; lia | lia].
Qed.

(* ------------------------------------------------------------------ conversions *)
Definition int_rank (t : ctype) : Prop := t = I32 \/ t = U32 \/ t = I64 \/ t = U64.

Lemma cty_int (t : ity) : isfloat (cty t) = false /\ cty t <> TBool.
Proof. destruct t; cbn; split; congruence. Qed.

Lemma wrap_cty t n : fits (cty t) n -> wrap (cty t) n = n.
Proof. intro H. destruct (cty_int t) as [A B]. apply wrap_fits; assumption. Qed.

Lemma to_i32_id z : - 2147483648 <= z <= 2147483647 -> to_i32 z = z.
Proof. intro H. unfold to_i32. apply wrap_fits; [reflexivity|congruence|]. unfold fits, tmin, tmax. cbn. lia. Qed.

Lemma to_u32_id z : 0 <= z <= 4294967295 -> to_u32 z = z.
Proof. intro H. unfold to_u32. apply wrap_fits; [reflexivity|congruence|]. unfold fits, tmin, tmax. cbn. lia. Qed.

(* a count representable in int is handed to enkiTS unchanged (old and repaired code) *)
Lemma setsize_old_ok t n : fits (cty t) n -> 0 <= n <= 2147483647 -> set_size_old t n = n.
Proof.
  intros Hf Hn. unfold set_size_old. rewrite (wrap_cty _ _ Hf), to_i32_id by lia. apply to_u32_id. lia.
Qed.

Lemma internal_request_ok t n : fits (cty t) n -> 0 < n <= 2147483647 -> internal_request t n = Some n.
Proof.
  intros Hf Hn. unfold internal_request. rewrite (wrap_cty _ _ Hf), to_i32_id by lia.
  destruct (n <=? 0) eqn:E; [lia|]. f_equal. apply to_u32_id. lia.
Qed.

Lemma internal_request_nonpos t n : fits (cty t) n -> - 2147483648 <= n <= 0 -> internal_request t n = None.
Proof.
  intros Hf Hn. unfold internal_request. rewrite (wrap_cty _ _ Hf), to_i32_id by lia.
  destruct (n <=? 0) eqn:E; [reflexivity|lia].
Qed.

(* all four backends are asked for exactly max(n,0) invocations when n is representable in int *)
Lemma requested_count_ok b t n :
  fits (cty t) n -> - 2147483648 <= n <= 2147483647 -> requested_count b t n = Z.max 0 n.
Proof.
  intros Hf Hn. destruct b; cbn [requested_count]; try (rewrite (wrap_cty _ _ Hf); reflexivity).
  destruct (Z_le_gt_dec n 0) as [Hle|Hgt].
  - rewrite internal_request_nonpos by (assumption || lia). lia.
  - rewrite internal_request_ok by (assumption || lia). lia.
Qed.

(* TBB / OpenMP / Debug: every representable n *)
Lemma requested_count_other b t n :
  b <> BInternal -> fits (cty t) n -> requested_count b t n = Z.max 0 n.
Proof. intros Hb Hf. destruct b; try congruence; cbn; rewrite (wrap_cty _ _ Hf); reflexivity. Qed.

(* ------------------------------------------------------------------ blocks *)
Lemma quot_div a b : 0 <= a -> 0 < b -> Z.quot a b = a / b.
Proof. intros. apply Z.quot_div_nonneg; lia. Qed.

Lemma num_blocks_pos n B : 0 < n -> 0 < B -> num_blocks n B = (n - 1) / B + 1.
Proof. intros Hn HB. unfold num_blocks. destruct (0 <? n) eqn:E; [|lia]. rewrite quot_div by lia. reflexivity. Qed.

Lemma num_blocks_nonpos n B : n <= 0 -> num_blocks n B = 0.
Proof. intro H. unfold num_blocks. destruct (0 <? n) eqn:E; [lia|reflexivity]. Qed.

(* facts about q = (n-1)/B used everywhere below *)
Lemma div_bounds n B : 0 < n -> 0 < B ->
  let q := (n - 1) / B in 0 <= q /\ B * q <= n - 1 /\ n - 1 < B * q + B.
Proof.
  intros Hn HB q. subst q.
  pose proof (Z.mul_div_le (n - 1) B HB). pose proof (Z.mul_succ_div_gt (n - 1) B HB).
  assert (0 <= (n - 1) / B) by (apply Z.div_pos; lia). lia.
Qed.

Lemma block_in_range n B b : 0 < n -> 0 < B -> 0 <= b < num_blocks n B ->
  0 <= block_begin B b < n /\ block_end n B b = Z.min (block_begin B b + B) n.
Proof.
  intros Hn HB Hb. rewrite num_blocks_pos in Hb by assumption.
  destruct (div_bounds n B Hn HB) as [Hq [Hlo Hhi]]. set (q := (n - 1) / B) in *.
  unfold block_begin, block_end.
  assert (b * B <= q * B) by (apply Z.mul_le_mono_nonneg_r; lia).
  assert (0 <= b * B) by (apply Z.mul_nonneg_nonneg; lia).
  split; [lia|]. unfold block_begin. destruct (n - b * B <? B) eqn:E; lia.
Qed.

Lemma blocks_chain_from n B : 0 < n -> 0 < B -> forall d j,
  0 <= j <= num_blocks n B -> Z.to_nat (num_blocks n B - j) = d ->
  chain (Z.min (j * B) n) n (map (block n B) (zrange j (num_blocks n B))).
Proof.
  intros Hn HB. induction d as [|d IH]; intros j Hj Hd.
  - assert (j = num_blocks n B) by lia. subst j. rewrite zrange_nil by lia. cbn.
    rewrite num_blocks_pos by assumption. destruct (div_bounds n B Hn HB) as [Hq [Hlo Hhi]]. lia.
  - rewrite zrange_cons by lia. cbn [map chain]. unfold block at 1.
    destruct (block_in_range n B j Hn HB ltac:(lia)) as [Hb He]. unfold block_begin in *.
    split; [lia|]. rewrite He.
    replace (Z.min (j * B + B) n) with (Z.min ((j + 1) * B) n) by (f_equal; lia).
    apply IH; lia.
Qed.

Lemma blocks_chain n B : 0 < n -> 0 < B -> chain 0 n (blocks n B).
Proof.
  intros Hn HB. unfold blocks.
  pose proof (blocks_chain_from n B Hn HB _ 0 ltac:(rewrite num_blocks_pos by assumption;
     destruct (div_bounds n B Hn HB); lia) eq_refl) as H.
  replace (Z.min (0 * B) n) with 0 in H by lia. exact H.
Qed.

Lemma blocks_each n B : 0 < n -> 0 < B ->
  Forall (fun q => 0 <= fst q /\ fst q < snd q /\ snd q <= fst q + B /\ snd q <= n) (blocks n B).
Proof.
  intros Hn HB. unfold blocks. apply Forall_forall. intros q Hq. apply in_map_iff in Hq.
  destruct Hq as [b [<- Hb]]. apply In_zrange in Hb.
  destruct (block_in_range n B b Hn HB Hb) as [H1 H2]. unfold block. cbn [fst snd]. lia.
Qed.

Lemma blocks_empty n B : n <= 0 -> blocks n B = [].
Proof. intro H. unfold blocks. rewrite num_blocks_nonpos by assumption. reflexivity. Qed.

Lemma blocks_cover n B : 0 <= n -> 0 < B -> flat_map idx (blocks n B) = zrange 0 n.
Proof.
  intros Hn HB. destruct (Z.eq_dec n 0) as [->|Hne].
  - rewrite blocks_empty by lia. reflexivity.
  - apply chain_flat; [apply blocks_chain; lia|].
    eapply Forall_impl; [|apply blocks_each; lia]. cbn. intros q H. lia.
Qed.

Lemma blocks_length n B : 0 < n -> 0 < B -> Z.of_nat (length (blocks n B)) = (n - 1) / B + 1.
Proof.
  intros Hn HB. unfold blocks. rewrite map_length, zrange_length, num_blocks_pos by assumption.
  destruct (div_bounds n B Hn HB). lia.
Qed.

(* the unrepaired text computes the same thing as long as nothing wraps *)
Lemma blocks_old_same_ideal n B b : 0 < n -> 0 < B ->
  num_blocks_old n B = num_blocks n B /\
  (0 <= b < num_blocks n B -> block_end_old n B b = block_end n B b).
Proof.
  intros Hn HB. split.
  - unfold num_blocks_old. rewrite num_blocks_pos, quot_div by lia.
    replace (n + B - 1) with (n - 1 + 1 * B) by lia. apply Z.div_add. lia.
  - intro Hb. destruct (block_in_range n B b Hn HB Hb) as [H1 H2]. rewrite H2.
    unfold block_end_old. destruct (n <? block_begin B b + B) eqn:E; lia.
Qed.

(* machine-width reading: with the repaired text no intermediate value leaves [0, n] *)
Lemma wrap_small t x n : int_rank t -> fits t n -> 0 <= x <= n -> wrap t x = x.
Proof.
  intros Ht Hf Hx. apply wrap_fits.
  - destruct Ht as [-> | [-> | [-> | ->]]]; reflexivity.
  - destruct Ht as [-> | [-> | [-> | ->]]]; congruence.
  - unfold fits in *. split; [|lia].
    destruct Ht as [-> | [-> | [-> | ->]]]; unfold tmin; cbn; lia.
Qed.

Lemma blocks_machine_exact t n B : int_rank t -> fits t n -> fits t B -> 0 < B ->
  m_num_blocks t n B = num_blocks n B /\
  forall b, 0 <= b < num_blocks n B ->
    m_block_begin t B b = block_begin B b /\ m_block_end t n B b = block_end n B b.
Proof.
  intros Ht Hn HBf HB.
  assert (WB : wrap t B = B).
  { apply wrap_fits; [destruct Ht as [-> | [-> | [-> | ->]]]; reflexivity
                     |destruct Ht as [-> | [-> | [-> | ->]]]; congruence|assumption]. }
  destruct (Z_le_gt_dec n 0) as [Hle|Hgt].
  - unfold m_num_blocks. rewrite num_blocks_nonpos by assumption.
    destruct (0 <? n) eqn:E; [lia|]. split; [reflexivity|]. intros b Hb. lia.
  - destruct (div_bounds n B ltac:(lia) HB) as [Hq [Hlo Hhi]].
    assert (Hqn : (n - 1) / B <= n - 1).
    { apply Z.div_le_upper_bound; [lia|]. nia. }
    split.
    + unfold m_num_blocks. rewrite num_blocks_pos by lia. destruct (0 <? n) eqn:E; [|lia].
      rewrite WB. rewrite (wrap_small t (n - 1) n) by (assumption || lia).
      rewrite quot_div by lia. rewrite (wrap_small t ((n - 1) / B) n) by (assumption || lia).
      apply (wrap_small t _ n); (assumption || lia).
    + intros b Hb. destruct (block_in_range n B b ltac:(lia) HB Hb) as [H1 H2].
      unfold m_block_end, m_block_begin. rewrite WB.
      unfold block_begin in *. rewrite (wrap_small t (b * B) n) by (assumption || lia).
      split; [reflexivity|].
      rewrite (wrap_small t (n - b * B) n) by (assumption || lia).
      unfold block_end, block_begin. apply (wrap_small t _ n); [assumption|assumption|].
      destruct (n - b * B <? B) eqn:E; lia.
Qed.

(* ------------------------------------------------------------------ foreach *)
Lemma foreach_once base size count : 0 < size ->
  NoDup (foreach_addrs base size count) /\
  length (foreach_addrs base size count) = Z.to_nat count /\
  (forall a, In a (foreach_addrs base size count) <-> exists i, 0 <= i < count /\ a = base + i * size).
Proof.
  intro Hs. unfold foreach_addrs. split; [|split].
  - apply FinFun.Injective_map_NoDup; [|apply NoDup_zrange]. intros a b E. nia.
  - rewrite map_length, zrange_length. f_equal. lia.
  - intro a. rewrite in_map_iff. split.
    + intros [i [E Hi]]. apply In_zrange in Hi. exists i. split; [lia|congruence].
    + intros [i [Hi E]]. exists i. split; [congruence|]. apply In_zrange. lia.
Qed.

(* ------------------------------------------------------------------ chunked partitions *)
Lemma chunks_chain_from n k : 0 <= n -> 0 < k -> forall d j,
  0 <= j <= k -> Z.to_nat (k - j) = d -> chain (n * j / k) n (map (chunk n k) (zrange j k)).
Proof.
  intros Hn Hk. induction d as [|d IH]; intros j Hj Hd.
  - assert (j = k) by lia. subst j. rewrite zrange_nil by lia. cbn. apply Z.div_mul. lia.
  - rewrite zrange_cons by lia. cbn [map chain]. unfold chunk at 1. split; [reflexivity|]. apply IH; lia.
Qed.

Lemma chunks_chain n k : 0 <= n -> 0 < k -> chain 0 n (chunks n k).
Proof.
  intros Hn Hk. unfold chunks. pose proof (chunks_chain_from n k Hn Hk _ 0 ltac:(lia) eq_refl) as H.
  replace (n * 0 / k) with 0 in H; [exact H|]. rewrite Z.mul_0_r. symmetry. apply Z.div_0_l. lia.
Qed.

Lemma chunks_each n k : 0 <= n -> 0 < k -> Forall (fun q => 0 <= fst q /\ fst q <= snd q /\ snd q <= n) (chunks n k).
Proof.
  intros Hn Hk. unfold chunks. apply Forall_forall. intros q Hq. apply in_map_iff in Hq. destruct Hq as [c [<- Hc]].
  apply In_zrange in Hc. unfold chunk. cbn [fst snd].
  assert (A : n * c <= n * (c + 1)) by nia.
  split; [apply Z.div_pos; nia|]. split; [apply Z.div_le_mono; lia|].
  apply Z.div_le_upper_bound; [lia|]. nia.
Qed.

Lemma chunks_cover n k : 0 <= n -> 0 < k -> flat_map idx (chunks n k) = zrange 0 n.
Proof.
  intros Hn Hk. apply chain_flat; [apply chunks_chain; assumption|].
  eapply Forall_impl; [|apply chunks_each; assumption]. cbn. intros q H. lia.
Qed.

(* the product evaluated in a 32-bit unsigned index: 3*10^8 indices in 64 chunks (16 threads x 4), chunk 15 starts at
   (4.5*10^9 mod 2^32)/64 = 3203636 instead of 70312500 *)
Lemma chunk_wrap_witness :
  m_chunk U32 300000000 64 15 = (3203636, 7891136) /\ chunk 300000000 64 15 = (70312500, 75000000) /\
  m_chunk U32 300000000 64 14 = (65625000, 3203636).
Proof. repeat split; vm_compute; reflexivity. Qed.
