#!/bin/bash
# regenerate gen/Src.v and gen/PipeFacts.v from the current repo sources (used by bin/setup; the check regenerates on every run)
cd "$(dirname "$0")"
mkdir -p gen ../../build/include/rkcommon ../../build/C01/ast
python3 ../../lib/mkversion.py >/dev/null 2>&1
python3 ../../tools/c01src/gen_src.py "${VERIF_REPO:-/repo}" ../../build/include gen/Src.v ../../build/C01/ast
mkdir -p ../../build/C01/pipe/ast
python3 ../../props/C01/pipe_factgen.py "${VERIF_REPO:-/repo}" ../../build/include gen/PipeFacts.v ../../build/C01/pipe/ast
