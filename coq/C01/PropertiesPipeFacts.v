(* C01/C02 — the instruction tables of Pipe.v ARE the source: obligations that tie prog_write / prog_reader /
   prog_front and the constants of Pipe.v to gen/PipeFacts.v, which props/C01/pipe_factgen.py regenerates from
   the clang AST of rkcommon/tasking/detail/enkiTS/LockLessMultiReadPipe.h + Atomics.h of the working tree on
   every run.  Everything here is decided by computation on the generated tables. *)
From Coq Require String.
From Common Require Import Prelude.
From C01 Require Import Pipe PipeFactsDefs PipeFactsProgs.
From C01.gen Require Import PipeFacts.
Import String.StringSyntax.
Local Open Scope string_scope.
Local Open Scope list_scope.
Local Open Scope N_scope.

(* ------------------------------------------------------------------ the three tables *)
Theorem pipe_src_write_is_model : compile src_write = Some prog_write.
Proof. vm_compute; reflexivity. Qed.
Print Assumptions pipe_src_write_is_model.

Theorem pipe_src_reader_is_model : compile src_reader = Some prog_reader.
Proof. vm_compute; reflexivity. Qed.
Print Assumptions pipe_src_reader_is_model.

Theorem pipe_src_front_is_model : compile src_front = Some prog_front.
Proof. vm_compute; reflexivity. Qed.
Print Assumptions pipe_src_front_is_model.

Theorem pipe_facts_progs_is_prog_of : forall m, facts_progs m = prog_of m.
Proof. intros [ | | ]; vm_compute; reflexivity. Qed.
Print Assumptions pipe_facts_progs_is_prog_of.

(* ------------------------------------------------------------------ constants *)
Theorem pipe_instantiation : inst_cSizeLog2 = Some k_inst /\ inst_T = "unsigned int".
Proof. vm_compute; split; reflexivity. Qed.
Print Assumptions pipe_instantiation.

Theorem pipe_flag_constants :
  FLAG_CAN_WRITE_v = Some FLAG_CAN_WRITE /\ FLAG_CAN_READ_v = Some FLAG_CAN_READ /\ FLAG_INVALID_v = Some FLAG_INVALID.
Proof. vm_compute; repeat split; reflexivity. Qed.
Print Assumptions pipe_flag_constants.

Theorem pipe_flag_constants_distinct :
  FLAG_CAN_WRITE_v <> FLAG_CAN_READ_v /\ FLAG_CAN_WRITE_v <> FLAG_INVALID_v /\ FLAG_CAN_READ_v <> FLAG_INVALID_v.
Proof. vm_compute; repeat split; discriminate. Qed.
Print Assumptions pipe_flag_constants_distinct.

Theorem pipe_flag_constants_are_const_uint32 :
  is_const_u32 FLAG_CAN_WRITE_ty && is_const_u32 FLAG_CAN_READ_ty && is_const_u32 FLAG_INVALID_ty
  && is_const_u32 ms_cSize_ty && is_const_u32 ms_cIndexMask_ty = true.
Proof. vm_compute; reflexivity. Qed.
Print Assumptions pipe_flag_constants_are_const_uint32.

(* ms_cSize = ( 1 << cSizeLog2 ) = 2^k and ms_cIndexMask = ms_cSize - 1 = Pipe.mask k, at the instantiated k = 3 *)
Theorem pipe_size_and_mask :
  match ms_cSize_v, ms_cIndexMask_v with
  | Some sz, Some mk =>
      size_mask_ok k_inst ms_cSize_init sz ms_cIndexMask_init mk = true /\ sz = size k_inst /\ mk = mask k_inst
  | _, _ => False
  end.
Proof. vm_compute; repeat split; reflexivity. Qed.
Print Assumptions pipe_size_and_mask.

(* ------------------------------------------------------------------ member types *)
Theorem pipe_indices_are_volatile_uint32 :
  is_volatile_u32 m_WriteIndex_ty && is_volatile_u32 m_ReadCount_ty && is_volatile_u32 m_ReadIndex_ty = true.
Proof. vm_compute; reflexivity. Qed.
Print Assumptions pipe_indices_are_volatile_uint32.

Theorem pipe_flags_and_buffer_types :
  fst m_Flags_ty = "volatile uint32_t[8]" /\ fst m_Buffer_ty = "unsigned int[8]".
Proof. vm_compute; split; reflexivity. Qed.
Print Assumptions pipe_flags_and_buffer_types.

Theorem pipe_data_members :
  member_names = ["m_Buffer"; "m_WriteIndex"; "m_ReadCount"; "m_Flags"; "m_ReadIndex"].
Proof. vm_compute; reflexivity. Qed.
Print Assumptions pipe_data_members.

Theorem pipe_method_signatures :
  sig_ok "bool (const unsigned int &)" "in" "const unsigned int &" sig_write
  && sig_ok "bool (unsigned int *)" "pOut" "unsigned int *" sig_reader
  && sig_ok "bool (unsigned int *)" "pOut" "unsigned int *" sig_front = true.
Proof. vm_compute; reflexivity. Qed.
Print Assumptions pipe_method_signatures.

(* ------------------------------------------------------------------ Atomics.h *)
(* AtomicCompareAndSwap( pDest, swapTo, compareWith ) = __sync_val_compare_and_swap( pDest, compareWith, swapTo ):
   the 2nd argument of the wrapper is the NEW value, the 3rd the EXPECTED one (ICas r idx newv cmpv) *)
Theorem pipe_cas_wrapper : cas_wrapper_ok cas_ret cas_params cas_body = true.
Proof. vm_compute; reflexivity. Qed.
Print Assumptions pipe_cas_wrapper.

Theorem pipe_cas_wrapper_argument_names :
  map fst cas_params = ["pDest"; "swapTo"; "compareWith"]
  /\ cas_body = [WReturnCall "__sync_val_compare_and_swap_4" ["pDest"; "compareWith"; "swapTo"]].
Proof. vm_compute; split; reflexivity. Qed.
Print Assumptions pipe_cas_wrapper_argument_names.

Theorem pipe_add_wrapper : add_wrapper_ok add_ret add_params add_body = true.
Proof. vm_compute; reflexivity. Qed.
Print Assumptions pipe_add_wrapper.

(* both claims are the compare-and-swap FLAG_CAN_READ -> FLAG_INVALID, exactly one per method *)
Theorem pipe_claims_are_cas :
  forall m p, (m = MReader \/ m = MFront) -> compile (src_of m) = Some p ->
  count_if is_cas p = 1%nat /\ count_if is_loadflag p = 0%nat
  /\ exists r i, In (ICas r i FLAG_INVALID FLAG_CAN_READ) p.
Proof.
  intros m p [-> | ->] H; vm_compute in H; injection H as <-; (split; [reflexivity | split; [reflexivity | ]]);
    exists Rprev, Ract; vm_compute; tauto.
Qed.
Print Assumptions pipe_claims_are_cas.

(* ------------------------------------------------------------------ IsPipeEmpty, Clear, the constructor *)
Theorem pipe_is_pipe_empty_shape : is_pipe_empty_ok src_is_pipe_empty = true /\ sig_is_pipe_empty = "bool () const".
Proof. vm_compute; split; reflexivity. Qed.
Print Assumptions pipe_is_pipe_empty_shape.

Theorem pipe_clear_shape : clear_ok src_clear = true.
Proof. vm_compute; reflexivity. Qed.
Print Assumptions pipe_clear_shape.

Theorem pipe_constructor_shape : ctor_ok ctor_inits ctor_body = true.
Proof. vm_compute; reflexivity. Qed.
Print Assumptions pipe_constructor_shape.

(* ------------------------------------------------------------------ order of the accesses (position of the first occurrence) *)
(* WriterTryWriteFront: the item is stored, then the slot is published, then the barrier, then m_WriteIndex *)
Theorem pipe_order_write :
  before_in [is_storebuf; is_storeflag FLAG_CAN_READ; is_barrier; is_store GW] src_write = true.
Proof. vm_compute; reflexivity. Qed.
Print Assumptions pipe_order_write.

(* ReaderTryReadBack: claim (compare-and-swap), count, barrier, copy the item out, release the slot *)
Theorem pipe_order_reader :
  before_in [is_cas; is_add GRC; is_barrier; is_loadbuf; is_storeflag FLAG_CAN_WRITE] src_reader = true.
Proof. vm_compute; reflexivity. Qed.
Print Assumptions pipe_order_reader.

(* WriterTryReadFront: claim, copy the item out, release the slot, barrier, m_WriteIndex *)
Theorem pipe_order_front :
  before_in [is_cas; is_loadbuf; is_storeflag FLAG_CAN_WRITE; is_barrier; is_store GW] src_front = true.
Proof. vm_compute; reflexivity. Qed.
Print Assumptions pipe_order_front.

(* each of these accesses occurs exactly once, so "first occurrence" is "the occurrence" *)
Theorem pipe_order_accesses_unique :
  forall pw pr pf, compile src_write = Some pw -> compile src_reader = Some pr -> compile src_front = Some pf ->
  map (fun f => count_if f pw) [is_storebuf; is_storeflag FLAG_CAN_READ; is_barrier; is_store GW] = [1; 1; 1; 1]%nat
  /\ map (fun f => count_if f pr) [is_cas; is_add GRC; is_barrier; is_loadbuf; is_storeflag FLAG_CAN_WRITE] = [1; 1; 1; 1; 1]%nat
  /\ map (fun f => count_if f pf) [is_cas; is_loadbuf; is_storeflag FLAG_CAN_WRITE; is_barrier; is_store GW] = [1; 1; 1; 1; 1]%nat.
Proof.
  intros pw pr pf Hw Hr Hf; vm_compute in Hw, Hr, Hf.
  injection Hw as <-; injection Hr as <-; injection Hf as <-.
  vm_compute; repeat split; reflexivity.
Qed.
Print Assumptions pipe_order_accesses_unique.

(* ------------------------------------------------------------------ non-vacuity: sources that are NOT the model *)
(* the owner's claim as a plain read + store (seeded change C02-10) compiles, to Pipe.prog_front_cts, not to prog_front *)
Example pipe_mutated_front_cts :
  let mutated :=
    [ SDecl "uint32_t" "writeIndex" (Some (XMem GW))
    ; SDecl "uint32_t" "frontReadIndex" (Some (XVar "writeIndex"))
    ; SDecl "uint32_t" "previous" (Some (XConst "FLAG_INVALID" 4294967295))
    ; SDecl "uint32_t" "actualReadIndex" (Some (XLit 0))
    ; SWhileTrue
        [ SDecl "uint32_t" "readCount" (Some (XMem GRC))
        ; SDecl "uint32_t" "numInPipe" (Some (XSub (XVar "writeIndex") (XVar "readCount")))
        ; SIf (XOr (XEq (XLit 0) (XVar "numInPipe")) (XEq (XLit 0) (XVar "frontReadIndex")))
            [ SAssign (LMem GRI) (XVar "readCount"); SReturn false ] None
        ; SPreDec (LVar "frontReadIndex")
        ; SAssign (LVar "actualReadIndex") (XAnd (XVar "frontReadIndex") (XConst "ms_cIndexMask" 7))
        ; SAssign (LVar "previous") (XFlags (XVar "actualReadIndex"))
        ; SIf (XEq (XConst "FLAG_CAN_READ" 286331153) (XVar "previous"))
            [ SAssign (LFlags (XVar "actualReadIndex")) (XConst "FLAG_INVALID" 4294967295); SBreak ]
            (Some [ SIf (XGe (XMem GRI) (XVar "frontReadIndex")) [ SReturn false ] None ])
        ]
    ; SAssign LOut (XBuf (XVar "actualReadIndex"))
    ; SAssign (LFlags (XVar "actualReadIndex")) (XConst "FLAG_CAN_WRITE" 0)
    ; SBarrier
    ; SPreDec (LMem GW)
    ; SReturn true ] in
  compile mutated = Some prog_front_cts /\ compile mutated <> Some prog_front.
Proof. vm_compute; split; [reflexivity | discriminate]. Qed.
Print Assumptions pipe_mutated_front_cts.

(* WriterTryWriteFront with the publication of the slot and the store of m_WriteIndex exchanged: compiles, but
   it is not prog_write and the order obligation fails on it *)
Example pipe_mutated_write_order :
  let mutated :=
    [ SDecl "uint32_t" "writeIndex" (Some (XMem GW))
    ; SDecl "uint32_t" "actualWriteIndex" (Some (XAnd (XVar "writeIndex") (XConst "ms_cIndexMask" 7)))
    ; SIf (XNe (XFlags (XVar "actualWriteIndex")) (XConst "FLAG_CAN_WRITE" 0)) [ SReturn false ] None
    ; SAssign (LBuf (XVar "actualWriteIndex")) XIn
    ; SAssign (LMem GW) (XVar "writeIndex")
    ; SBarrier
    ; SPreInc (LVar "writeIndex")
    ; SAssign (LFlags (XVar "actualWriteIndex")) (XConst "FLAG_CAN_READ" 286331153)
    ; SReturn true ] in
  (exists p, compile mutated = Some p) /\ compile mutated <> Some prog_write
  /\ before_in [is_storebuf; is_storeflag FLAG_CAN_READ; is_barrier; is_store GW] mutated = false.
Proof. vm_compute; split; [eexists; reflexivity | split; [discriminate | reflexivity]]. Qed.
Print Assumptions pipe_mutated_write_order.

(* anything the extractor did not recognise makes the whole method uncompilable; so do exchanged arguments of
   the compare-and-swap (they compile, to a different instruction) and a shadowed local *)
Example pipe_mutated_unknown :
  compile (src_write ++ [SUnknown "anything"]) = None
  /\ compile (SAssign (LVar "x") (XUnknown "anything") :: src_front) = None
  /\ compile [SDecl "uint32_t" "readIndexToUse" None; SDecl "uint32_t" "frontReadIndex" None] = None
  /\ compile [SDecl "uint32_t" "previous" None; SDecl "uint32_t" "actualReadIndex" (Some (XLit 0));
              SAssign (LVar "previous") (XCas (XVar "actualReadIndex") (XConst "FLAG_CAN_READ" 286331153) (XConst "FLAG_INVALID" 4294967295))]
     = Some [ISet Ract (EConst 0); ICas Rprev Ract FLAG_CAN_READ FLAG_INVALID].
Proof. vm_compute; repeat split; reflexivity. Qed.
Print Assumptions pipe_mutated_unknown.
