(* C01 — the small deep embedding into which tools/c01src/gen_src.py writes the bodies of the C++
   functions the model mirrors (coq/C01/gen/Src.v, regenerated from the working tree on every run),
   with an evaluator for expressions (every arithmetic operation and conversion wrapped to its C type,
   CxxSem.wrap) and an executor for straight-line code.  Definitions only; the statements tying the
   regenerated bodies to Model.v are in PropertiesSrc.v. *)
From Coq Require Import ZArith List String Bool.
From Common Require Import CxxSem.
Import ListNotations.
Local Open Scope Z_scope.

Inductive ex :=
| Var (p : string)                                (* variable or member path, e.g. "subTask_.partition.start" *)
| Lit (z : Z)
| Bin (o : binop) (t : ctype) (a b : ex)          (* arithmetic performed at C type t *)
| Cmp (o : cmpop) (a b : ex)
| Not (a : ex)
| Cond (c a b : ex)                               (* c ? a : b, also && and || *)
| Cast (t : ctype) (a : ex)                       (* integral conversion to t *)
| Call (f : string) (sig : string) (args : list ex)
| Unk (what : string).

Inductive stmt :=
| Decl (p : string) (ty : string) (init : option ex)
| Asg (p : string) (e : ex)
| Exp (e : ex)
| If (c : ex) (a b : list stmt)
| While (c : ex) (body : list stmt)
| For (init : list stmt) (c : ex) (inc : list stmt) (body : list stmt)
| Ret (e : option ex)
| Omp (directive clauses : string) (loop : list stmt)
| SUnk (what : string).

Record func := { f_type : string; f_params : list (string * string); f_body : list stmt }.

(* ------------------------------------------------------------------ evaluation *)
Definition store := list (string * Z).
Fixpoint lookup (s : store) (p : string) : Z :=
  match s with
  | [] => 0
  | (q, v) :: r => if String.eqb p q then v else lookup r p
  end.
Definition truthy (z : Z) : bool := negb (z =? 0).

Fixpoint eval (s : store) (e : ex) : Z :=
  match e with
  | Var p => lookup s p
  | Lit z => z
  | Bin o t a b => wrap t (z_bop o (eval s a) (eval s b))
  | Cmp o a b => if z_cmp o (eval s a) (eval s b) then 1 else 0
  | Not a => if truthy (eval s a) then 0 else 1
  | Cond c a b => if truthy (eval s c) then eval s a else eval s b
  | Cast t a => wrap t (eval s a)
  | Call f _ args =>
      match args with
      | [a; b] =>
          if String.eqb f "min" then (let x := eval s a in let y := eval s b in if y <? x then y else x)   (* std::min: (b < a) ? b : a *)
          else if String.eqb f "max" then (let x := eval s a in let y := eval s b in if x <? y then y else x)
          else if String.eqb f "[]" then eval s a + eval s b          (* a[b]: address of the element, in elements *)
          else if String.eqb f "distance" then eval s b - eval s a    (* std::distance of random-access iterators *)
          else 0
      | _ => 0
      end
  | Unk _ => 0
  end.

(* straight-line execution: declarations with an initialiser, assignments and ifs; calls, loops and
   returns leave the store unchanged (the statements about them are structural) *)
Fixpoint exec_stmt (s : store) (st : stmt) : store :=
  match st with
  | Decl p _ (Some e) => (p, eval s e) :: s
  | Asg p e => (p, eval s e) :: s
  | If c a b =>
      if truthy (eval s c)
      then (fix go (s : store) (l : list stmt) : store := match l with [] => s | x :: r => go (exec_stmt s x) r end) s a
      else (fix go (s : store) (l : list stmt) : store := match l with [] => s | x :: r => go (exec_stmt s x) r end) s b
  | _ => s
  end.
Fixpoint exec (s : store) (l : list stmt) : store :=
  match l with [] => s | x :: r => exec (exec_stmt s x) r end.

(* copy of a struct value: SubTaskSet { pTask; partition { start; end } } *)
Definition copy_subtask (dst src : string) (s : store) : store :=
  ((dst ++ ".partition.start")%string, lookup s (src ++ ".partition.start")%string) ::
  ((dst ++ ".partition.end")%string, lookup s (src ++ ".partition.end")%string) ::
  ((dst ++ ".pTask")%string, lookup s (src ++ ".pTask")%string) :: s.

(* ------------------------------------------------------------------ structural views *)
Fixpoint mentions (p : string) (e : ex) : bool :=
  match e with
  | Var q => String.eqb p q
  | Bin _ _ a b | Cmp _ a b => mentions p a || mentions p b
  | Not a | Cast _ a => mentions p a
  | Cond c a b => mentions p c || mentions p a || mentions p b
  | Call _ _ args => (fix any (l : list ex) : bool := match l with [] => false | x :: r => mentions p x || any r end) args
  | _ => false
  end.

(* the calls a statement list makes, in source order, without descending into nested control flow:
   (callee, arguments); a declaration initialised by a call counts *)
Definition call_of (e : ex) : option (string * list ex) :=
  match e with Call f _ args => Some (f, args) | _ => None end.
Fixpoint top_calls (l : list stmt) : list (string * list ex) :=
  match l with
  | [] => []
  | Exp e :: r | Decl _ _ (Some e) :: r | Asg _ e :: r =>
      match call_of e with Some c => c :: top_calls r | None => top_calls r end
  | _ :: r => top_calls r
  end.

Definition call_sig_of (e : ex) : option (string * string) :=
  match e with Call f sig _ => Some (f, sig) | _ => None end.
Fixpoint top_call_sigs (l : list stmt) : list (string * string) :=
  match l with
  | [] => []
  | Exp e :: r | Decl _ _ (Some e) :: r | Asg _ e :: r =>
      match call_sig_of e with Some c => c :: top_call_sigs r | None => top_call_sigs r end
  | _ :: r => top_call_sigs r
  end.
(* declared C types of the locals of a block, in order *)
Fixpoint decl_types (l : list stmt) : list (string * string) :=
  match l with
  | [] => []
  | Decl p t _ :: r => (p, t) :: decl_types r
  | _ :: r => decl_types r
  end.

(* first If (searching nested blocks depth-first, in source order) whose condition satisfies [pred] *)
Fixpoint find_if_stmt (pred : ex -> bool) (st : stmt) : option (ex * list stmt * list stmt) :=
  let fix in_list (l : list stmt) : option (ex * list stmt * list stmt) :=
      match l with
      | [] => None
      | x :: r => match find_if_stmt pred x with Some v => Some v | None => in_list r end
      end in
  match st with
  | If c a b => if pred c then Some (c, a, b)
                else match in_list a with Some v => Some v | None => in_list b end
  | While _ body => in_list body
  | For _ _ _ body => in_list body
  | Omp _ _ body => in_list body
  | _ => None
  end.
Fixpoint find_if (pred : ex -> bool) (l : list stmt) : option (ex * list stmt * list stmt) :=
  match l with
  | [] => None
  | x :: r => match find_if_stmt pred x with Some v => Some v | None => find_if pred r end
  end.

(* first If, anywhere, one of whose branches assigns [p] at its top level *)
Definition assigns (p : string) (l : list stmt) : bool :=
  existsb (fun st => match st with Asg q _ => String.eqb p q | _ => false end) l.
Fixpoint find_if_assigning_stmt (p : string) (st : stmt) : option (ex * list stmt * list stmt) :=
  let fix in_list (l : list stmt) : option (ex * list stmt * list stmt) :=
      match l with
      | [] => None
      | x :: r => match find_if_assigning_stmt p x with Some v => Some v | None => in_list r end
      end in
  match st with
  | If c a b => if assigns p a || assigns p b then Some (c, a, b)
                else match in_list a with Some v => Some v | None => in_list b end
  | While _ body => in_list body
  | For _ _ _ body => in_list body
  | _ => None
  end.
Fixpoint find_if_assigning (p : string) (l : list stmt) : option (ex * list stmt * list stmt) :=
  match l with
  | [] => None
  | x :: r => match find_if_assigning_stmt p x with Some v => Some v | None => find_if_assigning p r end
  end.

(* first While loop at the top level of a block *)
Fixpoint find_while (l : list stmt) : option (ex * list stmt) :=
  match l with
  | [] => None
  | While c b :: _ => Some (c, b)
  | _ :: r => find_while r
  end.

(* first counted loop, at the top level or directly under an OpenMP directive: (init, cond, inc, body) *)
Fixpoint find_for (l : list stmt) : option (list stmt * ex * list stmt * list stmt) :=
  match l with
  | [] => None
  | For i c n b :: _ => Some (i, c, n, b)
  | Omp _ _ [For i c n b] :: _ => Some (i, c, n, b)
  | _ :: r => find_for r
  end.

Definition decl_init (p : string) (l : list stmt) : option ex :=
  match find (fun st => match st with Decl q _ (Some _) => String.eqb p q | _ => false end) l with
  | Some (Decl _ _ (Some e)) => Some e
  | _ => None
  end.

(* no arithmetic operation anywhere in an expression (variables, literals, conversions, comparisons, calls of non-arithmetic
   functions only): such an expression cannot wrap *)
Fixpoint arith_free (e : ex) : bool :=
  match e with
  | Bin _ _ _ _ => false
  | Cmp _ a b => arith_free a && arith_free b
  | Not a | Cast _ a => arith_free a
  | Cond c a b => arith_free c && arith_free a && arith_free b
  | Call _ _ args => (fix all (l : list ex) : bool := match l with [] => true | x :: r => arith_free x && all r end) args
  | _ => true
  end.

(* no statement or expression the extractor did not understand, in the parts that are interpreted *)
Fixpoint ex_known (e : ex) : bool :=
  match e with
  | Unk _ => false
  | Bin _ _ a b | Cmp _ a b => ex_known a && ex_known b
  | Not a | Cast _ a => ex_known a
  | Cond c a b => ex_known c && ex_known a && ex_known b
  | Call _ _ args => (fix all (l : list ex) : bool := match l with [] => true | x :: r => ex_known x && all r end) args
  | _ => true
  end.
Fixpoint stmt_known (st : stmt) : bool :=
  let fix all (l : list stmt) : bool := match l with [] => true | x :: r => stmt_known x && all r end in
  match st with
  | Decl _ _ (Some e) | Asg _ e | Exp e | Ret (Some e) => ex_known e
  | If c a b => ex_known c && all a && all b
  | While c b => ex_known c && all b
  | For i c n b => all i && ex_known c && all n && all b
  | Omp _ _ b => all b
  | SUnk _ => false
  | _ => true
  end.
Definition known (l : list stmt) : bool := forallb stmt_known l.
