(* C01 — the enkiTS task-set machine: invariant, join-completeness, empty set, nesting frame,
   in-flight bound, and the refutation of the unrepaired pipe-full branch. *)
From Common Require Import Prelude CxxSem.
From C01 Require Import Model ProofsArith.
From Coq Require Import Permutation.
Local Open Scope Z_scope.

(* ------------------------------------------------------------------ counting *)
Definition C (x : Z) (l : list Z) : nat := count_occ Z.eq_dec l x.
Lemma C_app x a b : C x (a ++ b) = (C x a + C x b)%nat.
Proof. apply count_occ_app. Qed.

Definition pidx (op : nat * part) : list Z := idx (snd op).
Definition tot (x : Z) (s : st) : nat :=
  (C x (done s) + C x (adder_idx s) + C x (flat_map pidx (pipes s)) + C x (flat_map entry_idx (entries s)))%nat.
Definition allidx (s : st) : list Z := done s ++ pending s.

Lemma tot_allidx x s : C x (allidx s) = tot x s.
Proof. unfold allidx, pending, tot. rewrite !C_app. fold pidx. lia. Qed.

Lemma C_flat_perm {A} (g : A -> list Z) l l' x :
  Permutation l l' -> C x (flat_map g l) = C x (flat_map g l').
Proof.
  intro H. unfold C. apply (proj1 (Permutation_count_occ Z.eq_dec _ _)).
  apply Permutation_flat_map. exact H.
Qed.

Lemma C_flat_cons {A} (g : A -> list Z) a l x : C x (flat_map g (a :: l)) = (C x (g a) + C x (flat_map g l))%nat.
Proof. cbn [flat_map]. apply C_app. Qed.

(* ------------------------------------------------------------------ list surgery *)
Lemma pop_first_perm t l q r : pop_first t l = Some (q, r) -> Permutation l ((t, q) :: r).
Proof.
  revert q r. induction l as [|[o x] l IH]; intros q r H; cbn in H; [discriminate|].
  destruct (Nat.eqb o t) eqn:E.
  - apply Nat.eqb_eq in E. inversion H; subst. reflexivity.
  - destruct (pop_first t l) as [[y r']|] eqn:E2; [|discriminate]. inversion H; subst.
    rewrite (IH _ _ eq_refl). apply perm_swap.
Qed.

Lemma pop_last_perm t l q r : pop_last t l = Some (q, r) -> Permutation l ((t, q) :: r).
Proof.
  unfold pop_last. intro H. destruct (pop_first t (rev l)) as [[y r']|] eqn:E; [|discriminate].
  inversion H; subst. apply pop_first_perm in E.
  rewrite (Permutation_rev l), E. constructor. apply Permutation_rev.
Qed.

Lemma take_nth_perm {A} i (l : list A) x r : take_nth i l = Some (x, r) -> Permutation l (x :: r).
Proof.
  revert i x r. induction l as [|a l IH]; intros i x r H; [destruct i; discriminate|].
  destruct i as [|j]; cbn in H.
  - inversion H; subst. reflexivity.
  - destruct (take_nth j l) as [[y r']|] eqn:E; [|discriminate]. inversion H; subst.
    rewrite (IH _ _ _ E). apply perm_swap.
Qed.

Lemma perm_len {A} (l : list A) x r : Permutation l (x :: r) -> Z.of_nat (length l) = Z.of_nat (length r) + 1.
Proof. intro H. apply Permutation_length in H. cbn in H. lia. Qed.

Lemma perm_Forall {A} (P : A -> Prop) l x r : Permutation l (x :: r) -> Forall P l -> P x /\ Forall P r.
Proof. intros H F. apply (Permutation_Forall H) in F. inversion F; auto. Qed.

(* ------------------------------------------------------------------ cutting a range *)
Definition cut (sub pc sub' : part) : Prop :=
  fst pc = fst sub /\ fst pc < snd pc /\ snd pc = fst sub' /\ fst sub' <= snd sub' /\ snd sub' = snd sub.

Lemma cut_C sub pc sub' x : cut sub pc sub' -> C x (idx sub) = (C x (idx pc) + C x (idx sub'))%nat.
Proof.
  intros (H1 & H2 & H3 & H4 & H5). unfold idx. rewrite <- C_app. f_equal.
  rewrite H1, H3, <- H5. rewrite <- H1. apply zrange_split. lia.
Qed.

Lemma split_cut sub r pc sub' :
  fst sub < snd sub -> 1 <= r -> split_task sub r = (pc, sub') -> cut sub pc sub' /\ plen pc <= r.
Proof.
  intros Hs Hr H. unfold split_task in H.
  destruct (snd sub - fst sub <? r) eqn:E; inversion H; subst; unfold cut, plen; cbn [fst snd]; lia.
Qed.

Lemma adjust_cut rtr sub pc sub' pc2 sub2 :
  1 <= rtr -> cut sub pc sub' -> full_adjust rtr (pc, sub') = (pc2, sub2) ->
  cut sub pc2 sub2 /\ plen pc2 <= rtr \/ (pc2 = pc /\ sub2 = sub' /\ plen pc <= rtr).
Proof.
  intros Hr (H1 & H2 & H3 & H4 & H5) H. unfold full_adjust in H.
  destruct (rtr <? plen pc) eqn:E.
  - left. inversion H; subst. unfold cut, plen in *. cbn [fst snd]. lia.
  - right. inversion H; subst. repeat split; try reflexivity. unfold plen in *. lia.
Qed.

(* one iteration of the SplitAndAddTask loop body on a non-empty range, pipe-full branch *)
Lemma full_iter_cut rtr r sub pc sub' :
  fst sub < snd sub -> 1 <= r -> 1 <= rtr ->
  full_adjust rtr (split_task sub r) = (pc, sub') -> cut sub pc sub' /\ 0 < plen pc <= rtr.
Proof.
  intros Hs Hr Hrtr H. destruct (split_task sub r) as [pc0 sub0] eqn:Es.
  destruct (split_cut _ _ _ _ Hs Hr Es) as [Hc Hl].
  destruct (adjust_cut _ _ _ _ _ _ Hrtr Hc H) as [[Hc2 Hl2]|(-> & -> & Hl2)].
  - split; [assumption|]. destruct Hc2 as (? & ? & _). unfold plen in *. lia.
  - split; [assumption|]. destruct Hc as (? & ? & _). unfold plen in *. lia.
Qed.

(* ------------------------------------------------------------------ the invariant *)
Definition wf_params (p : params) : Prop := 1 <= P_rtr p /\ 1 <= P_rts p /\ 0 <= P_n p.

Definition entry_ok (p : params) (e : entry) : Prop :=
  (e_thr e < P_T p)%nat /\ fst (e_run e) < snd (e_run e) /\
  match e_rest e with Some r => fst r <= snd r | None => True end.

Record inv (p : params) (s : st) : Prop := {
  inv_cnt : forall x, tot x s = C x (zrange 0 (P_n p));
  inv_rc : rc s = Z.of_nat (length (pipes s)) + Z.of_nat (length (entries s)) + Z.of_nat (length (owed s));
  inv_pipes : Forall (fun op => fst (snd op) < snd (snd op)) (pipes s);
  inv_entries : Forall (entry_ok p) (entries s);
  inv_adder : match adder s with Some (t, r) => (t < P_T p)%nat /\ fst r <= snd r | None => True end;
  inv_log : flat_map pidx (elog s) = done s;
  inv_logp : Forall (fun tq => (fst tq < P_T p)%nat /\ 0 < plen (snd tq) <= P_rtr p) (elog s);
  inv_owed : (length (owed s) <= length (elog s))%nat
}.

Lemma mk_params_wf n T : 0 <= n -> wf_params (mk_params n T).
Proof.
  intro H. unfold wf_params, mk_params, range_to_run, range_to_split. cbn [P_rtr P_rts P_n].
  repeat split; try assumption.
  - destruct (n / num_partitions (Z.of_nat T) <? 1) eqn:E; lia.
  - destruct (n / num_initial_partitions (Z.of_nat T) <? 1) eqn:E; lia.
Qed.

Lemma wf_paramsb_ok p t0 : wf_paramsb p t0 = true -> wf_params p /\ (t0 < P_T p)%nat.
Proof.
  unfold wf_paramsb, wf_params. intro H. repeat (apply andb_true_iff in H; destruct H as [H ?]).
  apply Nat.ltb_lt in H0. lia.
Qed.

Lemma inv_init p t0 : wf_params p -> (t0 < P_T p)%nat -> inv p (init p t0).
Proof.
  intros (H1 & H2 & H3) Ht. constructor; cbn; try constructor; try lia.
  - intro x. unfold C, idx. cbn [fst snd]. lia.
Qed.

Lemma flat_map_snoc {A B} (g : A -> list B) l a : flat_map g (l ++ [a]) = flat_map g l ++ g a.
Proof. rewrite flat_map_app. cbn. rewrite app_nil_r. reflexivity. Qed.

(* common tail of the three cases that execute a piece *)
Ltac solve_logp Hlogp :=
  apply Forall_app; split; [exact Hlogp | constructor; [cbn [fst snd]; split; [assumption | lia] | constructor]].

Lemma C_nil x : C x [] = 0%nat.
Proof. reflexivity. Qed.
Ltac cnorm := unfold pidx, entry_idx; cbn [snd fst e_run e_rest e_thr]; rewrite ?app_nil_r, ?C_app, ?C_nil.

Lemma inv_step p s l s' : wf_params p -> inv p s -> step p s l = Some s' -> inv p s'.
Proof.
  intros (Wr & Ws & Wn) [Hcnt Hrc Hpipes Hent Hadd Hlog Hlogp Howed] H.
  unfold step, step_gen in H. destruct l.
  - (* AddWrite *)
    destruct (adder s) as [[t sub]|] eqn:Ea; [|discriminate].
    destruct (fst sub =? snd sub) eqn:En; [discriminate|].
    destruct (split_task sub (P_rts p)) as [pc sub'] eqn:Es. inversion H; subst s'; clear H.
    destruct Hadd as [Ht Hle].
    destruct (split_cut sub (P_rts p) pc sub' ltac:(lia) Ws Es) as [Hc Hl].
    constructor; cbn [pipes adder entries owed rc done elog]; try assumption.
    + intro x. rewrite <- (Hcnt x). unfold tot, adder_idx. rewrite Ea. cbn [pipes adder entries done].
      rewrite C_flat_cons. cnorm. rewrite (cut_C _ _ _ x Hc). lia.
    + cbn [length]. lia.
    + constructor; [cbn [snd]; destruct Hc as (? & ? & _); lia | assumption].
    + split; [assumption|]. destruct Hc as (_ & _ & _ & ? & _). lia.
  - (* AddFullInline *)
    destruct (adder s) as [[t sub]|] eqn:Ea; [|discriminate].
    destruct (fst sub =? snd sub) eqn:En; [discriminate|].
    destruct (full_adjust (P_rtr p) (split_task sub (P_rts p))) as [pc sub'] eqn:Es.
    inversion H; subst s'; clear H. destruct Hadd as [Ht Hle].
    assert (Hlt : fst sub < snd sub) by lia.
    destruct (full_iter_cut _ _ _ _ _ Hlt Ws Wr Es) as [Hc Hl].
    unfold exec_piece. constructor; cbn [pipes adder entries owed rc done elog]; try assumption.
    + intro x. rewrite <- (Hcnt x). unfold tot, adder_idx. rewrite Ea. cbn [pipes adder entries done].
      rewrite C_app. rewrite (cut_C _ _ _ x Hc). lia.
    + split; [assumption|]. destruct Hc as (_ & _ & _ & ? & _). lia.
    + rewrite flat_map_snoc, Hlog. reflexivity.
    + solve_logp Hlogp.
    + rewrite app_length. cbn. lia.
  - (* AddDone *)
    destruct (adder s) as [[t sub]|] eqn:Ea; [|discriminate].
    destruct (fst sub =? snd sub) eqn:En; [|discriminate]. inversion H; subst s'; clear H.
    constructor; cbn [pipes adder entries owed rc done elog]; try assumption; [|exact I].
    intro x. rewrite <- (Hcnt x). unfold tot, adder_idx. rewrite Ea. cbn [pipes adder entries done].
    unfold idx. rewrite zrange_nil by lia. reflexivity.
  - (* PopOwn *)
    destruct (negb (t <? P_T p)%nat) eqn:Et; [discriminate|].
    destruct (pop_first t (pipes s)) as [[q rest]|] eqn:Ep; [|discriminate].
    inversion H; subst s'; clear H. apply pop_first_perm in Ep.
    destruct (perm_Forall _ _ _ _ Ep Hpipes) as [Hq Hrest].
    constructor; cbn [pipes adder entries owed rc done elog]; try assumption.
    + intro x. rewrite <- (Hcnt x). unfold tot, adder_idx. cbn [pipes adder entries done].
      rewrite (C_flat_perm pidx _ _ x Ep), !C_flat_cons. cnorm. lia.
    + rewrite Hrc, (perm_len _ _ _ Ep). cbn [length]. lia.
    + constructor; [|assumption]. unfold entry_ok. cbn [e_thr e_run e_rest].
      apply negb_false_iff, Nat.ltb_lt in Et. cbn [snd] in Hq. auto.
  - (* Steal *)
    destruct (negb (t <? P_T p)%nat || (t =? u)%nat) eqn:Et; [discriminate|].
    destruct (pop_last u (pipes s)) as [[q rest]|] eqn:Ep; [|discriminate].
    inversion H; subst s'; clear H. apply pop_last_perm in Ep.
    destruct (perm_Forall _ _ _ _ Ep Hpipes) as [Hq Hrest].
    constructor; cbn [pipes adder entries owed rc done elog]; try assumption.
    + intro x. rewrite <- (Hcnt x). unfold tot, adder_idx. cbn [pipes adder entries done].
      rewrite (C_flat_perm pidx _ _ x Ep), !C_flat_cons. cnorm. lia.
    + rewrite Hrc, (perm_len _ _ _ Ep). cbn [length]. lia.
    + constructor; [|assumption]. unfold entry_ok. cbn [e_thr e_run e_rest].
      apply orb_false_iff in Et. destruct Et as [Et _].
      apply negb_false_iff, Nat.ltb_lt in Et. cbn [snd] in Hq. auto.
  - (* SplitRest *)
    destruct (take_nth i (entries s)) as [[e others]|] eqn:Ee; [|discriminate].
    destruct (e_rest e) as [r|] eqn:Er; [discriminate|].
    destruct (P_rtr p <? plen (e_run e)) eqn:El; [|discriminate].
    destruct (split_task (e_run e) (P_rtr p)) as [run rest] eqn:Es. inversion H; subst s'; clear H.
    apply take_nth_perm in Ee. destruct (perm_Forall _ _ _ _ Ee Hent) as [(He1 & He2 & He3) Hoth].
    destruct (split_cut _ _ _ _ He2 Wr Es) as [Hc Hl].
    constructor; cbn [pipes adder entries owed rc done elog]; try assumption.
    + intro x. rewrite <- (Hcnt x). unfold tot, adder_idx. cbn [pipes adder entries done].
      rewrite (C_flat_perm entry_idx _ _ x Ee), !C_flat_cons. cnorm. rewrite Er. cnorm. rewrite (cut_C _ _ _ x Hc). lia.
    + rewrite Hrc, (perm_len _ _ _ Ee). cbn [length]. lia.
    + constructor; [|assumption]. unfold entry_ok. cbn [e_thr e_run e_rest].
      destruct Hc as (? & ? & ? & ? & ?). repeat split; lia.
  - (* RestWrite *)
    destruct (take_nth i (entries s)) as [[e others]|] eqn:Ee; [|discriminate].
    destruct (e_rest e) as [sub|] eqn:Er; [|discriminate].
    destruct (fst sub =? snd sub) eqn:En; [discriminate|].
    destruct (split_task sub (P_rtr p)) as [pc sub'] eqn:Es. inversion H; subst s'; clear H.
    apply take_nth_perm in Ee. destruct (perm_Forall _ _ _ _ Ee Hent) as [(He1 & He2 & He3) Hoth].
    rewrite Er in He3.
    destruct (split_cut sub (P_rtr p) pc sub' ltac:(lia) Wr Es) as [Hc Hl].
    constructor; cbn [pipes adder entries owed rc done elog]; try assumption.
    + intro x. rewrite <- (Hcnt x). unfold tot, adder_idx. cbn [pipes adder entries done].
      rewrite (C_flat_perm entry_idx _ _ x Ee), !C_flat_cons. cnorm. rewrite Er. cnorm. rewrite (cut_C _ _ _ x Hc). lia.
    + rewrite Hrc, (perm_len _ _ _ Ee). cbn [length]. lia.
    + constructor; [cbn [snd]; destruct Hc as (? & ? & _); lia | assumption].
    + constructor; [|assumption]. unfold entry_ok. cbn [e_thr e_run e_rest].
      destruct Hc as (? & ? & ? & ? & ?). repeat split; (assumption || lia).
  - (* RestFullInline *)
    destruct (take_nth i (entries s)) as [[e others]|] eqn:Ee; [|discriminate].
    destruct (e_rest e) as [sub|] eqn:Er; [|discriminate].
    destruct (fst sub =? snd sub) eqn:En; [discriminate|].
    destruct (full_adjust (P_rtr p) (split_task sub (P_rtr p))) as [pc sub'] eqn:Es.
    inversion H; subst s'; clear H.
    apply take_nth_perm in Ee. destruct (perm_Forall _ _ _ _ Ee Hent) as [(He1 & He2 & He3) Hoth].
    rewrite Er in He3.
    assert (Hlt : fst sub < snd sub) by lia.
    destruct (full_iter_cut _ _ _ _ _ Hlt Wr Wr Es) as [Hc Hl].
    unfold exec_piece. constructor; cbn [pipes adder entries owed rc done elog]; try assumption.
    + intro x. rewrite <- (Hcnt x). unfold tot, adder_idx. cbn [pipes adder entries done].
      rewrite (C_flat_perm entry_idx _ _ x Ee), !C_flat_cons. cnorm. rewrite Er. cnorm. rewrite (cut_C _ _ _ x Hc). lia.
    + rewrite Hrc, (perm_len _ _ _ Ee). cbn [length]. lia.
    + constructor; [|assumption]. unfold entry_ok. cbn [e_thr e_run e_rest].
      destruct Hc as (? & ? & ? & ? & ?). repeat split; (assumption || lia).
    + rewrite flat_map_snoc, Hlog. reflexivity.
    + solve_logp Hlogp.
    + rewrite app_length. cbn. lia.
  - (* RestDone *)
    destruct (take_nth i (entries s)) as [[e others]|] eqn:Ee; [|discriminate].
    destruct (e_rest e) as [sub|] eqn:Er; [|discriminate].
    destruct (fst sub =? snd sub) eqn:En; [|discriminate]. inversion H; subst s'; clear H.
    apply take_nth_perm in Ee. destruct (perm_Forall _ _ _ _ Ee Hent) as [(He1 & He2 & He3) Hoth].
    constructor; cbn [pipes adder entries owed rc done elog]; try assumption.
    + intro x. rewrite <- (Hcnt x). unfold tot, adder_idx. cbn [pipes adder entries done].
      rewrite (C_flat_perm entry_idx _ _ x Ee), !C_flat_cons. cnorm. rewrite Er. cnorm.
      assert (Z0 : idx sub = []) by (unfold idx; apply zrange_nil; lia). rewrite Z0. cnorm. lia.
    + rewrite Hrc, (perm_len _ _ _ Ee). cbn [length]. lia.
    + constructor; [|assumption]. unfold entry_ok. cbn [e_thr e_run e_rest]. auto.
  - (* Exec *)
    destruct (take_nth i (entries s)) as [[e others]|] eqn:Ee; [|discriminate].
    destruct (e_rest e) as [sub|] eqn:Er; [discriminate|].
    destruct (P_rtr p <? plen (e_run e)) eqn:El; [discriminate|]. inversion H; subst s'; clear H.
    apply take_nth_perm in Ee. destruct (perm_Forall _ _ _ _ Ee Hent) as [(He1 & He2 & He3) Hoth].
    unfold exec_piece. constructor; cbn [pipes adder entries owed rc done elog]; try assumption.
    + intro x. rewrite <- (Hcnt x). unfold tot, adder_idx. cbn [pipes adder entries done].
      rewrite (C_flat_perm entry_idx _ _ x Ee), !C_flat_cons. cnorm. rewrite Er. cnorm. lia.
    + rewrite Hrc, (perm_len _ _ _ Ee). cbn [length]. lia.
    + rewrite flat_map_snoc, Hlog. reflexivity.
    + apply Forall_app; split; [exact Hlogp|]. constructor; [|constructor]. cbn [fst snd].
      split; [assumption|]. unfold plen in *. lia.
    + rewrite app_length. cbn. lia.
  - (* Dec *)
    destruct (take_nth j (owed s)) as [[o others]|] eqn:Eo; [|discriminate]. inversion H; subst s'; clear H.
    apply take_nth_perm in Eo.
    constructor; cbn [pipes adder entries owed rc done elog]; try assumption.
    + rewrite Hrc, (perm_len _ _ _ Eo). lia.
    + apply Permutation_length in Eo. cbn in Eo. lia.
Qed.

Lemma inv_reachable p t0 s : wf_params p -> (t0 < P_T p)%nat -> reachable p t0 s -> inv p s.
Proof.
  intros W Ht R. induction R as [|s l s' R IH Hs]; [apply inv_init; assumption|].
  eapply inv_step; eassumption.
Qed.

(* ------------------------------------------------------------------ consequences *)
Lemma inv_permutation p s : inv p s -> Permutation (done s ++ pending s) (zrange 0 (P_n p)).
Proof.
  intro I. apply (proj2 (Permutation_count_occ Z.eq_dec _ _)). intro x.
  pose proof (inv_cnt _ _ I x) as H. rewrite <- tot_allidx in H. exact H.
Qed.

Lemma inv_joined p s : inv p s -> joined s -> pending s = [].
Proof.
  intros I [Ha Hr]. pose proof (inv_rc _ _ I) as Hrc. rewrite Hr in Hrc.
  assert (Hp : pipes s = []) by (apply length_zero_iff_nil; lia).
  assert (He : entries s = []) by (apply length_zero_iff_nil; lia).
  unfold pending, adder_idx. rewrite Ha, Hp, He. reflexivity.
Qed.

Lemma join_complete p s : inv p s -> joined s -> Permutation (done s) (zrange 0 (P_n p)).
Proof.
  intros I J. pose proof (inv_permutation _ _ I) as H. rewrite (inv_joined _ _ I J), app_nil_r in H. exact H.
Qed.

Lemma join_no_owed p s : inv p s -> joined s -> owed s = [] /\ pipes s = [] /\ entries s = [].
Proof.
  intros I [Ha Hr]. pose proof (inv_rc _ _ I) as Hrc. rewrite Hr in Hrc.
  repeat split; apply length_zero_iff_nil; lia.
Qed.

(* everything a state holds or has executed is an index of the set: no uint32_t arithmetic wraps,
   nothing outside [0,n) is ever executed *)
Lemma inv_in_range p s x : inv p s -> In x (done s ++ pending s) -> 0 <= x < P_n p.
Proof.
  intros I H. apply In_zrange. eapply Permutation_in; [apply inv_permutation; eassumption|exact H].
Qed.

Lemma NoDup_app_l {A} (a b : list A) : NoDup (a ++ b) -> NoDup a.
Proof.
  induction a as [|x a IH]; intro H; [constructor|]. cbn in H. inversion H as [|? ? Hn Hr]; subst.
  constructor; [intro Hx; apply Hn; apply in_or_app; left; exact Hx | apply IH; exact Hr].
Qed.

Lemma inv_done_once p s : inv p s -> NoDup (done s) /\ forall x, In x (done s) -> 0 <= x < P_n p.
Proof.
  intro I. split.
  - pose proof (inv_permutation _ _ I) as H. apply Permutation_sym in H.
    pose proof (Permutation_NoDup H (NoDup_zrange _ _)) as N. apply NoDup_app_l in N. exact N.
  - intros x Hx. apply (inv_in_range p s x I). apply in_or_app. left. exact Hx.
Qed.

Lemma nonempty_piece_nil (l : list (nat * part)) :
  Forall (fun tq => 0 < plen (snd tq)) l -> flat_map pidx l = [] -> l = [].
Proof.
  destruct l as [|[t q] r]; [reflexivity|]. intros F H. inversion F as [|? ? Hq _]; subst. cbn [snd] in Hq.
  cbn [flat_map] in H. apply app_eq_nil in H. destruct H as [H _]. unfold pidx, idx in H. cbn [snd] in H.
  apply (f_equal (@length Z)) in H. rewrite zrange_length in H. unfold plen in Hq. cbn in H. lia.
Qed.

Lemma empty_set p s : inv p s -> P_n p = 0 ->
  done s = [] /\ elog s = [] /\ pipes s = [] /\ entries s = [] /\ rc s = 0.
Proof.
  intros I Hn. pose proof (inv_permutation _ _ I) as H. rewrite Hn in H. cbn in H.
  apply Permutation_sym, Permutation_nil in H. apply app_eq_nil in H. destruct H as [Hd Hp].
  assert (Hl : elog s = []).
  { apply nonempty_piece_nil; [|rewrite (inv_log _ _ I); exact Hd].
    eapply Forall_impl; [|apply (inv_logp _ _ I)]. intros a Ha. cbn beta in *. lia. }
  unfold pending in Hp. apply app_eq_nil in Hp. destruct Hp as [_ Hp]. apply app_eq_nil in Hp. destruct Hp as [Hpp Hpe].
  assert (Hpi : pipes s = []).
  { apply nonempty_piece_nil; [|exact Hpp]. eapply Forall_impl; [|apply (inv_pipes _ _ I)]. intros a Ha. cbn beta in *. unfold plen, part in *. lia. }
  assert (Hen : entries s = []).
  { destruct (entries s) as [|e r] eqn:E; [reflexivity|]. exfalso.
    pose proof (inv_entries _ _ I) as F. rewrite E in F. inversion F as [|? ? (_ & He & _) _]; subst.
    cbn [flat_map] in Hpe. apply app_eq_nil in Hpe. destruct Hpe as [Hpe _]. unfold entry_idx in Hpe.
    apply app_eq_nil in Hpe. destruct Hpe as [Hpe _]. apply (f_equal (@length Z)) in Hpe. unfold idx in Hpe.
    rewrite zrange_length in Hpe. cbn in Hpe. lia. }
  repeat split; try assumption.
  pose proof (inv_rc _ _ I) as Hrc. pose proof (inv_owed _ _ I) as Ho. rewrite Hl in Ho. rewrite Hpi, Hen in Hrc.
  cbn in *. lia.
Qed.

(* ------------------------------------------------------------------ nesting: frame + invariant of every live set *)
Lemma gstep_frame g l g' k : gstep g l = Some g' ->
  match l with GNew k' _ _ | GStep k' _ | GForget k' => k' <> k end -> g' k = g k.
Proof.
  intros H Hk. destruct l as [k' p t0|k' l|k']; cbn in H.
  - destruct (g k'); [discriminate|]. destruct (wf_paramsb p t0); [|discriminate]. inversion H; subst.
    unfold gupd. destruct (Nat.eqb_spec k k'); congruence.
  - destruct (g k') as [[p s]|]; [|discriminate]. destruct (step p s l); [|discriminate]. inversion H; subst.
    unfold gupd. destruct (Nat.eqb_spec k k'); congruence.
  - destruct (g k'); [|discriminate]. inversion H; subst.
    unfold gupd. destruct (Nat.eqb_spec k k'); congruence.
Qed.

Lemma nested_inv g : greachable g -> forall k p s, g k = Some (p, s) -> wf_params p /\ inv p s.
Proof.
  intro R. induction R as [|g l g' R IH Hs]; intros k p s Hk; [discriminate|].
  destruct l as [k' p' t0|k' l|k']; cbn in Hs.
  - destruct (g k') eqn:Eg; [discriminate|]. destruct (wf_paramsb p' t0) eqn:Ew; [|discriminate].
    inversion Hs; subst g'. unfold gupd in Hk. destruct (Nat.eqb_spec k k') as [->|Hne]; [|eauto].
    inversion Hk; subst. apply wf_paramsb_ok in Ew. destruct Ew as [W Ht]. split; [assumption|apply inv_init; assumption].
  - destruct (g k') as [[p' s0]|] eqn:Eg; [|discriminate]. destruct (step p' s0 l) as [s1|] eqn:Est; [|discriminate].
    inversion Hs; subst g'. unfold gupd in Hk. destruct (Nat.eqb_spec k k') as [->|Hne]; [|eauto].
    inversion Hk; subst. destruct (IH _ _ _ Eg) as [W I]. split; [assumption|]. eapply inv_step; eassumption.
  - destruct (g k') eqn:Eg; [|discriminate]. inversion Hs; subst g'. unfold gupd in Hk.
    destruct (Nat.eqb_spec k k') as [->|Hne]; [discriminate|eauto].
Qed.

(* ------------------------------------------------------------------ in-flight bound (non-nested discipline) *)
Lemma holders_lt p s : inv p s -> Forall (fun t => (t < P_T p)%nat) (holders s).
Proof.
  intro I. unfold holders. apply Forall_app. split.
  - pose proof (inv_adder _ _ I) as H. destruct (adder s) as [[t r]|]; [|constructor].
    constructor; [tauto|constructor].
  - apply Forall_map. eapply Forall_impl; [|apply (inv_entries _ _ I)]. intros e (H & _). exact H.
Qed.

Lemma existsb_eqb_false t l : existsb (Nat.eqb t) l = false -> ~ In t l.
Proof.
  intros H Hin. assert (existsb (Nat.eqb t) l = true); [|congruence].
  apply existsb_exists. exists t. split; [assumption|apply Nat.eqb_refl].
Qed.

Lemma holders_perm_entries s e others (a : option (nat * part)) :
  Permutation (entries s) (e :: others) ->
  Permutation (match a with Some (t, _) => [t] | None => [] end ++ map e_thr (entries s))
              (match a with Some (t, _) => [t] | None => [] end ++ e_thr e :: map e_thr others).
Proof. intro H. apply Permutation_app_head. change (e_thr e :: map e_thr others) with (map e_thr (e :: others)). apply Permutation_map. exact H. Qed.

Lemma flat_step_nodup p s l s' :
  NoDup (holders s) -> flat_ok s l = true -> step p s l = Some s' -> NoDup (holders s').
Proof.
  intros N F H. unfold step, step_gen in H. destruct l; cbn [flat_ok] in F.
  - destruct (adder s) as [[t sub]|] eqn:Ea; [|discriminate]. destruct (fst sub =? snd sub); [discriminate|].
    destruct (split_task sub (P_rts p)). inversion H; subst. unfold holders in *. cbn. rewrite Ea in N. exact N.
  - destruct (adder s) as [[t sub]|] eqn:Ea; [|discriminate]. destruct (fst sub =? snd sub); [discriminate|].
    destruct (full_adjust (P_rtr p) (split_task sub (P_rts p))). inversion H; subst. unfold holders in *. cbn. rewrite Ea in N. exact N.
  - destruct (adder s) as [[t sub]|] eqn:Ea; [|discriminate]. destruct (fst sub =? snd sub); [|discriminate].
    inversion H; subst. unfold holders in *. cbn. rewrite Ea in N. cbn in N. inversion N; assumption.
  - destruct (negb (t <? P_T p)%nat); [discriminate|].
    destruct (pop_first t (pipes s)) as [[q rest]|]; [|discriminate]. inversion H; subst.
    apply negb_true_iff, existsb_eqb_false in F. unfold holders in *. cbn [adder entries map e_thr].
    apply NoDup_Add with (a := t) (l := (match adder s with Some (t0, _) => [t0] | None => [] end ++ map e_thr (entries s))).
    + apply Add_app. + split; assumption.
  - destruct (negb (t <? P_T p)%nat || (t =? u)%nat); [discriminate|].
    destruct (pop_last u (pipes s)) as [[q rest]|]; [|discriminate]. inversion H; subst.
    apply negb_true_iff, existsb_eqb_false in F. unfold holders in *. cbn [adder entries map e_thr].
    apply NoDup_Add with (a := t) (l := (match adder s with Some (t0, _) => [t0] | None => [] end ++ map e_thr (entries s))).
    + apply Add_app. + split; assumption.
  - destruct (take_nth i (entries s)) as [[e others]|] eqn:Ee; [|discriminate].
    destruct (e_rest e); [discriminate|]. destruct (P_rtr p <? plen (e_run e)); [|discriminate].
    destruct (split_task (e_run e) (P_rtr p)). inversion H; subst. apply take_nth_perm in Ee.
    unfold holders in *. cbn [adder entries map e_thr]. eapply Permutation_NoDup; [apply holders_perm_entries; exact Ee|exact N].
  - destruct (take_nth i (entries s)) as [[e others]|] eqn:Ee; [|discriminate].
    destruct (e_rest e) as [sub|]; [|discriminate]. destruct (fst sub =? snd sub); [discriminate|].
    destruct (split_task sub (P_rtr p)). inversion H; subst. apply take_nth_perm in Ee.
    unfold holders in *. cbn [adder entries map e_thr]. eapply Permutation_NoDup; [apply holders_perm_entries; exact Ee|exact N].
  - destruct (take_nth i (entries s)) as [[e others]|] eqn:Ee; [|discriminate].
    destruct (e_rest e) as [sub|]; [|discriminate]. destruct (fst sub =? snd sub); [discriminate|].
    destruct (full_adjust (P_rtr p) (split_task sub (P_rtr p))). inversion H; subst. apply take_nth_perm in Ee.
    unfold holders in *. cbn [exec_piece adder entries map e_thr]. eapply Permutation_NoDup; [apply holders_perm_entries; exact Ee|exact N].
  - destruct (take_nth i (entries s)) as [[e others]|] eqn:Ee; [|discriminate].
    destruct (e_rest e) as [sub|]; [|discriminate]. destruct (fst sub =? snd sub); [|discriminate].
    inversion H; subst. apply take_nth_perm in Ee.
    unfold holders in *. cbn [adder entries map e_thr]. eapply Permutation_NoDup; [apply holders_perm_entries; exact Ee|exact N].
  - destruct (take_nth i (entries s)) as [[e others]|] eqn:Ee; [|discriminate].
    destruct (e_rest e) as [sub|]; [discriminate|]. destruct (P_rtr p <? plen (e_run e)); [discriminate|].
    inversion H; subst. apply take_nth_perm in Ee.
    unfold holders in *. cbn [exec_piece adder entries map e_thr].
    pose proof (Permutation_NoDup (holders_perm_entries s e others (adder s) Ee) N) as N2.
    apply NoDup_remove_1 in N2. exact N2.
  - destruct (take_nth j (owed s)) as [[o others]|]; [|discriminate]. inversion H; subst. exact N.
Qed.

Lemma flat_reachable_nodup p t0 s : reachable_flat p t0 s -> NoDup (holders s) /\ reachable p t0 s.
Proof.
  intro R. induction R as [|s l s' R [IH1 IH2] F Hs].
  - split; [|constructor]. unfold holders, init. cbn. constructor; [intros []|constructor].
  - split; [eapply flat_step_nodup; eassumption | econstructor; eassumption].
Qed.

Lemma inflight_bound p t0 s : wf_params p -> (t0 < P_T p)%nat -> reachable_flat p t0 s ->
  (length (holders s) <= P_T p)%nat.
Proof.
  intros W Ht R. destruct (flat_reachable_nodup _ _ _ R) as [N Rr].
  pose proof (holders_lt p s (inv_reachable _ _ _ W Ht Rr)) as L.
  rewrite <- (seq_length (P_T p) 0). apply NoDup_incl_length; [exact N|].
  intros t Hin. rewrite Forall_forall in L. apply in_seq. specialize (L t Hin). lia.
Qed.

(* ------------------------------------------------------------------ the unrepaired pipe-full branch *)
(* one step: range left [12,13), RangeToRun = 2, rangeToSplit = 6, pipe full: executes [12,14) *)
Lemma full_tail_old_step :
  full_adjust_old 2 6 (split_task (12, 13) 6) = ((12, 14), (14, 13)).
Proof. vm_compute. reflexivity. Qed.

(* parallel_for(13) on 3 threads (RangeToRun = 13/6 = 2, rangeToSplit = 13/2 = 6) with a full pipe:
   index 13 is executed and the range left is [14,13): start != end can never become false *)
Lemma full_tail_old_run :
  exists ls s', run_old (mk_params 13 3) (init (mk_params 13 3) 0%nat) ls = Some s' /\
                In 13 (done s') /\ adder s' = Some (0%nat, (14, 13)) /\
                step_old (mk_params 13 3) s' AddDone = None.
Proof.
  exists (repeat AddFullInline 7). eexists. split; [vm_compute; reflexivity|].
  split; [|split]; vm_compute; try reflexivity. intuition congruence.
Qed.

(* the same schedule on the repaired machine executes exactly 0..12 and finishes *)
Lemma full_tail_repaired_run :
  exists s', run (mk_params 13 3) (init (mk_params 13 3) 0%nat) (repeat AddFullInline 7 ++ [AddDone]) = Some s' /\
             done s' = zrange 0 13 /\ joined s'.
Proof. eexists. split; [vm_compute; reflexivity|]. split; [vm_compute; reflexivity|]. split; reflexivity. Qed.

(* ------------------------------------------------------------------ publish before count: the join breaks *)
(* parallel_for(4) on 3 threads.  Thread 1 steals [0,2), splits off [0,1) and publishes the rest [1,2) before counting it;
   thread 2 steals, runs and retires [1,2); thread 0 (the waiter) pops [2,4), splits off [2,3), publishes [3,4) uncounted,
   runs and retires [2,3): m_RunningCount = 0 and AddTaskSetToPipe has returned, so WaitforTask exits — with index 0 held
   unrun by thread 1, [3,4) still queued, and two increments outstanding. *)
Definition pubfirst_schedule : list vlabel :=
  [VPublish; VCount; VPublish; VCount; VL AddDone;
   VL (Steal 1 0); VL (SplitRest 0); VRestPublish 0;
   VL (Steal 2 1); VL (Exec 0); VL (Dec 0);
   VL (PopOwn 0); VL (SplitRest 0); VRestPublish 0; VL (RestDone 0); VL (Exec 0); VL (Dec 0)].
Lemma pubfirst_refuted :
  exists s', run_pubfirst (mk_params 4 3) {| v_st := init (mk_params 4 3) 0%nat; v_late := 0%nat |} pubfirst_schedule = Some s' /\
             joined (v_st s') /\ done (v_st s') = [1; 2] /\ v_late s' = 2%nat /\
             ~ Permutation (done (v_st s')) (zrange 0 4).
Proof.
  eexists. split; [vm_compute; reflexivity|]. split; [split; reflexivity|]. split; [reflexivity|]. split; [reflexivity|].
  cbn. intro H. apply Permutation_length in H. discriminate.
Qed.

(* the same loop and the same thread actions with "count, then publish" (AddWrite / RestWrite): the count is 3 at that
   point, the waiter does not exit *)
Definition countfirst_schedule : list label :=
  [AddWrite; AddWrite; AddDone; Steal 1 0; SplitRest 0; RestWrite 0; Steal 2 1; Exec 0; Dec 0;
   PopOwn 0; SplitRest 0; RestWrite 0; RestDone 0; Exec 0; Dec 0].
Lemma countfirst_same_schedule :
  exists s', run (mk_params 4 3) (init (mk_params 4 3) 0%nat) countfirst_schedule = Some s' /\
             done s' = [1; 2] /\ rc s' = 2 /\ ~ joined s'.
Proof.
  eexists. split; [vm_compute; reflexivity|]. split; [reflexivity|]. split; [reflexivity|].
  intros [_ H]. cbn in H. discriminate.
Qed.
