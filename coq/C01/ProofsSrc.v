(* C01 — the regenerated source (gen/Src.v) coincides with the hand model (Model.v). *)
From Coq Require Import ZArith List String Bool Lia.
From Common Require Import Prelude CxxSem.
From C01 Require Import Model ProofsArith SrcLang.
From C01.gen Require Import Src.
Import ListNotations.
Local Open Scope string_scope.
Local Open Scope Z_scope.

Definition u32 (z : Z) : Prop := 0 <= z < 4294967296.

Lemma wrapU32 z : u32 z -> wrap U32 z = z.
Proof. intro H. unfold u32 in H. apply wrap_fits; [reflexivity|congruence|]. unfold fits, tmin, tmax. cbn. lia. Qed.

(* ------------------------------------------------------------------ SplitTask *)
(* run the regenerated body on subTask_ = [lo,hi), rangeToSplit_ = r; result (splitTask, subTask_) *)
Definition split_src (lo hi r : Z) : option (part * part) :=
  match f_body src_SplitTask with
  | Decl d _ (Some (Var v)) :: rest =>
      if (String.eqb d "splitTask" && String.eqb v "subTask_")%bool then
        let s0 := [("subTask_.partition.start", lo); ("subTask_.partition.end", hi); ("subTask_.pTask", 1); ("rangeToSplit_", r)] in
        let s := exec (copy_subtask "splitTask" "subTask_" s0) rest in
        match last rest (SUnk "") with
        | Ret (Some (Var w)) =>
            if String.eqb w "splitTask" then
              Some ((lookup s "splitTask.partition.start", lookup s "splitTask.partition.end"),
                    (lookup s "subTask_.partition.start", lookup s "subTask_.partition.end"))
            else None
        | _ => None
        end
      else None
  | _ => None
  end.

Ltac u32s := unfold u32 in *; lia.
(* evaluate the conversions of integer literals *)
Ltac wlit :=
  repeat match goal with
         | |- context [wrap ?t (Zpos ?p)] => let v := eval vm_compute in (wrap t (Zpos p)) in change (wrap t (Zpos p)) with v
         | |- context [wrap ?t Z0] => let v := eval vm_compute in (wrap t Z0) in change (wrap t Z0) with v
         | |- context [wrap ?t (Zneg ?p)] => let v := eval vm_compute in (wrap t (Zneg p)) in change (wrap t (Zneg p)) with v
         end.

Lemma split_src_sem lo hi r : u32 lo -> u32 hi -> lo <= hi -> u32 r ->
  split_src lo hi r = Some (split_task (lo, hi) r).
Proof.
  intros Hlo Hhi Hle Hr. unfold split_src. cbn -[wrap Z.sub Z.add Z.ltb].
  rewrite !(wrapU32 (hi - lo)) by u32s. unfold split_task. cbn [fst snd].
  destruct (hi - lo <? r) eqn:E; cbn -[wrap Z.sub Z.add]; rewrite ?wrapU32 by u32s; reflexivity.
Qed.

(* ------------------------------------------------------------------ StartThreads: partition counts *)
Definition partitions_src (T : Z) : option (Z * Z) :=
  match find_if_assigning "m_NumPartitions" (f_body src_StartThreads) with
  | Some (c, a, b) =>
      let s := exec [("m_NumThreads", T); ("MAX_NUM_INITIAL_PARTITIONS", src_MAX_NUM_INITIAL_PARTITIONS)] [If c a b] in
      if known [If c a b] then Some (lookup s "m_NumPartitions", lookup s "m_NumInitialPartitions") else None
  | None => None
  end.

Lemma partitions_src_sem T : 1 <= T <= 65536 ->
  partitions_src T = Some (num_partitions T, num_initial_partitions T).
Proof.
  intro HT. unfold partitions_src. cbn -[wrap Z.sub Z.mul Z.ltb Z.eqb]. wlit.
  unfold num_partitions, num_initial_partitions, src_MAX_NUM_INITIAL_PARTITIONS.
  rewrite (Z.eqb_sym 1 T). destruct (T =? 1) eqn:E; cbn -[wrap Z.sub Z.mul Z.ltb Z.eqb]; [reflexivity|].
  assert (0 <= T * (T - 1) < 4294967296) by nia.
  rewrite !(wrapU32 (T - 1)) by u32s. rewrite !(wrapU32 (T * (T - 1))) by u32s.
  destruct (8 <? T - 1) eqn:E2; cbn -[wrap Z.sub Z.mul]; reflexivity.
Qed.

(* ------------------------------------------------------------------ AddTaskSetToPipe *)
Record add_view := { av_rc : Z; av_rtr : Z; av_rts : Z; av_start : Z; av_end : Z; av_call : list (string * list ex) }.
Definition add_src (n np ni : Z) : add_view :=
  let s := exec [("pTaskSet->m_SetSize", n); ("pTaskSet->m_MinRange", 1); ("m_NumPartitions", np);
                 ("m_NumInitialPartitions", ni); ("pTaskSet->m_RunningCount", 77)] (f_body src_AddTaskSetToPipe) in
  {| av_rc := lookup s "pTaskSet->m_RunningCount"; av_rtr := lookup s "pTaskSet->m_RangeToRun";
     av_rts := lookup s "rangeToSplit"; av_start := lookup s "subTask.partition.start";
     av_end := lookup s "subTask.partition.end"; av_call := top_calls (f_body src_AddTaskSetToPipe) |}.

Lemma quot_small n d : u32 n -> 0 < d -> u32 (Z.quot n d) /\ Z.quot n d = n / d.
Proof.
  intros Hn Hd. unfold u32 in *. rewrite Z.quot_div_nonneg by lia. split; [|reflexivity].
  split; [apply Z.div_pos; lia|]. apply Z.le_lt_trans with n; [|lia]. apply Z.div_le_upper_bound; nia.
Qed.

Lemma add_src_sem n T : u32 n -> 1 <= T <= 65536 ->
  known (f_body src_AddTaskSetToPipe) = true /\
  add_src n (num_partitions T) (num_initial_partitions T) =
  {| av_rc := 0; av_rtr := range_to_run n T; av_rts := range_to_split n T; av_start := 0; av_end := n;
     av_call := [("ctor enki::SubTaskSet", []); ("SplitAndAddTask", [Var "gtl_threadNum"; Var "subTask"; Var "rangeToSplit"])] |}.
Proof.
  intros Hn HT. split; [vm_compute; reflexivity|].
  assert (Hnp : 0 < num_partitions T) by (unfold num_partitions; destruct (T =? 1) eqn:E; nia).
  assert (Hni : 0 < num_initial_partitions T)
    by (unfold num_initial_partitions; destruct (T =? 1) eqn:E0; [lia|]; destruct (8 <? T - 1) eqn:E; lia).
  destruct (quot_small n _ Hn Hnp) as [Q1 Q2]. destruct (quot_small n _ Hn Hni) as [Q3 Q4].
  unfold add_src. cbn -[wrap Z.quot Z.ltb num_partitions num_initial_partitions].
  rewrite !(wrapU32 (Z.quot n (num_partitions T))) by assumption.
  unfold range_to_run, range_to_split. rewrite <- Q2, <- Q4.
  destruct (Z.quot n (num_partitions T) <? 1) eqn:E1;
    cbn -[wrap Z.quot Z.ltb num_partitions num_initial_partitions];
    rewrite !(wrapU32 (Z.quot n (num_initial_partitions T))) by assumption;
    destruct (Z.quot n (num_initial_partitions T) <? 1) eqn:E2;
    cbn -[wrap Z.quot Z.ltb num_partitions num_initial_partitions]; wlit; reflexivity.
Qed.

(* ------------------------------------------------------------------ SplitAndAddTask *)
Definition is_write_fail (c : ex) : bool :=
  match c with Not (Call f _ _) => String.eqb f "WriterTryWriteFront" | _ => false end.

Record saa_view := {
  sv_cond : ex;                               (* while condition *)
  sv_head : list (string * list ex);          (* calls before the write attempt *)
  sv_fail : list stmt;                        (* pipe-full branch *)
  sv_adj : ex * list stmt * list stmt;        (* its "alter range" if *)
  sv_fail_tail : list (string * list ex) }.   (* calls after the "alter range" if *)
Definition saa_src : option saa_view :=
  match find_while (f_body src_SplitAndAddTask) with
  | Some (c, body) =>
      match find_if is_write_fail body with
      | Some (_, fail, _) =>
          match fail with
          | If c2 a b :: rest =>
              if known (f_body src_SplitAndAddTask) && mentions "pTask->m_RangeToRun" c2
              then Some {| sv_cond := c; sv_head := top_calls body; sv_fail := fail; sv_adj := (c2, a, b); sv_fail_tail := top_calls rest |}
              else None
          | _ => None
          end
      | None => None
      end
  | None => None
  end.

(* the loop runs while start != end; per iteration SplitTask(subTask_, rangeToSplit_) then ++m_RunningCount
   before the write attempt; in the pipe-full branch: adjust, ExecuteRange(taskToAdd.partition), --m_RunningCount *)
Lemma saa_structure : exists v, saa_src = Some v /\
  (forall lo hi, truthy (eval [("subTask_.partition.start", lo); ("subTask_.partition.end", hi)] (sv_cond v)) = negb (lo =? hi)) /\
  sv_head v = [("SplitTask", [Var "subTask_"; Var "rangeToSplit_"]); ("AtomicAdd", [Var "&pTask->m_RunningCount"; Lit 1])] /\
  sv_fail_tail v = [("ExecuteRange", [Var "taskToAdd.partition"; Var "threadNum_"]); ("AtomicAdd", [Var "&pTask->m_RunningCount"; Lit (-1)])].
Proof.
  eexists. split; [vm_compute; reflexivity|]. split; [|split; reflexivity].
  intros lo hi. cbn -[Z.eqb]. destruct (lo =? hi); reflexivity.
Qed.

(* the "alter range to run the appropriate fraction" statement, executed on
   taskToAdd.partition = piece, subTask_.partition = sub, m_RangeToRun = rtr *)
Definition adjust_src (rtr : Z) (ps : part * part) : option (part * part) :=
  match saa_src with
  | Some v =>
      let '(c2, a, b) := sv_adj v in
      let s := exec [("taskToAdd.partition.start", fst (fst ps)); ("taskToAdd.partition.end", snd (fst ps));
                     ("subTask_.partition.start", fst (snd ps)); ("subTask_.partition.end", snd (snd ps));
                     ("pTask->m_RangeToRun", rtr)] [If c2 a b] in
      Some ((lookup s "taskToAdd.partition.start", lookup s "taskToAdd.partition.end"),
            (lookup s "subTask_.partition.start", lookup s "subTask_.partition.end"))
  | None => None
  end.

Lemma adjust_src_sem rtr a b c d : u32 rtr -> u32 a -> u32 b -> a <= b -> u32 c -> u32 d ->
  adjust_src rtr ((a, b), (c, d)) = Some (full_adjust rtr ((a, b), (c, d))).
Proof.
  intros Hr Ha Hb Hab Hc Hd. unfold adjust_src. cbn -[wrap Z.sub Z.add Z.ltb].
  rewrite !(wrapU32 (b - a)) by u32s. unfold full_adjust, plen. cbn [fst snd].
  destruct (rtr <? b - a) eqn:E; cbn -[wrap Z.sub Z.add]; rewrite ?wrapU32 by u32s; reflexivity.
Qed.

(* ------------------------------------------------------------------ TryRunTask *)
Definition is_var (p : string) (c : ex) : bool := match c with Var q => String.eqb p q | _ => false end.
Record trt_view := { tv_size : ex; tv_cond : ex; tv_then : list (string * list ex); tv_else : list (string * list ex) }.
Definition trt_src : option trt_view :=
  match find_if (is_var "bHaveTask") (f_body src_TryRunTask) with
  | Some (_, blk, _) =>
      match decl_init "partitionSize" blk, find_if (mentions "pTask->m_RangeToRun") blk with
      | Some sz, Some (c, th, el) =>
          if known blk then Some {| tv_size := sz; tv_cond := c; tv_then := top_calls th; tv_else := top_calls el |} else None
      | _, _ => None
      end
  | None => None
  end.

Lemma trt_structure : exists v, trt_src = Some v /\
  (forall lo hi rtr, u32 lo -> u32 hi -> lo <= hi ->
     let s := [("subTask.partition.start", lo); ("subTask.partition.end", hi); ("pTask->m_RangeToRun", rtr)] in
     truthy (eval (("partitionSize", eval s (tv_size v)) :: s) (tv_cond v)) = (rtr <? plen (lo, hi))) /\
  tv_then v = [("SplitTask", [Var "subTask"; Var "pTask->m_RangeToRun"]);
               ("SplitAndAddTask", [Var "threadNum"; Var "subTask"; Var "pTask->m_RangeToRun"]);
               ("ExecuteRange", [Var "taskToRun.partition"; Var "threadNum"]);
               ("AtomicAdd", [Var "&pTask->m_RunningCount"; Lit (-1)])] /\
  tv_else v = [("ExecuteRange", [Var "subTask.partition"; Var "threadNum"]);
               ("AtomicAdd", [Var "&pTask->m_RunningCount"; Lit (-1)])].
Proof.
  eexists. split; [vm_compute; reflexivity|]. split; [|split; reflexivity].
  intros lo hi rtr Hlo Hhi Hle s. subst s. cbn -[wrap Z.sub Z.ltb]. rewrite wrapU32 by u32s.
  unfold plen. cbn [fst snd]. destruct (rtr <? hi - lo); reflexivity.
Qed.

(* ------------------------------------------------------------------ WaitforTask *)
Definition wait_src : option (ex * list (string * list ex)) :=
  match find_if (mentions "pCompletable_") (f_body src_WaitforTask) with
  | Some (_, th, _) => match find_while th with
                       | Some (c, body) => if known th then Some (c, top_calls body) else None
                       | None => None
                       end
  | None => None
  end.

(* the waiter keeps calling TryRunTask exactly while m_RunningCount != 0 *)
Lemma wait_structure : exists c calls, wait_src = Some (c, calls) /\
  (forall rc, truthy (eval [("pCompletable_->m_RunningCount", rc)] c) = negb (rc =? 0)) /\
  map fst calls = ["TryRunTask"].
Proof.
  eexists. eexists. split; [vm_compute; reflexivity|]. split; [|reflexivity].
  intro rc. cbn -[Z.eqb]. destruct (rc =? 0); reflexivity.
Qed.

(* ------------------------------------------------------------------ parallel_in_blocks_of *)
Record blk_view := { bv_num : ex; bv_outer : list (string * list ex); bv_lambda : list stmt; bv_inner : list (string * list ex) }.
Definition blk_src (f lam : func) : option blk_view :=
  match decl_init "numBlocks" (f_body f) with
  | Some e => if known (f_body f) && known (f_body lam)
              then Some {| bv_num := e; bv_outer := top_calls (f_body f); bv_lambda := f_body lam; bv_inner := top_calls (f_body lam) |}
              else None
  | None => None
  end.
Definition blk_begin_end (v : blk_view) (n b : Z) : Z * Z :=
  let s := exec [("nTasks", n); ("blockID", b)] (bv_lambda v) in (lookup s "begin", lookup s "end").

(* instantiation <1024, unsigned>: the regenerated expressions ARE the machine-width model, for every n and block *)
Lemma blocks_u32_src : exists v, blk_src src_blocks_u32_1024 src_blocks_u32_1024_lambda0 = Some v /\
  (forall n, eval [("nTasks", n)] (bv_num v) = m_num_blocks U32 n 1024) /\
  (forall n b, blk_begin_end v n b = (m_block_begin U32 1024 b, m_block_end U32 n 1024 b)) /\
  map fst (bv_outer v) = ["parallel_for"] /\ map snd (bv_outer v) = [[Var "numBlocks"; Var "LAMBDA#0"]] /\
  bv_inner v = [("call fcn", [Var "begin"; Var "end"])].
Proof.
  eexists. split; [vm_compute; reflexivity|]. split; [|split; [|repeat split; reflexivity]].
  - intro n. cbn -[wrap Z.sub Z.add Z.quot Z.ltb]. wlit. unfold m_num_blocks. wlit.
    destruct (0 <? n); reflexivity.
  - intros n b. unfold blk_begin_end. cbn -[wrap Z.sub Z.add Z.mul Z.ltb]. wlit.
    unfold m_block_begin, m_block_end, m_block_begin. wlit. reflexivity.
Qed.

(* instantiation <4, int> *)
Lemma blocks_i32_src : exists v, blk_src src_blocks_i32_4 src_blocks_i32_4_lambda0 = Some v /\
  (forall n, fits I32 n -> eval [("nTasks", n)] (bv_num v) = m_num_blocks I32 n 4) /\
  (forall n b, blk_begin_end v n b = (m_block_begin I32 4 b, m_block_end I32 n 4 b)) /\
  map fst (bv_outer v) = ["parallel_for"] /\ map snd (bv_outer v) = [[Var "numBlocks"; Var "LAMBDA#0"]] /\
  bv_inner v = [("call fcn", [Var "begin"; Var "end"])].
Proof.
  eexists. split; [vm_compute; reflexivity|]. split; [|split; [|repeat split; reflexivity]].
  - intros n Hn. cbn -[wrap Z.sub Z.add Z.quot Z.ltb]. unfold m_num_blocks. wlit.
    destruct (0 <? n); reflexivity.
  - intros n b. unfold blk_begin_end. cbn -[wrap Z.sub Z.add Z.mul Z.ltb].
    unfold m_block_begin, m_block_end, m_block_begin. wlit. reflexivity.
Qed.

(* ------------------------------------------------------------------ backend dispatch (parallel_for.inl) *)
(* TBB: tbb::parallel_for(first, last, f) instantiated at Index = INDEX_T, first = 0, last = nTasks unconverted *)
Definition tbb_view (f : func) : option (string * string * ex * ex) :=
  match f_body f with
  | [Exp (Call g sig [a; b; _])] => if known (f_body f) then Some (g, sig, a, b) else None
  | _ => None
  end.
Lemma dispatch_tbb_src :
  (exists a b, tbb_view src_impl_tbb_int = Some ("parallel_for", "void (int, int, const c01inst::FI &)", a, b) /\
               forall n, eval [("nTasks", n)] a = 0 /\ eval [("nTasks", n)] b = n) /\
  (exists a b, tbb_view src_impl_tbb_size_t = Some ("parallel_for", "void (unsigned long, unsigned long, const c01inst::FS &)", a, b) /\
               forall n, eval [("nTasks", n)] a = 0 /\ eval [("nTasks", n)] b = n).
Proof.
  split; eexists; eexists; (split; [vm_compute; reflexivity|]); intro n; split; reflexivity.
Qed.

(* OpenMP and Debug: for (INDEX_T taskIndex = 0; taskIndex < nTasks; ++taskIndex) fcn(taskIndex), at type t *)
Definition loop_ok (t : ctype) (f : func) : Prop :=
  exists init c inc body, find_for (f_body f) = Some (init, c, inc, body) /\ known (f_body f) = true /\
    lookup (exec [] init) "taskIndex" = 0 /\
    (forall i n, truthy (eval [("taskIndex", i); ("nTasks", n)] c) = (i <? n)) /\
    (forall i, lookup (exec [("taskIndex", i)] inc) "taskIndex" = wrap t (i + 1)) /\
    top_calls body = [("call fcn", [Var "taskIndex"])].
Ltac loop_tac :=
  unfold loop_ok; do 4 eexists; split; [vm_compute; reflexivity|]; split; [vm_compute; reflexivity|];
  split; [vm_compute; reflexivity|]; split; [|split; [|reflexivity]];
  [intros i n; cbn -[Z.ltb]; destruct (i <? n); reflexivity | intro i; cbn -[wrap Z.add]; reflexivity].
Lemma dispatch_loops_src :
  loop_ok I32 src_impl_omp_int /\ loop_ok U64 src_impl_omp_size_t /\
  loop_ok I32 src_impl_debug_int /\ loop_ok U64 src_impl_debug_size_t /\
  (exists d c l, f_body src_impl_omp_int = [Omp d c l] /\ d = "OMPParallelForDirective").
Proof.
  split; [loop_tac|]. split; [loop_tac|]. split; [loop_tac|]. split; [loop_tac|].
  do 3 eexists. split; reflexivity.
Qed.

(* Internal: parallel_for_internal(int nTasks, ..): the count is converted to int at the call;
   guard nTasks <= 0 returns before any task set exists; the set size is the int converted to uint32_t *)
Definition internal_view (f : func) : option (string * ex) :=
  match f_body f with
  | [Exp (Call g sig [a; _])] =>
      if known (f_body f) && String.eqb (substring 0 10 sig) "void (int," then Some (g, a) else None
  | _ => None
  end.
Definition internal_src (arg : ex) (n : Z) : option (option Z) :=
  match f_body src_parallel_for_internal with
  | If c [Ret None] [] :: rest =>
      if known (f_body src_parallel_for_internal) &&
         forallb (fun st => match st with Ret _ | If _ _ _ | While _ _ | For _ _ _ _ => false | _ => true end) rest
      then
        let m := eval [("nTasks", n)] arg in
        if truthy (eval [("nTasks", m)] c) then Some None
        else match top_calls rest with
             | [(ctor, [Var a0; _]); (sched, [Var t1]); (wait, [Var t2])] =>
                 if String.eqb ctor "ctor LocalTask" && String.eqb a0 "nTasks" && String.eqb sched "scheduleTaskInternal"
                    && String.eqb wait "waitInternal" && String.eqb t1 "&task" && String.eqb t2 "&task"
                 then Some (Some (eval [("nunTasks", m)] src_LocalTask_base_init))
                 else None
             | _ => None
             end
      else None
  | _ => None
  end.

Lemma dispatch_internal_src :
  (exists a, internal_view src_impl_internal_int = Some ("parallel_for_internal", a) /\
             forall n, fits I32 n -> internal_src a n = Some (internal_request TInt n)) /\
  (exists a, internal_view src_impl_internal_size_t = Some ("parallel_for_internal", a) /\
             forall n, fits U64 n -> internal_src a n = Some (internal_request TSizeT n)).
Proof.
  split; eexists; (split; [vm_compute; reflexivity|]); intros n Hn; unfold internal_src;
    cbn -[wrap Z.leb]; unfold internal_request, to_i32, to_u32; cbn [cty].
  - rewrite !(wrap_fits I32 n) by (reflexivity || congruence || assumption).
    destruct (n <=? 0); cbn -[wrap]; reflexivity.
  - rewrite !(wrap_fits U64 n) by (reflexivity || congruence || assumption).
    destruct (wrap I32 n <=? 0); cbn -[wrap]; reflexivity.
Qed.

(* LocalTask::ExecuteRange: for (i = tp.start; i < tp.end; ++i) t(i) *)
Lemma execute_range_src :
  exists init c inc body, find_for (f_body src_LocalTask_ExecuteRange) = Some (init, c, inc, body) /\
    known (f_body src_LocalTask_ExecuteRange) = true /\
    (forall lo, lookup (exec [("tp.start", lo)] init) "i" = lo) /\
    (forall i hi, truthy (eval [("i", i); ("tp.end", hi)] c) = (i <? hi)) /\
    (forall i, lookup (exec [("i", i)] inc) "i" = wrap U32 (i + 1)) /\
    (exists sig a, body = [Exp (Call "call t" sig [a])] /\ forall i, eval [("i", i)] a = wrap I32 i).
Proof.
  do 4 eexists. split; [vm_compute; reflexivity|]. split; [vm_compute; reflexivity|].
  split; [intro lo; reflexivity|]. split; [intros i hi; cbn -[Z.ltb]; destruct (i <? hi); reflexivity|].
  split; [intro i; reflexivity|]. do 2 eexists. split; [reflexivity|]. intro i. reflexivity.
Qed.

(* ------------------------------------------------------------------ parallel_foreach *)
(* iterator overload at ITERATOR_T = unsigned char*: begin = base, end = base + d (d elements) *)
Record fe_view := { fv_count : Z; fv_decls : list (string * string); fv_calls : list (string * string);
                    fv_args : list (string * list ex); fv_lam_params : list (string * string); fv_elem : Z -> Z }.
Definition foreach_src (base d : Z) : fe_view :=
  let s := exec [("begin", base); ("end", base + d); ("&*begin", base)] (f_body src_foreach_iter) in
  let arg := match top_calls (f_body src_foreach_iter) with
             | [(_, [a; _])] => eval s a
             | _ => -1
             end in
  {| fv_count := arg; fv_decls := decl_types (f_body src_foreach_iter);
     fv_calls := top_call_sigs (f_body src_foreach_iter); fv_args := top_calls (f_body src_foreach_iter);
     fv_lam_params := f_params src_foreach_iter_lambda0;
     fv_elem := fun i => match f_body src_foreach_iter_lambda0 with
                         | [Exp (Call g _ [e])] => if String.eqb g "call f" then eval (("i", wrap U64 i) :: s) e else -1
                         | _ => -1
                         end |}.
(* the elements f is applied to: parallel_for<size_t>(count, i => f(v[i])) runs i over [0, count) *)
Definition foreach_src_addrs (base d : Z) : list Z :=
  let v := foreach_src base d in map (fv_elem v) (zrange 0 (fv_count v)).

Lemma wrapU64 z : 0 <= z < 18446744073709551616 -> wrap U64 z = z.
Proof. intro H. apply wrap_fits; [reflexivity|congruence|]. unfold fits, tmin, tmax. cbn. lia. Qed.

Lemma foreach_src_sem base d : 0 <= d < 18446744073709551616 ->
  known (f_body src_foreach_iter) = true /\ known (f_body src_foreach_iter_lambda0) = true /\
  fv_decls (foreach_src base d) = [("count", "const size_t"); ("v", "unsigned char *")] /\
  fv_calls (foreach_src base d) = [("parallel_for", "void (unsigned long, LAMBDA &&)")] /\
  fv_args (foreach_src base d) = [("parallel_for", [Var "count"; Var "LAMBDA#0"])] /\
  fv_lam_params (foreach_src base d) = [("i", "size_t")] /\
  fv_count (foreach_src base d) = d /\
  foreach_src_addrs base d = foreach_addrs base 1 d.
Proof.
  intro Hd. assert (Hc : fv_count (foreach_src base d) = d).
  { cbn -[wrap Z.add Z.sub]. replace (base + d - base) with d by lia. apply wrapU64; exact Hd. }
  split; [vm_compute; reflexivity|]. split; [vm_compute; reflexivity|].
  split; [reflexivity|]. split; [reflexivity|]. split; [reflexivity|]. split; [reflexivity|].
  split; [exact Hc|].
  unfold foreach_src_addrs. rewrite Hc. unfold foreach_addrs. apply map_ext_in.
  intros i Hi. apply In_zrange in Hi. cbn -[wrap Z.add Z.sub]. rewrite wrapU64 by lia. lia.
Qed.

(* container overload: forwards begin(c), end(c), f to the iterator overload *)
Lemma foreach_container_src :
  known (f_body src_foreach_container) = true /\
  exists sig a b fw, f_body src_foreach_container = [Exp (Call "parallel_foreach" sig [Call "begin" a [Var "c"]; Call "end" b [Var "c"]; fw])].
Proof. split; [vm_compute; reflexivity|]. do 4 eexists. reflexivity. Qed.

(* what the narrowed variant (count held in an int) would request: the witnesses the check replays *)
Lemma foreach_int_count_refuted :
  wrap I32 (2147483648 + 5) < 0 /\ wrap I32 (4294967296 + 3) = 3 /\
  foreach_addrs 0 1 (wrap I32 (2147483648 + 5)) = [].
Proof. repeat split; vm_compute; reflexivity. Qed.

(* ------------------------------------------------------------------ declared types of the count-like locals *)
(* (a local narrower than INDEX_T, or a loop / lambda index of another type, would show here and in the
   conversions the evaluator applies) *)
Definition for_decl_types (f : func) : list (string * string) :=
  match find_for (f_body f) with Some (init, _, _, _) => decl_types init | None => [] end.
Lemma count_types_src :
  (* parallel_in_blocks_of<1024>(unsigned) *)
  hd ("", "") (f_params src_blocks_u32_1024) = ("nTasks", "unsigned int") /\
  decl_types (f_body src_blocks_u32_1024) = [("numBlocks", "unsigned int")] /\
  top_call_sigs (f_body src_blocks_u32_1024) = [("parallel_for", "void (unsigned int, LAMBDA &&)")] /\
  f_params src_blocks_u32_1024_lambda0 = [("blockID", "unsigned int")] /\
  decl_types (f_body src_blocks_u32_1024_lambda0) = [("begin", "unsigned int"); ("end", "unsigned int")] /\
  (* parallel_in_blocks_of<4>(int) *)
  hd ("", "") (f_params src_blocks_i32_4) = ("nTasks", "int") /\
  decl_types (f_body src_blocks_i32_4) = [("numBlocks", "int")] /\
  top_call_sigs (f_body src_blocks_i32_4) = [("parallel_for", "void (int, LAMBDA &&)")] /\
  f_params src_blocks_i32_4_lambda0 = [("blockID", "int")] /\
  decl_types (f_body src_blocks_i32_4_lambda0) = [("begin", "int"); ("end", "int")] /\
  (* parallel_for_impl loops *)
  for_decl_types src_impl_omp_int = [("taskIndex", "int")] /\
  for_decl_types src_impl_omp_size_t = [("taskIndex", "unsigned long")] /\
  for_decl_types src_impl_debug_int = [("taskIndex", "int")] /\
  for_decl_types src_impl_debug_size_t = [("taskIndex", "unsigned long")] /\
  (* internal backend *)
  hd ("", "") (f_params src_parallel_for_internal) = ("nTasks", "int") /\
  for_decl_types src_LocalTask_ExecuteRange = [("i", "uint32_t")].
Proof. repeat (split; [vm_compute; reflexivity|]). vm_compute. reflexivity. Qed.

(* ------------------------------------------------------------------ the dispatch carries no state between loops *)
(* parallel_for_impl is ONE statement per backend, and the TBB call's argument list is closed: exactly
   (first, last, body) — no task_group_context / partitioner object shared between calls — and no local is static *)
Definition no_static (f : func) : bool :=
  forallb (fun pt => negb (String.eqb (substring 0 7 (snd pt)) "static ")) (decl_types (f_body f)).
Lemma dispatch_stateless_src :
  (exists sig a b c, f_body src_impl_tbb_int = [Exp (Call "parallel_for" sig [a; b; c])]) /\
  (exists sig a b c, f_body src_impl_tbb_size_t = [Exp (Call "parallel_for" sig [a; b; c])]) /\
  (exists sig a c, f_body src_impl_internal_int = [Exp (Call "parallel_for_internal" sig [a; c])]) /\
  (exists sig a c, f_body src_impl_internal_size_t = [Exp (Call "parallel_for_internal" sig [a; c])]) /\
  (exists d c i e n b, f_body src_impl_omp_int = [Omp d c [For i e n b]]) /\
  (exists d c i e n b, f_body src_impl_omp_size_t = [Omp d c [For i e n b]]) /\
  (exists i e n b, f_body src_impl_debug_int = [For i e n b]) /\
  (exists i e n b, f_body src_impl_debug_size_t = [For i e n b]) /\
  forallb no_static [src_impl_tbb_int; src_impl_tbb_size_t; src_impl_omp_int; src_impl_omp_size_t;
                     src_impl_internal_int; src_impl_internal_size_t; src_impl_debug_int; src_impl_debug_size_t;
                     src_parallel_for_internal; src_blocks_u32_1024; src_blocks_u32_1024_lambda0; src_blocks_i32_4;
                     src_blocks_i32_4_lambda0; src_foreach_iter; src_foreach_iter_lambda0; src_foreach_container] = true.
Proof.
  split; [do 4 eexists; reflexivity|]. split; [do 4 eexists; reflexivity|].
  split; [do 3 eexists; reflexivity|]. split; [do 3 eexists; reflexivity|].
  split; [do 6 eexists; reflexivity|]. split; [do 6 eexists; reflexivity|].
  split; [do 4 eexists; reflexivity|]. split; [do 4 eexists; reflexivity|].
  vm_compute. reflexivity.
Qed.

(* ------------------------------------------------------------------ the dispatch does no arithmetic on the count *)
(* what each backend is handed is nTasks itself (possibly converted), never a product / quotient formed in INDEX_T: the
   TBB arguments, the argument of parallel_for_internal, the bound of the OpenMP / Debug loops; the only arithmetic of the
   loops is ++taskIndex.  (A chunked dispatch n*c/k evaluated in INDEX_T is what Properties.chunk_bounds_wrap_refuted excludes.) *)
Definition call_args_arith_free (f : func) : bool :=
  forallb (fun st => match st with Exp (Call _ _ args) => forallb arith_free args | _ => false end) (f_body f).
Definition loop_arith (f : func) : option (bool * list stmt) :=
  match find_for (f_body f) with
  | Some (init, c, inc, body) =>
      Some (forallb (fun st => match st with Decl _ _ (Some e) => arith_free e | _ => false end) init && arith_free c
            && forallb (fun st => match st with Exp e => arith_free e | _ => false end) body, inc)
  | None => None
  end.
Lemma dispatch_arith_free_src :
  call_args_arith_free src_impl_tbb_int = true /\ call_args_arith_free src_impl_tbb_size_t = true /\
  call_args_arith_free src_impl_internal_int = true /\ call_args_arith_free src_impl_internal_size_t = true /\
  loop_arith src_impl_omp_int = Some (true, [Asg "taskIndex" (Bin Add I32 (Var "taskIndex") (Lit 1))]) /\
  loop_arith src_impl_omp_size_t = Some (true, [Asg "taskIndex" (Bin Add U64 (Var "taskIndex") (Lit 1))]) /\
  loop_arith src_impl_debug_int = Some (true, [Asg "taskIndex" (Bin Add I32 (Var "taskIndex") (Lit 1))]) /\
  loop_arith src_impl_debug_size_t = Some (true, [Asg "taskIndex" (Bin Add U64 (Var "taskIndex") (Lit 1))]).
Proof. repeat (split; [vm_compute; reflexivity|]). vm_compute. reflexivity. Qed.
