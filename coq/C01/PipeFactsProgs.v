(* C01/C02 — the instruction tables DERIVED FROM THE SOURCE: gen/PipeFacts.v (written by
   props/C01/pipe_factgen.py from the clang AST of the working tree) flattened by PipeFactsDefs.compile.
   Definitions only.  On the unchanged tree facts_progs m = Pipe.prog_of m (PropertiesPipeFacts.v); on a changed
   tree the model explorer can be run on facts_progs to look for a concrete failing schedule.  A method whose
   source does not compile (something unrecognised) gets the empty table: the machine of Pipe.v then executes
   its default instruction IRet false, and facts_progs_ok tells the caller that this happened. *)
From Common Require Import Prelude.
From C01 Require Import Pipe PipeFactsDefs.
From C01.gen Require Import PipeFacts.

Definition src_of (m : method) : list sstmt :=
  match m with MWrite => src_write | MReader => src_reader | MFront => src_front end.

Definition facts_progs (m : method) : list instr :=
  match compile (src_of m) with Some p => p | None => [] end.

(* did the source of m compile? *)
Definition facts_progs_ok (m : method) : bool :=
  match compile (src_of m) with Some _ => true | None => false end.

(* are the source-derived tables the tables of Pipe.v? *)
Definition facts_progs_same (m : method) : bool :=
  match compile (src_of m) with
  | Some p => prog_eqb p (prog_of m)
  | None => false
  end.
