(* C01 — parallel loops run every index exactly once and join before returning.
   Executable model (definitions only; proofs are in Proofs*.v).

   Part 1  index conversions of the internal backend   (TaskSys.h: parallel_for_internal(int nTasks, ..),
                                                         TaskScheduler.h: ITaskSet(uint32_t setSize_))
   Part 2  parallel_in_blocks_of arithmetic            (parallel_for.h)
   Part 3  parallel_foreach index map                  (parallel_foreach.h)
   Part 4  enkiTS task-set scheduling as a nondeterministic machine (TaskScheduler.cpp)
   Part 5  acceptance function for recorded ExecuteRange traces (trace validation)

   Definitions named [.._old] mirror the code before the repairs handed in as
   build/handoff/C01/fix-*.patch; the unsuffixed ones mirror the repaired code. *)
From Common Require Import Prelude CxxSem.
From Coq Require Import Permutation.
Local Open Scope Z_scope.

(* ------------------------------------------------------------------ helpers *)
(* the integers lo, lo+1, .., hi-1 (empty when hi <= lo) *)
Definition zrange (lo hi : Z) : list Z :=
  map (fun i => lo + Z.of_nat i) (seq 0 (Z.to_nat (hi - lo))).

(* ============================================================ Part 1: conversions *)
(* the 8 index types accepted by traits::is_valid_index *)
Inductive ity := TUChar | TShort | TInt | TUInt | TLong | TLLong | TULLong | TSizeT.
Definition cty (t : ity) : ctype :=
  match t with
  | TUChar => U8 | TShort => I16 | TInt => I32 | TUInt => U32
  | TLong | TLLong => I64 | TULLong | TSizeT => U64
  end.

Definition to_i32 (z : Z) : Z := wrap I32 z.     (* INDEX_T -> int  (parameter of parallel_for_internal) *)
Definition to_u32 (z : Z) : Z := wrap U32 z.     (* int -> uint32_t (ITaskSet::m_SetSize)                *)

(* unrepaired code: the task set is created for every n *)
Definition set_size_old (t : ity) (n : Z) : Z := to_u32 (to_i32 (wrap (cty t) n)).

(* repaired code (fix-1): parallel_for_internal returns early when nTasks <= 0;
   None = no task set is created, nothing is invoked *)
Definition internal_request (t : ity) (n : Z) : option Z :=
  let m := to_i32 (wrap (cty t) n) in
  if m <=? 0 then None else Some (to_u32 m).

Inductive backend := BTbb | BOmp | BInternal | BDebug.

(* number of invocations requested from the backend's loop: the loop runs the
   indices [0, requested_count).  TBB / OpenMP / Debug receive (0, n) unchanged
   in INDEX_T; `for (i = 0; i < n; ++i)` / tbb::parallel_for(0, n) run nothing for n <= 0. *)
Definition requested_count (b : backend) (t : ity) (n : Z) : Z :=
  match b with
  | BInternal => match internal_request t n with Some s => s | None => 0 end
  | _ => Z.max 0 (wrap (cty t) n)
  end.
Definition requested_count_old (b : backend) (t : ity) (n : Z) : Z :=
  match b with
  | BInternal => set_size_old t n
  | _ => Z.max 0 (wrap (cty t) n)
  end.

(* ============================================================ Part 2: blocks *)
(* repaired code (fix-3):
     INDEX_T numBlocks = nTasks > 0 ? (nTasks - 1) / BLOCK_SIZE + 1 : 0;
     INDEX_T begin = blockID * (INDEX_T)BLOCK_SIZE;
     INDEX_T end   = begin + std::min<INDEX_T>(BLOCK_SIZE, nTasks - begin);            *)
Definition num_blocks (n B : Z) : Z := if 0 <? n then Z.quot (n - 1) B + 1 else 0.
Definition block_begin (B b : Z) : Z := b * B.
Definition block_end (n B b : Z) : Z :=
  let bg := block_begin B b in
  bg + (if n - bg <? B then n - bg else B).            (* std::min(a,b) = (b < a) ? b : a *)
Definition block (n B b : Z) : Z * Z := (block_begin B b, block_end n B b).
Definition blocks (n B : Z) : list (Z * Z) := map (block n B) (zrange 0 (num_blocks n B)).

(* the same text read at machine width (every operation wrapped to INDEX_T);
   meaningful for the types of rank >= int (smaller ones are promoted to int) *)
Definition m_num_blocks (t : ctype) (n B : Z) : Z :=
  if 0 <? n then wrap t (wrap t (Z.quot (wrap t (n - 1)) (wrap t B)) + 1) else 0.
Definition m_block_begin (t : ctype) (B b : Z) : Z := wrap t (b * wrap t B).
Definition m_block_end (t : ctype) (n B b : Z) : Z :=
  let bg := m_block_begin t B b in
  let d := wrap t (n - bg) in
  wrap t (bg + (if d <? wrap t B then d else wrap t B)).

(* unrepaired code:
     INDEX_T numBlocks = (nTasks + BLOCK_SIZE - 1) / BLOCK_SIZE;
     INDEX_T end = std::min(begin + (INDEX_T)BLOCK_SIZE, nTasks);                      *)
Definition num_blocks_old (n B : Z) : Z := Z.quot (n + B - 1) B.
Definition block_end_old (n B b : Z) : Z :=
  let e := block_begin B b + B in if n <? e then n else e.
Definition m_num_blocks_old (t : ctype) (n B : Z) : Z :=
  wrap t (Z.quot (wrap t (wrap t (n + wrap t B) - 1)) (wrap t B)).
Definition m_block_end_old (t : ctype) (n B b : Z) : Z :=
  let e := wrap t (m_block_begin t B b + wrap t B) in if n <? e then n else e.

(* a list of pieces is a chain from lo to hi: each piece starts where the previous ended *)
Fixpoint chain (lo hi : Z) (l : list (Z * Z)) : Prop :=
  match l with
  | [] => lo = hi
  | (a, b) :: r => a = lo /\ chain b hi r
  end.

(* ============================================================ Part 3: foreach *)
(* parallel_foreach(begin, end, f): count = distance(begin,end); v = &*begin;
   parallel_for(count, i => f(v[i])): index i touches the element at address base + i*size *)
Definition foreach_addrs (base size count : Z) : list Z :=
  map (fun i => base + i * size) (zrange 0 count).

(* ============================================================ Part 4: enkiTS *)
Definition part := (Z * Z)%type.                       (* TaskSetPartition [start, end) *)
Definition plen (p : part) : Z := snd p - fst p.
Definition idx (p : part) : list Z := zrange (fst p) (snd p).

(* SplitTask(subTask_, rangeToSplit_): returns (splitTask, updated subTask_) *)
Definition split_task (sub : part) (rangeToSplit : Z) : part * part :=
  let rangeLeft := snd sub - fst sub in
  let r := if rangeLeft <? rangeToSplit then rangeLeft else rangeToSplit in
  let e := fst sub + r in
  ((fst sub, e), (e, snd sub)).

(* StartThreads: m_NumPartitions / m_NumInitialPartitions (MAX_NUM_INITIAL_PARTITIONS = 8) *)
Definition num_partitions (T : Z) : Z := if T =? 1 then 1 else T * (T - 1).
Definition num_initial_partitions (T : Z) : Z :=
  if T =? 1 then 1 else if 8 <? T - 1 then 8 else T - 1.
(* AddTaskSetToPipe with m_MinRange = 1 *)
Definition range_to_run (n T : Z) : Z :=
  let r := n / num_partitions T in if r <? 1 then 1 else r.
Definition range_to_split (n T : Z) : Z :=
  let r := n / num_initial_partitions T in if r <? 1 then 1 else r.

Record params := { P_n : Z; P_T : nat; P_rtr : Z; P_rts : Z }.
Definition mk_params (n : Z) (T : nat) : params :=
  {| P_n := n; P_T := T; P_rtr := range_to_run n (Z.of_nat T); P_rts := range_to_split n (Z.of_nat T) |}.

(* the pipe-full branch of SplitAndAddTask ("alter range to run the appropriate fraction"),
   applied to (taskToAdd, subTask_) after SplitTask.
   repaired (fix-2): compares m_RangeToRun with the piece's actual length *)
Definition full_adjust (rtr : Z) (ps : part * part) : part * part :=
  let (piece, sub) := ps in
  if rtr <? plen piece
  then let e := fst piece + rtr in ((fst piece, e), (e, snd sub))
  else ps.
(* unrepaired: compares with the requested split size rangeToSplit_ *)
Definition full_adjust_old (rtr rangeToSplit : Z) (ps : part * part) : part * part :=
  let (piece, sub) := ps in
  if rtr <? rangeToSplit
  then let e := fst piece + rtr in ((fst piece, e), (e, snd sub))
  else ps.

(* a thread inside TryRunTask: the piece it holds (popped, or split off as taskToRun) and,
   while it is in SplitAndAddTask(threadNum, subTask, m_RangeToRun), the rest still to be cut *)
Record entry := { e_thr : nat; e_run : part; e_rest : option part }.

Record st := {
  pipes : list (nat * part);      (* all pipes: (owning thread, piece); the front of thread t's pipe is
                                     the first element owned by t, its back the last one *)
  adder : option (nat * part);    (* AddTaskSetToPipe's SplitAndAddTask loop: calling thread, range left *)
  entries : list entry;           (* pieces held by threads inside TryRunTask, not yet executed *)
  owed : list nat;                (* threads that executed a piece and have not yet decremented *)
  rc : Z;                         (* m_RunningCount *)
  done : list Z;                  (* indices ExecuteRange has been called with, in order *)
  elog : list (nat * part)        (* ExecuteRange calls: (threadnum, range) *)
}.

Definition init (p : params) (t0 : nat) : st :=
  {| pipes := []; adder := Some (t0, (0, P_n p)); entries := []; owed := []; rc := 0; done := []; elog := [] |}.

Fixpoint pop_first (t : nat) (l : list (nat * part)) : option (part * list (nat * part)) :=
  match l with
  | [] => None
  | (o, q) :: r =>
      if Nat.eqb o t then Some (q, r)
      else match pop_first t r with
           | Some (x, r') => Some (x, (o, q) :: r')
           | None => None
           end
  end.
Definition pop_last (t : nat) (l : list (nat * part)) : option (part * list (nat * part)) :=
  match pop_first t (rev l) with
  | Some (x, r) => Some (x, rev r)
  | None => None
  end.

Fixpoint take_nth {A} (i : nat) (l : list A) : option (A * list A) :=
  match l, i with
  | [], _ => None
  | x :: r, O => Some (x, r)
  | x :: r, Datatypes.S j => match take_nth j r with Some (y, r') => Some (y, x :: r') | None => None end
  end.

Inductive label :=
| AddWrite                 (* root loop: piece cut and written to the caller's pipe *)
| AddFullInline            (* root loop: pipe full, (part of) the piece is run inline *)
| AddDone                  (* root loop: start == end, AddTaskSetToPipe returns *)
| PopOwn (t : nat)         (* WriterTryReadFront on the own pipe *)
| Steal (t u : nat)        (* ReaderTryReadBack on thread u's pipe *)
| SplitRest (i : nat)      (* m_RangeToRun < partitionSize: split off taskToRun, enter SplitAndAddTask(rest) *)
| RestWrite (i : nat)
| RestFullInline (i : nat)
| RestDone (i : nat)
| Exec (i : nat)           (* ExecuteRange of the held piece *)
| Dec (j : nat).           (* AtomicAdd(&m_RunningCount, -1) *)

Definition exec_piece (s : st) (t : nat) (q : part) : st :=
  {| pipes := pipes s; adder := adder s; entries := entries s; owed := owed s; rc := rc s;
     done := done s ++ idx q; elog := elog s ++ [(t, q)] |}.

(* one step; None = the step is not enabled in this state.  [old] selects the
   unrepaired pipe-full branch. *)
Definition step_gen (old : bool) (p : params) (s : st) (l : label) : option st :=
  let adj := fun (r : Z) ps => if old then full_adjust_old (P_rtr p) r ps else full_adjust (P_rtr p) ps in
  match l with
  | AddWrite =>
      match adder s with
      | Some (t, sub) =>
          if fst sub =? snd sub then None else
          let (piece, sub') := split_task sub (P_rts p) in
          Some {| pipes := (t, piece) :: pipes s; adder := Some (t, sub'); entries := entries s;
                  owed := owed s; rc := rc s + 1; done := done s; elog := elog s |}
      | None => None
      end
  | AddFullInline =>
      match adder s with
      | Some (t, sub) =>
          if fst sub =? snd sub then None else
          let (piece, sub') := adj (P_rts p) (split_task sub (P_rts p)) in
          (* ++m_RunningCount; ExecuteRange(piece); --m_RunningCount *)
          Some (exec_piece {| pipes := pipes s; adder := Some (t, sub'); entries := entries s;
                              owed := owed s; rc := rc s; done := done s; elog := elog s |} t piece)
      | None => None
      end
  | AddDone =>
      match adder s with
      | Some (t, sub) =>
          if fst sub =? snd sub
          then Some {| pipes := pipes s; adder := None; entries := entries s; owed := owed s;
                       rc := rc s; done := done s; elog := elog s |}
          else None
      | None => None
      end
  | PopOwn t =>
      if negb (Nat.ltb t (P_T p)) then None else
      match pop_first t (pipes s) with
      | Some (q, rest) =>
          Some {| pipes := rest; adder := adder s;
                  entries := {| e_thr := t; e_run := q; e_rest := None |} :: entries s;
                  owed := owed s; rc := rc s; done := done s; elog := elog s |}
      | None => None
      end
  | Steal t u =>
      if negb (Nat.ltb t (P_T p)) || Nat.eqb t u then None else
      match pop_last u (pipes s) with
      | Some (q, rest) =>
          Some {| pipes := rest; adder := adder s;
                  entries := {| e_thr := t; e_run := q; e_rest := None |} :: entries s;
                  owed := owed s; rc := rc s; done := done s; elog := elog s |}
      | None => None
      end
  | SplitRest i =>
      match take_nth i (entries s) with
      | Some (e, others) =>
          match e_rest e with
          | None =>
              if P_rtr p <? plen (e_run e) then
                let (run, rest) := split_task (e_run e) (P_rtr p) in
                Some {| pipes := pipes s; adder := adder s;
                        entries := {| e_thr := e_thr e; e_run := run; e_rest := Some rest |} :: others;
                        owed := owed s; rc := rc s; done := done s; elog := elog s |}
              else None
          | Some _ => None
          end
      | None => None
      end
  | RestWrite i =>
      match take_nth i (entries s) with
      | Some (e, others) =>
          match e_rest e with
          | Some sub =>
              if fst sub =? snd sub then None else
              let (piece, sub') := split_task sub (P_rtr p) in
              Some {| pipes := (e_thr e, piece) :: pipes s; adder := adder s;
                      entries := {| e_thr := e_thr e; e_run := e_run e; e_rest := Some sub' |} :: others;
                      owed := owed s; rc := rc s + 1; done := done s; elog := elog s |}
          | None => None
          end
      | None => None
      end
  | RestFullInline i =>
      match take_nth i (entries s) with
      | Some (e, others) =>
          match e_rest e with
          | Some sub =>
              if fst sub =? snd sub then None else
              let (piece, sub') := adj (P_rtr p) (split_task sub (P_rtr p)) in
              Some (exec_piece {| pipes := pipes s; adder := adder s;
                                  entries := {| e_thr := e_thr e; e_run := e_run e; e_rest := Some sub' |} :: others;
                                  owed := owed s; rc := rc s; done := done s; elog := elog s |} (e_thr e) piece)
          | None => None
          end
      | None => None
      end
  | RestDone i =>
      match take_nth i (entries s) with
      | Some (e, others) =>
          match e_rest e with
          | Some sub =>
              if fst sub =? snd sub then
                Some {| pipes := pipes s; adder := adder s;
                        entries := {| e_thr := e_thr e; e_run := e_run e; e_rest := None |} :: others;
                        owed := owed s; rc := rc s; done := done s; elog := elog s |}
              else None
          | None => None
          end
      | None => None
      end
  | Exec i =>
      match take_nth i (entries s) with
      | Some (e, others) =>
          match e_rest e with
          | None =>
              if P_rtr p <? plen (e_run e) then None else
              Some (exec_piece {| pipes := pipes s; adder := adder s; entries := others;
                                  owed := e_thr e :: owed s; rc := rc s; done := done s; elog := elog s |}
                               (e_thr e) (e_run e))
          | Some _ => None
          end
      | None => None
      end
  | Dec j =>
      match take_nth j (owed s) with
      | Some (_, others) =>
          Some {| pipes := pipes s; adder := adder s; entries := entries s; owed := others;
                  rc := rc s - 1; done := done s; elog := elog s |}
      | None => None
      end
  end.

Definition step := step_gen false.
Definition step_old := step_gen true.

(* run a schedule; stops with None at the first step that is not enabled *)
Fixpoint run (p : params) (s : st) (ls : list label) : option st :=
  match ls with
  | [] => Some s
  | l :: r => match step p s l with Some s' => run p s' r | None => None end
  end.

Fixpoint run_old (p : params) (s : st) (ls : list label) : option st :=
  match ls with
  | [] => Some s
  | l :: r => match step_old p s l with Some s' => run_old p s' r | None => None end
  end.

(* executable well-formedness of a task set's parameters and of the adding thread *)
Definition wf_paramsb (p : params) (t0 : nat) : bool :=
  (1 <=? P_rtr p) && (1 <=? P_rts p) && (0 <=? P_n p) && Nat.ltb t0 (P_T p).

Inductive reachable (p : params) (t0 : nat) : st -> Prop :=
| reach_init : reachable p t0 (init p t0)
| reach_step : forall s l s', reachable p t0 s -> step p s l = Some s' -> reachable p t0 s'.

(* what WaitforTask sees when it returns: AddTaskSetToPipe has returned and m_RunningCount == 0 *)
Definition joined (s : st) : Prop := adder s = None /\ rc s = 0.

(* all indices the state still owes or has delivered *)
Definition entry_idx (e : entry) : list Z :=
  idx (e_run e) ++ match e_rest e with Some r => idx r | None => [] end.
Definition adder_idx (s : st) : list Z := match adder s with Some (_, r) => idx r | None => [] end.
Definition pending (s : st) : list Z :=
  adder_idx s ++ flat_map (fun op => idx (snd op)) (pipes s) ++ flat_map entry_idx (entries s).

(* non-nested discipline: a thread takes a new piece only when it holds none and is not the
   thread running AddTaskSetToPipe (no re-entry through a nested loop's wait) *)
Definition holders (s : st) : list nat :=
  match adder s with Some (t, _) => [t] | None => [] end ++ map e_thr (entries s).
Definition flat_ok (s : st) (l : label) : bool :=
  match l with
  | PopOwn t | Steal t _ => negb (existsb (Nat.eqb t) (holders s))
  | _ => true
  end.
Inductive reachable_flat (p : params) (t0 : nat) : st -> Prop :=
| rf_init : reachable_flat p t0 (init p t0)
| rf_step : forall s l s', reachable_flat p t0 s -> flat_ok s l = true -> step p s l = Some s' ->
                           reachable_flat p t0 s'.

(* nesting: several task sets live at the same time (a body calls parallel_for again; a waiting
   thread runs pieces of other sets).  The shared pipes are modelled per set (a pipe is a bag:
   the pieces of set k in thread t's pipe keep their relative order whatever other sets add). *)
Definition gstate := nat -> option (params * st).
Inductive glabel :=
| GNew (k : nat) (p : params) (t0 : nat)      (* AddTaskSetToPipe of a new set *)
| GStep (k : nat) (l : label)                 (* a step of set k *)
| GForget (k : nat).                          (* the set's owner returned and destroyed it *)
Definition gupd (g : gstate) (k : nat) (v : option (params * st)) : gstate :=
  fun j => if Nat.eqb j k then v else g j.
Definition gstep (g : gstate) (l : glabel) : option gstate :=
  match l with
  | GNew k p t0 => match g k with
                   | None => if wf_paramsb p t0 then Some (gupd g k (Some (p, init p t0))) else None
                   | Some _ => None
                   end
  | GStep k l => match g k with
                 | Some (p, s) => match step p s l with Some s' => Some (gupd g k (Some (p, s'))) | None => None end
                 | None => None
                 end
  | GForget k => match g k with Some _ => Some (gupd g k None) | None => None end
  end.
Inductive greachable : gstate -> Prop :=
| gr_init : greachable (fun _ => None)
| gr_step : forall g l g', greachable g -> gstep g l = Some g' -> greachable g'.

(* ============================================================ Part 5: trace acceptance *)
(* pieces sorted by start *)
Fixpoint insert_part (q : part) (l : list part) : list part :=
  match l with
  | [] => [q]
  | x :: r => if fst q <=? fst x then q :: l else x :: insert_part q r
  end.
Definition sort_parts (l : list part) : list part := fold_right insert_part [] l.

Fixpoint chainb (lo hi : Z) (l : list part) : bool :=
  match l with
  | [] => lo =? hi
  | q :: r => (fst q =? lo) && chainb (snd q) hi r
  end.

(* accepts n T log: the recorded ExecuteRange calls (threadnum, [start,end)) of one task set of
   size n on a scheduler with T threads: every piece is non-empty, at most RangeToRun long, run
   by a thread number < T, and the pieces tile [0,n) *)
Definition accepts (n : Z) (T : nat) (log : list (nat * part)) : bool :=
  let rtr := range_to_run n (Z.of_nat T) in
  forallb (fun tq => Nat.ltb (fst tq) T && (0 <? plen (snd tq)) && (plen (snd tq) <=? rtr)) log
  && chainb 0 n (sort_parts (map snd log)).

(* ============================================================ Part 6: histories of loops *)
(* Loops are executed in histories (sequences of calls in one process), and a body may fail: on the backends where that
   is defined (tbb::parallel_for re-throws in the caller; the Debug backend is a serial loop) the exception reaches the
   caller and the loop has an exceptional outcome.  The model of a loop is a function of the REQUEST only: no state is
   carried from one loop to the next (PropertiesSrc.src_dispatch_stateless ties this to parallel_for.inl). *)
Record hreq := { h_backend : backend; h_ty : ity; h_n : Z; h_throw : option Z }.   (* body throws at this index *)
Inductive houtcome :=
| HNormal (calls : list Z)      (* the call returned; the indices the function was invoked with *)
| HThrew (calls : list Z).      (* the body's exception reached the caller *)

Definition h_count (r : hreq) : Z := requested_count (h_backend r) (h_ty r) (h_n r).
Definition h_fails (r : hreq) : bool :=
  match h_throw r with Some b => (0 <=? b) && (b <? h_count r) | None => false end.

(* what a loop may do, whatever happened before it *)
Definition hadmissible (r : hreq) (o : houtcome) : Prop :=
  match o with
  | HNormal c => h_fails r = false /\ Permutation c (zrange 0 (h_count r))
  | HThrew c => h_fails r = true /\ NoDup c /\ (forall x, In x c -> 0 <= x < h_count r) /\
                (forall b, h_throw r = Some b -> In b c)
  end.
Definition history_admissible (h : list hreq) (os : list houtcome) : Prop := Forall2 hadmissible h os.

(* the Debug backend, executably: for (i = 0; i < n; ++i) fcn(i), the exception leaves the loop at once *)
Definition run_serial (r : hreq) : houtcome :=
  let n := h_count r in
  match h_throw r with
  | Some b => if (0 <=? b) && (b <? n) then HThrew (zrange 0 (b + 1)) else HNormal (zrange 0 n)
  | None => HNormal (zrange 0 n)
  end.
Definition run_history_serial (h : list hreq) : list houtcome := map run_serial h.

(* ============================================================ Part 7: the order "count, then publish" *)
(* In SplitAndAddTask the piece is COUNTED (++m_RunningCount) before it is PUBLISHED (WriterTryWriteFront); the machine
   above takes both in one step (AddWrite / RestWrite), which is exact for that order: between the two the count is only
   higher and the piece is not yet visible to any thief.  The variant below publishes first and counts later (two steps,
   [v_late] = published pieces whose increment is still outstanding); everything else is the machine above.
   Properties.enki_publish_before_count_refuted: in the variant the waiter's exit condition can hold with indices unrun. *)
Record stv := { v_st : st; v_late : nat }.
Inductive vlabel :=
| VL (l : label)              (* a step of the machine above (AddWrite / RestWrite are not available) *)
| VPublish                    (* root loop: piece cut and written to the pipe, not yet counted *)
| VRestPublish (i : nat)      (* rest loop of entry i: likewise *)
| VCount.                     (* one outstanding ++m_RunningCount happens *)
Definition with_rc (s : st) (z : Z) : st :=
  {| pipes := pipes s; adder := adder s; entries := entries s; owed := owed s; rc := z; done := done s; elog := elog s |}.
Definition step_pubfirst (p : params) (s : stv) (l : vlabel) : option stv :=
  let publish (l0 : label) :=
      match step p (v_st s) l0 with
      | Some s' => Some {| v_st := with_rc s' (rc s' - 1); v_late := Datatypes.S (v_late s) |}
      | None => None
      end in
  match l with
  | VL AddWrite | VL (RestWrite _) => None
  | VL l0 => match step p (v_st s) l0 with Some s' => Some {| v_st := s'; v_late := v_late s |} | None => None end
  | VPublish => publish AddWrite
  | VRestPublish i => publish (RestWrite i)
  | VCount => match v_late s with
              | O => None
              | Datatypes.S k => Some {| v_st := with_rc (v_st s) (rc (v_st s) + 1); v_late := k |}
              end
  end.
Fixpoint run_pubfirst (p : params) (s : stv) (ls : list vlabel) : option stv :=
  match ls with
  | [] => Some s
  | l :: r => match step_pubfirst p s l with Some s' => run_pubfirst p s' r | None => None end
  end.

(* ============================================================ Part 8: chunked partitions *)
(* A loop may be handed to a backend as k chunks, chunk c = [n*c/k, n*(c+1)/k).  Over Z this is an exact partition of
   [0,n) (Properties.chunks_partition).  Evaluated in INDEX_T the product n*c wraps once n*k exceeds the type: the
   machine reading below.  rkcommon's dispatch forms no such product (PropertiesSrc.src_dispatch_arith_free): the
   backends receive (0, nTasks) unchanged. *)
Definition chunk (n k c : Z) : Z * Z := (n * c / k, n * (c + 1) / k).
Definition chunks (n k : Z) : list (Z * Z) := map (chunk n k) (zrange 0 k).
Definition m_chunk (t : ctype) (n k c : Z) : Z * Z :=
  (wrap t (Z.quot (wrap t (n * wrap t c)) (wrap t k)), wrap t (Z.quot (wrap t (n * wrap t (c + 1))) (wrap t k))).
