From Coq Require Import Extraction ExtrOcamlBasic ZArith List.
From C01 Require Import Model.
Extraction "Model.ml" requested_count requested_count_old set_size_old internal_request
  num_blocks blocks m_num_blocks m_block_begin m_block_end m_num_blocks_old m_block_end_old
  foreach_addrs accepts range_to_run range_to_split mk_params init step step_old run cty zrange.
