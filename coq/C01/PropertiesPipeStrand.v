(* C01/C02 — LockLessMultiReadPipe, clause (c) "no stranded item" in the no-wrap regime: the statements.
   Every reachable quiescent state of the micro-step model (Pipe.v; every interleaving, every k < w, any number of
   threads) in which fewer than 2^w - 1 writes were published (so m_WriteIndex / m_ReadCount cannot have wrapped) and at
   least one slot is readable: a solo ReaderTryReadBack by ANY thread, and a solo WriterTryReadFront by the owner,
   terminate and return true with an item that was in the pipe.  (With wrap the statement is false:
   pipe_no_stranded_item_refuted in PropertiesPipe.v.) *)
From Common Require Import Prelude.
From C01 Require Import Pipe PipeProofs PipeStrand.
Local Open Scope N_scope.

Theorem pipe_no_stranded_item_nowrap_reader : forall k w n, k < w -> forall s t,
  reachable k w n s -> quiescent n s -> in_pipe k s <> [] -> PipeStrand.NW w s -> (t < n)%nat ->
  exists fuel s' x, run_op k w n fuel s (t, OpRead) = Some (s', Some (true, x)) /\ In x (in_pipe k s).
Proof. exact PipeStrand.nowrap_reader. Qed.
Print Assumptions pipe_no_stranded_item_nowrap_reader.

Theorem pipe_no_stranded_item_nowrap_front : forall k w n, k < w -> forall s,
  reachable k w n s -> quiescent n s -> in_pipe k s <> [] -> PipeStrand.NW w s -> (0 < n)%nat ->
  exists fuel s' x, run_op k w n fuel s (0%nat, OpFront) = Some (s', Some (true, x)) /\ In x (in_pipe k s).
Proof. exact PipeStrand.nowrap_front. Qed.
Print Assumptions pipe_no_stranded_item_nowrap_front.

(* the statement that PipeProofs.v left open, now proved *)
Theorem pipe_no_stranded_item_nowrap : forall k w n, k < w -> PipeProofs.no_stranded_item_nowrap k w n.
Proof. exact PipeStrand.no_stranded_item_nowrap_proved. Qed.
Print Assumptions pipe_no_stranded_item_nowrap.

(* the position invariant behind it: every reachable state without wrap *)
Theorem pipe_position_invariant : forall k w n, k < w -> forall s,
  reachable k w n s -> PipeStrand.NW w s -> PipeStrand.XJ k w n s.
Proof. exact PipeStrand.XJ_reachable. Qed.
Print Assumptions pipe_position_invariant.

(* in particular: exact bookkeeping and the window of readable positions *)
Theorem pipe_readable_positions_in_window : forall k w n, k < w -> forall s i,
  reachable k w n s -> PipeStrand.NW w s -> i < size k -> flags s i = FLAG_CAN_READ ->
  (Z.of_N (gRI s) <= Z.of_N (gpos s i) < PipeStrand.wlim s)%Z /\ N.land (gpos s i) (mask k) = i.
Proof. intros k w n H s i Hr HN. exact (PipeStrand.x_J1 k w n s (PipeStrand.XJ_reachable k w n H s Hr HN) i). Qed.
Print Assumptions pipe_readable_positions_in_window.

(* non-vacuity: a reachable quiescent no-wrap state with two queued items; the solo operations deliver one of them *)
Example pipe_ex_nowrap_state :
  let s := run 1 32 3 (PipeProofs.rep 11 (0%nat, OpWrite 5) ++ PipeProofs.rep 11 (0%nat, OpWrite 6)) init in
  reachable 1 32 3 s /\ quiescentb 3 s = true /\ in_pipe 1 s = [5; 6] /\ length (written s) = 2%nat /\
  option_map snd (run_op 1 32 3 100 s (1%nat, OpRead)) = Some (Some (true, 5)) /\
  option_map snd (run_op 1 32 3 100 s (0%nat, OpFront)) = Some (Some (true, 6)).
Proof. split; [eexists; reflexivity|vm_compute; repeat split]. Qed.
