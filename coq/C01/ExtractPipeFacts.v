(* Same extraction as ExtractPipe.v PLUS the SOURCE-derived instruction tables
   (PipeFactsProgs.facts_progs, built from the generated module C01.gen.PipeFacts).  One Extraction
   command, one file: two separate commands would duplicate the instruction types.  Kept apart from
   ExtractPipe.v so that the plain model still extracts when the fact files do not build. *)
From Coq Require Import Extraction ExtrOcamlBasic NArith List.
From C01 Require Import Pipe PipeFactsProgs.
Extraction "Pipe.ml" init step run run_op run_seq step_gen run_gen run_op_gen run_seq_gen
  obs preset clear quiescentb is_pipe_empty in_pipe claimed n_can_read slots
  prog_of prog_of_cts_front prog_of_cts_reader prog_of_fast_front
  FLAG_CAN_WRITE FLAG_CAN_READ FLAG_INVALID
  facts_progs facts_progs_ok facts_progs_same.
