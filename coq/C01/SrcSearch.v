(* C01 — search on breakage (not an obligation, not in _CoqProject): evaluates the regenerated parallel_foreach body in
   the machine reading on boundary distances and prints those for which the count handed to parallel_for differs
   from the distance.  props/C01/check.py compiles this file when a source obligation broke and replays the
   printed distances on the real code.  Depends on SrcLang.v and gen/Src.v only. *)
From Coq Require Import ZArith List String.
From Common Require Import CxxSem.
From C01 Require Import SrcLang.
From C01.gen Require Import Src.
Import ListNotations.
Local Open Scope string_scope.
Local Open Scope Z_scope.
Definition foreach_count (d : Z) : Z :=
  let s := exec [("begin", 4096); ("end", 4096 + d); ("&*begin", 4096)] (f_body src_foreach_iter) in
  match top_calls (f_body src_foreach_iter) with
  | [(_, [a; _])] => eval s a
  | _ => -1
  end.
Definition candidates : list Z :=
  [1; 127; 128; 129; 255; 256; 257; 32767; 32768; 32769; 65535; 65536; 65537; 2147483647; 2147483648; 2147483648 + 5;
   4294967295; 4294967296; 4294967296 + 3].
Eval vm_compute in (filter (fun d => negb (foreach_count d =? d)) candidates).
