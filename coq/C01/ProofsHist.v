(* C01 — histories of loops: independence of a loop from the outcomes of the loops before it. *)
From Common Require Import Prelude CxxSem.
From C01 Require Import Model ProofsArith.
From Coq Require Import Permutation.
Local Open Scope Z_scope.

(* admissibility of a history is the conjunction of the admissibility of its loops: there is no cross term *)
Lemma history_split h1 h2 o1 o2 : length h1 = length o1 ->
  (history_admissible (h1 ++ h2) (o1 ++ o2) <-> history_admissible h1 o1 /\ history_admissible h2 o2).
Proof.
  unfold history_admissible. revert o1. induction h1 as [|r h1 IH]; intros [|o o1] L; cbn in L; try discriminate.
  - cbn. split; [intro H; split; [constructor|exact H] | tauto].
  - cbn. split.
    + intro H. inversion H as [|? ? ? ? Hr Ht]; subst. apply (IH o1 ltac:(lia)) in Ht. destruct Ht as [A B].
      split; [constructor; assumption|exact B].
    + intros [A B]. inversion A as [|? ? ? ? Hr Ht]; subst. constructor; [exact Hr|]. apply (IH o1 ltac:(lia)). tauto.
Qed.

(* whatever the earlier loops did (normal or exceptional, any number of them), a later ordinary loop is complete *)
Lemma later_loop_complete h1 o1 r o h2 o2 : length h1 = length o1 ->
  history_admissible (h1 ++ r :: h2) (o1 ++ o :: o2) -> h_throw r = None ->
  exists c, o = HNormal c /\ Permutation c (zrange 0 (h_count r)).
Proof.
  intros L H T. apply (history_split h1 (r :: h2) o1 (o :: o2) L) in H. destruct H as [_ H].
  inversion H as [|? ? ? ? Hr _]; subst. destruct o as [c|c]; cbn in Hr.
  - exists c. split; [reflexivity|tauto].
  - destruct Hr as [F _]. unfold h_fails in F. rewrite T in F. discriminate.
Qed.

(* replacing the earlier loops (and their outcomes) by any others changes nothing for the later ones *)
Lemma history_prefix_irrelevant h1 o1 h1' o1' h2 o2 : length h1 = length o1 -> length h1' = length o1' ->
  history_admissible (h1 ++ h2) (o1 ++ o2) -> history_admissible h1' o1' -> history_admissible (h1' ++ h2) (o1' ++ o2).
Proof.
  intros L L' H H'. apply (history_split _ _ _ _ L) in H. apply (history_split _ _ _ _ L'). tauto.
Qed.

Lemma run_serial_admissible r : hadmissible r (run_serial r).
Proof.
  unfold run_serial, hadmissible, h_fails. destruct (h_throw r) as [b|] eqn:T.
  - destruct ((0 <=? b) && (b <? h_count r)) eqn:E.
    + apply andb_true_iff in E. destruct E as [E1 E2]. split; [reflexivity|]. split; [apply NoDup_zrange|].
      split; [intros x Hx; apply In_zrange in Hx; lia|]. intros b' Hb. inversion Hb; subst. apply In_zrange. lia.
    + split; [reflexivity|apply Permutation_refl].
  - split; [reflexivity|apply Permutation_refl].
Qed.

Lemma run_history_serial_admissible h : history_admissible h (run_history_serial h).
Proof. induction h as [|r h IH]; constructor; [apply run_serial_admissible|exact IH]. Qed.

(* executable independence: the outcome list of a concatenated history is the concatenation *)
Lemma run_history_serial_app h1 h2 : run_history_serial (h1 ++ h2) = run_history_serial h1 ++ run_history_serial h2.
Proof. apply map_app. Qed.
