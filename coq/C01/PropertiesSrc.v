(* C01 — obligations tying the model to the CURRENT source text.  gen/Src.v is regenerated from the working
   tree by tools/c01src/gen_src.py on every run; each theorem says that a regenerated body (or the part of
   it the model mirrors), read with C's machine arithmetic (every operation wrapped to its type), is the
   corresponding definition of Model.v — for all inputs, not on samples. *)
From Coq Require Import ZArith List String Bool.
From Common Require Import Prelude CxxSem.
From C01 Require Import Model ProofsEnki SrcLang ProofsSrc ProofsWrap.
From C01.gen Require Import Src.
Import ListNotations.
Local Open Scope string_scope.
Local Open Scope Z_scope.

(* SplitTask (TaskScheduler.cpp), executed in uint32_t arithmetic = Model.split_task on [0, 2^32) *)
Theorem src_SplitTask_is_split_task : forall lo hi r, u32 lo -> u32 hi -> lo <= hi -> u32 r ->
  split_src lo hi r = Some (split_task (lo, hi) r).
Proof. exact split_src_sem. Qed.
Print Assumptions src_SplitTask_is_split_task.

(* StartThreads: m_NumPartitions / m_NumInitialPartitions (with the source's MAX_NUM_INITIAL_PARTITIONS) *)
Theorem src_StartThreads_partitions : forall T, 1 <= T <= 65536 ->
  partitions_src T = Some (num_partitions T, num_initial_partitions T).
Proof. exact partitions_src_sem. Qed.
Print Assumptions src_StartThreads_partitions.

(* AddTaskSetToPipe: m_RunningCount = 0, RangeToRun / rangeToSplit formulas (m_MinRange = 1), the initial
   range [0, m_SetSize) and the call SplitAndAddTask(gtl_threadNum, subTask, rangeToSplit) = Model.init/mk_params *)
Theorem src_AddTaskSetToPipe_is_init : forall n T, u32 n -> 1 <= T <= 65536 ->
  known (f_body src_AddTaskSetToPipe) = true /\
  add_src n (num_partitions T) (num_initial_partitions T) =
  {| av_rc := 0; av_rtr := range_to_run n T; av_rts := range_to_split n T; av_start := 0; av_end := n;
     av_call := [("ctor enki::SubTaskSet", []); ("SplitAndAddTask", [Var "gtl_threadNum"; Var "subTask"; Var "rangeToSplit"])] |}.
Proof. exact add_src_sem. Qed.
Print Assumptions src_AddTaskSetToPipe_is_init.

(* SplitAndAddTask: loop while start != end (AddDone's guard); SplitTask then ++m_RunningCount before the write
   attempt (AddWrite); pipe-full branch: adjust, then ExecuteRange(taskToAdd.partition), then --m_RunningCount *)
Theorem src_SplitAndAddTask_structure : exists v, saa_src = Some v /\
  (forall lo hi, truthy (eval [("subTask_.partition.start", lo); ("subTask_.partition.end", hi)] (sv_cond v)) = negb (lo =? hi)) /\
  sv_head v = [("SplitTask", [Var "subTask_"; Var "rangeToSplit_"]); ("AtomicAdd", [Var "&pTask->m_RunningCount"; Lit 1])] /\
  sv_fail_tail v = [("ExecuteRange", [Var "taskToAdd.partition"; Var "threadNum_"]); ("AtomicAdd", [Var "&pTask->m_RunningCount"; Lit (-1)])].
Proof. exact saa_structure. Qed.
Print Assumptions src_SplitAndAddTask_structure.

(* the pipe-full "alter range" statement (comparison operands and the two assignments, in their order),
   executed in uint32_t arithmetic = Model.full_adjust *)
Theorem src_pipe_full_is_full_adjust : forall rtr a b c d, u32 rtr -> u32 a -> u32 b -> a <= b -> u32 c -> u32 d ->
  adjust_src rtr ((a, b), (c, d)) = Some (full_adjust rtr ((a, b), (c, d))).
Proof. exact adjust_src_sem. Qed.
Print Assumptions src_pipe_full_is_full_adjust.

(* TryRunTask: the split test is m_RangeToRun < end - start (SplitRest's / Exec's guard); split branch:
   SplitTask, SplitAndAddTask(rest), ExecuteRange(taskToRun), decrement; other branch: ExecuteRange, decrement *)
Theorem src_TryRunTask_structure : exists v, trt_src = Some v /\
  (forall lo hi rtr, u32 lo -> u32 hi -> lo <= hi ->
     let s := [("subTask.partition.start", lo); ("subTask.partition.end", hi); ("pTask->m_RangeToRun", rtr)] in
     truthy (eval (("partitionSize", eval s (tv_size v)) :: s) (tv_cond v)) = (rtr <? plen (lo, hi))) /\
  tv_then v = [("SplitTask", [Var "subTask"; Var "pTask->m_RangeToRun"]);
               ("SplitAndAddTask", [Var "threadNum"; Var "subTask"; Var "pTask->m_RangeToRun"]);
               ("ExecuteRange", [Var "taskToRun.partition"; Var "threadNum"]);
               ("AtomicAdd", [Var "&pTask->m_RunningCount"; Lit (-1)])] /\
  tv_else v = [("ExecuteRange", [Var "subTask.partition"; Var "threadNum"]);
               ("AtomicAdd", [Var "&pTask->m_RunningCount"; Lit (-1)])].
Proof. exact trt_structure. Qed.
Print Assumptions src_TryRunTask_structure.

(* WaitforTask: runs TryRunTask exactly while m_RunningCount != 0 (Model.joined's rc = 0) *)
Theorem src_WaitforTask_exit : exists c calls, wait_src = Some (c, calls) /\
  (forall rc, truthy (eval [("pCompletable_->m_RunningCount", rc)] c) = negb (rc =? 0)) /\
  map fst calls = ["TryRunTask"].
Proof. exact wait_structure. Qed.
Print Assumptions src_WaitforTask_exit.

(* parallel_in_blocks_of<1024>(unsigned): numBlocks / begin / end = the machine-width model, every n and block *)
Theorem src_blocks_unsigned_1024 : exists v, blk_src src_blocks_u32_1024 src_blocks_u32_1024_lambda0 = Some v /\
  (forall n, eval [("nTasks", n)] (bv_num v) = m_num_blocks U32 n 1024) /\
  (forall n b, blk_begin_end v n b = (m_block_begin U32 1024 b, m_block_end U32 n 1024 b)) /\
  map fst (bv_outer v) = ["parallel_for"] /\ map snd (bv_outer v) = [[Var "numBlocks"; Var "LAMBDA#0"]] /\
  bv_inner v = [("call fcn", [Var "begin"; Var "end"])].
Proof. exact blocks_u32_src. Qed.
Print Assumptions src_blocks_unsigned_1024.

Theorem src_blocks_int_4 : exists v, blk_src src_blocks_i32_4 src_blocks_i32_4_lambda0 = Some v /\
  (forall n, fits I32 n -> eval [("nTasks", n)] (bv_num v) = m_num_blocks I32 n 4) /\
  (forall n b, blk_begin_end v n b = (m_block_begin I32 4 b, m_block_end I32 n 4 b)) /\
  map fst (bv_outer v) = ["parallel_for"] /\ map snd (bv_outer v) = [[Var "numBlocks"; Var "LAMBDA#0"]] /\
  bv_inner v = [("call fcn", [Var "begin"; Var "end"])].
Proof. exact blocks_i32_src. Qed.
Print Assumptions src_blocks_int_4.

(* backend dispatch of parallel_for_impl (parallel_for.inl), per RKCOMMON_TASKING_* define *)
Theorem src_dispatch_tbb :
  (exists a b, tbb_view src_impl_tbb_int = Some ("parallel_for", "void (int, int, const c01inst::FI &)", a, b) /\
               forall n, eval [("nTasks", n)] a = 0 /\ eval [("nTasks", n)] b = n) /\
  (exists a b, tbb_view src_impl_tbb_size_t = Some ("parallel_for", "void (unsigned long, unsigned long, const c01inst::FS &)", a, b) /\
               forall n, eval [("nTasks", n)] a = 0 /\ eval [("nTasks", n)] b = n).
Proof. exact dispatch_tbb_src. Qed.
Print Assumptions src_dispatch_tbb.

Theorem src_dispatch_omp_debug :
  loop_ok I32 src_impl_omp_int /\ loop_ok U64 src_impl_omp_size_t /\
  loop_ok I32 src_impl_debug_int /\ loop_ok U64 src_impl_debug_size_t /\
  (exists d c l, f_body src_impl_omp_int = [Omp d c l] /\ d = "OMPParallelForDirective").
Proof. exact dispatch_loops_src. Qed.
Print Assumptions src_dispatch_omp_debug.

(* internal backend: the count is converted to `int` at the call of parallel_for_internal, `nTasks <= 0` returns
   before a task set exists, otherwise ITaskSet(uint32_t) receives the int: exactly Model.internal_request *)
Theorem src_dispatch_internal :
  (exists a, internal_view src_impl_internal_int = Some ("parallel_for_internal", a) /\
             forall n, fits I32 n -> internal_src a n = Some (internal_request TInt n)) /\
  (exists a, internal_view src_impl_internal_size_t = Some ("parallel_for_internal", a) /\
             forall n, fits U64 n -> internal_src a n = Some (internal_request TSizeT n)).
Proof. exact dispatch_internal_src. Qed.
Print Assumptions src_dispatch_internal.

Theorem src_LocalTask_ExecuteRange_loop :
  exists init c inc body, find_for (f_body src_LocalTask_ExecuteRange) = Some (init, c, inc, body) /\
    known (f_body src_LocalTask_ExecuteRange) = true /\
    (forall lo, lookup (exec [("tp.start", lo)] init) "i" = lo) /\
    (forall i hi, truthy (eval [("i", i); ("tp.end", hi)] c) = (i <? hi)) /\
    (forall i, lookup (exec [("i", i)] inc) "i" = wrap U32 (i + 1)) /\
    (exists sig a, body = [Exp (Call "call t" sig [a])] /\ forall i, eval [("i", i)] a = wrap I32 i).
Proof. exact execute_range_src. Qed.
Print Assumptions src_LocalTask_ExecuteRange_loop.

(* parallel_foreach (iterator overload, ITERATOR_T = pointer to unsigned char): count is a size_t holding distance(begin,end)
   unconverted, parallel_for is instantiated at unsigned long with a size_t index, and index i is handed the element
   v[i] = (&*begin)[i]: for EVERY distance below 2^64 the elements visited are exactly Model.foreach_addrs *)
Theorem src_foreach_is_foreach_addrs : forall base d, 0 <= d < 18446744073709551616 ->
  known (f_body src_foreach_iter) = true /\ known (f_body src_foreach_iter_lambda0) = true /\
  fv_decls (foreach_src base d) = [("count", "const size_t"); ("v", "unsigned char *")] /\
  fv_calls (foreach_src base d) = [("parallel_for", "void (unsigned long, LAMBDA &&)")] /\
  fv_args (foreach_src base d) = [("parallel_for", [Var "count"; Var "LAMBDA#0"])] /\
  fv_lam_params (foreach_src base d) = [("i", "size_t")] /\
  fv_count (foreach_src base d) = d /\
  foreach_src_addrs base d = foreach_addrs base 1 d.
Proof. exact foreach_src_sem. Qed.
Print Assumptions src_foreach_is_foreach_addrs.

Theorem src_foreach_container_forwards :
  known (f_body src_foreach_container) = true /\
  exists sig a b fw, f_body src_foreach_container = [Exp (Call "parallel_foreach" sig [Call "begin" a [Var "c"]; Call "end" b [Var "c"]; fw])].
Proof. exact foreach_container_src. Qed.
Print Assumptions src_foreach_container_forwards.

(* a count narrowed to int (the variant this obligation excludes): 2^31+5 elements -> negative, nothing visited;
   2^32+3 -> 3 visited.  These distances are what the check replays on the real code when the obligation breaks. *)
Theorem foreach_int_count_refuted :
  wrap I32 (2147483648 + 5) < 0 /\ wrap I32 (4294967296 + 3) = 3 /\
  foreach_addrs 0 1 (wrap I32 (2147483648 + 5)) = [].
Proof. exact ProofsSrc.foreach_int_count_refuted. Qed.
Print Assumptions foreach_int_count_refuted.

(* declared C types of every count-like local, loop index and lambda index on the way to the backends *)
Theorem src_count_types :
  hd ("", "") (f_params src_blocks_u32_1024) = ("nTasks", "unsigned int") /\
  decl_types (f_body src_blocks_u32_1024) = [("numBlocks", "unsigned int")] /\
  top_call_sigs (f_body src_blocks_u32_1024) = [("parallel_for", "void (unsigned int, LAMBDA &&)")] /\
  f_params src_blocks_u32_1024_lambda0 = [("blockID", "unsigned int")] /\
  decl_types (f_body src_blocks_u32_1024_lambda0) = [("begin", "unsigned int"); ("end", "unsigned int")] /\
  hd ("", "") (f_params src_blocks_i32_4) = ("nTasks", "int") /\
  decl_types (f_body src_blocks_i32_4) = [("numBlocks", "int")] /\
  top_call_sigs (f_body src_blocks_i32_4) = [("parallel_for", "void (int, LAMBDA &&)")] /\
  f_params src_blocks_i32_4_lambda0 = [("blockID", "int")] /\
  decl_types (f_body src_blocks_i32_4_lambda0) = [("begin", "int"); ("end", "int")] /\
  for_decl_types src_impl_omp_int = [("taskIndex", "int")] /\
  for_decl_types src_impl_omp_size_t = [("taskIndex", "unsigned long")] /\
  for_decl_types src_impl_debug_int = [("taskIndex", "int")] /\
  for_decl_types src_impl_debug_size_t = [("taskIndex", "unsigned long")] /\
  hd ("", "") (f_params src_parallel_for_internal) = ("nTasks", "int") /\
  for_decl_types src_LocalTask_ExecuteRange = [("i", "uint32_t")].
Proof. exact count_types_src. Qed.
Print Assumptions src_count_types.

(* loops carry no state from one call to the next: parallel_for_impl is one statement per backend; the TBB call's
   argument list is closed — exactly (first, last, body), so every call gets TBB's own per-call task_group_context —
   and no local of the loop entry points is static.  This is what lets Model.hadmissible judge each loop of a history
   from its request alone (Properties.history_independent). *)
Theorem src_dispatch_stateless :
  (exists sig a b c, f_body src_impl_tbb_int = [Exp (Call "parallel_for" sig [a; b; c])]) /\
  (exists sig a b c, f_body src_impl_tbb_size_t = [Exp (Call "parallel_for" sig [a; b; c])]) /\
  (exists sig a c, f_body src_impl_internal_int = [Exp (Call "parallel_for_internal" sig [a; c])]) /\
  (exists sig a c, f_body src_impl_internal_size_t = [Exp (Call "parallel_for_internal" sig [a; c])]) /\
  (exists d c i e n b, f_body src_impl_omp_int = [Omp d c [For i e n b]]) /\
  (exists d c i e n b, f_body src_impl_omp_size_t = [Omp d c [For i e n b]]) /\
  (exists i e n b, f_body src_impl_debug_int = [For i e n b]) /\
  (exists i e n b, f_body src_impl_debug_size_t = [For i e n b]) /\
  forallb no_static [src_impl_tbb_int; src_impl_tbb_size_t; src_impl_omp_int; src_impl_omp_size_t;
                     src_impl_internal_int; src_impl_internal_size_t; src_impl_debug_int; src_impl_debug_size_t;
                     src_parallel_for_internal; src_blocks_u32_1024; src_blocks_u32_1024_lambda0; src_blocks_i32_4;
                     src_blocks_i32_4_lambda0; src_foreach_iter; src_foreach_iter_lambda0; src_foreach_container] = true.
Proof. exact dispatch_stateless_src. Qed.
Print Assumptions src_dispatch_stateless.

(* the dispatch forms no product or quotient of the count in INDEX_T: every backend receives nTasks itself, the only
   arithmetic of the OpenMP / Debug loops is ++taskIndex (which stays below nTasks).  So nothing in parallel_for_impl can
   wrap for any n of any index type — in contrast to a chunked dispatch n*c/k (Properties.chunk_bounds_wrap_refuted) *)
Theorem src_dispatch_arith_free :
  call_args_arith_free src_impl_tbb_int = true /\ call_args_arith_free src_impl_tbb_size_t = true /\
  call_args_arith_free src_impl_internal_int = true /\ call_args_arith_free src_impl_internal_size_t = true /\
  loop_arith src_impl_omp_int = Some (true, [Asg "taskIndex" (Bin Add I32 (Var "taskIndex") (Lit 1))]) /\
  loop_arith src_impl_omp_size_t = Some (true, [Asg "taskIndex" (Bin Add U64 (Var "taskIndex") (Lit 1))]) /\
  loop_arith src_impl_debug_int = Some (true, [Asg "taskIndex" (Bin Add I32 (Var "taskIndex") (Lit 1))]) /\
  loop_arith src_impl_debug_size_t = Some (true, [Asg "taskIndex" (Bin Add U64 (Var "taskIndex") (Lit 1))]).
Proof. exact dispatch_arith_free_src. Qed.
Print Assumptions src_dispatch_arith_free.

(* ================================================================== no uint32_t wrap *)
(* every range a reachable state holds (queued, held, still to be cut) lies inside [0, n] ... *)
Theorem enki_ranges_bounded : forall p t0 s, wf_params p -> reachable p t0 s -> bounded p s.
Proof. exact bounded_reachable. Qed.
Print Assumptions enki_ranges_bounded.

(* ... hence for n < 2^32 the regenerated source, executed in uint32_t arithmetic (SplitTask and, when the pipe
   write failed, the pipe-full statement), computes exactly the model's SplitAndAddTask iteration / TryRunTask
   split on every range of every reachable state: the ideal-Z machine of Properties.v loses nothing *)
Theorem enki_no_wrap : forall p t0 s, wf_params p -> P_n p < 4294967296 -> u32 (P_rtr p) -> u32 (P_rts p) ->
  reachable p t0 s ->
  bounded p s /\
  (forall t sub full, adder s = Some (t, sub) ->
     iter_src (P_rtr p) (P_rts p) sub full = Some (iter_model (P_rtr p) (P_rts p) sub full)) /\
  (forall e, In e (entries s) ->
     iter_src (P_rtr p) (P_rtr p) (e_run e) false = Some (split_task (e_run e) (P_rtr p)) /\
     forall sub full, e_rest e = Some sub ->
       iter_src (P_rtr p) (P_rtr p) sub full = Some (iter_model (P_rtr p) (P_rtr p) sub full)).
Proof. exact no_wrap_reachable. Qed.
Print Assumptions enki_no_wrap.

(* the parameters AddTaskSetToPipe computes for a uint32_t set size are uint32_t values themselves *)
Theorem enki_params_u32 : forall n T, u32 n -> 1 <= Z.of_nat T <= 65536 ->
  u32 (P_rtr (mk_params n T)) /\ u32 (P_rts (mk_params n T)).
Proof. exact mk_params_u32. Qed.
Print Assumptions enki_params_u32.
