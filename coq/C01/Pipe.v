(* C01/C02 — enkiTS LockLessMultiReadPipe (rkcommon/tasking/detail/enkiTS/LockLessMultiReadPipe.h)
   as an executable micro-step machine.  Definitions only (the proofs are in PipeProofs.v, the
   statements in PropertiesPipe.v, the tie of the three instruction tables below to the C++ source
   in PipeFactsDefs.v / gen/PipeFacts.v / PropertiesPipeFacts.v).

   * Each of the three methods is a TABLE of micro-instructions (prog_write, prog_reader, prog_front),
     one instruction per source-level action, in source order.  An instruction performs AT MOST ONE access
     to the shared memory of the pipe (m_WriteIndex, m_ReadCount, m_ReadIndex, m_Flags[i], m_Buffer[i]):
     a load, a store, the compare-and-swap, the atomic add; or it is a computation on the method's locals
     (registers), a branch, a return, a compiler barrier (no-op: the memory model below is sequentially
     consistent).
   * The machine state is the shared memory + one local state per thread.  One step = ONE thread executes
     ONE instruction (an idle thread may instead begin a new operation).  A schedule is a list of events
     (thread, operation to begin if idle); every interleaving of every operation sequence is a schedule.
     Thread 0 is the pipe's owner (the single writer: WriterTryWriteFront, WriterTryReadFront, and, like
     every thread, ReaderTryReadBack); threads 1.. are readers (ReaderTryReadBack only).
   * Indices are w-bit unsigned (w = 32 in the code) and every operation on them wraps explicitly.  The
     pipe has 2^k slots (k = cSizeLog2, 8 in TaskScheduler.cpp).  Both are parameters; the theorems need
     k < w (the constructor's assert).
   * Ghost components (never read by the instructions): written (arguments of the writes that were
     published, in order), delivered (thread, item) in order of the buffer reads by claimants, gpos (for
     each slot the write position it was last published at — only used to state the index invariant).

   Memory model: sequential consistency.  x86-TSO store buffering is NOT modelled (see DESIGN 9.3). *)
From Common Require Import Prelude.
Local Open Scope N_scope.

(* ------------------------------------------------------------------ instruction language *)
Inductive gvar := GW (* m_WriteIndex *) | GRC (* m_ReadCount *) | GRI (* m_ReadIndex *).
Inductive reg :=
| Rwi    (* writeIndex *)
| Rrc    (* readCount *)
| Ridx   (* readIndexToUse / frontReadIndex *)
| Ract   (* actualReadIndex / actualWriteIndex *)
| Rprev  (* previous *)
| Rnum   (* numInPipe *)
| Rtmp   (* the value of a volatile read used inside a condition or a read-modify-write *)
| Rin    (* the argument `in` *)
| Rout   (* *pOut *).

Inductive exp :=
| EReg (r : reg)
| EConst (n : N)
| EAdd1 (e : exp)            (* e + 1   (uint32_t) *)
| ESub1 (e : exp)            (* e - 1   (uint32_t) *)
| ESub (a b : exp)           (* a - b   (uint32_t) *)
| EMask (e : exp).           (* e & ms_cIndexMask *)

Inductive cond :=
| CEq (a b : exp)
| CNe (a b : exp)
| CGe (a b : exp)            (* unsigned >= *)
| COr (c d : cond).

Inductive instr :=
| ILoad (r : reg) (g : gvar)                 (* r = g            (volatile load) *)
| IStore (g : gvar) (e : exp)                (* g = e            (volatile store) *)
| IAdd (g : gvar) (n : N)                    (* AtomicAdd(&g, n) *)
| ILoadFlag (r : reg) (idx : reg)            (* r = m_Flags[idx] *)
| IStoreFlag (idx : reg) (v : N)             (* m_Flags[idx] = v *)
| ICas (r : reg) (idx : reg) (newv cmpv : N) (* r = AtomicCompareAndSwap(&m_Flags[idx], newv, cmpv) *)
| ILoadBuf (r : reg) (idx : reg)             (* r = m_Buffer[idx] *)
| IStoreBuf (idx : reg) (src : reg)          (* m_Buffer[idx] = src *)
| ISet (r : reg) (e : exp)                   (* local computation *)
| IfNot (c : cond) (target : nat)            (* if (c) fall through, else goto target *)
| IJmp (target : nat)
| IRet (b : bool)
| IBarrier.                                  (* BASE_MEMORYBARRIER_* : compiler barrier *)

Definition FLAG_CAN_WRITE : N := 0.
Definition FLAG_CAN_READ  : N := 286331153.    (* 0x11111111 *)
Definition FLAG_INVALID   : N := 4294967295.   (* 0xFFFFFFFF *)

Inductive method := MWrite | MReader | MFront.

(* bool LockLessMultiReadPipe::WriterTryWriteFront( const T& in ) *)
Definition prog_write : list instr :=
  [ (*  0 *) ILoad Rwi GW                                         (* uint32_t writeIndex = m_WriteIndex; *)
  ; (*  1 *) ISet Ract (EMask (EReg Rwi))                         (* actualWriteIndex = writeIndex & ms_cIndexMask; *)
  ; (*  2 *) ILoadFlag Rtmp Ract                                  (* if( m_Flags[ actualWriteIndex ] != FLAG_CAN_WRITE ) *)
  ; (*  3 *) IfNot (CNe (EReg Rtmp) (EConst FLAG_CAN_WRITE)) 5
  ; (*  4 *) IRet false                                           (*     return false; *)
  ; (*  5 *) IStoreBuf Ract Rin                                   (* m_Buffer[ actualWriteIndex ] = in; *)
  ; (*  6 *) IStoreFlag Ract FLAG_CAN_READ                        (* m_Flags[ actualWriteIndex ] = FLAG_CAN_READ; *)
  ; (*  7 *) IBarrier                                             (* BASE_MEMORYBARRIER_RELEASE(); *)
  ; (*  8 *) ISet Rwi (EAdd1 (EReg Rwi))                          (* ++writeIndex; *)
  ; (*  9 *) IStore GW (EReg Rwi)                                 (* m_WriteIndex = writeIndex; *)
  ; (* 10 *) IRet true ].

(* bool LockLessMultiReadPipe::ReaderTryReadBack( T* pOut ) *)
Definition prog_reader : list instr :=
  [ (*  0 *) ILoad Rrc GRC                                        (* uint32_t readCount = m_ReadCount; *)
  ; (*  1 *) ISet Ridx (EReg Rrc)                                 (* uint32_t readIndexToUse = readCount; *)
  ; (*  2 *) ILoad Rwi GW                                         (* while(true) { uint32_t writeIndex = m_WriteIndex; *)
  ; (*  3 *) ISet Rnum (ESub (EReg Rwi) (EReg Rrc))               (* uint32_t numInPipe = writeIndex - readCount; *)
  ; (*  4 *) IfNot (CEq (EConst 0) (EReg Rnum)) 6                 (* if( 0 == numInPipe ) *)
  ; (*  5 *) IRet false                                           (*     return false; *)
  ; (*  6 *) IfNot (CGe (EReg Ridx) (EReg Rwi)) 8                 (* if( readIndexToUse >= writeIndex ) *)
  ; (*  7 *) ILoad Ridx GRI                                       (*     readIndexToUse = m_ReadIndex; *)
  ; (*  8 *) ISet Ract (EMask (EReg Ridx))                        (* actualReadIndex = readIndexToUse & ms_cIndexMask; *)
  ; (*  9 *) ICas Rprev Ract FLAG_INVALID FLAG_CAN_READ           (* previous = AtomicCompareAndSwap( &m_Flags[a], FLAG_INVALID, FLAG_CAN_READ ); *)
  ; (* 10 *) IfNot (CEq (EConst FLAG_CAN_READ) (EReg Rprev)) 12   (* if( FLAG_CAN_READ == previous ) *)
  ; (* 11 *) IJmp 15                                              (*     break; *)
  ; (* 12 *) ISet Ridx (EAdd1 (EReg Ridx))                        (* ++readIndexToUse; *)
  ; (* 13 *) ILoad Rrc GRC                                        (* readCount = m_ReadCount; *)
  ; (* 14 *) IJmp 2                                               (* } *)
  ; (* 15 *) IAdd GRC 1                                           (* AtomicAdd( &m_ReadCount (cast to volatile int32_t ptr), 1 ); *)
  ; (* 16 *) IBarrier                                             (* BASE_MEMORYBARRIER_ACQUIRE(); *)
  ; (* 17 *) ILoadBuf Rout Ract                                   (* *pOut = m_Buffer[ actualReadIndex ]; *)
  ; (* 18 *) IStoreFlag Ract FLAG_CAN_WRITE                       (* m_Flags[ actualReadIndex ] = FLAG_CAN_WRITE; *)
  ; (* 19 *) IRet true ].

(* bool LockLessMultiReadPipe::WriterTryReadFront( T* pOut ) *)
Definition prog_front : list instr :=
  [ (*  0 *) ILoad Rwi GW                                         (* uint32_t writeIndex = m_WriteIndex; *)
  ; (*  1 *) ISet Ridx (EReg Rwi)                                 (* uint32_t frontReadIndex = writeIndex; *)
  ; (*  2 *) ISet Rprev (EConst FLAG_INVALID)                     (* uint32_t previous = FLAG_INVALID; *)
  ; (*  3 *) ISet Ract (EConst 0)                                 (* uint32_t actualReadIndex = 0; *)
  ; (*  4 *) ILoad Rrc GRC                                        (* while(true) { uint32_t readCount = m_ReadCount; *)
  ; (*  5 *) ISet Rnum (ESub (EReg Rwi) (EReg Rrc))               (* uint32_t numInPipe = writeIndex - readCount; *)
  ; (*  6 *) IfNot (COr (CEq (EConst 0) (EReg Rnum)) (CEq (EConst 0) (EReg Ridx))) 9
                                                                  (* if( 0 == numInPipe || 0 == frontReadIndex ) { *)
  ; (*  7 *) IStore GRI (EReg Rrc)                                (*     m_ReadIndex = readCount; *)
  ; (*  8 *) IRet false                                           (*     return false; } *)
  ; (*  9 *) ISet Ridx (ESub1 (EReg Ridx))                        (* --frontReadIndex; *)
  ; (* 10 *) ISet Ract (EMask (EReg Ridx))                        (* actualReadIndex = frontReadIndex & ms_cIndexMask; *)
  ; (* 11 *) ICas Rprev Ract FLAG_INVALID FLAG_CAN_READ           (* previous = AtomicCompareAndSwap( ... ); *)
  ; (* 12 *) IfNot (CEq (EConst FLAG_CAN_READ) (EReg Rprev)) 15   (* if( FLAG_CAN_READ == previous ) *)
  ; (* 13 *) IJmp 19                                              (*     break; *)
  ; (* 14 *) IJmp 18                                              (* (end of the then-branch; unreachable) *)
  ; (* 15 *) ILoad Rtmp GRI                                       (* else if( m_ReadIndex >= frontReadIndex ) *)
  ; (* 16 *) IfNot (CGe (EReg Rtmp) (EReg Ridx)) 18
  ; (* 17 *) IRet false                                           (*     return false; *)
  ; (* 18 *) IJmp 4                                               (* } *)
  ; (* 19 *) ILoadBuf Rout Ract                                   (* *pOut = m_Buffer[ actualReadIndex ]; *)
  ; (* 20 *) IStoreFlag Ract FLAG_CAN_WRITE                       (* m_Flags[ actualReadIndex ] = FLAG_CAN_WRITE; *)
  ; (* 21 *) IBarrier                                             (* BASE_MEMORYBARRIER_RELEASE(); *)
  ; (* 22 *) ILoad Rtmp GW                                        (* --m_WriteIndex;   (volatile: a load ... *)
  ; (* 23 *) IStore GW (ESub1 (EReg Rtmp))                        (*                    ... and a store) *)
  ; (* 24 *) IRet true ].

Definition prog_of (m : method) : list instr :=
  match m with MWrite => prog_write | MReader => prog_reader | MFront => prog_front end.

(* ------------------------------------------------------------------ variants that are NOT the code
   (refuted in PropertiesPipe.v: the hand-off theorems are about the compare-and-swap) *)

(* the owner's claim as a plain check followed by a store (seeded change C02-10) *)
Definition prog_front_cts : list instr :=
  [ ILoad Rwi GW; ISet Ridx (EReg Rwi); ISet Rprev (EConst FLAG_INVALID); ISet Ract (EConst 0)
  ; (* 4 *) ILoad Rrc GRC; ISet Rnum (ESub (EReg Rwi) (EReg Rrc))
  ; (* 6 *) IfNot (COr (CEq (EConst 0) (EReg Rnum)) (CEq (EConst 0) (EReg Ridx))) 9
  ; IStore GRI (EReg Rrc); IRet false
  ; (* 9 *) ISet Ridx (ESub1 (EReg Ridx)); ISet Ract (EMask (EReg Ridx))
  ; (* 11 *) ILoadFlag Rprev Ract                                 (* previous = m_Flags[a]; *)
  ; (* 12 *) IfNot (CEq (EConst FLAG_CAN_READ) (EReg Rprev)) 16
  ; (* 13 *) IStoreFlag Ract FLAG_INVALID                         (* m_Flags[a] = FLAG_INVALID; *)
  ; (* 14 *) IJmp 20; IJmp 19
  ; (* 16 *) ILoad Rtmp GRI; IfNot (CGe (EReg Rtmp) (EReg Ridx)) 19; IRet false
  ; (* 19 *) IJmp 4
  ; (* 20 *) ILoadBuf Rout Ract; IStoreFlag Ract FLAG_CAN_WRITE; IBarrier
  ; ILoad Rtmp GW; IStore GW (ESub1 (EReg Rtmp)); IRet true ].

(* the readers' claim as a plain check followed by a store *)
Definition prog_reader_cts : list instr :=
  [ ILoad Rrc GRC; ISet Ridx (EReg Rrc)
  ; (* 2 *) ILoad Rwi GW; ISet Rnum (ESub (EReg Rwi) (EReg Rrc))
  ; IfNot (CEq (EConst 0) (EReg Rnum)) 6; IRet false
  ; (* 6 *) IfNot (CGe (EReg Ridx) (EReg Rwi)) 8; ILoad Ridx GRI
  ; (* 8 *) ISet Ract (EMask (EReg Ridx))
  ; (* 9 *) ILoadFlag Rprev Ract
  ; (* 10 *) IfNot (CEq (EConst FLAG_CAN_READ) (EReg Rprev)) 13
  ; (* 11 *) IStoreFlag Ract FLAG_INVALID
  ; (* 12 *) IJmp 16
  ; (* 13 *) ISet Ridx (EAdd1 (EReg Ridx)); ILoad Rrc GRC; IJmp 2
  ; (* 16 *) IAdd GRC 1; IBarrier; ILoadBuf Rout Ract; IStoreFlag Ract FLAG_CAN_WRITE; IRet true ].

(* the owner's "fast path" (seeded change C01-12): plain check + store while numInPipe > 1,
   the compare-and-swap only for the last item.  numInPipe > 1 is written 2 <= numInPipe. *)
Definition prog_front_fast : list instr :=
  [ ILoad Rwi GW; ISet Ridx (EReg Rwi); ISet Rprev (EConst FLAG_INVALID); ISet Ract (EConst 0)
  ; (* 4 *) ILoad Rrc GRC; ISet Rnum (ESub (EReg Rwi) (EReg Rrc))
  ; (* 6 *) IfNot (COr (CEq (EConst 0) (EReg Rnum)) (CEq (EConst 0) (EReg Ridx))) 9
  ; IStore GRI (EReg Rrc); IRet false
  ; (* 9 *) ISet Ridx (ESub1 (EReg Ridx)); ISet Ract (EMask (EReg Ridx))
  ; (* 11 *) IfNot (CGe (EReg Rnum) (EConst 2)) 16               (* if( numInPipe > 1 ) { *)
  ; (* 12 *) ILoadFlag Rprev Ract                                 (*   previous = m_Flags[a]; *)
  ; (* 13 *) IfNot (CEq (EConst FLAG_CAN_READ) (EReg Rprev)) 15   (*   if( FLAG_CAN_READ == previous ) *)
  ; (* 14 *) IStoreFlag Ract FLAG_INVALID                         (*     m_Flags[a] = FLAG_INVALID; *)
  ; (* 15 *) IJmp 17                                              (* } else *)
  ; (* 16 *) ICas Rprev Ract FLAG_INVALID FLAG_CAN_READ
  ; (* 17 *) IfNot (CEq (EConst FLAG_CAN_READ) (EReg Rprev)) 20
  ; (* 18 *) IJmp 24; IJmp 23
  ; (* 20 *) ILoad Rtmp GRI; IfNot (CGe (EReg Rtmp) (EReg Ridx)) 23; IRet false
  ; (* 23 *) IJmp 4
  ; (* 24 *) ILoadBuf Rout Ract; IStoreFlag Ract FLAG_CAN_WRITE; IBarrier
  ; ILoad Rtmp GW; IStore GW (ESub1 (EReg Rtmp)); IRet true ].

Definition prog_of_cts_front (m : method) := match m with MFront => prog_front_cts | _ => prog_of m end.
Definition prog_of_cts_reader (m : method) := match m with MReader => prog_reader_cts | _ => prog_of m end.
Definition prog_of_fast_front (m : method) := match m with MFront => prog_front_fast | _ => prog_of m end.

(* ------------------------------------------------------------------ machine state *)
Record regs := mkRegs { rwi : N; rrc : N; ridx : N; ract : N; rprev : N; rnum : N; rtmp : N; rin : N; rout : N }.
Definition regs0 := mkRegs 0 0 0 0 0 0 0 0 0.

Definition getr (rg : regs) (r : reg) : N :=
  match r with
  | Rwi => rwi rg | Rrc => rrc rg | Ridx => ridx rg | Ract => ract rg | Rprev => rprev rg
  | Rnum => rnum rg | Rtmp => rtmp rg | Rin => rin rg | Rout => rout rg
  end.
Definition setr (rg : regs) (r : reg) (v : N) : regs :=
  match r with
  | Rwi   => mkRegs v (rrc rg) (ridx rg) (ract rg) (rprev rg) (rnum rg) (rtmp rg) (rin rg) (rout rg)
  | Rrc   => mkRegs (rwi rg) v (ridx rg) (ract rg) (rprev rg) (rnum rg) (rtmp rg) (rin rg) (rout rg)
  | Ridx  => mkRegs (rwi rg) (rrc rg) v (ract rg) (rprev rg) (rnum rg) (rtmp rg) (rin rg) (rout rg)
  | Ract  => mkRegs (rwi rg) (rrc rg) (ridx rg) v (rprev rg) (rnum rg) (rtmp rg) (rin rg) (rout rg)
  | Rprev => mkRegs (rwi rg) (rrc rg) (ridx rg) (ract rg) v (rnum rg) (rtmp rg) (rin rg) (rout rg)
  | Rnum  => mkRegs (rwi rg) (rrc rg) (ridx rg) (ract rg) (rprev rg) v (rtmp rg) (rin rg) (rout rg)
  | Rtmp  => mkRegs (rwi rg) (rrc rg) (ridx rg) (ract rg) (rprev rg) (rnum rg) v (rin rg) (rout rg)
  | Rin   => mkRegs (rwi rg) (rrc rg) (ridx rg) (ract rg) (rprev rg) (rnum rg) (rtmp rg) v (rout rg)
  | Rout  => mkRegs (rwi rg) (rrc rg) (ridx rg) (ract rg) (rprev rg) (rnum rg) (rtmp rg) (rin rg) v
  end.

(* a thread: idle (with the result of its last operation) or inside a method at a program counter *)
Record tl := mkTl { mode : option method; pc : nat; rg : regs; res : option (bool * N) }.
Definition tl0 := mkTl None 0 regs0 None.

Record state := mkState {
  gW : N; gRC : N; gRI : N;
  flags : N -> N;
  buf : N -> N;
  tls : nat -> tl;
  written : list N;                 (* ghost *)
  delivered : list (nat * N);       (* ghost *)
  gpos : N -> N                     (* ghost *)
}.

Definition upd {A} (f : N -> A) (i : N) (v : A) : N -> A := fun j => if N.eqb j i then v else f j.
Definition updt {A} (f : nat -> A) (i : nat) (v : A) : nat -> A := fun j => if Nat.eqb j i then v else f j.

Inductive op := OpWrite (x : N) | OpFront | OpRead.
Definition event := (nat * op)%type.

Section Machine.
  Variable k : N.        (* cSizeLog2 *)
  Variable w : N.        (* index width in bits: 32 *)
  Variable nthreads : nat.   (* owner + readers *)

  Definition M : N := 2 ^ w.
  Definition size : N := 2 ^ k.
  Definition mask : N := N.ones k.           (* ms_cIndexMask = (1 << cSizeLog2) - 1 *)

  Definition init : state :=
    mkState 0 0 0 (fun _ => FLAG_CAN_WRITE) (fun _ => 0) (fun _ => tl0) [] [] (fun _ => 0).

  Fixpoint eval (rg : regs) (e : exp) : N :=
    match e with
    | EReg r => getr rg r
    | EConst n => n
    | EAdd1 a => (eval rg a + 1) mod M
    | ESub1 a => (eval rg a + (M - 1)) mod M
    | ESub a b => (eval rg a + (M - eval rg b mod M)) mod M
    | EMask a => N.land (eval rg a) mask
    end.

  Fixpoint evalc (rg : regs) (c : cond) : bool :=
    match c with
    | CEq a b => eval rg a =? eval rg b
    | CNe a b => negb (eval rg a =? eval rg b)
    | CGe a b => eval rg b <=? eval rg a
    | COr c d => evalc rg c || evalc rg d
    end.

  Definition getg (s : state) (g : gvar) : N :=
    match g with GW => gW s | GRC => gRC s | GRI => gRI s end.
  Definition setg (s : state) (g : gvar) (v : N) : state :=
    match g with
    | GW  => mkState v (gRC s) (gRI s) (flags s) (buf s) (tls s) (written s) (delivered s) (gpos s)
    | GRC => mkState (gW s) v (gRI s) (flags s) (buf s) (tls s) (written s) (delivered s) (gpos s)
    | GRI => mkState (gW s) (gRC s) v (flags s) (buf s) (tls s) (written s) (delivered s) (gpos s)
    end.
  Definition set_tl (s : state) (t : nat) (l : tl) : state :=
    mkState (gW s) (gRC s) (gRI s) (flags s) (buf s) (updt (tls s) t l) (written s) (delivered s) (gpos s).

  Definition next (l : tl) : tl := mkTl (mode l) (S (pc l)) (rg l) (res l).
  Definition goto (l : tl) (p : nat) : tl := mkTl (mode l) p (rg l) (res l).
  Definition setreg (l : tl) (r : reg) (v : N) : tl := mkTl (mode l) (pc l) (setr (rg l) r v) (res l).

  (* the effect of one instruction executed by thread t whose local state is l *)
  Definition exec (s : state) (t : nat) (l : tl) (i : instr) : state :=
    match i with
    | ILoad r g => set_tl s t (next (setreg l r (getg s g)))
    | IStore g e => set_tl (setg s g (eval (rg l) e)) t (next l)
    | IAdd g n => set_tl (setg s g ((getg s g + n) mod M)) t (next l)
    | ILoadFlag r idx => set_tl s t (next (setreg l r (flags s (getr (rg l) idx))))
    | IStoreFlag idx v =>
        let i := getr (rg l) idx in
        let pub := v =? FLAG_CAN_READ in
        mkState (gW s) (gRC s) (gRI s) (upd (flags s) i v) (buf s) (updt (tls s) t (next l))
                (if pub then written s ++ [rin (rg l)] else written s) (delivered s)
                (if pub then upd (gpos s) i (rwi (rg l)) else gpos s)
    | ICas r idx newv cmpv =>
        let i := getr (rg l) idx in
        let old := flags s i in
        mkState (gW s) (gRC s) (gRI s) (if old =? cmpv then upd (flags s) i newv else flags s) (buf s)
                (updt (tls s) t (next (setreg l r old))) (written s) (delivered s) (gpos s)
    | ILoadBuf r idx =>
        let x := buf s (getr (rg l) idx) in
        mkState (gW s) (gRC s) (gRI s) (flags s) (buf s) (updt (tls s) t (next (setreg l r x)))
                (written s) (delivered s ++ [(t, x)]) (gpos s)
    | IStoreBuf idx src =>
        mkState (gW s) (gRC s) (gRI s) (flags s) (upd (buf s) (getr (rg l) idx) (getr (rg l) src))
                (updt (tls s) t (next l)) (written s) (delivered s) (gpos s)
    | ISet r e => set_tl s t (next (setreg l r (eval (rg l) e)))
    | IfNot c target => set_tl s t (if evalc (rg l) c then next l else goto l target)
    | IJmp target => set_tl s t (goto l target)
    | IRet b => set_tl s t (mkTl None 0 (rg l) (Some (b, rout (rg l))))
    | IBarrier => set_tl s t (next l)
    end.

  Definition allowed (t : nat) (o : op) : bool :=
    match o with OpRead => true | _ => Nat.eqb t 0 end.
  Definition begin (l : tl) (o : op) : tl :=
    match o with
    | OpWrite x => mkTl (Some MWrite) 0 (setr (rg l) Rin x) None
    | OpFront => mkTl (Some MFront) 0 (rg l) None
    | OpRead => mkTl (Some MReader) 0 (rg l) None
    end.

  Section Progs.
    Variable progs : method -> list instr.

    Definition step_gen (s : state) (e : event) : state :=
      let (t, o) := e in
      if Nat.ltb t nthreads then
        let l := tls s t in
        match mode l with
        | None => if allowed t o then set_tl s t (begin l o) else s
        | Some m => exec s t l (nth (pc l) (progs m) (IRet false))
        end
      else s.

    Definition run_gen (sched : list event) (s : state) : state := fold_left step_gen sched s.

    (* run thread t alone until it is idle again (at most fuel instructions) *)
    Fixpoint solo_gen (fuel : nat) (t : nat) (s : state) : option state :=
      match mode (tls s t) with
      | None => Some s
      | Some _ => match fuel with
                  | O => None
                  | S f => solo_gen f t (step_gen s (t, OpRead))
                  end
      end.

    (* one whole operation by thread t from a state where t is idle; None = still running after fuel instructions *)
    Definition run_op_gen (fuel : nat) (s : state) (e : event) : option (state * option (bool * N)) :=
      let (t, o) := e in
      match solo_gen fuel t (step_gen s e) with
      | Some s' => Some (s', res (tls s' t))
      | None => None
      end.

    (* whole operations one after the other; stops at the first one that does not finish *)
    Fixpoint run_seq_gen (fuel : nat) (ops : list event) (s : state) : state * list (option (bool * N)) :=
      match ops with
      | [] => (s, [])
      | e :: r => match run_op_gen fuel s e with
                  | Some (s', o) => let (s'', os) := run_seq_gen fuel r s' in (s'', o :: os)
                  | None => (s, [None])
                  end
      end.
  End Progs.

  Definition step := step_gen prog_of.
  Definition run := run_gen prog_of.
  Definition solo := solo_gen prog_of.
  Definition run_op := run_op_gen prog_of.
  Definition run_seq := run_seq_gen prog_of.

  Definition reachable (s : state) : Prop := exists sched, s = run sched init.

  (* ---------------------------------------------------------------- observations *)
  Definition slots : list N := map N.of_nat (seq 0 (N.to_nat size)).
  Definition threads : list nat := seq 0 nthreads.

  Definition quiescent (s : state) : Prop := forall t, (t < nthreads)%nat -> mode (tls s t) = None.
  Definition quiescentb (s : state) : bool := forallb (fun t => match mode (tls s t) with None => true | _ => false end) threads.

  (* bool IsPipeEmpty() const { return 0 == m_WriteIndex - m_ReadCount; } *)
  Definition is_pipe_empty (s : state) : bool := 0 =? (gW s + (M - gRC s mod M)) mod M.

  (* void Clear() *)
  Definition clear (s : state) : state :=
    mkState 0 0 0 (fun _ => 0) (buf s) (tls s) (written s) (delivered s) (gpos s).

  Definition can_read (s : state) (i : N) : bool := flags s i =? FLAG_CAN_READ.
  Definition in_pipe (s : state) : list N := map (buf s) (filter (can_read s) slots).
  Definition n_can_read (s : state) : N := N.of_nat (length (filter (can_read s) slots)).

  (* which slot a thread has claimed (its compare-and-swap found FLAG_CAN_READ and it has not yet stored
     FLAG_CAN_WRITE back), and whether it has already copied the item out *)
  Definition holds (l : tl) : option N :=
    match mode l with
    | Some MReader =>
        match pc l with
        | 10%nat => if rprev (rg l) =? FLAG_CAN_READ then Some (ract (rg l)) else None
        | 11%nat | 15%nat | 16%nat | 17%nat | 18%nat => Some (ract (rg l))
        | _ => None
        end
    | Some MFront =>
        match pc l with
        | 12%nat => if rprev (rg l) =? FLAG_CAN_READ then Some (ract (rg l)) else None
        | 13%nat | 19%nat | 20%nat => Some (ract (rg l))
        | _ => None
        end
    | _ => None
    end.
  Definition copied (l : tl) : bool :=
    match mode l with
    | Some MReader => Nat.eqb (pc l) 18
    | Some MFront => Nat.eqb (pc l) 20
    | _ => false
    end.
  (* claimed and not yet copied out *)
  Definition claim (l : tl) : option N := if copied l then None else holds l.

  Definition opt_list {A} (o : option A) : list A := match o with Some a => [a] | None => [] end.
  Definition claimed (s : state) : list N :=
    flat_map (fun t => map (buf s) (opt_list (claim (tls s t)))) threads.

  (* observable state for the differential tie *)
  Definition obs (s : state) : (N * N * N) * list N := ((gW s, gRC s, gRI s), map (flags s) slots).
  Definition preset (s : state) (v : N) : state :=
    mkState v v v (flags s) (buf s) (tls s) (written s) (delivered s) (gpos s).
End Machine.
