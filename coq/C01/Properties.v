(* C01 — property theorems only.  Each is closed by [exact] of a lemma from Proofs*.v and followed by
   Print Assumptions.  Index lists are lists over Z: [zrange 0 n] is 0,1,..,n-1 (the text's seq 0 n). *)
From Common Require Import Prelude CxxSem.
From C01 Require Import Model ProofsArith ProofsEnki ProofsTrace ProofsHist.
From Coq Require Import Permutation.
Local Open Scope Z_scope.

(* ================================================================== enkiTS task-set machine *)

(* the invariant is preserved by every step, for every n, thread count, parameters and step *)
Theorem enki_inv_step : forall p s l s',
  wf_params p -> inv p s -> step p s l = Some s' -> inv p s'.
Proof. exact inv_step. Qed.
Print Assumptions enki_inv_step.

(* hence it holds in every reachable state, for every schedule *)
Theorem enki_inv_reachable : forall p t0 s,
  wf_params p -> (t0 < P_T p)%nat -> reachable p t0 s -> inv p s.
Proof. exact inv_reachable. Qed.
Print Assumptions enki_inv_reachable.

(* the parameters AddTaskSetToPipe computes (RangeToRun = max(n/numPartitions,1),
   rangeToSplit = max(n/numInitialPartitions,1)) are well-formed for every n >= 0 and thread count *)
Theorem enki_params_wf : forall n T, 0 <= n -> wf_params (mk_params n T).
Proof. exact mk_params_wf. Qed.
Print Assumptions enki_params_wf.

(* what the invariant says, spelled out: executed ++ still-owed indices are a permutation of 0..n-1;
   m_RunningCount = #queued pieces + #held pieces + #owed decrements; every piece is non-empty *)
Theorem enki_inv_meaning : forall p s, inv p s ->
  Permutation (done s ++ pending s) (zrange 0 (P_n p)) /\
  rc s = Z.of_nat (length (pipes s)) + Z.of_nat (length (entries s)) + Z.of_nat (length (owed s)) /\
  Forall (fun op => fst (snd op) < snd (snd op)) (pipes s) /\
  Forall (fun e => fst (e_run e) < snd (e_run e)) (entries s).
Proof.
  intros p s I. split; [exact (inv_permutation p s I)|]. split; [exact (inv_rc p s I)|].
  split; [exact (inv_pipes p s I)|].
  eapply Forall_impl; [|exact (inv_entries p s I)]. intros e (_ & H & _). exact H.
Qed.
Print Assumptions enki_inv_meaning.

(* join-completeness: when WaitforTask's exit condition holds (AddTaskSetToPipe has returned and
   m_RunningCount == 0) every index of [0,n) has been executed exactly once and nothing else has *)
Theorem enki_join_complete : forall p t0 s,
  wf_params p -> (t0 < P_T p)%nat -> reachable p t0 s -> joined s ->
  Permutation (done s) (zrange 0 (P_n p)).
Proof. intros p t0 s W Ht R J. exact (join_complete p s (inv_reachable p t0 s W Ht R) J). Qed.
Print Assumptions enki_join_complete.

(* at any time: no index is executed twice and nothing outside [0,n) is executed *)
Theorem enki_never_twice_never_outside : forall p t0 s,
  wf_params p -> (t0 < P_T p)%nat -> reachable p t0 s ->
  NoDup (done s) /\ forall x, In x (done s) -> 0 <= x < P_n p.
Proof. intros p t0 s W Ht R. exact (inv_done_once p s (inv_reachable p t0 s W Ht R)). Qed.
Print Assumptions enki_never_twice_never_outside.

(* n = 0: nothing is ever executed, queued or held, and m_RunningCount stays 0 *)
Theorem enki_empty_set : forall p t0 s,
  wf_params p -> (t0 < P_T p)%nat -> P_n p = 0 -> reachable p t0 s ->
  done s = [] /\ elog s = [] /\ pipes s = [] /\ entries s = [] /\ rc s = 0.
Proof. intros p t0 s W Ht Hn R. exact (empty_set p s (inv_reachable p t0 s W Ht R) Hn). Qed.
Print Assumptions enki_empty_set.

(* nesting: any number of task sets live at once (bodies calling parallel_for, waiters running other
   sets' pieces); a step of another set leaves this set's state untouched (frame) ... *)
Theorem enki_nested_frame : forall g l g' k,
  gstep g l = Some g' ->
  match l with GNew k' _ _ | GStep k' _ | GForget k' => k' <> k end -> g' k = g k.
Proof. exact gstep_frame. Qed.
Print Assumptions enki_nested_frame.

(* ... and every live set satisfies its invariant in every reachable global state *)
Theorem enki_nested : forall g, greachable g -> forall k p s, g k = Some (p, s) -> wf_params p /\ inv p s.
Proof. exact nested_inv. Qed.
Print Assumptions enki_nested.

(* in-flight bound: without re-entry (a thread takes a new piece only when it holds none) the threads
   holding a piece or running AddTaskSetToPipe are pairwise distinct, so there are at most numThreads *)
Theorem enki_inflight_bound : forall p t0 s,
  wf_params p -> (t0 < P_T p)%nat -> reachable_flat p t0 s -> (length (holders s) <= P_T p)%nat.
Proof. exact inflight_bound. Qed.
Print Assumptions enki_inflight_bound.

(* the UNREPAIRED pipe-full branch (m_RangeToRun < rangeToSplit_) breaks the invariant:
   range left [12,13), RangeToRun 2, rangeToSplit 6, pipe full => [12,14) is executed, [14,13) is left *)
Theorem enki_full_tail_refuted :
  full_adjust_old 2 6 (split_task (12, 13) 6) = ((12, 14), (14, 13)) /\
  exists ls s', run_old (mk_params 13 3) (init (mk_params 13 3) 0%nat) ls = Some s' /\
                In 13 (done s') /\ adder s' = Some (0%nat, (14, 13)) /\
                step_old (mk_params 13 3) s' AddDone = None.
Proof. split; [exact full_tail_old_step | exact full_tail_old_run]. Qed.
Print Assumptions enki_full_tail_refuted.

(* the order "count, then publish" of SplitAndAddTask (source fact: PropertiesSrc.src_SplitAndAddTask_structure) is what
   join-completeness rests on.  The variant machine that publishes a piece before counting it (Model.step_pubfirst)
   reaches the waiter's exit condition with indices unrun: parallel_for(4), 3 threads, concrete schedule *)
Theorem enki_publish_before_count_refuted :
  exists s', run_pubfirst (mk_params 4 3) {| v_st := init (mk_params 4 3) 0%nat; v_late := 0%nat |} pubfirst_schedule = Some s' /\
             joined (v_st s') /\ done (v_st s') = [1; 2] /\ v_late s' = 2%nat /\
             ~ Permutation (done (v_st s')) (zrange 0 4).
Proof. exact pubfirst_refuted. Qed.
Print Assumptions enki_publish_before_count_refuted.

(* the same thread actions on the proved machine (count, then publish): m_RunningCount is 2 there, the waiter stays *)
Theorem enki_count_before_publish_same_schedule :
  exists s', run (mk_params 4 3) (init (mk_params 4 3) 0%nat) countfirst_schedule = Some s' /\
             done s' = [1; 2] /\ rc s' = 2 /\ ~ joined s'.
Proof. exact countfirst_same_schedule. Qed.
Print Assumptions enki_count_before_publish_same_schedule.

(* trace validation: every terminal execution of the machine is accepted by the extracted predicate
   that the check applies to ExecuteRange traces recorded from the real scheduler *)
Theorem enki_accepts_sound : forall n T t0 s,
  0 <= n -> (t0 < T)%nat -> reachable (mk_params n T) t0 s -> joined s -> accepts n T (elog s) = true.
Proof. exact accepts_sound. Qed.
Print Assumptions enki_accepts_sound.

(* ================================================================== index conversions, internal backend *)

(* a count representable in int reaches enkiTS unchanged; all four backends are asked for max(n,0) calls *)
Theorem internal_setsize_ok : forall t n,
  fits (cty t) n -> 0 < n <= 2147483647 -> internal_request t n = Some n.
Proof. exact internal_request_ok. Qed.
Print Assumptions internal_setsize_ok.

(* repaired code: n <= 0 creates no task set, invokes nothing (n representable in int) *)
Theorem internal_nonpositive_nothing : forall t n,
  fits (cty t) n -> - 2147483648 <= n <= 0 -> internal_request t n = None.
Proof. exact internal_request_nonpos. Qed.
Print Assumptions internal_nonpositive_nothing.

Theorem backends_request_max_n_0 : forall b t n,
  fits (cty t) n -> - 2147483648 <= n <= 2147483647 -> requested_count b t n = Z.max 0 n.
Proof. exact requested_count_ok. Qed.
Print Assumptions backends_request_max_n_0.

(* unrepaired code: n = -1 becomes a set of 4294967295 indices *)
Theorem internal_negative_refuted : exists n, n < 0 /\ set_size_old TInt n = 4294967295.
Proof. exists (-1). split; [lia | vm_compute; reflexivity]. Qed.
Print Assumptions internal_negative_refuted.

(* KNOWN FINDING (open): counts outside the range of int are truncated on the internal backend *)
Theorem internal_truncation_refuted :
  requested_count BInternal TSizeT (4294967296 + 5) = 5 /\
  requested_count BTbb TSizeT (4294967296 + 5) = 4294967296 + 5.
Proof. split; vm_compute; reflexivity. Qed.
Print Assumptions internal_truncation_refuted.

(* ================================================================== parallel_in_blocks_of *)

(* for B > 0 and n > 0 the blocks form a chain 0 = b_0 < e_0 = b_1 < ... = n: non-empty, at most B long,
   ascending, pairwise disjoint, union [0,n) *)
Theorem blocks_partition : forall n B, 0 < n -> 0 < B ->
  chain 0 n (blocks n B) /\
  Forall (fun q => 0 <= fst q /\ fst q < snd q /\ snd q <= fst q + B /\ snd q <= n) (blocks n B) /\
  flat_map idx (blocks n B) = zrange 0 n.
Proof.
  intros n B Hn HB. split; [exact (blocks_chain n B Hn HB)|]. split; [exact (blocks_each n B Hn HB)|].
  apply blocks_cover; lia.
Qed.
Print Assumptions blocks_partition.

Theorem blocks_nonpositive : forall n B, n <= 0 -> num_blocks n B = 0 /\ blocks n B = [].
Proof. intros n B H. split; [exact (num_blocks_nonpos n B H) | exact (blocks_empty n B H)]. Qed.
Print Assumptions blocks_nonpositive.

(* machine-width reading (every operation wrapped to INDEX_T): equal to the ideal one for EVERY n of the
   type, including the type's maximum — the repaired text has no intermediate larger than n *)
Theorem blocks_machine_exact : forall t n B, int_rank t -> fits t n -> fits t B -> 0 < B ->
  m_num_blocks t n B = num_blocks n B /\
  forall b, 0 <= b < num_blocks n B ->
    m_block_begin t B b = block_begin B b /\ m_block_end t n B b = block_end n B b.
Proof. exact ProofsArith.blocks_machine_exact. Qed.
Print Assumptions blocks_machine_exact.

(* the unrepaired text is the same function as long as nothing wraps ... *)
Theorem blocks_old_same_when_no_wrap : forall n B b, 0 < n -> 0 < B ->
  num_blocks_old n B = num_blocks n B /\
  (0 <= b < num_blocks n B -> block_end_old n B b = block_end n B b).
Proof. exact blocks_old_same_ideal. Qed.
Print Assumptions blocks_old_same_when_no_wrap.

(* ... but at machine width, unsigned n = 2^32 - 6, B = 1024: zero blocks (nothing runs), and even with the
   right block count the last block's end wraps to 0 *)
Theorem blocks_overflow_refuted :
  m_num_blocks_old U32 (4294967296 - 6) 1024 = 0 /\
  m_block_end_old U32 (4294967296 - 6) 1024 (4194304 - 1) = 0 /\
  m_num_blocks U32 (4294967296 - 6) 1024 = 4194304 /\
  m_block_end U32 (4294967296 - 6) 1024 (4194304 - 1) = 4294967296 - 6.
Proof. repeat split; vm_compute; reflexivity. Qed.
Print Assumptions blocks_overflow_refuted.

(* ================================================================== chunked partitions *)
(* k chunks [n*c/k, n*(c+1)/k), c < k, are an exact partition of [0,n) over the integers ... *)
Theorem chunks_partition : forall n k, 0 <= n -> 0 < k ->
  chain 0 n (chunks n k) /\
  Forall (fun q => 0 <= fst q /\ fst q <= snd q /\ snd q <= n) (chunks n k) /\
  flat_map idx (chunks n k) = zrange 0 n.
Proof.
  intros n k Hn Hk. split; [exact (chunks_chain n k Hn Hk)|]. split; [exact (chunks_each n k Hn Hk)|exact (chunks_cover n k Hn Hk)].
Qed.
Print Assumptions chunks_partition.

(* ... but not when the product n*c is evaluated in a 32-bit index type: unsigned n = 3*10^8, 64 chunks (16 threads x 4):
   chunk 14 comes out as [65625000, 3203636) (empty) and chunk 15 as [3203636, 7891136) (indices run a second time)
   instead of [65625000, 70312500) and [70312500, 75000000).  rkcommon's dispatch forms no such product
   (PropertiesSrc.src_dispatch_arith_free, src_dispatch_tbb): the backends receive (0, nTasks) unchanged *)
Theorem chunk_bounds_wrap_refuted :
  m_chunk U32 300000000 64 15 = (3203636, 7891136) /\ chunk 300000000 64 15 = (70312500, 75000000) /\
  m_chunk U32 300000000 64 14 = (65625000, 3203636).
Proof. exact chunk_wrap_witness. Qed.
Print Assumptions chunk_bounds_wrap_refuted.

(* ================================================================== parallel_foreach *)
(* indices [0,count) address count distinct elements base + i*size: every element once, nothing else *)
Theorem foreach_indices : forall base size count, 0 < size ->
  NoDup (foreach_addrs base size count) /\
  length (foreach_addrs base size count) = Z.to_nat count /\
  (forall a, In a (foreach_addrs base size count) <-> exists i, 0 <= i < count /\ a = base + i * size).
Proof. exact foreach_once. Qed.
Print Assumptions foreach_indices.

(* ================================================================== histories of loops *)
(* Loops run in histories, and a body may fail (exceptional outcome, where the backend defines it).  What a loop may
   do is judged from its own request: a history is admissible iff each of its loops is — no cross term *)
Theorem history_independent : forall h1 h2 o1 o2, length h1 = length o1 ->
  (history_admissible (h1 ++ h2) (o1 ++ o2) <-> history_admissible h1 o1 /\ history_admissible h2 o2).
Proof. exact history_split. Qed.
Print Assumptions history_independent.

(* after any earlier loops, however they ended, an ordinary loop runs every index of [0,n) exactly once *)
Theorem history_later_loop_complete : forall h1 o1 r o h2 o2, length h1 = length o1 ->
  history_admissible (h1 ++ r :: h2) (o1 ++ o :: o2) -> h_throw r = None ->
  exists c, o = HNormal c /\ Permutation c (zrange 0 (h_count r)).
Proof. exact later_loop_complete. Qed.
Print Assumptions history_later_loop_complete.

Theorem history_prefix_irrelevant : forall h1 o1 h1' o1' h2 o2, length h1 = length o1 -> length h1' = length o1' ->
  history_admissible (h1 ++ h2) (o1 ++ o2) -> history_admissible h1' o1' -> history_admissible (h1' ++ h2) (o1' ++ o2).
Proof. exact ProofsHist.history_prefix_irrelevant. Qed.
Print Assumptions history_prefix_irrelevant.

(* the serial (Debug) backend, executably: every history it produces is admissible, failing loops included *)
Theorem serial_history_admissible : forall h, history_admissible h (run_history_serial h).
Proof. exact run_history_serial_admissible. Qed.
Print Assumptions serial_history_admissible.

(* internal backend: every loop of a history runs on its own fresh task set (AddTaskSetToPipe resets m_RunningCount,
   src_AddTaskSetToPipe_is_init), so each one that has joined is complete, whatever the others did *)
Theorem enki_history_complete : forall runs : list (params * nat * st),
  Forall (fun x => let '(p, t0, s) := x in wf_params p /\ (t0 < P_T p)%nat /\ reachable p t0 s /\ joined s) runs ->
  Forall (fun x => let '(p, t0, s) := x in Permutation (done s) (zrange 0 (P_n p))) runs.
Proof.
  intros runs H. eapply Forall_impl; [|exact H]. intros [[p t0] s] (W & Ht & R & J).
  exact (join_complete p s (inv_reachable p t0 s W Ht R) J).
Qed.
Print Assumptions enki_history_complete.

Example demo_history :
  run_history_serial [ {| h_backend := BDebug; h_ty := TInt; h_n := 5; h_throw := Some 2 |};
                       {| h_backend := BDebug; h_ty := TInt; h_n := 4; h_throw := None |} ]
  = [HThrew [0; 1; 2]; HNormal [0; 1; 2; 3]].
Proof. vm_compute. reflexivity. Qed.

(* ================================================================== non-vacuity *)
(* a complete non-trivial schedule of the repaired machine: n = 13, 3 threads, writes, a steal, a split of
   the rest, a pipe-full inline run, executions and decrements; it ends joined with done a permutation *)
Definition demo_schedule : list label :=
  [AddWrite; AddWrite; AddFullInline; AddDone; Steal 1 0; SplitRest 0; RestWrite 0; RestFullInline 0;
   RestDone 0; Exec 0; Dec 0; PopOwn 0; SplitRest 0; RestFullInline 0; RestFullInline 0; RestDone 0;
   Exec 0; Dec 0; Steal 2 1; Exec 0; Dec 0].
Example demo_run_joined :
  exists s, run (mk_params 13 3) (init (mk_params 13 3) 0%nat) demo_schedule = Some s /\
            joined s /\ length (done s) = 13%nat /\ accepts 13 3 (elog s) = true /\
            done s <> zrange 0 13.
Proof.
  eexists. split; [vm_compute; reflexivity|]. split; [split; reflexivity|].
  split; [reflexivity|]. split; [vm_compute; reflexivity|]. vm_compute. discriminate.
Qed.

(* the repaired pipe-full branch on the refutation's schedule executes exactly 0..12 and finishes *)
Example demo_full_pipe_repaired :
  exists s', run (mk_params 13 3) (init (mk_params 13 3) 0%nat) (repeat AddFullInline 7 ++ [AddDone]) = Some s' /\
             done s' = zrange 0 13 /\ joined s'.
Proof. exact full_tail_repaired_run. Qed.

Example demo_blocks : blocks 10 4 = [(0, 4); (4, 8); (8, 10)].
Proof. vm_compute. reflexivity. Qed.

Example demo_accepts_rejects :
  accepts 13 3 [(0%nat, (0, 2)); (0%nat, (2, 4)); (0%nat, (4, 6)); (0%nat, (6, 8)); (0%nat, (8, 10)); (0%nat, (10, 12)); (0%nat, (12, 14))] = false.
Proof. exact accepts_rejects_overrun. Qed.

Example demo_requests :
  requested_count BInternal TInt (-7) = 0 /\ requested_count BInternal TUChar 255 = 255 /\
  requested_count_old BInternal TInt (-7) = 4294967289.
Proof. repeat split; vm_compute; reflexivity. Qed.
