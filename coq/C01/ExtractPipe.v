(* Extraction of the executable LockLessMultiReadPipe machine (Pipe.v) for ocaml/C01/pipe_driver.ml.
   ExtrOcamlBasic only; N / nat / positive stay Coq inductives.  The program-table variants that are NOT
   the code (prog_of_cts_front, prog_of_cts_reader, prog_of_fast_front) are extracted as well: the
   explorer of the driver must find a counterexample on each of them (self-test of the explorer). *)
From Coq Require Import Extraction ExtrOcamlBasic NArith List.
From C01 Require Import Pipe.
Extraction "Pipe.ml" init step run run_op run_seq step_gen run_gen run_op_gen run_seq_gen
  obs preset clear quiescentb is_pipe_empty in_pipe claimed n_can_read slots
  prog_of prog_of_cts_front prog_of_cts_reader prog_of_fast_front
  FLAG_CAN_WRITE FLAG_CAN_READ FLAG_INVALID.
