(* C01/C02 — proofs about the micro-step model of LockLessMultiReadPipe (Pipe.v).
   An inductive invariant over single steps, lifted to every reachable state (every schedule). *)
From Common Require Import Prelude.
From Coq Require Import Permutation.
From C01 Require Import Pipe.
Local Open Scope Z_scope.

Local Arguments N.eqb : simpl never.
Local Arguments N.leb : simpl never.
Local Arguments N.land : simpl never.
Local Arguments N.modulo : simpl never.
Local Arguments N.add : simpl never.
Local Arguments N.sub : simpl never.
Local Arguments N.pow : simpl never.
Local Arguments N.ones : simpl never.
Local Arguments Z.of_N : simpl never.
Local Arguments Z.add : simpl never.
Local Arguments Z.sub : simpl never.
Local Arguments Z.modulo : simpl never.
Local Arguments Nat.eqb : simpl nomatch.

Lemma CR_ne_CW : FLAG_CAN_READ <> FLAG_CAN_WRITE. Proof. discriminate. Qed.
Lemma CR_ne_INV : FLAG_CAN_READ <> FLAG_INVALID. Proof. discriminate. Qed.
Lemma CW_ne_INV : FLAG_CAN_WRITE <> FLAG_INVALID. Proof. discriminate. Qed.
Lemma CR_eqb_CW : (FLAG_CAN_WRITE =? FLAG_CAN_READ)%N = false. Proof. reflexivity. Qed.
Lemma CR_eqb_CR : (FLAG_CAN_READ =? FLAG_CAN_READ)%N = true. Proof. reflexivity. Qed.
Lemma INV_eqb_CR : (FLAG_INVALID =? FLAG_CAN_READ)%N = false. Proof. reflexivity. Qed.
Global Opaque FLAG_CAN_READ FLAG_CAN_WRITE FLAG_INVALID.

(* ------------------------------------------------------------------ sums *)
Fixpoint sumZ {A} (f : A -> Z) (l : list A) : Z :=
  match l with [] => 0 | a :: r => f a + sumZ f r end.

Lemma sumZ_ext {A} (f g : A -> Z) l : (forall a, In a l -> f a = g a) -> sumZ f l = sumZ g l.
Proof.
  induction l as [|a l IH]; intro H; cbn; [reflexivity|].
  rewrite (H a (or_introl eq_refl)), IH; [reflexivity|]. intros b Hb; apply H; right; exact Hb.
Qed.

Lemma sumZ_point {A} (l : list A) (F G : A -> Z) (a : A) :
  NoDup l -> In a l -> (forall b, In b l -> b <> a -> F b = G b) ->
  sumZ F l = sumZ G l - G a + F a.
Proof.
  induction l as [|c l IH]; intros Hnd Hin Hext; [destruct Hin|].
  inversion Hnd as [|? ? Hnotin Hnd']; subst. cbn.
  destruct Hin as [->|Hin].
  - rewrite (sumZ_ext F G l); [lia|]. intros b Hb. apply Hext; [right; exact Hb|]. intros ->; contradiction.
  - rewrite IH; auto.
    + rewrite (Hext c); [lia|left; reflexivity|]. intros ->; contradiction.
    + intros b Hb Hne. apply Hext; [right; exact Hb|exact Hne].
Qed.

Lemma sumZ_nonneg {A} (f : A -> Z) l : (forall a, 0 <= f a) -> 0 <= sumZ f l.
Proof. intro H; induction l as [|a l IH]; cbn; [lia|]. specialize (H a); lia. Qed.

Lemma sumZ_le_len {A} (f : A -> Z) l : (forall a, 0 <= f a <= 1) -> 0 <= sumZ f l <= Z.of_nat (length l).
Proof. intro H; induction l as [|a l IH]; cbn [sumZ length]; [lia|]. specialize (H a); lia. Qed.

Lemma sumZ_zero {A} (f : A -> Z) l : (forall a, In a l -> f a = 0) -> sumZ f l = 0.
Proof.
  induction l as [|a l IH]; intro H; cbn; [reflexivity|].
  rewrite (H a (or_introl eq_refl)), IH; [reflexivity|]. intros b Hb; apply H; right; exact Hb.
Qed.

Lemma sumZ_pos_ex {A} (f : A -> Z) l : (forall a, 0 <= f a) -> 0 < sumZ f l -> exists a, In a l /\ 0 < f a.
Proof.
  intro Hf. induction l as [|a l IH]; cbn; [lia|]. intro H.
  destruct (Z_lt_le_dec 0 (f a)) as [Hp|Hn].
  - exists a; split; [left; reflexivity|exact Hp].
  - destruct IH as [b [Hb1 Hb2]]; [specialize (Hf a); lia|]. exists b; split; [right; exact Hb1|exact Hb2].
Qed.

Definition b2z (b : bool) : Z := if b then 1 else 0.
Definition cnt (x : N) (l : list N) : Z := sumZ (fun y => b2z (y =? x)%N) l.
Global Arguments cnt : simpl never.
Lemma cnt_app x l1 l2 : cnt x (l1 ++ l2) = cnt x l1 + cnt x l2.
Proof. unfold cnt; induction l1 as [|a l IH]; cbn [sumZ app]; [lia|]. rewrite IH; lia. Qed.
Lemma cnt_count_occ x l : cnt x l = Z.of_nat (count_occ N.eq_dec l x).
Proof.
  unfold cnt; induction l as [|a l IH]; cbn [sumZ count_occ]; [reflexivity|].
  destruct (N.eq_dec a x) as [->|Hne].
  - rewrite N.eqb_refl. cbn [b2z]. lia.
  - apply N.eqb_neq in Hne. rewrite Hne. cbn [b2z]. lia.
Qed.
Lemma cnt_perm l1 l2 : (forall x, cnt x l1 = cnt x l2) -> Permutation l1 l2.
Proof.
  intro H. apply (Permutation_count_occ N.eq_dec). intro x. specialize (H x).
  rewrite !cnt_count_occ in H. lia.
Qed.
Lemma cnt_nonneg x l : 0 <= cnt x l.
Proof. apply sumZ_nonneg. intro a. destruct (a =? x)%N; cbn; lia. Qed.
Lemma cnt_in x l : In x l <-> 0 < cnt x l.
Proof.
  unfold cnt. induction l as [|a l IH]; cbn [sumZ In]; [split; [tauto|lia]|].
  pose proof (cnt_nonneg x l) as Hnn. unfold cnt in Hnn.
  destruct (N.eqb_spec a x) as [->|Hne]; cbn [b2z].
  - split; [lia|auto].
  - rewrite IH. split; [intros [E|H]; [congruence|lia]|intro; right; lia].
Qed.

(* ------------------------------------------------------------------ function updates *)
Lemma updt_same {A} (f : nat -> A) t v : updt f t v t = v.
Proof. unfold updt. rewrite Nat.eqb_refl. reflexivity. Qed.
Lemma updt_other {A} (f : nat -> A) t v t' : t' <> t -> updt f t v t' = f t'.
Proof. unfold updt. intro H. apply Nat.eqb_neq in H. rewrite H. reflexivity. Qed.
Lemma upd_same {A} (f : N -> A) i v : upd f i v i = v.
Proof. unfold upd. rewrite N.eqb_refl. reflexivity. Qed.
Lemma upd_other {A} (f : N -> A) i v j : j <> i -> upd f i v j = f j.
Proof. unfold upd. intro H. apply N.eqb_neq in H. rewrite H. reflexivity. Qed.

Section Proofs.
  Variable k w : N.
  Variable n : nat.
  Hypothesis Hkw : (k < w)%N.

  Notation step := (step k w n).
  Notation exec := (exec k w).
  Notation size := (size k).
  Notation slots := (slots k).
  Notation threads := (threads n).
  Notation MN := (M w).
  Definition MZ : Z := Z.of_N (M w).

  Lemma MZ_pos : 0 < MZ.
  Proof. unfold MZ, M. pose proof (N.pow_nonzero 2 w). lia. Qed.
  Lemma size_lt_M : (size < MN)%N.
  Proof. unfold Pipe.size, M. apply N.pow_lt_mono_r; lia. Qed.

  Lemma slots_NoDup : NoDup slots.
  Proof. unfold Pipe.slots. apply FinFun.Injective_map_NoDup; [intros a b; apply Nat2N.inj|apply seq_NoDup]. Qed.
  Lemma slots_In i : In i slots <-> (i < size)%N.
  Proof.
    unfold Pipe.slots. rewrite in_map_iff. split.
    - intros [j [<- Hj]]. apply in_seq in Hj. lia.
    - intro H. exists (N.to_nat i). split; [apply N2Nat.id|apply in_seq; lia].
  Qed.
  Lemma slots_length : length slots = N.to_nat size.
  Proof. unfold Pipe.slots. rewrite map_length, seq_length. reflexivity. Qed.
  Lemma threads_NoDup : NoDup threads. Proof. apply seq_NoDup. Qed.
  Lemma threads_In t : In t threads <-> (t < n)%nat.
  Proof. unfold Pipe.threads. rewrite in_seq. lia. Qed.

  Lemma mask_lt x : (N.land x (mask k) < size)%N.
  Proof.
    unfold mask, Pipe.size. rewrite N.land_ones. apply N.mod_upper_bound. apply N.pow_nonzero. discriminate.
  Qed.

  (* ---------------------------------------------------------------- one step, by cases *)
  Lemma step_cases (P : state -> Prop) s e :
    P s ->
    (forall t o, (t < n)%nat -> mode (tls s t) = None -> allowed t o = true ->
                 P (set_tl s t (begin (tls s t) o))) ->
    (forall t m p r rs, (t < n)%nat -> tls s t = mkTl (Some m) p r rs ->
                        P (exec s t (mkTl (Some m) p r rs) (nth p (prog_of m) (IRet false)))) ->
    P (step s e).
  Proof.
    intros H0 Hb He. destruct e as [t o]. unfold Pipe.step, step_gen.
    destruct (Nat.ltb_spec t n) as [Hlt|Hge]; [|exact H0].
    destruct (tls s t) as [md p r rs] eqn:El. cbn [mode pc].
    destruct md as [m|].
    - apply (He t m p r rs Hlt El).
    - destruct (allowed t o) eqn:Ea; [|exact H0].
      rewrite <- El. apply Hb; auto. rewrite El; reflexivity.
  Qed.

  Lemma tls_set_tl s t l t' : tls (set_tl s t l) t' = if Nat.eqb t' t then l else tls s t'.
  Proof. reflexivity. Qed.

  (* ---------------------------------------------------------------- per-thread attributes *)
  Definition aB (l : tl) : bool :=          (* a reader that has claimed but not yet counted (m_ReadCount) *)
    match mode l with
    | Some MReader => match pc l with
                      | 10%nat => (rprev (rg l) =? FLAG_CAN_READ)%N
                      | 11%nat | 15%nat => true
                      | _ => false end
    | _ => false end.
  Definition aC (l : tl) : bool :=          (* the owner has claimed at the front, m_WriteIndex not yet decremented *)
    match mode l with
    | Some MFront => match pc l with
                     | 12%nat => (rprev (rg l) =? FLAG_CAN_READ)%N
                     | 13%nat | 19%nat | 20%nat | 21%nat | 22%nat | 23%nat => true
                     | _ => false end
    | _ => false end.
  Definition aD (l : tl) : bool :=          (* the owner has published, m_WriteIndex not yet incremented *)
    match mode l with
    | Some MWrite => match pc l with 7%nat | 8%nat | 9%nat => true | _ => false end
    | _ => false end.
  Definition guard (l : tl) : option N :=   (* the writer has seen FLAG_CAN_WRITE on this slot and not yet published *)
    match mode l with
    | Some MWrite => match pc l with
                     | 3%nat => if (rtmp (rg l) =? FLAG_CAN_WRITE)%N then Some (ract (rg l)) else None
                     | 5%nat | 6%nat => Some (ract (rg l))
                     | _ => None end
    | _ => None end.
  Definition filled (l : tl) : bool :=
    match mode l with Some MWrite => Nat.eqb (pc l) 6 | _ => false end.

  Definition ract_ok (l : tl) : Prop :=
    match mode l with
    | Some MReader => (9 <= pc l)%nat -> (ract (rg l) < size)%N
    | Some MFront => (4 <= pc l)%nat -> (ract (rg l) < size)%N
    | Some MWrite => (2 <= pc l)%nat -> (ract (rg l) < size)%N
    | None => True
    end.

  Definition L_roles (s : state) : Prop :=
    forall t, t <> 0%nat -> mode (tls s t) = None \/ mode (tls s t) = Some MReader.
  Definition L_ract (s : state) : Prop := forall t, ract_ok (tls s t).
  Definition P_holds (s : state) : Prop :=
    forall t i, holds (tls s t) = Some i -> flags s i = FLAG_INVALID /\ (i < size)%N.
  Definition P_uniq (s : state) : Prop :=
    forall t1 t2 i, holds (tls s t1) = Some i -> holds (tls s t2) = Some i -> t1 = t2.
  Definition P_guard (s : state) : Prop :=
    forall t i, guard (tls s t) = Some i -> flags s i = FLAG_CAN_WRITE /\ (i < size)%N.
  Definition P_fill (s : state) : Prop :=
    forall t, filled (tls s t) = true -> buf s (ract (rg (tls s t))) = rin (rg (tls s t)).

  Record Inv1 (s : state) : Prop := {
    i_roles : L_roles s; i_ract : L_ract s; i_holds : P_holds s; i_uniq : P_uniq s;
    i_guard : P_guard s; i_fill : P_fill s }.

  Ltac split_mp m p :=
    destruct m; [ do 12 (try (destruct p as [|p])) | do 21 (try (destruct p as [|p])) | do 26 (try (destruct p as [|p])) ].
  Ltac norm :=
    cbn; rewrite ?CR_eqb_CR, ?CR_eqb_CW; unfold set_tl, setg, next, goto, setreg; cbn.

  (* in the goal: a universally quantified thread t' looked up in [updt (tls s) t l'] *)
  Ltac pick t' t :=
    unfold updt in *; destruct (Nat.eqb_spec t' t) as [->|?].


  Lemma L_roles_step s e : L_roles s -> L_roles (step s e).
  Proof.
    intro H. apply step_cases; [exact H| |].
    - intros t o Hlt Hm Ha t' Hne. rewrite tls_set_tl. destruct (Nat.eqb_spec t' t) as [->|Hne']; [|apply H; exact Hne].
      destruct o; cbn in *; try (apply Nat.eqb_eq in Ha; contradiction). right; reflexivity.
    - intros t m p r rs Hlt El t' Hne.
      pose proof (H t') as Ht.
      destruct (Nat.eq_dec t' t) as [->|Hne'].
      + specialize (Ht Hne). rewrite El in Ht. cbn in Ht. destruct Ht as [Ht|Ht]; [discriminate|]. inversion Ht; subst m.
        do 21 (try (destruct p as [|p])); norm; rewrite updt_same; cbn; try (right; reflexivity); try (left; reflexivity).
        all: match goal with |- context [if ?c then _ else _] => destruct c end; cbn; right; reflexivity.
      + specialize (Ht Hne).
        split_mp m p; norm; (rewrite updt_other by exact Hne'; exact Ht).
  Qed.

  Lemma L_ract_step s e : L_ract s -> L_ract (step s e).
  Proof.
    intro H. apply step_cases; [exact H| |].
    - intros t o Hlt Hm Ha t'. rewrite tls_set_tl. destruct (Nat.eqb_spec t' t) as [->|Hne]; [|apply H].
      destruct o; cbn; lia.
    - intros t m p r rs Hlt El t'.
      pose proof (H t) as Ht. rewrite El in Ht. unfold ract_ok in Ht. cbn in Ht.
      destruct (Nat.eq_dec t' t) as [->|Hne'].
      + split_mp m p; norm; rewrite updt_same; unfold ract_ok; cbn;
          try (intros _; apply mask_lt); try (intro; apply Ht; lia); try exact I; try (intro; lia).
        all: try (match goal with |- context [if ?c then _ else _] => destruct c end; cbn; try (intro; apply Ht; lia); try (intro; lia)).
        all: try (intros _; unfold Pipe.size; apply N.neq_0_lt_0; apply N.pow_nonzero; discriminate).
      + split_mp m p; norm; (rewrite updt_other by exact Hne'; apply H).
  Qed.

  Ltac own_facts HI t r El :=
    pose proof (i_holds _ HI t (ract r)) as Hh0; pose proof (i_guard _ HI t (ract r)) as Hg0;
    pose proof (i_fill _ HI t) as Hf0; pose proof (i_ract _ HI t) as Hr0;
    rewrite El in Hh0, Hg0, Hf0, Hr0; unfold ract_ok in Hr0.
  Ltac use_own :=
    cbn in *; rewrite ?(N.eqb_sym FLAG_CAN_READ) in *;
    try (match goal with H : Some ?a = Some ?a -> _ |- _ => specialize (H eq_refl) end);
    try (match goal with H : Some ?a = Some ?a -> _ |- _ => specialize (H eq_refl) end);
    try (match goal with H : true = true -> _ |- _ => specialize (H eq_refl) end).
  Ltac flagfacts := pose proof CR_ne_CW as Fa; pose proof CR_ne_INV as Fb; pose proof CW_ne_INV as Fc.
  Ltac eqbs := repeat match goal with
     | H : (_ =? _)%N = true |- _ => apply N.eqb_eq in H
     | H : (_ =? _)%N = false |- _ => apply N.eqb_neq in H end.
  Ltac case_ifs := repeat match goal with
     | |- context [if ?c then _ else _] => destruct c eqn:?
     | H : context [if ?c then _ else _] |- _ => destruct c eqn:? end.

  Lemma P_holds_step s e : Inv1 s -> P_holds (step s e).
  Proof.
    intro HI. apply step_cases; [exact (i_holds _ HI)| |].
    - intros t o Hlt Hm Ha t' i. rewrite tls_set_tl. destruct (Nat.eqb_spec t' t) as [->|Hne]; [|apply (i_holds _ HI)].
      destruct o; cbn; discriminate.
    - intros t m p r rs Hlt El. own_facts HI t r El.
      split_mp m p; norm; intros t' i; cbn [tls flags];
        (destruct (Nat.eq_dec t' t) as [->|Hne]; [rewrite updt_same|rewrite updt_other by exact Hne]); use_own.
      all: try discriminate.
      all: try (intro Hh; apply (i_holds _ HI) in Hh; exact Hh).
      all: flagfacts.
      (* own thread *)
      all: try solve [case_ifs; cbn; try discriminate; intro E; inversion E; subst i; eqbs;
                      first [ tauto | split; [rewrite ?upd_same; congruence | apply Hr0; lia] ] ].
      (* other threads, flags changed at ract r *)
      all: try solve [intro Hh; pose proof (i_holds _ HI _ _ Hh) as [Hfl Hsz]; case_ifs; eqbs; split; try exact Hsz; try exact Hfl;
                      rewrite upd_other; [exact Hfl|]; intros ->;
                      first [ congruence | destruct Hg0; congruence
                            | apply Hne; apply (i_uniq _ HI t' t (ract r)); [exact Hh|rewrite El; reflexivity] ] ].
  Qed.

  Lemma mode_owner s t m : L_roles s -> mode (tls s t) = Some m -> m <> MReader -> t = 0%nat.
  Proof.
    intros Hr Hm Hne. destruct (Nat.eq_dec t 0) as [E|E]; [exact E|].
    destruct (Hr t E) as [H|H]; rewrite H in Hm; [discriminate|]. inversion Hm; subst; contradiction.
  Qed.
  Lemma guard_owner s t i : L_roles s -> guard (tls s t) = Some i -> t = 0%nat.
  Proof.
    intros Hr Hg. unfold guard in Hg. destruct (mode (tls s t)) as [[| |]|] eqn:Em; try discriminate.
    apply (mode_owner s t MWrite Hr Em). discriminate.
  Qed.
  Lemma filled_owner s t : L_roles s -> filled (tls s t) = true -> t = 0%nat.
  Proof.
    intros Hr Hg. unfold filled in Hg. destruct (mode (tls s t)) as [[| |]|] eqn:Em; try discriminate.
    apply (mode_owner s t MWrite Hr Em). discriminate.
  Qed.

  Ltac old_holds El :=
    rewrite El; cbn; rewrite ?(N.eqb_sym FLAG_CAN_READ);
    repeat match goal with H : _ = true |- _ => rewrite H end; reflexivity.

  Lemma P_uniq_step s e : Inv1 s -> P_uniq (step s e).
  Proof.
    intro HI. apply step_cases; [exact (i_uniq _ HI)| |].
    - intros t o Hlt Hm Ha t1 t2 i. rewrite !tls_set_tl.
      destruct (Nat.eqb_spec t1 t) as [->|Hne1]; destruct (Nat.eqb_spec t2 t) as [->|Hne2]; auto.
      + destruct o; cbn; discriminate.
      + intros _; destruct o; cbn; discriminate.
      + apply (i_uniq _ HI).
    - intros t m p r rs Hlt El. own_facts HI t r El.
      split_mp m p; norm; intros t1 t2 i; cbn [tls flags];
        (destruct (Nat.eq_dec t1 t) as [->|Hne1]; [rewrite updt_same|rewrite updt_other by exact Hne1]);
        (destruct (Nat.eq_dec t2 t) as [->|Hne2]; [rewrite updt_same|rewrite updt_other by exact Hne2]); use_own;
        try (intros; reflexivity); try (apply (i_uniq _ HI)); try discriminate; try (intros _; discriminate).
      all: flagfacts.
      all: try solve [ intros H1 H2; case_ifs; cbn in *; try discriminate;
                 first [ inversion H1; subst i; symmetry; apply (i_uniq _ HI t2 t (ract r)); [exact H2|old_holds El]
                       | inversion H1; subst i; pose proof (i_holds _ HI _ _ H2) as [Hfl _]; eqbs; congruence ] ].
      all: try solve [ intros H2 H1; case_ifs; cbn in *; try discriminate;
                 first [ inversion H1; subst i; apply (i_uniq _ HI t1 t (ract r)); [exact H2|old_holds El]
                       | inversion H1; subst i; pose proof (i_holds _ HI _ _ H2) as [Hfl _]; eqbs; congruence ] ].
  Qed.

  Lemma P_guard_step s e : Inv1 s -> P_guard (step s e).
  Proof.
    intro HI. apply step_cases; [exact (i_guard _ HI)| |].
    - intros t o Hlt Hm Ha t' i. rewrite tls_set_tl. destruct (Nat.eqb_spec t' t) as [->|Hne]; [|apply (i_guard _ HI)].
      destruct o; cbn; discriminate.
    - intros t m p r rs Hlt El. own_facts HI t r El.
      assert (Hown : forall t' i, t' <> t -> guard (tls s t') = Some i -> m = MReader).
      { intros t' i Hne Hg. destruct m; [|reflexivity|]; exfalso; apply Hne;
          rewrite (guard_owner s t' i (i_roles _ HI) Hg);
          symmetry; eapply (mode_owner s t _ (i_roles _ HI)); try (rewrite El; reflexivity); discriminate. }
      split_mp m p; norm; intros t' i; cbn [tls flags];
        (destruct (Nat.eq_dec t' t) as [->|Hne]; [rewrite updt_same|rewrite updt_other by exact Hne]); use_own.
      all: try discriminate.
      all: try (intro Hh; apply (i_guard _ HI) in Hh; exact Hh).
      all: try (intro Hh; specialize (Hown _ _ Hne Hh); discriminate).
      all: flagfacts.
      all: try solve [case_ifs; cbn in *; try discriminate; intro E; inversion E; subst i; eqbs;
                      first [ tauto | split; [congruence | apply Hr0; lia] ] ].
      all: try solve [intro Hh; pose proof (i_guard _ HI _ _ Hh) as [Hfl Hsz]; case_ifs; eqbs; split; try exact Hsz; try exact Hfl;
                      rewrite upd_other; [exact Hfl|]; intros ->;
                      first [ congruence | destruct Hh0; congruence ] ].
  Qed.

  Lemma P_fill_step s e : Inv1 s -> P_fill (step s e).
  Proof.
    intro HI. apply step_cases; [exact (i_fill _ HI)| |].
    - intros t o Hlt Hm Ha t'. rewrite tls_set_tl. destruct (Nat.eqb_spec t' t) as [->|Hne]; [|apply (i_fill _ HI)].
      destruct o; cbn; discriminate.
    - intros t m p r rs Hlt El. own_facts HI t r El.
      assert (Hown : forall t', t' <> t -> filled (tls s t') = true -> m = MReader).
      { intros t' Hne Hg. destruct m; [|reflexivity|]; exfalso; apply Hne;
          rewrite (filled_owner s t' (i_roles _ HI) Hg);
          symmetry; eapply (mode_owner s t _ (i_roles _ HI)); try (rewrite El; reflexivity); discriminate. }
      split_mp m p; norm; intros t'; cbn [tls buf];
        (destruct (Nat.eq_dec t' t) as [->|Hne]; [rewrite updt_same|rewrite updt_other by exact Hne]); use_own.
      all: try discriminate.
      all: try (intro Hh; apply (i_fill _ HI) in Hh; exact Hh).
      all: try (intro Hh; specialize (Hown _ Hne Hh); discriminate).
      all: try solve [case_ifs; cbn in *; discriminate].
      all: try solve [intros _; apply upd_same].
  Qed.

  Lemma Inv1_init : Inv1 (init).
  Proof.
    constructor.
    - intros t _; left; reflexivity.
    - intro t; exact I.
    - intros t i; cbn; discriminate.
    - intros t1 t2 i; cbn; discriminate.
    - intros t i; cbn; discriminate.
    - intros t; cbn; discriminate.
  Qed.

  Lemma Inv1_step s e : Inv1 s -> Inv1 (step s e).
  Proof.
    intro HI. constructor.
    - apply L_roles_step, HI.
    - apply L_ract_step, HI.
    - apply P_holds_step, HI.
    - apply P_uniq_step, HI.
    - apply P_guard_step, HI.
    - apply P_fill_step, HI.
  Qed.

  (* ---------------------------------------------------------------- the multiset equation *)
  Definition fs (s : state) (x : N) (i : N) : Z := b2z ((flags s i =? FLAG_CAN_READ)%N && (buf s i =? x)%N).
  Definition ftl (bf : N -> N) (x : N) (l : tl) : Z :=
    match claim l with Some i => b2z (bf i =? x)%N | None => 0 end.
  Definition ft (s : state) (x : N) (t : nat) : Z := ftl (buf s) x (tls s t).
  Definition P_mset (s : state) : Prop :=
    forall x, cnt x (written s) = sumZ (fs s x) slots + sumZ (ft s x) threads + cnt x (map snd (delivered s)).

  Lemma mset_thread s s' t x : (t < n)%nat -> (forall t', t' <> t -> ft s' x t' = ft s x t') ->
    sumZ (ft s' x) threads = sumZ (ft s x) threads - ftl (buf s) x (tls s t) + ftl (buf s') x (tls s' t).
  Proof.
    intros Hlt H. change (ftl (buf s) x (tls s t)) with (ft s x t). change (ftl (buf s') x (tls s' t)) with (ft s' x t).
    apply sumZ_point; [apply threads_NoDup|apply threads_In; exact Hlt|intros b _ Hb; apply H; exact Hb].
  Qed.
  Lemma mset_slot s s' a x : (a < size)%N -> (forall i, i <> a -> fs s' x i = fs s x i) ->
    sumZ (fs s' x) slots = sumZ (fs s x) slots - fs s x a + fs s' x a.
  Proof. intros Hlt H. apply sumZ_point; [apply slots_NoDup|apply slots_In; exact Hlt|intros b _ Hb; apply H; exact Hb]. Qed.
  Lemma mset_slot_same s s' x : (forall i, fs s' x i = fs s x i) -> sumZ (fs s' x) slots = sumZ (fs s x) slots.
  Proof. intro H. apply sumZ_ext. intros a _; apply H. Qed.
  Lemma cnt_snoc_snd x (dl : list (nat * N)) t v : cnt x (map snd (dl ++ [(t, v)])) = cnt x (map snd dl) + b2z (v =? x)%N.
  Proof. rewrite map_app, cnt_app. unfold cnt at 2. cbn. lia. Qed.
  Lemma cnt_snoc x l v : cnt x (l ++ [v]) = cnt x l + b2z (v =? x)%N.
  Proof. rewrite cnt_app. unfold cnt at 2. cbn. lia. Qed.

  Local Arguments fs : simpl never.
  Local Arguments ft : simpl never.

  Lemma claim_holds l i : claim l = Some i -> holds l = Some i.
  Proof. unfold claim. destruct (copied l); [discriminate|auto]. Qed.
  Lemma fs_CR s x i : flags s i = FLAG_CAN_READ -> fs s x i = b2z (buf s i =? x)%N.
  Proof. unfold fs. intros ->. rewrite CR_eqb_CR. reflexivity. Qed.
  Lemma fs_notCR s x i : flags s i <> FLAG_CAN_READ -> fs s x i = 0.
  Proof. unfold fs. intro H. apply N.eqb_neq in H. rewrite H. reflexivity. Qed.

  Ltac frame_same := intros ? Hne'; unfold ft; cbn [tls buf set_tl]; rewrite updt_other by exact Hne'; reflexivity.

  Lemma P_mset_step s e : Inv1 s -> P_mset s -> P_mset (step s e).
  Proof.
    intros HI Hm. apply step_cases; [exact Hm| |].
    - intros t o Hlt Hmd Ha x. specialize (Hm x).
      rewrite (mset_thread s _ t x Hlt) by frame_same.
      rewrite (mset_slot_same s _ x) by reflexivity.
      cbn [tls set_tl]. rewrite updt_same. unfold ftl, claim, copied, holds. rewrite Hmd.
      destruct o; cbn; lia.
    - intros t m p r rs Hlt El. own_facts HI t r El.
      split_mp m p; norm; intros x; specialize (Hm x); use_own.
      (* steps that change neither flags nor buffer nor the ghost lists *)
      all: try solve [ rewrite (mset_thread s _ t x Hlt) by frame_same;
                       rewrite (mset_slot_same s _ x) by reflexivity;
                       cbn [tls buf]; rewrite updt_same, El; unfold ftl; cbn; case_ifs; cbn; lia ].
      all: flagfacts.
      (* Write 5: m_Buffer[a] = in *)
      1: { destruct Hg0 as [Hg0 Hsz].
           rewrite (mset_thread s _ t x Hlt).
           2:{ intros t' Hne'. unfold ft, ftl. cbn [tls buf]. rewrite updt_other by exact Hne'.
               destruct (claim (tls s t')) as [i|] eqn:Ec; [|reflexivity].
               apply claim_holds in Ec. destruct (i_holds _ HI _ _ Ec) as [Hfl _].
               rewrite upd_other; [reflexivity|]. intros ->. congruence. }
           rewrite (mset_slot_same s _ x).
           2:{ intro i. destruct (N.eq_dec i (ract r)) as [->|Hia].
               - rewrite !fs_notCR; cbn [flags]; congruence.
               - unfold fs. cbn [flags buf]. rewrite upd_other by exact Hia. reflexivity. }
           cbn [tls buf]. rewrite updt_same, El. unfold ftl. cbn. lia. }
      (* Write 6: m_Flags[a] = FLAG_CAN_READ *)
      1: { destruct Hg0 as [Hg0 Hsz].
           rewrite (mset_thread s _ t x Hlt) by frame_same.
           rewrite (mset_slot s _ (ract r) x Hsz).
           2:{ intros i Hia. unfold fs. cbn [flags buf]. rewrite upd_other by exact Hia. reflexivity. }
           rewrite (fs_notCR s) by congruence. rewrite fs_CR by (cbn [flags]; apply upd_same).
           cbn [tls buf]. rewrite updt_same, El. unfold ftl. cbn. rewrite cnt_snoc, Hf0. lia. }
      (* the compare-and-swap (ReaderTryReadBack 9, WriterTryReadFront 11) *)
      1,4: destruct (flags s (ract r) =? FLAG_CAN_READ)%N eqn:E;
           [ apply N.eqb_eq in E;
             rewrite (mset_thread s _ t x Hlt) by frame_same;
             rewrite (mset_slot s _ (ract r) x) by
               (first [ apply Hr0; lia | intros i Hia; unfold fs; cbn [flags buf]; rewrite upd_other by exact Hia; reflexivity ]);
             rewrite (fs_CR s) by exact E; rewrite fs_notCR by (cbn [flags]; rewrite upd_same; congruence);
             cbn [tls buf]; rewrite updt_same, El; unfold ftl; cbn; rewrite E, CR_eqb_CR; cbn; lia
           | rewrite (mset_thread s _ t x Hlt) by frame_same;
             rewrite (mset_slot_same s _ x) by reflexivity;
             cbn [tls buf]; rewrite updt_same, El; unfold ftl; cbn; rewrite E; cbn; lia ].
      (* the copy out of the buffer *)
      1,3: rewrite (mset_thread s _ t x Hlt) by frame_same;
           rewrite (mset_slot_same s _ x) by reflexivity;
           cbn [tls buf]; rewrite updt_same, El; unfold ftl; cbn; rewrite cnt_snoc_snd; lia.
      (* the release of the slot *)
      all: destruct Hh0 as [Hh0 Hsz];
           rewrite (mset_thread s _ t x Hlt) by frame_same;
           rewrite (mset_slot_same s _ x) by
             (intro i; destruct (N.eq_dec i (ract r)) as [->|Hia];
              [ rewrite !fs_notCR; cbn [flags]; rewrite ?upd_same; congruence
              | unfold fs; cbn [flags buf]; rewrite upd_other by exact Hia; reflexivity ]);
           cbn [tls buf]; rewrite updt_same, El; unfold ftl; cbn; lia.
  Qed.

  (* ---------------------------------------------------------------- the owner's view of m_WriteIndex *)
  Definition own_ok (gw : N) (l : tl) : Prop :=
    match mode l with
    | Some MWrite => ((1 <= pc l <= 8)%nat -> rwi (rg l) = gw) /\ (pc l = 9%nat -> rwi (rg l) = ((gw + 1) mod MN)%N)
    | Some MFront => ((1 <= pc l <= 23)%nat -> rwi (rg l) = gw) /\ (pc l = 23%nat -> rtmp (rg l) = gw)
    | _ => True
    end.
  Definition L_own (s : state) : Prop := own_ok (gW s) (tls s 0%nat).

  Lemma L_own_step s e : L_roles s -> L_own s -> L_own (step s e).
  Proof.
    intros Hr H. apply step_cases; [exact H| |].
    - intros t o Hlt Hm Ha. unfold L_own. cbn [gW tls set_tl]. unfold updt.
      destruct (Nat.eqb_spec 0 t) as [<-|Hne]; [|exact H].
      destruct o; unfold own_ok; cbn; try exact I; split; intros; lia.
    - intros t m p r rs Hlt El. unfold L_own in *.
      destruct (Nat.eq_dec t 0) as [->|Hne].
      + rewrite El in H. unfold own_ok in H. cbn in H.
        split_mp m p; norm; rewrite ?updt_same; unfold own_ok; cbn; try exact I.
        all: try solve [case_ifs; cbn; try exact I; split; intros; try lia; try (apply H; lia)].
        all: try solve [split; intros; try lia; try reflexivity; try (destruct H as [H1 H2]; rewrite H1 by lia; reflexivity)].
      + destruct (Hr t Hne) as [Hm|Hm]; rewrite El in Hm; cbn in Hm; [discriminate|]. inversion Hm; subst m.
        apply not_eq_sym in Hne.
        do 21 (try (destruct p as [|p])); norm; rewrite updt_other by exact Hne; exact H.
  Qed.

  (* ---------------------------------------------------------------- counting *)
  Definition nA (s : state) : Z := sumZ (fun i => b2z (flags s i =? FLAG_CAN_READ)%N) slots.
  Definition nB (s : state) : Z := sumZ (fun t => b2z (aB (tls s t))) threads.
  Definition nC (s : state) : Z := sumZ (fun t => b2z (aC (tls s t))) threads.
  Definition nD (s : state) : Z := sumZ (fun t => b2z (aD (tls s t))) threads.
  Definition P_cnt (s : state) : Prop :=
    exists c, Z.of_N (gW s) + nD s - Z.of_N (gRC s) - nA s - nB s - nC s = c * MZ.

  Lemma sum_thread (f : tl -> Z) s s' t : (t < n)%nat -> (forall t', t' <> t -> tls s' t' = tls s t') ->
    sumZ (fun t' => f (tls s' t')) threads = sumZ (fun t' => f (tls s t')) threads - f (tls s t) + f (tls s' t).
  Proof.
    intros Hlt H. apply (sumZ_point threads (fun t' => f (tls s' t')) (fun t' => f (tls s t')) t);
      [apply threads_NoDup|apply threads_In; exact Hlt|intros b _ Hb; rewrite H by exact Hb; reflexivity].
  Qed.
  Lemma sum_slot s s' a : (a < size)%N -> (forall i, i <> a -> flags s' i = flags s i) ->
    nA s' = nA s - b2z (flags s a =? FLAG_CAN_READ)%N + b2z (flags s' a =? FLAG_CAN_READ)%N.
  Proof.
    intros Hlt H. unfold nA.
    apply (sumZ_point slots (fun i => b2z (flags s' i =? FLAG_CAN_READ)%N) (fun i => b2z (flags s i =? FLAG_CAN_READ)%N) a);
      [apply slots_NoDup|apply slots_In; exact Hlt|intros b _ Hb; rewrite H by exact Hb; reflexivity].
  Qed.
  Lemma Zmod_N (a : N) : exists q, Z.of_N (a mod MN) = Z.of_N a + q * MZ.
  Proof.
    exists (- Z.of_N (a / MN)). unfold MZ. pose proof (N.div_mod a MN) as H.
    assert (MN <> 0%N) by (unfold M; apply N.pow_nonzero; discriminate). specialize (H H0).
    assert (Z.of_N a = Z.of_N MN * Z.of_N (a / MN) + Z.of_N (a mod MN)) by lia. lia.
  Qed.

  Ltac frame_tls := intros ? Hne'; cbn [tls]; rewrite updt_other by exact Hne'; reflexivity.
  Ltac sums_thread s t Hlt El :=
    unfold nB, nC, nD;
    rewrite (sum_thread (fun l => b2z (aB l)) s _ t Hlt) by frame_tls;
    rewrite (sum_thread (fun l => b2z (aC l)) s _ t Hlt) by frame_tls;
    rewrite (sum_thread (fun l => b2z (aD l)) s _ t Hlt) by frame_tls;
    cbn [tls]; rewrite !updt_same, !El.

  Lemma P_cnt_step s e : Inv1 s -> L_own s -> P_cnt s -> P_cnt (step s e).
  Proof.
    intros HI Ho [c Hc]. apply step_cases; [exists c; exact Hc| |].
    - intros t o Hlt Hmd Ha. exists c. rewrite <- Hc. unfold P_cnt, set_tl.
      unfold nB, nC, nD;
      rewrite (sum_thread (fun l => b2z (aB l)) s _ t Hlt) by frame_tls;
      rewrite (sum_thread (fun l => b2z (aC l)) s _ t Hlt) by frame_tls;
      rewrite (sum_thread (fun l => b2z (aD l)) s _ t Hlt) by frame_tls;
      cbn [tls]; rewrite !updt_same.
      change (nA _) with (nA s). cbn [gW gRC]. unfold aB, aC, aD. rewrite Hmd.
      destruct o; cbn; unfold nB, nC, nD; lia.
    - intros t m p r rs Hlt El. own_facts HI t r El.
      split_mp m p; norm; use_own.
      all: unfold P_cnt; unfold nA, nB, nC, nD in Hc.
      all: try solve [ sums_thread s t Hlt El; unfold nA; cbn; case_ifs; cbn; exists c; lia ].
      all: flagfacts.
      all: assert (HMpos : (1 <= MN)%N) by (unfold M; pose proof (N.pow_nonzero 2 w); lia).
      (* Write 6: publish *)
      1: { destruct Hg0 as [Hg0 Hsz]. sums_thread s t Hlt El.
           rewrite (sum_slot s _ (ract r) Hsz) by (intros i Hia; cbn [flags]; rewrite upd_other by exact Hia; reflexivity).
           cbn [flags]. rewrite upd_same, Hg0, CR_eqb_CR, CR_eqb_CW. unfold nA. cbn. exists c. lia. }
      (* Write 9: m_WriteIndex = writeIndex *)
      1: { assert (t = 0%nat) as -> by (eapply (mode_owner s t _ (i_roles _ HI)); [rewrite El; reflexivity|discriminate]).
           unfold L_own in Ho. rewrite El in Ho. destruct Ho as [_ Ho]. cbn in Ho. specialize (Ho eq_refl).
           sums_thread s 0%nat Hlt El. unfold nA. cbn. rewrite Ho.
           destruct (Zmod_N (gW s + 1)) as [q Hq]. rewrite Hq. exists (c + q). rewrite Z.mul_add_distr_r. lia. }
      (* the compare-and-swap *)
      1,4: destruct (flags s (ract r) =? FLAG_CAN_READ)%N eqn:E;
           [ sums_thread s t Hlt El;
             rewrite (sum_slot s _ (ract r)) by
               (first [ apply Hr0; lia | intros i Hia; cbn [flags]; rewrite upd_other by exact Hia; reflexivity ]);
             cbn [flags]; rewrite upd_same, E, INV_eqb_CR; unfold nA; cbn; rewrite E; cbn; exists c; lia
           | sums_thread s t Hlt El; unfold nA; cbn; rewrite E; cbn; exists c; lia ].
      (* AtomicAdd( &m_ReadCount, 1 ) *)
      1: { sums_thread s t Hlt El. unfold nA. cbn.
           destruct (Zmod_N (gRC s + 1)) as [q Hq]. rewrite Hq. exists (c - q). rewrite Z.mul_sub_distr_r. lia. }
      (* the release of the slot *)
      1,2: destruct Hh0 as [Hh0 Hsz]; sums_thread s t Hlt El;
           rewrite (sum_slot s _ (ract r) Hsz) by (intros i Hia; cbn [flags]; rewrite upd_other by exact Hia; reflexivity);
           cbn [flags]; rewrite upd_same, Hh0, INV_eqb_CR, CR_eqb_CW; unfold nA; cbn; exists c; lia.
      (* --m_WriteIndex *)
      assert (t = 0%nat) as -> by (eapply (mode_owner s t _ (i_roles _ HI)); [rewrite El; reflexivity|discriminate]).
      unfold L_own in Ho. rewrite El in Ho. destruct Ho as [_ Ho]. cbn in Ho. specialize (Ho eq_refl).
      sums_thread s 0%nat Hlt El. unfold nA. cbn. rewrite Ho.
      destruct (Zmod_N (gW s + (MN - 1))) as [q Hq]. rewrite Hq. exists (c + q + 1). rewrite !Z.mul_add_distr_r. unfold MZ in *. lia.
  Qed.

  (* ---------------------------------------------------------------- the invariant, every reachable state *)
  Record Inv (s : state) : Prop := {
    inv1 : Inv1 s; inv_mset : P_mset s; inv_own : L_own s; inv_cnt : P_cnt s }.

  Lemma sumZ_const0 {A} (l : list A) : sumZ (fun _ => 0) l = 0.
  Proof. apply sumZ_zero; reflexivity. Qed.

  Lemma Inv_preset v : Inv (preset init v).
  Proof.
    constructor.
    - constructor.
      + intros t _; left; reflexivity.
      + intro t; exact I.
      + intros t i; cbn; discriminate.
      + intros t1 t2 i; cbn; discriminate.
      + intros t i; cbn; discriminate.
      + intros t; cbn; discriminate.
    - intro x. unfold preset, init, ft, ftl, fs. cbn. rewrite CR_eqb_CW. cbn. rewrite !sumZ_const0. reflexivity.
    - exact I.
    - exists 0. unfold nA, nB, nC, nD, preset, init. cbn. rewrite CR_eqb_CW. cbn. rewrite !sumZ_const0. lia.
  Qed.
  Lemma Inv_init : Inv init.
  Proof. exact (Inv_preset 0). Qed.

  Lemma Inv_step s e : Inv s -> Inv (step s e).
  Proof.
    intros [H1 H2 H3 H4]. constructor.
    - apply Inv1_step, H1.
    - apply P_mset_step; assumption.
    - apply L_own_step; [apply H1|assumption].
    - apply P_cnt_step; assumption.
  Qed.

  Lemma run_app sched1 sched2 s : run k w n (sched1 ++ sched2) s = run k w n sched2 (run k w n sched1 s).
  Proof. unfold run, run_gen. apply fold_left_app. Qed.

  Lemma Inv_run sched s : Inv s -> Inv (run k w n sched s).
  Proof.
    revert s. induction sched as [|e r IH]; intros s H; [exact H|]. cbn. apply IH. apply Inv_step, H.
  Qed.

  Lemma reachable_Inv s : reachable k w n s -> Inv s.
  Proof. intros [sched ->]. apply Inv_run, Inv_init. Qed.

  Lemma reachable_step s e : reachable k w n s -> reachable k w n (step s e).
  Proof. intros [sched ->]. exists (sched ++ [e]). rewrite run_app. reflexivity. Qed.

  Lemma solo_S f t s : solo k w n (S f) t s =
    match mode (tls s t) with None => Some s | Some _ => solo k w n f t (step s (t, OpRead)) end.
  Proof. reflexivity. Qed.
  Lemma solo_0 t s : solo k w n 0 t s = match mode (tls s t) with None => Some s | Some _ => None end.
  Proof. reflexivity. Qed.

  Lemma reachable_solo fuel t s s' : reachable k w n s -> solo k w n fuel t s = Some s' -> reachable k w n s'.
  Proof.
    revert s. induction fuel as [|f IH]; intros s Hr.
    - rewrite solo_0. destruct (mode (tls s t)); [discriminate|]. intro E; inversion E; subst; exact Hr.
    - rewrite solo_S. destruct (mode (tls s t)); [|intro E; inversion E; subst; exact Hr].
      apply IH. apply reachable_step, Hr.
  Qed.

  Lemma run_seq_cons fuel e r s : run_seq k w n fuel (e :: r) s =
    match solo k w n fuel (fst e) (step s e) with
    | Some s' => let (s'', os) := run_seq k w n fuel r s' in (s'', res (tls s' (fst e)) :: os)
    | None => (s, [None])
    end.
  Proof.
    destruct e as [t o]. unfold run_seq. cbn [run_seq_gen]. unfold run_op_gen. cbn [fst].
    change (solo_gen k w n prog_of fuel t (step_gen k w n prog_of s (t, o))) with (solo k w n fuel t (step s (t, o))).
    destruct (solo k w n fuel t (step s (t, o))); reflexivity.
  Qed.

  Lemma reachable_run_seq fuel ops s : reachable k w n s -> reachable k w n (fst (run_seq k w n fuel ops s)).
  Proof.
    revert s. induction ops as [|e r IH]; intros s Hr; [exact Hr|].
    rewrite run_seq_cons. destruct (solo k w n fuel (fst e) (step s e)) as [s'|] eqn:E; [|exact Hr].
    specialize (IH s'). destruct (run_seq k w n fuel r s') as [s'' os] eqn:E2. cbn [fst] in *.
    apply IH. eapply reachable_solo; [|exact E]. apply reachable_step, Hr.
  Qed.

  (* ---------------------------------------------------------------- (a) hand-off safety *)
  Lemma cnt_cons x a l : cnt x (a :: l) = b2z (a =? x)%N + cnt x l.
  Proof. reflexivity. Qed.
  Lemma cnt_in_pipe_gen (p : N -> bool) (bf : N -> N) x l :
    cnt x (map bf (filter p l)) = sumZ (fun i => b2z (p i && (bf i =? x)%N)) l.
  Proof.
    induction l as [|a l IH]; [reflexivity|]. cbn [filter sumZ]. destruct (p a); cbn [map andb].
    - rewrite cnt_cons, IH. reflexivity.
    - rewrite IH. cbn. lia.
  Qed.
  Lemma cnt_in_pipe s x : cnt x (in_pipe k s) = sumZ (fs s x) slots.
  Proof. unfold in_pipe. rewrite cnt_in_pipe_gen. reflexivity. Qed.
  Lemma cnt_flat_map {A} (g : A -> list N) x l : cnt x (flat_map g l) = sumZ (fun a => cnt x (g a)) l.
  Proof. induction l as [|a l IH]; [reflexivity|]. cbn [flat_map sumZ]. rewrite cnt_app, IH. reflexivity. Qed.
  Lemma cnt_claimed s x : cnt x (claimed n s) = sumZ (ft s x) threads.
  Proof.
    unfold claimed. rewrite cnt_flat_map. apply sumZ_ext. intros t _. unfold ft, ftl.
    destruct (claim (tls s t)); cbn; [unfold cnt; cbn; lia|reflexivity].
  Qed.

  Lemma handoff_multiset s : reachable k w n s ->
    Permutation (written s) (in_pipe k s ++ claimed n s ++ map snd (delivered s)).
  Proof.
    intro Hr. apply cnt_perm. intro x. rewrite !cnt_app, cnt_in_pipe, cnt_claimed.
    pose proof (inv_mset _ (reachable_Inv s Hr) x). lia.
  Qed.

  Lemma handoff_exactly_one s : reachable k w n s -> NoDup (written s) ->
    NoDup (in_pipe k s ++ claimed n s ++ map snd (delivered s)).
  Proof. intros Hr Hnd. eapply Permutation_NoDup; [apply handoff_multiset; exact Hr|exact Hnd]. Qed.

  Lemma NoDup_app_r {A} (l1 l2 : list A) : NoDup (l1 ++ l2) -> NoDup l2.
  Proof. induction l1 as [|a l IH]; [auto|]. cbn. intro H. inversion H; subst. apply IH; assumption. Qed.

  Lemma delivered_once s : reachable k w n s -> NoDup (written s) -> NoDup (map snd (delivered s)).
  Proof.
    intros Hr Hnd. pose proof (handoff_exactly_one s Hr Hnd) as H.
    apply NoDup_app_r in H. apply NoDup_app_r in H. exact H.
  Qed.

  Lemma delivered_was_written s t x : reachable k w n s -> In (t, x) (delivered s) -> In x (written s).
  Proof.
    intros Hr Hin. eapply Permutation_in; [apply Permutation_sym, handoff_multiset; exact Hr|].
    apply in_or_app; right. apply in_or_app; right. apply in_map_iff. exists (t, x). split; [reflexivity|exact Hin].
  Qed.

  Lemma written_accounted s x : reachable k w n s -> In x (written s) ->
    In x (in_pipe k s) \/ In x (claimed n s) \/ In x (map snd (delivered s)).
  Proof.
    intros Hr Hin. pose proof (Permutation_in _ (handoff_multiset s Hr) Hin) as H.
    apply in_app_or in H. destruct H as [H|H]; [left; exact H|]. apply in_app_or in H. right; exact H.
  Qed.

  (* the writer stores into m_Buffer[a] (instruction 5 of WriterTryWriteFront) only when slot a is free:
     flag FLAG_CAN_WRITE, so not readable and not claimed by anybody *)
  Lemma writer_never_overwrites s t r rs : reachable k w n s -> tls s t = mkTl (Some MWrite) 5 r rs ->
    flags s (ract r) = FLAG_CAN_WRITE /\ ~ In (ract r) (filter (can_read s) slots) /\
    (forall t', holds (tls s t') <> Some (ract r)).
  Proof.
    intros Hr El. pose proof (inv1 _ (reachable_Inv s Hr)) as HI.
    pose proof (i_guard _ HI t (ract r)) as Hg. rewrite El in Hg. destruct (Hg eq_refl) as [Hfl _].
    split; [exact Hfl|split].
    - intro Hin. apply filter_In in Hin. destruct Hin as [_ Hc]. unfold can_read in Hc. apply N.eqb_eq in Hc.
      rewrite Hfl in Hc. symmetry in Hc. exact (CR_ne_CW Hc).
    - intros t' Hh. destruct (i_holds _ HI _ _ Hh) as [Hfl' _]. rewrite Hfl in Hfl'. exact (CW_ne_INV Hfl').
  Qed.

  (* a claimant copies m_Buffer[a] out (instruction 17 of ReaderTryReadBack, 19 of WriterTryReadFront) only
     while it holds the claim: the flag is FLAG_INVALID, nobody else holds the slot, the writer is not about to write it *)
  Lemma claimant_reads_under_claim s t m p r rs : reachable k w n s -> tls s t = mkTl (Some m) p r rs ->
    (m = MReader /\ p = 17%nat) \/ (m = MFront /\ p = 19%nat) ->
    flags s (ract r) = FLAG_INVALID /\
    (forall t', holds (tls s t') = Some (ract r) -> t' = t) /\
    (forall t', guard (tls s t') <> Some (ract r)).
  Proof.
    intros Hr El Hp. pose proof (inv1 _ (reachable_Inv s Hr)) as HI.
    assert (Hh : holds (tls s t) = Some (ract r)) by (rewrite El; destruct Hp as [[-> ->]|[-> ->]]; reflexivity).
    destruct (i_holds _ HI _ _ Hh) as [Hfl _]. split; [exact Hfl|split].
    - intros t' Hh'. apply (i_uniq _ HI t' t _ Hh' Hh).
    - intros t' Hg. destruct (i_guard _ HI _ _ Hg) as [Hfl' _]. rewrite Hfl in Hfl'. symmetry in Hfl'. exact (CW_ne_INV Hfl').
  Qed.

  Lemma claims_exclusive s t1 t2 i : reachable k w n s ->
    holds (tls s t1) = Some i -> holds (tls s t2) = Some i -> t1 = t2.
  Proof. intros Hr. apply (i_uniq _ (inv1 _ (reachable_Inv s Hr))). Qed.

  (* what is published is the argument of the write *)
  Lemma publish_is_argument s t r rs : reachable k w n s -> tls s t = mkTl (Some MWrite) 6 r rs ->
    buf s (ract r) = rin r.
  Proof.
    intros Hr El. pose proof (i_fill _ (inv1 _ (reachable_Inv s Hr)) t) as H. rewrite El in H. apply H. reflexivity.
  Qed.

  (* ---------------------------------------------------------------- (b) bookkeeping at quiescence *)
  Lemma nA_filter s : nA s = Z.of_nat (length (filter (can_read s) slots)).
  Proof.
    unfold nA, can_read. induction slots as [|a l IH]; [reflexivity|]. cbn [sumZ filter].
    destruct (flags s a =? FLAG_CAN_READ)%N; cbn [b2z length]; lia.
  Qed.
  Lemma filter_len_le {A} (p : A -> bool) l : (length (filter p l) <= length l)%nat.
  Proof. induction l as [|a l IH]; [auto|]. cbn. destruct (p a); cbn; lia. Qed.
  Lemma nA_bound s : 0 <= nA s <= Z.of_N size.
  Proof.
    rewrite nA_filter. pose proof (filter_len_le (can_read s) slots) as H. rewrite slots_length in H. lia.
  Qed.
  Lemma quiescent_sums s : quiescent n s -> nB s = 0 /\ nC s = 0 /\ nD s = 0.
  Proof.
    intro Hq. unfold nB, nC, nD, aB, aC, aD. repeat split; apply sumZ_zero; intros t Ht; apply threads_In in Ht; rewrite (Hq t Ht); reflexivity.
  Qed.

  Lemma bookkeeping s : reachable k w n s -> quiescent n s ->
    ((gW s + (MN - gRC s mod MN)) mod MN)%N = n_can_read k s /\ (n_can_read k s <= size)%N.
  Proof.
    intros Hr Hq. destruct (inv_cnt _ (reachable_Inv s Hr)) as [c Hc].
    destruct (quiescent_sums s Hq) as [HB [HC HD]]. rewrite HB, HC, HD in Hc.
    pose proof (nA_bound s) as Hb. pose proof size_lt_M as Hsz. pose proof MZ_pos as HM.
    assert (HnA : nA s = Z.of_N (n_can_read k s)) by (rewrite nA_filter; unfold n_can_read; lia).
    split; [|lia].
    assert (HMN : MN <> 0%N) by (unfold MZ in HM; lia).
    pose proof (N.mod_upper_bound (gRC s) MN HMN) as Hub.
    apply N2Z.inj. rewrite N2Z.inj_mod, N2Z.inj_add, N2Z.inj_sub by lia. rewrite N2Z.inj_mod. fold MZ.
    rewrite <- HnA.
    rewrite (Z.mod_eq (Z.of_N (gRC s)) MZ) by lia.
    replace (Z.of_N (gW s) + (MZ - (Z.of_N (gRC s) - MZ * (Z.of_N (gRC s) / MZ))))
      with (nA s + (c + 1 + Z.of_N (gRC s) / MZ) * MZ) by (rewrite !Z.mul_add_distr_r; lia).
    rewrite Z_mod_plus_full. apply Z.mod_small. unfold MZ. lia.
  Qed.

  Lemma is_pipe_empty_exact s : reachable k w n s -> quiescent n s ->
    is_pipe_empty w s = true <-> in_pipe k s = [].
  Proof.
    intros Hr Hq. destruct (bookkeeping s Hr Hq) as [Hb _]. unfold is_pipe_empty. rewrite Hb.
    unfold n_can_read, in_pipe. destruct (filter (can_read s) slots) as [|a l]; cbn [length map].
    - split; reflexivity.
    - split; [intro H; apply N.eqb_eq in H; lia|discriminate].
  Qed.
  Lemma quiescentb_quiescent s : quiescentb n s = true <-> quiescent n s.
  Proof.
    unfold quiescentb, quiescent. rewrite forallb_forall. split.
    - intros H t Ht. specialize (H t (proj2 (threads_In t) Ht)). destruct (mode (tls s t)); [discriminate|reflexivity].
    - intros H t Ht. rewrite (H t (proj1 (threads_In t) Ht)). reflexivity.
  Qed.

  (* a solo run is deterministic: its outcome does not depend on the fuel once it suffices *)
  Lemma solo_det f1 f2 t s a b : solo k w n f1 t s = Some a -> solo k w n f2 t s = Some b -> a = b.
  Proof.
    revert f2 s. induction f1 as [|f1 IH]; intros f2 s.
    - rewrite solo_0. destruct f2 as [|f2]; [rewrite solo_0|rewrite solo_S]; destruct (mode (tls s t)); try discriminate; congruence.
    - rewrite solo_S. destruct f2 as [|f2]; [rewrite solo_0|rewrite solo_S]; destruct (mode (tls s t)); try discriminate; try congruence.
      apply IH.
  Qed.
  Lemma run_op_det f1 f2 s e a ra b rb :
    run_op k w n f1 s e = Some (a, ra) -> run_op k w n f2 s e = Some (b, rb) -> ra = rb.
  Proof.
    unfold run_op, run_op_gen. destruct e as [t o].
    change (solo_gen k w n prog_of ?f t ?x) with (solo k w n f t x).
    destruct (solo k w n f1 t _) as [a'|] eqn:E1; [|discriminate].
    destruct (solo k w n f2 t _) as [b'|] eqn:E2; [|discriminate].
    intros H1 H2. inversion H1; inversion H2; subst. rewrite (solo_det _ _ _ _ _ _ E1 E2). reflexivity.
  Qed.
End Proofs.

(* ------------------------------------------------------------------ (c) no stranded item: the statement *)
(* FULL statement: in every quiescent reachable state with at least one readable slot, a solo
   ReaderTryReadBack (by any reader) and a solo WriterTryReadFront both return true with an item that was queued. *)
Definition no_stranded_item (k w : N) (n : nat) : Prop :=
  forall s, reachable k w n s -> quiescent n s -> in_pipe k s <> [] ->
    (forall t, (0 < t < n)%nat ->
       exists fuel s' x, run_op k w n fuel s (t, OpRead) = Some (s', Some (true, x)) /\ In x (in_pipe k s)) /\
    (exists fuel s' x, run_op k w n fuel s (0%nat, OpFront) = Some (s', Some (true, x)) /\ In x (in_pipe k s)).

(* the same, restricted to histories in which m_WriteIndex cannot have wrapped (fewer than 2^w - 1 published writes).
   NOT PROVED (see DESIGN 9.3 "C01/C02 pipe": it needs the position invariant "every FLAG_CAN_READ slot i was
   published at a position p = gpos i with m_ReadIndex <= p < m_WriteIndex, p & mask = i, exact (not modular)
   index arithmetic"); it is TESTED by the exhaustive exploration of this model for small scopes (pipe_check.py). *)
Definition no_stranded_item_nowrap (k w : N) (n : nat) : Prop :=
  forall s, reachable k w n s -> quiescent n s -> in_pipe k s <> [] ->
    (N.of_nat (length (written s)) < 2 ^ w - 1)%N ->
    (forall t, (0 < t < n)%nat ->
       exists fuel s' x, run_op k w n fuel s (t, OpRead) = Some (s', Some (true, x)) /\ In x (in_pipe k s)) /\
    (exists fuel s' x, run_op k w n fuel s (0%nat, OpFront) = Some (s', Some (true, x)) /\ In x (in_pipe k s)).

(* ------------------------------------------------------------------ concrete schedules (vm_compute) *)
Definition rep (c : nat) (e : event) : list event := repeat e c.

(* index width 3 bits, 2 slots: six write/read pairs, then two writes: m_WriteIndex wraps to 0 with two items queued *)
Definition ops_wrap3 : list event :=
  [(0,OpWrite 1);(1,OpRead);(0,OpWrite 2);(1,OpRead);(0,OpWrite 3);(1,OpRead);(0,OpWrite 4);(1,OpRead);
   (0,OpWrite 5);(1,OpRead);(0,OpWrite 6);(1,OpRead);(0,OpWrite 7);(0,OpWrite 8)]%nat.
Definition st_wrap3 : state := fst (run_seq 1 3 2 200 ops_wrap3 init).

Lemma st_wrap3_facts :
  quiescentb 2 st_wrap3 = true /\ in_pipe 1 st_wrap3 = [7; 8]%N /\
  option_map snd (run_op 1 3 2 200 st_wrap3 (0%nat, OpFront)) = Some (Some (false, 0%N)) /\
  (let s1 := fst (run_seq 1 3 2 200 [(1%nat, OpRead)] st_wrap3) in
   in_pipe 1 s1 = [8%N] /\ quiescentb 2 s1 = true /\ run_op 1 3 2 5000 s1 (1%nat, OpRead) = None).
Proof. vm_compute. repeat split. Qed.

Lemma no_stranded_item_refuted : ~ no_stranded_item 1 3 2.
Proof.
  intro H. destruct st_wrap3_facts as [Hq [Hin [Hf _]]].
  assert (Hr : reachable 1 3 2 st_wrap3).
  { apply (reachable_run_seq 1 3 2). exists []. reflexivity. }
  apply (quiescentb_quiescent 1 3 2 eq_refl) in Hq.
  destruct (H st_wrap3 Hr Hq) as [_ [fuel [s' [x [Hrun _]]]]]; [rewrite Hin; discriminate|].
  destruct (run_op 1 3 2 200 st_wrap3 (0%nat, OpFront)) as [[s0 r0]|] eqn:E; [|discriminate].
  cbn in Hf. inversion Hf as [Hf']. subst r0.
  pose proof (run_op_det 1 3 2 _ _ _ _ _ _ _ _ Hrun E) as Hd. discriminate.
Qed.

(* the same at the real index width, from the quiescent empty state with the three indices pre-advanced to 2^32 - 2
   (that state satisfies the invariant: Inv_preset; it is what 2^32 - 2 write/steal pairs lead to) *)
Definition st_wrap32 : state := fst (run_seq 1 32 2 200 [(0,OpWrite 1);(0,OpWrite 2)]%nat (preset init 4294967294)).
Lemma wrap32_facts :
  quiescentb 2 st_wrap32 = true /\ in_pipe 1 st_wrap32 = [1; 2]%N /\ obs 1 st_wrap32 = ((0, 4294967294, 4294967294), [FLAG_CAN_READ; FLAG_CAN_READ])%N /\
  option_map snd (run_op 1 32 2 200 st_wrap32 (0%nat, OpFront)) = Some (Some (false, 0%N)) /\
  (let s1 := fst (run_seq 1 32 2 200 [(1%nat, OpRead)] st_wrap32) in
   in_pipe 1 s1 = [2%N] /\ quiescentb 2 s1 = true /\ run_op 1 32 2 5000 s1 (1%nat, OpRead) = None).
Proof. vm_compute. repeat split. Qed.

(* (d) the claim must be the compare-and-swap: with a plain check followed by a store one written item is delivered twice *)
Definition sched_reader_cts : list event :=
  rep 11 (0%nat, OpWrite 5) ++ rep 9 (1%nat, OpRead) ++ rep 17 (2%nat, OpRead) ++ rep 8 (1%nat, OpRead).
Lemma reader_check_then_store_refuted :
  let s := run_gen 1 32 3 prog_of_cts_reader sched_reader_cts init in
  written s = [5%N] /\ delivered s = [(2%nat, 5%N); (1%nat, 5%N)] /\ quiescentb 3 s = true /\
  obs 1 s = ((1, 2, 0), [FLAG_CAN_WRITE; FLAG_CAN_WRITE])%N.
Proof. vm_compute. repeat split. Qed.

Definition sched_front_cts : list event :=
  rep 11 (0%nat, OpWrite 5) ++ rep 11 (0%nat, OpFront) ++ rep 16 (1%nat, OpRead) ++ rep 4 (0%nat, OpFront).
Lemma front_check_then_store_refuted :
  let s := run_gen 1 32 2 prog_of_cts_front sched_front_cts init in
  written s = [5%N] /\ delivered s = [(1%nat, 5%N); (0%nat, 5%N)].
Proof. vm_compute. repeat split. Qed.

Definition sched_front_fast : list event :=
  rep 11 (0%nat, OpWrite 5) ++ rep 11 (0%nat, OpWrite 6) ++ rep 9 (1%nat, OpRead) ++ rep 18 (2%nat, OpRead)
  ++ rep 12 (0%nat, OpFront) ++ rep 6 (2%nat, OpRead) ++ rep 6 (0%nat, OpFront).
Lemma front_fast_path_refuted :
  let s := run_gen 1 32 3 prog_of_fast_front sched_front_fast init in
  written s = [5; 6]%N /\ delivered s = [(2%nat, 6%N); (0%nat, 6%N)].
Proof. vm_compute. repeat split. Qed.

(* the same schedules on the real tables deliver every item at most once (they are instances of delivered_once) *)
Lemma real_tables_on_those_schedules :
  map snd (delivered (run 1 32 3 sched_reader_cts init)) = [5%N] /\
  map snd (delivered (run 1 32 2 sched_front_cts init)) = [5%N] /\
  NoDup (map snd (delivered (run 1 32 3 sched_front_fast init))).
Proof. vm_compute. repeat split. repeat constructor; cbn; intuition discriminate. Qed.
