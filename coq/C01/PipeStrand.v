(* C01/C02 — LockLessMultiReadPipe, clause (c) "no stranded item" in the regime where the indices have not wrapped.
   The position invariant over the ghost positions gpos (write position at which a slot was last published), with
   EXACT index arithmetic under the side condition NW (fewer than 2^w - 1 published writes), preserved by every
   micro-step of every thread; from it, at quiescence, the terminating-scan argument for a solo ReaderTryReadBack and a
   solo WriterTryReadFront. *)
From Common Require Import Prelude.
From Coq Require Import Permutation.
From C01 Require Import Pipe PipeProofs.
Local Open Scope Z_scope.

Local Arguments N.eqb : simpl never.
Local Arguments N.leb : simpl never.
Local Arguments N.land : simpl never.
Local Arguments N.modulo : simpl never.
Local Arguments N.add : simpl never.
Local Arguments N.sub : simpl never.
Local Arguments N.pow : simpl never.
Local Arguments N.ones : simpl never.
Local Arguments Z.of_N : simpl never.
Local Arguments Z.add : simpl never.
Local Arguments Z.sub : simpl never.
Local Arguments Z.modulo : simpl never.
Local Arguments Nat.eqb : simpl nomatch.

Lemma sumZ_ge_point {A} (f : A -> Z) l a : (forall b, 0 <= f b) -> In a l -> f a <= sumZ f l.
Proof.
  intros Hf. induction l as [|c l IH]; intro Hin; [destruct Hin|]. cbn.
  destruct Hin as [->|Hin]; [pose proof (sumZ_nonneg f l Hf); lia|]. specialize (IH Hin). specialize (Hf c). lia.
Qed.
Lemma sumZ_zero_inv {A} (f : A -> Z) l : (forall b, 0 <= f b) -> sumZ f l = 0 -> forall a, In a l -> f a = 0.
Proof.
  intros Hf H a Hin. pose proof (sumZ_ge_point f l a Hf Hin). specialize (Hf a). lia.
Qed.
Lemma b2z_nonneg b : 0 <= b2z b. Proof. destruct b; cbn; lia. Qed.
Lemma cr_upd v : v <> FLAG_CAN_READ -> forall (f : N -> N) a i, upd f a v i = FLAG_CAN_READ -> f i = FLAG_CAN_READ /\ i <> a.
Proof.
  intros Hv f a i. unfold upd. destruct (N.eqb_spec i a) as [->|Hne]; intro H; [contradiction|]. split; assumption.
Qed.

Lemma cr_upd_INV (f : N -> N) a i : upd f a FLAG_INVALID i = FLAG_CAN_READ -> f i = FLAG_CAN_READ.
Proof. intro H. apply (cr_upd FLAG_INVALID) in H; [tauto|]. intro E. symmetry in E. exact (CR_ne_INV E). Qed.
Lemma cr_upd_CW (f : N -> N) a i : upd f a FLAG_CAN_WRITE i = FLAG_CAN_READ -> f i = FLAG_CAN_READ.
Proof. intro H. apply (cr_upd FLAG_CAN_WRITE) in H; [tauto|]. intro E. symmetry in E. exact (CR_ne_CW E). Qed.

Section Strand.
  Variable k w : N.
  Variable n : nat.
  Hypothesis Hkw : (k < w)%N.

  Notation step := (step k w n).
  Notation exec := (exec k w).
  Notation size := (size k).
  Notation slots := (slots k).
  Notation threads := (threads n).
  Notation MN := (M w).
  Notation MZ := (PipeProofs.MZ w).
  Notation nA := (PipeProofs.nA k).
  Notation nB := (PipeProofs.nB n).
  Notation nC := (PipeProofs.nC n).
  Notation nD := (PipeProofs.nD n).
  Notation Inv := (PipeProofs.Inv k w n).
  Notation msk := (mask k).

  Lemma MN_pos : (0 < MN)%N. Proof. unfold M. apply N.neq_0_lt_0, N.pow_nonzero. discriminate. Qed.
  Lemma MZ_MN : MZ = Z.of_N MN. Proof. reflexivity. Qed.
  Lemma add1_exact a : (Z.of_N a + 1 < MZ) -> ((a + 1) mod MN = a + 1)%N.
  Proof. intro H. apply N.mod_small. rewrite MZ_MN in H. lia. Qed.
  Lemma sub1_exact a : (1 <= a)%N -> (a < MN)%N -> ((a + (MN - 1)) mod MN = a - 1)%N.
  Proof.
    intros H1 H2. replace (a + (MN - 1))%N with ((a - 1) + 1 * MN)%N by lia.
    rewrite N.mod_add by lia. apply N.mod_small. lia.
  Qed.
  Lemma sub_zero_eq a b : (a < MN)%N -> (b < MN)%N -> ((a + (MN - b mod MN)) mod MN = 0)%N -> a = b.
  Proof.
    intros Ha Hb H. rewrite (N.mod_small b) in H by exact Hb.
    destruct (N.lt_ge_cases a b) as [Hlt|Hge].
    - rewrite N.mod_small in H by lia. lia.
    - replace (a + (MN - b))%N with ((a - b) + 1 * MN)%N in H by lia. rewrite N.mod_add in H by lia.
      rewrite N.mod_small in H by lia. lia.
  Qed.

  (* ---------------------------------------------------------------- the side condition and the window *)
  Definition KW (s : state) : Z := Z.of_nat (length (written s)).
  Definition NW (s : state) : Prop := KW s < MZ - 1.
  (* exclusive upper end of the positions of readable slots: m_WriteIndex, +1 while the owner has published and not yet
     stored the index, -1 while the owner has claimed at the front and not yet decremented the index *)
  Definition wlim (s : state) : Z := Z.of_N (gW s) + b2z (aD (tls s 0%nat)) - b2z (aC (tls s 0%nat)).

  Definition front_lo (l : tl) : option Z :=
    match mode l with
    | Some MFront =>
        match pc l with
        | 2%nat | 3%nat | 4%nat | 5%nat | 6%nat | 7%nat | 8%nat | 9%nat | 14%nat | 15%nat | 16%nat | 17%nat | 18%nat => Some (Z.of_N (ridx (rg l)))
        | 10%nat | 11%nat => Some (Z.of_N (ridx (rg l)) + 1)
        | 12%nat => if (rprev (rg l) =? FLAG_CAN_READ)%N then None else Some (Z.of_N (ridx (rg l)))
        | _ => None
        end
    | _ => None
    end.

  (* facts about the owner's registers *)
  Definition own_regs (s : state) (l : tl) : Prop :=
    match mode l with
    | Some MFront =>
        ((5 <= pc l <= 7)%nat -> (rrc (rg l) <= gRC s)%N) /\
        (pc l = 6%nat -> rnum (rg l) = ((rwi (rg l) + (MN - rrc (rg l) mod MN)) mod MN)%N) /\
        (pc l = 7%nat -> rrc (rg l) = rwi (rg l) \/ ridx (rg l) = 0%N) /\
        (pc l = 9%nat -> ridx (rg l) <> 0%N) /\
        (pc l = 11%nat -> ract (rg l) = N.land (ridx (rg l)) msk)
    | Some MWrite => ((2 <= pc l <= 6)%nat -> ract (rg l) = N.land (rwi (rg l)) msk)
    | _ => True
    end.

  Record XJ (s : state) : Prop := {
    x_bW : (gW s < MN)%N; x_bRC : (gRC s < MN)%N; x_bRI : (gRI s < MN)%N;
    x_E : Z.of_N (gW s) + nD s = Z.of_N (gRC s) + nA s + nB s + nC s;
    x_U : Z.of_N (gW s) + nD s <= KW s;
    x_J1 : forall i, (i < size)%N -> flags s i = FLAG_CAN_READ ->
             Z.of_N (gRI s) <= Z.of_N (gpos s i) < wlim s /\ N.land (gpos s i) msk = i;
    x_J4 : Z.of_N (gRI s) <= wlim s;
    x_lo : match front_lo (tls s 0%nat) with
           | Some lo => lo <= Z.of_N (gW s) /\ forall i, (i < size)%N -> flags s i = FLAG_CAN_READ -> Z.of_N (gpos s i) < lo
           | None => True end;
    x_regs : own_regs s (tls s 0%nat)
  }.

  (* ---------------------------------------------------------------- tactics (as in PipeProofs) *)
  Ltac split_mp m p :=
    destruct m; [ do 12 (try (destruct p as [|p])) | do 21 (try (destruct p as [|p])) | do 26 (try (destruct p as [|p])) ].
  Ltac norm :=
    cbn; rewrite ?CR_eqb_CR, ?CR_eqb_CW; unfold set_tl, setg, next, goto, setreg; cbn.
  Ltac flagfacts := pose proof CR_ne_CW as Fa; pose proof CR_ne_INV as Fb; pose proof CW_ne_INV as Fc.
  Ltac eqbs := repeat match goal with
     | H : (_ =? _)%N = true |- _ => apply N.eqb_eq in H
     | H : (_ =? _)%N = false |- _ => apply N.eqb_neq in H end.
  Ltac case_ifs := repeat match goal with
     | |- context [if ?c then _ else _] => destruct c eqn:?
     | H : context [if ?c then _ else _] |- _ => destruct c eqn:? end.

  (* one step, by cases: an idle thread begins; the owner (thread 0) executes an instruction; another thread (a reader) does *)
  Lemma step_cases0 (P : state -> Prop) s e : Inv s ->
    P s ->
    (forall t o, (t < n)%nat -> mode (tls s t) = None -> allowed t o = true -> P (set_tl s t (begin (tls s t) o))) ->
    (forall m p r rs, (0 < n)%nat -> tls s 0%nat = mkTl (Some m) p r rs ->
                      P (exec s 0%nat (mkTl (Some m) p r rs) (nth p (prog_of m) (IRet false)))) ->
    (forall t p r rs, t <> 0%nat -> (t < n)%nat -> tls s t = mkTl (Some MReader) p r rs ->
                      P (exec s t (mkTl (Some MReader) p r rs) (nth p prog_reader (IRet false)))) ->
    P (step s e).
  Proof.
    intros HI H0 Hb Ho Hr. apply (PipeProofs.step_cases k w n); [exact H0|exact Hb|].
    intros t m p r rs Hlt El. destruct (Nat.eq_dec t 0) as [->|Hne]; [apply Ho; assumption|].
    destruct (i_roles _ _ (inv1 _ _ _ _ HI) t Hne) as [Hm|Hm]; rewrite El in Hm; cbn in Hm; [discriminate|].
    inversion Hm; subst m. apply Hr; assumption.
  Qed.

  Lemma KW_mono s e : KW s <= KW (step s e).
  Proof.
    apply (PipeProofs.step_cases k w n (fun s' => KW s <= KW s')); [lia|intros; unfold KW; cbn; lia|].
    intros t m p r rs Hlt El. split_mp m p; norm; unfold KW; cbn; try lia. rewrite app_length. cbn. lia.
  Qed.
  Lemma NW_back s e : NW (step s e) -> NW s.
  Proof. unfold NW. pose proof (KW_mono s e). lia. Qed.

  (* ---------------------------------------------------------------- sums with one possible non-zero term *)
  Lemma nB_ge s t : (t < n)%nat -> b2z (aB (tls s t)) <= nB s.
  Proof. intro H. apply (sumZ_ge_point (fun t => b2z (aB (tls s t)))); [intro; apply b2z_nonneg|apply (PipeProofs.threads_In k w n Hkw); exact H]. Qed.
  Lemma nC_ge s t : (t < n)%nat -> b2z (aC (tls s t)) <= nC s.
  Proof. intro H. apply (sumZ_ge_point (fun t => b2z (aC (tls s t)))); [intro; apply b2z_nonneg|apply (PipeProofs.threads_In k w n Hkw); exact H]. Qed.
  Lemma nD_ge s t : (t < n)%nat -> b2z (aD (tls s t)) <= nD s.
  Proof. intro H. apply (sumZ_ge_point (fun t => b2z (aD (tls s t)))); [intro; apply b2z_nonneg|apply (PipeProofs.threads_In k w n Hkw); exact H]. Qed.
  Lemma nA_nonneg s : 0 <= nA s. Proof. apply sumZ_nonneg. intro; apply b2z_nonneg. Qed.
  Lemma nB_nonneg s : 0 <= nB s. Proof. apply sumZ_nonneg. intro; apply b2z_nonneg. Qed.
  Lemma nC_nonneg s : 0 <= nC s. Proof. apply sumZ_nonneg. intro; apply b2z_nonneg. Qed.
  Lemma nD_nonneg s : 0 <= nD s. Proof. apply sumZ_nonneg. intro; apply b2z_nonneg. Qed.
  Lemma nD_zero s : L_roles s -> (forall r p rs, tls s 0%nat <> mkTl (Some MWrite) p r rs) -> nD s = 0.
  Proof.
    intros Hr H0. apply sumZ_zero. intros t _. unfold aD.
    destruct (Nat.eq_dec t 0) as [->|Hne].
    - destruct (tls s 0%nat) as [[[| |]|] p r rs] eqn:E; cbn; try reflexivity. exfalso. eapply H0. reflexivity.
    - destruct (Hr t Hne) as [Hm|Hm]; rewrite Hm; reflexivity.
  Qed.
  Lemma nA_zero_noCR s : nA s = 0 -> forall i, (i < size)%N -> flags s i <> FLAG_CAN_READ.
  Proof.
    intros H i Hi Hf.
    pose proof (sumZ_zero_inv (fun i => b2z (flags s i =? FLAG_CAN_READ)%N) slots (fun _ => b2z_nonneg _) H i
                 (proj2 (PipeProofs.slots_In k w Hkw i) Hi)) as Hz.
    cbn in Hz. rewrite Hf, CR_eqb_CR in Hz. discriminate.
  Qed.

  (* m_ReadCount does not wrap when a reader counts its claim; m_WriteIndex does not wrap at the writer's index store *)
  Lemma rc_inc_exact s t : XJ s -> NW s -> (t < n)%nat -> aB (tls s t) = true -> ((gRC s + 1) mod MN = gRC s + 1)%N.
  Proof.
    intros HX HN Hlt Hb. apply add1_exact. pose proof (x_E _ HX). pose proof (x_U _ HX).
    pose proof (nB_ge s t Hlt) as H1. rewrite Hb in H1. cbn in H1.
    pose proof (nA_nonneg s). pose proof (nC_nonneg s). unfold NW in HN. lia.
  Qed.
  Lemma w_inc_exact s : XJ s -> NW s -> (0 < n)%nat -> aD (tls s 0%nat) = true -> ((gW s + 1) mod MN = gW s + 1)%N.
  Proof.
    intros HX HN Hlt Hb. apply add1_exact. pose proof (x_U _ HX).
    pose proof (nD_ge s 0%nat Hlt) as H1. rewrite Hb in H1. cbn in H1. unfold NW in HN. lia.
  Qed.
  Lemma w_dec_exact s : L_roles s -> XJ s -> (0 < n)%nat -> aC (tls s 0%nat) = true -> (1 <= gW s)%N.
  Proof.
    intros Hr HX Hlt Hb. pose proof (x_E _ HX) as HE.
    rewrite (nD_zero s Hr) in HE.
    - pose proof (nC_ge s 0%nat Hlt) as H1. rewrite Hb in H1. cbn in H1.
      pose proof (nA_nonneg s). pose proof (nB_nonneg s). lia.
    - intros r p rs E. rewrite E in Hb. unfold aC in Hb. cbn in Hb. discriminate.
  Qed.

  Ltac own_of HI El :=
    let Ho := fresh "Ho" in
    pose proof (inv_own _ _ _ _ HI) as Ho; unfold L_own, own_ok in Ho; rewrite El in Ho; cbn in Ho.

  (* ---------------------------------------------------------------- the owner's register facts and the bounds *)
  Lemma regs_step s e : Inv s -> XJ s -> NW (step s e) -> own_regs (step s e) (tls (step s e) 0%nat).
  Proof.
    intros HI HX HN. pose proof (NW_back _ _ HN) as HN0. clear HN.
    pose proof (x_regs _ HX) as HR.
    apply (step_cases0 (fun s' => own_regs s' (tls s' 0%nat)) s e HI); [exact HR| | |].
    - intros t o Hlt Hm Ha. cbn [tls set_tl]. unfold updt. destruct (Nat.eqb_spec 0 t) as [<-|Hne].
      + destruct o; unfold own_regs; cbn; try exact I; repeat split; intros; try lia; try discriminate.
      + exact HR.
    - intros m p r rs Hlt El. rewrite El in HR. unfold own_regs in HR. cbn in HR. own_of HI El.
      pose proof (x_bW _ HX) as HbW. pose proof (x_bRC _ HX) as HbRC.
      split_mp m p; norm; rewrite ?updt_same; unfold own_regs; cbn; try exact I.
      all: try solve [repeat split; intros; try lia; try discriminate; try reflexivity; try (apply HR; lia)].
      all: try solve [case_ifs; cbn; try exact I; repeat split; intros; try lia; try discriminate; try reflexivity; try (apply HR; lia)].
      (* WriterTryReadFront 6: if( 0 == numInPipe || 0 == frontReadIndex ) *)
      destruct HR as [H5 [H6 _]]. specialize (H5 ltac:(lia)). specialize (H6 eq_refl). destruct Ho as [Ho _]. specialize (Ho ltac:(lia)).
      destruct (0 =? rnum r)%N eqn:E1; [|destruct (0 =? ridx r)%N eqn:E2]; cbn.
      + apply N.eqb_eq in E1. repeat split; intros; try lia; try discriminate.
        left. symmetry. apply sub_zero_eq; [lia|lia|]. rewrite <- H6. auto.
      + apply N.eqb_eq in E2. repeat split; intros; try lia; try discriminate; try (right; auto).
      + apply N.eqb_neq in E2. repeat split; intros; try lia; try discriminate; auto.
    - intros t p r rs Hne Hlt El.
      assert (Hge : (gRC s <= gRC (exec s t (mkTl (Some MReader) p r rs) (nth p prog_reader (IRet false))))%N /\
                    tls (exec s t (mkTl (Some MReader) p r rs) (nth p prog_reader (IRet false))) 0%nat = tls s 0%nat).
      { assert (Hb15 : p = 15%nat -> ((gRC s + 1) mod MN = gRC s + 1)%N).
        { intros ->. apply (rc_inc_exact s t HX HN0 Hlt). rewrite El. reflexivity. }
        apply not_eq_sym in Hne.
        do 21 (try (destruct p as [|p])); norm; rewrite ?updt_other by exact Hne; split; try reflexivity; try lia.
      }
      destruct Hge as [Hge Htl]. rewrite Htl.
      unfold own_regs in *. destruct (mode (tls s 0%nat)) as [[| |]|]; try exact HR.
      destruct HR as [H5 HR']. split; [intro Hp; specialize (H5 Hp); lia|exact HR'].
  Qed.

  (* ---------------------------------------------------------------- exact bookkeeping (no wrap) *)
  Ltac frame_tls := intros ? Hne'; cbn [tls]; rewrite updt_other by exact Hne'; reflexivity.
  Ltac sums_thread s t Hlt El :=
    unfold PipeProofs.nB, PipeProofs.nC, PipeProofs.nD;
    rewrite (PipeProofs.sum_thread k w n Hkw (fun l => b2z (aB l)) s _ t Hlt) by frame_tls;
    rewrite (PipeProofs.sum_thread k w n Hkw (fun l => b2z (aC l)) s _ t Hlt) by frame_tls;
    rewrite (PipeProofs.sum_thread k w n Hkw (fun l => b2z (aD l)) s _ t Hlt) by frame_tls;
    cbn [tls]; rewrite !updt_same, !El.
  Ltac own_facts HI t r El :=
    pose proof (i_holds _ _ (inv1 _ _ _ _ HI) t (ract r)) as Hh0; pose proof (i_guard _ _ (inv1 _ _ _ _ HI) t (ract r)) as Hg0;
    pose proof (i_ract _ _ (inv1 _ _ _ _ HI) t) as Hr0;
    rewrite El in Hh0, Hg0, Hr0; unfold ract_ok in Hr0.
  Ltac use_own :=
    cbn in *; rewrite ?(N.eqb_sym FLAG_CAN_READ) in *;
    try (match goal with H : Some ?a = Some ?a -> _ |- _ => specialize (H eq_refl) end);
    try (match goal with H : Some ?a = Some ?a -> _ |- _ => specialize (H eq_refl) end).

  Lemma EU_step s e : Inv s -> XJ s -> NW (step s e) ->
    let s' := step s e in
    (Z.of_N (gW s') + nD s' = Z.of_N (gRC s') + nA s' + nB s' + nC s') /\ (Z.of_N (gW s') + nD s' <= KW s').
  Proof.
    intros HI HX HN. pose proof (NW_back _ _ HN) as HN0. clear HN.
    pose proof (x_E _ HX) as HE. pose proof (x_U _ HX) as HU. pose proof (x_bW _ HX) as HbW.
    cbv zeta.
    apply (PipeProofs.step_cases k w n (fun s' => (Z.of_N (gW s') + nD s' = Z.of_N (gRC s') + nA s' + nB s' + nC s') /\ (Z.of_N (gW s') + nD s' <= KW s'))).
    - split; assumption.
    - intros t o Hlt Hmd Ha. unfold set_tl.
      unfold PipeProofs.nB, PipeProofs.nC, PipeProofs.nD;
      rewrite (PipeProofs.sum_thread k w n Hkw (fun l => b2z (aB l)) s _ t Hlt) by frame_tls;
      rewrite (PipeProofs.sum_thread k w n Hkw (fun l => b2z (aC l)) s _ t Hlt) by frame_tls;
      rewrite (PipeProofs.sum_thread k w n Hkw (fun l => b2z (aD l)) s _ t Hlt) by frame_tls;
      cbn [tls]; rewrite !updt_same.
      change (nA _) with (nA s). cbn [gW gRC]. unfold KW. cbn [written].
      assert (Eb : forall l o, aB (begin l o) = false /\ aC (begin l o) = false /\ aD (begin l o) = false) by (intros l []; repeat split).
      destruct (Eb (tls s t) o) as [-> [-> ->]].
      assert (aB (tls s t) = false /\ aC (tls s t) = false /\ aD (tls s t) = false) as [-> [-> ->]]
        by (unfold aB, aC, aD; rewrite Hmd; repeat split).
      unfold PipeProofs.nB, PipeProofs.nC, PipeProofs.nD, KW in *. cbn [b2z]. lia.
    - intros t m p r rs Hlt El. own_facts HI t r El.
      unfold PipeProofs.nA, PipeProofs.nB, PipeProofs.nC, PipeProofs.nD, KW in HE, HU.
      split_mp m p; norm; use_own.
      all: try solve [ sums_thread s t Hlt El; unfold PipeProofs.nA, KW; cbn; case_ifs; cbn; lia ].
      all: flagfacts.
      (* Write 6: publish *)
      1: { destruct Hg0 as [Hg0 Hsz]. sums_thread s t Hlt El.
           rewrite (PipeProofs.sum_slot k w Hkw s _ (ract r) Hsz) by (intros i Hia; cbn [flags]; rewrite upd_other by exact Hia; reflexivity).
           cbn [flags]. rewrite upd_same, Hg0, CR_eqb_CR, CR_eqb_CW. unfold PipeProofs.nA, KW. cbn. rewrite app_length. cbn. lia. }
      (* Write 9: m_WriteIndex = writeIndex *)
      1: { assert (t = 0%nat) as -> by (eapply (mode_owner s t _ (i_roles _ _ (inv1 _ _ _ _ HI))); [rewrite El; reflexivity|discriminate]).
           own_of HI El. destruct Ho as [_ Ho]. specialize (Ho eq_refl).
           rewrite (w_inc_exact s HX HN0 Hlt) in Ho by (rewrite El; reflexivity).
           sums_thread s 0%nat Hlt El. unfold PipeProofs.nA, KW. cbn. rewrite Ho. lia. }
      (* the compare-and-swap *)
      1,4: destruct (flags s (ract r) =? FLAG_CAN_READ)%N eqn:E;
           [ sums_thread s t Hlt El;
             rewrite (PipeProofs.sum_slot k w Hkw s _ (ract r)) by
               (first [ apply Hr0; lia | intros i Hia; cbn [flags]; rewrite upd_other by exact Hia; reflexivity ]);
             cbn [flags]; rewrite upd_same, E, INV_eqb_CR; unfold PipeProofs.nA, KW; cbn; rewrite E; cbn; lia
           | sums_thread s t Hlt El; unfold PipeProofs.nA, KW; cbn; rewrite E; cbn; lia ].
      (* AtomicAdd( &m_ReadCount, 1 ) *)
      1: { rewrite (rc_inc_exact s t HX HN0 Hlt) by (rewrite El; reflexivity).
           sums_thread s t Hlt El. unfold PipeProofs.nA, KW. cbn. lia. }
      (* the release of the slot *)
      1,2: destruct Hh0 as [Hh0 Hsz]; sums_thread s t Hlt El;
           rewrite (PipeProofs.sum_slot k w Hkw s _ (ract r) Hsz) by (intros i Hia; cbn [flags]; rewrite upd_other by exact Hia; reflexivity);
           cbn [flags]; rewrite upd_same, Hh0, INV_eqb_CR, CR_eqb_CW; unfold PipeProofs.nA, KW; cbn; lia.
      (* --m_WriteIndex *)
      assert (t = 0%nat) as -> by (eapply (mode_owner s t _ (i_roles _ _ (inv1 _ _ _ _ HI))); [rewrite El; reflexivity|discriminate]).
      own_of HI El. destruct Ho as [_ Ho]. specialize (Ho eq_refl).
      pose proof (w_dec_exact s (i_roles _ _ (inv1 _ _ _ _ HI)) HX Hlt) as H1. rewrite El in H1. specialize (H1 eq_refl).
      rewrite Ho, (sub1_exact (gW s) H1 HbW).
      sums_thread s 0%nat Hlt El. unfold PipeProofs.nA, KW. cbn. lia.
  Qed.

  Lemma bounds_step s e : Inv s -> XJ s ->
    let s' := step s e in (gW s' < MN)%N /\ (gRC s' < MN)%N /\ (gRI s' < MN)%N.
  Proof.
    intros HI HX. cbv zeta. pose proof (x_bW _ HX). pose proof (x_bRC _ HX). pose proof (x_bRI _ HX). pose proof MN_pos as HM.
    assert (Hmod : forall a, (a mod MN < MN)%N) by (intro a; apply N.mod_upper_bound; lia).
    apply (step_cases0 (fun s' => (gW s' < MN)%N /\ (gRC s' < MN)%N /\ (gRI s' < MN)%N) s e HI); [auto|intros; cbn; auto| |].
    - intros m p r rs Hlt El. pose proof (x_regs _ HX) as HR. rewrite El in HR. unfold own_regs in HR. cbn in HR.
      own_of HI El.
      split_mp m p; norm; repeat split; auto.
      + destruct Ho as [_ Ho]. rewrite (Ho eq_refl). auto.
      + destruct HR as [H5 _]. specialize (H5 ltac:(lia)). lia.
    - intros t p r rs Hne Hlt El. do 21 (try (destruct p as [|p])); norm; repeat split; auto.
  Qed.

  (* ---------------------------------------------------------------- the position invariant *)
  Definition JP (s : state) : Prop :=
    (forall i, (i < size)%N -> flags s i = FLAG_CAN_READ ->
       Z.of_N (gRI s) <= Z.of_N (gpos s i) < wlim s /\ N.land (gpos s i) msk = i) /\
    (Z.of_N (gRI s) <= wlim s) /\
    match front_lo (tls s 0%nat) with
    | Some lo => lo <= Z.of_N (gW s) /\ forall i, (i < size)%N -> flags s i = FLAG_CAN_READ -> Z.of_N (gpos s i) < lo
    | None => True end.

  Lemma XJ_JP s : XJ s -> JP s.
  Proof. intro H. split; [apply (x_J1 _ H)|split; [apply (x_J4 _ H)|apply (x_lo _ H)]]. Qed.

  (* steps that neither move the window nor publish: the set of readable slots can only shrink *)
  Lemma JP_mono s s' :
    gW s' = gW s -> gRI s' = gRI s -> (forall i, gpos s' i = gpos s i) ->
    aD (tls s' 0%nat) = aD (tls s 0%nat) -> aC (tls s' 0%nat) = aC (tls s 0%nat) ->
    (front_lo (tls s' 0%nat) = None \/ front_lo (tls s' 0%nat) = front_lo (tls s 0%nat)) ->
    (forall i, flags s' i = FLAG_CAN_READ -> flags s i = FLAG_CAN_READ) ->
    JP s -> JP s'.
  Proof.
    intros HW HRI Hgp HD HC Hlo Hfl [J1 [J4 LO]].
    assert (Hw : wlim s' = wlim s) by (unfold wlim; rewrite HW, HD, HC; reflexivity).
    split; [|split].
    - intros i Hi Hf. rewrite Hw, HRI, Hgp. apply J1; auto.
    - rewrite Hw, HRI. exact J4.
    - destruct Hlo as [-> | ->]; [exact I|]. destruct (front_lo (tls s 0%nat)) as [lo|]; [|exact I].
      destruct LO as [L1 L2]. split; [rewrite HW; exact L1|]. intros i Hi Hf. rewrite Hgp. apply L2; auto.
  Qed.

  Ltac shrink_flags :=
    intros i; case_ifs; first [ tauto | exact (cr_upd_INV _ _ _) | exact (cr_upd_CW _ _ _) ].
  Ltac by_mono s HJ :=
    apply (JP_mono s); [reflexivity|reflexivity|reflexivity| | | | |exact HJ];
    [ cbn [tls]; rewrite ?updt_same, ?updt_other by congruence; try reflexivity
    | cbn [tls]; rewrite ?updt_same, ?updt_other by congruence; try reflexivity
    | cbn [tls]; rewrite ?updt_same, ?updt_other by congruence; try (right; reflexivity); try (left; reflexivity)
    | cbn [flags]; shrink_flags ].

  Lemma JP_step s e : Inv s -> XJ s -> NW (step s e) -> JP (step s e).
  Proof.
    intros HI HX HN. pose proof (NW_back _ _ HN) as HN0. clear HN. pose proof (XJ_JP _ HX) as HJ.
    apply (step_cases0 JP s e HI); [exact HJ| | |].
    - (* an idle thread begins an operation *)
      intros t o Hlt Hm Ha. apply (JP_mono s); try reflexivity; try exact HJ; try tauto; cbn [tls set_tl]; unfold updt;
        (destruct (Nat.eqb_spec 0 t) as [<-|Hne]; [|try reflexivity; right; reflexivity]).
      + destruct o; unfold aD; rewrite Hm; reflexivity.
      + destruct o; unfold aC; rewrite Hm; reflexivity.
      + left. destruct o; reflexivity.
    - (* the owner *)
      intros m p r rs Hlt El.
      pose proof (x_regs _ HX) as HR. rewrite El in HR. unfold own_regs in HR. cbn in HR. own_of HI El.
      pose proof (x_bW _ HX) as HbW. pose proof (i_roles _ _ (inv1 _ _ _ _ HI)) as Hroles.
      pose proof HJ as [J1 [J4 LO]]. unfold wlim in J1, J4. rewrite El in J1, J4, LO. cbn in J1, J4, LO.
      pose proof (i_ract _ _ (inv1 _ _ _ _ HI) 0%nat) as Hr0. rewrite El in Hr0. unfold ract_ok in Hr0. cbn in Hr0.
      split_mp m p; norm; rewrite ?(N.eqb_sym FLAG_CAN_READ); cbn in J1, J4, LO.
      all: try solve [ by_mono s HJ; rewrite ?El; cbn; case_ifs; cbn; try reflexivity; try (right; reflexivity); try (left; reflexivity) ].
      + (* WriterTryWriteFront 6: m_Flags[a] = FLAG_CAN_READ publishes position writeIndex *)
        destruct Ho as [Ho _]. specialize (Ho ltac:(lia)). specialize (HR ltac:(lia)).
        unfold JP, wlim. cbn [gW gRI flags gpos tls]. rewrite updt_same. cbn. split; [|split; [lia|exact I]].
        intros i Hi Hf. unfold upd in *. destruct (N.eqb_spec i (ract r)) as [->|Hne].
        * rewrite Ho. split; [lia|symmetry; rewrite <- Ho; exact HR].
        * destruct (J1 i Hi Hf) as [Ha Hb]. split; [lia|exact Hb].
      + (* WriterTryWriteFront 9: m_WriteIndex = writeIndex *)
        destruct Ho as [_ Ho]. specialize (Ho eq_refl).
        rewrite (w_inc_exact s HX HN0 Hlt) in Ho by (rewrite El; reflexivity).
        unfold JP, wlim. cbn [gW gRI flags gpos tls]. rewrite updt_same. cbn. rewrite Ho. split; [|split; [lia|exact I]].
        intros i Hi Hf. destruct (J1 i Hi Hf) as [Ha Hb]. split; [lia|exact Hb].
      + (* WriterTryReadFront 1: frontReadIndex = writeIndex *)
        destruct Ho as [Ho _]. specialize (Ho ltac:(lia)).
        unfold JP, wlim. cbn [gW gRI flags gpos tls]. rewrite updt_same. cbn. split; [|split; [lia|]].
        * intros i Hi Hf. destruct (J1 i Hi Hf) as [Ha Hb]. split; [lia|exact Hb].
        * rewrite Ho. split; [lia|]. intros i Hi Hf. destruct (J1 i Hi Hf) as [Ha Hb]. lia.
      + (* WriterTryReadFront 7: m_ReadIndex = readCount — only when no slot is readable *)
        destruct HR as [H5 [_ [H7 _]]]. specialize (H5 ltac:(lia)). specialize (H7 eq_refl).
        destruct Ho as [Ho _]. specialize (Ho ltac:(lia)). destruct LO as [L1 L2].
        pose proof (x_E _ HX) as HE. rewrite (nD_zero s Hroles) in HE by (intros ? ? ? E; rewrite El in E; discriminate).
        pose proof (nA_nonneg s). pose proof (nB_nonneg s). pose proof (nC_nonneg s).
        assert (HnoCR : forall i, (i < size)%N -> flags s i <> FLAG_CAN_READ).
        { destruct H7 as [H7|H7].
          - apply nA_zero_noCR. lia.
          - intros i Hi Hf. specialize (L2 i Hi Hf). lia. }
        unfold JP, wlim. cbn [gW gRI flags gpos tls]. rewrite updt_same. cbn. split; [|split; [lia|]].
        * intros i Hi Hf. exfalso. exact (HnoCR i Hi Hf).
        * split; [lia|]. intros i Hi Hf. exfalso. exact (HnoCR i Hi Hf).
      + (* WriterTryReadFront 9: --frontReadIndex *)
        destruct HR as [_ [_ [_ [H9 _]]]]. specialize (H9 eq_refl). destruct LO as [L1 L2].
        unfold JP, wlim. cbn [gW gRI flags gpos tls]. rewrite updt_same. cbn.
        rewrite (sub1_exact (ridx r)) by lia. split; [|split; [lia|]].
        * intros i Hi Hf. destruct (J1 i Hi Hf) as [Ha Hb]. split; [lia|exact Hb].
        * split; [lia|]. intros i Hi Hf. specialize (L2 i Hi Hf). lia.
      + (* WriterTryReadFront 11: the owner's compare-and-swap at position frontReadIndex *)
        destruct HR as [_ [_ [_ [_ H11]]]]. specialize (H11 eq_refl). destruct LO as [L1 L2]. specialize (Hr0 ltac:(lia)).
        unfold JP, wlim. cbn [gW gRI flags gpos tls]. rewrite updt_same. cbn.
        destruct (flags s (ract r) =? FLAG_CAN_READ)%N eqn:E; cbn.
        * apply N.eqb_eq in E. destruct (J1 _ Hr0 E) as [Ha Hb]. pose proof (L2 _ Hr0 E) as Hc.
          split; [|split; [lia|exact I]].
          intros i Hi Hf. apply cr_upd_INV in Hf as Hf'. destruct (J1 i Hi Hf') as [Ha' Hb']. pose proof (L2 i Hi Hf') as Hc'.
          split; [|exact Hb'].
          assert (gpos s i <> ridx r).
          { intro Eq. rewrite Eq, <- H11 in Hb'. subst i. unfold upd in Hf. rewrite N.eqb_refl in Hf. symmetry in Hf. exact (CR_ne_INV Hf). }
          lia.
        * apply N.eqb_neq in E. split; [|split; [lia|]].
          -- intros i Hi Hf. destruct (J1 i Hi Hf) as [Ha Hb]. split; [lia|exact Hb].
          -- split; [lia|]. intros i Hi Hf. destruct (J1 i Hi Hf) as [Ha Hb]. pose proof (L2 i Hi Hf) as Hc.
             assert (gpos s i <> ridx r) by (intro Eq; rewrite Eq, <- H11 in Hb; subst i; contradiction).
             lia.
      + (* WriterTryReadFront 23: --m_WriteIndex *)
        destruct Ho as [_ Ho]. specialize (Ho eq_refl).
        pose proof (w_dec_exact s Hroles HX Hlt) as H1. rewrite El in H1. specialize (H1 eq_refl).
        unfold JP, wlim. cbn [gW gRI flags gpos tls]. rewrite updt_same. cbn.
        rewrite Ho, (sub1_exact (gW s) H1 HbW). split; [|split; [lia|exact I]].
        intros i Hi Hf. destruct (J1 i Hi Hf) as [Ha Hb]. split; [lia|exact Hb].
    - (* another thread: a reader *)
      intros t p r rs Hne Hlt El. apply not_eq_sym in Hne.
      do 21 (try (destruct p as [|p])); norm; by_mono s HJ.
  Qed.

  (* ---------------------------------------------------------------- every reachable state without wrap *)
  Lemma XJ_step s e : Inv s -> XJ s -> NW (step s e) -> XJ (step s e).
  Proof.
    intros HI HX HN. destruct (bounds_step s e HI HX) as [B1 [B2 B3]]. destruct (EU_step s e HI HX HN) as [E1 E2].
    destruct (JP_step s e HI HX HN) as [J1 [J4 LO]].
    constructor; auto. apply regs_step; auto.
  Qed.

  Lemma XJ_init : XJ init.
  Proof.
    pose proof MN_pos.
    constructor; cbn; try lia; try exact I.
    - unfold PipeProofs.nA, PipeProofs.nB, PipeProofs.nC, PipeProofs.nD. cbn. rewrite CR_eqb_CW. cbn.
      rewrite !(sumZ_zero (fun _ => 0)) by reflexivity. reflexivity.
    - unfold PipeProofs.nD, KW. cbn. rewrite !(sumZ_zero (fun _ => 0)) by reflexivity. lia.
    - intros i _ Hf. symmetry in Hf. exfalso. exact (CR_ne_CW Hf).
    - unfold wlim. cbn. lia.
  Qed.

  Lemma XJ_reachable s : reachable k w n s -> NW s -> XJ s.
  Proof.
    intros [sched ->]. induction sched as [|e l IH] using rev_ind; intro HN; [exact XJ_init|].
    rewrite (PipeProofs.run_app k w n) in *. cbn [run run_gen fold_left] in *.
    change (fold_left (step_gen k w n prog_of) [e] (run k w n l init)) with (step (run k w n l init) e) in *.
    apply XJ_step; [apply (PipeProofs.reachable_Inv k w n Hkw); exists l; reflexivity| |exact HN].
    apply IH. exact (NW_back _ _ HN).
  Qed.

  (* ---------------------------------------------------------------- solo runs *)
  Inductive sreach (t : nat) : state -> state -> Prop :=
  | sr_done s : mode (tls s t) = None -> sreach t s s
  | sr_step s s' : mode (tls s t) <> None -> sreach t (step s (t, OpRead)) s' -> sreach t s s'.

  Lemma sreach_solo t s s' : sreach t s s' -> exists f, solo k w n f t s = Some s'.
  Proof.
    induction 1 as [s Hm|s s' Hm _ [f IH]].
    - exists 0%nat. rewrite (PipeProofs.solo_0 k w n). rewrite Hm. reflexivity.
    - exists (S f). rewrite (PipeProofs.solo_S k w n). destruct (mode (tls s t)); [exact IH|contradiction].
  Qed.

  Lemma step_at s1 t m p r rs o : (t < n)%nat -> tls s1 t = mkTl (Some m) p r rs ->
    step s1 (t, o) = exec s1 t (mkTl (Some m) p r rs) (nth p (prog_of m) (IRet false)).
  Proof.
    intros Hlt El. unfold Pipe.step, step_gen. destruct (Nat.ltb_spec t n) as [_|]; [|lia]. rewrite El. reflexivity.
  Qed.

  Definition sh (s0 s1 : state) : Prop :=
    gW s1 = gW s0 /\ gRC s1 = gRC s0 /\ gRI s1 = gRI s0 /\ (forall i, flags s1 i = flags s0 i) /\ (forall i, buf s1 i = buf s0 i).

  (* the goal of a solo run: it ends (thread t idle again) having returned true with the content of a readable slot of s0 *)
  Definition good (s0 : state) (t : nat) (s1 : state) : Prop :=
    exists s' a, sreach t s1 s' /\ res (tls s' t) = Some (true, buf s0 a) /\ (a < size)%N /\ flags s0 a = FLAG_CAN_READ.
  Lemma good_step s0 t s1 : mode (tls s1 t) <> None -> good s0 t (step s1 (t, OpRead)) -> good s0 t s1.
  Proof. intros Hm [s' [a [H1 H2]]]. exists s', a. split; [eapply sr_step; eassumption|exact H2]. Qed.
  Lemma good_done s0 t s1 a : mode (tls s1 t) = None -> res (tls s1 t) = Some (true, buf s0 a) -> (a < size)%N ->
    flags s0 a = FLAG_CAN_READ -> good s0 t s1.
  Proof. intros. exists s1, a. split; [apply sr_done; assumption|auto]. Qed.

  Ltac sstep0 Hlt Htl :=
    apply good_step;
    [ rewrite Htl; cbn; discriminate
    | erewrite step_at; [ | exact Hlt | exact Htl ]; norm ].
  Ltac sstep Hlt :=
    apply good_step;
    [ cbn [tls set_tl]; rewrite updt_same; cbn; discriminate
    | erewrite step_at; [ | exact Hlt | cbn [tls set_tl]; apply updt_same ]; norm ].

  Section Solo.
    Variable s : state.
    Variable t : nat.
    Hypothesis Hlt : (t < n)%nat.
    Variables i0 p0 : N.
    Hypothesis Hi0 : (i0 < size)%N.
    Hypothesis Hf0 : flags s i0 = FLAG_CAN_READ.
    Hypothesis Hl0 : N.land p0 msk = i0.
    Hypothesis Hp0 : (gRI s <= p0 /\ p0 < gW s /\ gW s < MN)%N.
    Hypothesis Hnum : (0 =? (gW s + (MN - gRC s mod MN)) mod MN)%N = false.

    Definition eff (riu : N) : N := if (gW s <=? riu)%N then gRI s else riu.
    Definition mu (riu : N) : nat :=
      let e := eff riu in
      if (e <=? p0)%N then N.to_nat (p0 - e) else (N.to_nat (gW s - e) + N.to_nat (p0 - gRI s) + 1)%nat.

    Lemma reader_loop m : forall s1 r rs, sh s s1 -> tls s1 t = mkTl (Some MReader) 2 r rs -> rrc r = gRC s ->
      (mu (ridx r) <= m)%nat -> good s t s1.
    Proof.
      induction m as [m IH] using lt_wf_ind. intros s1 r rs Hsh Htl Hrc Hmu.
      destruct Hsh as [SW [SRC [SRI [SFL SBF]]]].
      set (e := eff (ridx r)). set (a := N.land e msk).
      assert (Ha : (a < size)%N) by apply (PipeProofs.mask_lt k).
      assert (Hel : (e < gW s)%N) by (unfold e, eff; destruct (N.leb_spec (gW s) (ridx r)); lia).
      destruct (flags s a =? FLAG_CAN_READ)%N eqn:ECAS.
      - (* the compare-and-swap at position e succeeds *)
        apply N.eqb_eq in ECAS. unfold e, eff in *. destruct (gW s <=? ridx r)%N eqn:EL.
        + sstep0 Hlt Htl. sstep Hlt. sstep Hlt. rewrite SW, Hrc, Hnum. cbn. sstep Hlt. rewrite EL. cbn.
          sstep Hlt. sstep Hlt. rewrite SRI. fold a. sstep Hlt. rewrite SFL, ECAS, CR_eqb_CR. cbn.
          sstep Hlt. sstep Hlt. sstep Hlt. sstep Hlt. sstep Hlt. sstep Hlt. sstep Hlt.
          apply (good_done s t _ a); cbn; rewrite ?updt_same; cbn; rewrite ?SBF; auto.
        + sstep0 Hlt Htl. sstep Hlt. sstep Hlt. rewrite SW, Hrc, Hnum. cbn. sstep Hlt. rewrite EL. cbn.
          sstep Hlt. fold a. sstep Hlt. rewrite SFL, ECAS, CR_eqb_CR. cbn.
          sstep Hlt. sstep Hlt. sstep Hlt. sstep Hlt. sstep Hlt. sstep Hlt. sstep Hlt.
          apply (good_done s t _ a); cbn; rewrite ?updt_same; cbn; rewrite ?SBF; auto.
      - (* it fails: the scan moves on to position e + 1, the measure decreases *)
        assert (Hne : e <> p0).
        { intro E. unfold a in ECAS. rewrite E, Hl0, Hf0, CR_eqb_CR in ECAS. discriminate. }
        assert (Hdec : (mu (e + 1) < mu (ridx r))%nat).
        { clear Hnum IH Htl ECAS SFL SBF. unfold mu. fold e. unfold eff at 1. unfold e, eff in *.
          destruct (N.leb_spec (gW s) (ridx r)); destruct (N.leb_spec (gW s) (gRI s + 1));
            destruct (N.leb_spec (gW s) (ridx r + 1));
            repeat match goal with |- context [(?x <=? ?y)%N] => destruct (N.leb_spec x y) end; lia. }
        assert (Hdec' : (mu (e + 1) < m)%nat) by (clear Hnum; lia).
        assert (Hex : ((e + 1) mod MN = e + 1)%N) by (apply N.mod_small; clear Hnum; lia).
        unfold e, eff in *. destruct (gW s <=? ridx r)%N eqn:EL.
        + sstep0 Hlt Htl. sstep Hlt. sstep Hlt. rewrite SW, Hrc, Hnum. cbn. sstep Hlt. rewrite EL. cbn.
          sstep Hlt. sstep Hlt. rewrite SRI. fold a. sstep Hlt. rewrite SFL, ECAS. cbn.
          sstep Hlt. rewrite N.eqb_sym, ECAS. cbn. sstep Hlt. sstep Hlt. sstep Hlt.
          eapply (IH (mu (gRI s + 1))); [exact Hdec'| |cbn [tls]; apply updt_same|cbn; exact SRC|cbn; rewrite Hex; apply Nat.le_refl].
          repeat split; cbn; auto.
        + sstep0 Hlt Htl. sstep Hlt. sstep Hlt. rewrite SW, Hrc, Hnum. cbn. sstep Hlt. rewrite EL. cbn.
          sstep Hlt. fold a. sstep Hlt. rewrite SFL, ECAS. cbn.
          sstep Hlt. rewrite N.eqb_sym, ECAS. cbn. sstep Hlt. sstep Hlt. sstep Hlt.
          eapply (IH (mu (ridx r + 1))); [exact Hdec'| |cbn [tls]; apply updt_same|cbn; exact SRC|cbn; rewrite Hex; apply Nat.le_refl].
          repeat split; cbn; auto.
    Qed.

    Lemma reader_start : mode (tls s t) = None -> good s t (step s (t, OpRead)).
    Proof.
      intro Hm. unfold Pipe.step, step_gen. destruct (Nat.ltb_spec t n) as [_|]; [|lia]. rewrite Hm. cbn [allowed].
      unfold begin. sstep Hlt. sstep Hlt.
      eapply reader_loop; [repeat split; reflexivity|cbn [tls]; apply updt_same|reflexivity|apply Nat.le_refl].
    Qed.

    (* WriterTryReadFront: the scan goes down from frontReadIndex - 1; it cannot pass below position p0 *)
    Lemma front_loop m : forall s1 r rs, sh s s1 -> tls s1 t = mkTl (Some MFront) 4 r rs -> rwi r = gW s ->
      (p0 < ridx r)%N -> (ridx r <= gW s)%N -> (N.to_nat (ridx r - p0) <= m)%nat -> good s t s1.
    Proof.
      induction m as [m IH] using lt_wf_ind. intros s1 r rs Hsh Htl Hrw Hlo Hhi Hmu.
      destruct Hsh as [SW [SRC [SRI [SFL SBF]]]].
      assert (Hex : ((ridx r + (MN - 1)) mod MN = ridx r - 1)%N) by (apply sub1_exact; clear Hnum; lia).
      assert (Hz : (0 =? ridx r)%N = false) by (apply N.eqb_neq; clear Hnum Hex; lia).
      assert (Hf1 : (ridx r - 1 <= gW s)%N) by (clear Hnum Hex; lia).
      assert (Hf2 : (ridx r - 1 <> p0 -> p0 < ridx r - 1)%N) by (clear Hnum Hex; lia).
      assert (Hf3 : (ridx r - 1 <> p0 -> (ridx r - 1 <=? gRI s) = false)%N) by (intro; apply N.leb_gt; clear Hnum Hex; lia).
      assert (Hf4 : (ridx r - 1)%N <> p0 -> (N.to_nat (ridx r - 1 - p0)%N < m)%nat) by (clear Hnum Hex; lia).
      set (f := (ridx r - 1)%N) in *. set (a := N.land f msk).
      assert (Ha : (a < size)%N) by apply (PipeProofs.mask_lt k).
      destruct (flags s a =? FLAG_CAN_READ)%N eqn:ECAS.
      - apply N.eqb_eq in ECAS.
        sstep0 Hlt Htl. sstep Hlt. sstep Hlt. rewrite Hrw, SRC, Hnum, Hz. cbn.
        sstep Hlt. rewrite Hex. sstep Hlt. fold a. sstep Hlt. rewrite SFL, ECAS, CR_eqb_CR. cbn.
        sstep Hlt. sstep Hlt. sstep Hlt. sstep Hlt. sstep Hlt. sstep Hlt. sstep Hlt. sstep Hlt.
        apply (good_done s t _ a); cbn; rewrite ?updt_same; cbn; rewrite ?SBF; auto.
      - assert (Hne : f <> p0).
        { intro E. unfold a in ECAS. rewrite E, Hl0, Hf0, CR_eqb_CR in ECAS. discriminate. }
        pose proof (Hf3 Hne) as Hgt.
        sstep0 Hlt Htl. sstep Hlt. sstep Hlt. rewrite Hrw, SRC, Hnum, Hz. cbn.
        sstep Hlt. rewrite Hex. sstep Hlt. fold a. sstep Hlt. rewrite SFL, ECAS. cbn.
        sstep Hlt. rewrite N.eqb_sym, ECAS. cbn. sstep Hlt. sstep Hlt. rewrite SRI, Hgt. cbn. sstep Hlt.
        eapply (IH (N.to_nat (f - p0))); [exact (Hf4 Hne)| |cbn [tls]; apply updt_same|cbn; first [exact Hrw|reflexivity]|cbn; exact (Hf2 Hne)|cbn; exact Hf1|cbn; apply Nat.le_refl].
        repeat split; cbn; auto.
    Qed.

    Lemma front_start : t = 0%nat -> mode (tls s t) = None -> good s t (step s (t, OpFront)).
    Proof.
      intros Ht Hm. unfold Pipe.step, step_gen. destruct (Nat.ltb_spec t n) as [_|]; [|lia]. rewrite Hm.
      replace (allowed t OpFront) with true by (rewrite Ht; reflexivity).
      unfold begin. sstep Hlt. sstep Hlt. sstep Hlt. sstep Hlt.
      eapply front_loop; [repeat split; reflexivity|cbn [tls]; apply updt_same|reflexivity|cbn; lia|cbn; lia|apply Nat.le_refl].
    Qed.
  End Solo.

  (* ---------------------------------------------------------------- (c) without wrap *)
  Lemma quiescent_facts s i0 : reachable k w n s -> quiescent n s -> NW s -> (0 < n)%nat ->
    (i0 < size)%N -> flags s i0 = FLAG_CAN_READ ->
    N.land (gpos s i0) msk = i0 /\ (gRI s <= gpos s i0 /\ gpos s i0 < gW s /\ gW s < MN)%N /\
    (0 =? (gW s + (MN - gRC s mod MN)) mod MN)%N = false.
  Proof.
    intros Hr Hq HN Hn Hi Hf. pose proof (XJ_reachable s Hr HN) as HX.
    destruct (x_J1 _ HX i0 Hi Hf) as [[Ha Hb] Hc]. unfold wlim in Hb.
    assert (aD (tls s 0%nat) = false /\ aC (tls s 0%nat) = false) as [ED EC] by (unfold aD, aC; rewrite (Hq 0%nat Hn); split; reflexivity).
    rewrite ED, EC in Hb. cbn in Hb. pose proof (x_bW _ HX).
    split; [exact Hc|split; [lia|]].
    destruct (PipeProofs.bookkeeping k w n Hkw s Hr Hq) as [Hbk _]. rewrite Hbk. apply N.eqb_neq.
    unfold n_can_read. assert (In i0 (filter (can_read s) slots)).
    { apply filter_In. split; [apply (PipeProofs.slots_In k w Hkw); exact Hi|unfold can_read; rewrite Hf; apply CR_eqb_CR]. }
    destruct (filter (can_read s) slots); [contradiction|cbn; lia].
  Qed.

  Lemma in_pipe_slot s : in_pipe k s <> [] -> exists i0, (i0 < size)%N /\ flags s i0 = FLAG_CAN_READ.
  Proof.
    unfold in_pipe. intro H. destruct (filter (can_read s) slots) as [|i0 l] eqn:E; [contradiction|].
    assert (Hin : In i0 (filter (can_read s) slots)) by (rewrite E; left; reflexivity).
    apply filter_In in Hin. destruct Hin as [H1 H2]. exists i0. split; [apply (PipeProofs.slots_In k w Hkw); exact H1|].
    unfold can_read in H2. apply N.eqb_eq in H2. exact H2.
  Qed.

  Lemma good_run_op s t o : good s t (step s (t, o)) ->
    exists fuel s' x, run_op k w n fuel s (t, o) = Some (s', Some (true, x)) /\ In x (in_pipe k s).
  Proof.
    intros [s' [a [Hr [Hres [Ha Hf]]]]]. destruct (sreach_solo _ _ _ Hr) as [f Hs].
    exists f, s', (buf s a). split.
    - unfold run_op, run_op_gen. change (solo_gen k w n prog_of f t (step_gen k w n prog_of s (t, o))) with (solo k w n f t (step s (t, o))).
      rewrite Hs, Hres. reflexivity.
    - unfold in_pipe. apply in_map. apply filter_In. split; [apply (PipeProofs.slots_In k w Hkw); exact Ha|].
      unfold can_read. rewrite Hf. apply CR_eqb_CR.
  Qed.

  Lemma nowrap_reader s t : reachable k w n s -> quiescent n s -> in_pipe k s <> [] -> NW s -> (t < n)%nat ->
    exists fuel s' x, run_op k w n fuel s (t, OpRead) = Some (s', Some (true, x)) /\ In x (in_pipe k s).
  Proof.
    intros Hr Hq Hne HN Hlt. destruct (in_pipe_slot s Hne) as [i0 [Hi Hf]].
    destruct (quiescent_facts s i0 Hr Hq HN ltac:(lia) Hi Hf) as [Hl [Hp Hnum]].
    apply good_run_op. eapply reader_start; try eassumption. apply Hq. exact Hlt.
  Qed.

  Lemma nowrap_front s : reachable k w n s -> quiescent n s -> in_pipe k s <> [] -> NW s -> (0 < n)%nat ->
    exists fuel s' x, run_op k w n fuel s (0%nat, OpFront) = Some (s', Some (true, x)) /\ In x (in_pipe k s).
  Proof.
    intros Hr Hq Hne HN Hlt. destruct (in_pipe_slot s Hne) as [i0 [Hi Hf]].
    destruct (quiescent_facts s i0 Hr Hq HN Hlt Hi Hf) as [Hl [Hp Hnum]].
    apply good_run_op. eapply front_start; try eassumption; try reflexivity. apply Hq. exact Hlt.
  Qed.

  Lemma no_threads_nothing s : n = 0%nat -> reachable k w n s -> in_pipe k s = [].
  Proof.
    intros -> [sched ->]. assert (run k w 0 sched init = init) as ->.
    { induction sched as [|[t o] l IH]; [reflexivity|]. cbn. exact IH. }
    unfold in_pipe. replace (filter (can_read init) slots) with (@nil N); [reflexivity|].
    symmetry. induction slots as [|a l IH]; [reflexivity|]. cbn [filter]. unfold can_read at 1. unfold init at 1. cbn [flags]. rewrite CR_eqb_CW. exact IH.
  Qed.

  Theorem no_stranded_item_nowrap_proved : PipeProofs.no_stranded_item_nowrap k w n.
  Proof.
    intros s Hr Hq Hne Hlen.
    assert (HN : NW s).
    { unfold NW, KW, PipeProofs.MZ, M. pose proof (N.pow_nonzero 2 w ltac:(discriminate)). lia. }
    destruct (Nat.eq_dec n 0) as [E|E]; [exfalso; apply Hne; apply no_threads_nothing; assumption|].
    split.
    - intros t Ht. apply nowrap_reader; auto; lia.
    - apply nowrap_front; auto; lia.
  Qed.
End Strand.
