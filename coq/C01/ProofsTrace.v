(* C01 — trace validation: the executable predicate [accepts] accepts the ExecuteRange log of every
   terminal (joined) execution of the model machine. *)
From Common Require Import Prelude CxxSem.
From C01 Require Import Model ProofsArith ProofsEnki.
From Coq Require Import Permutation Sorting.Sorted.
Local Open Scope Z_scope.

Definition le_part (a b : part) : Prop := fst a <= fst b.

Lemma insert_perm q l : Permutation (insert_part q l) (q :: l).
Proof.
  induction l as [|x r IH]; cbn; [reflexivity|].
  destruct (fst q <=? fst x); [reflexivity|]. rewrite IH. apply perm_swap.
Qed.

Lemma sort_perm l : Permutation (sort_parts l) l.
Proof.
  induction l as [|x r IH]; cbn; [reflexivity|].
  unfold sort_parts in *. cbn. rewrite insert_perm. constructor. exact IH.
Qed.

Lemma insert_sorted q l : StronglySorted le_part l -> StronglySorted le_part (insert_part q l).
Proof.
  induction l as [|x r IH]; intro H; cbn.
  - constructor; constructor.
  - inversion H as [|? ? Hr Hx]; subst. destruct (fst q <=? fst x) eqn:E.
    + constructor; [exact H|]. constructor; [unfold le_part; lia|].
      eapply Forall_impl; [|exact Hx]. unfold le_part. intros a Ha. lia.
    + constructor; [apply IH; exact Hr|].
      apply (Permutation_Forall (Permutation_sym (insert_perm q r))).
      constructor; [unfold le_part; lia|exact Hx].
Qed.

Lemma sort_sorted l : StronglySorted le_part (sort_parts l).
Proof.
  induction l as [|x r IH]; unfold sort_parts in *; cbn; [constructor|]. apply insert_sorted. exact IH.
Qed.

Lemma NoDup_app_r {A} (a b : list A) : NoDup (a ++ b) -> NoDup b.
Proof. induction a as [|x a IH]; intro H; [exact H|]. cbn in H. inversion H; subst. auto. Qed.

Lemma NoDup_app_disj {A} (a b : list A) x : NoDup (a ++ b) -> In x a -> In x b -> False.
Proof.
  induction a as [|y a IH]; intros H Ha Hb; [destruct Ha|]. cbn in H. inversion H as [|? ? Hn Hr]; subst.
  destruct Ha as [->|Ha]; [apply Hn; apply in_or_app; right; exact Hb | eauto].
Qed.

Lemma In_idx x (q : part) : In x (idx q) <-> fst q <= x < snd q.
Proof. unfold idx. apply In_zrange. Qed.

(* sorted, non-empty, pairwise disjoint pieces whose union is [lo,hi) form a chain from lo to hi *)
Lemma tile_chain l : forall lo hi,
  StronglySorted le_part l -> Forall (fun q : part => fst q < snd q) l -> NoDup (flat_map idx l) ->
  (forall x, In x (flat_map idx l) <-> lo <= x < hi) -> lo <= hi -> chainb lo hi l = true.
Proof.
  induction l as [|q r IH]; intros lo hi Hs Hne Hnd Hcov Hle; cbn [chainb].
  - apply Z.eqb_eq. destruct (Z.eq_dec lo hi) as [E|E]; [exact E|]. exfalso.
    apply (proj2 (Hcov lo)). lia.
  - inversion Hs as [|? ? Hsr Hall]; subst. inversion Hne as [|? ? Hq Hner]; subst.
    cbn [flat_map] in *.
    assert (Hfq : lo <= fst q < hi).
    { apply Hcov. apply in_or_app. left. apply In_idx. lia. }
    assert (Hlo : fst q = lo).
    { assert (Hin : In lo (idx q ++ flat_map idx r)) by (apply Hcov; lia).
      apply in_app_or in Hin. destruct Hin as [Hin|Hin].
      - apply In_idx in Hin. lia.
      - apply in_flat_map in Hin. destruct Hin as [q' [Hq' Hin]]. apply In_idx in Hin.
        rewrite Forall_forall in Hall. specialize (Hall q' Hq'). unfold le_part in Hall. lia. }
    assert (Hsq : snd q <= hi).
    { assert (H : lo <= snd q - 1 < hi); [|lia]. apply Hcov. apply in_or_app. left. apply In_idx. lia. }
    apply andb_true_iff. split; [apply Z.eqb_eq; exact Hlo|].
    apply IH; try assumption.
    + eapply NoDup_app_r; exact Hnd.
    + intro x. split.
      * intro Hx. assert (Hr : lo <= x < hi) by (apply Hcov; apply in_or_app; right; exact Hx).
        destruct (Z_lt_ge_dec x (snd q)) as [Hlt|Hge]; [|lia]. exfalso.
        apply (NoDup_app_disj _ _ x Hnd); [apply In_idx; lia|exact Hx].
      * intro Hx. assert (Hin : In x (idx q ++ flat_map idx r)) by (apply Hcov; lia).
        apply in_app_or in Hin. destruct Hin as [Hin|Hin]; [|exact Hin]. apply In_idx in Hin. lia.
Qed.

Lemma flat_map_pidx l : flat_map pidx l = flat_map idx (map snd l).
Proof. induction l as [|a l IH]; cbn; [reflexivity|]. rewrite IH. reflexivity. Qed.

(* a log whose pieces are non-empty and whose indices are a permutation of [0,n) tiles [0,n) *)
Lemma log_tiles n (log : list (nat * part)) :
  0 <= n -> Forall (fun tq => 0 < plen (snd tq)) log ->
  Permutation (flat_map pidx log) (zrange 0 n) -> chainb 0 n (sort_parts (map snd log)) = true.
Proof.
  intros Hn Hne Hp. set (L := map snd log).
  assert (HpL : Permutation (flat_map idx (sort_parts L)) (zrange 0 n)).
  { rewrite <- Hp, flat_map_pidx. apply Permutation_flat_map. apply sort_perm. }
  apply tile_chain.
  - apply sort_sorted.
  - apply (Permutation_Forall (Permutation_sym (sort_perm L))). unfold L. apply Forall_map.
    eapply Forall_impl; [|exact Hne]. intros a Ha. cbn beta in *. unfold plen, part in *. lia.
  - apply (Permutation_NoDup (Permutation_sym HpL)). apply NoDup_zrange.
  - intro x. rewrite <- In_zrange. split; intro H.
    + eapply Permutation_in; [exact HpL|exact H].
    + eapply Permutation_in; [apply Permutation_sym; exact HpL|exact H].
  - exact Hn.
Qed.

Lemma accepts_inv n T s : 0 <= n -> inv (mk_params n T) s -> joined s -> accepts n T (elog s) = true.
Proof.
  intros Hn I J. unfold accepts. apply andb_true_iff. split.
  - apply forallb_forall. intros tq Hin. pose proof (inv_logp _ _ I) as F. rewrite Forall_forall in F.
    specialize (F tq Hin). cbn [mk_params P_T P_rtr] in F. destruct F as [Ht [Hl Hr]].
    apply andb_true_iff. split; [apply andb_true_iff; split|].
    + apply Nat.ltb_lt. exact Ht.
    + apply Z.ltb_lt. exact Hl.
    + apply Z.leb_le. exact Hr.
  - apply log_tiles; [exact Hn| |].
    + eapply Forall_impl; [|apply (inv_logp _ _ I)]. intros a Ha. cbn beta in *. lia.
    + rewrite (inv_log _ _ I). exact (join_complete _ _ I J).
Qed.

Lemma accepts_sound n T t0 s :
  0 <= n -> (t0 < T)%nat -> reachable (mk_params n T) t0 s -> joined s -> accepts n T (elog s) = true.
Proof.
  intros Hn Ht R J. apply accepts_inv; [exact Hn| |exact J].
  apply (inv_reachable _ t0); [apply mk_params_wf; exact Hn|exact Ht|exact R].
Qed.

(* accepts is not vacuous: it rejects a log with a duplicated, a missing or an over-long piece *)
Lemma accepts_rejects_dup : accepts 13 3 [(0%nat, (0, 2)); (1%nat, (0, 2)); (0%nat, (2, 13))] = false.
Proof. vm_compute. reflexivity. Qed.
Lemma accepts_rejects_overrun : accepts 13 3 [(0%nat, (0, 2)); (0%nat, (2, 4)); (0%nat, (4, 6)); (0%nat, (6, 8)); (0%nat, (8, 10)); (0%nat, (10, 12)); (0%nat, (12, 14))] = false.
Proof. vm_compute. reflexivity. Qed.
