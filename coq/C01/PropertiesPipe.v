(* C01/C02 — LockLessMultiReadPipe (enkiTS): the statements.  Model: Pipe.v (micro-step machine, one thread
   executes one instruction per step; sequentially consistent; index width w and size 2^k are parameters,
   k < w; n = number of threads: thread 0 the owner, 1..n-1 readers).  `reachable k w n s` = s is the result
   of SOME schedule (any interleaving of any operation sequences) from the constructed pipe.
   Every theorem is `exact PipeProofs.<lemma>`; the Examples show the hypotheses are satisfiable. *)
From Common Require Import Prelude.
From Coq Require Import Permutation.
From C01 Require Import Pipe PipeProofs.
Local Open Scope N_scope.

(* ------------------------------------------------------------------ (a) hand-off safety *)
(* the multiset equation: written = in the pipe (slots with FLAG_CAN_READ) + claimed (between a successful
   compare-and-swap and the copy out of the buffer) + delivered *)
Theorem pipe_handoff_multiset : forall k w n, k < w -> forall s, reachable k w n s ->
  Permutation (written s) (in_pipe k s ++ claimed n s ++ map snd (delivered s)).
Proof. exact PipeProofs.handoff_multiset. Qed.
Print Assumptions pipe_handoff_multiset.

(* with distinct item ids: every written item is in exactly one of the three places, exactly once *)
Theorem pipe_handoff_exactly_one : forall k w n, k < w -> forall s, reachable k w n s -> NoDup (written s) ->
  NoDup (in_pipe k s ++ claimed n s ++ map snd (delivered s)).
Proof. exact PipeProofs.handoff_exactly_one. Qed.
Print Assumptions pipe_handoff_exactly_one.

Theorem pipe_written_accounted : forall k w n, k < w -> forall s x, reachable k w n s -> In x (written s) ->
  In x (in_pipe k s) \/ In x (claimed n s) \/ In x (map snd (delivered s)).
Proof. exact PipeProofs.written_accounted. Qed.
Print Assumptions pipe_written_accounted.

Theorem pipe_delivered_once : forall k w n, k < w -> forall s, reachable k w n s -> NoDup (written s) ->
  NoDup (map snd (delivered s)).
Proof. exact PipeProofs.delivered_once. Qed.
Print Assumptions pipe_delivered_once.

Theorem pipe_delivered_was_written : forall k w n, k < w -> forall s t x, reachable k w n s ->
  In (t, x) (delivered s) -> In x (written s).
Proof. exact PipeProofs.delivered_was_written. Qed.
Print Assumptions pipe_delivered_was_written.

(* the writer stores into m_Buffer[a] only when the slot's flag is FLAG_CAN_WRITE: not readable, not claimed *)
Theorem pipe_writer_never_overwrites : forall k w n, k < w -> forall s t r rs, reachable k w n s ->
  tls s t = mkTl (Some MWrite) 5 r rs ->
  flags s (ract r) = FLAG_CAN_WRITE /\ ~ In (ract r) (filter (can_read s) (slots k)) /\
  (forall t', holds (tls s t') <> Some (ract r)).
Proof. exact PipeProofs.writer_never_overwrites. Qed.
Print Assumptions pipe_writer_never_overwrites.

(* a claimant copies m_Buffer[a] out only while it holds the claim *)
Theorem pipe_claimant_reads_under_claim : forall k w n, k < w -> forall s t m p r rs, reachable k w n s ->
  tls s t = mkTl (Some m) p r rs ->
  (m = MReader /\ p = 17%nat) \/ (m = MFront /\ p = 19%nat) ->
  flags s (ract r) = FLAG_INVALID /\
  (forall t', holds (tls s t') = Some (ract r) -> t' = t) /\
  (forall t', PipeProofs.guard (tls s t') <> Some (ract r)).
Proof. exact PipeProofs.claimant_reads_under_claim. Qed.
Print Assumptions pipe_claimant_reads_under_claim.

Theorem pipe_claims_exclusive : forall k w n, k < w -> forall s t1 t2 i, reachable k w n s ->
  holds (tls s t1) = Some i -> holds (tls s t2) = Some i -> t1 = t2.
Proof. exact PipeProofs.claims_exclusive. Qed.
Print Assumptions pipe_claims_exclusive.

(* what the flag store publishes is the argument of WriterTryWriteFront *)
Theorem pipe_publish_is_argument : forall k w n, k < w -> forall s t r rs, reachable k w n s ->
  tls s t = mkTl (Some MWrite) 6 r rs -> buf s (ract r) = rin r.
Proof. exact PipeProofs.publish_is_argument. Qed.
Print Assumptions pipe_publish_is_argument.

(* ------------------------------------------------------------------ (b) bookkeeping at quiescence *)
Theorem pipe_bookkeeping : forall k w n, k < w -> forall s, reachable k w n s -> quiescent n s ->
  (gW s + (M w - gRC s mod M w)) mod M w = n_can_read k s /\ n_can_read k s <= size k.
Proof. exact PipeProofs.bookkeeping. Qed.
Print Assumptions pipe_bookkeeping.

Theorem pipe_is_pipe_empty_exact : forall k w n, k < w -> forall s, reachable k w n s -> quiescent n s ->
  is_pipe_empty w s = true <-> in_pipe k s = [].
Proof. exact PipeProofs.is_pipe_empty_exact. Qed.
Print Assumptions pipe_is_pipe_empty_exact.

(* the inductive invariant itself holds in every reachable state (and in the pre-advanced empty states used by the harness) *)
Theorem pipe_invariant_reachable : forall k w n, k < w -> forall s, reachable k w n s -> PipeProofs.Inv k w n s.
Proof. exact PipeProofs.reachable_Inv. Qed.
Print Assumptions pipe_invariant_reachable.

(* ------------------------------------------------------------------ (c) no stranded item
   The full statement PipeProofs.no_stranded_item is FALSE of the faithful model: once m_WriteIndex wraps
   around 2^w with items queued, `0 == frontReadIndex` makes WriterTryReadFront report "nothing to read" and
   `readIndexToUse >= writeIndex` (a plain unsigned compare) makes ReaderTryReadBack rescan the same slot forever.
   Refuted from the constructed pipe for index width 3 (2 slots); the 32-bit instance is the same schedule shape
   after 2^32 - 2 write/steal pairs (shown from the pre-advanced state, and replayed on the real code by the harness).
   The restriction to histories without wrap-around (PipeProofs.no_stranded_item_nowrap) is NOT proved; it is
   tested by exhaustive exploration of this model in small scopes (props/C01/pipe_check.py). *)
Theorem pipe_no_stranded_item_refuted : ~ PipeProofs.no_stranded_item 1 3 2.
Proof. exact PipeProofs.no_stranded_item_refuted. Qed.
Print Assumptions pipe_no_stranded_item_refuted.

Theorem pipe_wrap32_strands_items :
  quiescentb 2 PipeProofs.st_wrap32 = true /\ in_pipe 1 PipeProofs.st_wrap32 = [1; 2] /\
  obs 1 PipeProofs.st_wrap32 = ((0, 4294967294, 4294967294), [FLAG_CAN_READ; FLAG_CAN_READ]) /\
  option_map snd (run_op 1 32 2 200 PipeProofs.st_wrap32 (0%nat, OpFront)) = Some (Some (false, 0)) /\
  (let s1 := fst (run_seq 1 32 2 200 [(1%nat, OpRead)] PipeProofs.st_wrap32) in
   in_pipe 1 s1 = [2] /\ quiescentb 2 s1 = true /\ run_op 1 32 2 5000 s1 (1%nat, OpRead) = None).
Proof. exact PipeProofs.wrap32_facts. Qed.
Print Assumptions pipe_wrap32_strands_items.

(* ------------------------------------------------------------------ (d) the theorems are about the compare-and-swap *)
Theorem pipe_reader_check_then_store_refuted :
  let s := run_gen 1 32 3 prog_of_cts_reader PipeProofs.sched_reader_cts init in
  written s = [5] /\ delivered s = [(2%nat, 5); (1%nat, 5)] /\ quiescentb 3 s = true /\
  obs 1 s = ((1, 2, 0), [FLAG_CAN_WRITE; FLAG_CAN_WRITE]).
Proof. exact PipeProofs.reader_check_then_store_refuted. Qed.
Print Assumptions pipe_reader_check_then_store_refuted.

Theorem pipe_front_check_then_store_refuted :
  let s := run_gen 1 32 2 prog_of_cts_front PipeProofs.sched_front_cts init in
  written s = [5] /\ delivered s = [(1%nat, 5); (0%nat, 5)].
Proof. exact PipeProofs.front_check_then_store_refuted. Qed.
Print Assumptions pipe_front_check_then_store_refuted.

Theorem pipe_front_fast_path_refuted :
  let s := run_gen 1 32 3 prog_of_fast_front PipeProofs.sched_front_fast init in
  written s = [5; 6] /\ delivered s = [(2%nat, 6); (0%nat, 6)].
Proof. exact PipeProofs.front_fast_path_refuted. Qed.
Print Assumptions pipe_front_fast_path_refuted.

Theorem pipe_real_tables_on_those_schedules :
  map snd (delivered (run 1 32 3 PipeProofs.sched_reader_cts init)) = [5] /\
  map snd (delivered (run 1 32 2 PipeProofs.sched_front_cts init)) = [5] /\
  NoDup (map snd (delivered (run 1 32 3 PipeProofs.sched_front_fast init))).
Proof. exact PipeProofs.real_tables_on_those_schedules. Qed.
Print Assumptions pipe_real_tables_on_those_schedules.

(* ------------------------------------------------------------------ non-vacuity *)
(* a reachable state (production width, 2 slots, owner + 2 readers) with one item queued, one claimed, one delivered,
   a reader about to copy out (instruction 17 is reached one step later), distinct ids *)
Definition ex_sched : list event :=
  PipeProofs.rep 11 (0%nat, OpWrite 5) ++ PipeProofs.rep 11 (0%nat, OpWrite 6) ++ PipeProofs.rep 16 (1%nat, OpRead)
  ++ PipeProofs.rep 9 (2%nat, OpRead) ++ PipeProofs.rep 11 (0%nat, OpWrite 7).
Example pipe_ex_three_places :
  let s := run 1 32 3 ex_sched init in
  reachable 1 32 3 s /\ written s = [5; 6; 7] /\ in_pipe 1 s = [7] /\ claimed 3 s = [6] /\ map snd (delivered s) = [5].
Proof. split; [exists ex_sched; reflexivity|vm_compute; repeat split]. Qed.

(* a quiescent reachable state with two items: the bookkeeping equation reads 2 = 2, IsPipeEmpty is false *)
Example pipe_ex_quiescent :
  let s := run 1 32 3 (PipeProofs.rep 11 (0%nat, OpWrite 5) ++ PipeProofs.rep 11 (0%nat, OpWrite 6)) init in
  reachable 1 32 3 s /\ quiescentb 3 s = true /\ n_can_read 1 s = 2 /\ is_pipe_empty 32 s = false /\
  (gW s + (M 32 - gRC s mod M 32)) mod M 32 = 2.
Proof. split; [eexists; reflexivity|vm_compute; repeat split]. Qed.

(* the writer at instruction 5 and a reader at instruction 17 are reachable *)
Example pipe_ex_writer_at_5 :
  let s := run 1 32 2 (PipeProofs.rep 5 (0%nat, OpWrite 5)) init in
  reachable 1 32 2 s /\ mode (tls s 0%nat) = Some MWrite /\ pc (tls s 0%nat) = 5%nat.
Proof. split; [eexists; reflexivity|vm_compute; repeat split]. Qed.
Example pipe_ex_reader_at_17 :
  let s := run 1 32 2 (PipeProofs.rep 11 (0%nat, OpWrite 5) ++ PipeProofs.rep 13 (1%nat, OpRead)) init in
  reachable 1 32 2 s /\ mode (tls s 1%nat) = Some MReader /\ pc (tls s 1%nat) = 17%nat /\ holds (tls s 1%nat) = Some 0.
Proof. split; [eexists; reflexivity|vm_compute; repeat split]. Qed.

(* a full pipe refuses the write (returns false) and nothing is lost *)
Example pipe_ex_full :
  let r := run_seq 1 32 2 100 [(0, OpWrite 1); (0, OpWrite 2); (0, OpWrite 3); (1, OpRead); (0, OpFront)]%nat init in
  snd r = [Some (true, 0); Some (true, 0); Some (false, 0); Some (true, 1); Some (true, 2)] /\ in_pipe 1 (fst r) = [].
Proof. vm_compute. repeat split. Qed.
