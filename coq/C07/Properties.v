(* C07 — property theorems only (each closed by [exact] of a lemma of the Proofs files
   and followed by Print Assumptions), plus non-vacuity examples. *)
From Common Require Import Prelude.
From Coq Require Import Reals.
From Flocq Require Import Core IEEE754.BinarySingleNaN IEEE754.Binary IEEE754.Bits.
From C07 Require Import Model ModelR ModelB32 ProofsInt ProofsR ProofsB32.
Local Open Scope Z_scope.

(* ---- clamp over any type with an irreflexive "less than" (a <= b := not (b < a)) ---- *)
Theorem clamp_range : forall (T : Type) (ltb : T -> T -> bool),
  (forall a, ltb a a = false) ->
  forall x lo hi, gle T ltb lo hi ->
  gle T ltb lo (clamp T ltb x lo hi) /\ gle T ltb (clamp T ltb x lo hi) hi.
Proof. exact clamp_range_g. Qed.
Print Assumptions clamp_range.

Theorem clamp_id : forall (T : Type) (ltb : T -> T -> bool) x lo hi,
  gle T ltb lo x -> gle T ltb x hi -> clamp T ltb x lo hi = x.
Proof. exact clamp_id_g. Qed.
Print Assumptions clamp_id.

Theorem clamp_int_range : forall x lo hi, lo <= hi -> lo <= clampZ x lo hi <= hi.
Proof. exact clampZ_range. Qed.
Print Assumptions clamp_int_range.

Theorem clamp_int_id : forall x lo hi, lo <= x <= hi -> clampZ x lo hi = x.
Proof. exact clampZ_id. Qed.
Print Assumptions clamp_int_id.

Example clamp_int_ex : clampZ 7 0 5 = 5 /\ clampZ (-3) 0 5 = 0 /\ clampZ 4 0 5 = 4.
Proof. vm_compute. auto. Qed.

(* ---- divRoundUp(a,b) is the least q with q*b >= a ---- *)
Theorem divRoundUp_least_thm : forall a b, 0 <= a -> 0 < b ->
  divRoundUp a b * b >= a /\ (forall q', q' * b >= a -> divRoundUp a b <= q').
Proof. exact divRoundUp_least. Qed.
Print Assumptions divRoundUp_least_thm.

(* in an unsigned type of the given width the wrapped expression agrees when a+b-1 fits *)
Theorem divRoundUp_unsigned_no_overflow : forall bits a b,
  0 < bits -> 0 <= a -> 0 < b -> a + b - 1 < 2 ^ bits -> divRoundUp_u bits a b = divRoundUp a b.
Proof. exact divRoundUp_u_no_overflow. Qed.
Print Assumptions divRoundUp_unsigned_no_overflow.

(* at a type narrower than int (8/16-bit, signed or unsigned) the sum is formed in int and narrowed ONCE at the return:
   whenever the least quotient fits T the result is the least quotient, even when a + b - 1 exceeds max(T) *)
Theorem divRoundUp_narrow_is_least_quotient : forall (sgn : bool) bits a b,
  0 < bits -> 0 <= a -> 0 < b -> divRoundUp a b < 2 ^ (bits - (if sgn then 1 else 0)) ->
  divRoundUp_n sgn bits a b = divRoundUp a b /\
  divRoundUp_n sgn bits a b * b >= a /\ (forall q', q' * b >= a -> divRoundUp_n sgn bits a b <= q').
Proof. exact divRoundUp_narrow_least. Qed.
Print Assumptions divRoundUp_narrow_is_least_quotient.

Example divRoundUp_narrow_ex :
  divRoundUp_n false 8 200 100 = 2 /\ divRoundUp_n false 8 255 2 = 128 /\ divRoundUp_n true 8 127 127 = 1 /\
  divRoundUp_n true 16 32767 2 = 16384 /\ divRoundUp_n false 16 65535 65535 = 1.
Proof. vm_compute. repeat split; reflexivity. Qed.

Example divRoundUp_ex : divRoundUp 7 2 = 4 /\ divRoundUp 8 2 = 4 /\ divRoundUp 0 5 = 0 /\
                        divRoundUp_u 32 4294967295 2 = 0.
Proof. vm_compute. auto. Qed.

(* ---- cvt_uint32(vec4f) packing is per channel ---- *)
Theorem pack_channels_thm : forall c0 c1 c2 c3,
  0 <= c0 <= 255 -> 0 <= c1 <= 255 -> 0 <= c2 <= 255 -> 0 <= c3 <= 255 ->
  channel (pack c0 c1 c2 c3) 0 = c0 /\ channel (pack c0 c1 c2 c3) 1 = c1 /\
  channel (pack c0 c1 c2 c3) 2 = c2 /\ channel (pack c0 c1 c2 c3) 3 = c3.
Proof. exact pack_channels. Qed.
Print Assumptions pack_channels_thm.

Theorem pack_fits_uint32 : forall c0 c1 c2 c3,
  0 <= c0 <= 255 -> 0 <= c1 <= 255 -> 0 <= c2 <= 255 -> 0 <= c3 <= 255 ->
  0 <= pack c0 c1 c2 c3 < 2 ^ 32.
Proof. exact pack_range. Qed.
Print Assumptions pack_fits_uint32.

Example pack_ex : pack 1 2 3 255 = 4278387201 /\ channel 4278387201 3 = 255.
Proof. vm_compute. auto. Qed.

(* ---- pcg32: outputs are 32-bit, the stream is a function of (seed, sequence) mod 2^64 ---- *)
Theorem pcg_output_uint32 : forall seed seq n o, In o (pcg_stream seed seq n) -> 0 <= o < 2 ^ 32.
Proof. exact pcg_stream_range. Qed.
Print Assumptions pcg_output_uint32.

Theorem pcg_reproducible_thm : forall seed seq seed' seq' n,
  u64 seed = u64 seed' -> u64 seq = u64 seq' -> pcg_stream seed seq n = pcg_stream seed' seq' n.
Proof. exact pcg_reproducible. Qed.
Print Assumptions pcg_reproducible_thm.

(* known-answer: the pcg32 demo seed (42, 54) starts with 0xa15c02b7 0x7b47f409 0xba1d3330 *)
Example pcg_known_answer : pcg_stream 42 54 3 = [2707161783; 2068313097; 3122475824].
Proof. vm_compute. reflexivity. Qed.
Example pcg_negative_seed : pcg_stream (-5) (-7) 1 = pcg_stream (2 ^ 64 - 5) (2 ^ 64 - 7) 1.
Proof. apply pcg_reproducible; reflexivity. Qed.

(* ======================================================================================
   Floating-point kernels, read in binary32 over R (ModelR.v): every operation is followed
   by round-to-nearest-even in FLT(-149,24).  These theorems use the Reals / Flocq /
   Interval axioms listed by Print Assumptions.
   ====================================================================================== *)
Local Open Scope R_scope.

(* ---- rcp: relative error at most 2^-20 on 2^-126 <= |x| < 2^126 -------------------- *)
(* SIMD formula r*(2 - r*x), for ANY estimate r within the vendor bound 1.5*2^-12 *)
Theorem rcp_accuracy : forall rcp_est : R -> R,
  (forall x, format32 x -> FLT_MIN <= Rabs x < bpow radix2 126 -> Rabs (rcp_est x * x - 1) <= 3 / 8192) ->
  forall x, format32 x -> FLT_MIN <= Rabs x < bpow radix2 126 ->
  Rabs (rcp_simd rcp_est x * x - 1) <= bpow radix2 (-20).
Proof. exact rcp_simd_accuracy. Qed.
Print Assumptions rcp_accuracy.

(* RKCOMMON_NO_SIMD: one correctly rounded division, error at most 2^-24 *)
Theorem rcp_accuracy_nosimd : forall x, FLT_MIN <= Rabs x <= bpow radix2 126 ->
  Rabs (rcp_nosimd x * x - 1) <= bpow radix2 (-24).
Proof. exact rcp_nosimd_accuracy. Qed.
Print Assumptions rcp_accuracy_nosimd.

(* ---- rsqrt ---------------------------------------------------------------------------- *)
Theorem rsqrt_accuracy : forall rsqrt_est : R -> R,
  (forall x, format32 x -> FLT_MIN <= x < bpow radix2 126 -> Rabs (rsqrt_est x * sqrt x - 1) <= 3 / 8192) ->
  forall x, format32 x -> FLT_MIN <= x < bpow radix2 126 ->
  Rabs (rsqrt_simd rsqrt_est x * sqrt x - 1) <= bpow radix2 (-20).
Proof. exact rsqrt_simd_accuracy. Qed.
Print Assumptions rsqrt_accuracy.

Theorem rsqrt_accuracy_nosimd : forall x, FLT_MIN <= x < bpow radix2 126 ->
  Rabs (rsqrt_nosimd x * sqrt x - 1) <= bpow radix2 (-20).
Proof. exact rsqrt_nosimd_accuracy. Qed.
Print Assumptions rsqrt_accuracy_nosimd.

Example accuracy_range_inhabited :
  format32 1 /\ FLT_MIN <= Rabs 1 < bpow radix2 126 /\ FLT_MIN <= 1 < bpow radix2 126.
Proof. exact one_in_range. Qed.
Example estimate_hypotheses_inhabited :
  (forall x, format32 x -> FLT_MIN <= Rabs x < bpow radix2 126 -> Rabs (/ x * x - 1) <= 3 / 8192) /\
  (forall x, format32 x -> bpow radix2 126 <= Rabs x -> 0 <= / x * x <= 1 + 3 / 8192) /\
  (forall x, format32 x -> FLT_MIN <= x < bpow radix2 126 -> Rabs (/ sqrt x * sqrt x - 1) <= 3 / 8192).
Proof. exact estimate_hypotheses_satisfiable. Qed.

(* ---- rcp_safe: for EVERY finite x (zeros, subnormals, FLT_MAX) the argument handed to rcp
   is at least FLT_MIN in magnitude with the sign sense of x; the result is finite and not
   of the opposite sign ------------------------------------------------------------------ *)
Theorem rcp_safe_finite_sign : forall rcp_est : R -> R,
  (forall x, format32 x -> FLT_MIN <= Rabs x < bpow radix2 126 -> Rabs (rcp_est x * x - 1) <= 3 / 8192) ->
  (forall x, format32 x -> bpow radix2 126 <= Rabs x -> 0 <= rcp_est x * x <= 1 + 3 / 8192) ->
  forall x, finite32 x ->
  FLT_MIN <= Rabs (rcp_safe_arg x) /\
  (0 <= x -> 0 < rcp_safe_arg x) /\ (x < 0 -> rcp_safe_arg x < 0) /\
  finite32 (rcp_safe (rcp_simd rcp_est) x) /\ 0 <= rcp_safe (rcp_simd rcp_est) x * x.
Proof.
  exact (fun e H1 H2 => rcp_safe_finite_sign_gen (rcp_simd e) (rcp_simd_finite_sign e H1 H2)).
Qed.
Print Assumptions rcp_safe_finite_sign.

Theorem rcp_safe_finite_sign_nosimd : forall x, finite32 x ->
  FLT_MIN <= Rabs (rcp_safe_arg x) /\
  (0 <= x -> 0 < rcp_safe_arg x) /\ (x < 0 -> rcp_safe_arg x < 0) /\
  finite32 (rcp_safe rcp_nosimd x) /\ 0 <= rcp_safe rcp_nosimd x * x.
Proof. exact rcp_safe_nosimd_finite_sign. Qed.
Print Assumptions rcp_safe_finite_sign_nosimd.

(* type-generic form (rcp_safe_t<T>, any precision): for ANY monotone odd rounding rn with rn 0 = 0 and any positive
   threshold tmin = numeric_limits<T>::min(): the argument handed to rcp has magnitude >= tmin and the sign sense of x,
   the result is never of the opposite sign to x and is bounded by rn(1/tmin) *)
Theorem rcp_safe_sign_any_precision : forall (rn : R -> R) (tmin : R),
  (forall x y, x <= y -> rn x <= rn y) -> rn 0 = 0 -> (forall x, rn (- x) = - rn x) -> 0 < tmin ->
  forall x,
  tmin <= Rabs (rcp_safe_arg_g tmin x) /\
  (0 <= x -> 0 < rcp_safe_arg_g tmin x) /\ (x < 0 -> rcp_safe_arg_g tmin x < 0) /\
  0 <= rcp_safe_g rn tmin x * x /\ Rabs (rcp_safe_g rn tmin x) <= rn (/ tmin).
Proof. exact rcp_safe_g_sign. Qed.
Print Assumptions rcp_safe_sign_any_precision.

(* the double overload: rcp_safe(double) is finite (|result| <= 2^1022) and never of the opposite sign, for every real
   x (in particular every finite double: zeros, denormals, values that narrow to +-0.0f or +-inf as float) *)
Theorem rcp_safe_double_finite_sign : forall x,
  DBL_MIN <= Rabs (rcp_safe_arg_g DBL_MIN x) /\
  (0 <= x -> 0 < rcp_safe_arg_g DBL_MIN x) /\ (x < 0 -> rcp_safe_arg_g DBL_MIN x < 0) /\
  0 <= rcp_safe_g rnd64 DBL_MIN x * x /\ Rabs (rcp_safe_g rnd64 DBL_MIN x) <= bpow radix2 1022.
Proof. exact rcp_safe_double_sign. Qed.
Print Assumptions rcp_safe_double_finite_sign.

(* the twin on doubles: rcp_safe(-4.9e-324) = -2^1022, rcp_safe(-0.0) = +2^1022 (x >= 0 holds for -0), rcp(3.0) *)
Example b64_known_answers :
  run_cases [(41, [9223372036854775809]); (41, [9223372036854775808]); (41, [0]); (40, [4613937818241073152])]%Z
  = [18433233274827440128; 9209861237972664320; 9209861237972664320; 4599676419421066581]%Z.
Proof. vm_compute. reflexivity. Qed.

Example rcp_safe_denormal_inhabited :
  finite32 (bpow radix2 (-149)) /\ Rabs (bpow radix2 (-149)) < FLT_MIN.
Proof. exact denormal_is_finite. Qed.

(* ---- clamp at float (operator< of R) ---------------------------------------------------- *)
Theorem clamp_float_range : forall x lo hi, lo <= hi -> lo <= clampR x lo hi <= hi.
Proof. exact clampR_range. Qed.
Print Assumptions clamp_float_range.

Theorem clamp_float_id : forall x lo hi, lo <= x <= hi -> clampR x lo hi = x.
Proof. exact clampR_id. Qed.
Print Assumptions clamp_float_id.

(* ---- sign, lerp, deg2rad, madd match their definitions ---------------------------------- *)
Theorem sign_def_thm : forall x, (x < 0 -> sign x = -1) /\ (0 <= x -> sign x = 1).
Proof. exact sign_def. Qed.
Print Assumptions sign_def_thm.

Theorem lerp_def_thm : forall f a b, lerp f a b = rnd (rnd (rnd (1 - f) * a) + rnd (f * b)).
Proof. exact lerp_def. Qed.
Print Assumptions lerp_def_thm.

Theorem lerp_endpoints_thm : forall a b, format32 a -> format32 b -> lerp 0 a b = a /\ lerp 1 a b = b.
Proof. exact lerp_endpoints. Qed.
Print Assumptions lerp_endpoints_thm.

Theorem madd_def_thm : forall a b c, madd a b c = rnd (rnd (a * b) + c).
Proof. exact madd_def. Qed.
Print Assumptions madd_def_thm.

(* the constant is the float nearest to pi/180 (half an ulp = 2^-30 at 2^-6) *)
Theorem deg2rad_def_thm : forall x,
  deg2rad x = rnd (x * deg2rad_c) /\ Rabs (deg2rad_c - PI / 180) <= bpow radix2 (-30).
Proof. exact deg2rad_def. Qed.
Print Assumptions deg2rad_def_thm.

(* ---- cvt_uint32(float): monotone, saturating, 0..255; sRGB; per-channel packing ---------- *)
Theorem cvt_monotone_thm : forall f g, f <= g -> (cvt f <= cvt g)%Z.
Proof. exact cvt_monotone. Qed.
Print Assumptions cvt_monotone_thm.

Theorem cvt_saturates_thm : forall f, (f <= 0 -> cvt f = 0%Z) /\ (1 <= f -> cvt f = 255%Z).
Proof. exact cvt_saturates. Qed.
Print Assumptions cvt_saturates_thm.

Theorem cvt_range_thm : forall f, (0 <= cvt f <= 255)%Z.
Proof. exact cvt_range. Qed.
Print Assumptions cvt_range_thm.

(* libm's pow enters as a parameter with monotonicity as hypothesis *)
Theorem srgb_monotone_thm : forall powf : R -> R -> R,
  (forall g a b, 0 <= a <= b -> powf a g <= powf b g) ->
  forall f g, f <= g -> linear_to_srgb powf f <= linear_to_srgb powf g.
Proof. exact srgb_monotone. Qed.
Print Assumptions srgb_monotone_thm.

(* linear_to_srgba8: byte k of the packed word is the conversion of component k alone; alpha
   is max(w,0), not gamma-corrected *)
Theorem srgba8_per_channel_thm : forall (powf : R -> R -> R) x y z w,
  channel (linear_to_srgba8 powf x y z w) 0 = cvt (linear_to_srgb powf x) /\
  channel (linear_to_srgba8 powf x y z w) 1 = cvt (linear_to_srgb powf y) /\
  channel (linear_to_srgba8 powf x y z w) 2 = cvt (linear_to_srgb powf z) /\
  channel (linear_to_srgba8 powf x y z w) 3 = cvt (maxR w 0).
Proof. exact srgba8_per_channel. Qed.
Print Assumptions srgba8_per_channel_thm.

(* independence form: byte k of linear_to_srgba8 is unchanged when the other three components change (so e.g. blue
   cannot depend on red, green or alpha); together with cvt_monotone / cvt_saturates / srgb_monotone each byte is a
   monotone, saturating function of its own component only *)
Theorem srgba8_channel_independent_thm : forall (powf : R -> R -> R) x y z w x' y' z' w',
  channel (linear_to_srgba8 powf x y z w) 0 = channel (linear_to_srgba8 powf x y' z' w') 0 /\
  channel (linear_to_srgba8 powf x y z w) 1 = channel (linear_to_srgba8 powf x' y z' w') 1 /\
  channel (linear_to_srgba8 powf x y z w) 2 = channel (linear_to_srgba8 powf x' y' z w') 2 /\
  channel (linear_to_srgba8 powf x y z w) 3 = channel (linear_to_srgba8 powf x' y' z' w) 3.
Proof. exact srgba8_channel_independent. Qed.
Print Assumptions srgba8_channel_independent_thm.

(* ---- random distributions: for ANY monotone rounding rn that is the identity on a format F
   containing 0, 1 and 2^32, every value lies in [lower, rn(rn(upper-lower)+lower)] ----------- *)
Theorem pcg_float_range_thm : forall (rn : R -> R) (F : R -> Prop),
  (forall x y, x <= y -> rn x <= rn y) -> (forall x, F (rn x)) -> (forall x, F x -> rn x = x) ->
  F 0 -> F 1 -> F (bpow radix2 32) ->
  forall lower upper k, F lower -> lower <= upper -> (0 <= k < 2 ^ 32)%Z ->
  lower <= pcg_float rn lower upper k <= pcg_float_hi rn lower upper.
Proof. exact pcg_float_range. Qed.
Print Assumptions pcg_float_range_thm.

Theorem uniform_real_range_thm : forall (rn : R -> R) (F : R -> Prop),
  (forall x y, x <= y -> rn x <= rn y) -> (forall x, F (rn x)) -> (forall x, F x -> rn x = x) -> F 0 -> F 1 ->
  forall l u k, F l -> l <= u -> (0 <= k <= 4294967295)%Z ->
  l <= uniform_real rn l u k <= uniform_real_hi rn l u.
Proof. exact uniform_real_range. Qed.
Print Assumptions uniform_real_range_thm.

(* generic in the GENERATOR: any range [gmin, gmax] with gmin < gmax (min() need not be 0, the range need not fill the
   result type), any sample in it, any rounding as above *)
Theorem uniform_real_any_generator_range : forall (rn : R -> R) (F : R -> Prop),
  (forall x y, x <= y -> rn x <= rn y) -> (forall x, F (rn x)) -> (forall x, F x -> rn x = x) -> F 0 -> F 1 ->
  forall l u gmin gmax k, F l -> l <= u -> (gmin < gmax)%Z -> (gmin <= k <= gmax)%Z ->
  l <= uniform_real_g rn l u gmin gmax k <= uniform_real_hi rn l u.
Proof. exact uniform_real_g_range. Qed.
Print Assumptions uniform_real_any_generator_range.

(* the denormal regime is NOT excluded by the hypotheses above (FLT rounding is monotone and the identity on
   the format there too; only overflow is outside the R model): for every representable width 2^e, denormal
   widths included, a range [0, 2^e] is respected exactly by both distributions *)
Theorem pcg_float_tiny_range_thm : forall e k, (-149 <= e)%Z -> (0 <= k < 2 ^ 32)%Z ->
  0 <= pcg_float rnd 0 (bpow radix2 e) k <= bpow radix2 e.
Proof. exact pcg_float_tiny_range. Qed.
Print Assumptions pcg_float_tiny_range_thm.

Theorem uniform_real_tiny_range_thm : forall e k, (-149 <= e)%Z -> (0 <= k <= 4294967295)%Z ->
  0 <= uniform_real rnd 0 (bpow radix2 e) k <= bpow radix2 e.
Proof. exact uniform_real_tiny_range. Qed.
Print Assumptions uniform_real_tiny_range_thm.

(* uniform_real_distribution before repair fix-1 (scale = (u-l)/range first): only the weak bound "the formula
   itself at the largest sample" holds ... *)
Theorem uniform_real_old_weak_range : forall (rn : R -> R) (F : R -> Prop),
  (forall x y, x <= y -> rn x <= rn y) -> (forall x, F (rn x)) -> (forall x, F x -> rn x = x) -> F 0 -> F 1 ->
  forall l u k, F l -> l <= u -> (0 <= k <= 4294967295)%Z ->
  l <= uniform_real_old rn l u k <= uniform_real_old_hi rn l u.
Proof. exact uniform_real_old_range. Qed.
Print Assumptions uniform_real_old_weak_range.

(* ... and on the binary32 twin it returns 2^-116 for the range [0, 1.5 * 2^-117] (a third beyond u), where the
   repaired order returns u *)
Example uniform_real_old_refuted :
  let l := of_bits 0 in let u := of_bits 88080384 in let k := 4294967295%Z in
  bltb u (b_uniform_old_k l u k) = true /\ to_bits (b_uniform_old_k l u k) = 92274688%Z /\
  bltb u (b_uniform_k l u k) = false /\ to_bits (b_uniform_k l u k) = 88080384%Z.
Proof. exact b_uniform_old_refuted. Qed.

(* the operation order of seeded change C07-5 (2^-32 folded into diff) violates the range clause on
   [0, 1e-30] at the largest sample, where the code's order returns exactly upper *)
Example pcg_float_scaled_diff_refuted :
  let lo := of_bits 0 in let hi := of_bits 228737632 in let k := 4294967295%Z in
  bltb hi (b_pcg_float_k lo hi k) = false /\ to_bits (b_pcg_float_k lo hi k) = 228737632%Z /\
  bltb hi (b_pcg_float_scaled_k lo hi k) = true.
Proof. exact b_pcg_float_scaled_diff_refuted. Qed.

(* binary32 instance, fed by the pcg32 model: the n-th value of
   pcg32_biased_float_distribution(seed, sequence, lower, upper) is in range *)
Theorem pcg_float_range_binary32 : forall seed seq n lower upper,
  format32 lower -> lower <= upper ->
  lower <= pcg_float rnd lower upper (pcg_nth seed seq n) <= pcg_float_hi rnd lower upper.
Proof.
  exact (fun seed seq n lower upper Fl Hlu =>
           pcg_float_range32 lower upper (pcg_nth seed seq n) Fl Hlu (pcg_nth_range seed seq n)).
Qed.
Print Assumptions pcg_float_range_binary32.

(* ======================================================================================
   The executable binary32 twin (what the correspondence run compares bit for bit with the
   NO_SIMD build) computes the R-model's value whenever no step overflows.
   ====================================================================================== *)
Theorem b32_rcp_refines : forall x : binary32,
  B2R 24 128 x <> 0 ->
  Rabs (rcp_nosimd (B2R 24 128 x)) < bpow radix2 128 ->
  B2R 24 128 (b_rcp x) = rcp_nosimd (B2R 24 128 x) /\ is_finite 24 128 (b_rcp x) = true.
Proof. exact b_rcp_refines. Qed.
Print Assumptions b32_rcp_refines.

Theorem b32_madd_refines : forall a b c : binary32,
  is_finite 24 128 a = true -> is_finite 24 128 b = true -> is_finite 24 128 c = true ->
  Rabs (fmul (B2R 24 128 a) (B2R 24 128 b)) < bpow radix2 128 ->
  Rabs (madd (B2R 24 128 a) (B2R 24 128 b) (B2R 24 128 c)) < bpow radix2 128 ->
  B2R 24 128 (b_madd a b c) = madd (B2R 24 128 a) (B2R 24 128 b) (B2R 24 128 c) /\
  is_finite 24 128 (b_madd a b c) = true.
Proof. exact b_madd_refines. Qed.
Print Assumptions b32_madd_refines.

Theorem b32_deg2rad_refines : forall x : binary32,
  is_finite 24 128 x = true ->
  Rabs (deg2rad (B2R 24 128 x)) < bpow radix2 128 ->
  B2R 24 128 (b_deg2rad x) = deg2rad (B2R 24 128 x).
Proof. exact b_deg2rad_refines. Qed.
Print Assumptions b32_deg2rad_refines.

(* the twin on concrete bit patterns: 1/3 = 0x3EAAAAAB, rcp_safe(+0) = 2^126, rcp_safe(-denormal) = -2^126,
   cvt(0.5) = 128 (half away from zero), pack *)
Example b32_known_answers :
  run_cases [(1, [1077936128]); (2, [0]); (2, [2147483649]); (9, [1056964608]);
             (10, [1056964608; 1065353216; 0; 1048576000])]%Z
  = [1051372203; 2122317824; 4269801472; 128; 1073807232]%Z.
Proof. vm_compute. reflexivity. Qed.
