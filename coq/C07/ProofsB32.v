(* C07 — the executable binary32 twin (ModelB32.v) refines the R reading (ModelR.v):
   Flocq's Bdiv/Bmult/Bplus correctness theorems instantiated at binary32. *)
From Coq Require Import Reals ZArith Lra.
From Flocq Require Import Core IEEE754.BinarySingleNaN IEEE754.Binary IEEE754.Bits.
From C07 Require Import Model ModelR ModelB32.
Local Open Scope R_scope.

Lemma B2R_c_one : B2R 24 128 c_one = 1.
Proof. unfold c_one, of_bits. vm_compute. lra. Qed.

Lemma is_finite_c_one : is_finite 24 128 c_one = true.
Proof. reflexivity. Qed.

Lemma b_rcp_refines x :
  B2R 24 128 x <> 0 ->
  Rabs (rcp_nosimd (B2R 24 128 x)) < bpow radix2 128 ->
  B2R 24 128 (b_rcp x) = rcp_nosimd (B2R 24 128 x) /\ is_finite 24 128 (b_rcp x) = true.
Proof.
  intros Hx Hov. unfold b_rcp, bdiv, b32_div.
  match goal with |- context [Bdiv 24 128 ?hp ?hm ?nan mode_NE c_one x] =>
    pose proof (Bdiv_correct 24 128 hp hm nan mode_NE c_one x Hx) as H end.
  rewrite B2R_c_one in H.
  change (round radix2 (FLT_exp (3 - 128 - 24) 24) (round_mode mode_NE) (1 / B2R 24 128 x))
    with (rcp_nosimd (B2R 24 128 x)) in H.
  rewrite Rlt_bool_true in H by exact Hov.
  destruct H as (H1 & H2 & _). split; [exact H1 | rewrite H2; reflexivity].
Qed.

Lemma bmul_refines a b :
  is_finite 24 128 a = true -> is_finite 24 128 b = true ->
  Rabs (fmul (B2R 24 128 a) (B2R 24 128 b)) < bpow radix2 128 ->
  B2R 24 128 (bmul a b) = fmul (B2R 24 128 a) (B2R 24 128 b) /\ is_finite 24 128 (bmul a b) = true.
Proof.
  intros Fa Fb Hov. unfold bmul, b32_mult.
  match goal with |- context [Bmult 24 128 ?hp ?hm ?nan mode_NE a b] =>
    pose proof (Bmult_correct 24 128 hp hm nan mode_NE a b) as H end.
  change (round radix2 (FLT_exp (3 - 128 - 24) 24) (round_mode mode_NE) (B2R 24 128 a * B2R 24 128 b))
    with (fmul (B2R 24 128 a) (B2R 24 128 b)) in H.
  rewrite Rlt_bool_true in H by exact Hov.
  destruct H as (H1 & H2 & _). split; [exact H1 | rewrite H2, Fa, Fb; reflexivity].
Qed.

Lemma badd_refines a b :
  is_finite 24 128 a = true -> is_finite 24 128 b = true ->
  Rabs (fadd (B2R 24 128 a) (B2R 24 128 b)) < bpow radix2 128 ->
  B2R 24 128 (badd a b) = fadd (B2R 24 128 a) (B2R 24 128 b) /\ is_finite 24 128 (badd a b) = true.
Proof.
  intros Fa Fb Hov. unfold badd, b32_plus.
  match goal with |- context [Bplus 24 128 ?hp ?hm ?nan mode_NE a b] =>
    pose proof (Bplus_correct 24 128 hp hm nan mode_NE a b Fa Fb) as H end.
  change (round radix2 (FLT_exp (3 - 128 - 24) 24) (round_mode mode_NE) (B2R 24 128 a + B2R 24 128 b))
    with (fadd (B2R 24 128 a) (B2R 24 128 b)) in H.
  rewrite Rlt_bool_true in H by exact Hov.
  destruct H as (H1 & H2 & _). split; [exact H1 | exact H2].
Qed.

(* madd on binary32 computes the R-model's madd whenever neither step overflows *)
Lemma b_madd_refines a b c :
  is_finite 24 128 a = true -> is_finite 24 128 b = true -> is_finite 24 128 c = true ->
  Rabs (fmul (B2R 24 128 a) (B2R 24 128 b)) < bpow radix2 128 ->
  Rabs (madd (B2R 24 128 a) (B2R 24 128 b) (B2R 24 128 c)) < bpow radix2 128 ->
  B2R 24 128 (b_madd a b c) = madd (B2R 24 128 a) (B2R 24 128 b) (B2R 24 128 c) /\
  is_finite 24 128 (b_madd a b c) = true.
Proof.
  intros Fa Fb Fc H1 H2. unfold b_madd, madd in *.
  destruct (bmul_refines a b Fa Fb H1) as [E F].
  rewrite <- E in H2. destruct (badd_refines (bmul a b) c F Fc H2) as [E2 F2].
  rewrite E2, E. split; [reflexivity | exact F2].
Qed.

Lemma B2R_c_deg2rad : B2R 24 128 c_deg2rad = deg2rad_c.
Proof. unfold c_deg2rad, of_bits, deg2rad_c. vm_compute. lra. Qed.

Lemma b_deg2rad_refines x :
  is_finite 24 128 x = true ->
  Rabs (deg2rad (B2R 24 128 x)) < bpow radix2 128 ->
  B2R 24 128 (b_deg2rad x) = deg2rad (B2R 24 128 x).
Proof.
  intros Fx H. unfold b_deg2rad, deg2rad in *. rewrite <- B2R_c_deg2rad in *.
  apply bmul_refines; [exact Fx | reflexivity | exact H].
Qed.

(* ---- the range clause in the denormal regime, on the executable twin ------------------------
   Largest generator output k = 2^32-1 (converted to float: 2^32).
   (a) the code's order  (scale * rng()) * diff + lower  returns exactly upper on [0, 1e-30];
   (b) the order of seeded change C07-5  rng() * ((upper - lower) * scale) + lower  exceeds upper there
       (diff * 2^-32 is a denormal whose rounding error is multiplied by 2^32);
   (c) uniform_real_distribution before repair fix-1, scale = (u - l) / 2^32 first, exceeds u = 1.5 * 2^-117 by a
       third (returns 2^-116); the repaired order returns u. *)
Local Open Scope Z_scope.
Lemma b_pcg_float_scaled_diff_refuted :
  let lo := of_bits 0 in let hi := of_bits 228737632 (* 1e-30f *) in let k := 4294967295 in
  bltb hi (b_pcg_float_k lo hi k) = false /\ to_bits (b_pcg_float_k lo hi k) = 228737632 /\
  bltb hi (b_pcg_float_scaled_k lo hi k) = true.
Proof. vm_compute. repeat split; reflexivity. Qed.

Lemma b_uniform_old_refuted :
  let l := of_bits 0 in let u := of_bits 88080384 (* 1.5 * 2^-117 *) in let k := 4294967295 in
  bltb u (b_uniform_old_k l u k) = true /\ to_bits (b_uniform_old_k l u k) = 92274688 (* 2^-116 *) /\
  bltb u (b_uniform_k l u k) = false /\ to_bits (b_uniform_k l u k) = 88080384.
Proof. vm_compute. repeat split; reflexivity. Qed.
