(* C07 — the float kernels read in a binary32 interpretation over R: every
   arithmetic operation is followed by rounding to nearest-even in the format
   FLT(-149,24) (IEEE binary32 without the upper exponent bound; "finite" is a
   separate predicate).  Definitions only.
   Mirrors rkcommon/math/rkmath.h, vec.h:976-998, utility/random.h:14-64. *)
From Coq Require Import Reals ZArith.
From Flocq Require Import Core.
From C07 Require Import Model.
Local Open Scope R_scope.

Definition fexp : Z -> Z := FLT_exp (-149) 24.
Definition rnd (x : R) : R := round radix2 fexp ZnearestE x.
Definition format32 (x : R) : Prop := generic_format radix2 fexp x.
Definition FLT_MIN : R := bpow radix2 (-126).
Definition FLT_MAX : R := (2 - bpow radix2 (-23)) * bpow radix2 127.
(* finite binary32 value: in the format and no overflow *)
Definition finite32 (x : R) : Prop := format32 x /\ Rabs x <= FLT_MAX.

Definition fadd (a b : R) : R := rnd (a + b).
Definition fsub (a b : R) : R := rnd (a - b).
Definition fmul (a b : R) : R := rnd (a * b).
Definition fdiv (a b : R) : R := rnd (a / b).
Definition fsqrt (a : R) : R := rnd (sqrt a).

(* x < 0 ? -1.0f : 1.0f *)
Definition sign (x : R) : R := if Rlt_bool x 0 then -1 else 1.

(* the hardware estimate instructions are parameters of the model *)
Section Estimates.
  Variable rcp_est : R -> R.      (* rcpss *)
  Variable rsqrt_est : R -> R.    (* rsqrtss *)

  (* r = rcpss(x);  r * (2 - r * x) *)
  Definition rcp_simd (x : R) : R :=
    let r := rcp_est x in fmul r (fsub 2 (fmul r x)).
  (* r = rsqrtss(x);  1.5 * r + ((x * -0.5) * r) * (r * r) *)
  Definition rsqrt_simd (x : R) : R :=
    let r := rsqrt_est x in
    fadd (fmul (3 / 2) r) (fmul (fmul (fmul x (- (1 / 2))) r) (fmul r r)).
End Estimates.

(* RKCOMMON_NO_SIMD *)
Definition rcp_nosimd (x : R) : R := fdiv 1 x.
Definition rsqrt_nosimd (x : R) : R := fdiv 1 (fsqrt x).

(* rcp_safe_t: rcp(std::abs(x) < flt_min ? (x >= 0.f ? flt_min : -flt_min) : x) *)
Definition rcp_safe_arg (x : R) : R :=
  if Rlt_bool (Rabs x) FLT_MIN then (if Rle_bool 0 x then FLT_MIN else - FLT_MIN) else x.
Definition rcp_safe (rcp : R -> R) (x : R) : R := rcp (rcp_safe_arg x).

(* ---- type-generic reading of the templates / double overloads: the same text at any precision.
   rn is the rounding of the type T, tmin = std::numeric_limits<T>::min().
   rcp(T) (NO_SIMD form and the double overload) = 1/x;  rcp_safe_t<T> as above with T's constants. *)
Definition rnd64 (x : R) : R := round radix2 (FLT_exp (-1074) 53) ZnearestE x.
Definition DBL_MIN : R := bpow radix2 (-1022).
Section AnyPrecision.
  Variable rn : R -> R.
  Variable tmin : R.
  Definition rcp_g (x : R) : R := rn (1 / x).
  Definition rcp_safe_arg_g (x : R) : R :=
    if Rlt_bool (Rabs x) tmin then (if Rle_bool 0 x then tmin else - tmin) else x.
  Definition rcp_safe_g (x : R) : R := rcp_g (rcp_safe_arg_g x).
  Definition rsqrt_g (x : R) : R := rn (1 / rn (sqrt x)).
  Definition madd_g (a b c : R) : R := rn (rn (a * b) + c).
End AnyPrecision.

(* clamp / min / max at float: the generic definition of Model.v with operator< *)
Definition clampR (x lo hi : R) : R := clamp R Rlt_bool x lo hi.
Definition maxR (a b : R) : R := gmax R Rlt_bool a b.

(* x * T(1.745329251994329576923690768489e-2): the float nearest to the literal
   is 9370165 * 2^-29 (bits 0x3C8EFA35; checked against the compiled constant by
   the harness) *)
Definition deg2rad_c : R := IZR 9370165 * bpow radix2 (-29).
Definition deg2rad (x : R) : R := fmul x deg2rad_c.
(* a * b + c, two roundings (no contraction to fma: the library is built without -mfma) *)
Definition madd (a b c : R) : R := fadd (fmul a b) c.
(* (1.f - factor) * a + factor * b *)
Definition lerp (f a b : R) : R := fadd (fmul (fsub 1 f) a) (fmul f b).

(* (uint32_t) round(255.f * clamp(f, 0.f, 1.f)); round = half away from zero *)
Definition cvt (f : R) : Z := ZnearestA (fmul 255 (clampR f 0 1)).

Section Libm.
  Variable powf : R -> R -> R.          (* std::pow on float *)
  (* 1.f / 2.2f; the literal 2.2f is written as clang prints it (2.20000005 = 44000001/20000000,
     which rounds to the same float as 2.2) so that the regenerated text matches verbatim *)
  Definition inv_gamma : R := fdiv 1 (rnd (IZR 44000001 / IZR 20000000)).
  (* c = std::max(f, 0.f); std::pow(c, 1.f/2.2f) *)
  Definition linear_to_srgb (f : R) : R := powf (maxR f 0) inv_gamma.
  (* linear_to_srgba8 = cvt_uint32(linear_to_srgba(c)) *)
  Definition linear_to_srgba8 (x y z w : R) : Z :=
    pack (cvt (linear_to_srgb x)) (cvt (linear_to_srgb y)) (cvt (linear_to_srgb z))
         (cvt (maxR w 0)).
End Libm.

(* the random distributions, for an arbitrary rounding function rn (float or double) *)
Section Dist.
  Variable rn : R -> R.
  (* diff = upper - lower;  (scale * rng()) * diff + lower  with scale = 2^-32 and
     rng() a uint32_t converted to float *)
  Definition pcg_float (lower upper : R) (k : Z) : R :=
    let diff := rn (upper - lower) in
    rn (rn (rn (bpow radix2 (-32) * rn (IZR k)) * diff) + lower).
  Definition pcg_float_hi (lower upper : R) : R := rn (rn (upper - lower) + lower).
  (* uniform_real_distribution<T>::operator()(G&) with G = pcg32 (g.min() = 0, g.max() = 2^32-1), after repair
     (build/handoff/C07/fix-1): the sample is normalised first,
       range = T(g.max() - g.min());  l + ((g() - g.min()) / range) * (u - l) *)
  Definition uniform_real (l u : R) (k : Z) : R :=
    rn (l + rn (rn (rn (IZR k) / rn (IZR 4294967295)) * rn (u - l))).
  Definition uniform_real_hi (l u : R) : R := rn (l + rn (u - l)).
  (* the same template member for ANY generator G with range [gmin, gmax] (g.min(), g.max()), sample k = g():
       range = T(g.max() - g.min());  l + ((g() - g.min()) / range) * (u - l)
     (the subtractions are done in G's unsigned result_type, where gmin <= k <= gmax makes them exact) *)
  Definition uniform_real_g (l u : R) (gmin gmax k : Z) : R :=
    rn (l + rn (rn (rn (IZR (k - gmin)) / rn (IZR (gmax - gmin))) * rn (u - l))).
  (* the code before the repair: scale = (u - l) / T(g.max() - g.min());  l + (g() - g.min()) * scale.
     For a width below about 2^-94 the scale is a denormal whose rounding error is multiplied by up to 2^32:
     only the weak bound uniform_real_old_hi (the formula itself at the largest sample) holds, and values
     exceed u by up to a third (ModelB32.b_uniform_old_refuted) *)
  Definition uniform_real_old (l u : R) (k : Z) : R :=
    let scale := rn (rn (u - l) / rn (IZR 4294967295)) in
    rn (l + rn (rn (IZR k) * scale)).
  Definition uniform_real_old_hi (l u : R) : R :=
    rn (l + rn (rn (IZR 4294967295) * rn (rn (u - l) / rn (IZR 4294967295)))).
End Dist.

(* makeRandomColor channel: (g % m) * (1.f / (m - 1)) *)
Definition color_channel (i m : Z) : R :=
  fmul (rnd (IZR (color_g i mod m))) (fdiv 1 (rnd (IZR (m - 1)))).
