#!/bin/bash
# regenerate gen/GenMath.v (Tie A: scalar kernels, packing, pcg32 output/rotr/stream/multiplier; NO_SIMD forms)
# gen/SimdFacts.v (expression trees of the SIMD branches of rcp/rsqrt) and gen/DistFacts.v (expression trees of the
# float distributions of utility/random.h) from the current repo
# sources; props/C07/check.py does the same on every run.
cd "$(dirname "$0")"
mkdir -p gen ../../build/include/rkcommon ../../build/C07
python3 ../../lib/mkversion.py >/dev/null 2>&1
ONLY='^(clamp__(f_f_f|i_i_i|d_d_d)$|cvt_uint32__|deg2rad__(f|d)$|divRoundUp__|lerp__f_(f_f|d_d)$|linear_to_srgb|madd__(f_f_f|d_d_d)$|rcp__(f|d)$|rcp_safe__(f|d)$|rsqrt__(f|d)$|sign__f$|utility_makeRandomColor__u$|pcg_detail_xsh_rr_mixin_output__ul$|pcg_extras_rotr__u_uc$|pcg_detail_specific_stream_mk__ul$|pcg_detail_default_multiplier_multiplier___4$)'
python3 ../../tools/cxx2coq/cxx2coq.py ../../tools/cxx2coq/inst/scalar.cpp gen/GenMath.v.new --repo "${VERIF_REPO:-/repo}" \
  -D RKCOMMON_NO_SIMD --filter2 pcg_ --only "$ONLY" \
  && { cmp -s gen/GenMath.v.new gen/GenMath.v || mv gen/GenMath.v.new gen/GenMath.v; rm -f gen/GenMath.v.new; }
python3 ../../props/C07/simdfacts.py "${VERIF_REPO:-/repo}" gen/SimdFacts.v.new \
  && { cmp -s gen/SimdFacts.v.new gen/SimdFacts.v || mv gen/SimdFacts.v.new gen/SimdFacts.v; rm -f gen/SimdFacts.v.new; }
python3 ../../props/C07/distfacts.py "${VERIF_REPO:-/repo}" gen/DistFacts.v.new \
  && { cmp -s gen/DistFacts.v.new gen/DistFacts.v || mv gen/DistFacts.v.new gen/DistFacts.v; rm -f gen/DistFacts.v.new; }
python3 ../../props/C07/pcgfacts.py "${VERIF_REPO:-/repo}" gen/PcgFacts.v.new \
  && { cmp -s gen/PcgFacts.v.new gen/PcgFacts.v || mv gen/PcgFacts.v.new gen/PcgFacts.v; rm -f gen/PcgFacts.v.new; }
true
