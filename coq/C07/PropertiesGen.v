(* C07 — Tie A obligations.  gen/GenMath.v (tools/cxx2coq, clang AST of rkmath.h / vec.h / random.h /
   pcg_random.hpp with -DRKCOMMON_NO_SIMD) and gen/SimdFacts.v (props/C07/simdfacts.py, SIMD branch)
   are REGENERATED from the working tree on every run; each theorem states that the regenerated
   definition, under the binary32-over-R reading IF32 (Sem.v) or the ideal / machine integer readings
   IZ / MZ (Common.CxxSem), IS the hand-written definition the theorems of Properties.v are about.
   A source change to one of these functions breaks the corresponding obligation. *)
From Coq Require Import Reals ZArith List Bool.
From Flocq Require Import Core IEEE754.BinarySingleNaN IEEE754.Binary IEEE754.Bits.
From Common Require Import CxxSem.
From C07 Require Import Model ModelR ModelB32 Sem ProofsGen.
From C07.gen Require Import GenMath SimdFacts DistFacts.
Import ListNotations.
Local Open Scope R_scope.

(* ---- float kernels, NO_SIMD forms ---- *)
Theorem gen_rcp_is_model : forall powf x, rcp__f (IF32 powf) x = rcp_nosimd x.
Proof. exact gen_rcp. Qed.
Print Assumptions gen_rcp_is_model.

Theorem gen_rsqrt_is_model : forall powf x, rsqrt__f (IF32 powf) x = rsqrt_nosimd x.
Proof. exact gen_rsqrt. Qed.
Print Assumptions gen_rsqrt_is_model.

Theorem gen_rcp_safe_is_model : forall powf x, rcp_safe__f (IF32 powf) x = rcp_safe rcp_nosimd x.
Proof. exact gen_rcp_safe. Qed.
Print Assumptions gen_rcp_safe_is_model.

Theorem gen_clamp_float_is_model : forall powf x lo hi, clamp__f_f_f (IF32 powf) x lo hi = clampR x lo hi.
Proof. exact gen_clamp. Qed.
Print Assumptions gen_clamp_float_is_model.

Theorem gen_sign_is_model : forall powf x, sign__f (IF32 powf) x = sign x.
Proof. exact gen_sign. Qed.
Print Assumptions gen_sign_is_model.

Theorem gen_lerp_is_model : forall powf f a b, lerp__f_f_f (IF32 powf) f a b = lerp f a b.
Proof. exact gen_lerp. Qed.
Print Assumptions gen_lerp_is_model.

Theorem gen_madd_is_model : forall powf a b c, madd__f_f_f (IF32 powf) a b c = madd a b c.
Proof. exact gen_madd. Qed.
Print Assumptions gen_madd_is_model.

Theorem gen_deg2rad_is_model : forall powf x,
  deg2rad__f (IF32 powf) x = fmul x (rnd (rnd64 (IZR (fst deg2rad_literal) / IZR (snd deg2rad_literal)))).
Proof. exact gen_deg2rad. Qed.
Print Assumptions gen_deg2rad_is_model.

Theorem gen_deg2rad_constant_is_model :
  of_bits deg2rad_literal_bits = c_deg2rad /\ B2R 24 128 (of_bits deg2rad_literal_bits) = deg2rad_c.
Proof. exact gen_deg2rad_constant. Qed.
Print Assumptions gen_deg2rad_constant_is_model.

Theorem gen_linear_to_srgb_is_model : forall powf f, linear_to_srgb__f (IF32 powf) f = linear_to_srgb powf f.
Proof. exact gen_linear_to_srgb. Qed.
Print Assumptions gen_linear_to_srgb_is_model.

(* ---- the double overloads and instantiations of the same templates (binary64 rounding rnd64) ---- *)
Theorem gen_rcp_double_is_model : forall powf x, rcp__d (IF32 powf) x = rcp_g rnd64 x.
Proof. exact gen_rcp_d. Qed.
Print Assumptions gen_rcp_double_is_model.

Theorem gen_rsqrt_double_is_model : forall powf x, rsqrt__d (IF32 powf) x = rsqrt_g rnd64 x.
Proof. exact gen_rsqrt_d. Qed.
Print Assumptions gen_rsqrt_double_is_model.

(* rcp_safe_t<T> is ONE text at both precisions: T's own min() as threshold and replacement, sign test x >= 0 *)
Theorem gen_rcp_safe_double_is_model : forall powf x, rcp_safe__d (IF32 powf) x = rcp_safe_g rnd64 DBL_MIN x.
Proof. exact gen_rcp_safe_d. Qed.
Print Assumptions gen_rcp_safe_double_is_model.

Theorem gen_rcp_safe_float_is_generic : forall powf x, rcp_safe__f (IF32 powf) x = rcp_safe_g rnd FLT_MIN x.
Proof. exact gen_rcp_safe_f_generic. Qed.
Print Assumptions gen_rcp_safe_float_is_generic.

Theorem gen_clamp_double_is_model : forall powf x lo hi, clamp__d_d_d (IF32 powf) x lo hi = clampR x lo hi.
Proof. exact gen_clamp_d. Qed.
Print Assumptions gen_clamp_double_is_model.

Theorem gen_madd_double_is_model : forall powf a b c, madd__d_d_d (IF32 powf) a b c = madd_g rnd64 a b c.
Proof. exact gen_madd_d. Qed.
Print Assumptions gen_madd_double_is_model.

Theorem gen_deg2rad_double_is_model : forall powf x,
  deg2rad__d (IF32 powf) x = rnd64 (x * rnd64 (IZR 3490658503988659 / IZR 200000000000000000)).
Proof. exact gen_deg2rad_d. Qed.
Print Assumptions gen_deg2rad_double_is_model.

Theorem gen_lerp_double_is_model : forall powf f a b,
  lerp__f_d_d (IF32 powf) f a b = rnd64 (rnd64 (rnd64 (rnd (1 - f)) * a) + rnd64 (rnd64 f * b)).
Proof. exact gen_lerp_d. Qed.
Print Assumptions gen_lerp_double_is_model.

(* ---- 8-bit conversion and packing (mixed float / uint32_t) ---- *)
Theorem gen_cvt_uint32_is_model : forall powf f, cvt_uint32__f (IF32 powf) f = IZR (cvt f).
Proof. exact gen_cvt. Qed.
Print Assumptions gen_cvt_uint32_is_model.

Theorem gen_cvt_uint32_vec4_is_model : forall powf x y z w,
  cvt_uint32__v4f (IF32 powf) (mk_vec4 (IF32 powf) x y z w) = IZR (pack (cvt x) (cvt y) (cvt z) (cvt w)).
Proof. exact gen_pack. Qed.
Print Assumptions gen_cvt_uint32_vec4_is_model.

(* linear_to_srgba(vec4f) has no guard on the components: each result channel is the scalar path on that
   component alone (a fast path keyed on equal components changes this definition and breaks the obligation) *)
Theorem gen_linear_to_srgba_is_model : forall powf x y z w,
  linear_to_srgba__v4f (IF32 powf) (mk_vec4 (IF32 powf) x y z w)
  = mk_vec4 (IF32 powf) (linear_to_srgb powf x) (linear_to_srgb powf y) (linear_to_srgb powf z) (maxR w 0).
Proof. exact gen_linear_to_srgba. Qed.
Print Assumptions gen_linear_to_srgba_is_model.

Theorem gen_linear_to_srgba8_is_model : forall powf x y z w,
  linear_to_srgba8__v4f (IF32 powf) (mk_vec4 (IF32 powf) x y z w) = IZR (linear_to_srgba8 powf x y z w).
Proof. exact gen_srgba8. Qed.
Print Assumptions gen_linear_to_srgba8_is_model.

(* ---- integer kernels ---- *)
Local Open Scope Z_scope.

Theorem gen_divRoundUp_int_is_model : forall a b, divRoundUp__i_i IZ a b = divRoundUp a b.
Proof. exact gen_divRoundUp_int. Qed.
Print Assumptions gen_divRoundUp_int_is_model.

Theorem gen_divRoundUp_int64_is_model : forall a b, divRoundUp__l_l IZ a b = divRoundUp a b.
Proof. exact gen_divRoundUp_int64. Qed.
Print Assumptions gen_divRoundUp_int64_is_model.

Theorem gen_divRoundUp_uint32_is_model : forall a b, 0 < b -> divRoundUp__u_u MZ a b = divRoundUp_u 32 a b.
Proof. exact gen_divRoundUp_u32. Qed.
Print Assumptions gen_divRoundUp_uint32_is_model.

Theorem gen_divRoundUp_size_t_is_model : forall a b, 0 < b -> divRoundUp__ul_ul MZ a b = divRoundUp_u 64 a b.
Proof. exact gen_divRoundUp_u64. Qed.
Print Assumptions gen_divRoundUp_size_t_is_model.

(* narrow instantiations (T narrower than int): operands promoted to int, ONE narrowing at the return -- the position of
   the cast back to T is part of the regenerated text *)
Theorem gen_divRoundUp_uint8_is_model : forall a b, 0 <= a < 256 -> 0 < b < 256 ->
  divRoundUp__uc_uc MZ a b = divRoundUp_n false 8 a b.
Proof. exact gen_divRoundUp_u8. Qed.
Print Assumptions gen_divRoundUp_uint8_is_model.

Theorem gen_divRoundUp_int16_is_model : forall a b, 0 <= a < 32768 -> 0 < b < 32768 ->
  divRoundUp__s_s MZ a b = divRoundUp_n true 16 a b.
Proof. exact gen_divRoundUp_i16. Qed.
Print Assumptions gen_divRoundUp_int16_is_model.

Theorem gen_divRoundUp_narrow_ideal_is_model : forall a b,
  divRoundUp__c_c IZ a b = divRoundUp a b /\ divRoundUp__uc_uc IZ a b = divRoundUp a b /\
  divRoundUp__s_s IZ a b = divRoundUp a b /\ divRoundUp__us_us IZ a b = divRoundUp a b.
Proof. exact gen_divRoundUp_narrow_ideal. Qed.
Print Assumptions gen_divRoundUp_narrow_ideal_is_model.

Theorem gen_clamp_int_is_model : forall x lo hi, clamp__i_i_i IZ x lo hi = clampZ x lo hi.
Proof. exact gen_clamp_int. Qed.
Print Assumptions gen_clamp_int_is_model.

(* ---- pcg32 (pcg_random.hpp / pcg_extras.hpp) ---- *)
Theorem gen_pcg_multiplier_is_model : pcg_detail_default_multiplier_multiplier___4 MZ = pcg_mult.
Proof. exact gen_pcg_multiplier. Qed.
Print Assumptions gen_pcg_multiplier_is_model.

Theorem gen_pcg_stream_constructor_is_model : forall seq, 0 <= seq < 2 ^ 64 ->
  specific_stream_inc_ (pcg_detail_specific_stream_mk__ul MZ seq) = snd (pcg_seed 0 seq).
Proof. exact gen_pcg_stream. Qed.
Print Assumptions gen_pcg_stream_constructor_is_model.

(* xsh_rr_mixin<uint32_t,uint64_t>::output (with pcg_extras::rotr inlined): for EVERY 64-bit state the
   regenerated text under the machine reading computes the model's pcg_output *)
Theorem gen_pcg_output_is_model : forall s, 0 <= s < 2 ^ 64 ->
  pcg_detail_xsh_rr_mixin_output__ul MZ s = pcg_output s.
Proof. exact gen_pcg_output_full. Qed.
Print Assumptions gen_pcg_output_is_model.

(* partial: rotr on its own is compared reflectively (all 32 amounts x 120 probe words); the engine's
   stateful members (bump / seed / operator()) are outside the translator's subset and stay hand-modelled
   (pcg_bump, pcg_seed, pcg_next), tied by the differential run on seeded streams *)
Theorem gen_pcg_rotr_is_model_partial :
  forallb (fun v => forallb (fun r => Z.eqb (pcg_extras_rotr__u_uc MZ v (Z.of_nat r)) (rotr32 v (Z.of_nat r))) (seq 0 32))
          (map u32 pcg_probes) = true.
Proof. exact gen_pcg_rotr_probes. Qed.
Print Assumptions gen_pcg_rotr_is_model_partial.

(* ---- SIMD branches: the intrinsic expression trees extracted from the AST denote the Newton-step
   formulas rcp_accuracy / rsqrt_accuracy are stated about (operand order and constants included) ---- *)
Local Open Scope R_scope.

Theorem gen_rcp_simd_is_model : forall rcp_est rsqrt_est x,
  denote rcp_est rsqrt_est rcp_simd_ast x = rcp_simd rcp_est x.
Proof. exact gen_rcp_simd. Qed.
Print Assumptions gen_rcp_simd_is_model.

Theorem gen_rsqrt_simd_is_model : forall rcp_est rsqrt_est x,
  denote rcp_est rsqrt_est rsqrt_simd_ast x = rsqrt_simd rsqrt_est x.
Proof. exact gen_rsqrt_simd. Qed.
Print Assumptions gen_rsqrt_simd_is_model.

(* ---- float distributions of utility/random.h (trees from props/C07/distfacts.py): the constructor's diff and
   operator()'s return expression denote, for ANY rounding rn, the model's order (scale * rng()) * diff + lower
   with diff = upper - lower; uniform_real_distribution<float>::operator() denotes the model's
   l + ((g() - min) / range) * (u - l).  The range theorems of Properties.v are about exactly these. ---- *)
Theorem gen_dist_diff_is_model : forall rn lower upper d k,
  ddenote rn lower upper d k dist_diff_ast = rn (upper - lower).
Proof. exact gen_dist_diff. Qed.
Print Assumptions gen_dist_diff_is_model.

Theorem gen_dist_return_is_model : forall rn lower upper diff k,
  ddenote rn lower upper diff k dist_return_ast = rn (rn (rn (bpow radix2 (-32) * rn (IZR k)) * diff) + lower).
Proof. exact gen_dist_return. Qed.
Print Assumptions gen_dist_return_is_model.

Theorem gen_pcg_float_distribution_is_model : forall rn lower upper k,
  ddenote rn lower upper (ddenote rn lower upper 0 k dist_diff_ast) k dist_return_ast = pcg_float rn lower upper k.
Proof. exact gen_dist. Qed.
Print Assumptions gen_pcg_float_distribution_is_model.

Theorem gen_uniform_real_distribution_is_model : forall rn l u k,
  ddenote rn l u 0 k uniform_return_ast = uniform_real rn l u k.
Proof. exact gen_uniform. Qed.
Print Assumptions gen_uniform_real_distribution_is_model.

(* generic in the GENERATOR: for any g.min() / g.max() the regenerated return expression subtracts g.min() from the sample
   (numerator) and from g.max() (divisor): it is the model's uniform_real_g, which stays in [l, rn(l + rn(u-l))] for every
   generator range gmin < gmax (Properties.uniform_real_any_generator_range) *)
Theorem gen_uniform_real_any_generator_is_model : forall rn l u gmin gmax k,
  ddenote_g rn l u 0 gmin gmax k uniform_return_ast = uniform_real_g rn l u gmin gmax k.
Proof. exact gen_uniform_any_generator. Qed.
Print Assumptions gen_uniform_real_any_generator_is_model.
