(* C07 — error-bound proofs about the binary32-over-R reading (ModelR.v) that use the interval
   tactic: rcp / rsqrt accuracy, deg2rad.  Re-exports ProofsRBase. *)
From Coq Require Import Reals ZArith Lia Lra Psatz.
From Flocq Require Import Core Relative.
From Interval Require Import Tactic.
From C07 Require Import Model ModelR ProofsInt.
From C07 Require Export ProofsRBase.
Local Open Scope R_scope.

(* ------------------------------------------------------- polynomial bounds *)
Lemma rcp_poly e d1 d2 d3 h1 h2 w :
  Rabs e <= 3 / 8192 -> Rabs d1 <= u24 -> Rabs d2 <= u24 -> Rabs d3 <= u24 ->
  Rabs h1 <= eta32 -> Rabs h2 <= eta32 -> Rabs w <= bpow radix2 (-24) ->
  Rabs ((1 + e) * ((2 - ((1 + e) * (1 + d1) + h1)) * (1 + d2) + h2) * (1 + d3) + w - 1)
  <= bpow radix2 (-20).
Proof. intros. interval with (i_taylor e, i_bisect e, i_prec 60). Qed.

Lemma rsqrt_poly e d1 d2 d3 d4 d5 d6 g1 g2 g3 g4 g5 g6 :
  Rabs e <= 3 / 8192 ->
  Rabs d1 <= u24 -> Rabs d2 <= u24 -> Rabs d3 <= u24 -> Rabs d4 <= u24 -> Rabs d5 <= u24 -> Rabs d6 <= u24 ->
  Rabs g1 <= bpow radix2 (-80) -> Rabs g2 <= bpow radix2 (-24) -> Rabs g3 <= bpow radix2 (-80) ->
  Rabs g4 <= bpow radix2 (-24) -> Rabs g5 <= bpow radix2 (-80) -> Rabs g6 <= bpow radix2 (-80) ->
  Rabs (((3 / 2 * (1 + e) * (1 + d1) + g1)
         + (((- (1 / 2) * (1 + d2) + g2) * (1 + e) * (1 + d3) + g3)
            * ((1 + e) * (1 + e) * (1 + d4) + g4) * (1 + d5) + g5)) * (1 + d6) + g6 - 1)
  <= bpow radix2 (-20).
Proof. intros. interval with (i_taylor e, i_bisect e, i_prec 60). Qed.

Lemma rsqrt_nosimd_poly d1 d2 g1 g2 :
  Rabs d1 <= u24 -> Rabs d2 <= u24 -> Rabs g1 <= bpow radix2 (-24) -> Rabs g2 <= bpow radix2 (-24) ->
  Rabs ((1 + d2) / ((1 + d1) + g1) + g2 - 1) <= bpow radix2 (-20).
Proof. intros. interval. Qed.

Section Estimates.
  Variable rcp_est : R -> R.
  Variable rsqrt_est : R -> R.
  (* vendor contract of rcpss / rsqrtss (relative error at most 1.5 * 2^-12 on normal
     arguments whose reciprocal is normal); for huge arguments the reciprocal estimate
     may be flushed to zero but is never of the wrong sign or too large *)
  Hypothesis H_rcp : forall x, format32 x -> FLT_MIN <= Rabs x < bpow radix2 126 ->
    Rabs (rcp_est x * x - 1) <= 3 / 8192.
  Hypothesis H_rsqrt : forall x, format32 x -> FLT_MIN <= x < bpow radix2 126 ->
    Rabs (rsqrt_est x * sqrt x - 1) <= 3 / 8192.

  Lemma rcp_simd_accuracy x :
    format32 x -> FLT_MIN <= Rabs x < bpow radix2 126 ->
    Rabs (rcp_simd rcp_est x * x - 1) <= bpow radix2 (-20).
  Proof.
    clear H_rsqrt rsqrt_est.
    intros Fx Hx. pose proof (H_rcp x Fx Hx) as He. unfold rcp_simd, fmul, fsub.
    set (r := rcp_est x) in *.
    destruct (rnd_err (r * x)) as (d1 & h1 & Hd1 & Hh1 & _ & E1). rewrite E1.
    destruct (rnd_err (2 - (r * x * (1 + d1) + h1))) as (d2 & h2 & Hd2 & Hh2 & _ & E2). rewrite E2.
    destruct (rnd_err (r * ((2 - (r * x * (1 + d1) + h1)) * (1 + d2) + h2)))
      as (d3 & h3 & Hd3 & Hh3 & _ & E3). rewrite E3.
    set (e := r * x - 1) in *.
    assert (Hw : Rabs (h3 * x) <= bpow radix2 (-24)) by (apply eta_scaled; lra).
    match goal with |- Rabs ?E <= _ =>
      replace E with ((1 + e) * ((2 - ((1 + e) * (1 + d1) + h1)) * (1 + d2) + h2) * (1 + d3) + h3 * x - 1)
        by (unfold e; ring) end.
    apply rcp_poly; assumption.
  Qed.

  (* ------------------------------------------------------------------- rsqrt *)
  Lemma rsqrt_simd_accuracy x :
    format32 x -> FLT_MIN <= x < bpow radix2 126 ->
    Rabs (rsqrt_simd rsqrt_est x * sqrt x - 1) <= bpow radix2 (-20).
  Proof.
    clear H_rcp rcp_est.
    intros Fx Hx. pose proof (H_rsqrt x Fx Hx) as He.
    pose proof (sqrt_range x Hx) as Hs.
    assert (Hxpos : 0 <= x) by (pose proof FLT_MIN_pos; lra).
    pose proof (sqrt_sqrt x Hxpos) as Hss.
    unfold rsqrt_simd, fadd, fmul.
    set (r := rsqrt_est x) in *. set (s := sqrt x) in *.
    assert (Hs0 : 0 < s) by (pose proof (bpow_gt_0 radix2 (-63)); lra).
    destruct (rnd_err (3 / 2 * r)) as (d1 & h1 & Hd1 & Hh1 & _ & E1). rewrite E1.
    destruct (rnd_err (x * - (1 / 2))) as (d2 & h2 & Hd2 & Hh2 & _ & E2). rewrite E2.
    destruct (rnd_err ((x * - (1 / 2) * (1 + d2) + h2) * r)) as (d3 & h3 & Hd3 & Hh3 & _ & E3). rewrite E3.
    destruct (rnd_err (r * r)) as (d4 & h4 & Hd4 & Hh4 & _ & E4). rewrite E4.
    match goal with |- context [rnd (?A * ?B)] =>
      destruct (rnd_err (A * B)) as (d5 & h5 & Hd5 & Hh5 & _ & E5); rewrite E5 end.
    match goal with |- context [rnd (?A + ?B)] =>
      destruct (rnd_err (A + B)) as (d6 & h6 & Hd6 & Hh6 & _ & E6); rewrite E6 end.
    clear E1 E2 E3 E4 E5 E6.
    set (e := r * s - 1) in *.
    assert (Hx1 : FLT_MIN <= x <= bpow radix2 126) by lra.
    unfold FLT_MIN in Hx1.
    assert (G1 : Rabs (h1 * s) <= bpow radix2 (-80)).
    { rewrite Rabs_mult. rewrite (Rabs_pos_eq s) by lra.
      pose proof (Rabs_pos h1). set (a := Rabs h1) in *. interval. }
    assert (G2 : Rabs (h2 / x) <= bpow radix2 (-24)).
    { unfold Rdiv. apply eta_scaled; [exact Hh2 |].
      assert (P : 0 < x) by (pose proof (bpow_gt_0 radix2 (-126)); lra).
      rewrite Rabs_pos_eq by (apply Rlt_le, Rinv_0_lt_compat; exact P).
      replace (bpow radix2 126) with (/ bpow radix2 (-126)) by (rewrite <- bpow_opp; reflexivity).
      apply Rinv_le_contravar; [apply bpow_gt_0 | lra]. }
    assert (G3 : Rabs (h3 / s) <= bpow radix2 (-80)).
    { unfold Rdiv. rewrite Rabs_mult. rewrite (Rabs_pos_eq (/ s)) by (apply Rlt_le, Rinv_0_lt_compat; exact Hs0).
      pose proof (Rabs_pos h3). set (a := Rabs h3) in *. interval. }
    assert (G4 : Rabs (h4 * x) <= bpow radix2 (-24)).
    { apply eta_scaled; [exact Hh4 |]. rewrite Rabs_pos_eq by lra. lra. }
    assert (G5 : Rabs (h5 * s) <= bpow radix2 (-80)).
    { rewrite Rabs_mult. rewrite (Rabs_pos_eq s) by lra.
      pose proof (Rabs_pos h5). set (a := Rabs h5) in *. interval. }
    assert (G6 : Rabs (h6 * s) <= bpow radix2 (-80)).
    { rewrite Rabs_mult. rewrite (Rabs_pos_eq s) by lra.
      pose proof (Rabs_pos h6). set (a := Rabs h6) in *. interval. }
    match goal with |- Rabs ?E <= _ =>
      replace E with
        (((3 / 2 * (1 + e) * (1 + d1) + h1 * s)
          + (((- (1 / 2) * (1 + d2) + h2 / x) * (1 + e) * (1 + d3) + h3 / s)
             * ((1 + e) * (1 + e) * (1 + d4) + h4 * x) * (1 + d5) + h5 * s)) * (1 + d6) + h6 * s - 1)
    end.
    - apply rsqrt_poly; assumption.
    - unfold e. rewrite <- Hss. field. lra.
  Qed.

End Estimates.

(* ---------------------------------------------------------- rsqrt NO_SIMD *)
Lemma rsqrt_nosimd_accuracy x :
  FLT_MIN <= x < bpow radix2 126 -> Rabs (rsqrt_nosimd x * sqrt x - 1) <= bpow radix2 (-20).
Proof.
  intro Hx. pose proof (sqrt_range x Hx) as Hs. unfold rsqrt_nosimd, fdiv, fsqrt.
  set (s := sqrt x) in *.
  assert (Hs0 : 0 < s) by (pose proof (bpow_gt_0 radix2 (-63)); lra).
  destruct (rnd_err s) as (d1 & h1 & Hd1 & Hh1 & _ & E1). rewrite E1.
  destruct (rnd_err (1 / (s * (1 + d1) + h1))) as (d2 & h2 & Hd2 & Hh2 & _ & E2). rewrite E2.
  assert (G1 : Rabs (h1 / s) <= bpow radix2 (-24)).
  { unfold Rdiv. rewrite Rabs_mult. rewrite (Rabs_pos_eq (/ s)) by (apply Rlt_le, Rinv_0_lt_compat; exact Hs0).
    pose proof (Rabs_pos h1). set (a := Rabs h1) in *. interval. }
  assert (G2 : Rabs (h2 * s) <= bpow radix2 (-24)).
  { rewrite Rabs_mult. rewrite (Rabs_pos_eq s) by lra.
    pose proof (Rabs_pos h2). set (a := Rabs h2) in *. interval. }
  assert (Hden : (1 + d1) + h1 / s <> 0).
  { apply Rgt_not_eq. set (g := h1 / s) in *. interval. }
  replace ((1 / (s * (1 + d1) + h1) * (1 + d2) + h2) * s - 1)
    with ((1 + d2) / ((1 + d1) + h1 / s) + h2 * s - 1).
  - apply rsqrt_nosimd_poly; assumption.
  - replace (s * (1 + d1) + h1) with (s * ((1 + d1) + h1 / s)) by (field; lra).
    field. split; [lra |].
    replace ((1 + d1) * s + h1) with (s * ((1 + d1) + h1 / s)) by (field; lra).
    apply Rmult_integral_contrapositive_currified; [lra | exact Hden].
Qed.

Lemma deg2rad_def x : deg2rad x = rnd (x * deg2rad_c) /\ Rabs (deg2rad_c - PI / 180) <= bpow radix2 (-30).
Proof. split; [reflexivity | unfold deg2rad_c; interval]. Qed.

(* deg2rad is accurate to a few ulps for normal-range arguments *)
Lemma deg2rad_accuracy x :
  bpow radix2 (-120) <= Rabs x -> Rabs (deg2rad x - x * (PI / 180)) <= bpow radix2 (-22) * Rabs (x * (PI / 180)).
Proof.
  intro Hx. unfold deg2rad, fmul.
  assert (Hc : Rabs (deg2rad_c / (PI / 180) - 1) <= bpow radix2 (-26)) by (unfold deg2rad_c; interval).
  set (c := deg2rad_c) in *. set (p := PI / 180) in *.
  assert (Hp : 0 < p) by (unfold p; interval).
  assert (Hc2 : bpow radix2 (-6) <= c <= bpow radix2 (-5)) by (unfold c, deg2rad_c; split; interval).
  assert (Hn : bpow radix2 (-126) <= Rabs (x * c)).
  { rewrite Rabs_mult, (Rabs_pos_eq c) by (pose proof (bpow_gt_0 radix2 (-6)); lra).
    apply Rle_trans with (bpow radix2 (-120) * bpow radix2 (-6)).
    - rewrite <- bpow_plus. apply Rle_refl.
    - apply Rmult_le_compat; try (apply bpow_ge_0); lra. }
  destruct (relative_error_N_FLT_ex radix2 (-149) 24 ltac:(reflexivity) (fun z => negb (Z.even z)) (x * c) Hn)
    as (d & Hd & E).
  unfold rnd, fexp. rewrite E.
  set (k := c / p - 1) in *.
  replace (x * c * (1 + d) - x * p) with (x * p * ((1 + k) * (1 + d) - 1)) by (unfold k; field; lra).
  rewrite (Rabs_mult (x * p)). rewrite Rmult_comm. apply Rmult_le_compat_r; [apply Rabs_pos |].
  interval.
Qed.

