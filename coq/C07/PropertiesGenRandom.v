(* C07 — Tie A/C obligations for the random part (utility/random.h, utility/detail/pcg_random.hpp).
   gen/GenMath.v (tools/cxx2coq: multiplier, specific_stream constructor, XSH-RR output, rotr), gen/PcgFacts.v
   (props/C07/pcgfacts.py: bump, constructor state, base_generate0, operator(), seed forwarding, min/max) and
   gen/DistFacts.v (props/C07/distfacts.py: the two float distributions) are REGENERATED from the working tree on
   every run.  GenRandom.v assembles a pcg32 from the regenerated pieces only; the theorems below state that it is the
   hand model of Model.v / ModelR.v, so the reproducibility / range theorems of Properties.v speak about what the
   source spells out.  Everything over Z is closed under the global context. *)
From Coq Require Import Reals ZArith List Bool.
From Flocq Require Import Core IEEE754.BinarySingleNaN IEEE754.Binary IEEE754.Bits.
From Common Require Import Prelude CxxSem.
From C07 Require Import Model ModelR ModelB32 Sem GenRandom ProofsRBase ProofsGen ProofsGenRandom.
From C07.gen Require Import GenMath PcgFacts DistFacts.
Import ListNotations.
Local Open Scope Z_scope.

(* ---- the engine, piece by piece ---- *)
Theorem gen_pcg_bump_is_model : forall s i, gen_bump s i = pcg_bump s i.
Proof. exact gen_bump_eq. Qed.
Print Assumptions gen_pcg_bump_is_model.

Theorem gen_pcg_seed_is_model : forall seed seq, gen_seed seed seq = pcg_seed seed seq.
Proof. exact gen_seed_eq. Qed.
Print Assumptions gen_pcg_seed_is_model.

Theorem gen_pcg_next_is_model : forall g, 0 <= fst g < 2 ^ 64 -> gen_next g = pcg_next g.
Proof. exact gen_next_eq. Qed.
Print Assumptions gen_pcg_next_is_model.

(* the whole stream: what rng.seed(seed, sequence) followed by n calls of operator() returns *)
Theorem gen_pcg_stream_is_model : forall seed seq n, gen_stream seed seq n = pcg_stream seed seq n.
Proof. exact gen_stream_eq. Qed.
Print Assumptions gen_pcg_stream_is_model.

Theorem gen_pcg_min_max_is_model : gen_min = 0 /\ gen_max = 4294967295.
Proof. exact gen_min_max. Qed.
Print Assumptions gen_pcg_min_max_is_model.

(* pcg_extras::rotr<uint32_t> for every word and every rotation amount *)
Theorem gen_pcg_rotr_is_model : forall v r, 0 <= v < 2 ^ 32 -> 0 <= r < 32 ->
  pcg_extras_rotr__u_uc MZ v r = rotr32 v r.
Proof. exact gen_pcg_rotr_full. Qed.
Print Assumptions gen_pcg_rotr_is_model.

(* consequences for the regenerated engine: reproducible from (seed, sequence) mod 2^64, outputs are 32-bit *)
Theorem gen_pcg_reproducible : forall seed seq seed' seq' n,
  u64 seed = u64 seed' -> u64 seq = u64 seq' -> gen_stream seed seq n = gen_stream seed' seq' n.
Proof.
  exact (fun seed seq seed' seq' n H1 H2 =>
    eq_trans (gen_stream_eq seed seq n) (eq_trans (ProofsInt.pcg_reproducible seed seq seed' seq' n H1 H2)
                                                  (eq_sym (gen_stream_eq seed' seq' n)))).
Qed.
Print Assumptions gen_pcg_reproducible.

Example gen_pcg_known_answer : gen_stream 42 54 3 = [2707161783; 2068313097; 3122475824].
Proof. vm_compute. reflexivity. Qed.

(* ---- the LCG step is a bijection on the 2^64 states (multiplier odd, explicit inverse) ---- *)
Theorem pcg_multiplier_odd_invertible : Z.odd pcg_mult = true /\ u64 (pcg_mult * pcg_mult_inv) = 1.
Proof. exact (conj pcg_mult_odd pcg_mult_inv_ok). Qed.
Print Assumptions pcg_multiplier_odd_invertible.

Theorem pcg_step_injective : forall s s' i,
  0 <= s < 2 ^ 64 -> 0 <= s' < 2 ^ 64 -> pcg_bump s i = pcg_bump s' i -> s = s'.
Proof. exact pcg_bump_injective. Qed.
Print Assumptions pcg_step_injective.

Theorem pcg_step_surjective : forall t i, 0 <= t < 2 ^ 64 -> exists s, 0 <= s < 2 ^ 64 /\ pcg_bump s i = t.
Proof. exact pcg_bump_surjective. Qed.
Print Assumptions pcg_step_surjective.

Theorem pcg_step_inverse : forall s i, 0 <= s < 2 ^ 64 ->
  pcg_unbump (pcg_bump s i) i = s /\ pcg_bump (pcg_unbump s i) i = s.
Proof. exact (fun s i H => conj (pcg_unbump_bump s i H) (pcg_bump_unbump s i H)). Qed.
Print Assumptions pcg_step_inverse.

(* ---- the output rotation is well defined for every rot: the left shift amount (-rot) & 31 is 32 - rot for
   rot in 1..31 and 0 for rot = 0, never 32 (value << 32 would be undefined on uint32_t) ---- *)
Theorem pcg_rotation_shift_defined : forall rot, 0 <= rot < 32 ->
  0 <= Z.land (- rot) 31 < 32 /\ Z.land (- rot) 31 = (32 - rot) mod 32.
Proof. exact rotr_left_shift_amount. Qed.
Print Assumptions pcg_rotation_shift_defined.

Theorem pcg_rotation_field_in_range : forall s, 0 <= s < 2 ^ 64 -> 0 <= Z.land (Z.shiftr s 59) 31 < 32.
Proof. exact pcg_rot_field_range. Qed.
Print Assumptions pcg_rotation_field_in_range.

Example pcg_rotation_by_zero : forall v, 0 <= v < 2 ^ 32 -> rotr32 v 0 = v.
Proof. exact rotr32_zero. Qed.

(* ---- the float distributions fed by the regenerated engine ---- *)
Local Open Scope R_scope.

(* n-th value of pcg32_biased_float_distribution(seed, sequence, lower, upper): constructor's diff and operator()'s
   return tree (gen/DistFacts.v) evaluated on the n-th output of the REGENERATED engine = the model's value, hence
   inside [lower, rn(rn(upper-lower)+lower)] by Properties.pcg_float_range_thm *)
Theorem gen_biased_float_distribution_is_model : forall rn lower upper seed seq n,
  ddenote rn lower upper (ddenote rn lower upper 0 0 dist_diff_ast)
          (nth n (gen_stream seed seq (Datatypes.S n)) (-1)%Z) dist_return_ast
  = pcg_float rn lower upper (nth n (pcg_stream seed seq (Datatypes.S n)) (-1)%Z).
Proof.
  exact (fun rn lower upper seed seq n =>
    eq_trans (f_equal (fun l => ddenote rn lower upper (ddenote rn lower upper 0 0 dist_diff_ast) (nth n l (-1)%Z) dist_return_ast)
                      (gen_stream_eq seed seq (Datatypes.S n)))
             (gen_dist rn lower upper (nth n (pcg_stream seed seq (Datatypes.S n)) (-1)%Z))).
Qed.
Print Assumptions gen_biased_float_distribution_is_model.

(* uniform_real_distribution<float>::operator() as repaired (normalise, then scale) *)
Theorem gen_uniform_real_is_model : forall rn l u k, ddenote rn l u 0 k uniform_return_ast = uniform_real rn l u k.
Proof. exact gen_uniform. Qed.
Print Assumptions gen_uniform_real_is_model.

(* g.min() / g.max() as read by the distribution trees (Sem.ddenote: DGMin = 0, DGMax = 2^32-1) are the engine's *)
Theorem gen_dist_min_max_consistent : forall rn l u d k,
  ddenote rn l u d k DGMin = IZR gen_min /\ ddenote rn l u d k DGMax = IZR gen_max.
Proof. exact (fun rn l u d k => conj eq_refl eq_refl). Qed.
Print Assumptions gen_dist_min_max_consistent.

(* the biased distribution on (0,1) returns values in the CLOSED interval [0,1]: 1 is attained, because the
   uint32_t -> float conversion rounds every sample >= 2^32-128 up to 2^32 *)
Theorem biased_float_unit_interval : forall k, (0 <= k < 2 ^ 32)%Z -> 0 <= pcg_float rnd 0 1 k <= 1.
Proof. exact (fun k H => pcg_float_tiny_range 0 k ltac:(discriminate) H). Qed.
Print Assumptions biased_float_unit_interval.

Example biased_float_one_attained :
  to_bits (b_pcg_float_k (of_bits 0) (of_bits 1065353216) 4294967295) = 1065353216%Z /\
  to_bits (b_pcg_float_k (of_bits 0) (of_bits 1065353216) 4294967167) = 1065353215%Z.
Proof. vm_compute. split; reflexivity. Qed.
