From Coq Require Import Extraction ExtrOcamlBasic ZArith List.
From C07 Require Import Model GenRandom.
Extraction "Model.ml" divRoundUp divRoundUp_u divRoundUp_n clampZ pack channel pcg_stream pcg_nth color_g gen_stream Z.div Z.modulo Z.add Z.mul Z.opp.
