(* C07 — Tie A/C for the random part: the pcg32 engine assembled from regenerated pieces (GenRandom.v) IS the
   hand model (Model.v: pcg_bump / pcg_seed / pcg_next / pcg_stream); the LCG step is a bijection on the 2^64
   states; the output rotation never shifts by 32.  Everything here is over Z: no axioms. *)
From Coq Require Import ZArith Lia List Bool.
From Common Require Import Prelude CxxSem.
From C07 Require Import Model Sem GenRandom ProofsInt ProofsGen.
From C07.gen Require Import GenMath PcgFacts.
Import ListNotations.
Local Open Scope Z_scope.

(* ------------------------------------------------------------- engine pieces *)
Lemma gen_mult_eq : gen_mult = pcg_mult.
Proof. exact gen_pcg_multiplier. Qed.

(* engine::bump: state * multiplier() + increment() at uint64_t *)
Lemma gen_bump_eq s i : gen_bump s i = pcg_bump s i.
Proof.
  unfold gen_bump, pbump, pcg_bump_ast. cbn [pden0]. rewrite gen_mult_eq.
  unfold pcg_bump, u64. rewrite Zplus_mod_idemp_l. reflexivity.
Qed.

(* rng.seed(seed, sequence) *)
Lemma gen_seed_eq seed seq : gen_seed seed seq = pcg_seed seed seq.
Proof.
  unfold gen_seed. unfold pcg_seed_forwards, pcg_ctor_stream_ok. cbn [andb].
  rewrite (gen_pcg_stream (u64 seq) (u64_range seq)).
  unfold pcg_seed. cbn [snd].
  assert (E : u64 (u64 seq) = u64 seq) by (unfold u64; apply Z.mod_mod; discriminate).
  rewrite E. set (i := Z.lor (u64 (Z.shiftl (u64 seq) 1)) 1).
  unfold gen_den, pcg_ctor_state_ast. cbn [pden]. fold (gen_bump (u64 (u64 seed + i)) i).
  rewrite gen_bump_eq. reflexivity.
Qed.

(* operator()(): output of the OLD state, then state = bump(state) *)
Lemma gen_next_eq g : 0 <= fst g < 2 ^ 64 -> gen_next g = pcg_next g.
Proof.
  intro Hg. unfold gen_next, pcg_next. unfold pcg_call_ok.
  unfold gen_den, pcg_gen0_return_ast, pcg_gen0_state_ast. cbn [pden].
  fold (gen_bump (fst g) (snd g)). rewrite gen_bump_eq.
  rewrite (gen_pcg_output_full (fst g) Hg). reflexivity.
Qed.

Lemma pcg_next_state_range g : 0 <= fst (snd (pcg_next g)) < 2 ^ 64.
Proof. unfold pcg_next. cbn [fst snd]. apply pcg_bump_range. Qed.

Lemma gen_take_eq n : forall g, 0 <= fst g < 2 ^ 64 -> gen_take n g = pcg_take n g.
Proof.
  induction n as [| n IH]; intros g Hg; [reflexivity |].
  cbn [gen_take pcg_take]. rewrite (gen_next_eq g Hg). f_equal.
  apply IH. apply pcg_next_state_range.
Qed.

Lemma pcg_seed_state_range seed seq : 0 <= fst (pcg_seed seed seq) < 2 ^ 64.
Proof. unfold pcg_seed. cbn [fst]. apply pcg_bump_range. Qed.

Lemma gen_stream_eq seed seq n : gen_stream seed seq n = pcg_stream seed seq n.
Proof.
  unfold gen_stream, pcg_stream. rewrite gen_seed_eq. apply gen_take_eq. apply pcg_seed_state_range.
Qed.

Lemma gen_min_max : gen_min = 0 /\ gen_max = 4294967295.
Proof. split; reflexivity. Qed.

(* ------------------------------------------- rotr alone, for every word and amount *)
Ltac fold_closed2 v r :=
  repeat match goal with
  | |- context [wrap ?t ?a] =>
       lazymatch a with context [v] => fail | context [r] => fail | _ => idtac end;
       let x := eval vm_compute in (wrap t a) in change (wrap t a) with x
  | |- context [?f ?a ?b] =>
       lazymatch type of (f a b) with Z => idtac | bool => idtac end;
       lazymatch f with Z.add => idtac | Z.sub => idtac | Z.mul => idtac | Z.quot => idtac | Z.shiftl => idtac | Z.land => idtac
                      | Z.leb => idtac | Z.ltb => idtac | Z.eqb => idtac end;
       lazymatch a with context [v] => fail | context [r] => fail | _ => idtac end;
       lazymatch b with context [v] => fail | context [r] => fail | _ => idtac end;
       let x := eval vm_compute in (f a b) in change (f a b) with x
  end; cbv iota.

Lemma gen_pcg_rotr_full v r : 0 <= v < 2 ^ 32 -> 0 <= r < 32 -> pcg_extras_rotr__u_uc MZ v r = rotr32 v r.
Proof.
  intros Hv Hr.
  cbv beta iota zeta delta [pcg_extras_rotr__u_uc MZ bop uop cmp cast ilit tobool CxxSem.S z_bop z_uop z_cmp].
  fold_closed2 v r.
  rewrite !(wI32 r) by lia. rewrite (wI32 (- r)) by lia.
  set (L := Z.land (- r) 31). pose proof (land31_range (- r)) as HL. fold L in HL.
  rewrite (wI32 L) by lia.
  change (wrap U32) with u32.
  assert (HA : 0 <= Z.shiftr v r < 2 ^ 32) by (apply shiftr_range; [lia | exact Hv]).
  unfold rotr32. fold L.
  unfold u32 at 2. rewrite (Z.mod_small (Z.shiftr v r)) by exact HA.
  unfold u32 at 1. rewrite Z.mod_small by (apply lor_range; [lia | exact HA | apply u32_range]).
  reflexivity.
Qed.

(* ------------------------------------------- the rotation never shifts by 32 *)
(* the left-shift amount (-rot) & 31 is in 0..31 for EVERY rot, equals 32 - rot for rot in 1..31 and 0 for rot = 0
   (so "value << 32", undefined on uint32_t, never occurs); the rot used by the output function is s >> 59 < 32 *)
Lemma rotr_left_shift_amount rot : 0 <= rot < 32 ->
  0 <= Z.land (- rot) 31 < 32 /\ Z.land (- rot) 31 = (32 - rot) mod 32.
Proof.
  intro H. split; [apply land31_range |].
  change 31 with (Z.ones 5). rewrite Z.land_ones by lia. change (2 ^ 5) with 32.
  replace (32 - rot) with (- rot + 1 * 32) by lia. rewrite Z.mod_add by lia. reflexivity.
Qed.

Lemma rotr_left_shift_amount_any rot : 0 <= Z.land (- rot) 31 < 32.
Proof. apply land31_range. Qed.

Lemma pcg_rot_field_range s : 0 <= s < 2 ^ 64 -> 0 <= Z.land (Z.shiftr s 59) 31 < 32.
Proof. intros _. apply land31_range. Qed.

(* rotr32 is the rotation: the bits shifted out on the right come back on the left *)
Lemma rotr32_zero v : 0 <= v < 2 ^ 32 -> rotr32 v 0 = v.
Proof.
  intro Hv. unfold rotr32. change (Z.land (- 0) 31) with 0. rewrite Z.shiftr_0_r, Z.shiftl_0_r.
  unfold u32. rewrite Z.mod_small by exact Hv. apply Z.lor_diag.
Qed.

(* ------------------------------------------- the LCG step is a bijection on the 2^64 states *)
(* the multiplier is odd, hence invertible modulo 2^64; its inverse: *)
Definition pcg_mult_inv : Z := 13877824140714322085.
Lemma pcg_mult_odd : Z.odd pcg_mult = true.
Proof. reflexivity. Qed.
Lemma pcg_mult_inv_ok : u64 (pcg_mult * pcg_mult_inv) = 1.
Proof. vm_compute. reflexivity. Qed.

Definition pcg_unbump (t i : Z) : Z := u64 ((t - i) * pcg_mult_inv).

Lemma pcg_unbump_bump s i : 0 <= s < 2 ^ 64 -> pcg_unbump (pcg_bump s i) i = s.
Proof.
  intro Hs. unfold pcg_unbump, pcg_bump, u64.
  rewrite <- Zmult_mod_idemp_l. rewrite Zminus_mod_idemp_l. rewrite Zmult_mod_idemp_l.
  replace ((s * pcg_mult + i - i) * pcg_mult_inv) with (s * (pcg_mult * pcg_mult_inv)) by ring.
  rewrite <- Zmult_mod_idemp_r. fold (u64 (pcg_mult * pcg_mult_inv)). rewrite pcg_mult_inv_ok.
  rewrite Z.mul_1_r. apply Z.mod_small. exact Hs.
Qed.

Lemma pcg_bump_unbump t i : 0 <= t < 2 ^ 64 -> pcg_bump (pcg_unbump t i) i = t.
Proof.
  intro Ht. unfold pcg_unbump, pcg_bump, u64.
  rewrite <- Zplus_mod_idemp_l. rewrite Zmult_mod_idemp_l. rewrite Zplus_mod_idemp_l.
  replace ((t - i) * pcg_mult_inv * pcg_mult + i) with ((t - i) * (pcg_mult * pcg_mult_inv) + i) by ring.
  rewrite <- Zplus_mod_idemp_l. rewrite <- Zmult_mod_idemp_r.
  fold (u64 (pcg_mult * pcg_mult_inv)). rewrite pcg_mult_inv_ok. rewrite Z.mul_1_r.
  rewrite Zplus_mod_idemp_l. replace (t - i + i) with t by ring. apply Z.mod_small. exact Ht.
Qed.

Lemma pcg_bump_injective s s' i :
  0 <= s < 2 ^ 64 -> 0 <= s' < 2 ^ 64 -> pcg_bump s i = pcg_bump s' i -> s = s'.
Proof.
  intros Hs Hs' E. rewrite <- (pcg_unbump_bump s i Hs), <- (pcg_unbump_bump s' i Hs'). rewrite E. reflexivity.
Qed.

Lemma pcg_bump_surjective t i : 0 <= t < 2 ^ 64 -> exists s, 0 <= s < 2 ^ 64 /\ pcg_bump s i = t.
Proof.
  intro Ht. exists (pcg_unbump t i). split; [apply u64_range | apply pcg_bump_unbump; exact Ht].
Qed.
