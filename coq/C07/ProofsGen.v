(* C07 — Tie A: the definitions regenerated from the sources on every run (gen/GenMath.v by
   tools/cxx2coq, gen/SimdFacts.v by props/C07/simdfacts.py) denote, under the readings of
   Sem.v / CxxSem.v, exactly the hand-written Model.v / ModelR.v definitions the C07 theorems
   are about.  No interval tactic here. *)
From Coq Require Import Reals ZArith Lia Lra List Bool.
From Flocq Require Import Core.
From Common Require Import CxxSem.
From Flocq Require Import IEEE754.BinarySingleNaN IEEE754.Binary IEEE754.Bits.
From C07 Require Import Model ModelR ModelB32 Sem ProofsInt ProofsRBase ProofsB32.
From C07.gen Require Import GenMath SimdFacts DistFacts.
Import ListNotations.
Local Open Scope R_scope.

(* ------------------------------------------------------------------ literals *)
Lemma rnd_frac_1 z : z <> 0%Z -> IZR z / IZR z = 1.
Proof. intro H. field. apply not_0_IZR. exact H. Qed.

Lemma lit_f1 : rnd (IZR 1 / IZR 1) = 1.
Proof. rewrite rnd_frac_1 by discriminate. apply rnd_id, fmt_1. Qed.
Lemma lit_f0 : rnd (IZR 0 / IZR 1) = 0.
Proof. replace (IZR 0 / IZR 1) with 0 by (simpl; field). apply rnd_0. Qed.
Lemma lit_f255 : rnd (IZR 255 / IZR 1) = 255.
Proof. replace (IZR 255 / IZR 1) with 255 by (simpl; field). apply rnd_id, fmt_255. Qed.
Lemma lit_f2 : rnd (IZR 2 / IZR 1) = 2.
Proof. replace (IZR 2 / IZR 1) with 2 by (simpl; field). apply rnd_id, fmt_2. Qed.
Lemma lit_i0 : rnd (IZR (wrap I32 0)) = 0.
Proof. change (wrap I32 0) with 0%Z. apply rnd_0. Qed.

(* ------------------------------------------------------- float kernels (IF32) *)
Section Float.
  Variable powf : R -> R -> R.
  Let I := IF32 powf.

  Lemma gen_rcp x : rcp__f I x = rcp_nosimd x.
  Proof. unfold rcp__f, rcp_nosimd, fdiv. cbn. rewrite lit_f1. reflexivity. Qed.

  Lemma gen_rsqrt x : rsqrt__f I x = rsqrt_nosimd x.
  Proof. unfold rsqrt__f, rsqrt_nosimd, fdiv, fsqrt. cbn. rewrite lit_f1. reflexivity. Qed.

  Lemma gen_rcp_safe x : rcp_safe__f I x = rcp_safe rcp_nosimd x.
  Proof.
    unfold rcp_safe__f, rcp_safe_t__f, rcp_safe, rcp_safe_arg. rewrite gen_rcp. cbn.
    rewrite lit_f0. reflexivity.
  Qed.

  Lemma gen_clamp x lo hi : clamp__f_f_f I x lo hi = clampR x lo hi.
  Proof. reflexivity. Qed.

  Lemma gen_sign x : sign__f I x = sign x.
  Proof.
    unfold sign__f, sign. cbn. try rewrite lit_i0. try rewrite rnd_0. rewrite lit_f1. reflexivity.
  Qed.

  Lemma gen_lerp f a b : lerp__f_f_f I f a b = lerp f a b.
  Proof. unfold lerp__f_f_f, lerp, fadd, fmul, fsub. cbn. rewrite lit_f1. reflexivity. Qed.

  Lemma gen_madd a b c : madd__f_f_f I a b c = madd a b c.
  Proof. reflexivity. Qed.

  (* deg2rad: the source multiplies by float(double literal); the literal (numerator, denominator as
     printed by clang) is re-read from the regenerated text into gen/SimdFacts.v together with the bits
     of float(double(literal)); gen_deg2rad_constant below ties those bits to the model constant *)
  Lemma gen_deg2rad x :
    deg2rad__f I x = fmul x (rnd (rnd64 (IZR (fst deg2rad_literal) / IZR (snd deg2rad_literal)))).
  Proof. reflexivity. Qed.

  Lemma gen_linear_to_srgb f : linear_to_srgb__f I f = linear_to_srgb powf f.
  Proof.
    unfold linear_to_srgb__f, linear_to_srgb, inv_gamma, fdiv. cbn. rewrite lit_f0, lit_f1. reflexivity.
  Qed.

  (* cvt_uint32(float): the regenerated text is (uint32_t) round(255.f * clamp(f, 0.f, 1.f)) *)
  Lemma wrap_U32 z : wrap U32 z = u32 z.
  Proof. reflexivity. Qed.

  Lemma gen_cvt f : cvt_uint32__f I f = IZR (cvt f).
  Proof.
    unfold cvt_uint32__f. rewrite gen_clamp. cbn. rewrite lit_f255, lit_f0, lit_f1.
    fold (fmul 255 (clampR f 0 1)). fold (cvt f).
    rewrite Ztrunc_IZR. rewrite Z.mod_small; [reflexivity |].
    pose proof (cvt_range f). lia.
  Qed.

  Lemma u32_lor a b : (0 <= a < 2 ^ 32)%Z -> (0 <= b < 2 ^ 32)%Z -> u32 (Z.lor a b) = Z.lor a b.
  Proof. intros Ha Hb. unfold u32. apply Z.mod_small. apply lor_range; [lia | exact Ha | exact Hb]. Qed.

  Lemma lor_wrapped a0 a1 a2 a3 :
    u32 (Z.lor (u32 (Z.lor (u32 (Z.lor (u32 a0) (u32 a1))) (u32 a2))) (u32 a3))
    = Z.lor (Z.lor (Z.lor (u32 a0) (u32 a1)) (u32 a2)) (u32 a3).
  Proof.
    pose proof (u32_range a0) as H0. pose proof (u32_range a1) as H1.
    pose proof (u32_range a2) as H2. pose proof (u32_range a3) as H3.
    rewrite (u32_lor (u32 a0) (u32 a1) H0 H1).
    pose proof (lor_range _ _ 32 ltac:(lia) H0 H1) as H01.
    rewrite (u32_lor _ (u32 a2) H01 H2).
    pose proof (lor_range _ _ 32 ltac:(lia) H01 H2) as H012.
    apply (u32_lor _ (u32 a3) H012 H3).
  Qed.

  Lemma gen_pack x y z w :
    cvt_uint32__v4f I (mk_vec4 I x y z w) = IZR (pack (cvt x) (cvt y) (cvt z) (cvt w)).
  Proof.
    unfold cvt_uint32__v4f. cbn [vec4_x vec4_y vec4_z vec4_w]. rewrite !gen_cvt.
    cbn [I IF32 bop ilit f_bop isfloat z_bop].
    change (wrap I32 0) with 0%Z. change (wrap I32 8) with 8%Z.
    change (wrap I32 16) with 16%Z. change (wrap I32 24) with 24%Z.
    rewrite !Ztrunc_IZR. change (wrap U32) with u32.
    unfold pack.
    apply f_equal. apply lor_wrapped.
  Qed.

  (* linear_to_srgba(vec4f): straight-line, NO guard on the components: channel k of the result is the scalar
     path applied to component k alone (alpha: max(w, 0), not gamma-corrected) *)
  Lemma gen_linear_to_srgba x y z w :
    linear_to_srgba__v4f I (mk_vec4 I x y z w)
    = mk_vec4 I (linear_to_srgb powf x) (linear_to_srgb powf y) (linear_to_srgb powf z) (maxR w 0).
  Proof.
    unfold linear_to_srgba__v4f, v4f_mk__f_f_f_f. cbn [vec4_x vec4_y vec4_z vec4_w].
    rewrite !gen_linear_to_srgb. cbn [I IF32 lib f_lib flit rt]. rewrite lit_f0. reflexivity.
  Qed.

  Lemma gen_srgba8 x y z w :
    linear_to_srgba8__v4f I (mk_vec4 I x y z w) = IZR (linear_to_srgba8 powf x y z w).
  Proof.
    unfold linear_to_srgba8__v4f. rewrite gen_linear_to_srgba, gen_pack. reflexivity.
  Qed.
  (* ---- the double overloads / instantiations (binary64 rounding rnd64; same generic text) ---- *)
  Lemma lit_d1 : rnd64 (IZR 1 / IZR 1) = 1.
  Proof. rewrite rnd_frac_1 by discriminate. exact rnd64_1. Qed.

  Lemma gen_rcp_d x : rcp__d I x = rcp_g rnd64 x.
  Proof. unfold rcp__d, rcp_g. cbn. rewrite lit_d1. reflexivity. Qed.

  Lemma gen_rsqrt_d x : rsqrt__d I x = rsqrt_g rnd64 x.
  Proof. unfold rsqrt__d, rsqrt_g. cbn. rewrite lit_d1. reflexivity. Qed.

  (* rcp_safe_t<double>: threshold and replacement are numeric_limits<double>::min(), the sign test is x >= 0 *)
  Lemma gen_rcp_safe_d x : rcp_safe__d I x = rcp_safe_g rnd64 DBL_MIN x.
  Proof.
    unfold rcp_safe__d, rcp_safe_t__d, rcp_safe_g, rcp_safe_arg_g. rewrite gen_rcp_d. cbn.
    rewrite lit_f0, rnd64_0. reflexivity.
  Qed.

  Lemma gen_rcp_safe_f_generic x : rcp_safe__f I x = rcp_safe_g rnd FLT_MIN x.
  Proof. rewrite gen_rcp_safe. reflexivity. Qed.

  Lemma gen_clamp_d x lo hi : clamp__d_d_d I x lo hi = clampR x lo hi.
  Proof. reflexivity. Qed.

  Lemma gen_madd_d a b c : madd__d_d_d I a b c = madd_g rnd64 a b c.
  Proof. reflexivity. Qed.

  Lemma gen_deg2rad_d x :
    deg2rad__d I x = rnd64 (x * rnd64 (IZR 3490658503988659 / IZR 200000000000000000)).
  Proof. reflexivity. Qed.

  (* lerp<double>: the factor is a float; 1.f - factor is rounded in binary32, then widened *)
  Lemma gen_lerp_d f a b :
    lerp__f_d_d I f a b = rnd64 (rnd64 (rnd64 (rnd (1 - f)) * a) + rnd64 (rnd64 f * b)).
  Proof. unfold lerp__f_d_d. cbn. rewrite lit_f1. reflexivity. Qed.
End Float.

(* the bits python computed for float(double(literal)) are the twin's constant, whose real value is
   the model's deg2rad_c (trusted: the decimal -> binary64 -> binary32 rounding done by simdfacts.py;
   the compiled constant is also compared by the harness, fn 16) *)
Lemma gen_deg2rad_constant :
  of_bits deg2rad_literal_bits = c_deg2rad /\ B2R 24 128 (of_bits deg2rad_literal_bits) = deg2rad_c.
Proof. split; [reflexivity | exact B2R_c_deg2rad]. Qed.

(* ------------------------------------------------ integer kernels (IZ / MZ) *)
Local Open Scope Z_scope.

Lemma gen_divRoundUp_int a b : divRoundUp__i_i IZ a b = divRoundUp a b.
Proof. reflexivity. Qed.
Lemma gen_divRoundUp_int64 a b : divRoundUp__l_l IZ a b = divRoundUp a b.
Proof. reflexivity. Qed.

(* machine reading at unsigned int / size_t: wrap-around modelled; equal to the model's
   divRoundUp_u for operands of the type with b > 0 *)
Lemma quot_range n a b : 0 <= a < 2 ^ n -> 0 < b -> 0 <= Z.quot a b < 2 ^ n.
Proof.
  intros Ha Hb. rewrite Z.quot_div_nonneg by lia. split.
  - apply Z.div_pos; lia.
  - apply Z.le_lt_trans with a; [| lia]. apply Z.div_le_upper_bound; [exact Hb | nia].
Qed.

Lemma gen_divRoundUp_u32 a b : 0 < b -> divRoundUp__u_u MZ a b = divRoundUp_u 32 a b.
Proof.
  intro Hb. unfold divRoundUp__u_u, divRoundUp_u, wrapu. cbn.
  change (wrap U32 (wrap I32 1)) with 1.
  change (wrap U32) with (fun z => z mod 2 ^ 32). cbv beta.
  apply Z.mod_small. change 4294967296 with (2 ^ 32). apply quot_range; [apply Z.mod_pos_bound; reflexivity | exact Hb].
Qed.

Lemma gen_divRoundUp_u64 a b : 0 < b -> divRoundUp__ul_ul MZ a b = divRoundUp_u 64 a b.
Proof.
  intro Hb. unfold divRoundUp__ul_ul, divRoundUp_u, wrapu. cbn.
  change (wrap U64 (wrap I32 1)) with 1.
  change (wrap U64) with (fun z => z mod 2 ^ 64). cbv beta.
  apply Z.mod_small. change 18446744073709551616 with (2 ^ 64). apply quot_range; [apply Z.mod_pos_bound; reflexivity | exact Hb].
Qed.

(* narrow instantiations: the operands are promoted to int (cast T -> I32), the arithmetic is at I32 and the ONE cast back
   to T encloses the whole quotient.  Under the machine reading this is the model's divRoundUp_n for operands of the type
   with a >= 0, b > 0; the cast position is pinned (T(a + b - 1) / b is a different text and a different function) *)
Lemma wI32' z : -2147483648 <= z < 2147483648 -> wrap I32 z = z.
Proof.
  intro H. change (wrap I32 z) with ((z + 2 ^ 31) mod 2 ^ 32 - 2 ^ 31).
  change (2 ^ 31) with 2147483648. change (2 ^ 32) with 4294967296. rewrite Z.mod_small; lia.
Qed.

Lemma narrow_div_range a b : 0 <= a < 65536 -> 0 < b < 65536 -> 0 <= Z.quot (a + b - 1) b < 131072.
Proof.
  intros Ha Hb. rewrite Z.quot_div_nonneg by lia. split.
  - apply Z.div_pos; lia.
  - apply Z.le_lt_trans with (a + b - 1); [| lia]. apply Z.div_le_upper_bound; [lia | nia].
Qed.

Ltac narrow_divRoundUp Ha Hb :=
  cbn [MZ bop cast ilit z_bop];
  change (wrap I32 1) with 1;
  repeat rewrite (wI32' _) by (first [lia | pose proof (narrow_div_range _ _ Ha Hb); lia]);
  reflexivity.

Lemma gen_divRoundUp_u8 a b : 0 <= a < 256 -> 0 < b < 256 -> divRoundUp__uc_uc MZ a b = divRoundUp_n false 8 a b.
Proof.
  intros Ha Hb. unfold divRoundUp__uc_uc, divRoundUp_n.
  assert (Ha' : 0 <= a < 65536) by lia. assert (Hb' : 0 < b < 65536) by lia.
  cbn [MZ bop cast ilit z_bop]. change (wrap I32 1) with 1.
  pose proof (narrow_div_range a b Ha' Hb') as Hq.
  rewrite !(wI32' a), !(wI32' b) by lia. rewrite (wI32' (a + b)) by lia. rewrite (wI32' (a + b - 1)) by lia.
  rewrite (wI32' (Z.quot (a + b - 1) b)) by lia. reflexivity.
Qed.

Lemma gen_divRoundUp_i16 a b : 0 <= a < 32768 -> 0 < b < 32768 -> divRoundUp__s_s MZ a b = divRoundUp_n true 16 a b.
Proof.
  intros Ha Hb. unfold divRoundUp__s_s, divRoundUp_n.
  assert (Ha' : 0 <= a < 65536) by lia. assert (Hb' : 0 < b < 65536) by lia.
  cbn [MZ bop cast ilit z_bop]. change (wrap I32 1) with 1.
  pose proof (narrow_div_range a b Ha' Hb') as Hq.
  rewrite !(wI32' a), !(wI32' b) by lia. rewrite (wI32' (a + b)) by lia. rewrite (wI32' (a + b - 1)) by lia.
  rewrite (wI32' (Z.quot (a + b - 1) b)) by lia. reflexivity.
Qed.

(* ideal reading (casts are the identity): every width has the same shape *)
Lemma gen_divRoundUp_narrow_ideal a b :
  divRoundUp__c_c IZ a b = divRoundUp a b /\ divRoundUp__uc_uc IZ a b = divRoundUp a b /\
  divRoundUp__s_s IZ a b = divRoundUp a b /\ divRoundUp__us_us IZ a b = divRoundUp a b.
Proof. repeat split; reflexivity. Qed.

Lemma gen_clamp_int x lo hi : clamp__i_i_i IZ x lo hi = clampZ x lo hi.
Proof. reflexivity. Qed.

(* ---- pcg32 pieces of pcg_random.hpp / pcg_extras.hpp --------------------------- *)
Lemma gen_pcg_multiplier : pcg_detail_default_multiplier_multiplier___4 MZ = pcg_mult.
Proof. reflexivity. Qed.

(* specific_stream(seq): inc_ = (seq << 1) | 1 at uint64_t *)
Lemma gen_pcg_stream seq : 0 <= seq < 2 ^ 64 ->
  specific_stream_inc_ (pcg_detail_specific_stream_mk__ul MZ seq) = snd (pcg_seed 0 seq).
Proof.
  intro Hs. unfold pcg_detail_specific_stream_mk__ul, pcg_seed. cbn [specific_stream_inc_ snd].
  cbn [MZ bop ilit cast z_bop].
  change (wrap I32 1) with 1. change (wrap U64 (wrap U32 1)) with 1.
  change (wrap U64) with u64.
  replace (u64 seq) with seq by (unfold u64; symmetry; apply Z.mod_small; exact Hs).
  set (v := u64 (Z.shiftl seq 1)). pose proof (u64_range (Z.shiftl seq 1)) as Hv. fold v in Hv.
  unfold u64. apply Z.mod_small. apply lor_range; [lia | exact Hv |].
  change (2 ^ 64) with 18446744073709551616. lia.
Qed.

(* XSH-RR output function (with pcg_extras::rotr inlined by unfolding): for EVERY 64-bit state the
   regenerated text under the machine reading MZ computes the model's pcg_output.  The closed
   sub-terms (bit counts, shift amounts, masks derived from sizeof) are evaluated by vm_compute,
   then every wrap is discharged by a range argument. *)
Ltac fold_closed s :=
  repeat match goal with
  | |- context [wrap ?t ?a] => lazymatch a with context [s] => fail | _ => idtac end;
       let v := eval vm_compute in (wrap t a) in change (wrap t a) with v
  | |- context [?f ?a ?b] =>
       lazymatch type of (f a b) with Z => idtac | bool => idtac end;
       lazymatch f with Z.add => idtac | Z.sub => idtac | Z.mul => idtac | Z.quot => idtac | Z.shiftl => idtac | Z.land => idtac
                      | Z.leb => idtac | Z.ltb => idtac | Z.eqb => idtac end;
       lazymatch a with context [s] => fail | _ => idtac end;
       lazymatch b with context [s] => fail | _ => idtac end;
       let v := eval vm_compute in (f a b) in change (f a b) with v
  | |- context [negb ?a] => lazymatch a with context [s] => fail | _ => idtac end;
       let v := eval vm_compute in (negb a) in change (negb a) with v
  | |- context [Z.opp ?a] => lazymatch a with context [s] => fail | Zpos _ => fail | _ => idtac end;
       let v := eval vm_compute in (Z.opp a) in change (Z.opp a) with v
  end; cbv iota.


Lemma lxor_range a b n :
  0 <= n -> 0 <= a < 2 ^ n -> 0 <= b < 2 ^ n -> 0 <= Z.lxor a b < 2 ^ n.
Proof.
  intros Hn Ha Hb.
  assert (E : Z.lxor a b = Z.lxor a b mod 2 ^ n).
  { apply Z.bits_inj'. intros i Hi.
    destruct (Z.lt_ge_cases i n) as [L | G].
    - rewrite Z.mod_pow2_bits_low by exact L. reflexivity.
    - rewrite Z.mod_pow2_bits_high by lia. rewrite Z.lxor_spec.
      rewrite <- (Z.mod_small a (2 ^ n)) by exact Ha.
      rewrite <- (Z.mod_small b (2 ^ n)) by exact Hb.
      rewrite !Z.mod_pow2_bits_high by lia. reflexivity. }
  rewrite E. apply Z.mod_pos_bound. apply Z.pow_pos_nonneg; lia.
Qed.

Lemma wU64 z : 0 <= z < 2 ^ 64 -> wrap U64 z = z.
Proof. intro H. change (wrap U64 z) with (z mod 2 ^ 64). apply Z.mod_small. exact H. Qed.
Lemma wU8 z : 0 <= z < 256 -> wrap U8 z = z.
Proof. intro H. change (wrap U8 z) with (z mod 2 ^ 8). apply Z.mod_small. change (2 ^ 8) with 256. exact H. Qed.
Lemma wI32 z : -2147483648 <= z < 2147483648 -> wrap I32 z = z.
Proof.
  intro H. change (wrap I32 z) with ((z + 2 ^ 31) mod 2 ^ 32 - 2 ^ 31).
  change (2 ^ 31) with 2147483648. change (2 ^ 32) with 4294967296. rewrite Z.mod_small; lia.
Qed.
Lemma land31_range z : 0 <= Z.land z 31 < 32.
Proof. change 31 with (Z.ones 5). rewrite Z.land_ones by lia. apply Z.mod_pos_bound. lia. Qed.

Lemma gen_pcg_output_full s : 0 <= s < 2 ^ 64 -> pcg_detail_xsh_rr_mixin_output__ul MZ s = pcg_output s.
Proof.
  intro Hs.
  cbv beta iota zeta delta [pcg_detail_xsh_rr_mixin_output__ul pcg_extras_rotr__u_uc MZ bop uop cmp cast ilit tobool CxxSem.S z_bop z_uop z_cmp].
  fold_closed s.
  set (R0 := Z.shiftr s 59).
  assert (HR0 : 0 <= R0 < 32).
  { unfold R0. rewrite Z.shiftr_div_pow2 by lia. change (2 ^ 64) with (2 ^ 59 * 32) in Hs.
    split; [apply Z.div_pos; lia | apply Z.div_lt_upper_bound; lia]. }
  rewrite (wU64 R0) by (change (2 ^ 64) with 18446744073709551616; lia).
  rewrite (wU8 R0) by lia. rewrite (wI32 R0) by lia.
  set (rot := Z.land R0 31).
  pose proof (land31_range R0) as Hrot. fold rot in Hrot.
  rewrite !(wI32 rot) by lia. rewrite !(wU8 rot) by lia. rewrite !(wI32 rot) by lia.
  rewrite !Z.shiftl_0_r. rewrite !(wI32 rot) by lia.
  assert (Erot : Z.land rot 31 = rot).
  { change 31 with (Z.ones 5). rewrite Z.land_ones by lia. apply Z.mod_small. lia. }
  rewrite !Erot. rewrite !(wI32 rot) by lia. rewrite !(wU8 rot) by lia. rewrite !(wI32 rot) by lia.
  set (S18 := Z.shiftr s 18).
  assert (HS18 : 0 <= S18 < 2 ^ 64) by (apply shiftr_range; lia).
  rewrite !(wU64 S18) by exact HS18.
  set (X := Z.lxor s S18).
  assert (HX : 0 <= X < 2 ^ 64) by (apply lxor_range; [lia | exact Hs | exact HS18]).
  rewrite !(wU64 X) by exact HX.
  set (Y := Z.shiftr X 27).
  assert (HY : 0 <= Y < 2 ^ 64) by (apply shiftr_range; [lia | exact HX]).
  rewrite !(wU64 Y) by exact HY.
  change (wrap U32) with u32.
  set (V := u32 Y). pose proof (u32_range Y) as HV. fold V in HV.
  rewrite (wI32 (- rot)) by lia.
  set (L := Z.land (- rot) 31). pose proof (land31_range (- rot)) as HL. fold L in HL.
  rewrite (wI32 L) by lia.
  assert (HA : 0 <= Z.shiftr V rot < 2 ^ 32) by (apply shiftr_range; [lia | exact HV]).
  unfold u32 at 2. rewrite (Z.mod_small (Z.shiftr V rot)) by exact HA.
  unfold u32 at 1. rewrite Z.mod_small by (apply lor_range; [lia | exact HA | apply u32_range]).
  reflexivity.
Qed.

(* rotr on its own, checked reflectively for all 32 rotation amounts on 120 probe words (the full
   statement for the composition is gen_pcg_output_full above) *)
Fixpoint lcg_states (n : nat) (s : Z) : list Z :=
  match n with O => [] | Datatypes.S n' => s :: lcg_states n' (pcg_bump s 1442695040888963407) end.
Definition pcg_probes : list Z :=
  [0; 1; 2 ^ 64 - 1; 2 ^ 63; 2 ^ 32; 2 ^ 32 - 1] ++ map (fun k => 2 ^ Z.of_nat k) (seq 0 64) ++ lcg_states 50 88172645463325252.

Lemma gen_pcg_rotr_probes :
  forallb (fun v => forallb (fun r => Z.eqb (pcg_extras_rotr__u_uc MZ v (Z.of_nat r)) (rotr32 v (Z.of_nat r))) (seq 0 32))
          (map u32 pcg_probes) = true.
Proof. vm_compute. reflexivity. Qed.

(* ---- SIMD branches: the expression trees extracted from the AST denote the Newton-step
   formulas that rcp_accuracy / rsqrt_accuracy are stated about ------------------- *)
Local Open Scope R_scope.

Lemma gen_rcp_simd rcp_est rsqrt_est x :
  denote rcp_est rsqrt_est rcp_simd_ast x = rcp_simd rcp_est x.
Proof. unfold rcp_simd_ast, rcp_simd. cbn [denote]. rewrite lit_f2. reflexivity. Qed.

Lemma lit_f32 : rnd (IZR 3 / IZR 2) = 3 / 2.
Proof.
  rewrite rnd_id; [simpl; lra |].
  replace (IZR 3 / IZR 2) with (IZR 3 * bpow radix2 (-1)) by (simpl; lra).
  apply fmt_F2R; [reflexivity | lia].
Qed.
Lemma lit_fmhalf : rnd (IZR (-1) / IZR 2) = - (1 / 2).
Proof.
  rewrite rnd_id; [simpl; lra |].
  replace (IZR (-1) / IZR 2) with (IZR (-1) * bpow radix2 (-1)) by (simpl; lra).
  apply fmt_F2R; [reflexivity | lia].
Qed.

Lemma gen_rsqrt_simd rcp_est rsqrt_est x :
  denote rcp_est rsqrt_est rsqrt_simd_ast x = rsqrt_simd rsqrt_est x.
Proof.
  unfold rsqrt_simd_ast, rsqrt_simd. cbn [denote]. rewrite lit_f32, lit_fmhalf. reflexivity.
Qed.

(* ---- float distributions (utility/random.h): the trees extracted from the AST denote the model's
   operation order.  Moving the 2^-32 scale into diff (seeded change C07-5), or pre-dividing the width in
   uniform_real_distribution (the code before fix-1), breaks these. ----------------------------------- *)
Lemma B2R_scale_bits : B2R 24 128 (b32_of_bits 796917760) = bpow radix2 (-32).
Proof. vm_compute. lra. Qed.

Lemma gen_dist_diff rn lower upper d k :
  ddenote rn lower upper d k dist_diff_ast = rn (upper - lower).
Proof. reflexivity. Qed.

Lemma gen_dist_return rn lower upper diff k :
  ddenote rn lower upper diff k dist_return_ast
  = rn (rn (rn (bpow radix2 (-32) * rn (IZR k)) * diff) + lower).
Proof. unfold dist_return_ast. cbn [ddenote]. rewrite B2R_scale_bits. reflexivity. Qed.

Lemma gen_dist rn lower upper k :
  ddenote rn lower upper (ddenote rn lower upper 0 k dist_diff_ast) k dist_return_ast
  = pcg_float rn lower upper k.
Proof. rewrite gen_dist_return, gen_dist_diff. reflexivity. Qed.

Lemma gen_uniform rn l u k :
  ddenote rn l u 0 k uniform_return_ast = uniform_real rn l u k.
Proof. unfold uniform_return_ast, uniform_real. cbn [ddenote]. rewrite !Rminus_0_r. reflexivity. Qed.

(* uniform_real_distribution<T>::operator()(G&) for ANY generator range: g.min() is subtracted from the sample in the
   numerator and from g.max() in the divisor (dropping either breaks this) *)
Lemma gen_uniform_any_generator rn l u gmin gmax k :
  ddenote_g rn l u 0 gmin gmax k uniform_return_ast = uniform_real_g rn l u gmin gmax k.
Proof.
  unfold uniform_return_ast, uniform_real_g. cbn [ddenote_g]. rewrite <- !minus_IZR. reflexivity.
Qed.
