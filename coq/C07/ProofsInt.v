(* C07 — proofs about the integer / order part (axiom-free). *)
From Common Require Import Prelude.
From C07 Require Import Model.
Local Open Scope Z_scope.

(* ------------------------------------------------------------------ clamp *)
Section ClampProofs.
  Variable T : Type.
  Variable ltb : T -> T -> bool.
  Hypothesis ltb_irrefl : forall a, ltb a a = false.
  (* a <= b  :=  not (b < a) *)
  Definition gle (a b : T) : Prop := ltb b a = false.

  Lemma clamp_range_g x lo hi :
    gle lo hi -> gle lo (clamp T ltb x lo hi) /\ gle (clamp T ltb x lo hi) hi.
  Proof.
    unfold gle, clamp, gmax, gmin. intro Hlh.
    destruct (ltb hi x) eqn:E1.
    - rewrite Hlh. split; [exact Hlh | apply ltb_irrefl].
    - destruct (ltb x lo) eqn:E2.
      + split; [apply ltb_irrefl | exact Hlh].
      + split; [exact E2 | exact E1].
  Qed.

  Lemma clamp_id_g x lo hi :
    gle lo x -> gle x hi -> clamp T ltb x lo hi = x.
  Proof.
    unfold gle, clamp, gmax, gmin. intros H1 H2. rewrite H2, H1. reflexivity.
  Qed.
End ClampProofs.

Lemma clampZ_range x lo hi : lo <= hi -> lo <= clampZ x lo hi <= hi.
Proof.
  intro H. destruct (clamp_range_g Z Z.ltb Z.ltb_irrefl x lo hi) as [A B].
  - unfold gle. lia.
  - unfold gle in A, B. fold (clampZ x lo hi) in A, B. lia.
Qed.

Lemma clampZ_id x lo hi : lo <= x <= hi -> clampZ x lo hi = x.
Proof.
  intro H. apply (clamp_id_g Z Z.ltb); unfold gle; lia.
Qed.

(* -------------------------------------------------------------- divRoundUp *)
Lemma divRoundUp_least a b :
  0 <= a -> 0 < b ->
  divRoundUp a b * b >= a /\ (forall q', q' * b >= a -> divRoundUp a b <= q').
Proof.
  intros Ha Hb. unfold divRoundUp. rewrite Z.quot_div_nonneg by lia.
  split.
  - pose proof (Z.div_mod (a + b - 1) b ltac:(lia)) as E.
    pose proof (Z.mod_pos_bound (a + b - 1) b Hb) as M.
    nia.
  - intros q' Hq.
    assert (L : (a + b - 1) / b < q' + 1).
    { apply Z.div_lt_upper_bound; [exact Hb | nia]. }
    lia.
Qed.

Lemma divRoundUp_u_no_overflow bits a b :
  0 < bits -> 0 <= a -> 0 < b -> a + b - 1 < 2 ^ bits ->
  divRoundUp_u bits a b = divRoundUp a b.
Proof.
  intros Hbits Ha Hb Hno. unfold divRoundUp_u, divRoundUp, wrapu.
  rewrite Zminus_mod_idemp_l. rewrite Z.mod_small by lia. reflexivity.
Qed.

Lemma narrow_fits (sgn : bool) bits z :
  0 < bits -> 0 <= z < 2 ^ (bits - (if sgn then 1 else 0)) -> narrow sgn bits z = z.
Proof.
  intros Hb Hz. unfold narrow. destruct sgn.
  - assert (E : 2 ^ bits = 2 * 2 ^ (bits - 1)).
    { replace bits with (Z.succ (bits - 1)) at 1 by lia. apply Z.pow_succ_r. lia. }
    rewrite E. rewrite Z.mod_small by lia. lia.
  - rewrite Z.sub_0_r in Hz. apply Z.mod_small. exact Hz.
Qed.

(* narrow T: whenever the least quotient fits T, divRoundUp<T>(a,b) is it -- although a + b - 1 may exceed max(T) *)
Lemma divRoundUp_narrow_least (sgn : bool) bits a b :
  0 < bits -> 0 <= a -> 0 < b -> divRoundUp a b < 2 ^ (bits - (if sgn then 1 else 0)) ->
  divRoundUp_n sgn bits a b = divRoundUp a b /\
  divRoundUp_n sgn bits a b * b >= a /\ (forall q', q' * b >= a -> divRoundUp_n sgn bits a b <= q').
Proof.
  intros Hbits Ha Hb Hfit.
  destruct (divRoundUp_least a b Ha Hb) as [L1 L2].
  assert (Hq : 0 <= divRoundUp a b).
  { unfold divRoundUp. rewrite Z.quot_div_nonneg by lia. apply Z.div_pos; lia. }
  assert (E : divRoundUp_n sgn bits a b = divRoundUp a b).
  { unfold divRoundUp_n. fold (divRoundUp a b). apply narrow_fits; [exact Hbits | lia]. }
  rewrite E. repeat split; assumption.
Qed.

(* ------------------------------------------------------------ bit lemmas *)
Lemma land_low_shifted a b n :
  0 <= n -> 0 <= a < 2 ^ n -> Z.land a (b * 2 ^ n) = 0.
Proof.
  intros Hn Ha. apply Z.bits_inj'. intros i Hi.
  rewrite Z.land_spec, Z.bits_0. rewrite <- Z.shiftl_mul_pow2 by exact Hn.
  destruct (Z.lt_ge_cases i n) as [L | G].
  - rewrite Z.shiftl_spec_low by exact L. apply andb_false_r.
  - rewrite <- (Z.mod_small a (2 ^ n)) by exact Ha.
    rewrite Z.mod_pow2_bits_high by lia. reflexivity.
Qed.

Lemma lor_low_shifted a b n :
  0 <= n -> 0 <= a < 2 ^ n -> Z.lor a (b * 2 ^ n) = a + b * 2 ^ n.
Proof.
  intros Hn Ha. pose proof (land_low_shifted a b n Hn Ha) as L.
  rewrite <- Z.lxor_lor by exact L. symmetry. apply Z.add_nocarry_lxor. exact L.
Qed.

Lemma lor_range a b n :
  0 <= n -> 0 <= a < 2 ^ n -> 0 <= b < 2 ^ n -> 0 <= Z.lor a b < 2 ^ n.
Proof.
  intros Hn Ha Hb.
  assert (E : Z.lor a b = Z.lor a b mod 2 ^ n).
  { apply Z.bits_inj'. intros i Hi.
    destruct (Z.lt_ge_cases i n) as [L | G].
    - rewrite Z.mod_pow2_bits_low by exact L. reflexivity.
    - rewrite Z.mod_pow2_bits_high by lia. rewrite Z.lor_spec.
      rewrite <- (Z.mod_small a (2 ^ n)) by exact Ha.
      rewrite <- (Z.mod_small b (2 ^ n)) by exact Hb.
      rewrite !Z.mod_pow2_bits_high by lia. reflexivity. }
  rewrite E. apply Z.mod_pos_bound. apply Z.pow_pos_nonneg; lia.
Qed.

Lemma shiftr_range v r n :
  0 <= r -> 0 <= v < 2 ^ n -> 0 <= Z.shiftr v r < 2 ^ n.
Proof.
  intros Hr Hv. rewrite Z.shiftr_div_pow2 by exact Hr.
  assert (P : 0 < 2 ^ r) by (apply Z.pow_pos_nonneg; lia).
  split.
  - apply Z.div_pos; lia.
  - apply Z.le_lt_trans with v; [| lia].
    apply Z.div_le_upper_bound; [exact P | nia].
Qed.

(* ------------------------------------------------------------------ pack *)
Lemma pack_value c0 c1 c2 c3 :
  0 <= c0 <= 255 -> 0 <= c1 <= 255 -> 0 <= c2 <= 255 -> 0 <= c3 <= 255 ->
  pack c0 c1 c2 c3 = c0 + c1 * 256 + c2 * 65536 + c3 * 16777216.
Proof.
  intros H0 H1 H2 H3. unfold pack, u32.
  rewrite !Z.shiftl_mul_pow2 by lia.
  change (2 ^ 0) with 1. change (2 ^ 32) with 4294967296.
  rewrite !Z.mod_small by (change (2 ^ 8) with 256; change (2 ^ 16) with 65536;
                           change (2 ^ 24) with 16777216; lia).
  rewrite Z.mul_1_r.
  rewrite (lor_low_shifted c0 c1 8) by (change (2 ^ 8) with 256; lia).
  rewrite (lor_low_shifted (c0 + c1 * 2 ^ 8) c2 16)
    by (change (2 ^ 8) with 256; change (2 ^ 16) with 65536; lia).
  rewrite (lor_low_shifted (c0 + c1 * 2 ^ 8 + c2 * 2 ^ 16) c3 24)
    by (change (2 ^ 8) with 256; change (2 ^ 16) with 65536;
        change (2 ^ 24) with 16777216; lia).
  reflexivity.
Qed.

Lemma channel_divmod p k : 0 <= k -> channel p k = (p / 2 ^ (8 * k)) mod 256.
Proof.
  intro Hk. unfold channel. rewrite Z.shiftr_div_pow2 by lia.
  change 255 with (Z.ones 8). rewrite Z.land_ones by lia. reflexivity.
Qed.

Lemma pack_channels c0 c1 c2 c3 :
  0 <= c0 <= 255 -> 0 <= c1 <= 255 -> 0 <= c2 <= 255 -> 0 <= c3 <= 255 ->
  channel (pack c0 c1 c2 c3) 0 = c0 /\ channel (pack c0 c1 c2 c3) 1 = c1 /\
  channel (pack c0 c1 c2 c3) 2 = c2 /\ channel (pack c0 c1 c2 c3) 3 = c3.
Proof.
  intros H0 H1 H2 H3. rewrite !channel_divmod by lia.
  rewrite (pack_value c0 c1 c2 c3 H0 H1 H2 H3).
  change (2 ^ (8 * 0)) with 1. change (2 ^ (8 * 1)) with 256.
  change (2 ^ (8 * 2)) with 65536. change (2 ^ (8 * 3)) with 16777216.
  repeat split; lia.
Qed.

Lemma pack_range c0 c1 c2 c3 :
  0 <= c0 <= 255 -> 0 <= c1 <= 255 -> 0 <= c2 <= 255 -> 0 <= c3 <= 255 ->
  0 <= pack c0 c1 c2 c3 < 2 ^ 32.
Proof.
  intros H0 H1 H2 H3. rewrite (pack_value c0 c1 c2 c3 H0 H1 H2 H3).
  change (2 ^ 32) with 4294967296. lia.
Qed.

(* ------------------------------------------------------------------- pcg *)
Lemma u32_range z : 0 <= u32 z < 2 ^ 32.
Proof. unfold u32. apply Z.mod_pos_bound. reflexivity. Qed.

Lemma u64_range z : 0 <= u64 z < 2 ^ 64.
Proof. unfold u64. apply Z.mod_pos_bound. reflexivity. Qed.

Lemma rotr32_range v r : 0 <= v < 2 ^ 32 -> 0 <= r -> 0 <= rotr32 v r < 2 ^ 32.
Proof.
  intros Hv Hr. unfold rotr32. apply lor_range; [lia | | apply u32_range].
  apply shiftr_range; assumption.
Qed.

Lemma pcg_output_range s : 0 <= pcg_output s < 2 ^ 32.
Proof.
  unfold pcg_output. apply rotr32_range; [apply u32_range |].
  apply Z.land_nonneg. right. lia.
Qed.

Lemma pcg_bump_range s i : 0 <= pcg_bump s i < 2 ^ 64.
Proof. apply u64_range. Qed.

Lemma pcg_take_range n : forall g o, In o (pcg_take n g) -> 0 <= o < 2 ^ 32.
Proof.
  induction n as [| n IH]; intros g o Hin; simpl in Hin.
  - contradiction.
  - destruct Hin as [E | Hin].
    + subst o. apply pcg_output_range.
    + eapply IH. exact Hin.
Qed.

Lemma pcg_stream_range seed seq n o : In o (pcg_stream seed seq n) -> 0 <= o < 2 ^ 32.
Proof. apply pcg_take_range. Qed.

Lemma pcg_nth_range seed seq n : 0 <= pcg_nth seed seq n < 2 ^ 32.
Proof. unfold pcg_nth. apply pcg_output_range. Qed.

(* The generator is a function of (seed, sequence) as converted to uint64_t:
   two generators seeded with arguments that agree modulo 2^64 produce the same
   stream (in particular: identical arguments, identical stream). *)
Lemma pcg_seed_congr seed seq seed' seq' :
  u64 seed = u64 seed' -> u64 seq = u64 seq' -> pcg_seed seed seq = pcg_seed seed' seq'.
Proof. intros H1 H2. unfold pcg_seed. rewrite H1, H2. reflexivity. Qed.

Lemma pcg_reproducible seed seq seed' seq' n :
  u64 seed = u64 seed' -> u64 seq = u64 seq' ->
  pcg_stream seed seq n = pcg_stream seed' seq' n.
Proof.
  intros H1 H2. unfold pcg_stream. rewrite (pcg_seed_congr _ _ _ _ H1 H2). reflexivity.
Qed.

(* the stream constant (increment) never changes, and is odd *)
Lemma pcg_inc_const g : snd (snd (pcg_next g)) = snd g.
Proof. reflexivity. Qed.

Lemma pcg_seed_inc_odd seed seq : Z.odd (snd (pcg_seed seed seq)) = true.
Proof.
  unfold pcg_seed. cbn [snd]. rewrite <- Z.bit0_odd, Z.lor_spec.
  change (Z.testbit 1 0) with true. apply orb_true_r.
Qed.

(* stream prefix property: taking more outputs extends the list *)
Lemma pcg_take_nth n : forall g k, (k < n)%nat ->
  nth k (pcg_take n g) (-1) = fst (pcg_next (pcg_skip k g)).
Proof.
  induction n as [| n IH]; intros g k Hk; [lia |].
  destruct k as [| k]; simpl.
  - reflexivity.
  - apply IH. lia.
Qed.

(* makeRandomColor: each channel numerator g mod m is at most m - 1 *)
Lemma color_mod_range i m : 0 < m -> 0 <= color_g i mod m <= m - 1.
Proof. intro Hm. pose proof (Z.mod_pos_bound (color_g i) m Hm). lia. Qed.
