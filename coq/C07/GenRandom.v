(* C07 — the pcg32 engine assembled from REGENERATED pieces only (definitions only; extracted for the translation
   validation by execution): multiplier, specific_stream constructor, XSH-RR output function and rotr come from
   gen/GenMath.v (tools/cxx2coq, machine reading MZ); bump, the constructor's state initialiser, base_generate0,
   operator() and seed's forwarding come from gen/PcgFacts.v (props/C07/pcgfacts.py).  If a structural fact is
   false the generator is stuck at -1 (fail closed). *)
From Coq Require Import ZArith List Bool.
From Common Require Import CxxSem.
From C07 Require Import Model Sem.
From C07.gen Require Import GenMath PcgFacts.
Import ListNotations.
Local Open Scope Z_scope.

Definition gen_mult : Z := pcg_detail_default_multiplier_multiplier___4 MZ.
Definition gen_bump (s i : Z) : Z := pbump pcg_bump_ast i gen_mult s.
Definition gen_den (st i param : Z) (e : px) : Z := pden pcg_bump_ast st i param gen_mult e.

(* rng.seed(seed, sequence): both ints converted to uint64_t (u64), forwarded to engine(state, stream_seed) *)
Definition gen_seed (seed seq : Z) : Z * Z :=
  if pcg_seed_forwards && pcg_ctor_stream_ok then
    let i := specific_stream_inc_ (pcg_detail_specific_stream_mk__ul MZ (u64 seq)) in
    (gen_den 0 i (u64 seed) pcg_ctor_state_ast, i)
  else (-1, -1).

(* operator()(): output(base_generate0()) *)
Definition gen_next (g : Z * Z) : Z * (Z * Z) :=
  if pcg_call_ok then
    (pcg_detail_xsh_rr_mixin_output__ul MZ (gen_den (fst g) (snd g) 0 pcg_gen0_return_ast),
     (gen_den (fst g) (snd g) 0 pcg_gen0_state_ast, snd g))
  else (-1, g).

Fixpoint gen_take (n : nat) (g : Z * Z) : list Z :=
  match n with
  | O => []
  | Datatypes.S n' => fst (gen_next g) :: gen_take n' (snd (gen_next g))
  end.
Definition gen_stream (seed seq : Z) (n : nat) : list Z := gen_take n (gen_seed seed seq).
Definition gen_min : Z := gen_den 0 0 0 pcg_min_ast.
Definition gen_max : Z := gen_den 0 0 0 pcg_max_ast.
