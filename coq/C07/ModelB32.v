(* C07 — executable twin of ModelR.v on Flocq's IEEE-754 binary32 (bit patterns
   in, bit patterns out).  Evaluated with vm_compute by the correspondence run
   against the RKCOMMON_NO_SIMD build.  Definitions only. *)
From Coq Require Import ZArith List.
From Flocq Require Import Core IEEE754.BinarySingleNaN IEEE754.Binary IEEE754.Bits.
From C07 Require Import Model.
Import ListNotations.
Local Open Scope Z_scope.

Definition f32 := binary32.
Definition Hprec32 : FLX.Prec_gt_0 24 := eq_refl.
Definition Hmax32 : Prec_lt_emax 24 128 := eq_refl.

Definition of_bits (z : Z) : f32 := b32_of_bits z.
(* every NaN is printed as the canonical quiet NaN 0x7FC00000 *)
Definition to_bits (x : f32) : Z := if is_nan 24 128 x then 2143289344 else bits_of_b32 x.

Definition badd := b32_plus mode_NE.
Definition bsub := b32_minus mode_NE.
Definition bmul := b32_mult mode_NE.
Definition bdiv := b32_div mode_NE.
Definition bsqrt := b32_sqrt mode_NE.
Definition bneg := b32_opp.
Definition babs := b32_abs.
(* operator< and operator>= on float (false when unordered) *)
Definition bltb (a b : f32) : bool :=
  match b32_compare a b with Some Lt => true | _ => false end.
Definition bgeb (a b : f32) : bool :=
  match b32_compare a b with Some Gt | Some Eq => true | _ => false end.

Definition c_zero : f32 := of_bits 0.                   (* 0.f *)
Definition c_one : f32 := of_bits 1065353216.           (* 0x3F800000 = 1.f *)
Definition c_mone : f32 := of_bits 3212836864.          (* 0xBF800000 = -1.f *)
Definition c_two : f32 := of_bits 1073741824.           (* 0x40000000 = 2.f *)
Definition c_255 : f32 := of_bits 1132396544.           (* 0x437F0000 = 255.f *)
Definition c_fltmin : f32 := of_bits 8388608.           (* 0x00800000 = FLT_MIN *)
Definition c_deg2rad : f32 := of_bits 1016003125.       (* 0x3C8EFA35 *)
Definition c_scale : f32 := of_bits 796917760.          (* 0x2F800000 = 2^-32 *)

(* uint32_t -> float conversion (round to nearest even) *)
Definition b_of_u32 (k : Z) : f32 := binary_normalize 24 128 Hprec32 Hmax32 mode_NE k 0 false.

Definition b_sign (x : f32) : f32 := if bltb x c_zero then c_mone else c_one.
Definition b_rcp (x : f32) : f32 := bdiv c_one x.                       (* NO_SIMD *)
Definition b_rsqrt (x : f32) : f32 := bdiv c_one (bsqrt x).             (* NO_SIMD *)
Definition b_rcp_safe (x : f32) : f32 :=
  b_rcp (if bltb (babs x) c_fltmin
         then (if bgeb x c_zero then c_fltmin else bneg c_fltmin) else x).
Definition b_clamp (x lo hi : f32) : f32 := clamp f32 bltb x lo hi.
Definition b_deg2rad (x : f32) : f32 := bmul x c_deg2rad.
Definition b_madd (a b c : f32) : f32 := badd (bmul a b) c.
Definition b_lerp (f a b : f32) : f32 := badd (bmul (bsub c_one f) a) (bmul f b).

(* C round(): nearest integer, halfway cases away from zero; 0 for non-finite *)
Definition round_away (x : f32) : Z :=
  match x with
  | Binary.B754_finite _ _ s m e _ =>
      let v := if 0 <=? e then Zpos m * 2 ^ e
               else (Zpos m + 2 ^ (- e - 1)) / 2 ^ (- e) in
      if s then - v else v
  | _ => 0
  end.
Definition b_cvt (f : f32) : Z := u32 (round_away (bmul c_255 (b_clamp f c_zero c_one))).
Definition b_cvt4 (x y z w : f32) : Z := pack (b_cvt x) (b_cvt y) (b_cvt z) (b_cvt w).

(* pcg32_biased_float_distribution(lower, upper) on the generator output k:
   diff = upper - lower (constructor);  (scale * rng()) * diff + lower *)
Definition b_pcg_float_k (lower upper : f32) (k : Z) : f32 :=
  let diff := bsub upper lower in
  badd (bmul (bmul c_scale (b_of_u32 k)) diff) lower.
(* ... n-th value after rng.seed(seed, sequence) *)
Definition b_pcg_float (seed seq : Z) (lower upper : f32) (n : nat) : f32 :=
  b_pcg_float_k lower upper (pcg_nth seed seq n).
(* the operation order of seeded change C07-5: diff = (upper - lower) * scale;  rng() * diff + lower *)
Definition b_pcg_float_scaled_k (lower upper : f32) (k : Z) : f32 :=
  let diff := bmul (bsub upper lower) c_scale in
  badd (bmul (b_of_u32 k) diff) lower.
(* uniform_real_distribution<float>(l,u) on the generator output k (g.min() = 0, g.max() = 2^32-1), repaired order:
   range = float(g.max() - g.min());  l + ((g() - g.min()) / range) * (u - l) *)
Definition b_uniform_k (l u : f32) (k : Z) : f32 :=
  let range := b_of_u32 (4294967295 - 0) in
  badd l (bmul (bdiv (b_of_u32 (k - 0)) range) (bsub u l)).
(* before the repair: scale = (u - l) / float(g.max() - g.min());  l + (g() - g.min()) * scale *)
Definition b_uniform_old_k (l u : f32) (k : Z) : f32 :=
  let scale := bdiv (bsub u l) (b_of_u32 (4294967295 - 0)) in
  badd l (bmul (b_of_u32 (k - 0)) scale).
Definition b_uniform (seed seq : Z) (l u : f32) (n : nat) : f32 :=
  b_uniform_k l u (pcg_nth seed seq n).
(* makeRandomColor channel *)
Definition b_color (i m : Z) : f32 :=
  bmul (b_of_u32 (color_g i mod m)) (bdiv c_one (b_of_u32 (m - 1))).

(* ---------------------------------------------------------------------------------------------
   binary64 twin of the double overloads / instantiations of rkmath.h:
   rcp(double), rcp_safe(double) = rcp_safe_t<double>, rsqrt(double), clamp<double>, deg2rad<double>,
   madd<double>, lerp<double> (the factor is a FLOAT: 1.f - factor is computed in float, then widened). *)
Definition f64 := binary64.
Definition Hprec64 : FLX.Prec_gt_0 53 := eq_refl.
Definition Hmax64 : Prec_lt_emax 53 1024 := eq_refl.
Definition of_bits64 (z : Z) : f64 := b64_of_bits z.
Definition to_bits64 (x : f64) : Z := if is_nan 53 1024 x then 9221120237041090560 else bits_of_b64 x.
Definition dadd := b64_plus mode_NE.
Definition dsub := b64_minus mode_NE.
Definition dmul := b64_mult mode_NE.
Definition ddiv := b64_div mode_NE.
Definition dsqrt := b64_sqrt mode_NE.
Definition dltb (a b : f64) : bool := match b64_compare a b with Some Lt => true | _ => false end.
Definition dgeb (a b : f64) : bool := match b64_compare a b with Some Gt | Some Eq => true | _ => false end.
Definition d_zero : f64 := of_bits64 0.
Definition d_one : f64 := of_bits64 4607182418800017408.          (* 0x3FF0000000000000 *)
Definition d_dblmin : f64 := of_bits64 4503599627370496.          (* 0x0010000000000000 = DBL_MIN *)
Definition d_deg2rad_c : f64 := of_bits64 4580687790476533049.      (* 0x3F91DF46A2529D39 = 1.745329251994329576923690768489e-2 *)
(* float -> double conversion (exact) *)
Definition d_of_f32 (x : f32) : f64 :=
  match x with
  | Binary.B754_zero _ _ s => Binary.B754_zero 53 1024 s
  | Binary.B754_infinity _ _ s => Binary.B754_infinity 53 1024 s
  | Binary.B754_nan _ _ _ _ _ => of_bits64 9221120237041090560
  | Binary.B754_finite _ _ s m e _ => binary_normalize 53 1024 Hprec64 Hmax64 mode_NE (if s then Zneg m else Zpos m) e s
  end.
Definition d_rcp (x : f64) : f64 := ddiv d_one x.
Definition d_rsqrt (x : f64) : f64 := ddiv d_one (dsqrt x).
(* rcp_safe_t<double>: flt_min = numeric_limits<double>::min();  abs(x) < flt_min ? (x >= 0.f ? flt_min : -flt_min) : x *)
Definition d_rcp_safe (x : f64) : f64 :=
  d_rcp (if dltb (b64_abs x) d_dblmin
         then (if dgeb x (d_of_f32 c_zero) then d_dblmin else b64_opp d_dblmin) else x).
Definition d_clamp (x lo hi : f64) : f64 := clamp f64 dltb x lo hi.
Definition d_deg2rad (x : f64) : f64 := dmul x d_deg2rad_c.
Definition d_madd (a b c : f64) : f64 := dadd (dmul a b) c.
Definition d_lerp (f : f32) (a b : f64) : f64 :=
  dadd (dmul (d_of_f32 (bsub c_one f)) a) (dmul (d_of_f32 f) b).

(* uniform_real_distribution<T>::operator()(G&) for a generator with range [gmin, gmax] returning k:
   range = T(g.max() - g.min());  l + ((g() - g.min()) / range) * (u - l);   T = float / double.
   (b_of_u32 / d_of_Z convert ANY non-negative integer with one rounding, also 64-bit ones) *)
Definition d_of_Z (k : Z) : f64 := binary_normalize 53 1024 Hprec64 Hmax64 mode_NE k 0 false.
Definition b_uniform_g (l u : f32) (gmin gmax k : Z) : f32 :=
  let range := b_of_u32 (gmax - gmin) in
  badd l (bmul (bdiv (b_of_u32 (k - gmin)) range) (bsub u l)).
Definition d_uniform_g (l u : f64) (gmin gmax k : Z) : f64 :=
  let range := d_of_Z (gmax - gmin) in
  dadd l (dmul (ddiv (d_of_Z (k - gmin)) range) (dsub u l)).
(* the generator family of the harness (harness/C07/harness.cpp, GenStub<R, MIN, MAX>): id -> (min, max) *)
Definition gen_range (id : Z) : Z * Z :=
  match id with
  | 0 => (0, 4294967295)                      (* uint32_t, fills the type (pcg32, mt19937) *)
  | 1 => (1, 2147483646)                      (* uint32_t, minstd_rand0 / minstd_rand *)
  | 2 => (1, 6)                               (* uint32_t toy LCG mod 7 *)
  | 3 => (0, 18446744073709551615)            (* uint64_t, fills the type (mt19937_64) *)
  | 4 => (1, 2305843009213693950)             (* uint64_t, min() != 0 *)
  | 5 => (5, 1005)
  | _ => (1000000007, 1000000262)             (* uint64_t, small range far from 0 *)
  end.

(* seeds arrive as the value of the C++ int (may be negative) *)
Definition run_case (fn : Z) (a : list Z) : Z :=
  match fn, a with
  | 1, [x] => to_bits (b_rcp (of_bits x))
  | 2, [x] => to_bits (b_rcp_safe (of_bits x))
  | 3, [x] => to_bits (b_rsqrt (of_bits x))
  | 4, [x; lo; hi] => to_bits (b_clamp (of_bits x) (of_bits lo) (of_bits hi))
  | 5, [x] => to_bits (b_deg2rad (of_bits x))
  | 6, [x; y; z] => to_bits (b_madd (of_bits x) (of_bits y) (of_bits z))
  | 7, [f; x; y] => to_bits (b_lerp (of_bits f) (of_bits x) (of_bits y))
  | 8, [x] => to_bits (b_sign (of_bits x))
  | 9, [x] => b_cvt (of_bits x)
  | 10, [x; y; z; w] => b_cvt4 (of_bits x) (of_bits y) (of_bits z) (of_bits w)
  | 11, [seed; seq; lo; hi; n] => to_bits (b_pcg_float seed seq (of_bits lo) (of_bits hi) (Z.to_nat n))
  | 12, [seed; seq; lo; hi; n] => to_bits (b_uniform seed seq (of_bits lo) (of_bits hi) (Z.to_nat n))
  | 13, [i; m] => to_bits (b_color i m)
  | 16, [] => to_bits c_deg2rad
  | 50, [g; 32; lo; hi; k] => to_bits (b_uniform_g (of_bits lo) (of_bits hi) (fst (gen_range g)) (snd (gen_range g)) k)
  | 50, [g; 64; lo; hi; k] => to_bits64 (d_uniform_g (of_bits64 lo) (of_bits64 hi) (fst (gen_range g)) (snd (gen_range g)) k)
  | 40, [x] => to_bits64 (d_rcp (of_bits64 x))
  | 41, [x] => to_bits64 (d_rcp_safe (of_bits64 x))
  | 42, [x] => to_bits64 (d_rsqrt (of_bits64 x))
  | 43, [x; lo; hi] => to_bits64 (d_clamp (of_bits64 x) (of_bits64 lo) (of_bits64 hi))
  | 44, [x] => to_bits64 (d_deg2rad (of_bits64 x))
  | 45, [x; y; z] => to_bits64 (d_madd (of_bits64 x) (of_bits64 y) (of_bits64 z))
  | 46, [f; x; y] => to_bits64 (d_lerp (of_bits f) (of_bits64 x) (of_bits64 y))
  | 17, [lo; hi; k] => to_bits (b_pcg_float_k (of_bits lo) (of_bits hi) k)
  | 18, [lo; hi; k] => to_bits (b_uniform_k (of_bits lo) (of_bits hi) k)
  | 19, [lo; hi; k] => to_bits (b_uniform_old_k (of_bits lo) (of_bits hi) k)
  | _, _ => -1
  end.
Definition run_cases (cs : list (Z * list Z)) : list Z := map (fun c => run_case (fst c) (snd c)) cs.
