(* C07 — integer / order part of the model (definitions only; extracted to OCaml).
   Mirrors rkcommon/math/rkmath.h (clamp, divRoundUp), rkcommon/math/vec.h
   (cvt_uint32(vec4f) packing) and rkcommon/utility/detail/pcg_random.hpp
   (pcg32 = setseq_xsh_rr_64_32) as used by rkcommon/utility/random.h. *)
From Common Require Import Prelude.
Local Open Scope Z_scope.

(* ---- std::min / std::max / clamp over any type with a "less than" ---------
   std::min(a,b) = (b < a) ? b : a      std::max(a,b) = (a < b) ? b : a
   clamp(x,lower,upper) = max(min(x,upper),lower)           (rkmath.h:96-101) *)
Section Clamp.
  Variable T : Type.
  Variable ltb : T -> T -> bool.
  Definition gmin (a b : T) : T := if ltb b a then b else a.
  Definition gmax (a b : T) : T := if ltb a b then b else a.
  Definition clamp (x lower upper : T) : T := gmax (gmin x upper) lower.
End Clamp.

Definition clampZ (x lo hi : Z) : Z := clamp Z Z.ltb x lo hi.

(* ---- divRoundUp(a,b) = (a + b - 1) / b  (rkmath.h:120-124); C++ integer
   division truncates = Z.quot.  The _u variant is the same expression in an
   unsigned type of the given width (wrap-around is defined behaviour there). *)
Definition divRoundUp (a b : Z) : Z := Z.quot (a + b - 1) b.
Definition wrapu (bits z : Z) : Z := z mod 2 ^ bits.
Definition divRoundUp_u (bits a b : Z) : Z :=
  Z.quot (wrapu bits (wrapu bits (a + b) - 1)) b.

(* the same template at a type NARROWER than int (int8_t, uint8_t, int16_t, uint16_t): the usual arithmetic
   conversions promote both operands to int, (a + b - 1) / b is computed in int (no wrap: |a + b - 1| < 2^17), and the
   ONE narrowing conversion happens at the return *)
Definition narrow (sgn : bool) (bits z : Z) : Z :=
  if sgn then (z + 2 ^ (bits - 1)) mod 2 ^ bits - 2 ^ (bits - 1) else z mod 2 ^ bits.
Definition divRoundUp_n (sgn : bool) (bits a b : Z) : Z := narrow sgn bits (Z.quot (a + b - 1) b).

(* ---- cvt_uint32(vec4f): (c0 << 0) | (c1 << 8) | (c2 << 16) | (c3 << 24) in uint32_t *)
Definition u32 (z : Z) : Z := z mod 2 ^ 32.
Definition pack (c0 c1 c2 c3 : Z) : Z :=
  Z.lor (Z.lor (Z.lor (u32 (Z.shiftl c0 0)) (u32 (Z.shiftl c1 8)))
               (u32 (Z.shiftl c2 16)))
        (u32 (Z.shiftl c3 24)).
Definition channel (p k : Z) : Z := Z.land (Z.shiftr p (8 * k)) 255.

(* ---- pcg32: 64-bit LCG state, XSH-RR output (pcg_random.hpp) ---------------- *)
Definition u64 (z : Z) : Z := z mod 2 ^ 64.
Definition pcg_mult : Z := 6364136223846793005.
(* engine::bump *)
Definition pcg_bump (s i : Z) : Z := u64 (s * pcg_mult + i).
(* rng.seed(seed, sequence): the two ints are converted to uint64_t (mod 2^64),
   inc = (sequence << 1) | 1,  state = bump(seed + inc) *)
Definition pcg_seed (seed seq : Z) : Z * Z :=
  let i := Z.lor (u64 (Z.shiftl (u64 seq) 1)) 1 in
  (pcg_bump (u64 (u64 seed + i)) i, i).
(* pcg_extras::rotr on uint32_t: (v >> r) | (v << ((-r) & 31)) *)
Definition rotr32 (v r : Z) : Z :=
  Z.lor (Z.shiftr v r) (u32 (Z.shiftl v (Z.land (- r) 31))).
(* xsh_rr_mixin<uint32_t,uint64_t>::output: rot = s >> 59; s ^= s >> 18;
   result = uint32_t(s >> 27); rotr(result, rot) *)
Definition pcg_output (s : Z) : Z :=
  let rot := Z.land (Z.shiftr s 59) 31 in
  let x := Z.lxor s (Z.shiftr s 18) in
  rotr32 (u32 (Z.shiftr x 27)) rot.
(* operator()(): output(old state), state = bump(state) *)
Definition pcg_next (g : Z * Z) : Z * (Z * Z) :=
  (pcg_output (fst g), (pcg_bump (fst g) (snd g), snd g)).
Fixpoint pcg_take (n : nat) (g : Z * Z) : list Z :=
  match n with
  | O => []
  | S n' => fst (pcg_next g) :: pcg_take n' (snd (pcg_next g))
  end.
Definition pcg_stream (seed seq : Z) (n : nat) : list Z := pcg_take n (pcg_seed seed seq).
Fixpoint pcg_skip (n : nat) (g : Z * Z) : Z * Z :=
  match n with O => g | S n' => pcg_skip n' (snd (pcg_next g)) end.
(* the n-th (0-based) output after seeding *)
Definition pcg_nth (seed seq : Z) (n : nat) : Z := fst (pcg_next (pcg_skip n (pcg_seed seed seq))).

(* makeRandomColor's integer part (random.h:66-75): g = i*1905 + 12312314 in unsigned int *)
Definition color_g (i : Z) : Z := u32 (u32 (i * (3 * 5 * 127)) + 12312314).
