(* C07 — proofs about the binary32-over-R reading (ModelR.v) that need Reals and Flocq only
   (no interval tactic): rounding facts, rcp NO_SIMD, rcp_safe, clamp, cvt, sRGB, distributions,
   definitional kernels, non-vacuity.  ProofsR.v re-exports this file. *)
From Coq Require Import Reals ZArith Lia Lra Psatz.
From Flocq Require Import Core Relative.
From C07 Require Import Model ModelR ProofsInt.
Local Open Scope R_scope.

#[export] Instance prec24 : Prec_gt_0 24.
Proof. unfold Prec_gt_0. reflexivity. Qed.

Notation u24 := (/ 2 * bpow radix2 (-24 + 1)).
Notation eta32 := (/ 2 * bpow radix2 (-149)).

(* ------------------------------------------------------------ rounding facts *)
Lemma rnd_err x : exists eps eta,
  Rabs eps <= u24 /\ Rabs eta <= eta32 /\ eps * eta = 0 /\ rnd x = x * (1 + eps) + eta.
Proof.
  destruct (error_N_FLT radix2 (-149) 24 ltac:(reflexivity) (fun z => negb (Z.even z)) x)
    as (eps & eta & H1 & H2 & H3 & H4).
  exists eps, eta. repeat split; assumption.
Qed.

Lemma rnd_format x : format32 (rnd x).
Proof. apply generic_format_round; typeclasses eauto. Qed.

Lemma rnd_id x : format32 x -> rnd x = x.
Proof. intro H. apply round_generic; [typeclasses eauto | exact H]. Qed.

Lemma rnd_mono x y : x <= y -> rnd x <= rnd y.
Proof. intro H. apply round_le; [typeclasses eauto | typeclasses eauto | exact H]. Qed.

Lemma fmt_F2R m e : (Z.abs m < 2 ^ 24)%Z -> (-149 <= e)%Z -> format32 (IZR m * bpow radix2 e).
Proof.
  intros Hm He. apply generic_format_FLT.
  exists (Float radix2 m e); [reflexivity | exact Hm | exact He].
Qed.

Lemma fmt_0 : format32 0.
Proof. apply generic_format_0. Qed.
Lemma fmt_1 : format32 1.
Proof. replace 1 with (IZR 1 * bpow radix2 0) by (simpl; ring). apply fmt_F2R; [reflexivity | lia]. Qed.
Lemma fmt_2 : format32 2.
Proof. replace 2 with (IZR 2 * bpow radix2 0) by (simpl; ring). apply fmt_F2R; [reflexivity | lia]. Qed.
Lemma fmt_255 : format32 255.
Proof. replace 255 with (IZR 255 * bpow radix2 0) by (simpl; ring). apply fmt_F2R; [reflexivity | lia]. Qed.
Lemma fmt_bpow e : (-149 <= e)%Z -> format32 (bpow radix2 e).
Proof. intro He. replace (bpow radix2 e) with (IZR 1 * bpow radix2 e) by ring. apply fmt_F2R; [reflexivity | exact He]. Qed.
Lemma fmt_FLT_MIN : format32 FLT_MIN.
Proof. apply fmt_bpow. lia. Qed.
Lemma fmt_FLT_MAX : format32 FLT_MAX.
Proof.
  replace FLT_MAX with (IZR 16777215 * bpow radix2 104).
  - apply fmt_F2R; [reflexivity | lia].
  - unfold FLT_MAX. change 127%Z with (23 + 104)%Z. rewrite bpow_plus.
    replace (2 - bpow radix2 (-23)) with (IZR 16777215 * bpow radix2 (-23)) by (simpl; lra).
    replace (bpow radix2 23) with 8388608 by (simpl; lra).
    replace (bpow radix2 (-23)) with (/ 8388608) by (simpl; lra). field.
Qed.
Definition Ubound : R := 1 + 3 / 8192.
Lemma fmt_U : format32 Ubound.
Proof.
  replace Ubound with (IZR 8195 * bpow radix2 (-13)) by (unfold Ubound; simpl; lra).
  apply fmt_F2R; [reflexivity | lia].
Qed.

Lemma rnd_0 : rnd 0 = 0.
Proof. apply rnd_id, fmt_0. Qed.

Lemma rnd_ge x y : format32 x -> x <= y -> x <= rnd y.
Proof. intros F H. apply round_ge_generic; [typeclasses eauto | typeclasses eauto | exact F | exact H]. Qed.
Lemma rnd_le x y : format32 y -> x <= y -> rnd x <= y.
Proof. intros F H. apply round_le_generic; [typeclasses eauto | typeclasses eauto | exact F | exact H]. Qed.
Lemma rnd_abs_le x y : format32 y -> Rabs x <= y -> Rabs (rnd x) <= y.
Proof. intros F H. apply abs_round_le_generic; [typeclasses eauto | typeclasses eauto | exact F | exact H]. Qed.

Lemma FLT_MIN_pos : 0 < FLT_MIN.
Proof. apply bpow_gt_0. Qed.
Lemma bpow_le_MAX e : (e <= 127)%Z -> bpow radix2 e <= FLT_MAX.
Proof.
  intro He. apply Rle_trans with (bpow radix2 127); [apply bpow_le; exact He |].
  unfold FLT_MAX. pose proof (bpow_le radix2 (-23) 0 ltac:(lia)) as H. simpl (bpow radix2 0) in H.
  pose proof (bpow_gt_0 radix2 127). nra.
Qed.
Lemma FLT_MIN_le_MAX : FLT_MIN <= FLT_MAX.
Proof. apply bpow_le_MAX. lia. Qed.

(* |h * x| for an absolute error h and |x| <= 2^126 *)
Lemma eta_scaled h x : Rabs h <= eta32 -> Rabs x <= bpow radix2 126 -> Rabs (h * x) <= bpow radix2 (-24).
Proof.
  intros Hh Hx. rewrite Rabs_mult.
  replace (bpow radix2 (-24)) with (eta32 * bpow radix2 126).
  - apply Rmult_le_compat; try apply Rabs_pos; assumption.
  - change (/ 2) with (bpow radix2 (-1)). rewrite <- !bpow_plus. reflexivity.
Qed.

(* --------------------------------------------------------------------- rcp *)
Lemma rcp_nosimd_accuracy x :
  FLT_MIN <= Rabs x <= bpow radix2 126 -> Rabs (rcp_nosimd x * x - 1) <= bpow radix2 (-24).
Proof.
  intros [Hlo Hhi]. unfold rcp_nosimd, fdiv.
  assert (Hx0 : x <> 0).
  { intro E. rewrite E, Rabs_R0 in Hlo. pose proof FLT_MIN_pos. lra. }
  destruct (rnd_err (1 / x)) as (d & h & Hd & Hh & Hz & E). rewrite E.
  replace (((1 / x) * (1 + d) + h) * x - 1) with (d + h * x) by (field; exact Hx0).
  destruct (Rmult_integral _ _ Hz) as [Z | Z]; subst.
  - rewrite Rplus_0_l. apply eta_scaled; assumption.
  - rewrite Rmult_0_l, Rplus_0_r. eapply Rle_trans; [exact Hd |].
    right. change (/ 2) with (bpow radix2 (-1)). rewrite <- bpow_plus. reflexivity.
Qed.

Section EstimatesBase.
  Variable rcp_est : R -> R.
  (* vendor contract of rcpss (relative error at most 1.5 * 2^-12 on normal arguments whose
     reciprocal is normal); for huge arguments the estimate may be flushed to zero but is never
     of the wrong sign or too large *)
  Hypothesis H_rcp : forall x, format32 x -> FLT_MIN <= Rabs x < bpow radix2 126 ->
    Rabs (rcp_est x * x - 1) <= 3 / 8192.
  Hypothesis H_rcp_big : forall x, format32 x -> bpow radix2 126 <= Rabs x ->
    0 <= rcp_est x * x <= 1 + 3 / 8192.

  (* -------------------------------------------------- rcp_safe (SIMD formula) *)
  Lemma rnd_sign y : (0 <= y -> 0 <= rnd y) /\ (y <= 0 -> rnd y <= 0).
  Proof. split; intro H; [apply rnd_ge | apply rnd_le]; try exact fmt_0; exact H. Qed.

  Lemma rcp_simd_finite_sign a :
    format32 a -> FLT_MIN <= Rabs a ->
    finite32 (rcp_simd rcp_est a) /\ 0 <= rcp_simd rcp_est a * a.
  Proof.
    intros Fa Ha. unfold rcp_simd, fmul, fsub. set (r := rcp_est a).
    pose proof FLT_MIN_pos as Pm.
    assert (Hu : 0 <= r * a <= Ubound).
    { unfold Ubound. destruct (Rlt_or_le (Rabs a) (bpow radix2 126)) as [L | G].
      - pose proof (H_rcp a Fa (conj Ha L)) as H. fold r in H.
        apply Rabs_le_inv in H. lra.
      - exact (H_rcp_big a Fa G). }
    set (u := r * a) in *.
    assert (Ht1 : 0 <= rnd u <= Ubound).
    { split; [apply rnd_ge; [exact fmt_0 | lra] | apply rnd_le; [exact fmt_U | lra]]. }
    set (t1 := rnd u) in *.
    assert (Ht2 : 0 <= rnd (2 - t1) <= 2).
    { unfold Ubound in Ht1. split; [apply rnd_ge; [exact fmt_0 | lra] | apply rnd_le; [exact fmt_2 | lra]]. }
    set (t2 := rnd (2 - t1)) in *.
    assert (Ha0 : a <> 0).
    { intro E. rewrite E, Rabs_R0 in Ha. lra. }
    assert (Hr : Rabs r <= Ubound * bpow radix2 126).
    { assert (E : Rabs r = u * / Rabs a).
      { unfold u. rewrite <- (Rabs_pos_eq (r * a)) by (unfold u in Hu; lra).
        rewrite Rabs_mult. field. apply Rabs_no_R0. exact Ha0. }
      rewrite E. apply Rmult_le_compat; [lra | | lra |].
      - apply Rlt_le, Rinv_0_lt_compat. lra.
      - replace (bpow radix2 126) with (/ FLT_MIN).
        + apply Rinv_le_contravar; assumption.
        + unfold FLT_MIN. rewrite <- bpow_opp. reflexivity. }
    split.
    - split; [apply rnd_format |].
      apply rnd_abs_le; [exact fmt_FLT_MAX |].
      rewrite Rabs_mult, (Rabs_pos_eq t2) by lra.
      apply Rle_trans with (Ubound * bpow radix2 126 * 2).
      + apply Rmult_le_compat; [apply Rabs_pos | lra | exact Hr | lra].
      + unfold FLT_MAX. change 127%Z with (126 + 1)%Z. rewrite bpow_plus. simpl (bpow radix2 1).
        pose proof (bpow_le radix2 (-23) (-1) ltac:(lia)) as H. simpl (bpow radix2 (-1)) in H.
        pose proof (bpow_gt_0 radix2 126). unfold Ubound. nra.
    - assert (Hp : 0 <= (r * t2) * a).
      { replace (r * t2 * a) with (u * t2) by (unfold u; ring). apply Rmult_le_pos; lra. }
      destruct (rnd_sign (r * t2)) as [S1 S2].
      destruct (Rdichotomy _ _ Ha0) as [N | P].
      + assert (r * t2 <= 0) by nra. specialize (S2 H). nra.
      + assert (0 <= r * t2) by nra. specialize (S1 H). nra.
  Qed.
End EstimatesBase.

(* ------------------------------------------------------- rcp_safe argument *)
Lemma rcp_safe_arg_spec x :
  FLT_MIN <= Rabs (rcp_safe_arg x) /\
  (0 <= x -> 0 < rcp_safe_arg x) /\ (x < 0 -> rcp_safe_arg x < 0) /\
  (finite32 x -> finite32 (rcp_safe_arg x)).
Proof.
  pose proof FLT_MIN_pos as Pm. pose proof FLT_MIN_le_MAX as Pmm.
  unfold rcp_safe_arg.
  destruct (Rlt_bool_spec (Rabs x) FLT_MIN) as [L | G].
  - destruct (Rle_bool_spec 0 x) as [P | N].
    + rewrite (Rabs_pos_eq FLT_MIN) by lra. repeat split; try lra.
      * exact fmt_FLT_MIN.
      * rewrite (Rabs_pos_eq FLT_MIN) by lra. exact Pmm.
    + rewrite Rabs_Ropp, (Rabs_pos_eq FLT_MIN) by lra. repeat split; try lra.
      * apply generic_format_opp. exact fmt_FLT_MIN.
      * rewrite Rabs_Ropp, (Rabs_pos_eq FLT_MIN) by lra. exact Pmm.
  - split; [exact G |]. split; [| split; [intro N; exact N | intro Fx; exact Fx]].
    intro P. destruct (Req_dec x 0) as [E | E]; [rewrite E, Rabs_R0 in G; lra | lra].
Qed.

Lemma rcp_nosimd_finite_sign a :
  FLT_MIN <= Rabs a -> finite32 (rcp_nosimd a) /\ 0 <= rcp_nosimd a * a.
Proof.
  intro Ha. pose proof FLT_MIN_pos as Pm. unfold rcp_nosimd, fdiv.
  assert (Ha0 : a <> 0).
  { intro E. rewrite E, Rabs_R0 in Ha. lra. }
  split.
  - split; [apply rnd_format |].
    apply Rle_trans with (bpow radix2 126); [| apply bpow_le_MAX; lia].
    apply rnd_abs_le; [apply fmt_bpow; lia |].
    unfold Rdiv. rewrite Rmult_1_l, Rabs_inv by exact Ha0.
    replace (bpow radix2 126) with (/ FLT_MIN).
    + apply Rinv_le_contravar; assumption.
    + unfold FLT_MIN. rewrite <- bpow_opp. reflexivity.
  - destruct (Rdichotomy _ _ Ha0) as [N | P].
    + assert (H : 1 / a <= 0).
      { unfold Rdiv. rewrite Rmult_1_l. apply Rlt_le, Rinv_lt_0_compat. exact N. }
      assert (rnd (1 / a) <= 0) by (apply rnd_le; [exact fmt_0 | exact H]). nra.
    + assert (H : 0 <= 1 / a).
      { unfold Rdiv. rewrite Rmult_1_l. apply Rlt_le, Rinv_0_lt_compat. exact P. }
      assert (0 <= rnd (1 / a)) by (apply rnd_ge; [exact fmt_0 | exact H]). nra.
Qed.

(* generic wrapper: any rcp that is finite and sign-correct on normal-or-larger arguments *)
Lemma rcp_safe_finite_sign_gen (rcp : R -> R) :
  (forall a, format32 a -> FLT_MIN <= Rabs a -> finite32 (rcp a) /\ 0 <= rcp a * a) ->
  forall x, finite32 x ->
  FLT_MIN <= Rabs (rcp_safe_arg x) /\
  (0 <= x -> 0 < rcp_safe_arg x) /\ (x < 0 -> rcp_safe_arg x < 0) /\
  finite32 (rcp_safe rcp x) /\ 0 <= rcp_safe rcp x * x.
Proof.
  intros Hrcp x Fx. destruct (rcp_safe_arg_spec x) as (A1 & A2 & A3 & A4).
  specialize (A4 Fx). destruct A4 as [A4 A5].
  destruct (Hrcp _ A4 A1) as [R1 R2]. unfold rcp_safe.
  repeat split; try assumption; try (apply R1).
  destruct (Rlt_or_le x 0) as [N | P].
  - specialize (A3 N). nra.
  - specialize (A2 P). nra.
Qed.

Lemma rcp_safe_nosimd_finite_sign x : finite32 x ->
  FLT_MIN <= Rabs (rcp_safe_arg x) /\
  (0 <= x -> 0 < rcp_safe_arg x) /\ (x < 0 -> rcp_safe_arg x < 0) /\
  finite32 (rcp_safe rcp_nosimd x) /\ 0 <= rcp_safe rcp_nosimd x * x.
Proof.
  apply rcp_safe_finite_sign_gen. intros a _ Ha. apply rcp_nosimd_finite_sign. exact Ha.
Qed.

(* ---- rcp_safe at ANY precision: rn monotone, odd, rn 0 = 0; tmin > 0 (numeric_limits<T>::min()).
   The argument handed to rcp has magnitude >= tmin and the sign sense of x; the result is never of the
   opposite sign to x and is bounded by rn(1/tmin) (finite in every IEEE format: 1/min is representable) *)
Section AnyPrecisionProofs.
  Variable rn : R -> R.
  Variable tmin : R.
  Hypothesis rn_mono : forall x y, x <= y -> rn x <= rn y.
  Hypothesis rn_zero : rn 0 = 0.
  Hypothesis rn_opp : forall x, rn (- x) = - rn x.
  Hypothesis tmin_pos : 0 < tmin.

  Lemma rcp_safe_arg_g_spec x :
    tmin <= Rabs (rcp_safe_arg_g tmin x) /\
    (0 <= x -> 0 < rcp_safe_arg_g tmin x) /\ (x < 0 -> rcp_safe_arg_g tmin x < 0).
  Proof.
    unfold rcp_safe_arg_g.
    destruct (Rlt_bool_spec (Rabs x) tmin) as [L | G].
    - destruct (Rle_bool_spec 0 x) as [P | N].
      + rewrite (Rabs_pos_eq tmin) by lra. repeat split; lra.
      + rewrite Rabs_Ropp, (Rabs_pos_eq tmin) by lra. repeat split; lra.
    - split; [exact G |]. split; [| intro N; exact N].
      intro P. destruct (Req_dec x 0) as [E | E]; [rewrite E, Rabs_R0 in G; lra | lra].
  Qed.

  Lemma rcp_g_sign_bound a : tmin <= Rabs a -> 0 <= rcp_g rn a * a /\ Rabs (rcp_g rn a) <= rn (/ tmin).
  Proof.
    intro Ha. unfold rcp_g.
    assert (Ha0 : a <> 0) by (intro E; rewrite E, Rabs_R0 in Ha; lra).
    assert (Hi : 0 < / tmin) by (apply Rinv_0_lt_compat; exact tmin_pos).
    destruct (Rdichotomy _ _ Ha0) as [N | P].
    - rewrite (Rabs_left a N) in Ha.
      assert (H1 : - / tmin <= 1 / a <= 0).
      { unfold Rdiv. rewrite Rmult_1_l. split.
        - replace (/ a) with (- / (- a)) by (field; lra). apply Ropp_le_contravar.
          apply Rinv_le_contravar; lra.
        - apply Rlt_le, Rinv_lt_0_compat. exact N. }
      assert (H2 : - rn (/ tmin) <= rn (1 / a) <= 0).
      { split; [rewrite <- rn_opp; apply rn_mono; lra | rewrite <- rn_zero; apply rn_mono; lra]. }
      split; [nra |]. rewrite Rabs_left1 by lra. lra.
    - rewrite (Rabs_pos_eq a) in Ha by lra.
      assert (H1 : 0 <= 1 / a <= / tmin).
      { unfold Rdiv. rewrite Rmult_1_l. split.
        - apply Rlt_le, Rinv_0_lt_compat. exact P.
        - apply Rinv_le_contravar; lra. }
      assert (H2 : 0 <= rn (1 / a) <= rn (/ tmin)).
      { split; [rewrite <- rn_zero; apply rn_mono; lra | apply rn_mono; lra]. }
      split; [nra |]. rewrite Rabs_pos_eq by lra. lra.
  Qed.

  Lemma rcp_safe_g_sign x :
    tmin <= Rabs (rcp_safe_arg_g tmin x) /\
    (0 <= x -> 0 < rcp_safe_arg_g tmin x) /\ (x < 0 -> rcp_safe_arg_g tmin x < 0) /\
    0 <= rcp_safe_g rn tmin x * x /\ Rabs (rcp_safe_g rn tmin x) <= rn (/ tmin).
  Proof.
    destruct (rcp_safe_arg_g_spec x) as (A1 & A2 & A3).
    destruct (rcp_g_sign_bound _ A1) as [B1 B2]. unfold rcp_safe_g.
    repeat split; try assumption.
    destruct (Rlt_or_le x 0) as [N | P]; [specialize (A3 N) | specialize (A2 P)]; nra.
  Qed.
End AnyPrecisionProofs.

(* binary64 instance: rcp_safe(double) *)
Local Instance prec53 : Prec_gt_0 53.
Proof. unfold Prec_gt_0. reflexivity. Qed.
Lemma rnd64_mono x y : x <= y -> rnd64 x <= rnd64 y.
Proof. intro H. apply round_le; [typeclasses eauto | typeclasses eauto | exact H]. Qed.
Lemma rnd64_0 : rnd64 0 = 0.
Proof. apply round_0. typeclasses eauto. Qed.
Lemma rnd64_opp x : rnd64 (- x) = - rnd64 x.
Proof. apply round_NE_opp. Qed.
Lemma rnd64_bpow e : (-1074 <= e)%Z -> rnd64 (bpow radix2 e) = bpow radix2 e.
Proof.
  intro He. apply round_generic; [typeclasses eauto |].
  apply generic_format_bpow. unfold FLT_exp. lia.
Qed.
Lemma rnd64_1 : rnd64 1 = 1.
Proof. exact (rnd64_bpow 0 ltac:(lia)). Qed.
Lemma rnd_opp x : rnd (- x) = - rnd x.
Proof. apply round_NE_opp. Qed.

Lemma rcp_safe_double_sign x :
  DBL_MIN <= Rabs (rcp_safe_arg_g DBL_MIN x) /\
  (0 <= x -> 0 < rcp_safe_arg_g DBL_MIN x) /\ (x < 0 -> rcp_safe_arg_g DBL_MIN x < 0) /\
  0 <= rcp_safe_g rnd64 DBL_MIN x * x /\ Rabs (rcp_safe_g rnd64 DBL_MIN x) <= bpow radix2 1022.
Proof.
  pose proof (rcp_safe_g_sign rnd64 DBL_MIN rnd64_mono rnd64_0 rnd64_opp (bpow_gt_0 radix2 (-1022)) x) as H.
  replace (rnd64 (/ DBL_MIN)) with (bpow radix2 1022) in H; [exact H |].
  unfold DBL_MIN. rewrite <- bpow_opp. symmetry. apply rnd64_bpow. lia.
Qed.

(* ------------------------------------------------------------------ sqrt *)
Lemma sqrt_bpow_even k : sqrt (bpow radix2 (k + k)) = bpow radix2 k.
Proof. rewrite bpow_plus. apply sqrt_square. apply bpow_ge_0. Qed.

Lemma sqrt_range x : FLT_MIN <= x < bpow radix2 126 ->
    bpow radix2 (-63) <= sqrt x <= bpow radix2 63.
Proof.
  intros [Hlo Hhi]. split.
  - rewrite <- (sqrt_bpow_even (-63)). apply sqrt_le_1_alt. exact Hlo.
  - rewrite <- (sqrt_bpow_even 63). apply sqrt_le_1_alt. apply Rlt_le. exact Hhi.
  Qed.

(* ------------------------------------------------ clamp / min / max over R *)
Lemma Rltb_irrefl a : Rlt_bool a a = false.
Proof. apply Rlt_bool_false. lra. Qed.

Lemma gle_R a b : gle R Rlt_bool a b <-> a <= b.
Proof.
  unfold gle. destruct (Rlt_bool_spec b a) as [L | G]; split; intro H; try lra; try discriminate; reflexivity.
Qed.

Lemma clampR_range x lo hi : lo <= hi -> lo <= clampR x lo hi <= hi.
Proof.
  intro H. destruct (clamp_range_g R Rlt_bool Rltb_irrefl x lo hi) as [A B].
  - apply gle_R. exact H.
  - apply gle_R in A. apply gle_R in B. split; assumption.
Qed.

Lemma clampR_id x lo hi : lo <= x <= hi -> clampR x lo hi = x.
Proof. intros [A B]. apply clamp_id_g; apply gle_R; assumption. Qed.

Lemma clampR_minmax x lo hi : clampR x lo hi = Rmax (Rmin x hi) lo.
Proof.
  unfold clampR, clamp, gmax, gmin, Rmax, Rmin.
  destruct (Rlt_bool_spec hi x) as [L | G]; destruct (Rle_dec x hi) as [A | A]; try lra.
  - destruct (Rlt_bool_spec hi lo); destruct (Rle_dec hi lo); lra.
  - destruct (Rlt_bool_spec x lo); destruct (Rle_dec x lo); lra.
Qed.

Lemma clampR_mono x y lo hi : x <= y -> clampR x lo hi <= clampR y lo hi.
Proof.
  intro H. rewrite !clampR_minmax.
  apply Rle_max_compat_r. apply Rle_min_compat_r. exact H.
Qed.

Lemma maxR_Rmax a b : maxR a b = Rmax a b.
Proof.
  unfold maxR, gmax, Rmax. destruct (Rlt_bool_spec a b); destruct (Rle_dec a b); lra.
Qed.

(* ------------------------------------------------------------------- cvt *)
Lemma ZnearestA_mono x y : x <= y -> (ZnearestA x <= ZnearestA y)%Z.
Proof. intro H. apply Zrnd_le; [typeclasses eauto | exact H]. Qed.

Lemma ZnearestA_IZR n : ZnearestA (IZR n) = n.
Proof. apply Zrnd_IZR. typeclasses eauto. Qed.

Lemma cvt_arg_range f : 0 <= fmul 255 (clampR f 0 1) <= 255.
Proof.
  pose proof (clampR_range f 0 1 ltac:(lra)) as [A B]. unfold fmul. split.
  - apply rnd_ge; [exact fmt_0 | nra].
  - apply rnd_le; [exact fmt_255 | nra].
Qed.

Lemma cvt_range f : (0 <= cvt f <= 255)%Z.
Proof.
  destruct (cvt_arg_range f) as [A B]. unfold cvt. split.
  - pose proof (ZnearestA_mono _ _ A) as H. rewrite (ZnearestA_IZR 0) in H. exact H.
  - pose proof (ZnearestA_mono _ _ B) as H. rewrite (ZnearestA_IZR 255) in H. exact H.
Qed.

Lemma cvt_saturates f : (f <= 0 -> cvt f = 0%Z) /\ (1 <= f -> cvt f = 255%Z).
Proof.
  split; intro H; unfold cvt, fmul.
  - assert (E : clampR f 0 1 = 0).
    { rewrite clampR_minmax. rewrite Rmin_left by lra. apply Rmax_right. exact H. }
    rewrite E, Rmult_0_r, rnd_0. apply (ZnearestA_IZR 0).
  - assert (E : clampR f 0 1 = 1).
    { rewrite clampR_minmax. rewrite Rmin_right by lra. apply Rmax_left. lra. }
    rewrite E, Rmult_1_r, (rnd_id 255 fmt_255). apply (ZnearestA_IZR 255).
Qed.

Lemma cvt_monotone f g : f <= g -> (cvt f <= cvt g)%Z.
Proof.
  intro H. unfold cvt, fmul. apply ZnearestA_mono. apply rnd_mono.
  apply Rmult_le_compat_l; [lra | apply clampR_mono; exact H].
Qed.

(* ----------------------------------------------------------- sRGB / srgba8 *)
Section Libm.
  Variable powf : R -> R -> R.
  (* libm's pow is monotone in its first argument on the non-negative floats *)
  Hypothesis pow_mono : forall g a b, 0 <= a <= b -> powf a g <= powf b g.

  Lemma srgb_monotone f g : f <= g -> linear_to_srgb powf f <= linear_to_srgb powf g.
  Proof.
    intro H. unfold linear_to_srgb. apply pow_mono. rewrite !maxR_Rmax. split.
    - apply Rmax_r.
    - apply Rle_max_compat_r. exact H.
  Qed.
End Libm.

Lemma srgba8_per_channel (powf : R -> R -> R) x y z w :
  channel (linear_to_srgba8 powf x y z w) 0 = cvt (linear_to_srgb powf x) /\
  channel (linear_to_srgba8 powf x y z w) 1 = cvt (linear_to_srgb powf y) /\
  channel (linear_to_srgba8 powf x y z w) 2 = cvt (linear_to_srgb powf z) /\
  channel (linear_to_srgba8 powf x y z w) 3 = cvt (maxR w 0).
Proof. unfold linear_to_srgba8. apply pack_channels; apply cvt_range. Qed.

(* per-channel independence: byte k of the packed word does not change when the other three components do *)
Lemma srgba8_channel_independent (powf : R -> R -> R) x y z w x' y' z' w' :
  channel (linear_to_srgba8 powf x y z w) 0 = channel (linear_to_srgba8 powf x y' z' w') 0 /\
  channel (linear_to_srgba8 powf x y z w) 1 = channel (linear_to_srgba8 powf x' y z' w') 1 /\
  channel (linear_to_srgba8 powf x y z w) 2 = channel (linear_to_srgba8 powf x' y' z w') 2 /\
  channel (linear_to_srgba8 powf x y z w) 3 = channel (linear_to_srgba8 powf x' y' z' w) 3.
Proof.
  destruct (srgba8_per_channel powf x y z w) as (A0 & A1 & A2 & A3).
  destruct (srgba8_per_channel powf x y' z' w') as (B0 & _).
  destruct (srgba8_per_channel powf x' y z' w') as (_ & C1 & _).
  destruct (srgba8_per_channel powf x' y' z w') as (_ & _ & D2 & _).
  destruct (srgba8_per_channel powf x' y' z' w) as (_ & _ & _ & E3).
  rewrite A0, A1, A2, A3, B0, C1, D2, E3. repeat split; reflexivity.
Qed.

(* ---------------------------------------------------------- distributions *)
Section Dist.
  Variable rn : R -> R.
  Variable F : R -> Prop.
  (* any rounding: monotone, lands in the format, identity on the format; the format
     contains 0, 1 and 2^32 *)
  Hypothesis rn_mono : forall x y, x <= y -> rn x <= rn y.
  Hypothesis rn_F : forall x, F (rn x).
  Hypothesis rn_id : forall x, F x -> rn x = x.
  Hypothesis F0 : F 0.
  Hypothesis F1 : F 1.
  Hypothesis F32 : F (bpow radix2 32).

  Lemma rn_between a b x : F a -> F b -> a <= x <= b -> a <= rn x <= b.
  Proof.
    intros Fa Fb [A B]. split.
    - rewrite <- (rn_id a Fa). apply rn_mono. exact A.
    - rewrite <- (rn_id b Fb). apply rn_mono. exact B.
  Qed.

  Lemma u32_as_float k : (0 <= k < 2 ^ 32)%Z -> 0 <= rn (IZR k) <= bpow radix2 32.
  Proof.
    intros [A B]. apply rn_between; try assumption. split.
    - apply IZR_le. exact A.
    - change (bpow radix2 32) with (IZR (2 ^ 32)). apply IZR_le. lia.
  Qed.

  Lemma pcg_float_range lower upper k :
    F lower -> lower <= upper -> (0 <= k < 2 ^ 32)%Z ->
    lower <= pcg_float rn lower upper k <= pcg_float_hi rn lower upper.
  Proof.
    intros Fl Hlu Hk. unfold pcg_float, pcg_float_hi.
    set (diff := rn (upper - lower)).
    assert (Hd : 0 <= diff).
    { unfold diff. rewrite <- (rn_id 0 F0). apply rn_mono. lra. }
    assert (Fd : F diff) by apply rn_F.
    pose proof (u32_as_float k Hk) as Ha. set (a := rn (IZR k)) in *.
    assert (Hb : 0 <= rn (bpow radix2 (-32) * a) <= 1).
    { apply rn_between; try assumption.
      assert (E : bpow radix2 (-32) * bpow radix2 32 = 1) by (rewrite <- bpow_plus; reflexivity).
      pose proof (bpow_gt_0 radix2 (-32)). split; [nra |].
      rewrite <- E. apply Rmult_le_compat_l; lra. }
    set (b := rn (bpow radix2 (-32) * a)) in *.
    assert (Hc : 0 <= rn (b * diff) <= diff).
    { apply rn_between; try assumption. split; nra. }
    set (c := rn (b * diff)) in *.
    split.
    - rewrite <- (rn_id lower Fl) at 1. apply rn_mono. lra.
    - apply rn_mono. lra.
  Qed.

  Lemma uniform_real_range l u k :
    F l -> l <= u -> (0 <= k <= 4294967295)%Z ->
    l <= uniform_real rn l u k <= uniform_real_hi rn l u.
  Proof.
    intros Fl Hlu Hk. unfold uniform_real, uniform_real_hi.
    set (m := rn (IZR 4294967295)).
    assert (Hm : 1 <= m).
    { unfold m. rewrite <- (rn_id 1 F1). apply rn_mono. apply IZR_le. lia. }
    assert (Hd : 0 <= rn (u - l)).
    { rewrite <- (rn_id 0 F0). apply rn_mono. lra. }
    assert (Fd : F (rn (u - l))) by apply rn_F.
    set (d := rn (u - l)) in *.
    assert (Hk1 : 0 <= rn (IZR k) <= m).
    { split.
      - rewrite <- (rn_id 0 F0). apply rn_mono. apply IZR_le. lia.
      - unfold m. apply rn_mono. apply IZR_le. lia. }
    set (kf := rn (IZR k)) in *.
    assert (Hq : 0 <= rn (kf / m) <= 1).
    { apply rn_between; try assumption. split.
      - apply Rmult_le_pos; [lra | apply Rlt_le, Rinv_0_lt_compat; lra].
      - apply Rmult_le_reg_r with m; [lra |]. unfold Rdiv. rewrite Rmult_assoc, Rinv_l by lra. lra. }
    set (q := rn (kf / m)) in *.
    assert (Hp : 0 <= rn (q * d) <= d).
    { apply rn_between; try assumption. split; nra. }
    split.
    - rewrite <- (rn_id l Fl) at 1. apply rn_mono. lra.
    - apply rn_mono. lra.
  Qed.

  (* ANY generator range [gmin, gmax] with gmin < gmax, any sample in it *)
  Lemma uniform_real_g_range l u gmin gmax k :
    F l -> l <= u -> (gmin < gmax)%Z -> (gmin <= k <= gmax)%Z ->
    l <= uniform_real_g rn l u gmin gmax k <= uniform_real_hi rn l u.
  Proof.
    intros Fl Hlu Hg Hk. unfold uniform_real_g, uniform_real_hi.
    set (m := rn (IZR (gmax - gmin))).
    assert (Hm : 1 <= m).
    { unfold m. rewrite <- (rn_id 1 F1). apply rn_mono. apply IZR_le. lia. }
    assert (Hd : 0 <= rn (u - l)).
    { rewrite <- (rn_id 0 F0). apply rn_mono. lra. }
    assert (Fd : F (rn (u - l))) by apply rn_F.
    set (d := rn (u - l)) in *.
    assert (Hk1 : 0 <= rn (IZR (k - gmin)) <= m).
    { split.
      - rewrite <- (rn_id 0 F0). apply rn_mono. apply IZR_le. lia.
      - unfold m. apply rn_mono. apply IZR_le. lia. }
    set (kf := rn (IZR (k - gmin))) in *.
    assert (Hq : 0 <= rn (kf / m) <= 1).
    { apply rn_between; try assumption. split.
      - apply Rmult_le_pos; [lra | apply Rlt_le, Rinv_0_lt_compat; lra].
      - apply Rmult_le_reg_r with m; [lra |]. unfold Rdiv. rewrite Rmult_assoc, Rinv_l by lra. lra. }
    set (q := rn (kf / m)) in *.
    assert (Hp : 0 <= rn (q * d) <= d).
    { apply rn_between; try assumption. split; nra. }
    split.
    - rewrite <- (rn_id l Fl) at 1. apply rn_mono. lra.
    - apply rn_mono. lra.
  Qed.

  Lemma uniform_real_g_pcg32 l u k : uniform_real_g rn l u 0 4294967295 k = uniform_real rn l u k.
  Proof. unfold uniform_real_g, uniform_real. rewrite Z.sub_0_r. reflexivity. Qed.

  Lemma uniform_real_old_range l u k :
    F l -> l <= u -> (0 <= k <= 4294967295)%Z ->
    l <= uniform_real_old rn l u k <= uniform_real_old_hi rn l u.
  Proof.
    intros Fl Hlu Hk. unfold uniform_real_old, uniform_real_old_hi.
    set (m := rn (IZR 4294967295)).
    assert (Hm : 1 <= m).
    { unfold m. rewrite <- (rn_id 1 F1). apply rn_mono. apply IZR_le. lia. }
    assert (Hd : 0 <= rn (u - l)).
    { rewrite <- (rn_id 0 F0). apply rn_mono. lra. }
    set (d := rn (u - l)) in *.
    assert (Hs : 0 <= rn (d / m)).
    { rewrite <- (rn_id 0 F0). apply rn_mono. apply Rmult_le_pos; [exact Hd |].
      apply Rlt_le, Rinv_0_lt_compat. lra. }
    set (sc := rn (d / m)) in *.
    assert (Hk1 : 0 <= rn (IZR k) <= m).
    { split.
      - rewrite <- (rn_id 0 F0). apply rn_mono. apply IZR_le. lia.
      - unfold m. apply rn_mono. apply IZR_le. lia. }
    set (kf := rn (IZR k)) in *.
    assert (Hp : 0 <= rn (kf * sc) <= rn (m * sc)).
    { split.
      - rewrite <- (rn_id 0 F0). apply rn_mono. nra.
      - apply rn_mono. nra. }
    split.
    - rewrite <- (rn_id l Fl) at 1. apply rn_mono. lra.
    - apply rn_mono. lra.
  Qed.
End Dist.

(* the binary32 instance (round to nearest even); the same proof applies to every
   Valid_rnd rounding of every FLT format containing 2^32, e.g. binary64 *)
Ltac dist_hyps :=
  first [exact rnd_mono | exact rnd_format | exact rnd_id | exact fmt_0 | exact fmt_1 | apply fmt_bpow; lia].

Lemma pcg_float_range32 lower upper k :
  format32 lower -> lower <= upper -> (0 <= k < 2 ^ 32)%Z ->
  lower <= pcg_float rnd lower upper k <= pcg_float_hi rnd lower upper.
Proof. apply (pcg_float_range rnd format32); dist_hyps. Qed.

Lemma uniform_real_range32 l u k :
  format32 l -> l <= u -> (0 <= k <= 4294967295)%Z ->
  l <= uniform_real rnd l u k <= uniform_real_hi rnd l u.
Proof. apply (uniform_real_range rnd format32); dist_hyps. Qed.

(* the denormal regime is covered: FLT rounding is monotone and the identity on the format there as
   well, so the hypotheses of pcg_float_range exclude nothing but overflow (R has no largest float).
   For a range [0, 2^e] with ANY representable width, denormal ones included, the bound is upper itself *)
Lemma pcg_float_hi_zero upper : format32 upper -> pcg_float_hi rnd 0 upper = upper.
Proof.
  intro Fu. unfold pcg_float_hi. rewrite Rminus_0_r, (rnd_id upper Fu), Rplus_0_r. apply rnd_id. exact Fu.
Qed.

Lemma pcg_float_tiny_range e k : (-149 <= e)%Z -> (0 <= k < 2 ^ 32)%Z ->
  0 <= pcg_float rnd 0 (bpow radix2 e) k <= bpow radix2 e.
Proof.
  intros He Hk. pose proof (fmt_bpow e He) as Fu.
  pose proof (pcg_float_range32 0 (bpow radix2 e) k fmt_0 (bpow_ge_0 radix2 e) Hk) as H.
  rewrite (pcg_float_hi_zero _ Fu) in H. exact H.
Qed.

Lemma uniform_real_tiny_range e k : (-149 <= e)%Z -> (0 <= k <= 4294967295)%Z ->
  0 <= uniform_real rnd 0 (bpow radix2 e) k <= bpow radix2 e.
Proof.
  intros He Hk. pose proof (fmt_bpow e He) as Fu.
  assert (E : uniform_real_hi rnd 0 (bpow radix2 e) = bpow radix2 e).
  { unfold uniform_real_hi. rewrite Rminus_0_r, (rnd_id _ Fu), Rplus_0_l. apply rnd_id. exact Fu. }
  pose proof (uniform_real_range32 0 (bpow radix2 e) k fmt_0 (bpow_ge_0 radix2 e) Hk) as H.
  rewrite E in H. exact H.
Qed.

(* ------------------------------------------------ definitional kernels *)
Lemma sign_def x : (x < 0 -> sign x = -1) /\ (0 <= x -> sign x = 1).
Proof.
  unfold sign. split; intro H.
  - rewrite Rlt_bool_true by exact H. reflexivity.
  - rewrite Rlt_bool_false by exact H. reflexivity.
Qed.

Lemma lerp_def f a b : lerp f a b = rnd (rnd (rnd (1 - f) * a) + rnd (f * b)).
Proof. reflexivity. Qed.

Lemma lerp_endpoints a b : format32 a -> format32 b -> lerp 0 a b = a /\ lerp 1 a b = b.
Proof.
  intros Fa Fb. unfold lerp, fadd, fmul, fsub. split.
  - rewrite Rminus_0_r, (rnd_id 1 fmt_1), Rmult_1_l, Rmult_0_l, rnd_0, (rnd_id a Fa), Rplus_0_r.
    apply rnd_id. exact Fa.
  - replace (1 - 1) with 0 by ring. rewrite rnd_0, Rmult_0_l, rnd_0, Rmult_1_l, (rnd_id b Fb), Rplus_0_l.
    apply rnd_id. exact Fb.
Qed.

Lemma madd_def a b c : madd a b c = rnd (rnd (a * b) + c).
Proof. reflexivity. Qed.

(* ------------------------------------------------------------ non-vacuity *)
Lemma one_in_range : format32 1 /\ FLT_MIN <= Rabs 1 < bpow radix2 126 /\ FLT_MIN <= 1 < bpow radix2 126.
Proof.
  split; [exact fmt_1 |]. rewrite Rabs_R1. unfold FLT_MIN. change 1 with (bpow radix2 0).
  split; split; first [apply bpow_le; lia | apply bpow_lt; lia].
Qed.

(* the estimate hypotheses are satisfiable (by the exact reciprocal / reciprocal square root) *)
Lemma estimate_hypotheses_satisfiable :
  (forall x, format32 x -> FLT_MIN <= Rabs x < bpow radix2 126 -> Rabs (/ x * x - 1) <= 3 / 8192) /\
  (forall x, format32 x -> bpow radix2 126 <= Rabs x -> 0 <= / x * x <= 1 + 3 / 8192) /\
  (forall x, format32 x -> FLT_MIN <= x < bpow radix2 126 -> Rabs (/ sqrt x * sqrt x - 1) <= 3 / 8192).
Proof.
  pose proof FLT_MIN_pos as Pm. repeat split.
  - intros x _ [H _]. assert (x <> 0) by (intro E; rewrite E, Rabs_R0 in H; lra).
    rewrite Rinv_l by assumption. replace (1 - 1) with 0 by ring. rewrite Rabs_R0. lra.
  - assert (x <> 0). { intro E. rewrite E, Rabs_R0 in H0. pose proof (bpow_gt_0 radix2 126). lra. }
    rewrite Rinv_l by assumption. lra.
  - assert (x <> 0). { intro E. rewrite E, Rabs_R0 in H0. pose proof (bpow_gt_0 radix2 126). lra. }
    rewrite Rinv_l by assumption. lra.
  - intros x _ [H _]. assert (0 < sqrt x) by (apply sqrt_lt_R0; lra).
    rewrite Rinv_l by lra. replace (1 - 1) with 0 by ring. rewrite Rabs_R0. lra.
Qed.

Lemma denormal_is_finite : finite32 (bpow radix2 (-149)) /\ Rabs (bpow radix2 (-149)) < FLT_MIN.
Proof.
  split; [split; [apply fmt_bpow; lia | rewrite Rabs_pos_eq by apply bpow_ge_0; apply bpow_le_MAX; lia] |].
  unfold FLT_MIN. rewrite Rabs_pos_eq by apply bpow_ge_0. apply bpow_lt. lia.
Qed.

