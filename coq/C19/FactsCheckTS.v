(* C19 — reflective checks of the generated TimeStamp facts (gen/Facts.v). *)
From Common Require Import Prelude.
From C19 Require Export Model FactsDefs.
From C19.gen Require Export Facts.
Local Open Scope N_scope.

Lemma ts_wf_lemma : ts_wf gen_ts = true.
Proof. vm_compute. reflexivity. Qed.

Lemma ts_compile_lemma : forall i, compile_of gen_ts i = Some (compile1 i).
Proof. intro i. destruct i; reflexivity. Qed.

Lemma ts_next_lemma : rmw_is_fetch_add (ts_next gen_ts) = true.
Proof. vm_compute. reflexivity. Qed.
