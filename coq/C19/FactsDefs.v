(* C19 — vocabulary of the source-derived fact table (gen/Facts.v, regenerated from the working
   tree on every run by props/C19/factgen.py) and its interpretation over the heap of Model.v.

   factgen.py reads the clang AST of TimeStamp.{h,cpp} and Observer.h and writes, per member
   function, the list of statements it recognises (anything else becomes SUnknown / TUnknown).
   Here each statement gets a meaning on Model.state, a method table is run for each operation
   of Model.op, and the table the model was written from (model_tbl, model_ts) is proved to
   produce exactly Model.step_valid / Model.compile1.  PropertiesFacts.v then asks that the
   generated table IS that table. *)
From Common Require Import Prelude.
From C19 Require Import Model.
Local Open Scope N_scope.

(* ------------------------------------------------------------------ TimeStamp *)
Inductive rmw := RPostInc | RFetchAdd1 | RPreInc | ROther.

Inductive tsstmt :=
| TSetValueNext          (* value = nextValue();            *)
| TSetValueLoadOther     (* this->value = other.value.load(); *)
| TRetThis               (* return *this;                   *)
| TUnknown.

Record tsfacts := mkTs {
  ts_global_static : bool;        (* `global` is a static data member                           *)
  ts_global_atomic : bool;        (* of type std::atomic<size_t>                                *)
  ts_global_const_init : bool;    (* its definition is constant-initialised: std::atomic<size_t> (constexpr constructor)
                                     from a literal, and the translation unit needs no global constructor
                                     (clang -Wglobal-constructors is silent): the counter is valid before any
                                     dynamic initialisation, whatever the link order                            *)
  ts_value_atomic : bool;         (* `value` is a std::atomic<size_t>                           *)
  ts_value_init_next : bool;      (* default member initialiser value{nextValue()}              *)
  ts_default_ctor_defaulted : bool;
  ts_next : rmw;                  (* nextValue() is `return <one RMW on global>` and which one  *)
  ts_copy_ctor_inits_value : bool;(* a mem-initialiser for value in the copy/move constructors  *)
  ts_renew : list tsstmt;
  ts_copy_ctor : list tsstmt;
  ts_move_ctor : list tsstmt;
  ts_copy_assign : list tsstmt;
  ts_move_assign : list tsstmt;
  ts_conv_returns_value : bool    (* operator size_t() returns value                            *)
}.

Definition rmw_eqb (a b : rmw) : bool :=
  match a, b with
  | RPostInc, RPostInc | RFetchAdd1, RFetchAdd1 | RPreInc, RPreInc | ROther, ROther => true
  | _, _ => false
  end.

(* nextValue() is ONE indivisible read-modify-write on the counter whose own result is what it
   returns.  `global++` / `fetch_add(1)` hand out the value before the increment, which is what
   Model.tstep's MFetchAdd does; `++global` hands out the value after it, i.e. the same run with
   every stamp shifted by one (order and distinctness are unaffected), so it is accepted too. *)
Definition rmw_is_fetch_add (r : rmw) : bool :=
  match r with RPostInc | RFetchAdd1 | RPreInc => true | ROther => false end.

Definition ts_micro (x t y : N) (s : tsstmt) : option (list micro) :=
  match s with
  | TSetValueNext => Some [MFetchAdd x]
  | TSetValueLoadOther => Some [MCopy x t y]
  | TRetThis => Some []
  | TUnknown => None
  end.

Fixpoint ts_micros (x t y : N) (l : list tsstmt) : option (list micro) :=
  match l with
  | [] => Some []
  | s :: r =>
      match ts_micro x t y s, ts_micros x t y r with
      | Some a, Some b => Some (a ++ b)
      | _, _ => None
      end
  end.

Definition tsstmt_eqb (a b : tsstmt) : bool :=
  match a, b with
  | TSetValueNext, TSetValueNext | TSetValueLoadOther, TSetValueLoadOther | TRetThis, TRetThis => true
  | _, _ => false
  end.
Fixpoint tsstmts_eqb (a b : list tsstmt) : bool :=
  match a, b with
  | [], [] => true
  | x :: a', y :: b' => tsstmt_eqb x y && tsstmts_eqb a' b'
  | _, _ => false
  end.

Definition ts_init (f : tsfacts) (x : N) : list micro :=
  if ts_value_init_next f then [MFetchAdd x] else [].

(* the micro-operations of each C++ operation according to the facts *)
Definition compile_of (f : tsfacts) (i : instr) : option (list micro) :=
  match i with
  | IFresh x => if ts_default_ctor_defaulted f then Some (ts_init f x) else None
  | IRenew x => ts_micros x 0 0 (ts_renew f)
  | ICopyCtor x t y =>
      if tsstmts_eqb (ts_copy_ctor f) (ts_move_ctor f) then
        match ts_micros x t y (ts_copy_ctor f) with
        | Some a => Some ((if ts_copy_ctor_inits_value f then [] else ts_init f x) ++ a)
        | None => None
        end
      else None
  | IAssign x t y =>
      if tsstmts_eqb (ts_copy_assign f) (ts_move_assign f) then ts_micros x t y (ts_copy_assign f) else None
  end.

Definition ts_wf (f : tsfacts) : bool :=
  ts_global_static f && ts_global_atomic f && ts_global_const_init f && ts_value_atomic f && rmw_is_fetch_add (ts_next f)
  && ts_conv_returns_value f.

(* ------------------------------------------------------------------ Observable / Observer *)
Inductive ostmt :=
| SRenewNotified             (* lastNotified.renew();                                         *)
| SForAllRegsNullObservee    (* for (auto *observer : observers) observer->observee = nullptr; *)
| SPushArg                   (* observers.push_back(&arg);                                     *)
| SEraseRemoveArg            (* observers.erase(std::remove(begin, end, &arg), end);           *)
| SCallRegisterThis          (* observee->registerObserver( *this );                           *)
| SIfObserveeCallRemoveThis  (* if (observee) observee->removeObserver( *this );               *)
| SIfNoObserveeRetFalse      (* if (!observee) return false;                                   *)
| SLetNotifiedLt             (* bool notified = lastObserved < observee->lastNotified;         *)
| SIfNotifiedRenewObserved   (* if (notified) lastObserved.renew();                            *)
| SRetNotified               (* return notified;                                               *)
| SUnknown.

Inductive ometh := ODtorObservable | ONotify | ORegister | ORemove | OCtorObserver | ODtorObserver | OWasNotified.

Record ofacts := mkOf {
  of_notified_is_timestamp : bool;     (* Observable::lastNotified is a TimeStamp, default-initialised   *)
  of_observers_is_vector : bool;       (* Observable::observers is a std::vector<Observer*>              *)
  of_observable_ctor_defaulted : bool;
  of_observed_is_timestamp : bool;     (* Observer::lastObserved is a TimeStamp, default-initialised     *)
  of_observee_init_arg : bool;         (* Observer(Observable &o) : observee(&o)                          *)
  of_observee_default_null : bool;     (* Observable *observee{nullptr}                                   *)
  of_lt_via_size_t : bool              (* `<` compares the two stamps' values (operator size_t on both)   *)
}.

Definition ostmt_eqb (a b : ostmt) : bool :=
  match a, b with
  | SRenewNotified, SRenewNotified | SForAllRegsNullObservee, SForAllRegsNullObservee
  | SPushArg, SPushArg | SEraseRemoveArg, SEraseRemoveArg | SCallRegisterThis, SCallRegisterThis
  | SIfObserveeCallRemoveThis, SIfObserveeCallRemoveThis | SIfNoObserveeRetFalse, SIfNoObserveeRetFalse
  | SLetNotifiedLt, SLetNotifiedLt | SIfNotifiedRenewObserved, SIfNotifiedRenewObserved
  | SRetNotified, SRetNotified => true
  | _, _ => false          (* SUnknown equals nothing, itself included *)
  end.

Fixpoint ostmts_eqb (a b : list ostmt) : bool :=
  match a, b with
  | [], [] => true
  | x :: a', y :: b' => ostmt_eqb x y && ostmts_eqb a' b'
  | _, _ => false
  end.

Lemma ostmt_eqb_eq a b : ostmt_eqb a b = true -> a = b.
Proof. destruct a, b; cbn; intro H; try discriminate; reflexivity. Qed.

Lemma ostmts_eqb_eq a : forall b, ostmts_eqb a b = true -> a = b.
Proof.
  induction a as [|x a IH]; intros [|y b] H; cbn in H; try discriminate; [reflexivity|].
  apply andb_true_iff in H. destruct H as [H1 H2]. rewrite (ostmt_eqb_eq _ _ H1), (IH _ H2). reflexivity.
Qed.

Definition all_meths := [ODtorObservable; ONotify; ORegister; ORemove; OCtorObserver; ODtorObserver; OWasNotified].

Definition otbl_eqb (g m : ometh -> list ostmt) : bool :=
  forallb (fun k => ostmts_eqb (g k) (m k)) all_meths.

Lemma otbl_eqb_eq g m : otbl_eqb g m = true -> forall k, g k = m k.
Proof.
  unfold otbl_eqb. intros H k. rewrite forallb_forall in H. apply ostmts_eqb_eq. apply H.
  destruct k; cbn; tauto.
Qed.

Definition ofacts_ok (f : ofacts) : bool :=
  of_notified_is_timestamp f && of_observers_is_vector f && of_observable_ctor_defaulted f &&
  of_observed_is_timestamp f && of_observee_init_arg f && of_observee_default_null f && of_lt_via_size_t f.

(* execution context of one member function *)
Record ectx := mkE {
  c_s : state;
  c_this : N;                 (* the object the member runs on              *)
  c_arg : N;                  (* the object its reference parameter denotes *)
  c_notified : bool;          (* local `notified`                           *)
  c_ret : option bool;        (* Some r once `return r;` was executed       *)
  c_issued : list N;
  c_uaf : bool
}.

(* TimeStamp::renew / default construction of a TimeStamp: one nextValue() *)
Definition take_stamp (c : ectx) : N * ectx :=
  (next (c_s c),
   mkE (mkState (next (c_s c) + 1) (obls (c_s c)) (obss (c_s c)))
       (c_this c) (c_arg c) (c_notified c) (c_ret c) (c_issued c ++ [next (c_s c)]) (c_uaf c)).

Definition set_state (c : ectx) (s : state) : ectx :=
  mkE s (c_this c) (c_arg c) (c_notified c) (c_ret c) (c_issued c) (c_uaf c).
Definition add_uaf (c : ectx) (u : bool) : ectx :=
  mkE (c_s c) (c_this c) (c_arg c) (c_notified c) (c_ret c) (c_issued c) (c_uaf c || u).

(* statements that call nothing: `this` is an Observable for the first four, an Observer below *)
Definition den0 (st : ostmt) (c : ectx) : ectx :=
  match c_ret c with
  | Some _ => c
  | None =>
    let s := c_s c in
    match st with
    | SRenewNotified =>
        let (v, c') := take_stamp c in
        let rb := obls s (c_this c) in
        set_state c' (mkState (next (c_s c')) (upd (obls s) (c_this c) (mkObl (b_alive rb) v (b_regs rb))) (obss s))
    | SForAllRegsNullObservee =>
        let rb := obls s (c_this c) in
        add_uaf (set_state c (mkState (next s) (obls s) (orphan_loop (b_regs rb) (obss s))))
                (existsb (fun o => negb (o_alive (obss s o))) (b_regs rb))
    | SPushArg =>
        let rb := obls s (c_this c) in
        set_state c (mkState (next s) (upd (obls s) (c_this c) (mkObl (b_alive rb) (b_stamp rb) (b_regs rb ++ [c_arg c]))) (obss s))
    | SEraseRemoveArg =>
        let rb := obls s (c_this c) in
        set_state c (mkState (next s) (upd (obls s) (c_this c) (mkObl (b_alive rb) (b_stamp rb) (remove_ptr (c_arg c) (b_regs rb)))) (obss s))
    | SIfNoObserveeRetFalse =>
        match o_observee (obss s (c_this c)) with
        | None => mkE s (c_this c) (c_arg c) (c_notified c) (Some false) (c_issued c) (c_uaf c)
        | Some _ => c
        end
    | SLetNotifiedLt =>
        match o_observee (obss s (c_this c)) with
        | None => add_uaf c true                       (* null dereference *)
        | Some b =>
            add_uaf (mkE s (c_this c) (c_arg c) (N.ltb (o_stamp (obss s (c_this c))) (b_stamp (obls s b)))
                         (c_ret c) (c_issued c) (c_uaf c))
                    (negb (b_alive (obls s b)))
        end
    | SIfNotifiedRenewObserved =>
        if c_notified c then
          let (v, c') := take_stamp c in
          let ro := obss s (c_this c) in
          set_state c' (mkState (next (c_s c')) (obls s) (upd (obss s) (c_this c) (mkObs (o_alive ro) v (o_observee ro))))
        else c
    | SRetNotified => mkE s (c_this c) (c_arg c) (c_notified c) (Some (c_notified c)) (c_issued c) (c_uaf c)
    | _ => add_uaf c true                              (* calls are handled by den; unknown statements poison the run *)
    end
  end.

Definition run0 (l : list ostmt) (c : ectx) : ectx := fold_left (fun c st => den0 st c) l c.

(* a member function of the Observable [b] called from the Observer [c_this c] with *this as argument *)
Definition call_on (tbl : ometh -> list ostmt) (m : ometh) (b : N) (c : ectx) : ectx :=
  let c1 := run0 (tbl m) (mkE (c_s c) b (c_this c) false None (c_issued c) (c_uaf c || negb (b_alive (obls (c_s c) b)))) in
  mkE (c_s c1) (c_this c) (c_arg c) (c_notified c) (c_ret c) (c_issued c1) (c_uaf c1).

Definition den (tbl : ometh -> list ostmt) (st : ostmt) (c : ectx) : ectx :=
  match c_ret c with
  | Some _ => c
  | None =>
    match st with
    | SCallRegisterThis =>
        match o_observee (obss (c_s c) (c_this c)) with
        | None => add_uaf c true
        | Some b => call_on tbl ORegister b c
        end
    | SIfObserveeCallRemoveThis =>
        match o_observee (obss (c_s c) (c_this c)) with
        | None => c
        | Some b => call_on tbl ORemove b c
        end
    | _ => den0 st c
    end
  end.

Definition run_meth (tbl : ometh -> list ostmt) (m : ometh) (c : ectx) : ectx :=
  fold_left (fun c st => den tbl st c) (tbl m) c.

Definition start (s : state) (this arg : N) : ectx := mkE s this arg false None [] false.

Definition finish (c : ectx) (o : out) : res := mkRes (c_s c) o (c_issued c) (c_uaf c).

(* one operation of Model.op, executed from the method table *)
Definition exec (tbl : ometh -> list ostmt) (s : state) (e : op) : res :=
  match e with
  | NewObservable b =>
      (* Observable() = default: lastNotified default-constructed (one stamp), observers empty *)
      let (v, c) := take_stamp (start s b 0) in
      finish (set_state c (mkState (next (c_s c)) (upd (obls s) b (mkObl true v [])) (obss s))) OUnit
  | DelObservable b =>
      let c := run_meth tbl ODtorObservable (start s b 0) in
      let rb := obls (c_s c) b in
      finish (set_state c (mkState (next (c_s c)) (upd (obls (c_s c)) b (mkObl false (b_stamp rb) (b_regs rb))) (obss (c_s c)))) OUnit
  | NewObserver o b =>
      (* members in declaration order: lastObserved (one stamp), observee(&b); then the body *)
      let (v, c) := take_stamp (start s o b) in
      let c1 := set_state c (mkState (next (c_s c)) (obls s) (upd (obss s) o (mkObs true v (Some b)))) in
      finish (run_meth tbl OCtorObserver c1) OUnit
  | DelObserver o =>
      let c := run_meth tbl ODtorObserver (start s o 0) in
      let ro := obss (c_s c) o in
      finish (set_state c (mkState (next (c_s c)) (obls (c_s c)) (upd (obss (c_s c)) o (mkObs false (o_stamp ro) (o_observee ro))))) OUnit
  | Notify b => finish (run_meth tbl ONotify (start s b 0)) OUnit
  | Poll o =>
      let c := run_meth tbl OWasNotified (start s o 0) in
      finish c (match c_ret c with Some r => OBool r | None => OInvalid end)
  end.

(* ------------------------------------------------------------------ the table Model.v was written from *)
Definition model_tbl (m : ometh) : list ostmt :=
  match m with
  | ODtorObservable => [SForAllRegsNullObservee]
  | ONotify => [SRenewNotified]
  | ORegister => [SPushArg]
  | ORemove => [SEraseRemoveArg]
  | OCtorObserver => [SCallRegisterThis]
  | ODtorObserver => [SIfObserveeCallRemoveThis]
  | OWasNotified => [SIfNoObserveeRetFalse; SLetNotifiedLt; SIfNotifiedRenewObserved; SRetNotified]
  end.

(* agreement of two results, the heap compared cell by cell *)
Definition res_eq (a b : res) : Prop :=
  next (r_state a) = next (r_state b) /\
  (forall x, obls (r_state a) x = obls (r_state b) x) /\
  (forall x, obss (r_state a) x = obss (r_state b) x) /\
  r_out a = r_out b /\ r_issued a = r_issued b /\ r_uaf a = r_uaf b.

Lemma res_eq_refl a : res_eq a a.
Proof. unfold res_eq. repeat split; reflexivity. Qed.

(* running the model's table IS Model.step_valid, on every state and operation *)
Lemma exec_model s e : res_eq (exec model_tbl s e) (step_valid s e).
Proof.
  destruct s as [n bl os]. destruct e as [b|b|o b|o|b|o]; cbn.
  - apply res_eq_refl.
  - apply res_eq_refl.
  - unfold upd at 1. cbn. rewrite N.eqb_refl. cbn.
    unfold res_eq; cbn. repeat split; try reflexivity.
  - destruct (o_observee (os o)) as [b|] eqn:E; cbn.
    + unfold res_eq; cbn. repeat split; try reflexivity; intro x; rewrite ?E; reflexivity.
    + unfold res_eq; cbn. repeat split; try reflexivity; intro x; rewrite ?E; reflexivity.
  - apply res_eq_refl.
  - destruct (o_observee (os o)) as [b|] eqn:E; cbn.
    + rewrite E. cbn. destruct (N.ltb (o_stamp (os o)) (b_stamp (bl b))) eqn:L; cbn.
      * rewrite E. apply res_eq_refl.
      * apply res_eq_refl.
    + apply res_eq_refl.
Qed.

Lemma den_ext g m : (forall k, g k = m k) -> forall st c, den g st c = den m st c.
Proof. intros Eq st c. unfold den, call_on. rewrite !Eq. reflexivity. Qed.

Lemma run_meth_ext g m : (forall k, g k = m k) -> forall k c, run_meth g k c = run_meth m k c.
Proof.
  intros Eq k c. unfold run_meth. rewrite Eq. revert c.
  induction (m k) as [|st l IH]; intro c; cbn [fold_left]; [reflexivity|].
  rewrite (den_ext g m Eq). apply IH.
Qed.

Lemma exec_of_table g s e :
  otbl_eqb g model_tbl = true -> res_eq (exec g s e) (step_valid s e).
Proof.
  intro H. pose proof (otbl_eqb_eq _ _ H) as Eq.
  assert (Ex : exec g s e = exec model_tbl s e).
  { unfold exec, take_stamp. destruct e; cbn iota beta; rewrite ?(run_meth_ext g model_tbl Eq); reflexivity. }
  rewrite Ex. apply exec_model.
Qed.

(* the model's TimeStamp facts give Model.compile1 *)
Lemma compile_of_sound f :
  (forall i, compile_of f i = Some (compile1 i)) -> ts_wf f = true ->
  forall i, compile_of f i = Some (compile1 i) /\ rmw_is_fetch_add (ts_next f) = true.
Proof.
  intros H W i. split; [apply H|]. unfold ts_wf in W.
  repeat (apply andb_true_iff in W; destruct W as [W ?]). assumption.
Qed.
