#!/bin/bash
# Regenerates gen/Facts.v (statement lists of Observable/Observer/TimeStamp members) from the repository
# working tree so that the Coq project builds from clean (bin/setup); the check does the same on every run.
cd "$(dirname "$0")"
mkdir -p gen
exec python3 ../../props/C19/factgen.py --repo "${VERIF_REPO:-/repo}" --out gen/Facts.v --work ../../build/C19/ast 2>/dev/null
