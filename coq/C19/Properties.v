From Common Require Import Prelude.
From C19 Require Import Model Proofs ProofsTS.
Local Open Scope N_scope.
Example stub_example : hist_valid [NewObservable 0; NewObserver 0 0; Notify 0; Poll 0] = true.
Proof. vm_compute. reflexivity. Qed.
