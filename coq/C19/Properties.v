(* C19 — property theorems only.  One theorem per clause of the property text, each closed
   by [exact] of a lemma of Proofs.v / ProofsTS.v and followed by Print Assumptions, then
   non-vacuity examples (concrete histories / schedules evaluated by vm_compute).

   Vocabulary (Model.v):  a history is a list of  NewObservable b | DelObservable b |
   NewObserver o b | DelObserver o | Notify b | Poll o ;  hist_valid h = every operation is
   applied to a live object / a free slot (C++ lifetime rules);  run h = the heap after h;
   step s (Poll o) = o->wasNotified();  h_view / h_pending / h_attached = the property text
   read off the history alone (no stamps);  clears o b e = e is a poll, destruction or
   re-creation of o, or the destruction of b;  r_uaf = the step went through a pointer to a
   destroyed object. *)
From Common Require Import Prelude.
From Coq Require Import Sorted.
From C19 Require Import Model Proofs ProofsTS.
Local Open Scope N_scope.

(* ------------------------------------------------------------------ observers *)

(* wasNotified() returns exactly the "pending" bit of the history fold *)
Theorem observer_spec : forall h o,
  hist_valid h = true -> o_alive (obss (run h) o) = true ->
  r_out (step (run h) (Poll o)) = OBool (h_pending h o).
Proof. exact Proofs.poll_spec. Qed.
Print Assumptions observer_spec.

(* both directions of "exactly when": true iff the history ends with a notification of the
   observable o is (still) attached to, followed by no poll / destruction / re-creation of o
   and no destruction of that observable; false otherwise *)
Theorem was_notified_exactly_when : forall h o,
  hist_valid h = true -> o_alive (obss (run h) o) = true ->
  exists r, r_out (step (run h) (Poll o)) = OBool r /\
    (r = true <->
     exists h1 b h2, h = h1 ++ Notify b :: h2 /\ h_attached h1 o = Some b /\
                     forallb (fun e => negb (clears o b e)) h2 = true).
Proof. exact Proofs.was_notified_iff. Qed.
Print Assumptions was_notified_exactly_when.

(* the fold's "attached to b" means: o and b are alive, o points to b and b lists o *)
Theorem attached_means_alive : forall h o b,
  hist_valid h = true -> h_attached h o = Some b ->
  o_alive (obss (run h) o) = true /\ o_observee (obss (run h) o) = Some b /\
  b_alive (obls (run h) b) = true /\ In o (b_regs (obls (run h) b)).
Proof. exact Proofs.attached_alive. Qed.
Print Assumptions attached_means_alive.

(* the pending bit is the property text, as a statement about the history alone *)
Theorem pending_is_the_text : forall o h,
  h_pending h o = true <->
  exists h1 b h2, h = h1 ++ Notify b :: h2 /\ h_attached h1 o = Some b /\
                  forallb (fun e => negb (clears o b e)) h2 = true.
Proof. exact Proofs.pending_text_iff. Qed.
Print Assumptions pending_is_the_text.

(* each notification is seen once: the poll after a poll answers false *)
Theorem notification_seen_once : forall h o,
  hist_valid h = true -> o_alive (obss (run h) o) = true ->
  r_out (step (r_state (step (run h) (Poll o))) (Poll o)) = OBool false.
Proof. exact Proofs.poll_once. Qed.
Print Assumptions notification_seen_once.

(* k+1 notifications between two polls coalesce into one true *)
Theorem notifications_coalesce : forall h o b k,
  hist_valid (h ++ repeat (Notify b) (S k)) = true -> h_attached h o = Some b ->
  let s := run (h ++ repeat (Notify b) (S k)) in
  r_out (step s (Poll o)) = OBool true /\
  r_out (step (r_state (step s (Poll o))) (Poll o)) = OBool false.
Proof. exact Proofs.coalesce. Qed.
Print Assumptions notifications_coalesce.

(* an observer created after any history (with any number of notifications) starts clean *)
Theorem late_observer_starts_clean : forall h o b,
  hist_valid (h ++ [NewObserver o b]) = true ->
  o_alive (obss (run (h ++ [NewObserver o b])) o) = true /\
  r_out (step (run (h ++ [NewObserver o b])) (Poll o)) = OBool false.
Proof. exact Proofs.late_observer_clean. Qed.
Print Assumptions late_observer_starts_clean.

(* independence per observer: an event naming neither o nor o's observable (any other
   observer's creation, poll or destruction; any other observable's notification or
   destruction) leaves o alive and does not change what o's next poll answers *)
Theorem observers_independent : forall h e o,
  hist_valid (h ++ [e]) = true -> o_alive (obss (run h) o) = true ->
  mentions o (h_attached h o) e = false ->
  o_alive (obss (run (h ++ [e])) o) = true /\
  r_out (step (run (h ++ [e])) (Poll o)) = r_out (step (run h) (Poll o)).
Proof. exact Proofs.poll_indep. Qed.
Print Assumptions observers_independent.

(* a poll touches no other observer's record and no observable *)
Theorem poll_touches_only_itself : forall s o x,
  x <> o -> obss (r_state (step s (Poll o))) x = obss s x /\
            obls (r_state (step s (Poll o))) = obls s.
Proof. exact Proofs.poll_frame. Qed.
Print Assumptions poll_touches_only_itself.

(* after its observable is destroyed: the observer stays a live object with a null observee,
   answers false, and a poll changes nothing — for every continuation that keeps o *)
Theorem observer_orphan : forall h1 b h2 o,
  hist_valid (h1 ++ DelObservable b :: h2) = true ->
  h_attached h1 o = Some b ->
  forallb (keeps_observer o) h2 = true ->
  let s := run (h1 ++ DelObservable b :: h2) in
  o_alive (obss s o) = true /\ o_observee (obss s o) = None /\
  r_out (step s (Poll o)) = OBool false /\ r_state (step s (Poll o)) = s.
Proof. exact Proofs.orphan_forever. Qed.
Print Assumptions observer_orphan.

(* nothing dangles, in either destruction order: no step of a valid history goes through a
   pointer to a destroyed object ... *)
Theorem no_use_after_free : forall h, hist_valid h = true -> uaf_from init h = false.
Proof. exact Proofs.no_uaf. Qed.
Print Assumptions no_use_after_free.

(* ... and after every valid history each registered Observer* designates a live observer
   that points back, each non-null observee a live observable that lists the observer *)
Theorem no_dangling : forall h,
  hist_valid h = true ->
  (forall b o, b_alive (obls (run h) b) = true -> In o (b_regs (obls (run h) b)) ->
               o_alive (obss (run h) o) = true /\ o_observee (obss (run h) o) = Some b) /\
  (forall o b, o_alive (obss (run h) o) = true -> o_observee (obss (run h) o) = Some b ->
               b_alive (obls (run h) b) = true /\ In o (b_regs (obls (run h) b))).
Proof. exact Proofs.no_dangling. Qed.
Print Assumptions no_dangling.

(* ------------------------------------------------------------------ time stamps, one thread *)
(* the stamps handed out during any history (valid or not) are strictly increasing in the
   order handed out, hence pairwise distinct, and below the counter *)
Theorem stamps_fresh : forall h,
  StronglySorted N.lt (issued h) /\ NoDup (issued h) /\
  Forall (fun v => v < next (run h)) (issued h).
Proof. exact Proofs.stamps_fresh_all. Qed.
Print Assumptions stamps_fresh.

(* every stamp handed out later is larger than every stamp handed out before *)
Theorem stamp_larger_than_all_earlier : forall h1 h2 u v,
  In u (issued h1) -> In v (issued_from (run h1) h2) -> u < v.
Proof. exact Proofs.stamp_fresh_vs_earlier. Qed.
Print Assumptions stamp_larger_than_all_earlier.

(* ------------------------------------------------------------------ time stamps, threads *)
(* any number of threads, any programs, any schedule: all values obtained are pairwise
   distinct (indeed increasing in the order of the atomic steps) *)
Theorem timestamp_concurrent_distinct : forall progs sched,
  NoDup (all_values (trun progs sched)).
Proof. exact ProofsTS.ts_all_distinct. Qed.
Print Assumptions timestamp_concurrent_distinct.

(* each thread's values are strictly increasing in the order it obtained them *)
Theorem timestamp_thread_increasing : forall progs sched t,
  StronglySorted N.lt (thread_values (trun progs sched) t).
Proof. exact ProofsTS.ts_thread_increasing. Qed.
Print Assumptions timestamp_thread_increasing.

(* the same, as a statement about any two positions *)
Theorem timestamp_thread_pairwise : forall progs sched t i j d,
  (i < j)%nat -> (j < length (thread_values (trun progs sched) t))%nat ->
  nth i (thread_values (trun progs sched) t) d < nth j (thread_values (trun progs sched) t) d.
Proof. exact ProofsTS.ts_thread_pairwise. Qed.
Print Assumptions timestamp_thread_pairwise.

(* a creation or renewal in any reachable state: the variable receives a value larger than
   every value obtained so far by any thread (its own included) *)
Theorem timestamp_fresh_or_renewed : forall progs sched t x rest,
  let s := trun progs sched in
  t_prog s t = MFetchAdd x :: rest ->
  t_vars (tstep s t) t x = Some (t_g s) /\
  Forall (fun v => v < t_g s) (all_values s) /\
  all_values (tstep s t) = all_values s ++ [t_g s] /\
  thread_values (tstep s t) t = thread_values s t ++ [t_g s].
Proof. exact ProofsTS.ts_fresh_larger. Qed.
Print Assumptions timestamp_fresh_or_renewed.

(* copies (copy/move construction's load, assignment) carry the source's value, take nothing
   from the counter and change nobody else's variable *)
Theorem timestamp_copy_carries_source : forall s t x t' y rest,
  t_prog s t = MCopy x t' y :: rest ->
  t_vars (tstep s t) t x = t_vars s t' y /\ all_values (tstep s t) = all_values s /\
  t_g (tstep s t) = t_g s /\
  (forall t0 x0, (t0, x0) <> (t, x) -> t_vars (tstep s t) t0 x0 = t_vars s t0 x0).
Proof. exact ProofsTS.ts_copy_carries. Qed.
Print Assumptions timestamp_copy_carries_source.

(* every value held by any variable of any thread was handed out by the counter *)
Theorem timestamp_values_are_issued : forall progs sched t x v,
  t_vars (trun progs sched) t x = Some v -> In v (all_values (trun progs sched)).
Proof. exact ProofsTS.ts_vars_issued. Qed.
Print Assumptions timestamp_values_are_issued.

(* no value is skipped or reused: the counter equals the number of values handed out *)
Theorem timestamp_counter_exact : forall progs sched,
  t_g (trun progs sched) = N.of_nat (length (all_values (trun progs sched))).
Proof. exact ProofsTS.ts_counter. Qed.
Print Assumptions timestamp_counter_exact.

(* ================================================================== non-vacuity *)
Definition outs (h : list op) : list out :=
  (fix go (s : state) (h : list op) : list out :=
     match h with [] => [] | e :: h' => r_out (step s e) :: go (r_state (step s e)) h' end) init h.

(* the unit-test scenario, plus coalescing: two observers, two notifications, polled twice *)
Example ex_two_observers :
  let h := [NewObservable 0; NewObserver 0 0; NewObserver 1 0; Notify 0; Notify 0;
            Poll 0; Poll 0; Poll 1; Poll 1] in
  hist_valid h = true /\
  outs h = [OUnit; OUnit; OUnit; OUnit; OUnit; OBool true; OBool false; OBool true; OBool false].
Proof. vm_compute. split; reflexivity. Qed.

(* hypotheses of was_notified_exactly_when are satisfiable with answer true and with answer false *)
Example ex_exactly_when_true :
  let h := [NewObservable 0; NewObserver 0 0; Notify 0; NewObservable 1; Poll 0; Notify 0; Notify 1] in
  hist_valid h = true /\ o_alive (obss (run h) 0) = true /\
  r_out (step (run h) (Poll 0)) = OBool true /\
  h_attached [NewObservable 0; NewObserver 0 0; Notify 0; NewObservable 1; Poll 0] 0 = Some 0 /\
  forallb (fun e => negb (clears 0 0 e)) [Notify 1] = true.
Proof. vm_compute. repeat split; reflexivity. Qed.

Example ex_exactly_when_false :
  let h := [NewObservable 0; NewObserver 0 0; Notify 0; Poll 0; NewObservable 1; Notify 1] in
  hist_valid h = true /\ o_alive (obss (run h) 0) = true /\
  r_out (step (run h) (Poll 0)) = OBool false /\ h_pending h 0 = false.
Proof. vm_compute. repeat split; reflexivity. Qed.

(* coalescing: three notifications, one true *)
Example ex_coalesce :
  let h := [NewObservable 0; NewObserver 0 0] in
  hist_valid (h ++ repeat (Notify 0) 3) = true /\ h_attached h 0 = Some 0 /\
  outs (h ++ repeat (Notify 0) 3 ++ [Poll 0; Poll 0]) =
    [OUnit; OUnit; OUnit; OUnit; OUnit; OBool true; OBool false].
Proof. vm_compute. repeat split; reflexivity. Qed.

(* an observer created after a notification starts clean while the older one sees it *)
Example ex_late_observer :
  let h := [NewObservable 0; NewObserver 0 0; Notify 0] in
  hist_valid (h ++ [NewObserver 1 0]) = true /\
  outs (h ++ [NewObserver 1 0; Poll 1; Poll 0]) = [OUnit; OUnit; OUnit; OUnit; OBool false; OBool true].
Proof. vm_compute. split; reflexivity. Qed.

(* independence: observer 1 polls, observable 1 notifies and dies, observer 2 comes and goes —
   observer 0 (attached to observable 0) still answers true once *)
Example ex_independent :
  let h := [NewObservable 0; NewObservable 1; NewObserver 0 0; NewObserver 1 0; Notify 0] in
  let es := [Poll 1; Notify 1; NewObserver 2 1; DelObserver 2; DelObservable 1; DelObserver 1] in
  hist_valid (h ++ es) = true /\
  forallb (fun e => negb (mentions 0 (Some 0) e)) es = true /\
  r_out (step (run h) (Poll 0)) = OBool true /\
  r_out (step (run (h ++ es)) (Poll 0)) = OBool true.
Proof. vm_compute. repeat split; reflexivity. Qed.

(* both destruction orders.  Observable first: the observer is orphaned, answers false (even though a
   notification was pending), and its later destruction touches nothing freed *)
Example ex_observable_destroyed_first :
  let h := [NewObservable 0; NewObserver 0 0; NewObserver 1 0; Notify 0; DelObservable 0;
            Poll 0; NewObservable 0; Notify 0; Poll 0; Poll 1; DelObserver 0; DelObserver 1; DelObservable 0] in
  hist_valid h = true /\ uaf_from init h = false /\
  outs h = [OUnit; OUnit; OUnit; OUnit; OUnit; OBool false; OUnit; OUnit; OBool false; OBool false;
            OUnit; OUnit; OUnit].
Proof. vm_compute. repeat split; reflexivity. Qed.

(* observer first: it unregisters, the observable's destructor then visits only the survivor *)
Example ex_observer_destroyed_first :
  let h := [NewObservable 0; NewObserver 0 0; NewObserver 1 0; DelObserver 0; Notify 0;
            DelObservable 0; Poll 1; DelObserver 1] in
  hist_valid h = true /\ uaf_from init h = false /\
  b_regs (obls (run [NewObservable 0; NewObserver 0 0; NewObserver 1 0; DelObserver 0]) 0) = [1] /\
  outs h = [OUnit; OUnit; OUnit; OUnit; OUnit; OUnit; OBool false; OUnit].
Proof. vm_compute. repeat split; reflexivity. Qed.

(* the use-after-free flag is not constantly false: an Observable destructor that did not null
   observee would lead here — a state in which observer 0 still points to the destroyed observable 0 *)
Example ex_uaf_flag_can_fire :
  let stale := mkState 2 (fun _ => mkObl false 0 [0])
                       (fun o => if o =? 0 then mkObs true 1 (Some 0) else mkObs false 0 None) in
  r_uaf (step stale (Poll 0)) = true /\ r_uaf (step stale (DelObserver 0)) = true.
Proof. vm_compute. split; reflexivity. Qed.

(* hist_valid is not constantly true *)
Example ex_invalid_history : hist_valid [NewObservable 0; DelObservable 0; Notify 0] = false.
Proof. vm_compute. reflexivity. Qed.

(* stamps: the history above hands out 0,1,2,... in order *)
Example ex_stamps :
  issued [NewObservable 0; NewObserver 0 0; Notify 0; Poll 0; Poll 0; Notify 0; Poll 0] = [0; 1; 2; 3; 4; 5].
Proof. vm_compute. reflexivity. Qed.

(* three threads: creations, a renewal, a copy construction (own fetch-add first, then the load)
   and an assignment, under an interleaved schedule *)
Example ex_threads :
  let progs := prog_of [(0, compile [IFresh 0; IRenew 0; IFresh 1]);
                        (1, compile [IFresh 0; ICopyCtor 1 0 0; IRenew 0]);
                        (2, compile [IFresh 0; IAssign 0 1 1])] in
  let s := trun progs [0; 1; 2; 1; 0; 1; 2; 0; 1] in
  all_values s = [0; 1; 2; 3; 4; 5; 6] /\
  thread_values s 0 = [0; 4; 5] /\ thread_values s 1 = [1; 3; 6] /\ thread_values s 2 = [2] /\
  t_vars s 1 1 = Some 4 /\ t_vars s 2 0 = Some 4 /\ t_vars s 0 0 = Some 4 /\ t_g s = 7.
Proof. vm_compute. repeat split; reflexivity. Qed.

(* the same programs under another schedule give other values — still distinct and increasing *)
Example ex_threads_other_schedule :
  let progs := prog_of [(0, compile [IFresh 0; IRenew 0; IFresh 1]);
                        (1, compile [IFresh 0; ICopyCtor 1 0 0; IRenew 0]);
                        (2, compile [IFresh 0; IAssign 0 1 1])] in
  let s := trun progs [2; 2; 1; 1; 1; 1; 0; 0; 0] in
  thread_values s 0 = [4; 5; 6] /\ thread_values s 1 = [1; 2; 3] /\ thread_values s 2 = [0] /\
  t_vars s 2 0 = None /\ t_vars s 1 1 = None.
Proof. vm_compute. repeat split; reflexivity. Qed.
