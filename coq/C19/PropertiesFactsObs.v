(* C19 — source-derived obligations.  gen/Facts.v is regenerated from the working tree on every
   run (props/C19/factgen.py over the clang AST of TimeStamp.{h,cpp} and Observer.h); these
   theorems tie it to the step functions of Model.v.  Kept apart from Properties.v so that a
   change of the source breaks these and leaves the theorems about the model standing. *)
From Common Require Import Prelude.
From C19 Require Import Model FactsDefs FactsCheckObs.
Local Open Scope N_scope.

(* every member function of Observable / Observer, read statement by statement from the source,
   is the statement list Model.step_valid was written from: ~Observable nulls the observee of
   EVERY registered observer (range-for over observers), notifyObservers renews lastNotified
   unconditionally, registerObserver pushes, removeObserver erases all matching entries,
   Observer's constructor registers *this with its observee, its destructor unregisters iff
   observee is non-null, wasNotified is `if (!observee) return false; notified = lastObserved <
   observee->lastNotified; if (notified) lastObserved.renew(); return notified` *)
Theorem facts_table_match : otbl_eqb gen_tbl model_tbl = true.
Proof. exact FactsCheckObs.table_match_lemma. Qed.
Print Assumptions facts_table_match.

(* the data members and constructors are what the interpretation assumes: both stamps are
   default-constructed TimeStamps, observers a std::vector<Observer*>, Observable() defaulted,
   Observer(Observable &o) : observee(&o), observee{nullptr}, `<` compares the size_t values *)
Theorem facts_members : ofacts_ok gen_of = true.
Proof. exact FactsCheckObs.member_facts_lemma. Qed.
Print Assumptions facts_members.

(* hence: executing the extracted statement lists on Model's heap gives, for every state and
   every operation, exactly Model.step_valid (state cell by cell, result, stamps taken,
   use-after-free flag) *)
Theorem facts_step : forall s e, res_eq (exec gen_tbl s e) (step_valid s e).
Proof. exact FactsCheckObs.exec_gen_lemma. Qed.
Print Assumptions facts_step.

