(* C19 — source-derived obligations.  gen/Facts.v is regenerated from the working tree on every
   run (props/C19/factgen.py over the clang AST of TimeStamp.{h,cpp} and Observer.h); these
   theorems tie it to the step functions of Model.v.  Kept apart from Properties.v so that a
   change of the source breaks these and leaves the theorems about the model standing. *)
From Common Require Import Prelude.
From C19 Require Import Model FactsDefs FactsCheckTS.
Local Open Scope N_scope.

(* TimeStamp: global is a static, CONSTANT-INITIALISED std::atomic<size_t> (no global constructor), value a std::atomic<size_t>, operator
   size_t returns value, and nextValue() is `return global++` / `return global.fetch_add(1)`:
   ONE read-modify-write whose own result (the value before the increment) is returned *)
Theorem facts_timestamp_counter : ts_wf gen_ts = true.
Proof. exact FactsCheckTS.ts_wf_lemma. Qed.
Print Assumptions facts_timestamp_counter.

Theorem facts_next_is_fetch_add : rmw_is_fetch_add (ts_next gen_ts) = true.
Proof. exact FactsCheckTS.ts_next_lemma. Qed.
Print Assumptions facts_next_is_fetch_add.

(* creation (default member initialiser), renew(), copy/move construction and copy/move
   assignment, read from the source, compile to exactly the micro-operations of Model.compile1:
   creation and renew() each go through nextValue() once, copies load the source's value (the
   copy/move constructors run the default initialiser first) *)
Theorem facts_timestamp_ops : forall i, compile_of gen_ts i = Some (compile1 i).
Proof. exact FactsCheckTS.ts_compile_lemma. Qed.
Print Assumptions facts_timestamp_ops.
