(* C19 — reflective checks of the generated Observable/Observer statement table (gen/Facts.v). *)
From Common Require Import Prelude.
From C19 Require Export Model FactsDefs.
From C19.gen Require Export Facts.
Local Open Scope N_scope.

Lemma table_match_lemma : otbl_eqb gen_tbl model_tbl = true.
Proof. vm_compute. reflexivity. Qed.

Lemma member_facts_lemma : ofacts_ok gen_of = true.
Proof. vm_compute. reflexivity. Qed.

Lemma exec_gen_lemma : forall s e, res_eq (exec gen_tbl s e) (step_valid s e).
Proof. intros s e. apply exec_of_table. exact table_match_lemma. Qed.

