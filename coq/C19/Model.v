(* C19 — executable model of rkcommon::utility::Observable / Observer
   (Observer.h) over the process-wide TimeStamp counter (TimeStamp.h/.cpp),
   and of TimeStamp creation / renewal / copy by any number of threads.
   Hand-written (Tie B); definitions only.

   Objects live on the heap and are named by small numbers (the harness keeps
   one pointer slot per number).  A destroyed object's record stays in the
   state with alive = false: it stands for the freed storage, so that a write
   or read through a stale pointer is visible (flag r_uaf).

   The counter is an unbounded N: wrap-around of size_t after 2^64 stamps is
   not modelled. *)
From Common Require Import Prelude.
Local Open Scope N_scope.

(* ------------------------------------------------------------- heap records *)
Record obl := mkObl {              (* struct Observable *)
  b_alive : bool;
  b_stamp : N;                     (* TimeStamp lastNotified            *)
  b_regs  : list N                 (* std::vector<Observer*> observers  *)
}.

Record obs := mkObs {              (* struct Observer *)
  o_alive : bool;
  o_stamp : N;                     (* TimeStamp lastObserved            *)
  o_observee : option N            (* Observable *observee (None = nullptr) *)
}.

Record state := mkState {
  next : N;                        (* TimeStamp::global *)
  obls : N -> obl;
  obss : N -> obs
}.

Definition upd {A} (f : N -> A) (k : N) (v : A) : N -> A :=
  fun x => if N.eqb x k then v else f x.

Definition init : state :=
  mkState 0 (fun _ => mkObl false 0 []) (fun _ => mkObs false 0 None).

Inductive op :=
| NewObservable (b : N)            (* new Observable                     *)
| DelObservable (b : N)            (* delete (Observable* )b             *)
| NewObserver (o b : N)            (* new Observer( *b )                 *)
| DelObserver (o : N)              (* delete (Observer* )o               *)
| Notify (b : N)                   (* b->notifyObservers()               *)
| Poll (o : N).                    (* o->wasNotified()                   *)

Inductive out := OUnit | OBool (r : bool) | OInvalid.

Record res := mkRes {
  r_state  : state;
  r_out    : out;
  r_issued : list N;               (* values returned by TimeStamp::nextValue() in this step *)
  r_uaf    : bool                  (* the step went through a pointer to a destroyed object  *)
}.

(* what the caller must respect (C++ object lifetime rules); the harness only
   generates histories in which every operation satisfies this *)
Definition op_valid (s : state) (e : op) : bool :=
  match e with
  | NewObservable b => negb (b_alive (obls s b))
  | DelObservable b => b_alive (obls s b)
  | NewObserver o b => negb (o_alive (obss s o)) && b_alive (obls s b)
  | DelObserver o => o_alive (obss s o)
  | Notify b => b_alive (obls s b)
  | Poll o => o_alive (obss s o)
  end.

(* std::remove + erase: drops every element equal to o *)
Definition remove_ptr (o : N) (l : list N) : list N :=
  filter (fun x => negb (N.eqb x o)) l.

(* Observable::~Observable():  for (auto *observer : observers) observer->observee = nullptr; *)
Definition orphan (r : obs) : obs := mkObs (o_alive r) (o_stamp r) None.
Definition orphan_loop (regs : list N) (os : N -> obs) : N -> obs :=
  fold_left (fun os' o => upd os' o (orphan (os' o))) regs os.

Definition step_valid (s : state) (e : op) : res :=
  match e with
  | NewObservable b =>
      (* member initialisers: lastNotified{nextValue()}, observers{} *)
      mkRes (mkState (next s + 1) (upd (obls s) b (mkObl true (next s) [])) (obss s))
            OUnit [next s] false
  | DelObservable b =>
      let rb := obls s b in
      mkRes (mkState (next s)
                     (upd (obls s) b (mkObl false (b_stamp rb) (b_regs rb)))
                     (orphan_loop (b_regs rb) (obss s)))
            OUnit []
            (existsb (fun o => negb (o_alive (obss s o))) (b_regs rb))
  | NewObserver o b =>
      (* lastObserved{nextValue()}, observee(&b); body: observee->registerObserver( *this ) *)
      let rb := obls s b in
      mkRes (mkState (next s + 1)
                     (upd (obls s) b (mkObl (b_alive rb) (b_stamp rb) (b_regs rb ++ [o])))
                     (upd (obss s) o (mkObs true (next s) (Some b))))
            OUnit [next s] (negb (b_alive rb))
  | DelObserver o =>
      let ro := obss s o in
      let dead := mkObs false (o_stamp ro) (o_observee ro) in
      match o_observee ro with
      | None => mkRes (mkState (next s) (obls s) (upd (obss s) o dead)) OUnit [] false
      | Some b =>
          let rb := obls s b in
          mkRes (mkState (next s)
                         (upd (obls s) b (mkObl (b_alive rb) (b_stamp rb) (remove_ptr o (b_regs rb))))
                         (upd (obss s) o dead))
                OUnit [] (negb (b_alive rb))
      end
  | Notify b =>
      let rb := obls s b in
      mkRes (mkState (next s + 1) (upd (obls s) b (mkObl (b_alive rb) (next s) (b_regs rb))) (obss s))
            OUnit [next s] false
  | Poll o =>
      let ro := obss s o in
      match o_observee ro with
      | None => mkRes s (OBool false) [] false
      | Some b =>
          let rb := obls s b in
          if N.ltb (o_stamp ro) (b_stamp rb)
          then mkRes (mkState (next s + 1) (obls s)
                              (upd (obss s) o (mkObs (o_alive ro) (next s) (o_observee ro))))
                     (OBool true) [next s] (negb (b_alive rb))
          else mkRes s (OBool false) [] (negb (b_alive rb))
      end
  end.

Definition step (s : state) (e : op) : res :=
  if op_valid s e then step_valid s e else mkRes s OInvalid [] false.

Definition run_from (s : state) (h : list op) : state :=
  fold_left (fun s e => r_state (step s e)) h s.
Definition run (h : list op) : state := run_from init h.

(* every operation of the history respects the lifetime rules at its point *)
Fixpoint hist_valid_from (s : state) (h : list op) : bool :=
  match h with
  | [] => true
  | e :: h' => op_valid s e && hist_valid_from (r_state (step s e)) h'
  end.
Definition hist_valid (h : list op) : bool := hist_valid_from init h.

(* all values handed out by nextValue() during a history, oldest first *)
Fixpoint issued_from (s : state) (h : list op) : list N :=
  match h with
  | [] => []
  | e :: h' => r_issued (step s e) ++ issued_from (r_state (step s e)) h'
  end.
Definition issued (h : list op) : list N := issued_from init h.

Fixpoint uaf_from (s : state) (h : list op) : bool :=
  match h with
  | [] => false
  | e :: h' => r_uaf (step s e) || uaf_from (r_state (step s e)) h'
  end.

(* ------------------------------------------- the property text as a history fold
   What observer o may know, read off the history alone (no stamps): whether
   it exists, which observable it is attached to, and whether that observable
   has notified since o's creation / previous poll. *)
Record view := mkView { v_att : option N; v_pend : bool }.

Definition h_step (o : N) (v : option view) (e : op) : option view :=
  match e with
  | NewObservable _ => v
  | NewObserver o' b => if N.eqb o' o then Some (mkView (Some b) false) else v
  | DelObserver o' => if N.eqb o' o then None else v
  | Poll o' => if N.eqb o' o then option_map (fun w => mkView (v_att w) false) v else v
  | Notify b =>
      match v with
      | Some (mkView (Some b') _) => if N.eqb b' b then Some (mkView (Some b') true) else v
      | _ => v
      end
  | DelObservable b =>
      match v with
      | Some (mkView (Some b') _) => if N.eqb b' b then Some (mkView None false) else v
      | _ => v
      end
  end.

Definition h_view (h : list op) (o : N) : option view := fold_left (h_step o) h None.
Definition h_pending (h : list op) (o : N) : bool :=
  match h_view h o with Some w => v_pend w | None => false end.
Definition h_attached (h : list op) (o : N) : option N :=
  match h_view h o with Some w => v_att w | None => None end.

(* the events that end a "pending" period of observer o attached to b *)
Definition clears (o b : N) (e : op) : bool :=
  match e with
  | Poll o' => N.eqb o' o
  | DelObserver o' => N.eqb o' o
  | NewObserver o' _ => N.eqb o' o
  | DelObservable b' => N.eqb b' b
  | _ => false
  end.

(* ------------------------------------------------------------------ threads
   TimeStamp on any number of threads.  A thread's program is a list of
   micro-operations; a schedule is a list of thread ids, each occurrence lets
   that thread perform its next micro-operation atomically.
     MFetchAdd x      x.value := global++        (default member initialiser / renew())
     MCopy x t y      x.value := (thread t's y).value.load()
   C++ operations in micro-operations (compile):
     TimeStamp x;            -> [MFetchAdd x]
     x.renew();              -> [MFetchAdd x]
     TimeStamp x(y) / (move) -> [MFetchAdd x; MCopy x t y]   (the user-written copy/move constructors
                                have no mem-initialiser, so value{nextValue()} runs first)
     x = y / x = move(y)     -> [MCopy x t y] *)
Inductive micro := MFetchAdd (x : N) | MCopy (x t y : N).

Inductive instr :=
| IFresh (x : N) | IRenew (x : N) | ICopyCtor (x t y : N) | IAssign (x t y : N).

Definition compile1 (i : instr) : list micro :=
  match i with
  | IFresh x => [MFetchAdd x]
  | IRenew x => [MFetchAdd x]
  | ICopyCtor x t y => [MFetchAdd x; MCopy x t y]
  | IAssign x t y => [MCopy x t y]
  end.
Definition compile (p : list instr) : list micro := flat_map compile1 p.

Record tstate := mkT {
  t_g    : N;                          (* TimeStamp::global                         *)
  t_prog : N -> list micro;            (* rest of each thread's program             *)
  t_vars : N -> N -> option N;         (* thread -> variable -> value               *)
  t_log  : list (N * N)                (* (thread, value obtained), newest first    *)
}.

Definition tinit (progs : N -> list micro) : tstate :=
  mkT 0 progs (fun _ _ => None) [].

Definition tstep (s : tstate) (t : N) : tstate :=
  match t_prog s t with
  | [] => s
  | MFetchAdd x :: rest =>
      mkT (t_g s + 1) (upd (t_prog s) t rest)
          (upd (t_vars s) t (upd (t_vars s t) x (Some (t_g s))))
          ((t, t_g s) :: t_log s)
  | MCopy x t' y :: rest =>
      mkT (t_g s) (upd (t_prog s) t rest)
          (upd (t_vars s) t (upd (t_vars s t) x (t_vars s t' y)))
          (t_log s)
  end.

Definition trun_from (s : tstate) (sched : list N) : tstate := fold_left tstep sched s.
Definition trun (progs : N -> list micro) (sched : list N) : tstate := trun_from (tinit progs) sched.

(* the values thread t obtained, oldest first *)
Definition thread_values (s : tstate) (t : N) : list N :=
  rev (map snd (filter (fun e => N.eqb (fst e) t) (t_log s))).
Definition all_values (s : tstate) : list N := rev (map snd (t_log s)).

(* helpers for the extracted driver: programs given as an association list *)
Fixpoint prog_of (l : list (N * list micro)) (t : N) : list micro :=
  match l with
  | [] => []
  | (t', p) :: l' => if N.eqb t' t then p else prog_of l' t
  end.
