(* C19 — proofs about the Observable/Observer model (sequential histories). *)
From Common Require Import Prelude.
From Coq Require Import Sorted.
From C19 Require Import Model.
Local Open Scope N_scope.

Lemma upd_same {A} (f : N -> A) k v : upd f k v k = v.
Proof. unfold upd. rewrite N.eqb_refl. reflexivity. Qed.

Lemma upd_other {A} (f : N -> A) k v x : x <> k -> upd f k v x = f x.
Proof. unfold upd. intro H. destruct (N.eqb_spec x k); [contradiction | reflexivity]. Qed.

Ltac eqb_cases :=
  repeat match goal with
         | |- context [N.eqb ?a ?b] => destruct (N.eqb_spec a b); subst
         | H : context [N.eqb ?a ?b] |- _ => destruct (N.eqb_spec a b); subst
         end.

(* ------------------------------------------------------------ the destructor loop *)
Lemma orphan_idem r : orphan (orphan r) = orphan r.
Proof. reflexivity. Qed.

Lemma orphan_loop_spec regs : forall os o,
  orphan_loop regs os o = if existsb (N.eqb o) regs then orphan (os o) else os o.
Proof.
  induction regs as [|a regs IH]; intros os o.
  - reflexivity.
  - unfold orphan_loop in *. cbn [fold_left existsb]. rewrite IH.
    unfold upd. destruct (N.eqb_spec o a) as [E|E].
    + subst. cbn [orb]. destruct (existsb (N.eqb a) regs); reflexivity.
    + cbn [orb]. reflexivity.
Qed.

Lemma existsb_eqb_In o regs : existsb (N.eqb o) regs = true <-> In o regs.
Proof.
  rewrite existsb_exists. split.
  - intros [x [Hin He]]. apply N.eqb_eq in He. subst. exact Hin.
  - intro H. exists o. split; [exact H | apply N.eqb_refl].
Qed.

Lemma orphan_loop_in regs os o : In o regs -> orphan_loop regs os o = orphan (os o).
Proof.
  intro H. rewrite orphan_loop_spec. apply existsb_eqb_In in H. rewrite H. reflexivity.
Qed.

Lemma orphan_loop_notin regs os o : ~ In o regs -> orphan_loop regs os o = os o.
Proof.
  intro H. rewrite orphan_loop_spec.
  destruct (existsb (N.eqb o) regs) eqn:E; [apply existsb_eqb_In in E; contradiction | reflexivity].
Qed.

Lemma orphan_loop_alive regs os o : o_alive (orphan_loop regs os o) = o_alive (os o).
Proof. rewrite orphan_loop_spec. destruct (existsb (N.eqb o) regs); reflexivity. Qed.

Lemma orphan_loop_stamp regs os o : o_stamp (orphan_loop regs os o) = o_stamp (os o).
Proof. rewrite orphan_loop_spec. destruct (existsb (N.eqb o) regs); reflexivity. Qed.

Lemma remove_ptr_In o l x : In x (remove_ptr o l) <-> In x l /\ x <> o.
Proof.
  unfold remove_ptr. rewrite filter_In. split; intros [H1 H2]; split; auto.
  - intro E. subst. rewrite N.eqb_refl in H2. discriminate.
  - destruct (N.eqb_spec x o); [contradiction | reflexivity].
Qed.

(* ------------------------------------------------------------------- invariant *)
(* what the history fold says about observer o agrees with the heap *)
Definition linked (v : option view) (s : state) (o : N) : Prop :=
  match v with
  | None => o_alive (obss s o) = false
  | Some w =>
      o_alive (obss s o) = true /\
      o_observee (obss s o) = v_att w /\
      match v_att w with
      | Some b => N.ltb (o_stamp (obss s o)) (b_stamp (obls s b)) = v_pend w
      | None => v_pend w = false
      end
  end.

Record inv (s : state) (vw : N -> option view) : Prop := mkInv {
  i_bs : forall b, b_alive (obls s b) = true -> b_stamp (obls s b) < next s;
  i_os : forall o, o_alive (obss s o) = true -> o_stamp (obss s o) < next s;
  i_regs : forall b o, b_alive (obls s b) = true -> In o (b_regs (obls s b)) ->
                       o_alive (obss s o) = true /\ o_observee (obss s o) = Some b;
  i_obsv : forall o b, o_alive (obss s o) = true -> o_observee (obss s o) = Some b ->
                       b_alive (obls s b) = true /\ In o (b_regs (obls s b));
  i_nodup : forall b, b_alive (obls s b) = true -> NoDup (b_regs (obls s b));
  i_link : forall o, linked (vw o) s o
}.

Lemma inv_init : inv init (fun _ => None).
Proof.
  constructor; cbn; intros; try discriminate; try reflexivity.
Qed.

Lemma linked_alive v s o : linked v s o -> (o_alive (obss s o) = true <-> v <> None).
Proof.
  destruct v as [w|]; cbn.
  - intros [H _]. split; [discriminate | intros _; exact H].
  - intro H. rewrite H. split; [discriminate | intro C; contradiction].
Qed.

Ltac upd_simpl :=
  repeat first [ rewrite upd_same in * | rewrite upd_other in * by congruence ].

(* NewObservable *)
Lemma step_new_observable s vw b :
  inv s vw -> b_alive (obls s b) = false ->
  inv (mkState (next s + 1) (upd (obls s) b (mkObl true (next s) [])) (obss s)) vw.
Proof.
  intros I V. destruct I as [Ibs Ios Iregs Iobsv Ind Ilink].
  constructor; cbn [next obls obss].
  - intros b' A. unfold upd in *. destruct (N.eqb_spec b' b); cbn in *; [lia|].
    specialize (Ibs b' A). lia.
  - intros o A. specialize (Ios o A). lia.
  - intros b' o A Hin. unfold upd in *. destruct (N.eqb_spec b' b); cbn in *; [contradiction|].
    apply Iregs; assumption.
  - intros o b' A E. destruct (Iobsv o b' A E) as [A' Hin].
    unfold upd. destruct (N.eqb_spec b' b); [subst; congruence|]. split; assumption.
  - intros b' A. unfold upd in *. destruct (N.eqb_spec b' b); cbn in *; [constructor|]. apply Ind; assumption.
  - intro o. specialize (Ilink o). unfold linked in *. destruct (vw o) as [w|]; [|exact Ilink].
    destruct Ilink as [A [E P]]. split; [exact A|]. split; [exact E|].
    destruct (v_att w) as [b'|] eqn:Ea; [|exact P].
    cbn [obls]. destruct (Iobsv o b' A E) as [A' _].
    unfold upd. destruct (N.eqb_spec b' b); [subst; congruence | exact P].
Qed.

(* Notify *)
Lemma step_notify s vw b :
  inv s vw -> b_alive (obls s b) = true ->
  inv (mkState (next s + 1)
               (upd (obls s) b (mkObl (b_alive (obls s b)) (next s) (b_regs (obls s b)))) (obss s))
      (fun o => h_step o (vw o) (Notify b)).
Proof.
  intros I V. destruct I as [Ibs Ios Iregs Iobsv Ind Ilink].
  constructor; cbn [next obls obss].
  - intros b' A. unfold upd in *. destruct (N.eqb_spec b' b); cbn in *; [lia|].
    specialize (Ibs b' A). lia.
  - intros o A. specialize (Ios o A). lia.
  - intros b' o A Hin. unfold upd in *. destruct (N.eqb_spec b' b); cbn in *.
    + subst. apply Iregs; assumption.
    + apply Iregs; assumption.
  - intros o b' A E. destruct (Iobsv o b' A E) as [A' Hin].
    unfold upd. destruct (N.eqb_spec b' b); cbn; [subst|]; split; assumption.
  - intros b' A. unfold upd in *. destruct (N.eqb_spec b' b); cbn in *; [subst|]; apply Ind; assumption.
  - intro o. specialize (Ilink o). unfold linked in *. cbn [h_step].
    destruct (vw o) as [[[b'|] p]|]; cbn [v_att v_pend] in *.
    + destruct Ilink as [A [E P]]. destruct (N.eqb_spec b' b) as [Eb|Eb].
      * subst b'. cbn [v_att v_pend obls]. split; [exact A|]. split; [exact E|].
        rewrite upd_same. cbn [b_stamp]. specialize (Ios o A). apply N.ltb_lt. exact Ios.
      * cbn [v_att v_pend obls]. split; [exact A|]. split; [exact E|].
        rewrite upd_other by exact Eb. exact P.
    + exact Ilink.
    + exact Ilink.
Qed.

Lemma NoDup_snoc {A} (l : list A) x : NoDup l -> ~ In x l -> NoDup (l ++ [x]).
Proof.
  induction l as [|a l IH]; intros ND NI; cbn.
  - constructor; [intros [] | constructor].
  - inversion ND as [|a' l' Ha ND']; subst. constructor.
    + rewrite in_app_iff. intros [H|[H|[]]]; [contradiction | subst; apply NI; left; reflexivity].
    + apply IH; [exact ND' | intro H; apply NI; right; exact H].
Qed.

(* NewObserver *)
Lemma step_new_observer s vw o b :
  inv s vw -> o_alive (obss s o) = false -> b_alive (obls s b) = true ->
  inv (mkState (next s + 1)
               (upd (obls s) b (mkObl (b_alive (obls s b)) (b_stamp (obls s b)) (b_regs (obls s b) ++ [o])))
               (upd (obss s) o (mkObs true (next s) (Some b))))
      (fun x => h_step x (vw x) (NewObserver o b)).
Proof.
  intros I Vo Vb. destruct I as [Ibs Ios Iregs Iobsv Ind Ilink].
  assert (Hnotin : forall b', b_alive (obls s b') = true -> ~ In o (b_regs (obls s b'))).
  { intros b' A Hin. destruct (Iregs b' o A Hin) as [A' _]. congruence. }
  constructor; cbn [next obls obss].
  - intros b' A. unfold upd in *. destruct (N.eqb_spec b' b); cbn in *.
    + subst. specialize (Ibs b Vb). lia.
    + specialize (Ibs b' A). lia.
  - intros x A. unfold upd in *. destruct (N.eqb_spec x o); cbn in *; [lia|].
    specialize (Ios x A). lia.
  - intros b' x A Hin. unfold upd in A, Hin. destruct (N.eqb_spec b' b) as [Eb|Eb]; cbn in A, Hin.
    + subst b'. apply in_app_iff in Hin. destruct Hin as [Hin|[Hin|[]]].
      * destruct (Iregs b x Vb Hin) as [A' E']. rewrite upd_other by congruence. split; assumption.
      * subst x. rewrite upd_same. cbn. split; reflexivity.
    + destruct (Iregs b' x A Hin) as [A' E']. rewrite upd_other by congruence. split; assumption.
  - intros x b' A E. unfold upd in A, E. destruct (N.eqb_spec x o) as [Ex|Ex]; cbn in A, E.
    + subst x. inversion E; subst b'. rewrite upd_same. cbn. split; [exact Vb|].
      apply in_app_iff. right. left. reflexivity.
    + destruct (Iobsv x b' A E) as [A' Hin]. unfold upd. destruct (N.eqb_spec b' b); cbn.
      * subst b'. split; [exact A'|]. apply in_app_iff. left. exact Hin.
      * split; assumption.
  - intros b' A. unfold upd in *. destruct (N.eqb_spec b' b); cbn in *.
    + subst b'. apply NoDup_snoc; [apply Ind; exact Vb | apply Hnotin; exact Vb].
    + apply Ind; exact A.
  - intro x. specialize (Ilink x). cbn [h_step]. destruct (N.eqb_spec o x) as [Ex|Ex].
    + subst x. unfold linked. cbn [v_att v_pend obss obls]. rewrite !upd_same. cbn.
      split; [reflexivity|]. split; [reflexivity|]. specialize (Ibs b Vb). apply N.ltb_ge. lia.
    + unfold linked in *. destruct (vw x) as [w|]; cbn [obss obls].
      * rewrite upd_other by congruence. destruct Ilink as [A [E P]].
        split; [exact A|]. split; [exact E|]. destruct (v_att w) as [b'|]; [|exact P].
        unfold upd. destruct (N.eqb_spec b' b); [subst b'|]; cbn; exact P.
      * rewrite upd_other by congruence. exact Ilink.
Qed.

(* Poll *)
Lemma step_poll s vw o :
  inv s vw -> o_alive (obss s o) = true ->
  inv (r_state (step_valid s (Poll o))) (fun x => h_step x (vw x) (Poll o)) /\
  r_uaf (step_valid s (Poll o)) = false /\
  r_out (step_valid s (Poll o)) = OBool (match vw o with Some w => v_pend w | None => false end).
Proof.
  intros I V. pose proof I as I0. destruct I as [Ibs Ios Iregs Iobsv Ind Ilink].
  pose proof (Ilink o) as Lo. unfold linked in Lo.
  destruct (vw o) as [w|] eqn:Evw; [|congruence].
  destruct Lo as [_ [E P]].
  cbn [step_valid].
  destruct (o_observee (obss s o)) as [b|] eqn:Eobs.
  - destruct (Iobsv o b V Eobs) as [Ab Hin].
    rewrite <- E in P.
    destruct (N.ltb (o_stamp (obss s o)) (b_stamp (obls s b))) eqn:Elt; cbn [r_state r_uaf r_out].
    + split; [|split; [rewrite Ab; reflexivity | rewrite <- P; reflexivity]].
      constructor; cbn [next obls obss].
      * intros b' A. specialize (Ibs b' A). lia.
      * intros x A. unfold upd in *. destruct (N.eqb_spec x o); cbn in *; [lia|].
        specialize (Ios x A). lia.
      * intros b' x A Hin'. destruct (Iregs b' x A Hin') as [A' E'].
        unfold upd. destruct (N.eqb_spec x o); cbn; [subst x|]; split; congruence.
      * intros x b' A E'. unfold upd in A, E'. destruct (N.eqb_spec x o); cbn in A, E'.
        -- subst x. apply Iobsv; congruence.
        -- apply Iobsv; assumption.
      * exact Ind.
      * intro x. cbn [h_step]. destruct (N.eqb_spec o x) as [Ex|Ex].
        -- subst x. rewrite Evw. cbn [option_map]. unfold linked. cbn [v_att v_pend obss obls].
           rewrite upd_same. cbn. split; [exact V|]. split; [congruence|].
           rewrite <- E. specialize (Ibs b Ab). apply N.ltb_ge. lia.
        -- specialize (Ilink x). unfold linked in *. destruct (vw x) as [w'|]; cbn [obss obls].
           ++ rewrite upd_other by congruence. exact Ilink.
           ++ rewrite upd_other by congruence. exact Ilink.
    + split; [|split; [rewrite Ab; reflexivity | rewrite <- P; reflexivity]].
      destruct I0 as [? ? ? ? ? _]. constructor; try assumption.
      intro x. cbn [h_step]. destruct (N.eqb_spec o x) as [Ex|Ex]; [|apply Ilink].
      subst x. rewrite Evw. cbn [option_map]. unfold linked. cbn [v_att v_pend].
      split; [exact V|]. split; [congruence|]. rewrite <- E. exact Elt.
  - cbn [r_state r_uaf r_out]. rewrite <- E in P.
    split; [|split; [reflexivity | rewrite P; reflexivity]].
    destruct I0 as [? ? ? ? ? _]. constructor; try assumption.
    intro x. cbn [h_step]. destruct (N.eqb_spec o x) as [Ex|Ex]; [|apply Ilink].
    subst x. rewrite Evw. cbn [option_map]. unfold linked. cbn [v_att v_pend].
    split; [exact V|]. split; [congruence|]. rewrite <- E. reflexivity.
Qed.

(* DelObserver *)
Lemma step_del_observer s vw o :
  inv s vw -> o_alive (obss s o) = true ->
  inv (r_state (step_valid s (DelObserver o))) (fun x => h_step x (vw x) (DelObserver o)) /\
  r_uaf (step_valid s (DelObserver o)) = false.
Proof.
  intros I V. destruct I as [Ibs Ios Iregs Iobsv Ind Ilink].
  cbn [step_valid].
  destruct (o_observee (obss s o)) as [b|] eqn:Eobs; cbn [r_state r_uaf].
  - destruct (Iobsv o b V Eobs) as [Ab Hin]. split; [|rewrite Ab; reflexivity].
    constructor; cbn [next obls obss].
    + intros b' A. unfold upd in *. destruct (N.eqb_spec b' b); cbn in *; [subst b'|]; apply Ibs; assumption.
    + intros x A. unfold upd in *. destruct (N.eqb_spec x o); cbn in *; [discriminate|]. apply Ios; exact A.
    + intros b' x A Hin'. unfold upd in A, Hin'. destruct (N.eqb_spec b' b) as [Eb|Eb]; cbn in A, Hin'.
      * subst b'. apply remove_ptr_In in Hin'. destruct Hin' as [Hin' Hne].
        rewrite upd_other by exact Hne. apply Iregs; assumption.
      * destruct (Iregs b' x A Hin') as [A' E'].
        assert (x <> o) by (intro; subst x; congruence).
        rewrite upd_other by assumption. split; assumption.
    + intros x b' A E'. unfold upd in A, E'. destruct (N.eqb_spec x o) as [Ex|Ex]; cbn in A, E'; [discriminate|].
      destruct (Iobsv x b' A E') as [A' Hin']. unfold upd. destruct (N.eqb_spec b' b); cbn.
      * subst b'. split; [exact A'|]. apply remove_ptr_In. split; assumption.
      * split; assumption.
    + intros b' A. unfold upd in *. destruct (N.eqb_spec b' b); cbn in *.
      * subst b'. unfold remove_ptr. apply NoDup_filter. apply Ind; exact Ab.
      * apply Ind; exact A.
    + intro x. cbn [h_step]. destruct (N.eqb_spec o x) as [Ex|Ex].
      * subst x. unfold linked. cbn [obss]. rewrite upd_same. reflexivity.
      * specialize (Ilink x). unfold linked in *. destruct (vw x) as [w|]; cbn [obss obls].
        -- rewrite upd_other by congruence. destruct Ilink as [A [E P]].
           split; [exact A|]. split; [exact E|]. destruct (v_att w) as [b'|]; [|exact P].
           unfold upd. destruct (N.eqb_spec b' b); [subst b'|]; cbn; exact P.
        -- rewrite upd_other by congruence. exact Ilink.
  - split; [|reflexivity].
    constructor; cbn [next obls obss].
    + exact Ibs.
    + intros x A. unfold upd in *. destruct (N.eqb_spec x o); cbn in *; [discriminate|]. apply Ios; exact A.
    + intros b' x A Hin'. destruct (Iregs b' x A Hin') as [A' E'].
      assert (x <> o) by (intro; subst x; congruence).
      rewrite upd_other by assumption. split; assumption.
    + intros x b' A E'. unfold upd in A, E'. destruct (N.eqb_spec x o) as [Ex|Ex]; cbn in A, E'; [discriminate|].
      apply Iobsv; assumption.
    + exact Ind.
    + intro x. cbn [h_step]. destruct (N.eqb_spec o x) as [Ex|Ex].
      * subst x. unfold linked. cbn [obss]. rewrite upd_same. reflexivity.
      * specialize (Ilink x). unfold linked in *. destruct (vw x) as [w|]; cbn [obss obls];
          rewrite upd_other by congruence; exact Ilink.
Qed.

(* DelObservable *)
Lemma step_del_observable s vw b :
  inv s vw -> b_alive (obls s b) = true ->
  inv (r_state (step_valid s (DelObservable b))) (fun x => h_step x (vw x) (DelObservable b)) /\
  r_uaf (step_valid s (DelObservable b)) = false.
Proof.
  intros I V. destruct I as [Ibs Ios Iregs Iobsv Ind Ilink].
  cbn [step_valid r_state r_uaf].
  assert (Hreg : forall x, In x (b_regs (obls s b)) -> o_alive (obss s x) = true /\ o_observee (obss s x) = Some b).
  { intros x Hin. apply Iregs; assumption. }
  split.
  - constructor; cbn [next obls obss].
    + intros b' A. unfold upd in *. destruct (N.eqb_spec b' b); cbn in *; [discriminate|]. apply Ibs; exact A.
    + intros x A. rewrite orphan_loop_alive in A. rewrite orphan_loop_stamp. apply Ios; exact A.
    + intros b' x A Hin. unfold upd in A, Hin. destruct (N.eqb_spec b' b) as [Eb|Eb]; cbn in A, Hin; [discriminate|].
      destruct (Iregs b' x A Hin) as [A' E'].
      rewrite orphan_loop_notin; [split; assumption|].
      intro Hin'. destruct (Hreg x Hin') as [_ E'']. congruence.
    + intros x b' A E'. rewrite orphan_loop_alive in A.
      destruct (in_dec N.eq_dec x (b_regs (obls s b))) as [Hin|Hnin].
      * rewrite orphan_loop_in in E' by exact Hin. cbn in E'. discriminate.
      * rewrite orphan_loop_notin in E' by exact Hnin.
        destruct (Iobsv x b' A E') as [A' Hin']. unfold upd.
        destruct (N.eqb_spec b' b); [subst b'; contradiction|]. split; assumption.
    + intros b' A. unfold upd in *. destruct (N.eqb_spec b' b); cbn in *; [discriminate|]. apply Ind; exact A.
    + intro x. specialize (Ilink x). unfold linked in *. cbn [h_step].
      destruct (vw x) as [[[b'|] p]|]; cbn [v_att v_pend] in *.
      * destruct Ilink as [A [E P]]. destruct (Iobsv x b' A E) as [A' Hin'].
        destruct (N.eqb_spec b' b) as [Eb|Eb]; cbn [v_att v_pend obss obls].
        -- subst b'. rewrite orphan_loop_in by exact Hin'. cbn. split; [exact A|]. split; reflexivity.
        -- assert (Hnin : ~ In x (b_regs (obls s b))).
           { intro Hin. destruct (Hreg x Hin) as [_ E'']. congruence. }
           rewrite orphan_loop_notin by exact Hnin. split; [exact A|]. split; [exact E|].
           rewrite upd_other by exact Eb. exact P.
      * destruct Ilink as [A [E P]]. cbn [obss]. rewrite orphan_loop_alive. split; [exact A|]. split; [|exact P].
        rewrite orphan_loop_spec. destruct (existsb (N.eqb x) (b_regs (obls s b))); [reflexivity | exact E].
      * cbn [obss]. rewrite orphan_loop_alive. exact Ilink.
  - destruct (existsb (fun o => negb (o_alive (obss s o))) (b_regs (obls s b))) eqn:Ex; [|reflexivity].
    apply existsb_exists in Ex. destruct Ex as [x [Hin Hd]]. destruct (Hreg x Hin) as [A _].
    rewrite A in Hd. discriminate.
Qed.

(* ------------------------------------------------------------ all operations *)
Lemma step_inv s vw e :
  inv s vw -> op_valid s e = true ->
  inv (r_state (step s e)) (fun o => h_step o (vw o) e) /\ r_uaf (step s e) = false.
Proof.
  intros I V. unfold step. rewrite V. destruct e as [b|b|o b|o|b|o]; cbn [op_valid] in V.
  - apply negb_true_iff in V. cbn [step_valid r_state r_uaf]. split; [|reflexivity].
    apply (step_new_observable s vw b I V).
  - apply step_del_observable; assumption.
  - apply andb_true_iff in V. destruct V as [Vo Vb]. apply negb_true_iff in Vo.
    cbn [step_valid r_state r_uaf]. split; [|rewrite Vb; reflexivity].
    apply (step_new_observer s vw o b I Vo Vb).
  - apply step_del_observer; assumption.
  - cbn [step_valid r_state r_uaf]. split; [|reflexivity]. apply (step_notify s vw b I V).
  - destruct (step_poll s vw o I V) as [H1 [H2 _]]. split; assumption.
Qed.

(* ------------------------------------------------------------------ histories *)
Lemma run_from_app s h1 h2 : run_from s (h1 ++ h2) = run_from (run_from s h1) h2.
Proof. unfold run_from. apply fold_left_app. Qed.

Lemma hist_valid_from_app s h1 h2 :
  hist_valid_from s (h1 ++ h2) = hist_valid_from s h1 && hist_valid_from (run_from s h1) h2.
Proof.
  revert s. induction h1 as [|e h1 IH]; intro s; cbn.
  - reflexivity.
  - rewrite IH. rewrite andb_assoc. reflexivity.
Qed.

Lemma run_inv_from h : forall s vw,
  inv s vw -> hist_valid_from s h = true ->
  inv (run_from s h) (fun o => fold_left (h_step o) h (vw o)) /\ uaf_from s h = false.
Proof.
  induction h as [|e h IH]; intros s vw I V.
  - cbn. split; [|reflexivity]. destruct I. constructor; assumption.
  - cbn [hist_valid_from] in V. apply andb_true_iff in V. destruct V as [V1 V2].
    destruct (step_inv s vw e I V1) as [I' U].
    destruct (IH _ _ I' V2) as [I'' U'].
    cbn [run_from fold_left uaf_from]. split; [exact I''|]. rewrite U, U'. reflexivity.
Qed.

Lemma run_inv h : hist_valid h = true -> inv (run h) (h_view h) /\ uaf_from init h = false.
Proof.
  intro V. destruct (run_inv_from h init (fun _ => None) inv_init V) as [I U].
  split; [|exact U]. destruct I. constructor; assumption.
Qed.

(* observer_spec *)
Lemma poll_spec h o :
  hist_valid h = true -> o_alive (obss (run h) o) = true ->
  r_out (step (run h) (Poll o)) = OBool (h_pending h o).
Proof.
  intros V A. destruct (run_inv h V) as [I _].
  unfold step. cbn [op_valid]. rewrite A.
  destruct (step_poll _ _ o I A) as [_ [_ Hout]]. rewrite Hout. reflexivity.
Qed.

(* a poll does not disturb anybody else: the other observers' views, stamps and links are untouched *)
Lemma poll_frame s o x :
  x <> o -> obss (r_state (step s (Poll o))) x = obss s x /\
            obls (r_state (step s (Poll o))) = obls s.
Proof.
  intro Hne. unfold step. destruct (op_valid s (Poll o)); [|split; reflexivity].
  cbn [step_valid]. destruct (o_observee (obss s o)) as [b|]; [|split; reflexivity].
  destruct (N.ltb (o_stamp (obss s o)) (b_stamp (obls s b))); cbn [r_state obss obls]; [|split; reflexivity].
  split; [apply upd_other; exact Hne | reflexivity].
Qed.

Lemma h_view_snoc h e o : h_view (h ++ [e]) o = h_step o (h_view h o) e.
Proof. unfold h_view. rewrite fold_left_app. reflexivity. Qed.

(* independence at the level of the property text: an event that names neither o nor the
   observable o is attached to leaves o's view alone *)
Definition mentions (o : N) (att : option N) (e : op) : bool :=
  match e with
  | NewObservable _ => false
  | DelObservable b | Notify b => match att with Some b' => N.eqb b' b | None => false end
  | NewObserver o' _ | DelObserver o' | Poll o' => N.eqb o' o
  end.

Lemma h_step_indep o v e :
  mentions o (match v with Some w => v_att w | None => None end) e = false -> h_step o v e = v.
Proof.
  destruct e as [b|b|o' b|o'|b|o']; cbn; intro H; try reflexivity;
    try (rewrite H; reflexivity);
    destruct v as [[[b'|] p]|]; cbn in *; try reflexivity; rewrite H; reflexivity.
Qed.

(* ------------------------------------------------------------------ orphans *)
Definition keeps_observer (o : N) (e : op) : bool :=
  match e with
  | NewObserver o' _ | DelObserver o' => negb (N.eqb o' o)
  | _ => true
  end.

Lemma orphan_view_stable o h : forall v,
  v = Some (mkView None false) -> forallb (keeps_observer o) h = true ->
  fold_left (h_step o) h v = Some (mkView None false).
Proof.
  induction h as [|e h IH]; intros v Ev K; cbn in *; [exact Ev|].
  apply andb_true_iff in K. destruct K as [K1 K2]. apply IH; [|exact K2].
  subst v. destruct e as [b|b|o' b|o'|b|o']; cbn in *; try reflexivity.
  - apply negb_true_iff in K1. rewrite K1. reflexivity.
  - apply negb_true_iff in K1. rewrite K1. reflexivity.
  - destruct (N.eqb o' o); reflexivity.
Qed.

Lemma orphan_forever h1 b h2 o :
  hist_valid (h1 ++ DelObservable b :: h2) = true ->
  h_attached h1 o = Some b ->
  forallb (keeps_observer o) h2 = true ->
  let s := run (h1 ++ DelObservable b :: h2) in
  o_alive (obss s o) = true /\ o_observee (obss s o) = None /\
  r_out (step s (Poll o)) = OBool false /\ r_state (step s (Poll o)) = s.
Proof.
  intros V Hatt K s.
  assert (Hv : h_view (h1 ++ DelObservable b :: h2) o = Some (mkView None false)).
  { unfold h_view. rewrite fold_left_app. cbn [fold_left]. apply orphan_view_stable; [|exact K].
    unfold h_attached, h_view in Hatt. destruct (fold_left (h_step o) h1 None) as [[[b'|] p]|]; cbn in *; try discriminate.
    inversion Hatt; subst b'. rewrite N.eqb_refl. reflexivity. }
  destruct (run_inv _ V) as [I _]. pose proof (i_link _ _ I o) as L. rewrite Hv in L.
  cbn in L. destruct L as [A [E _]]. fold s in A, E.
  split; [exact A|]. split; [exact E|].
  unfold step. cbn [op_valid]. rewrite A. cbn [step_valid]. rewrite E. split; reflexivity.
Qed.

(* ------------------------------------------------------------------ stamps_fresh *)
Lemma step_issued s e :
  (r_issued (step s e) = [] /\ next (r_state (step s e)) = next s) \/
  (r_issued (step s e) = [next s] /\ next (r_state (step s e)) = next s + 1).
Proof.
  unfold step. destruct (op_valid s e); [|left; split; reflexivity].
  destruct e as [b|b|o b|o|b|o]; cbn [step_valid].
  - right. split; reflexivity.
  - left. split; reflexivity.
  - right. split; reflexivity.
  - destruct (o_observee (obss s o)); left; split; reflexivity.
  - right. split; reflexivity.
  - destruct (o_observee (obss s o)) as [b|]; [|left; split; reflexivity].
    destruct (N.ltb (o_stamp (obss s o)) (b_stamp (obls s b))); [right | left]; split; reflexivity.
Qed.

Lemma issued_from_bounds h : forall s,
  next s <= next (run_from s h) /\
  Forall (fun v => next s <= v < next (run_from s h)) (issued_from s h) /\
  StronglySorted N.lt (issued_from s h).
Proof.
  induction h as [|e h IH]; intro s; cbn [issued_from run_from fold_left].
  - split; [lia|]. split; constructor.
  - destruct (IH (r_state (step s e))) as [Hle [Hall Hs]]. fold (run_from (r_state (step s e)) h).
    destruct (step_issued s e) as [[Ei En]|[Ei En]]; rewrite Ei; cbn [app].
    + rewrite En in *. split; [exact Hle|]. split; assumption.
    + rewrite En in *. split; [lia|]. split.
      * constructor; [lia|]. eapply Forall_impl; [|exact Hall]. cbn. intros v Hv. lia.
      * constructor; [exact Hs|]. eapply Forall_impl; [|exact Hall]. cbn. intros v Hv. lia.
Qed.

Lemma sorted_lt_nodup l : StronglySorted N.lt l -> NoDup l.
Proof.
  induction 1 as [|a l Hs IH Hall]; constructor; [|exact IH].
  intro Hin. rewrite Forall_forall in Hall. specialize (Hall a Hin). lia.
Qed.

Lemma stamps_fresh_all h :
  StronglySorted N.lt (issued h) /\ NoDup (issued h) /\
  Forall (fun v => v < next (run h)) (issued h).
Proof.
  destruct (issued_from_bounds h init) as [_ [Hall Hs]]. fold (run h) in Hall. fold (issued h) in *.
  split; [exact Hs|]. split; [apply sorted_lt_nodup; exact Hs|].
  eapply Forall_impl; [|exact Hall]. cbn. intros v Hv. lia.
Qed.

(* a value handed out later is larger than every stamp issued or stored before *)
Lemma issued_app s h1 h2 : issued_from s (h1 ++ h2) = issued_from s h1 ++ issued_from (run_from s h1) h2.
Proof.
  revert s. induction h1 as [|e h1 IH]; intro s; cbn [app issued_from run_from fold_left]; [reflexivity|].
  rewrite IH. rewrite app_assoc. reflexivity.
Qed.

Lemma later_stamps_larger h1 h2 v :
  In v (issued_from (run h1) h2) -> next (run h1) <= v.
Proof.
  intro Hin. destruct (issued_from_bounds h2 (run h1)) as [_ [Hall _]].
  rewrite Forall_forall in Hall. specialize (Hall v Hin). lia.
Qed.

(* ------------------------------------------------- the property text, literally
   pending = some notification of the observable o is attached to, with no poll of o,
   no re-creation/destruction of o and no destruction of that observable after it *)
Lemma view_no_clear o b h : forall p,
  forallb (fun e => negb (clears o b e)) h = true ->
  fold_left (h_step o) h (Some (mkView (Some b) p)) =
  Some (mkView (Some b) (p || existsb (fun e => match e with Notify b' => N.eqb b b' | _ => false end) h)).
Proof.
  induction h as [|e h IH]; intros p K; cbn [fold_left existsb forallb] in *.
  - rewrite orb_false_r. reflexivity.
  - apply andb_true_iff in K. destruct K as [K1 K2]. apply negb_true_iff in K1.
    destruct e as [b'|b'|o' b'|o'|b'|o']; cbn [h_step clears] in *.
    + rewrite IH by exact K2. reflexivity.
    + rewrite N.eqb_sym in K1. rewrite K1. rewrite IH by exact K2. reflexivity.
    + rewrite K1. rewrite IH by exact K2. reflexivity.
    + rewrite K1. rewrite IH by exact K2. reflexivity.
    + destruct (N.eqb_spec b b').
      * rewrite IH by exact K2. cbn [orb]. rewrite orb_true_r. reflexivity.
      * rewrite IH by exact K2. cbn [orb]. reflexivity.
    + rewrite K1. rewrite IH by exact K2. reflexivity.
Qed.

Lemma pending_text_if o h1 b h2 :
  h_attached h1 o = Some b ->
  forallb (fun e => negb (clears o b e)) h2 = true ->
  h_pending (h1 ++ Notify b :: h2) o = true.
Proof.
  intros Hatt K. unfold h_pending, h_view. rewrite fold_left_app. cbn [fold_left].
  unfold h_attached, h_view in Hatt.
  destruct (fold_left (h_step o) h1 None) as [[[b'|] p]|]; cbn in Hatt; try discriminate.
  inversion Hatt; subst b'. cbn [h_step]. rewrite N.eqb_refl.
  rewrite view_no_clear by exact K. reflexivity.
Qed.

Lemma pending_text_only_if o h :
  h_pending h o = true ->
  exists h1 b h2, h = h1 ++ Notify b :: h2 /\ h_attached h1 o = Some b /\
                  forallb (fun e => negb (clears o b e)) h2 = true.
Proof.
  induction h as [|e h IH] using rev_ind; intro P.
  - discriminate.
  - unfold h_pending in P. rewrite h_view_snoc in P.
    destruct (h_view h o) as [[att p]|] eqn:Ev.
    + (* o exists before e *)
      assert (Hcase : (exists b, att = Some b /\ e = Notify b) \/
                      (p = true /\ forall b, att = Some b -> clears o b e = false)).
      { destruct e as [b'|b'|o' b'|o'|b'|o']; cbn [h_step] in P.
        - right. cbn in P. split; [exact P|]. reflexivity.
        - right. destruct att as [b0|]; cbn in P.
          + destruct (N.eqb_spec b0 b'); cbn in P; [discriminate|]. split; [exact P|].
            intros b1 E1. inversion E1; subst b1. cbn. apply N.eqb_neq. congruence.
          + split; [exact P|]. intros; discriminate.
        - right. destruct (N.eqb_spec o' o); cbn in P; [discriminate|]. split; [exact P|].
          intros b1 _. cbn. apply N.eqb_neq. assumption.
        - right. destruct (N.eqb_spec o' o); cbn in P; [discriminate|]. split; [exact P|].
          intros b1 _. cbn. apply N.eqb_neq. assumption.
        - destruct att as [b0|]; cbn in P.
          + destruct (N.eqb_spec b0 b'); cbn in P.
            * left. exists b0. split; [reflexivity | congruence].
            * right. split; [exact P|]. reflexivity.
          + right. split; [exact P|]. reflexivity.
        - right. destruct (N.eqb_spec o' o); cbn in P; [discriminate|]. split; [exact P|].
          intros b1 _. cbn. apply N.eqb_neq. assumption. }
      destruct Hcase as [[b [Ea Ee]]|[Ep Hnc]].
      * subst att e. exists h, b, []. split; [reflexivity|]. split; [|reflexivity].
        unfold h_attached. rewrite Ev. reflexivity.
      * subst p. assert (P' : h_pending h o = true) by (unfold h_pending; rewrite Ev; reflexivity).
        destruct (IH P') as [h1 [b [h2 [Eh [Hatt K]]]]].
        exists h1, b, (h2 ++ [e]). split; [rewrite Eh, <- app_assoc; reflexivity|]. split; [exact Hatt|].
        rewrite forallb_app, K. cbn. rewrite andb_true_r. apply negb_true_iff. apply Hnc.
        (* the attachment at the end of h is still b *)
        subst h. unfold h_view in Ev. rewrite fold_left_app in Ev. cbn [fold_left] in Ev.
        unfold h_attached, h_view in Hatt.
        destruct (fold_left (h_step o) h1 None) as [[[b'|] p']|]; cbn in Hatt; try discriminate.
        inversion Hatt; subst b'. cbn [h_step] in Ev. rewrite N.eqb_refl in Ev.
        rewrite view_no_clear in Ev by exact K. congruence.
    + (* o does not exist before e: only its creation gives a view, not pending *)
      destruct e as [b'|b'|o' b'|o'|b'|o']; cbn in P; try discriminate;
        destruct (N.eqb o' o); cbn in P; discriminate.
Qed.

(* ================================================================ clause wrappers
   Small combinations of the lemmas above, one per clause of the property text
   (used by Properties.v). *)
Lemma run_snoc h e : run (h ++ [e]) = r_state (step (run h) e).
Proof. unfold run. rewrite run_from_app. reflexivity. Qed.

Lemma hist_valid_snoc h e : hist_valid (h ++ [e]) = hist_valid h && op_valid (run h) e.
Proof.
  unfold hist_valid. rewrite hist_valid_from_app. cbn [hist_valid_from]. rewrite andb_true_r. reflexivity.
Qed.

Lemma hist_valid_prefix h1 h2 : hist_valid (h1 ++ h2) = true -> hist_valid h1 = true.
Proof.
  unfold hist_valid. rewrite hist_valid_from_app. intro H. apply andb_true_iff in H. tauto.
Qed.

(* an observer object exists exactly when the history fold has a view for it *)
Lemma alive_iff_view h o :
  hist_valid h = true -> (o_alive (obss (run h) o) = true <-> h_view h o <> None).
Proof.
  intro V. destruct (run_inv h V) as [I _]. apply linked_alive. apply (i_link _ _ I).
Qed.

Lemma pending_alive h o : hist_valid h = true -> h_pending h o = true -> o_alive (obss (run h) o) = true.
Proof.
  intros V P. apply alive_iff_view; [exact V|]. unfold h_pending in P.
  destruct (h_view h o); [discriminate | discriminate].
Qed.

(* "attached to b" in the history fold = the heap says so, and b is alive *)
Lemma attached_alive h o b :
  hist_valid h = true -> h_attached h o = Some b ->
  o_alive (obss (run h) o) = true /\ o_observee (obss (run h) o) = Some b /\
  b_alive (obls (run h) b) = true /\ In o (b_regs (obls (run h) b)).
Proof.
  intros V A. destruct (run_inv h V) as [I _]. pose proof (i_link _ _ I o) as L.
  unfold h_attached in A. destruct (h_view h o) as [w|]; [|discriminate].
  cbn in L. destruct L as [Al [E _]]. rewrite A in E.
  destruct (i_obsv _ _ I o b Al E) as [Ab Hin]. repeat split; assumption.
Qed.

Lemma pending_text_iff o h :
  h_pending h o = true <->
  exists h1 b h2, h = h1 ++ Notify b :: h2 /\ h_attached h1 o = Some b /\
                  forallb (fun e => negb (clears o b e)) h2 = true.
Proof.
  split; [apply pending_text_only_if|].
  intros [h1 [b [h2 [E [A K]]]]]. subst h. apply pending_text_if; assumption.
Qed.

(* wasNotified() answers true exactly when the observable o is attached to has notified
   since o's creation / previous poll and is still there; false otherwise *)
Lemma was_notified_iff h o :
  hist_valid h = true -> o_alive (obss (run h) o) = true ->
  exists r, r_out (step (run h) (Poll o)) = OBool r /\
    (r = true <->
     exists h1 b h2, h = h1 ++ Notify b :: h2 /\ h_attached h1 o = Some b /\
                     forallb (fun e => negb (clears o b e)) h2 = true).
Proof.
  intros V A. exists (h_pending h o). split; [apply poll_spec; assumption | apply pending_text_iff].
Qed.

(* a poll consumes the notification: the next poll answers false *)
Lemma poll_once h o :
  hist_valid h = true -> o_alive (obss (run h) o) = true ->
  r_out (step (r_state (step (run h) (Poll o))) (Poll o)) = OBool false.
Proof.
  intros V A.
  assert (V' : hist_valid (h ++ [Poll o]) = true).
  { rewrite hist_valid_snoc, V. cbn [op_valid andb]. exact A. }
  assert (Hv : h_view (h ++ [Poll o]) o <> None).
  { rewrite h_view_snoc. cbn [h_step]. rewrite N.eqb_refl.
    apply (alive_iff_view h o V) in A. destruct (h_view h o); [discriminate | contradiction]. }
  assert (A' : o_alive (obss (run (h ++ [Poll o])) o) = true) by (apply alive_iff_view; assumption).
  rewrite <- run_snoc. rewrite poll_spec by assumption.
  unfold h_pending. rewrite h_view_snoc. cbn [h_step]. rewrite N.eqb_refl.
  destruct (h_view h o); reflexivity.
Qed.

(* repeated notifications between two polls coalesce: one true, then false *)
Lemma coalesce h o b k :
  hist_valid (h ++ repeat (Notify b) (S k)) = true -> h_attached h o = Some b ->
  let s := run (h ++ repeat (Notify b) (S k)) in
  r_out (step s (Poll o)) = OBool true /\
  r_out (step (r_state (step s (Poll o))) (Poll o)) = OBool false.
Proof.
  intros V Att s.
  assert (P : h_pending (h ++ repeat (Notify b) (S k)) o = true).
  { cbn [repeat]. apply pending_text_if; [exact Att|].
    clear. induction k as [|k IH]; [reflexivity | exact IH]. }
  assert (A : o_alive (obss s o) = true) by (apply pending_alive; assumption).
  split.
  - subst s. rewrite poll_spec by assumption. rewrite P. reflexivity.
  - apply poll_once; assumption.
Qed.

(* an observer created after any number of notifications starts clean *)
Lemma late_observer_clean h o b :
  hist_valid (h ++ [NewObserver o b]) = true ->
  o_alive (obss (run (h ++ [NewObserver o b])) o) = true /\
  r_out (step (run (h ++ [NewObserver o b])) (Poll o)) = OBool false.
Proof.
  intro V.
  assert (Hv : h_view (h ++ [NewObserver o b]) o = Some (mkView (Some b) false)).
  { rewrite h_view_snoc. cbn [h_step]. rewrite N.eqb_refl. reflexivity. }
  assert (A : o_alive (obss (run (h ++ [NewObserver o b])) o) = true).
  { apply alive_iff_view; [exact V|]. rewrite Hv. discriminate. }
  split; [exact A|]. rewrite poll_spec by assumption. unfold h_pending. rewrite Hv. reflexivity.
Qed.

(* independence: an event that names neither o nor the observable o is attached to
   (another observer's creation, destruction or poll, another observable's notification
   or destruction) changes neither o's view nor the answer o's next poll gives *)
Lemma view_indep h e o :
  mentions o (h_attached h o) e = false -> h_view (h ++ [e]) o = h_view h o.
Proof. intro M. rewrite h_view_snoc. apply h_step_indep. exact M. Qed.

Lemma poll_indep h e o :
  hist_valid (h ++ [e]) = true -> o_alive (obss (run h) o) = true ->
  mentions o (h_attached h o) e = false ->
  o_alive (obss (run (h ++ [e])) o) = true /\
  r_out (step (run (h ++ [e])) (Poll o)) = r_out (step (run h) (Poll o)).
Proof.
  intros V' A M. pose proof (hist_valid_prefix _ _ V') as V.
  pose proof (view_indep h e o M) as Ev.
  assert (A' : o_alive (obss (run (h ++ [e])) o) = true).
  { apply alive_iff_view; [exact V'|]. rewrite Ev. apply alive_iff_view; assumption. }
  split; [exact A'|]. rewrite !poll_spec by assumption. unfold h_pending. rewrite Ev. reflexivity.
Qed.

(* no use-after-free event in any valid history; every stored pointer designates a live object *)
Lemma no_uaf h : hist_valid h = true -> uaf_from init h = false.
Proof. intro V. apply (run_inv h V). Qed.

Lemma no_dangling h :
  hist_valid h = true ->
  (forall b o, b_alive (obls (run h) b) = true -> In o (b_regs (obls (run h) b)) ->
               o_alive (obss (run h) o) = true /\ o_observee (obss (run h) o) = Some b) /\
  (forall o b, o_alive (obss (run h) o) = true -> o_observee (obss (run h) o) = Some b ->
               b_alive (obls (run h) b) = true /\ In o (b_regs (obls (run h) b))).
Proof.
  intro V. destruct (run_inv h V) as [I _]. split; [apply (i_regs _ _ I) | apply (i_obsv _ _ I)].
Qed.

(* a stamp handed out later is larger than (so distinct from) every stamp handed out before *)
Lemma stamp_fresh_vs_earlier h1 h2 u v :
  In u (issued h1) -> In v (issued_from (run h1) h2) -> u < v.
Proof.
  intros Hu Hv. destruct (stamps_fresh_all h1) as [_ [_ Hall]].
  rewrite Forall_forall in Hall. specialize (Hall u Hu).
  pose proof (later_stamps_larger h1 h2 v Hv). lia.
Qed.

Lemma issued_split h1 h2 : issued (h1 ++ h2) = issued h1 ++ issued_from (run h1) h2.
Proof. unfold issued. apply issued_app. Qed.
