(* C19 — proofs about TimeStamp on any number of threads (all schedules). *)
From Common Require Import Prelude.
From Coq Require Import Sorted.
From C19 Require Import Model.
Local Open Scope N_scope.

Definition desc : list N -> Prop := StronglySorted (fun a b : N => b < a).

Record tinv (s : tstate) : Prop := mkTinv {
  ti_desc : desc (map snd (t_log s));
  ti_bound : Forall (fun v => v < t_g s) (map snd (t_log s));
  ti_vars : forall t x v, t_vars s t x = Some v -> In v (map snd (t_log s))
}.

Lemma tinv_init progs : tinv (tinit progs).
Proof.
  constructor; cbn.
  - constructor.
  - constructor.
  - intros; discriminate.
Qed.

Lemma tstep_inv s t : tinv s -> tinv (tstep s t).
Proof.
  intros [Hd Hb Hv]. unfold tstep. destruct (t_prog s t) as [|[x|x t' y] rest].
  - constructor; assumption.
  - constructor; cbn [t_log t_g t_vars map snd].
    + constructor; [exact Hd|]. exact Hb.
    + constructor; [lia|]. eapply Forall_impl; [|exact Hb]. cbn. intros v H. lia.
    + intros t0 x0 v. unfold upd. destruct (N.eqb_spec t0 t).
      * subst t0. destruct (N.eqb_spec x0 x).
        -- intro E. inversion E. left. reflexivity.
        -- intro E. right. eapply Hv; exact E.
      * intro E. right. eapply Hv; exact E.
  - constructor; cbn [t_log t_g t_vars].
    + exact Hd.
    + exact Hb.
    + intros t0 x0 v. unfold upd. destruct (N.eqb_spec t0 t).
      * subst t0. destruct (N.eqb_spec x0 x); intro E; eapply Hv; exact E.
      * intro E. eapply Hv; exact E.
Qed.

Lemma trun_from_inv sched : forall s, tinv s -> tinv (trun_from s sched).
Proof.
  induction sched as [|t sched IH]; intros s I; cbn; [exact I|].
  apply IH. apply tstep_inv. exact I.
Qed.

Lemma trun_inv progs sched : tinv (trun progs sched).
Proof. apply trun_from_inv. apply tinv_init. Qed.

(* sortedness transfers to sub-sequences and to the chronological (reversed) order *)
Lemma desc_filter_map (f : N * N -> bool) l :
  desc (map snd l) -> desc (map snd (filter f l)).
Proof.
  induction l as [|a l IH]; cbn; intro H; [constructor|].
  inversion H as [|a' l' Hs Hall]; subst. destruct (f a); cbn.
  - constructor; [apply IH; exact Hs|].
    rewrite Forall_forall in *. intros v Hin. apply Hall.
    apply in_map_iff in Hin. destruct Hin as [e [E Hin]]. apply filter_In in Hin.
    apply in_map_iff. exists e. tauto.
  - apply IH; exact Hs.
Qed.

Lemma sorted_snoc l a :
  StronglySorted N.lt l -> Forall (fun v => v < a) l -> StronglySorted N.lt (l ++ [a]).
Proof.
  induction l as [|b l IH]; cbn; intros Hs Hall.
  - constructor; constructor.
  - inversion Hs as [|b' l' Hs' Hall']; subst. inversion Hall as [|b' l' Hb Hall'']; subst.
    constructor; [apply IH; assumption|].
    apply Forall_app. split; [exact Hall'|]. constructor; [exact Hb | constructor].
Qed.

Lemma desc_rev l : desc l -> StronglySorted N.lt (rev l).
Proof.
  induction l as [|a l IH]; cbn; intro H; [constructor|].
  inversion H as [|a' l' Hs Hall]; subst. apply sorted_snoc; [apply IH; exact Hs|].
  rewrite Forall_forall in *. intros v Hin. rewrite <- in_rev in Hin. apply Hall. exact Hin.
Qed.

Lemma sorted_lt_nodup l : StronglySorted N.lt l -> NoDup l.
Proof.
  induction 1 as [|a l Hs IH Hall]; constructor; [|exact IH].
  intro Hin. rewrite Forall_forall in Hall. specialize (Hall a Hin). lia.
Qed.

(* ---------------------------------------------------------------- the theorem *)
Lemma ts_all_sorted progs sched : StronglySorted N.lt (all_values (trun progs sched)).
Proof. unfold all_values. apply desc_rev. apply ti_desc. apply trun_inv. Qed.

Lemma ts_all_distinct progs sched : NoDup (all_values (trun progs sched)).
Proof. apply sorted_lt_nodup. apply ts_all_sorted. Qed.

Lemma ts_thread_increasing progs sched t :
  StronglySorted N.lt (thread_values (trun progs sched) t).
Proof.
  unfold thread_values. apply desc_rev. apply desc_filter_map. apply ti_desc. apply trun_inv.
Qed.

Lemma ts_thread_sub progs sched t v :
  In v (thread_values (trun progs sched) t) -> In v (all_values (trun progs sched)).
Proof.
  unfold thread_values, all_values. intro H. rewrite <- in_rev in H. rewrite <- in_rev.
  apply in_map_iff in H. destruct H as [e [E Hin]]. apply filter_In in Hin.
  apply in_map_iff. exists e. tauto.
Qed.

(* one step: a fetch-add obtains a value larger than everything obtained so far, by any thread,
   and stores it in the thread's variable; a copy transfers the source's value and obtains nothing *)
Lemma ts_fetch_add_step s t x rest :
  tinv s -> t_prog s t = MFetchAdd x :: rest ->
  let s' := tstep s t in
  t_vars s' t x = Some (t_g s) /\ t_log s' = (t, t_g s) :: t_log s /\
  Forall (fun v => v < t_g s) (map snd (t_log s)) /\
  (forall t0 x0, (t0, x0) <> (t, x) -> t_vars s' t0 x0 = t_vars s t0 x0).
Proof.
  intros I P s'. subst s'. unfold tstep. rewrite P. cbn [t_vars t_log].
  split; [unfold upd; rewrite !N.eqb_refl; reflexivity|]. split; [reflexivity|].
  split; [apply ti_bound; exact I|].
  intros t0 x0 Hne. unfold upd. destruct (N.eqb_spec t0 t); [|reflexivity].
  subst t0. destruct (N.eqb_spec x0 x); [subst; congruence | reflexivity].
Qed.

Lemma ts_copy_step s t x t' y rest :
  t_prog s t = MCopy x t' y :: rest ->
  let s' := tstep s t in
  t_vars s' t x = t_vars s t' y /\ t_log s' = t_log s /\ t_g s' = t_g s /\
  (forall t0 x0, (t0, x0) <> (t, x) -> t_vars s' t0 x0 = t_vars s t0 x0).
Proof.
  intros P s'. subst s'. unfold tstep. rewrite P. cbn [t_vars t_log t_g].
  split; [unfold upd; rewrite !N.eqb_refl; reflexivity|]. split; [reflexivity|]. split; [reflexivity|].
  intros t0 x0 Hne. unfold upd. destruct (N.eqb_spec t0 t); [|reflexivity].
  subst t0. destruct (N.eqb_spec x0 x); [subst; congruence | reflexivity].
Qed.

(* every value held by any variable was obtained by some fetch-add (copies only move values) *)
Lemma ts_vars_issued progs sched t x v :
  t_vars (trun progs sched) t x = Some v -> In v (all_values (trun progs sched)).
Proof.
  intro H. unfold all_values. rewrite <- in_rev.
  eapply ti_vars; [apply trun_inv | exact H].
Qed.

(* the counter is exactly the number of values obtained: no value is skipped or reused *)
Lemma ts_counter_from sched : forall s,
  t_g (trun_from s sched) = t_g s + N.of_nat (length (t_log (trun_from s sched)) - length (t_log s)) /\
  (length (t_log s) <= length (t_log (trun_from s sched)))%nat.
Proof.
  induction sched as [|t sched IH]; intro s; cbn [trun_from fold_left].
  - split; [rewrite Nat.sub_diag; cbn; lia | lia].
  - destruct (IH (tstep s t)) as [H1 H2]. fold (trun_from (tstep s t) sched) in *.
    unfold tstep in *. destruct (t_prog s t) as [|[x|x t' y] rest]; cbn [t_g t_log length] in *.
    + split; assumption.
    + split; [lia | lia].
    + split; assumption.
Qed.

Lemma ts_counter progs sched :
  t_g (trun progs sched) = N.of_nat (length (all_values (trun progs sched))).
Proof.
  destruct (ts_counter_from sched (tinit progs)) as [H _]. fold (trun progs sched) in H.
  cbn in H. unfold all_values. rewrite rev_length, map_length. rewrite H. f_equal. lia.
Qed.

(* ================================================================ clause wrappers *)
(* a creation / renewal in any reachable state, by any thread: the variable receives a value
   larger than (so distinct from) every value obtained before by any thread, this one included *)
Lemma ts_fresh_larger progs sched t x rest :
  let s := trun progs sched in
  t_prog s t = MFetchAdd x :: rest ->
  t_vars (tstep s t) t x = Some (t_g s) /\
  Forall (fun v => v < t_g s) (all_values s) /\
  all_values (tstep s t) = all_values s ++ [t_g s] /\
  thread_values (tstep s t) t = thread_values s t ++ [t_g s].
Proof.
  intros s P. destruct (ts_fetch_add_step s t x rest (trun_inv progs sched) P) as [Hv [Hl [Hb _]]].
  split; [exact Hv|]. split.
  - unfold all_values. rewrite Forall_forall in *. intros v Hin. apply Hb. rewrite <- in_rev in Hin. exact Hin.
  - unfold all_values, thread_values. rewrite Hl. cbn [map snd filter fst]. rewrite N.eqb_refl.
    cbn [map snd rev]. split; reflexivity.
Qed.

(* a copy (constructor's load or assignment) in any state: the destination holds exactly the source's
   value, nothing is obtained from the counter, nobody else's variable changes *)
Lemma ts_copy_carries s t x t' y rest :
  t_prog s t = MCopy x t' y :: rest ->
  t_vars (tstep s t) t x = t_vars s t' y /\ all_values (tstep s t) = all_values s /\ t_g (tstep s t) = t_g s /\
  (forall t0 x0, (t0, x0) <> (t, x) -> t_vars (tstep s t) t0 x0 = t_vars s t0 x0).
Proof.
  intro P. destruct (ts_copy_step s t x t' y rest P) as [H1 [H2 [H3 H4]]].
  split; [exact H1|]. split; [unfold all_values; rewrite H2; reflexivity|]. split; assumption.
Qed.

(* distinct + increasing in one statement about pairs of positions *)
Lemma sorted_nth_lt l : StronglySorted N.lt l ->
  forall i j d, (i < j)%nat -> (j < length l)%nat -> nth i l d < nth j l d.
Proof.
  induction 1 as [|a l Hs IH Hall]; intros i j d Hij Hj; cbn in Hj; [lia|].
  destruct j as [|j]; [lia|]. destruct i as [|i]; cbn [nth].
  - rewrite Forall_forall in Hall. apply Hall. apply nth_In. lia.
  - apply IH; lia.
Qed.

Lemma ts_pairwise progs sched i j d :
  (i < j)%nat -> (j < length (all_values (trun progs sched)))%nat ->
  nth i (all_values (trun progs sched)) d < nth j (all_values (trun progs sched)) d.
Proof. apply sorted_nth_lt. apply ts_all_sorted. Qed.

Lemma ts_thread_pairwise progs sched t i j d :
  (i < j)%nat -> (j < length (thread_values (trun progs sched) t))%nat ->
  nth i (thread_values (trun progs sched) t) d < nth j (thread_values (trun progs sched) t) d.
Proof. apply sorted_nth_lt. apply ts_thread_increasing. Qed.
