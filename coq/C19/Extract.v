From Coq Require Import Extraction ExtrOcamlBasic NArith List.
From C19 Require Import Model.
Extraction "Model.ml" init step op_valid h_pending h_attached compile1 compile tinit tstep trun thread_values all_values prog_of N.of_nat N.to_nat.
