From Coq Require Import Extraction ExtrOcamlBasic ZArith List.
From C13 Require Import Model.
Extraction "Model.ml" reports run w_workers w_peak reports_ops run_ops.
