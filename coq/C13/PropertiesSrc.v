(* C13 — source-derived obligations.  gen/Facts.v is re-extracted from the clang AST of the working tree on
   every run (tasking_system_init.cpp under each backend define, TaskSys.cpp, enkiTS/TaskScheduler.cpp); the
   theorems below say that the extracted table, read by the interpreter of FactsSem.v, IS the hand model of
   Model.v — so the model theorems of Properties.v are theorems about the code as it is now. *)
From Common Require Import Prelude.
From C13 Require Import Model Proofs FactsSem ProofsSrc.
From C13.gen Require Import Facts.
Local Open Scope Z_scope.

(* handle constructor per backend: guard under which the limit is installed, its value, the internal
   backend's argument expression and initTaskSystemInternal's statements (no early return, default for < 1) *)
Theorem facts_denote_construct_src : forall hw, 0 < hw -> forall b n w,
  g_construct facts_src b hw n w = Some (construct b hw n w).
Proof. exact src_construct_denotes. Qed.
Print Assumptions facts_denote_construct_src.

(* initTaskingSystem: assigns a freshly constructed handle built from the unmodified parameter (no clamp, no
   early return), new handle first, then release of the old one *)
Theorem facts_denote_init_src : forall hw, 0 < hw -> forall b n w,
  g_init_sys facts_src b hw n w = Some (init_sys b hw n w).
Proof. exact src_init_denotes. Qed.
Print Assumptions facts_denote_init_src.

(* numTaskingThreads: 0 without a handle; active_value / omp_get_max_threads / GetNumTaskThreads / 1 with one *)
Theorem facts_denote_report_src : forall hw b w, g_report facts_src b hw w = Some (report b hw w).
Proof. exact src_report_denotes. Qed.
Print Assumptions facts_denote_report_src.

Theorem facts_denote_run_src : forall hw, 0 < hw -> forall b ns, g_run facts_src b hw ns = Some (run b hw ns).
Proof. exact src_run_denotes. Qed.
Print Assumptions facts_denote_run_src.

Theorem init_shape_src : f_init facts_src = [IAssignFresh] /\ f_ctor_param_unmodified facts_src = true.
Proof. exact src_init_shape. Qed.
Print Assumptions init_shape_src.

(* StartThreads: for (thread = 1; thread < m_NumThreads; ++thread) ThreadCreate  =>  n-1 workers *)
Theorem worker_loop_src : forall n, 1 <= n ->
  loop_count (f_worker_lo facts_src) (f_worker_op facts_src) n = Some (n - 1).
Proof. exact src_worker_loop. Qed.
Print Assumptions worker_loop_src.

(* the property clauses over the semantics of the extracted facts *)
Theorem threads_before_init_src : forall hw b, g_report facts_src b hw w0 = Some 0.
Proof. exact src_before_init. Qed.
Print Assumptions threads_before_init_src.

Theorem threads_after_init_src : forall hw, 0 < hw -> forall b ns n, 0 < n ->
  exists w, g_run facts_src b hw (ns ++ [n]) = Some w /\
            g_report facts_src b hw w = Some (match b with Debug => 1 | _ => n end).
Proof. exact src_after_init. Qed.
Print Assumptions threads_after_init_src.

Theorem threads_default_positive_src : forall hw, 0 < hw -> forall b n, n <= 0 ->
  exists w r, g_run facts_src b hw [n] = Some w /\ g_report facts_src b hw w = Some r /\ 0 < r /\
              r = match b with Debug => 1 | _ => hw end.
Proof. exact src_default_positive. Qed.
Print Assumptions threads_default_positive_src.

(* TBB: during re-initialisation the new control is created while the old one is still live *)
Theorem tbb_limit_during_reinit_src : forall hw, 0 < hw -> forall ns n m, 0 < n -> 0 < m ->
  exists w hm, g_run facts_src TBB hw (ns ++ [n]) = Some w /\ g_construct facts_src TBB hw m w = Some hm /\
               w_controls (snd hm) = [m; n].
Proof. exact src_tbb_mid. Qed.
Print Assumptions tbb_limit_during_reinit_src.
