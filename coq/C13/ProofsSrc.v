(* C13 — the fact table extracted from the current source tree (gen/Facts.v) DENOTES the hand model:
   interpreting the extracted guards / statement lists / query kinds gives exactly Model.init_sys and
   Model.report, for every backend, every n, every state and every hw > 0.  The proofs are by case
   analysis + lia, so harmless rewrites (numThreads >= 1 for > 0 ...) keep them alive while a changed
   guard, an early return, a clamp, another query or other loop bounds break them. *)
From Common Require Import Prelude.
From C13 Require Import Model Proofs FactsSem.
From C13.gen Require Import Facts.
Local Open Scope Z_scope.

Ltac cases :=
  repeat match goal with
         | |- context [match w_handle ?w with _ => _ end] => destruct (w_handle w)
         | |- context [if ?c then _ else _] => let E := fresh "E" in destruct c eqn:E
         | H : context [if ?c then _ else _] |- _ => let E := fresh "E" in destruct c eqn:E
         end.
Ltac finish :=
  try reflexivity; try discriminate; try (exfalso; lia);
  try (repeat match goal with |- context [Z.max 0 ?x] => replace (Z.max 0 x) with x by lia end; reflexivity).

Lemma src_construct_denotes hw : 0 < hw -> forall b n w,
  g_construct facts_src b hw n w = Some (construct b hw n w).
Proof.
  intros Hhw b n w. destruct b; unfold g_construct, construct; cbn -[Z.ltb Z.leb Z.eqb Z.max Z.sub]; cases; finish.
Qed.

Lemma src_init_denotes hw : 0 < hw -> forall b n w,
  g_init_sys facts_src b hw n w = Some (init_sys b hw n w).
Proof.
  intros Hhw b n w. unfold g_init_sys, init_sys.
  replace (init_shape_ok (f_init facts_src)) with true by reflexivity.
  rewrite (src_construct_denotes hw Hhw). destruct (construct b hw n w). reflexivity.
Qed.

Lemma src_report_denotes hw : forall b w, g_report facts_src b hw w = Some (report b hw w).
Proof.
  intros b w. unfold g_report, report, g_limit, limit. destruct (w_handle w); [|reflexivity].
  destruct b; reflexivity.
Qed.

Lemma src_run_from_denotes hw : 0 < hw -> forall b ns w,
  g_run_from facts_src b hw w ns = Some (fold_left (fun w n => init_sys b hw n w) ns w).
Proof.
  intros Hhw b ns. induction ns as [|n r IH]; intro w; [reflexivity|].
  cbn [g_run_from fold_left]. rewrite (src_init_denotes hw Hhw). apply IH.
Qed.
Lemma src_run_denotes hw : 0 < hw -> forall b ns, g_run facts_src b hw ns = Some (run b hw ns).
Proof. intros Hhw b ns. apply (src_run_from_denotes hw Hhw). Qed.

(* the model theorems, restated over the semantics of the extracted facts *)
Lemma src_before_init hw : forall b, g_report facts_src b hw w0 = Some 0.
Proof. intro b. rewrite src_report_denotes. reflexivity. Qed.

Lemma src_after_init hw : 0 < hw -> forall b ns n, 0 < n ->
  exists w, g_run facts_src b hw (ns ++ [n]) = Some w /\
            g_report facts_src b hw w = Some (match b with Debug => 1 | _ => n end).
Proof.
  intros Hhw b ns n Hn. exists (run b hw (ns ++ [n])). split; [apply src_run_denotes; exact Hhw|].
  rewrite src_report_denotes. f_equal. apply after_init. exact Hn.
Qed.

Lemma src_default_positive hw : 0 < hw -> forall b n, n <= 0 ->
  exists w r, g_run facts_src b hw [n] = Some w /\ g_report facts_src b hw w = Some r /\ 0 < r /\
              r = match b with Debug => 1 | _ => hw end.
Proof.
  intros Hhw b n Hn. exists (run b hw [n]), (report b hw (run b hw [n])).
  destruct (default_positive hw Hhw b n Hn) as [E P].
  repeat split; [apply src_run_denotes; exact Hhw | apply src_report_denotes | exact P | exact E].
Qed.

(* StartThreads' loop creates n-1 workers *)
Lemma src_worker_loop : forall n, 1 <= n -> loop_count (f_worker_lo facts_src) (f_worker_op facts_src) n = Some (n - 1).
Proof. intros n Hn. cbn. f_equal. lia. Qed.

(* construct-new-then-destroy-old: the only statement touching the global handle is the assignment of a
   freshly made handle built from the unmodified parameter *)
Lemma src_init_shape : f_init facts_src = [IAssignFresh] /\ f_ctor_param_unmodified facts_src = true.
Proof. split; reflexivity. Qed.

Lemma src_tbb_mid hw : 0 < hw -> forall ns n m, 0 < n -> 0 < m ->
  exists w hm, g_run facts_src TBB hw (ns ++ [n]) = Some w /\ g_construct facts_src TBB hw m w = Some hm /\
               w_controls (snd hm) = [m; n].
Proof.
  intros Hhw ns n m Hn Hm. exists (run TBB hw (ns ++ [n])), (construct TBB hw m (run TBB hw (ns ++ [n]))).
  split; [apply src_run_denotes; exact Hhw|]. split; [apply src_construct_denotes; exact Hhw|].
  destruct (tbb_mid hw ns n m Hn Hm) as [C _]. exact C.
Qed.
