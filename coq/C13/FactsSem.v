(* C13 — vocabulary of the SOURCE-DERIVED fact table (gen/Facts.v, regenerated from the clang AST on
   every run) and its meaning: an interpreter that turns a fact table into the transition / query
   functions of the tasking-handle state machine.  ProofsSrc.v proves that the table extracted from the
   current tree denotes exactly Model.init_sys / Model.report.  Definitions only. *)
From Common Require Import Prelude.
From C13 Require Import Model.
Local Open Scope Z_scope.

Inductive cmpop := OLt | OLe | OGt | OGe | OEq | ONe.
(* a condition on the int variable in scope (numThreads / nThreads): "v op k" *)
Inductive guard := GTrue | GCmp (op : cmpop) (k : Z) | GOther.
Definition eval_cmp (op : cmpop) (x k : Z) : bool :=
  match op with
  | OLt => x <? k | OLe => x <=? k | OGt => k <? x | OGe => k <=? x | OEq => x =? k | ONe => negb (x =? k)
  end.
Definition eval_guard (g : guard) (x : Z) : option bool :=
  match g with GTrue => Some true | GCmp op k => Some (eval_cmp op x k) | GOther => None end.

(* argument of initTaskSystemInternal(...) in the handle constructor *)
Inductive iarg := IArgCond (g : guard) (k : Z)  (* g ? k : numThreads *) | IArgVar | IArgOther.
(* statements of initTaskSystemInternal(int nThreads) *)
Inductive tsstep :=
  | TsNew                 (* g_ts = unique_ptr(new TaskScheduler): the old scheduler is destroyed, its workers joined *)
  | TsDefault (g : guard) (* if (g nThreads) nThreads = GetNumHardwareThreads(); *)
  | TsInit                (* g_ts->Initialize(nThreads) *)
  | TsDrainOld            (* [if (g_ts)] g_ts->WaitforAll(): drains the PREVIOUS scheduler before it is replaced; no effect on thread counts *)
  | TsEarlyReturn | TsOther.
(* what num_threads() returns *)
Inductive repkind := RActiveValue | ROmpMax | RTaskThreads | RConst (k : Z) | ROther.
(* relevant statements of initTaskingSystem(int numThreads, bool) *)
Inductive istmt :=
  | IAssignFresh     (* g_tasking_handle = make_unique<tasking_system_handle>(numThreads): the right-hand side — the NEW
                        handle — is constructed first, then unique_ptr::operator= releases the old one *)
  | IAssignOther | IGuardedAssign | IModifiesParam | IReturn | IOtherHandleUse
  | IUnknownStmt.    (* any other statement (only "if (flushDenormals) { MXCSR macros }" is ignored) *)
(* COMPLETE list of what a handle constructor body does *)
Inductive cstmt := CInstall  (* the recognised installation of the limit, calling nothing else *)
                 | CUnknown. (* any other statement or call: fails closed *)

Record facts := {
  f_tbb_guard : guard;  f_tbb_value_is_n : bool;    (* when the global_control is created; its value is numThreads *)
  f_omp_guard : guard;  f_omp_value_is_n : bool;    (* when omp_set_num_threads is called; with numThreads *)
  f_int_call_guard : guard;  f_int_arg : iarg;      (* the call of initTaskSystemInternal and its argument *)
  f_ctor_param_unmodified : bool;                   (* no constructor assigns to its parameter; the Debug constructor calls nothing *)
  f_ctor_stmts_tbb : list cstmt;  f_ctor_stmts_omp : list cstmt;  f_ctor_stmts_int : list cstmt;  f_ctor_stmts_dbg : list cstmt;
  f_ts_steps : list tsstep;
  f_rep_tbb : repkind;  f_rep_omp : repkind;  f_rep_int : repkind;  f_rep_dbg : repkind;
  f_int_query_is_numthreads : bool;   (* numThreadsTaskSystemInternal = g_ts->GetNumTaskThreads() = m_NumThreads = Initialize's argument *)
  f_nohandle : option Z;  f_withhandle_num_threads : bool;   (* numTaskingThreads() *)
  f_init : list istmt;
  f_worker_lo : Z;  f_worker_op : cmpop              (* StartThreads: for (thread = lo; thread op m_NumThreads; ++thread) ThreadCreate *)
}.

(* number of iterations of  for (t = lo; t op n; ++t) *)
Definition loop_count (lo : Z) (op : cmpop) (n : Z) : option Z :=
  match op with
  | OLt => Some (Z.max 0 (n - lo))
  | OLe => Some (Z.max 0 (n - lo + 1))
  | _ => None
  end.

Definition istmt_is_fresh (s : istmt) := match s with IAssignFresh => true | _ => false end.
Definition init_shape_ok (l : list istmt) : bool :=
  match l with [s] => istmt_is_fresh s | _ => false end.

(* initTaskSystemInternal: nt is the local nThreads; fresh: g_ts was replaced in this call; done: Initialize ran *)
Fixpoint run_ts (f : facts) (hw : Z) (steps : list tsstep) (nt : Z) (fresh done : bool) (w : world) : option world :=
  match steps with
  | [] => if done then Some w else None
  | TsNew :: r =>
      if done then None
      else run_ts f hw r nt true false (mkw (w_handle w) (w_controls w) (w_omp w) (w_ts w) 0 (w_peak w))
  | TsDrainOld :: r => if fresh then None else run_ts f hw r nt fresh done w
  | TsDefault g :: r =>
      match eval_guard g nt with
      | Some c => run_ts f hw r (if c then hw else nt) fresh done w
      | None => None
      end
  | TsInit :: r =>
      if fresh && negb done && f_int_query_is_numthreads f then
        match loop_count (f_worker_lo f) (f_worker_op f) nt with
        | Some k => run_ts f hw r nt fresh true
                      (mkw (w_handle w) (w_controls w) (w_omp w) (Some nt) k (Z.max (w_peak w) k))
        | None => None
        end
      else None
  | _ => None
  end.

Definition cstmt_is_install (s : cstmt) := match s with CInstall => true | CUnknown => false end.
(* the constructor does exactly one thing (TBB / OpenMP / Internal) or nothing (Debug) *)
Definition ctor_complete (f : facts) (b : backend) : bool :=
  match b with
  | TBB => match f_ctor_stmts_tbb f with [s] => cstmt_is_install s | _ => false end
  | OMP => match f_ctor_stmts_omp f with [s] => cstmt_is_install s | _ => false end
  | Internal => match f_ctor_stmts_int f with [s] => cstmt_is_install s | _ => false end
  | Debug => match f_ctor_stmts_dbg f with [] => true | _ => false end
  end.

Definition g_construct (f : facts) (b : backend) (hw n : Z) (w : world) : option (handle * world) :=
  if negb (f_ctor_param_unmodified f && ctor_complete f b) then None else
  match b with
  | TBB => match eval_guard (f_tbb_guard f) n with
           | Some true => if f_tbb_value_is_n f
                          then Some (mkh n (Some n), mkw (w_handle w) (n :: w_controls w) (w_omp w) (w_ts w) (w_workers w) (w_peak w))
                          else None
           | Some false => Some (mkh n None, w)
           | None => None
           end
  | OMP => match eval_guard (f_omp_guard f) n with
           | Some true => if f_omp_value_is_n f
                          then Some (mkh n None, mkw (w_handle w) (w_controls w) (Some n) (w_ts w) (w_workers w) (w_peak w))
                          else None
           | Some false => Some (mkh n None, w)
           | None => None
           end
  | Internal =>
      match eval_guard (f_int_call_guard f) n with
      | Some true =>
          let arg := match f_int_arg f with
                     | IArgCond g k => option_map (fun c : bool => if c then k else n) (eval_guard g n)
                     | IArgVar => Some n
                     | IArgOther => None
                     end in
          match arg with
          | Some a => option_map (fun w' => (mkh n None, w')) (run_ts f hw (f_ts_steps f) a false false w)
          | None => None
          end
      | _ => None
      end
  | Debug => Some (mkh n None, w)
  end.

Definition g_init_sys (f : facts) (b : backend) (hw n : Z) (w : world) : option world :=
  if init_shape_ok (f_init f) then
    match g_construct f b hw n w with
    | Some (h, w1) =>
        let w2 := match w_handle w with Some old => destroy old w1 | None => w1 end in
        Some (mkw (Some h) (w_controls w2) (w_omp w2) (w_ts w2) (w_workers w2) (w_peak w2))
    | None => None
    end
  else None.

Definition rep_of (f : facts) (b : backend) : repkind :=
  match b with TBB => f_rep_tbb f | OMP => f_rep_omp f | Internal => f_rep_int f | Debug => f_rep_dbg f end.
Definition g_limit (f : facts) (b : backend) (hw : Z) (w : world) : option Z :=
  match rep_of f b with
  | RActiveValue => Some (list_min hw (w_controls w))
  | ROmpMax => Some (match w_omp w with Some v => v | None => hw end)
  | RTaskThreads => if f_int_query_is_numthreads f then Some (match w_ts w with Some v => v | None => 0 end) else None
  | RConst k => Some k
  | ROther => None
  end.
Definition g_report (f : facts) (b : backend) (hw : Z) (w : world) : option Z :=
  match w_handle w with
  | None => f_nohandle f
  | Some _ => if f_withhandle_num_threads f then g_limit f b hw w else None
  end.

Fixpoint g_run_from (f : facts) (b : backend) (hw : Z) (w : world) (ns : list Z) : option world :=
  match ns with
  | [] => Some w
  | n :: r => match g_init_sys f b hw n w with Some w' => g_run_from f b hw w' r | None => None end
  end.
Definition g_run (f : facts) (b : backend) (hw : Z) (ns : list Z) : option world := g_run_from f b hw w0 ns.
