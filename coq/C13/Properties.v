(* C13 — the configured tasking thread count is reported and never exceeded: property theorems.
   hw is the backend's hardware-derived default; every theorem assumes only 0 < hw.
   That TBB (global_control) and OpenMP (omp_set_num_threads) ENFORCE their limit is their
   contract — an oracle measured by the harness; the Coq content here is the state machine of
   initTaskingSystem / numTaskingThreads and the internal backend's worker accounting. *)
From Common Require Import Prelude.
From C13 Require Import Model Proofs.
Local Open Scope Z_scope.

(* before initialisation numTaskingThreads() is 0 *)
Theorem threads_before_init : forall hw b, report b hw w0 = 0.
Proof. exact before_init. Qed.
Print Assumptions threads_before_init.

(* after initTaskingSystem(n), n > 0 — whatever happened before — it is n (1 on Debug) *)
Theorem threads_after_init : forall hw, 0 < hw -> forall b ns n, 0 < n ->
  report b hw (run b hw (ns ++ [n])) = match b with Debug => 1 | _ => n end.
Proof. intros hw _. exact (after_init hw). Qed.
Print Assumptions threads_after_init.

(* a first initialisation with n <= 0 selects the positive hardware-derived default *)
Theorem threads_default_positive : forall hw, 0 < hw -> forall b n, n <= 0 ->
  report b hw (run b hw [n]) = match b with Debug => 1 | _ => hw end /\ 0 < report b hw (run b hw [n]).
Proof. exact default_positive. Qed.
Print Assumptions threads_default_positive.

(* initialising again with another n > 0 replaces the previous setting *)
Theorem threads_reinit_replaces : forall hw, 0 < hw -> forall b ns n m, 0 < n -> 0 < m ->
  report b hw (run b hw (ns ++ [n; m])) = match b with Debug => 1 | _ => m end.
Proof. intros hw _. exact (reinit_replaces hw). Qed.
Print Assumptions threads_reinit_replaces.

(* TBB / Internal / Debug: for ANY sequence of inits the report is determined by the last one *)
Theorem threads_last_init_determines : forall hw, 0 < hw -> forall b ns n, b <> OMP ->
  report b hw (run b hw (ns ++ [n])) = report b hw (run b hw [n]).
Proof. intros hw _. exact (last_init_determines hw). Qed.
Print Assumptions threads_last_init_determines.

(* ... so n <= 0 after n > 0 goes back to the backend default *)
Theorem threads_nonpositive_back_to_default : forall hw, 0 < hw -> forall b ns n, b <> OMP -> n <= 0 ->
  report b hw (run b hw (ns ++ [n])) = match b with Debug => 1 | _ => hw end.
Proof. exact nonpositive_back_to_default. Qed.
Print Assumptions threads_nonpositive_back_to_default.

(* OpenMP: omp_set_num_threads is only called for n > 0, so the report is the LAST POSITIVE n of
   the history (the default if there is none): n <= 0 after n > 0 keeps the earlier setting *)
Theorem threads_openmp_last_positive : forall hw, 0 < hw -> forall ns, ns <> [] ->
  report OMP hw (run OMP hw ns) = match last_positive ns with Some v => v | None => hw end.
Proof. intros hw _. exact (omp_report hw). Qed.
Print Assumptions threads_openmp_last_positive.

(* after any initialisation the report is positive *)
Theorem threads_positive_after_any_init : forall hw, 0 < hw -> forall b ns, ns <> [] -> 0 < report b hw (run b hw ns).
Proof. exact report_positive. Qed.
Print Assumptions threads_positive_after_any_init.

(* TBB: g_tasking_handle = make_unique<...>(n) constructs the new handle (and its global_control)
   BEFORE the old one is released; afterwards only the new control is live ... *)
Theorem tbb_only_new_control_live : forall hw, 0 < hw -> forall ns n,
  w_controls (run TBB hw (ns ++ [n])) = if 0 <? n then [n] else [].
Proof. intros hw _. exact (tbb_controls_snoc hw). Qed.
Print Assumptions tbb_only_new_control_live.

(* ... and in between both are live, so the limit is min(old,new): never lifted during re-init *)
Theorem tbb_limit_during_reinit : forall hw, 0 < hw -> forall ns n m, 0 < n -> 0 < m ->
  w_controls (init_mid TBB hw m (run TBB hw (ns ++ [n]))) = [m; n] /\
  limit TBB hw (init_mid TBB hw m (run TBB hw (ns ++ [n]))) = Z.min m n.
Proof. intros hw _. exact (tbb_mid hw). Qed.
Print Assumptions tbb_limit_during_reinit.

(* Internal: StartThreads creates exactly n-1 workers; with the calling thread at most n threads
   execute loop bodies, and n is what is reported *)
Theorem internal_worker_count : forall hw, 0 < hw -> forall ns n, 0 < n ->
  let w := run Internal hw (ns ++ [n]) in
  w_workers w = n - 1 /\ internal_body_threads w = n /\ internal_body_threads w = report Internal hw w.
Proof. intros hw _. exact (internal_worker_count hw). Qed.
Print Assumptions internal_worker_count.

Theorem internal_default_worker_count : forall hw, 0 < hw -> forall ns n, n <= 0 ->
  w_workers (run Internal hw (ns ++ [n])) = hw - 1.
Proof. intros hw _. exact (internal_default_workers hw). Qed.
Print Assumptions internal_default_worker_count.

(* re-initialisation joins the old scheduler's workers before the new ones are started:
   live workers never exceed the largest single configuration of the history *)
Theorem internal_workers_never_accumulate : forall hw, 0 < hw -> forall ns k,
  (forall n, In n ns -> eff hw n - 1 <= k) -> 0 <= k -> w_peak (run Internal hw ns) <= k.
Proof. intros hw _. exact (internal_peak hw). Qed.
Print Assumptions internal_workers_never_accumulate.

(* the function run by the extracted driver lists the report after every prefix of the history *)
Theorem reports_is_report_of_prefixes : forall hw b ns n,
  reports b hw (ns ++ [n]) = reports b hw ns ++ [report b hw (run b hw (ns ++ [n]))].
Proof. exact reports_snoc. Qed.
Print Assumptions reports_is_report_of_prefixes.

(* ---- uses of the tasking system (parallel_for, schedule, async) before and between initialisations ----
   "scheduler lazily started" (internal backend) is separate state from "handle present"; numTaskingThreads() is decided by
   the handle.  In EVERY state reachable without an initTaskingSystem, whatever uses happened, it reports 0 ... *)
Theorem threads_zero_without_init_whatever_uses : forall hw b ops, inits_of ops = [] -> report b hw (run_ops b hw ops) = 0.
Proof. intros hw b ops. apply zero_without_init. Qed.
Print Assumptions threads_zero_without_init_whatever_uses.
(* ... and in general uses never change what is reported: a history with uses reports what the history of its inits reports
   (so every theorem above holds with uses interleaved anywhere) *)
Theorem threads_uses_are_transparent : forall hw b ops,
  report b hw (run_ops b hw ops) = report b hw (run b hw (inits_of ops)).
Proof. intros hw b ops. apply report_ops_is_report_of_inits. Qed.
Print Assumptions threads_uses_are_transparent.
Theorem reports_ops_is_report_of_prefixes : forall hw b ops o,
  reports_ops b hw (ops ++ [o]) = reports_ops b hw ops ++ [report b hw (run_ops b hw (ops ++ [o]))].
Proof. intros hw b ops o. apply reports_ops_from_snoc. Qed.
Print Assumptions reports_ops_is_report_of_prefixes.
Example ex_lazy_internal : reports_ops Internal 16 [OUse; OUse; OInit 3; OUse; OInit 0] = [0; 0; 0; 3; 3; 16]
                        /\ w_ts (run_ops Internal 16 [OUse]) = Some 16 /\ w_handle (run_ops Internal 16 [OUse]) = None.
Proof. repeat split. Qed.

(* ---- OpenMP: the limit is per-thread state (nthreads-var ICV) ----
   a loop issued by the INITIALISING thread forks a team of the last positive n (= what numTaskingThreads() reports) ... *)
Theorem omp_bound_initialising_thread : forall hw t ns n, 0 < n ->
  omp_loop_team hw (omp_inits t (ns ++ [n])) t = n /\ omp_loop_team hw (omp_inits t (ns ++ [n])) t = report OMP hw (run OMP hw (ns ++ [n])).
Proof. exact omp_bound_init. Qed.
Print Assumptions omp_bound_initialising_thread.
(* ... but a loop issued by ANY OTHER thread is not limited at all: its team has the hardware default size
   (open finding C13-omp-limit-applies-to-initialising-thread-only) *)
Theorem omp_other_thread_unlimited_refuted :
  exists hw t u n, u <> t /\ 0 < n /\ n < omp_loop_team hw (omp_inits t [n]) u /\ report OMP hw (run OMP hw [n]) = n.
Proof. exact omp_other_unlimited. Qed.
Print Assumptions omp_other_thread_unlimited_refuted.
Theorem omp_other_thread_team_is_hardware_default : forall hw t u ns, u <> t -> omp_loop_team hw (omp_inits t ns) u = hw.
Proof. exact omp_other_thread. Qed.
Print Assumptions omp_other_thread_team_is_hardware_default.

(* non-vacuity *)
Example ex_tbb : reports TBB 16 [4; 2; 0; 3] = [0; 4; 2; 16; 3].
Proof. reflexivity. Qed.
Example ex_omp_sticky : reports OMP 16 [-1; 4; 0; 2] = [0; 16; 4; 4; 2].
Proof. reflexivity. Qed.
Example ex_internal : reports Internal 16 [0; 3; -1] = [0; 16; 3; 16] /\ w_workers (run Internal 16 [0; 3]) = 2.
Proof. split; reflexivity. Qed.
Example ex_debug : reports Debug 16 [5; 0] = [0; 1; 1].
Proof. reflexivity. Qed.
