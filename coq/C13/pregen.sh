#!/bin/bash
# regenerate gen/Facts.v (tasking handle / scheduler facts from the clang AST; used by bin/setup); props/C13/check.py does the same on every run.
cd "$(dirname "$0")"
mkdir -p gen ../../build/C13/ast
inc=$(python3 ../../lib/mkversion.py 2>/dev/null | tail -1)
exec python3 ../../tools/c13facts/gen_facts.py "${VERIF_REPO:-/repo}" "$inc" gen/Facts.v ../../build/C13/ast >/dev/null 2>&1
