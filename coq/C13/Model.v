(* C13 — initTaskingSystem / numTaskingThreads (rkcommon/tasking/detail/tasking_system_init.cpp,
   TaskSys.cpp) as a state machine over "option handle" plus, per backend, the piece of library
   state that decides the thread limit.  Definitions only.
     TBB      multiset of live tbb::global_control(max_allowed_parallelism, v) objects;
              active_value = minimum of the live ones, or the hardware default
     OpenMP   the value of the last omp_set_num_threads, or the hardware default
     Internal the enkiTS scheduler g_ts: m_NumThreads, and its live worker threads
     Debug    nothing (always 1)
   hw (> 0 in the theorems) is the backend's hardware-derived default. *)
From Common Require Import Prelude.
Local Open Scope Z_scope.

Inductive backend := TBB | OMP | Internal | Debug.

(* tasking_system_handle: numThreads and (TBB only) the unique_ptr<global_control> it owns *)
Record handle := mkh { h_n : Z; h_ctl : option Z }.

Record world := mkw {
  w_handle : option handle;   (* g_tasking_handle *)
  w_controls : list Z;        (* TBB: live global_control values *)
  w_omp : option Z;           (* OpenMP: last omp_set_num_threads *)
  w_ts : option Z;            (* Internal: g_ts->m_NumThreads *)
  w_workers : Z;              (* Internal: live worker threads of g_ts *)
  w_peak : Z                  (* Internal: largest number of live workers so far *)
}.
Definition w0 : world := mkw None [] None None 0 0.

Fixpoint remove_one (x : Z) (l : list Z) : list Z :=
  match l with [] => [] | y :: r => if x =? y then r else y :: remove_one x r end.
Definition list_min (d : Z) (l : list Z) : Z :=
  match l with [] => d | x :: r => fold_left Z.min r x end.

(* tasking_system_handle::tasking_system_handle(int numThreads)   (lines 55-67) *)
Definition construct (b : backend) (hw n : Z) (w : world) : handle * world :=
  match b with
  | TBB => if 0 <? n
           then (mkh n (Some n), mkw (w_handle w) (n :: w_controls w) (w_omp w) (w_ts w) (w_workers w) (w_peak w))
           else (mkh n None, w)
  | OMP => (mkh n None,
            if 0 <? n then mkw (w_handle w) (w_controls w) (Some n) (w_ts w) (w_workers w) (w_peak w) else w)
  | Internal =>
      (* initTaskSystemInternal(numThreads <= 0 ? -1 : numThreads):
         g_ts = new TaskScheduler  — the previous scheduler is destroyed: its workers are stopped and joined;
         nThreads < 1 -> GetNumHardwareThreads(); Initialize(nThreads): StartThreads creates nThreads-1 workers *)
      let arg := if n <=? 0 then -1 else n in
      let nthreads := if arg <? 1 then hw else arg in
      (mkh n None, mkw (w_handle w) (w_controls w) (w_omp w) (Some nthreads) (nthreads - 1) (Z.max (w_peak w) (nthreads - 1)))
  | Debug => (mkh n None, w)
  end.

(* ~tasking_system_handle: releases the global_control it owns *)
Definition destroy (h : handle) (w : world) : world :=
  match h_ctl h with
  | Some v => mkw (w_handle w) (remove_one v (w_controls w)) (w_omp w) (w_ts w) (w_workers w) (w_peak w)
  | None => w
  end.

(* g_tasking_handle = make_unique<tasking_system_handle>(numThreads):
   the right-hand side — the NEW handle — is constructed first, then the old handle is released *)
Definition init_sys (b : backend) (hw n : Z) (w : world) : world :=
  let (h, w1) := construct b hw n w in
  let w2 := match w_handle w with Some old => destroy old w1 | None => w1 end in
  mkw (Some h) (w_controls w2) (w_omp w2) (w_ts w2) (w_workers w2) (w_peak w2).
(* the state between the two steps (both controls live) *)
Definition init_mid (b : backend) (hw n : Z) (w : world) : world := snd (construct b hw n w).

(* numTaskingThreads()   (lines 101-107, 69-81) *)
Definition limit (b : backend) (hw : Z) (w : world) : Z :=
  match b with
  | TBB => list_min hw (w_controls w)
  | OMP => match w_omp w with Some v => v | None => hw end
  | Internal => match w_ts w with Some v => v | None => 0 end
  | Debug => 1
  end.
Definition report (b : backend) (hw : Z) (w : world) : Z :=
  match w_handle w with None => 0 | Some _ => limit b hw w end.

Definition run (b : backend) (hw : Z) (ns : list Z) : world := fold_left (fun w n => init_sys b hw n w) ns w0.
(* what numTaskingThreads() returns before any init and after each init of the sequence *)
Fixpoint reports_from (b : backend) (hw : Z) (w : world) (ns : list Z) : list Z :=
  report b hw w :: match ns with [] => [] | n :: r => reports_from b hw (init_sys b hw n w) r end.
Definition reports (b : backend) (hw : Z) (ns : list Z) : list Z := reports_from b hw w0 ns.

(* ---- uses of the tasking system (parallel_for / schedule / async) before and between initialisations.
   Only the internal backend keeps state of its own: scheduleTaskInternal() starts the scheduler LAZILY
   (if (g_ts == nullptr) initTaskSystemInternal(-1)) — "scheduler started" (w_ts) is therefore a different piece of
   state from "handle present" (w_handle), and numTaskingThreads() looks at the handle first. *)
Inductive op := OInit (n : Z) | OUse.
Definition use_sys (b : backend) (hw : Z) (w : world) : world :=
  match b with
  | Internal => match w_ts w with
                | None => mkw (w_handle w) (w_controls w) (w_omp w) (Some hw) (hw - 1) (Z.max (w_peak w) (hw - 1))
                | Some _ => w
                end
  | _ => w
  end.
Definition step_op (b : backend) (hw : Z) (w : world) (o : op) : world :=
  match o with OInit n => init_sys b hw n w | OUse => use_sys b hw w end.
Definition run_ops (b : backend) (hw : Z) (ops : list op) : world := fold_left (step_op b hw) ops w0.
Fixpoint reports_ops_from (b : backend) (hw : Z) (w : world) (ops : list op) : list Z :=
  report b hw w :: match ops with [] => [] | o :: r => reports_ops_from b hw (step_op b hw w o) r end.
Definition reports_ops (b : backend) (hw : Z) (ops : list op) : list Z := reports_ops_from b hw w0 ops.
Definition inits_of (ops : list op) : list Z := flat_map (fun o => match o with OInit n => [n] | OUse => [] end) ops.

(* ---- OpenMP: the limit is PER-THREAD state.  omp_set_num_threads(n) sets the nthreads-var ICV of the CALLING thread
   only; a parallel region forks a team of the size of the ENCOUNTERING thread's ICV (default: hw).  [w_omp] above is the
   ICV of the thread that calls initTaskingSystem / numTaskingThreads; the map makes the other threads explicit. *)
Definition icv_map := list (N * Z).                     (* thread id -> value set on that thread, most recent first *)
Fixpoint icv_get (hw : Z) (m : icv_map) (t : N) : Z :=
  match m with [] => hw | (u, v) :: r => if N.eqb u t then v else icv_get hw r t end.
(* initTaskingSystem(n) called by thread t (OpenMP branch of the handle constructor) *)
Definition omp_init (m : icv_map) (t : N) (n : Z) : icv_map := if 0 <? n then (t, n) :: m else m.
Definition omp_inits (t : N) (ns : list Z) : icv_map := fold_left (fun m n => omp_init m t n) ns [].
(* size of the team a parallel_for issued by thread t forks = number of threads that can be inside its body at once *)
Definition omp_loop_team (hw : Z) (m : icv_map) (t : N) : Z := icv_get hw m t.

(* threads that may execute parallel_for bodies on the internal backend: the workers and the caller *)
Definition internal_body_threads (w : world) : Z := w_workers w + 1.

(* last positive element of a list *)
Definition last_positive (ns : list Z) : option Z :=
  fold_left (fun acc n => if 0 <? n then Some n else acc) ns None.
