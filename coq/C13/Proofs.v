(* C13 — proofs about the state machine of Model.v *)
From Common Require Import Prelude.
From C13 Require Import Model.
Local Open Scope Z_scope.

Lemma run_snoc b hw ns n : run b hw (ns ++ [n]) = init_sys b hw n (run b hw ns).
Proof. unfold run. rewrite fold_left_app. reflexivity. Qed.

Lemma last_positive_snoc ns n : last_positive (ns ++ [n]) = if 0 <? n then Some n else last_positive ns.
Proof. unfold last_positive. rewrite fold_left_app. reflexivity. Qed.

Lemma last_positive_pos ns v : last_positive ns = Some v -> 0 < v.
Proof.
  induction ns as [|n ns IH] using rev_ind; [discriminate|].
  rewrite last_positive_snoc. destruct (0 <? n) eqn:E; [|exact IH]. intro H. inversion H. subst. lia.
Qed.

Definition opt_list (o : option Z) : list Z := match o with Some v => [v] | None => [] end.

Lemma destroy_keeps h w : w_omp (destroy h w) = w_omp w /\ w_ts (destroy h w) = w_ts w /\
  w_workers (destroy h w) = w_workers w /\ w_peak (destroy h w) = w_peak w.
Proof. unfold destroy. destruct (h_ctl h); simpl; repeat split. Qed.

(* ---- uses never change what is reported: a history with uses is observationally the history of its inits *)
Definition sim (b : backend) (w w' : world) : Prop :=
  w_handle w = w_handle w' /\ w_controls w = w_controls w' /\ w_omp w = w_omp w' /\
  (b = Internal -> w_handle w <> None -> w_ts w = w_ts w').
Definition good (w : world) : Prop := w_handle w <> None -> w_ts w <> None.   (* internal: a handle implies a scheduler *)

Lemma run_ops_snoc b hw ops o : run_ops b hw (ops ++ [o]) = step_op b hw (run_ops b hw ops) o.
Proof. unfold run_ops. rewrite fold_left_app. reflexivity. Qed.
Lemma inits_of_snoc ops o : inits_of (ops ++ [o]) = inits_of ops ++ match o with OInit n => [n] | OUse => [] end.
Proof. unfold inits_of. rewrite flat_map_app. simpl. rewrite app_nil_r. reflexivity. Qed.

Lemma report_sim b hw w w' : sim b w w' -> report b hw w = report b hw w'.
Proof.
  intros [H [C [O T]]]. unfold report, limit. rewrite <- H. destruct (w_handle w) eqn:E; [|reflexivity].
  rewrite C, O. destruct b; try reflexivity. rewrite T by (reflexivity || discriminate). reflexivity.
Qed.

Lemma destroy_fields h w :
  w_controls (destroy h w) = match h_ctl h with Some v => remove_one v (w_controls w) | None => w_controls w end /\
  w_omp (destroy h w) = w_omp w /\ w_ts (destroy h w) = w_ts w.
Proof. unfold destroy. destruct (h_ctl h); repeat split; reflexivity. Qed.

Lemma init_fields b hw n w :
  let w1 := snd (construct b hw n w) in
  w_handle (init_sys b hw n w) = Some (fst (construct b hw n w)) /\
  w_controls (init_sys b hw n w) =
    match w_handle w with
    | Some old => match h_ctl old with Some v => remove_one v (w_controls w1) | None => w_controls w1 end
    | None => w_controls w1
    end /\
  w_omp (init_sys b hw n w) = w_omp w1 /\ w_ts (init_sys b hw n w) = w_ts w1.
Proof.
  unfold init_sys. destruct (construct b hw n w) as [h w1]. simpl.
  destruct (w_handle w) as [old|]; simpl; [|repeat split; reflexivity].
  destruct (destroy_fields old w1) as [D1 [D2 D3]]. rewrite D1, D2, D3. repeat split; reflexivity.
Qed.

Lemma construct_sim b hw n w w' : sim b w w' ->
  fst (construct b hw n w) = fst (construct b hw n w') /\
  w_controls (snd (construct b hw n w)) = w_controls (snd (construct b hw n w')) /\
  w_omp (snd (construct b hw n w)) = w_omp (snd (construct b hw n w')) /\
  (b = Internal -> w_ts (snd (construct b hw n w)) = w_ts (snd (construct b hw n w'))).
Proof.
  intros [H [C [O T]]]. destruct b; simpl.
  - destruct (0 <? n); simpl; rewrite ?C, ?O; repeat split; try reflexivity; intro; discriminate.
  - destruct (0 <? n); simpl; rewrite ?C, ?O; repeat split; try reflexivity; intro; discriminate.
  - rewrite ?C, ?O. repeat split; reflexivity.
  - rewrite ?C, ?O. repeat split; try reflexivity; intro; discriminate.
Qed.

Lemma init_sim b hw n w w' : sim b w w' -> sim b (init_sys b hw n w) (init_sys b hw n w').
Proof.
  intro S. destruct (construct_sim b hw n w w' S) as [K1 [K2 [K3 K4]]].
  destruct S as [H [C [O T]]].
  destruct (init_fields b hw n w) as [A1 [A2 [A3 A4]]]. destruct (init_fields b hw n w') as [B1 [B2 [B3 B4]]].
  unfold sim. rewrite A1, A2, A3, A4, B1, B2, B3, B4, <- H, K1, K2, K3. repeat split; try reflexivity.
  intros E _. apply K4. exact E.
Qed.

Lemma init_good hw n w : good (init_sys Internal hw n w).
Proof.
  unfold good. destruct (init_fields Internal hw n w) as [_ [_ [_ A4]]]. rewrite A4. simpl. intros _. discriminate.
Qed.

Lemma use_sim b hw w : (b = Internal -> good w) -> sim b (use_sys b hw w) w.
Proof.
  intro G. unfold use_sys, sim. destruct b; try (repeat split; reflexivity).
  destruct (w_ts w) eqn:E; [repeat split; try reflexivity; intros; first [exact E | symmetry; exact E]|]. simpl. repeat split; try reflexivity.
  intros _ H. exfalso. apply (G eq_refl H). exact E.
Qed.
Lemma use_good b hw w : good w -> good (use_sys b hw w).
Proof.
  unfold good, use_sys. intro G. destruct b; try exact G. destruct (w_ts w) eqn:E.
  - intros _. rewrite E. discriminate.
  - simpl. intros _. discriminate.
Qed.
Lemma sim_trans k a b c : sim k a b -> sim k b c -> sim k a c.
Proof.
  intros [H1 [C1 [O1 T1]]] [H2 [C2 [O2 T2]]]. unfold sim. repeat split; try congruence.
  intros K H. rewrite T1 by assumption. apply T2; [exact K|]. rewrite <- H1. exact H.
Qed.
Lemma sim_refl k a : sim k a a.
Proof. unfold sim. repeat split; reflexivity. Qed.

Lemma uses_transparent b hw ops :
  sim b (run_ops b hw ops) (run b hw (inits_of ops)) /\ (b = Internal -> good (run_ops b hw ops)).
Proof.
  induction ops as [|o ops IH] using rev_ind.
  - split; [apply sim_refl|]. intros _ H. exfalso. apply H. reflexivity.
  - destruct IH as [S G]. rewrite run_ops_snoc, inits_of_snoc. destruct o as [n|]; simpl.
    + rewrite run_snoc. split; [apply init_sim; exact S | intros ->; apply init_good].
    + rewrite app_nil_r. split.
      * eapply sim_trans; [apply use_sim; exact G | exact S].
      * intro E. apply use_good. apply G. exact E.
Qed.

Lemma report_ops_is_report_of_inits b hw ops : report b hw (run_ops b hw ops) = report b hw (run b hw (inits_of ops)).
Proof. apply report_sim. apply uses_transparent. Qed.

Lemma zero_without_init b hw ops : inits_of ops = [] -> report b hw (run_ops b hw ops) = 0.
Proof. intro E. rewrite report_ops_is_report_of_inits, E. reflexivity. Qed.

Lemma reports_ops_from_snoc b hw : forall ops w o,
  reports_ops_from b hw w (ops ++ [o]) =
  reports_ops_from b hw w ops ++ [report b hw (fold_left (step_op b hw) (ops ++ [o]) w)].
Proof.
  induction ops as [|a r IH]; intros w o.
  - reflexivity.
  - cbn [app reports_ops_from fold_left]. rewrite IH. destruct r; reflexivity.
Qed.

(* ---- OpenMP per-thread ICV *)
Lemma omp_inits_snoc t ns n : omp_inits t (ns ++ [n]) = omp_init (omp_inits t ns) t n.
Proof. unfold omp_inits. rewrite fold_left_app. reflexivity. Qed.
Lemma omp_own_thread hw t ns :
  omp_loop_team hw (omp_inits t ns) t = match last_positive ns with Some v => v | None => hw end.
Proof.
  induction ns as [|n ns IH] using rev_ind; [reflexivity|].
  rewrite omp_inits_snoc, last_positive_snoc. unfold omp_init, omp_loop_team in *.
  destruct (0 <? n); [simpl; rewrite N.eqb_refl; reflexivity | exact IH].
Qed.
Lemma omp_other_thread hw t u ns : u <> t -> omp_loop_team hw (omp_inits t ns) u = hw.
Proof.
  intro H. induction ns as [|n ns IH] using rev_ind; [reflexivity|].
  rewrite omp_inits_snoc. unfold omp_init, omp_loop_team in *. destruct (0 <? n); [|exact IH].
  simpl. replace (t =? u)%N with false by (symmetry; apply N.eqb_neq; congruence). exact IH.
Qed.

Section HW.
  Variable hw : Z.
  Hypothesis hw_pos : 0 < hw.

  (* ------------------------------------------------------------------ TBB *)
  Definition tbb_inv (w : world) : Prop :=
    match w_handle w with
    | None => w_controls w = []
    | Some h => w_controls w = opt_list (h_ctl h)
    end.

  Lemma tbb_inv_run ns : tbb_inv (run TBB hw ns).
  Proof.
    induction ns as [|n ns IH] using rev_ind; [reflexivity|].
    rewrite run_snoc. unfold tbb_inv in *. unfold init_sys. simpl.
    destruct (0 <? n) eqn:E; simpl.
    - destruct (w_handle (run TBB hw ns)) as [old|]; simpl.
      + unfold destroy. simpl. destruct (h_ctl old) as [v|]; simpl; simpl in IH; rewrite IH; simpl.
        * destruct (v =? n) eqn:V; [apply Z.eqb_eq in V; subst; reflexivity|]. rewrite Z.eqb_refl. reflexivity.
        * reflexivity.
      + rewrite IH. reflexivity.
    - destruct (w_handle (run TBB hw ns)) as [old|]; simpl.
      + unfold destroy. destruct (h_ctl old) as [v|]; simpl; simpl in IH; rewrite IH; simpl.
        * rewrite Z.eqb_refl. reflexivity.
        * reflexivity.
      + exact IH.
  Qed.

  Lemma tbb_handle_snoc ns n :
    w_handle (run TBB hw (ns ++ [n])) = Some (mkh n (if 0 <? n then Some n else None)).
  Proof. rewrite run_snoc. unfold init_sys. simpl. destruct (0 <? n); reflexivity. Qed.

  (* after the assignment only the new control is live *)
  Lemma tbb_controls_snoc ns n : w_controls (run TBB hw (ns ++ [n])) = if 0 <? n then [n] else [].
  Proof.
    pose proof (tbb_inv_run (ns ++ [n])) as I. unfold tbb_inv in I. rewrite tbb_handle_snoc in I.
    rewrite I. simpl. destruct (0 <? n); reflexivity.
  Qed.

  (* between construction of the new handle and release of the old one both controls are live:
     the limit is never lifted in between *)
  Lemma tbb_mid ns n m : 0 < n -> 0 < m ->
    w_controls (init_mid TBB hw m (run TBB hw (ns ++ [n]))) = [m; n] /\
    limit TBB hw (init_mid TBB hw m (run TBB hw (ns ++ [n]))) = Z.min m n.
  Proof.
    intros Hn Hm. unfold init_mid, limit. simpl.
    assert (E : (0 <? m) = true) by (apply Z.ltb_lt; lia). rewrite E. simpl.
    rewrite tbb_controls_snoc. assert (E2 : (0 <? n) = true) by (apply Z.ltb_lt; lia). rewrite E2.
    split; reflexivity.
  Qed.

  (* ------------------------------------------------------------- OpenMP *)
  Lemma omp_run ns : w_omp (run OMP hw ns) = last_positive ns /\ (ns <> [] -> w_handle (run OMP hw ns) <> None).
  Proof.
    induction ns as [|n ns IH] using rev_ind; [split; [reflexivity|congruence]|].
    destruct IH as [IH _]. rewrite run_snoc, last_positive_snoc. unfold init_sys. simpl.
    split.
    - destruct (0 <? n); destruct (w_handle (run OMP hw ns)) as [old|]; simpl; try reflexivity; try exact IH;
        match goal with |- w_omp (destroy ?h ?w) = _ => destruct (destroy_keeps h w) as [K _]; rewrite K end;
        simpl; try reflexivity; exact IH.
    - intros _. discriminate.
  Qed.

  (* ------------------------------------------------------------ Internal *)
  Definition eff (n : Z) : Z := if n <=? 0 then hw else n.
  Lemma internal_snoc ns n :
    let w := run Internal hw (ns ++ [n]) in
    w_ts w = Some (eff n) /\ w_workers w = eff n - 1 /\ w_handle w <> None.
  Proof.
    rewrite run_snoc. unfold init_sys, eff. simpl.
    assert (A : (if (if n <=? 0 then -1 else n) <? 1 then hw else (if n <=? 0 then -1 else n)) = (if n <=? 0 then hw else n)).
    { destruct (n <=? 0) eqn:E; [reflexivity|]. apply Z.leb_gt in E.
      destruct (n <? 1) eqn:E2; [apply Z.ltb_lt in E2; lia | reflexivity]. }
    destruct (w_handle (run Internal hw ns)) as [old|]; simpl;
      try match goal with |- context [destroy ?h ?w] => destruct (destroy_keeps h w) as [_ [K1 [K2 _]]]; rewrite K1, K2 end;
      simpl; rewrite A; repeat split; discriminate.
  Qed.

  (* -------------------------------------------------------------- theorems *)
  Lemma before_init b : report b hw w0 = 0.
  Proof. reflexivity. Qed.

  Lemma handle_snoc b ns n : w_handle (run b hw (ns ++ [n])) <> None.
  Proof.
    rewrite run_snoc. unfold init_sys. destruct (construct b hw n (run b hw ns)). simpl. discriminate.
  Qed.

  Lemma report_snoc b ns n : report b hw (run b hw (ns ++ [n])) = limit b hw (run b hw (ns ++ [n])).
  Proof. unfold report. pose proof (handle_snoc b ns n). destruct (w_handle (run b hw (ns ++ [n]))); congruence. Qed.

  Lemma after_init b ns n : 0 < n ->
    report b hw (run b hw (ns ++ [n])) = match b with Debug => 1 | _ => n end.
  Proof.
    intro Hn. rewrite report_snoc. assert (E : (0 <? n) = true) by (apply Z.ltb_lt; lia).
    destruct b; unfold limit.
    - rewrite tbb_controls_snoc, E. reflexivity.
    - destruct (omp_run (ns ++ [n])) as [O _]. rewrite O, last_positive_snoc, E. reflexivity.
    - destruct (internal_snoc ns n) as [T _]. rewrite T. unfold eff.
      assert (E2 : (n <=? 0) = false) by (apply Z.leb_gt; lia). rewrite E2. reflexivity.
    - reflexivity.
  Qed.

  Lemma default_positive b n : n <= 0 ->
    report b hw (run b hw [n]) = match b with Debug => 1 | _ => hw end /\ 0 < report b hw (run b hw [n]).
  Proof.
    intro Hn. assert (E : (0 <? n) = false) by (apply Z.ltb_ge; lia).
    assert (E2 : (n <=? 0) = true) by (apply Z.leb_le; lia).
    destruct b; unfold run, init_sys, report, limit; simpl; rewrite ?E, ?E2; simpl; split; try reflexivity; lia.
  Qed.

  Lemma reinit_replaces b ns n m : 0 < n -> 0 < m ->
    report b hw (run b hw (ns ++ [n; m])) = match b with Debug => 1 | _ => m end.
  Proof.
    intros _ Hm. replace (ns ++ [n; m]) with ((ns ++ [n]) ++ [m]) by (rewrite <- app_assoc; reflexivity).
    apply after_init. exact Hm.
  Qed.

  (* TBB, Internal, Debug: the report depends on the last init only *)
  Lemma last_init_determines b ns n : b <> OMP ->
    report b hw (run b hw (ns ++ [n])) = report b hw (run b hw [n]).
  Proof.
    intro Hb. change [n] with ([] ++ [n]) at 2. rewrite !report_snoc.
    destruct b; try congruence; unfold limit.
    - rewrite !tbb_controls_snoc. reflexivity.
    - destruct (internal_snoc ns n) as [T _]. destruct (internal_snoc [] n) as [T2 _]. rewrite T, T2. reflexivity.
    - reflexivity.
  Qed.
  (* in particular n <= 0 after n > 0 goes back to the hardware default *)
  Lemma nonpositive_back_to_default b ns n : b <> OMP -> n <= 0 ->
    report b hw (run b hw (ns ++ [n])) = match b with Debug => 1 | _ => hw end.
  Proof.
    intros Hb Hn. rewrite last_init_determines by exact Hb. apply default_positive. exact Hn.
  Qed.
  (* OpenMP: omp_set_num_threads is only called for n > 0, so the setting is sticky:
     the report is the LAST POSITIVE n of the history, or the default if there is none *)
  Lemma omp_report ns : ns <> [] ->
    report OMP hw (run OMP hw ns) = match last_positive ns with Some v => v | None => hw end.
  Proof.
    intro H. destruct (omp_run ns) as [O Hh]. specialize (Hh H). unfold report, limit.
    destruct (w_handle (run OMP hw ns)); [|congruence]. rewrite O. reflexivity.
  Qed.

  (* after any init the report is positive *)
  Lemma report_positive b ns : ns <> [] -> 0 < report b hw (run b hw ns).
  Proof.
    intro H. destruct (exists_last H) as [p [n E]]. subst ns.
    destruct (Z_lt_le_dec 0 n) as [Hn|Hn].
    - rewrite after_init by exact Hn. destruct b; lia.
    - destruct b.
      + rewrite nonpositive_back_to_default by (congruence || lia). exact hw_pos.
      + rewrite omp_report by (destruct p; discriminate).
        destruct (last_positive (p ++ [n])) eqn:L; [eapply last_positive_pos; eauto | exact hw_pos].
      + rewrite nonpositive_back_to_default by (congruence || lia). exact hw_pos.
      + rewrite nonpositive_back_to_default by (congruence || lia). lia.
  Qed.

  (* internal backend: exactly n-1 workers, so workers + caller = n threads can execute bodies,
     and that is the number reported *)
  Lemma internal_worker_count ns n : 0 < n ->
    let w := run Internal hw (ns ++ [n]) in
    w_workers w = n - 1 /\ internal_body_threads w = n /\ internal_body_threads w = report Internal hw w.
  Proof.
    intro Hn. destruct (internal_snoc ns n) as [T [W _]]. simpl.
    assert (E : eff n = n) by (unfold eff; assert ((n <=? 0) = false) by (apply Z.leb_gt; lia); rewrite H; reflexivity).
    rewrite E in *. unfold internal_body_threads. rewrite W. repeat split; try lia.
    rewrite after_init by exact Hn. lia.
  Qed.
  Lemma internal_default_workers ns n : n <= 0 ->
    w_workers (run Internal hw (ns ++ [n])) = hw - 1.
  Proof.
    intro Hn. destruct (internal_snoc ns n) as [_ [W _]]. rewrite W. unfold eff.
    assert (E : (n <=? 0) = true) by (apply Z.leb_le; lia). rewrite E. reflexivity.
  Qed.
  (* the old scheduler's workers are joined before the new ones start: the number of live workers
     never exceeds the largest single configuration of the history *)
  Lemma internal_peak ns : forall k, (forall n, In n ns -> eff n - 1 <= k) -> 0 <= k -> w_peak (run Internal hw ns) <= k.
  Proof.
    induction ns as [|n ns IH] using rev_ind; intros k H K; [simpl; lia|].
    rewrite run_snoc. unfold init_sys. simpl.
    assert (A : (if (if n <=? 0 then -1 else n) <? 1 then hw else (if n <=? 0 then -1 else n)) = eff n).
    { unfold eff. destruct (n <=? 0) eqn:E; [reflexivity|]. apply Z.leb_gt in E.
      destruct (n <? 1) eqn:E2; [apply Z.ltb_lt in E2; lia | reflexivity]. }
    assert (P : w_peak (run Internal hw ns) <= k) by (apply IH; [intros m Hm; apply H; apply in_or_app; left; exact Hm | exact K]).
    assert (Q : eff n - 1 <= k) by (apply H; apply in_or_app; right; left; reflexivity).
    destruct (w_handle (run Internal hw ns)) as [old|]; simpl;
      try match goal with |- context [destroy ?h ?w] => destruct (destroy_keeps h w) as [_ [_ [_ K3]]]; rewrite K3 end;
      simpl; rewrite A; lia.
  Qed.

  (* the extracted [reports] lists the report before any init and after every prefix *)
  Lemma reports_from_snoc b : forall ns w n,
    reports_from b hw w (ns ++ [n]) =
    reports_from b hw w ns ++ [report b hw (fold_left (fun w n => init_sys b hw n w) (ns ++ [n]) w)].
  Proof.
    induction ns as [|a r IH]; intros w n.
    - reflexivity.
    - cbn [app reports_from fold_left]. rewrite IH. destruct r; reflexivity.
  Qed.
  Lemma reports_snoc b ns n : reports b hw (ns ++ [n]) = reports b hw ns ++ [report b hw (run b hw (ns ++ [n]))].
  Proof. apply reports_from_snoc. Qed.
End HW.

(* ---- OpenMP: bound for the initialising thread, witness for any other thread *)
Lemma omp_bound_init hw t ns n : 0 < n ->
  omp_loop_team hw (omp_inits t (ns ++ [n])) t = n /\
  omp_loop_team hw (omp_inits t (ns ++ [n])) t = report OMP hw (run OMP hw (ns ++ [n])).
Proof.
  intro Hn. rewrite omp_own_thread, last_positive_snoc.
  assert (E : (0 <? n) = true) by (apply Z.ltb_lt; lia). rewrite E. split; [reflexivity|].
  symmetry. apply (after_init hw OMP ns n Hn).
Qed.
Lemma omp_other_unlimited :
  exists hw t u n, u <> t /\ 0 < n /\ n < omp_loop_team hw (omp_inits t [n]) u /\ report OMP hw (run OMP hw [n]) = n.
Proof. exists 16, 0%N, 1%N, 2. repeat split; try discriminate; try reflexivity. Qed.
