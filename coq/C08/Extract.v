From Coq Require Import Extraction ExtrOcamlBasic ZArith List.
From C08 Require Import Model.
From C08.gen Require Import Facts.
Extraction "Model.ml" init step exec_op model_table gen_table gen_rc use_count is_alive handle_ptr handle_eq handle_ne
  failing_meths check rc_ok meth_ok s_heap err log legal all_meths exec_op_s gen_sel gen_members gen_cmp.
