(* C08 - proofs.  One invariant ([GInv]) over the heap, the shared array and a list of
   threads; one preservation lemma per kind of step ([micro_step], [start_step], explicit
   refInc/refDec, Create).  The sequential machine is the instance with a single thread that
   runs each member to completion. *)
From Common Require Import Prelude.
From C08 Require Import Model.
Local Open Scope Z_scope.

(* ------------------------------------------------------------------ lists *)
Lemma length_upd {A} (l : list A) n x : length (upd l n x) = length l.
Proof. revert n; induction l as [|a l IH]; intros [|n]; simpl; auto. Qed.

Lemma nth_upd_same {A} (l : list A) n x d : (n < length l)%nat -> nth n (upd l n x) d = x.
Proof. revert n; induction l as [|a l IH]; intros [|n] H; simpl in *; try lia; auto. apply IH; lia. Qed.

Lemma nth_upd_other {A} (l : list A) n m x d : n <> m -> nth m (upd l n x) d = nth m l d.
Proof. revert n m; induction l as [|a l IH]; intros [|n] [|m] H; simpl; auto; try congruence. Qed.

Lemma upd_oob {A} (l : list A) n x : (length l <= n)%nat -> upd l n x = l.
Proof. revert n; induction l as [|a l IH]; intros [|n] H; simpl in *; auto; try lia. f_equal. apply IH. lia. Qed.

Lemma nth_error_split_upd {A} (l : list A) t x :
  nth_error l t = Some x -> exists l1 l2, l = l1 ++ x :: l2 /\ forall y, upd l t y = l1 ++ y :: l2.
Proof.
  revert t; induction l as [|a l IH]; intros [|t] H; simpl in *; try discriminate.
  - inversion H; subst. exists [], l. split; auto.
  - destruct (IH _ H) as (l1 & l2 & E & U). exists (a :: l1), l2. split.
    + simpl. now rewrite <- E.
    + intro y. simpl. now rewrite U.
Qed.

(* ------------------------------------------------------------------ counting handles *)
Lemma ind_range p o : 0 <= ind p o <= 1.
Proof. destruct p as [x|]; simpl; [destruct (Nat.eqb x o)|]; lia. Qed.

Lemma nh_nonneg hs o : 0 <= nh hs o.
Proof. induction hs as [|s hs IH]; simpl; [lia|]. pose proof (ind_range (slot_tgt s) o). lia. Qed.

Lemma nhz_nonneg fz o : 0 <= nhz fz o.
Proof. induction fz as [|s fz IH]; simpl; [lia|]. pose proof (ind_range s o). lia. Qed.

Lemma nh_upd hs h s o : (h < length hs)%nat ->
  nh (upd hs h s) o = nh hs o - ind (slot_tgt (hget hs h)) o + ind (slot_tgt s) o.
Proof.
  unfold hget. revert h; induction hs as [|a hs IH]; intros [|h] H; simpl in *; try lia.
  rewrite IH by lia. lia.
Qed.

Lemma nh_ge_ind hs h o : ind (slot_tgt (hget hs h)) o <= nh hs o.
Proof.
  unfold hget. revert h; induction hs as [|a hs IH]; intros [|h]; simpl; try lia.
  - pose proof (nh_nonneg hs o). lia.
  - specialize (IH h). pose proof (ind_range (slot_tgt a) o). lia.
Qed.

Lemma nhz_ge_ind fz g o : ind (nth g fz None) o <= nhz fz o.
Proof.
  revert g; induction fz as [|a fz IH]; intros [|g]; simpl; try lia.
  - pose proof (nhz_nonneg fz o). lia.
  - specialize (IH g). pose proof (ind_range a o). lia.
Qed.

Lemma hget_upd hs h s h' : (h < length hs)%nat ->
  hget (upd hs h s) h' = if Nat.eqb h h' then s else hget hs h'.
Proof.
  intro H. unfold hget. destruct (Nat.eqb_spec h h') as [->|N].
  - now apply nth_upd_same.
  - now apply nth_upd_other.
Qed.

Lemma is_live_lt hs h : is_live hs h = true -> (h < length hs)%nat.
Proof.
  unfold is_live, hget. intro H. destruct (Nat.lt_ge_cases h (length hs)) as [L|G]; auto.
  rewrite nth_overflow in H by lia. discriminate.
Qed.

Lemma nh_repeat_dead k o : nh (repeat SDead k) o = 0.
Proof. induction k; simpl; auto. Qed.

Lemma nh_map_tgt hs o : nhz (map slot_tgt hs) o = nh hs o.
Proof. induction hs as [|s hs IH]; simpl; auto. now rewrite IH. Qed.

(* ------------------------------------------------------------------ heap *)
Lemma alive_in_range hp o : alive (getobj hp o) = true -> (o < length (objs hp))%nat.
Proof.
  unfold getobj. intro H. destruct (Nat.lt_ge_cases o (length (objs hp))) as [L|G]; auto.
  rewrite nth_overflow in H by lia. discriminate.
Qed.

Lemma getobj_upd hp o x o' e l : (o < length (objs hp))%nat ->
  getobj (mkHeap (upd (objs hp) o x) e l) o' = if Nat.eqb o o' then x else getobj hp o'.
Proof.
  intro H. unfold getobj; simpl. destruct (Nat.eqb_spec o o') as [->|N].
  - now apply nth_upd_same.
  - now apply nth_upd_other.
Qed.

(* ------------------------------------------------------------------ the invariant *)
Definition holdv fz rem fr hs o : Z := nh (final_hs fz rem fr hs) o - rem_incs fz rem fr hs o.

Lemma hold_holdv fz th o : hold fz th o = holdv fz (t_rem th) (t_fr th) (t_hs th) o.
Proof. reflexivity. Qed.

(* what must hold just before a micro-operation is executed *)
Definition head_ok fz (m : mop) (rem : list mop) fr hs : Prop :=
  match m with
  | MInc g p => match eval fz fr hs p with
                | None => g = true
                | Some o => 1 <= holdv fz (m :: rem) fr hs o \/ 1 <= nhz fz o \/ f_cj fr = Some o
                end
  | MDec g p => match eval fz fr hs p with
                | None => g = true
                | Some o => 1 <= holdv fz (m :: rem) fr hs o
                end
  | MStore DArg _ => match f_arg fr with AOwn _ | ARaw _ => True | _ => False end
  | MUnknown => False
  | _ => True
  end.

(* thread-local: along the rest of the member, the thread never holds a negative number of
   references and every RMW is on an object it holds (or the shared array / creator holds) *)
Fixpoint safe fz (rem : list mop) fr hs : Prop :=
  (forall o, 0 <= holdv fz rem fr hs o) /\
  match rem with
  | [] => True
  | m :: r => head_ok fz m r fr hs /\ safe fz r (fst (pexec fz m fr hs)) (snd (pexec fz m fr hs))
  end.

Definition cntq hp o : Z := cnt (getobj hp o) - creator (getobj hp o).

Definition cj_ok hp (th : thread) : Prop :=
  t_rem th <> [] -> forall o, f_cj (t_fr th) = Some o -> 1 <= creator (getobj hp o).

Record GInv (hp : heap) (fz : list (option id)) (ths : list thread) : Prop := {
  gi_err : err hp = false;
  gi_eq : forall o, cntq hp o = nhz fz o + sum_hold fz ths o;
  gi_cre : forall o, 0 <= creator (getobj hp o);
  gi_alive : forall o, alive (getobj hp o) = (1 <=? cnt (getobj hp o));
  gi_safe : Forall (fun th => safe fz (t_rem th) (t_fr th) (t_hs th)) ths;
  gi_cj : Forall (cj_ok hp) ths;
  gi_dels : forall o, dels (log hp) o =
                      if Nat.ltb o (length (objs hp)) && negb (alive (getobj hp o)) then 1 else 0
}.

Lemma sum_hold_app fz l1 l2 o : sum_hold fz (l1 ++ l2) o = sum_hold fz l1 o + sum_hold fz l2 o.
Proof. induction l1 as [|a l1 IH]; simpl; [lia|]. rewrite IH. lia. Qed.

Lemma safe_hold_nonneg fz rem fr hs o : safe fz rem fr hs -> 0 <= holdv fz rem fr hs o.
Proof. destruct rem; simpl; intros [H _]; apply H. Qed.

Lemma sum_hold_nonneg fz ths o :
  Forall (fun th => safe fz (t_rem th) (t_fr th) (t_hs th)) ths -> 0 <= sum_hold fz ths o.
Proof.
  induction 1 as [|th ths H _ IH]; simpl; [lia|].
  pose proof (safe_hold_nonneg _ _ _ _ o H). rewrite hold_holdv. lia.
Qed.

(* the count of o is at least what the shared array and any one thread hold *)
Lemma cnt_lower hp fz l1 th l2 o :
  GInv hp fz (l1 ++ th :: l2) ->
  creator (getobj hp o) + nhz fz o + hold fz th o <= cnt (getobj hp o).
Proof.
  intro I. pose proof (gi_eq _ _ _ I o) as E. unfold cntq in E.
  rewrite sum_hold_app in E. simpl in E.
  pose proof (gi_safe _ _ _ I) as S. apply Forall_app in S as [S1 S2]. inversion S2 as [|? ? _ S3]; subst.
  pose proof (sum_hold_nonneg fz l1 o S1). pose proof (sum_hold_nonneg fz l2 o S3). lia.
Qed.

Lemma holdv_step fz m r fr hs o :
  holdv fz (m :: r) fr hs o =
  holdv fz r (fst (pexec fz m fr hs)) (snd (pexec fz m fr hs)) o -
  match m with MInc _ p => ind (eval fz fr hs p) o | MDec _ p => - ind (eval fz fr hs p) o | _ => 0 end.
Proof. unfold holdv. simpl. destruct (pexec fz m fr hs) as [fr' hs']. simpl. lia. Qed.

Lemma cj_pexec fz m fr hs : f_cj (fst (pexec fz m fr hs)) = f_cj fr.
Proof. destruct m as [g p|g p|[| |k] p| |]; simpl; auto. destruct (f_arg fr); auto. Qed.

Lemma dels_cons_inc o l x : dels (EInc o :: l) x = dels l x. Proof. reflexivity. Qed.

(* one micro-operation of one thread *)
Lemma micro_step hp fz l1 l2 hs fr m rem :
  GInv hp fz (l1 ++ mkT hs (m :: rem) fr :: l2) ->
  GInv (hexec fz m fr hs hp) fz
       (l1 ++ mkT (snd (pexec fz m fr hs)) rem (fst (pexec fz m fr hs)) :: l2).
Proof.
  intro I.
  pose proof (gi_safe _ _ _ I) as S. apply Forall_app in S as [S1 S2].
  inversion S2 as [|? ? St S3]; subst. simpl in St. destruct St as (Hnn & Hhead & Stail).
  pose proof (gi_cj _ _ _ I) as C. apply Forall_app in C as [C1 C2].
  inversion C2 as [|? ? Ct C3]; subst.
  set (th := mkT hs (m :: rem) fr) in *.
  set (th' := mkT (snd (pexec fz m fr hs)) rem (fst (pexec fz m fr hs))).
  assert (Hhold : forall o, hold fz th' o = hold fz th o +
            match m with MInc _ p => ind (eval fz fr hs p) o | MDec _ p => - ind (eval fz fr hs p) o | _ => 0 end).
  { intro o. rewrite !hold_holdv. unfold th, th'; simpl. rewrite holdv_step. lia. }
  assert (Hsafe' : Forall (fun t => safe fz (t_rem t) (t_fr t) (t_hs t)) (l1 ++ th' :: l2)).
  { apply Forall_app; split; auto. }
  assert (Hcj_same : forall hp', (forall o, creator (getobj hp' o) = creator (getobj hp o)) ->
                                 Forall (cj_ok hp') (l1 ++ th' :: l2)).
  { intros hp' Hc. apply Forall_app; split; [|constructor].
    - eapply Forall_impl; [|exact C1]. intros t Ht N o E. rewrite Hc. now apply Ht.
    - intros N o E. unfold th' in E; simpl in E. rewrite cj_pexec in E. rewrite Hc.
      apply Ct; [discriminate|exact E].
    - eapply Forall_impl; [|exact C3]. intros t Ht N o E. rewrite Hc. now apply Ht. }
  (* operations that leave the heap alone *)
  assert (Hnoheap : hexec fz m fr hs hp = hp ->
                    (forall o, hold fz th' o = hold fz th o) ->
                    GInv (hexec fz m fr hs hp) fz (l1 ++ th' :: l2)).
  { intros E Hh. rewrite E. constructor; try apply I; auto; try (apply Hcj_same; reflexivity).
    intro o. rewrite (gi_eq _ _ _ I o). rewrite !sum_hold_app. simpl. rewrite Hh. reflexivity. }
  destruct m as [g p|g p|d p| |].
  - (* MInc *)
    simpl in Hhead. simpl. destruct (eval fz fr hs p) as [o|] eqn:Ev.
    + assert (Hal : alive (getobj hp o) = true).
      { rewrite (gi_alive _ _ _ I). apply Z.leb_le.
        pose proof (cnt_lower _ _ _ _ _ o I) as L. fold th in L. rewrite hold_holdv in L. simpl in L.
        pose proof (gi_cre _ _ _ I o). pose proof (nhz_nonneg fz o). specialize (Hnn o).
        destruct Hhead as [Hj|[Hj|Hj]]; try lia.
        assert (1 <= creator (getobj hp o)) by (apply Ct; [discriminate|exact Hj]). lia. }
      pose proof (alive_in_range _ _ Hal) as Hr.
      unfold rmw_inc. rewrite Hal.
      assert (Hg : forall o', getobj (mkHeap (upd (objs hp) o (mkObj (cnt (getobj hp o) + 1) true (creator (getobj hp o)))) (err hp) (EInc o :: log hp)) o' =
                   if Nat.eqb o o' then mkObj (cnt (getobj hp o) + 1) true (creator (getobj hp o)) else getobj hp o')
        by (intro; now apply getobj_upd).
      constructor; simpl.
      * apply I.
      * intro o'. unfold cntq. rewrite Hg. rewrite sum_hold_app. simpl. rewrite Hhold. simpl.
        pose proof (gi_eq _ _ _ I o') as E. unfold cntq in E. rewrite sum_hold_app in E. simpl in E.
        destruct (Nat.eqb_spec o o') as [->|N]; simpl; lia.
      * intro o'. rewrite Hg. destruct (Nat.eqb_spec o o') as [->|N]; simpl; apply I.
      * intro o'. rewrite Hg. destruct (Nat.eqb_spec o o') as [->|N]; simpl; [|apply I].
        pose proof (gi_alive _ _ _ I o') as A. rewrite Hal in A. symmetry in A. apply Z.leb_le in A.
        symmetry. apply Z.leb_le. lia.
      * exact Hsafe'.
      * apply Hcj_same. intro o'. rewrite Hg. destruct (Nat.eqb_spec o o') as [->|N]; reflexivity.
      * intro o'. rewrite Hg, length_upd. rewrite (gi_dels _ _ _ I o').
        destruct (Nat.eqb_spec o o') as [->|N]; simpl; [|reflexivity]. now rewrite Hal.
    + subst g. assert (E : hexec fz (MInc true p) fr hs hp = hp) by (simpl; now rewrite Ev).
      assert (R : forall o, hold fz th' o = hold fz th o) by (intro o; rewrite Hhold; simpl; lia).
      pose proof (Hnoheap E R) as G. rewrite E in G. exact G.
  - (* MDec *)
    simpl in Hhead. simpl. destruct (eval fz fr hs p) as [o|] eqn:Ev.
    + pose proof (cnt_lower _ _ _ _ _ o I) as L. fold th in L. rewrite hold_holdv in L. simpl in L.
      pose proof (gi_cre _ _ _ I o) as Hc0. pose proof (nhz_nonneg fz o) as Hz0.
      assert (Hc1 : 1 <= cnt (getobj hp o)) by lia.
      assert (Hal : alive (getobj hp o) = true) by (rewrite (gi_alive _ _ _ I); now apply Z.leb_le).
      pose proof (alive_in_range _ _ Hal) as Hr.
      unfold rmw_dec. rewrite Hal.
      set (c := cnt (getobj hp o) - 1).
      set (nb := mkObj c (negb (c =? 0)) (creator (getobj hp o))).
      assert (Hshape : (if c =? 0
                        then mkHeap (upd (objs hp) o (mkObj c false (creator (getobj hp o)))) (err hp) (EDel o :: EDec o :: log hp)
                        else mkHeap (upd (objs hp) o (mkObj c true (creator (getobj hp o)))) (err hp) (EDec o :: log hp)) =
                       mkHeap (upd (objs hp) o nb) (err hp) (if c =? 0 then EDel o :: EDec o :: log hp else EDec o :: log hp)).
      { unfold nb. destruct (c =? 0); reflexivity. }
      rewrite Hshape. clear Hshape.
      assert (Hg : forall o' lg, getobj (mkHeap (upd (objs hp) o nb) (err hp) lg) o' = if Nat.eqb o o' then nb else getobj hp o')
        by (intros; now apply getobj_upd).
      constructor; simpl.
      * apply I.
      * intro o'. unfold cntq. rewrite Hg. rewrite sum_hold_app. simpl. rewrite Hhold. simpl.
        pose proof (gi_eq _ _ _ I o') as E. unfold cntq in E. rewrite sum_hold_app in E. simpl in E.
        destruct (Nat.eqb_spec o o') as [->|N]; simpl; unfold c; lia.
      * intro o'. rewrite Hg. destruct (Nat.eqb_spec o o') as [->|N]; simpl; apply I.
      * intro o'. rewrite Hg. destruct (Nat.eqb_spec o o') as [->|N]; simpl; [|apply I].
        unfold c. destruct (Z.eqb_spec (cnt (getobj hp o') - 1) 0) as [E0|N0]; simpl; symmetry.
        -- apply Z.leb_gt. lia.
        -- apply Z.leb_le. lia.
      * exact Hsafe'.
      * apply Hcj_same. intro o'. rewrite Hg. destruct (Nat.eqb_spec o o') as [->|N]; reflexivity.
      * intro o'. rewrite Hg, length_upd. pose proof (gi_dels _ _ _ I o') as D.
        destruct (Nat.eqb_spec o o') as [<-|N].
        -- rewrite Hal in D. apply Nat.ltb_lt in Hr. rewrite Hr in *. simpl in D. simpl.
           destruct (c =? 0); simpl; rewrite ?Nat.eqb_refl; lia.
        -- assert (Nat.eqb o o' = false) as F by now apply Nat.eqb_neq.
           destruct (c =? 0); simpl; rewrite ?F; exact D.
    + subst g. assert (E : hexec fz (MDec true p) fr hs hp = hp) by (simpl; now rewrite Ev).
      assert (R : forall o, hold fz th' o = hold fz th o) by (intro o; rewrite Hhold; simpl; lia).
      pose proof (Hnoheap E R) as G. rewrite E in G. exact G.
  - (* MStore *)
    apply Hnoheap; [|intro o; rewrite Hhold; lia].
    destruct d; simpl; auto. simpl in Hhead. destruct (f_arg fr); auto; contradiction.
  - apply Hnoheap; [reflexivity|intro o; rewrite Hhold; lia].
  - simpl in Hhead. contradiction.
Qed.

(* ------------------------------------------------------------------ every member, from a legal start *)
Definition arg_justified fz (fr : frame) hs (p : option id) : Prop :=
  match p with None => True | Some o => 1 <= nh hs o \/ 1 <= nhz fz o \/ f_cj fr = Some o end.
Definition src_okP (fr : frame) hs : Prop :=
  match f_arg fr with AOwn g => is_live hs g = true | AFrozen _ => True | _ => False end.
Definition mov_okP (fr : frame) hs : Prop :=
  match f_arg fr with AOwn g => is_live hs g = true | _ => False end.
Definition raw_okP fz (fr : frame) hs : Prop :=
  match f_arg fr with ARaw p => arg_justified fz fr hs p | _ => False end.

Definition frame_ok fz (m : meth) (fr : frame) hs : Prop :=
  match m with
  | MDtor => is_live hs (f_this fr) = true /\ f_arg fr = ANone
  | MDefCtor => is_deadslot hs (f_this fr) = true /\ f_arg fr = ANone
  | MCopyCtor | MConvCtor => is_deadslot hs (f_this fr) = true /\ src_okP fr hs
  | MMoveCtor => is_deadslot hs (f_this fr) = true /\ mov_okP fr hs
  | MRawCtor => is_deadslot hs (f_this fr) = true /\ raw_okP fz fr hs
  | MCopyAssign => is_live hs (f_this fr) = true /\ src_okP fr hs
  | MMoveAssign => is_live hs (f_this fr) = true /\ mov_okP fr hs
  | MRawAssign => is_live hs (f_this fr) = true /\ raw_okP fz fr hs
  end.

Lemma deadslot_facts hs h : is_deadslot hs h = true -> (h < length hs)%nat /\ hget hs h = SDead.
Proof.
  unfold is_deadslot, is_live. intro H. apply andb_true_iff in H as [H1 H2]. apply Nat.ltb_lt in H1.
  split; auto. destruct (hget hs h); auto; discriminate.
Qed.

Ltac eqbs := repeat match goal with
  | |- context[Nat.eqb ?a ?b] => destruct (Nat.eqb_spec a b); subst
  | H : context[Nat.eqb ?a ?b] |- _ => destruct (Nat.eqb_spec a b); subst end.

Ltac norm :=
  repeat (rewrite ?nh_upd, ?hget_upd, ?length_upd by (rewrite ?length_upd; assumption)).


Ltac splits := repeat match goal with |- _ /\ _ => split | |- True => exact I | |- true = true => reflexivity end.
Ltac facts hs h g fz :=
  repeat match goal with x : id |- _ =>
     lazymatch goal with
     | _ : 0 <= nh hs x |- _ => fail
     | _ => pose proof (nh_nonneg hs x); pose proof (nh_ge_ind hs h x); pose proof (nh_ge_ind hs g x); pose proof (nhz_ge_ind fz g x)
     end end.
Ltac refold := repeat match goal with |- context[nth ?h ?l SDead] => change (nth h l SDead) with (hget l h) end.
Ltac rwE fz := repeat match goal with
  | E : hget _ _ = _ |- _ => rewrite E
  | E : nth _ fz None = _ |- _ => rewrite E end.
Ltac crunch fz := repeat (cbn [slot_tgt ind fst snd] in *; refold; norm; rwE fz; eqbs).
Ltac fin hs h g fz :=
  simpl; splits; try lazymatch goal with |- forall _ : id, _ => let o := fresh "o" in intro o end; norm; rwE fz; facts hs h g fz;
  repeat match goal with E : hget _ _ = _, H : _ |- _ => rewrite E in H end;
  repeat match goal with E : nth _ fz None = _, H : _ |- _ => rewrite E in H end;
  crunch fz; try lia; auto;
  try first [ left; lia | right; left; lia | right; right; congruence ].

Lemma live_not_dead hs h : is_live hs h = true -> hget hs h <> SDead.
Proof. unfold is_live. destruct (hget hs h); congruence. Qed.

Lemma prog_safe fz m fr hs : frame_ok fz m fr hs ->
  safe fz (prog_of model_table m) fr hs /\ forall o, holdv fz (prog_of model_table m) fr hs o = nh hs o.
Proof.
  destruct fr as [h a loc cj].
  assert (CopyCtorCase : is_deadslot hs h = true -> src_okP (mkFrame h a loc cj) hs ->
            safe fz [MStore DThis PArg; MInc true PThis] (mkFrame h a loc cj) hs /\
            forall o, holdv fz [MStore DThis PArg; MInc true PThis] (mkFrame h a loc cj) hs o = nh hs o).
  { intros F S. destruct (deadslot_facts _ _ F) as [Hlt Eh]. unfold src_okP in S; simpl in S.
    destruct a as [|g|g|p]; try contradiction.
    - pose proof (is_live_lt _ _ S) as Hgt. pose proof (live_not_dead _ _ S) as Hnd.
      assert (h <> g) by (intros ->; congruence).
      simpl; simpl; unfold holdv; cbn; refold; refold. norm. destruct (Nat.eqb_spec h g); [congruence|].
      destruct (hget hs g) as [|[v|]] eqn:Eg; [congruence| |]; simpl.
      all: fin hs h g fz.
    - simpl; simpl; unfold holdv; cbn; refold; refold. norm. destruct (nth g fz None) as [v|] eqn:Eg; simpl.
      all: fin hs h g fz. }
  assert (RawCtorCase : is_deadslot hs h = true -> raw_okP fz (mkFrame h a loc cj) hs ->
            safe fz [MStore DThis PArg; MInc true PThis] (mkFrame h a loc cj) hs /\
            forall o, holdv fz [MStore DThis PArg; MInc true PThis] (mkFrame h a loc cj) hs o = nh hs o).
  { intros F S. destruct (deadslot_facts _ _ F) as [Hlt Eh]. unfold raw_okP in S; simpl in S.
    destruct a as [|g|g|p]; try contradiction.
    simpl; simpl; unfold holdv; cbn; refold; refold. norm. destruct p as [v|]; simpl in S; [destruct S as [J|[J|J]]|].
    all: fin hs h h fz. }
  assert (CopyAssignCase : is_live hs h = true -> src_okP (mkFrame h a loc cj) hs ->
            safe fz [MInc true PArg; MDec true PThis; MStore DThis PArg] (mkFrame h a loc cj) hs /\
            forall o, holdv fz [MInc true PArg; MDec true PThis; MStore DThis PArg] (mkFrame h a loc cj) hs o = nh hs o).
  { intros F S. pose proof (is_live_lt _ _ F) as Hlt. pose proof (live_not_dead _ _ F) as Hndh.
    unfold src_okP in S; simpl in S.
    destruct a as [|g|g|p]; try contradiction.
    - pose proof (is_live_lt _ _ S) as Hgt. pose proof (live_not_dead _ _ S) as Hnd.
      simpl; simpl; unfold holdv; cbn; refold; refold.
      destruct (hget hs h) as [|[u|]] eqn:Eh; [congruence| |];
      (destruct (Nat.eq_dec h g) as [E|N];
       [ pose proof Eh as Eg; rewrite E in Eg
       | destruct (hget hs g) as [|[v|]] eqn:Eg; [congruence| |] ]); simpl.
      all: fin hs h g fz.
    - simpl; simpl; unfold holdv; cbn; refold; refold.
      destruct (hget hs h) as [|[u|]] eqn:Eh; [congruence| |];
      destruct (nth g fz None) as [v|] eqn:Eg; simpl.
      all: fin hs h g fz. }
  assert (RawAssignCase : is_live hs h = true -> raw_okP fz (mkFrame h a loc cj) hs ->
            safe fz [MInc true PArg; MDec true PThis; MStore DThis PArg] (mkFrame h a loc cj) hs /\
            forall o, holdv fz [MInc true PArg; MDec true PThis; MStore DThis PArg] (mkFrame h a loc cj) hs o = nh hs o).
  { intros F S. pose proof (is_live_lt _ _ F) as Hlt. pose proof (live_not_dead _ _ F) as Hndh.
    unfold raw_okP in S; simpl in S.
    destruct a as [|g|g|p]; try contradiction.
    simpl; simpl; unfold holdv; cbn; refold; refold.
    destruct (hget hs h) as [|[u|]] eqn:Eh; [congruence| |];
    (destruct p as [v|]; simpl in S; [destruct S as [J|[J|J]]|]); simpl.
    all: fin hs h h fz. }
  destruct m; simpl; intro F.
  - (* dtor *) destruct F as [F _]. pose proof (is_live_lt _ _ F) as Hlt. pose proof (live_not_dead _ _ F) as Hnd.
    simpl; simpl; unfold holdv; cbn; refold; refold.
    destruct (hget hs h) as [|[u|]] eqn:Eh; [congruence| |]; simpl.
    all: fin hs h h fz.
  - (* default ctor *) destruct F as [F _]. destruct (deadslot_facts _ _ F) as [Hlt Eh]. simpl; simpl; unfold holdv; cbn; refold; refold. fin hs h h fz.
  - now apply CopyCtorCase.
  - (* move ctor *) destruct F as [F S]. destruct (deadslot_facts _ _ F) as [Hlt Eh]. unfold mov_okP in S; simpl in S.
    destruct a as [|g|g|p]; try contradiction.
    pose proof (is_live_lt _ _ S) as Hgt. pose proof (live_not_dead _ _ S) as Hnd.
    assert (h <> g) by (intros ->; congruence).
    simpl; simpl; unfold holdv; cbn; refold; refold. norm. destruct (Nat.eqb_spec h g); [congruence|].
    destruct (hget hs g) as [|[v|]] eqn:Eg; [congruence| |]; simpl.
    all: fin hs h g fz.
  - now apply CopyCtorCase.
  - now apply RawCtorCase.
  - now apply CopyAssignCase.
  - (* move assign *) destruct F as [F S]. pose proof (is_live_lt _ _ F) as Hlt. pose proof (live_not_dead _ _ F) as Hndh.
    unfold mov_okP in S; simpl in S.
    destruct a as [|g|g|p]; try contradiction.
    pose proof (is_live_lt _ _ S) as Hgt. pose proof (live_not_dead _ _ S) as Hnd.
    simpl; simpl; unfold holdv; cbn; refold; refold.
    destruct (hget hs h) as [|[u|]] eqn:Eh; [congruence| |];
    (destruct (Nat.eq_dec h g) as [E|N];
     [ pose proof Eh as Eg; rewrite E in Eg
     | destruct (hget hs g) as [|[v|]] eqn:Eg; [congruence| |] ]); simpl.
    all: fin hs h g fz.
  - now apply RawAssignCase.
Qed.

(* ------------------------------------------------------------------ whole members, explicit calls, creation *)
Lemma run_prog_inv fz rem : forall hp l1 l2 hs fr,
  GInv hp fz (l1 ++ mkT hs rem fr :: l2) ->
  GInv (snd (run_prog fz rem (fr, hs, hp))) fz
       (l1 ++ mkT (snd (fst (run_prog fz rem (fr, hs, hp)))) [] (fst (fst (run_prog fz rem (fr, hs, hp)))) :: l2).
Proof.
  induction rem as [|m rem IH]; intros hp l1 l2 hs fr I; simpl.
  - exact I.
  - apply micro_step in I. destruct (pexec fz m fr hs) as [fr' hs'] eqn:E. simpl in I.
    apply IH in I. exact I.
Qed.

Lemma start_step hp fz l1 l2 hs fr0 m fr :
  GInv hp fz (l1 ++ mkT hs [] fr0 :: l2) ->
  frame_ok fz m fr hs ->
  (forall o, f_cj fr = Some o -> 1 <= creator (getobj hp o)) ->
  GInv hp fz (l1 ++ mkT hs (prog_of model_table m) fr :: l2).
Proof.
  intros I F C. destruct (prog_safe _ _ _ _ F) as [S B].
  pose proof (gi_safe _ _ _ I) as S0. apply Forall_app in S0 as [S1 S2]. inversion S2 as [|? ? _ S3]; subst.
  pose proof (gi_cj _ _ _ I) as C0. apply Forall_app in C0 as [C1 C2]. inversion C2 as [|? ? _ C3]; subst.
  constructor; try apply I.
  - intro o. rewrite (gi_eq _ _ _ I o). rewrite !sum_hold_app. simpl. rewrite !hold_holdv. simpl.
    rewrite B. unfold holdv. simpl. lia.
  - apply Forall_app; split; auto.
  - apply Forall_app; split; auto. constructor; auto. intros _ o E. simpl in E. now apply C.
Qed.

Definition idle (th : thread) : Prop := t_rem th = [].

Lemma cj_ok_idle hp th : idle th -> cj_ok hp th.
Proof. intros E N. contradiction. Qed.

(* an explicit refInc on a live object *)
Lemma expl_inc_step hp fz ths o :
  GInv hp fz ths -> alive (getobj hp o) = true ->
  GInv (rmw_inc true o hp) fz ths.
Proof.
  intros I Hal. pose proof (alive_in_range _ _ Hal) as Hr. unfold rmw_inc. rewrite Hal.
  assert (Hg : forall o', getobj (mkHeap (upd (objs hp) o (mkObj (cnt (getobj hp o) + 1) true (creator (getobj hp o) + 1))) (err hp) (EInc o :: log hp)) o' =
               if Nat.eqb o o' then mkObj (cnt (getobj hp o) + 1) true (creator (getobj hp o) + 1) else getobj hp o')
    by (intro; now apply getobj_upd).
  constructor; simpl.
  - apply I.
  - intro o'. unfold cntq. rewrite Hg. pose proof (gi_eq _ _ _ I o') as E. unfold cntq in E.
    destruct (Nat.eqb_spec o o') as [->|N]; simpl; lia.
  - intro o'. rewrite Hg. pose proof (gi_cre _ _ _ I o'). destruct (Nat.eqb_spec o o') as [->|N]; simpl; lia.
  - intro o'. rewrite Hg. destruct (Nat.eqb_spec o o') as [->|N]; simpl; [|apply I].
    pose proof (gi_alive _ _ _ I o') as A. rewrite Hal in A. symmetry in A. apply Z.leb_le in A.
    symmetry. apply Z.leb_le. lia.
  - apply I.
  - eapply Forall_impl; [|apply (gi_cj _ _ _ I)]. intros t Ht N o' E. rewrite Hg.
    specialize (Ht N o' E). destruct (Nat.eqb_spec o o') as [->|N']; simpl; lia.
  - intro o'. rewrite Hg, length_upd. rewrite (gi_dels _ _ _ I o').
    destruct (Nat.eqb_spec o o') as [->|N]; simpl; [|reflexivity]. now rewrite Hal.
Qed.

(* an explicit refDec that releases an existing creator-side reference, while no member that
   relies on that reference is in flight *)
Lemma expl_dec_step hp fz ths o :
  GInv hp fz ths -> alive (getobj hp o) = true -> 1 <= creator (getobj hp o) ->
  Forall (fun th => t_rem th <> [] -> f_cj (t_fr th) = None) ths ->
  GInv (rmw_dec true o hp) fz ths.
Proof.
  intros I Hal Hc Hn. pose proof (alive_in_range _ _ Hal) as Hr. unfold rmw_dec. rewrite Hal.
  set (c := cnt (getobj hp o) - 1).
  set (nb := mkObj c (negb (c =? 0)) (creator (getobj hp o) - 1)).
  assert (Hshape : (if c =? 0
                    then mkHeap (upd (objs hp) o (mkObj c false (creator (getobj hp o) - 1))) (err hp) (EDel o :: EDec o :: log hp)
                    else mkHeap (upd (objs hp) o (mkObj c true (creator (getobj hp o) - 1))) (err hp) (EDec o :: log hp)) =
                   mkHeap (upd (objs hp) o nb) (err hp) (if c =? 0 then EDel o :: EDec o :: log hp else EDec o :: log hp)).
  { unfold nb. destruct (c =? 0); reflexivity. }
  rewrite Hshape. clear Hshape.
  assert (Hg : forall o' lg, getobj (mkHeap (upd (objs hp) o nb) (err hp) lg) o' = if Nat.eqb o o' then nb else getobj hp o')
    by (intros; now apply getobj_upd).
  pose proof (gi_eq _ _ _ I o) as Eo. unfold cntq in Eo.
  pose proof (sum_hold_nonneg fz ths o (gi_safe _ _ _ I)) as Hs. pose proof (nhz_nonneg fz o) as Hz.
  constructor; simpl.
  - apply I.
  - intro o'. unfold cntq. rewrite Hg. pose proof (gi_eq _ _ _ I o') as E. unfold cntq in E.
    destruct (Nat.eqb_spec o o') as [->|N]; simpl; unfold c; lia.
  - intro o'. rewrite Hg. pose proof (gi_cre _ _ _ I o'). destruct (Nat.eqb_spec o o') as [->|N]; simpl; lia.
  - intro o'. rewrite Hg. destruct (Nat.eqb_spec o o') as [->|N]; simpl; [|apply I].
    unfold c. destruct (Z.eqb_spec (cnt (getobj hp o') - 1) 0) as [E0|N0]; simpl; symmetry.
    + apply Z.leb_gt. lia.
    + apply Z.leb_le. lia.
  - apply I.
  - rewrite Forall_forall in *. intros t Ht N o' E. specialize (Hn t Ht N). congruence.
  - intro o'. rewrite Hg, length_upd. pose proof (gi_dels _ _ _ I o') as D.
    destruct (Nat.eqb_spec o o') as [<-|N].
    + rewrite Hal in D. apply Nat.ltb_lt in Hr. rewrite Hr in *. simpl in D. simpl.
      destruct (c =? 0); simpl; rewrite ?Nat.eqb_refl; lia.
    + assert (Nat.eqb o o' = false) as F by now apply Nat.eqb_neq.
      destruct (c =? 0); simpl; rewrite ?F; exact D.
Qed.

Lemma getobj_app_new hp x e l o :
  getobj (mkHeap (objs hp ++ [x]) e l) o =
  if Nat.eqb o (length (objs hp)) then x else getobj hp o.
Proof.
  unfold getobj; simpl. destruct (Nat.eqb_spec o (length (objs hp))) as [->|N].
  - rewrite app_nth2 by lia. now rewrite Nat.sub_diag.
  - destruct (Nat.lt_ge_cases o (length (objs hp))).
    + now rewrite app_nth1.
    + rewrite !nth_overflow; auto; try lia. rewrite app_length; simpl; lia.
Qed.

Lemma create_step hp fz ths :
  GInv hp fz ths ->
  GInv (mkHeap (objs hp ++ [mkObj 1 true 1]) (err hp) (log hp)) fz ths.
Proof.
  intro I.
  assert (Hnew : getobj hp (length (objs hp)) = obj0) by (unfold getobj; apply nth_overflow; lia).
  constructor; simpl.
  - apply I.
  - intro o. unfold cntq. rewrite getobj_app_new. destruct (Nat.eqb_spec o (length (objs hp))) as [->|N]; [|apply I].
    pose proof (gi_eq _ _ _ I (length (objs hp))) as E. unfold cntq in E. rewrite Hnew in E. simpl in *. lia.
  - intro o. rewrite getobj_app_new. destruct (Nat.eqb o (length (objs hp))); simpl; [lia|apply I].
  - intro o. rewrite getobj_app_new. destruct (Nat.eqb o (length (objs hp))); simpl; [reflexivity|apply I].
  - apply I.
  - eapply Forall_impl; [|apply (gi_cj _ _ _ I)]. intros t Ht N o E. specialize (Ht N o E).
    rewrite getobj_app_new. destruct (Nat.eqb_spec o (length (objs hp))) as [->|N']; simpl; auto.
    rewrite Hnew in Ht. simpl in Ht. lia.
  - intro o. rewrite getobj_app_new, app_length. simpl. rewrite (gi_dels _ _ _ I o).
    destruct (Nat.eqb_spec o (length (objs hp))) as [->|N]; simpl.
    + rewrite Nat.ltb_irrefl. simpl. rewrite andb_false_r. reflexivity.
    + destruct (Nat.ltb_spec o (length (objs hp))), (Nat.ltb_spec o (length (objs hp) + 1)); try lia; reflexivity.
Qed.
